import GomlVerif.Lemmas.GoCompStepV
/-! statement-level steps of the simulation: builtin calls, tail expressions, `let`, loops -/
set_option linter.unusedSimpArgs false
set_option linter.unusedVariables false
namespace Goml.GoComp
open Goml Goml.Go Goml.GoCompile Goml.GoFrag
open Goml.Sem (Val World Res Fail)
open Goml.C01 (toG)
open Goml.Dce (keys allDecls lookup_cons_self lookup_cons_ne lookup_none_of_not_key key_of_lookup_some
  keys_update lookup_update_ne lookup_update_self update_not_key)

attribute [local irreducible] Goml.GoCompile.vn Goml.GoCompile.gid Goml.GoCompile.rn

theorem stepB {env : Env} {file : AFile} {G : List String} {P : Prog} {F : GFile} (hl : Link env file G P F) (n : Nat) :
    SimB env P F (n + 1) := by
  intro b ps r hb hsig vs gvs w gw hargs hw
  obtain ⟨v, w', gv, gw', hs, hc, h3, h4, h5⟩ := builtin_call hl.rt hb hsig hargs hw
  rw [Sem.apply]; simp only [hl.builtinSrc b hb, hs]
  exact ⟨gv, gw', hc, h3, h4, h5⟩

theorem sim0 {env : Env} {file : AFile} {G : List String} {P : Prog} {F : GFile} : SimAt env file G P F 0 := by
  refine ⟨?_, ?_, ?_, ?_, ?_, ?_⟩
  · intro g _ _ vs gvs w gw _ _; rw [Sem.apply]; trivial
  · intro b ps r _ _ vs gvs w gw _ _; rw [Sem.apply]; trivial
  · intro c Γ ρ w gρ gw Bad _ _ _ _ _ _; rw [Sem.eval]; trivial
  · intro m st e Γ ρ w gρ gw Bad _ _ _ _ _ _ _; rw [Sem.eval]; trivial
  · intro m st c Γ ρ w gρ gw Bad _ _ _ _ _ _ _; rw [Sem.eval]; trivial
  · intro cv st c b Γ ρ w gρ gw Bad _ _ _ _ _ _ _ _ _ _; rw [Sem.eval]; trivial

/-! ### tail expressions -/

theorem block_single {F ρ w s r} (h : StmtS F ρ w s r) (hr : ∀ ρ' sig w', r = .ok (ρ', sig) w' → sig = .normal) :
    BlockS F ρ w [s] r := by
  cases r with
  | fail f w' => exact block_cons_fail h
  | ok p w' =>
    obtain ⟨ρ', sig⟩ := p
    have := hr ρ' sig w' rfl; subst this
    exact block_cons h block_nil

theorem compileTail_simple (env : Env) (m : Mode) (st : St) {c : CExpr} (h : isCtl c = false) :
    (compileTail env m st c).1 = compileSimple env m c := by
  cases c <;> simp [isCtl] at h <;> rfl

theorem unOK_not_unit (op : UnOp) (te : Ty) : unOK op te .unit = false := by
  cases op <;> cases te <;> simp [unOK, intTy, scalarEq]

theorem binOK_not_unit (op : BinOp) (tl tr : Ty) : binOK op tl tr .unit = false := by
  cases op <;> cases tl <;> simp [binOK, binDom, binResTy, scalarEq, scalarTy]

theorem not_missing {env : Env} {file : AFile} {G : List String} {Γ : Ctx} {f : Imm} {args : List Imm} {ty : Ty}
    (h : callOK env file G Γ f args ty = true) : isMissingCall f ty = false := by
  cases f with
  | var name fty =>
    simp only [callOK, Bool.and_eq_true, Bool.not_eq_true', beq_iff_eq] at h
    obtain ⟨⟨⟨⟨⟨_, hrn⟩, hsp⟩, _⟩, _⟩, _⟩ := h
    simp only [specialCallees, List.contains_cons, List.contains_nil, Bool.or_false, Bool.or_eq_false_iff, beq_eq_false_iff_ne] at hsp
    simp [isMissingCall, callee, hrn, hsp.2.2.2.2.2.2.2.2.2]
  | prim p t => simp [callOK] at h
  | tag i t => simp [callOK] at h

theorem gid_ne_blank {Bad : List String} {gρ : GEnv} {t : String} (hk : gid t ∈ keys gρ)
    (hgood : ∀ y, y ∈ keys gρ → ¬ y ∈ Bad) (hus : "_" ∈ Bad) : gid t ≠ "_" :=
  fun e => hgood _ hk (e ▸ hus)

/-- the simple forms in tail position: nothing / a call statement / an assignment -/
theorem tail_simple {env : Env} {file : AFile} {G : List String} {P : Prog} {F : GFile} {n : Nat}
    (hv : SimV env file G P F (n + 1)) (m : Mode) (st : St) (c : CExpr) (Γ : Ctx) (ρ : Sem.Env) (w : World)
    (gρ : GEnv) (gw : GWorld) (Bad : List String) (hctl : isCtl c = false)
    (hfrag : fragC env file G Γ c = true) (hrel : EnvRel env Γ ρ gρ) (hw : WRel w gw)
    (hgood : ∀ y, y ∈ keys gρ → ¬ y ∈ Bad) (htgt : TgtOK m Γ gρ c.annTy) (hus : "_" ∈ Bad)
    (hcal : ∀ x, x ∈ calleesC c → vn x ∈ Bad) :
    Concl env F (compileSimple env m c) m gρ gw c.annTy (Sem.eval (n + 1) P ρ w c.toExpr) := by
  have hV := hv c Γ ρ w gρ gw Bad hctl hfrag hrel hw hgood hcal
  cases m with
  | assign t =>
    obtain ⟨htk, _⟩ := htgt
    have hne := gid_ne_blank htk hgood hus
    have hshape : compileSimple env (.assign t) c = [.assign (gid t) (compileCExpr env c)] := by
      cases c <;> simp [isCtl] at hctl <;> (try (simp [fragC] at hfrag; done)) <;> simp only [compileSimple]
      rename_i f args ty
      simp only [fragC] at hfrag
      simp [not_missing hfrag]
    rw [hshape]
    revert hV
    cases hres : Sem.eval (n + 1) P ρ w c.toExpr with
    | ok v w' =>
      rintro ⟨gv, gw', he, h3, h4, h5⟩
      exact ⟨[], gv, gw', block_single (stmt_assign hne he) (fun _ _ _ h => by injection h with h; injection h with _ h; exact h.symm),
        h3, h4, h5, fun y hy => by cases hy⟩
    | fail fl w' =>
      cases fl with
      | panic k =>
        rintro ⟨gw', he, h5⟩
        exact ⟨gw', block_single (stmt_assign_fail he) (fun _ _ _ h => by cases h), h5⟩
      | fuel => intro _; trivial
      | stuck s => intro _; trivial
  | effect =>
    have hunit : c.annTy = .unit := htgt
    cases c with
    | imm i =>
      simp only [fragC] at hfrag
      obtain ⟨v, gv, hs, hg, h3, h4⟩ := imm_both env P F hfrag hrel
      simp only [CExpr.toExpr, compileSimple, CExpr.annTy]
      rw [hs n w]
      exact ⟨[], gv, gw, block_nil, h3, h4, hw, fun y hy => by cases hy⟩
    | un op e ty =>
      simp only [fragC, Bool.and_eq_true, CExpr.annTy] at hfrag hunit
      rw [hunit, unOK_not_unit] at hfrag; simp at hfrag
    | bin op l r ty =>
      simp only [fragC, Bool.and_eq_true, CExpr.annTy] at hfrag hunit
      rw [hunit, binOK_not_unit] at hfrag; simp at hfrag
    | call f args ty =>
      simp only [compileSimple]
      revert hV
      cases hres : Sem.eval (n + 1) P ρ w (CExpr.call f args ty).toExpr with
      | ok v w' =>
        rintro ⟨gv, gw', he, h3, h4, h5⟩
        exact ⟨[], gv, gw', block_single (stmt_expr he) (fun _ _ _ h => by injection h with h; injection h with _ h; exact h.symm),
          h3, h4, h5, fun y hy => by cases hy⟩
      | fail fl w' =>
        cases fl with
        | panic k =>
          rintro ⟨gw', he, h5⟩
          exact ⟨gw', block_single (stmt_expr_fail he) (fun _ _ _ h => by cases h), h5⟩
        | fuel => intro _; trivial
        | stuck s => intro _; trivial
    | ite c t e ty => simp [isCtl] at hctl
    | «while» c b ty => simp [isCtl] at hctl
    | matchE s arms d ty => simp [isCtl] at hctl
    | constr c args ty =>
      cases c with
      | enum tn vn' vi => simp [fragC] at hfrag
      | struct sn =>
        simp only [fragC, Bool.and_eq_true, CExpr.annTy] at hfrag hunit
        rw [hunit] at hfrag; simp [scalarEq] at hfrag
    | tuple items ty => simp [fragC] at hfrag
    | array items ty => simp [fragC] at hfrag
    | cget e c idx ty =>
      cases c with
      | enum tn vn' vi => simp [fragC] at hfrag
      | struct sn =>
        simp only [fragC, Bool.and_eq_true, CExpr.annTy] at hfrag hunit
        rw [hunit] at hfrag; simp [scalarEq] at hfrag
    | toDyn tr forTy e ty => simp [fragC] at hfrag
    | dynCall tr m recv args ty => simp [fragC] at hfrag
    | go e ty => simp [fragC] at hfrag
    | proj e idx ty => simp [fragC] at hfrag

/-! ### `if` -/

/-- a statement that runs `S` as a nested block inherits the conclusion about `S` -/
theorem concl_of_nest {F : GFile} {S : List GStmt} {m : Mode} {gρ : GEnv} {gw : GWorld} {ty : Ty} {r : Res Val}
    {s : GStmt} (h : Concl env F S m gρ gw ty r) (hs : ∀ r0, NestS F gρ gw S r0 → StmtS F gρ gw s r0) :
    Concl env F [s] m gρ gw ty r := by
  cases r with
  | ok v w' =>
    obtain ⟨D, gv, gw', hb, h3, h4, h5, _⟩ := h
    have hn := hs _ (nest_of_block hb)
    simp only [popTo, pop_append D _ gρ (length_post m gρ gv)] at hn
    exact ⟨[], gv, gw', block_cons hn block_nil, h3, h4, h5, fun y hy => by cases hy⟩
  | fail fl w' =>
    cases fl with
    | panic k =>
      obtain ⟨gw', hb, h5⟩ := h
      have hn := hs _ (nest_of_block hb)
      exact ⟨gw', block_cons_fail hn, h5⟩
    | fuel => trivial
    | stuck s => trivial

theorem tail_ite {env : Env} {file : AFile} {G : List String} {P : Prog} {F : GFile} {n : Nat}
    (ha : SimA env file G P F n) (m : Mode) (st : St) (c : Imm) (t e : AExpr) (ty : Ty) (Γ : Ctx) (ρ : Sem.Env)
    (w : World) (gρ : GEnv) (gw : GWorld) (Bad : List String)
    (hfrag : fragC env file G Γ (.ite c t e ty) = true) (hrel : EnvRel env Γ ρ gρ) (hw : WRel w gw)
    (hinv : GInv Bad (compileTail env m st (.ite c t e ty)).1 gρ) (htgt : TgtOK m Γ gρ ty) (hus : "_" ∈ Bad)
    (hcal : ∀ x, x ∈ calleesC (.ite c t e ty) → vn x ∈ Bad) :
    Concl env F (compileTail env m st (.ite c t e ty)).1 m gρ gw ty (Sem.eval (n + 1) P ρ w (CExpr.ite c t e ty).toExpr) := by
  simp only [fragC, Bool.and_eq_true] at hfrag
  obtain ⟨⟨⟨⟨⟨hc, hcb⟩, hft⟩, hfe⟩, htt⟩, hte⟩ := hfrag
  have htt' := scalarEq_eq htt
  have hte' := scalarEq_eq hte
  have hcb' := scalarEq_eq hcb
  obtain ⟨v, gv, hs, hg, h3, h4⟩ := imm_both env P F hc hrel
  rw [hcb'] at h4
  obtain ⟨b, rfl⟩ := hasTy_bool h4
  have := toG_bool h3; subst this
  simp only [compileTail] at hinv ⊢
  simp only [CExpr.toExpr]
  rw [Sem.eval]
  rcases sem_imm_any hs (w := w) n with h1 | h1
  · rw [h1]; trivial
  · rw [h1]
    cases b with
    | true =>
      simp only
      have hinv' : GInv Bad (compileA env m (st.check (okImm env c)) t).1 gρ :=
        hinv.of_decls (by rw [allDecls_ite]; exact List.sublist_append_left _ _)
      have := ha m _ t Γ ρ w gρ gw Bad hft hrel hw hinv' (htt' ▸ htgt) hus
        (fun x hx => hcal x (by simp [calleesC, hx]))
      rw [htt'] at this
      exact concl_of_nest this (fun r0 hn => stmt_ite_true (hg gw) hn)
    | false =>
      simp only
      have hinv' : GInv Bad (compileA env m (compileA env m (st.check (okImm env c)) t).2 e).1 gρ :=
        hinv.of_decls (by rw [allDecls_ite]; exact List.sublist_append_right _ _)
      have := ha m _ e Γ ρ w gρ gw Bad hfe hrel hw hinv' (hte' ▸ htgt) hus
        (fun x hx => hcal x (by simp [calleesC, hx]))
      rw [hte'] at this
      exact concl_of_nest this (fun r0 hn => stmt_ite_false (hg gw) hn)

/-! ### `while` in tail position (the loop itself is `SimL`) -/

theorem tail_while_shape (env : Env) (m : Mode) (st : St) (c b : AExpr) (ty : Ty) :
    (compileTail env m st (.while c b ty)).1 =
      [GStmt.varDecl (gid ("cond" ++ toString st.n)) .bool none,
       .loop (loopBody env ("cond" ++ toString st.n) (st.next.check (isBoolTy c.annTy)) c b)] ++
      (match m with
       | .effect => []
       | .assign tgt => [.assign (gid tgt) unitE]) := by
  cases m <;> simp [compileTail, loopBody]

theorem tail_while_decls (x : String) (body : List GStmt) (m : Mode) :
    allDecls ([GStmt.varDecl x .bool none, .loop body] ++
      (match m with | .effect => [] | .assign tgt => [GStmt.assign (gid tgt) unitE])) = x :: allDecls body := by
  cases m <;> simp [allDecls, Goml.Dce.declsOf]

theorem tail_while {env : Env} {file : AFile} {G : List String} {P : Prog} {F : GFile} {n : Nat}
    (hL : SimL env file G P F (n + 1)) (m : Mode) (st : St) (c b : AExpr) (ty : Ty) (Γ : Ctx) (ρ : Sem.Env)
    (w : World) (gρ : GEnv) (gw : GWorld) (Bad : List String)
    (hfrag : fragC env file G Γ (.while c b ty) = true) (hrel : EnvRel env Γ ρ gρ) (hw : WRel w gw)
    (hinv : GInv Bad (compileTail env m st (.while c b ty)).1 gρ) (htgt : TgtOK m Γ gρ ty) (hus : "_" ∈ Bad)
    (hcal : ∀ x, x ∈ calleesC (.while c b ty) → vn x ∈ Bad) :
    Concl env F (compileTail env m st (.while c b ty)).1 m gρ gw ty (Sem.eval (n + 1) P ρ w (CExpr.while c b ty).toExpr) := by
  simp only [fragC, Bool.and_eq_true] at hfrag
  obtain ⟨⟨⟨⟨hfc, hcb⟩, hfb⟩, hbu⟩, htu⟩ := hfrag
  have hcb' := scalarEq_eq hcb
  have hbu' := scalarEq_eq hbu
  have htu' := scalarEq_eq htu
  subst htu'
  rw [tail_while_shape] at hinv ⊢
  simp only [CExpr.toExpr]
  generalize hcv : "cond" ++ toString st.n = cv at hinv ⊢
  generalize hst : st.next.check (isBoolTy c.annTy) = st' at hinv ⊢
  -- names
  have hdecl := tail_while_decls (gid cv) (loopBody env cv st' c b) m
  have hnd := hinv.nodup; rw [hdecl] at hnd
  have hcvfresh : ¬ gid cv ∈ keys gρ := hinv.disj _ (by rw [hdecl]; exact List.mem_cons_self)
  have hcvgood : ¬ gid cv ∈ Bad := hinv.goodD _ (by rw [hdecl]; exact List.mem_cons_self)
  have habs : absurdTy GTy.bool = false := rfl
  have hdecl1 : StmtS F gρ gw (.varDecl (gid cv) .bool none) (.ok ((gid cv, zero F .bool) :: gρ, .normal) gw) :=
    stmt_varDecl_none habs
  let env1 : GEnv := (gid cv, zero F .bool) :: gρ
  have hne : ∀ x tx, lookupTy Γ x = some tx → vn x ≠ gid cv := fun x tx hx e => by
    obtain ⟨_, _, _, h2, _, _⟩ := hrel.1 x tx hx
    exact hcvfresh (e ▸ key_of_lookup_some h2)
  have hrel1 : EnvRel env Γ ρ env1 := hrel.go_agree (fun x tx hx => lookup_cons_ne _ _ (fun e => hne x tx hx e.symm))
  have hinv1 : GInv Bad (loopBody env cv st' c b) env1 := by
    refine ⟨(List.nodup_cons.mp hnd).2, fun y hy hk => ?_, fun y hy => hinv.goodD y (by rw [hdecl]; exact List.mem_cons_of_mem _ hy), fun y hk => ?_⟩
    · simp only [env1, Goml.Dce.keys_cons, List.mem_cons] at hk
      rcases hk with rfl | hk
      · exact (List.nodup_cons.mp hnd).1 hy
      · exact hinv.disj y (by rw [hdecl]; exact List.mem_cons_of_mem _ hy) hk
    · simp only [env1, Goml.Dce.keys_cons, List.mem_cons] at hk
      rcases hk with rfl | hk
      · exact hcvgood
      · exact hinv.goodK y hk
  have htgt1 : TgtOK (.assign cv) Γ env1 .bool := ⟨by simp [env1], hne⟩
  have hloop := hL cv st' c b Γ ρ w env1 gw Bad hfc hcb' hfb hbu' hrel1 hw hinv1 htgt1 hus
    (fun x hx => hcal x (by simpa [calleesC] using hx))
  revert hloop
  cases hres : Sem.eval (n + 1) P ρ w (.while c.toExpr b.toExpr) with
  | ok v w' =>
    rintro ⟨rfl, gw', hlp, h5⟩
    rw [show updateG env1 (gid cv) (.bool false) = (gid cv, .bool false) :: gρ from update_cons_self _ _ _ _] at hlp
    cases m with
    | effect =>
      refine ⟨[(gid cv, .bool false)], .unit, gw', ?_, rfl, trivial, h5, fun y hy => ?_⟩
      · exact block_cons hdecl1 (block_cons hlp block_nil)
      · simp only [Goml.Dce.keys_cons, Goml.Dce.keys_nil, List.mem_singleton] at hy
        subst hy; rw [hdecl]; exact List.mem_cons_self
    | assign t =>
      obtain ⟨htk, _⟩ := htgt
      have hne' : gid t ≠ "_" := gid_ne_blank htk hinv.goodK hus
      have hnecv : ¬ gid t ∈ keys [(gid cv, GVal.bool false)] := by
        simp only [Goml.Dce.keys_cons, Goml.Dce.keys_nil, List.mem_singleton]
        intro e; exact hcvfresh (e ▸ htk)
      have hasg : StmtS F ((gid cv, .bool false) :: gρ) gw' (.assign (gid t) unitE)
          (.ok (updateG ((gid cv, .bool false) :: gρ) (gid t) .unit, .normal) gw') := stmt_assign hne' ev_unitv
      rw [show ((gid cv, GVal.bool false) :: gρ) = [(gid cv, GVal.bool false)] ++ gρ from rfl,
        update_append_left hnecv] at hasg
      refine ⟨[(gid cv, .bool false)], .unit, gw', ?_, rfl, trivial, h5, fun y hy => ?_⟩
      · exact block_cons hdecl1 (block_cons hlp (block_cons hasg block_nil))
      · simp only [Goml.Dce.keys_cons, Goml.Dce.keys_nil, List.mem_singleton] at hy
        subst hy; rw [hdecl]; exact List.mem_cons_self
  | fail fl w' =>
    cases fl with
    | panic k =>
      rintro ⟨gw', hlp, h5⟩
      exact ⟨gw', block_cons hdecl1 (block_cons_fail hlp), h5⟩
    | fuel => intro _; trivial
    | stuck s => intro _; trivial

/-- tail expressions: `compile_aexpr_effect` / `compile_aexpr_assign` on an `ACExpr` -/
theorem stepC {env : Env} {file : AFile} {G : List String} {P : Prog} {F : GFile} {n : Nat}
    (hv : SimV env file G P F (n + 1)) (ha : SimA env file G P F n) (hL : SimL env file G P F (n + 1)) :
    SimC env file G P F (n + 1) := by
  intro m st c Γ ρ w gρ gw Bad hfrag hrel hw hinv htgt hus hcal
  by_cases hctl : isCtl c = false
  · rw [compileTail_simple env m st hctl] at hinv ⊢
    exact tail_simple hv m st c Γ ρ w gρ gw Bad hctl hfrag hrel hw hinv.goodK htgt hus hcal
  · cases c with
    | ite c t e ty => exact tail_ite ha m st c t e ty Γ ρ w gρ gw Bad hfrag hrel hw hinv htgt hus hcal
    | «while» c b ty => exact tail_while hL m st c b ty Γ ρ w gρ gw Bad hfrag hrel hw hinv htgt hus hcal
    | matchE s arms d ty => simp [fragC] at hfrag
    | _ => simp [isCtl] at hctl

end Goml.GoComp
