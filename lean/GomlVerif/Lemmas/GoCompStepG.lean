import GomlVerif.Lemmas.GoCompStepV
/-!
`go e` (`compile_go`): the statement `go apply(env)` against `Sem`'s `go`.  Under the eager schedule both sides run the
`apply` function of the closure environment to completion at the `go` (`SimU`); under the other schedule both sides
append the activation to their `spawned` list, which neither `Sem.run` nor `runGo` looks at again.
-/
set_option linter.unusedSimpArgs false
set_option linter.unusedVariables false
namespace Goml.GoComp
open Goml Goml.Go Goml.GoCompile Goml.GoFrag
open Goml.Sem (Val World Res Fail)
open Goml.Dce (keys lookup_cons_self lookup_cons_ne lookup_none_of_not_key key_of_lookup_some)

attribute [local irreducible] Goml.GoCompile.vn Goml.GoCompile.gid Goml.GoCompile.rn

/-! ### `Go.Sem` rules for the `go` statement -/

theorem stmt_go_eager {F ρ w ty f args fv w1 vs w2 v w3} (hf : EvS F ρ w f (.ok fv w1)) (ha : EvLS F ρ w1 args (.ok vs w2))
    (he : w2.eager = true) (hc : CallS F w2 fv vs (.ok v w3)) :
    StmtS F ρ w (.go (.call ty f args)) (.ok (ρ, .normal) w3) := by
  obtain ⟨m1, h1⟩ := hf
  obtain ⟨m2, h2⟩ := ha
  obtain ⟨m3, h3⟩ := hc
  refine ⟨max m1 (max m2 m3) + 1, fun k hk => ?_⟩
  obtain ⟨k, rfl, hk'⟩ := succ_of_le hk
  rw [execG.eq_def]; simp only [h1 k (by omega), h2 k (by omega), he, if_true, h3 k (by omega)]

theorem stmt_go_eager_fail {F ρ w ty f args fv w1 vs w2 fl w3} (hf : EvS F ρ w f (.ok fv w1)) (ha : EvLS F ρ w1 args (.ok vs w2))
    (he : w2.eager = true) (hc : CallS F w2 fv vs (.fail fl w3)) :
    StmtS F ρ w (.go (.call ty f args)) (.fail fl w3) := by
  obtain ⟨m1, h1⟩ := hf
  obtain ⟨m2, h2⟩ := ha
  obtain ⟨m3, h3⟩ := hc
  refine ⟨max m1 (max m2 m3) + 1, fun k hk => ?_⟩
  obtain ⟨k, rfl, hk'⟩ := succ_of_le hk
  rw [execG.eq_def]; simp only [h1 k (by omega), h2 k (by omega), he, if_true, h3 k (by omega)]

theorem stmt_go_lazy {F ρ w ty f args fv w1 vs w2} (hf : EvS F ρ w f (.ok fv w1)) (ha : EvLS F ρ w1 args (.ok vs w2))
    (he : w2.eager = false) :
    StmtS F ρ w (.go (.call ty f args)) (.ok (ρ, .normal) { w2 with spawned := w2.spawned ++ [(fv, vs)] }) := by
  obtain ⟨m1, h1⟩ := hf
  obtain ⟨m2, h2⟩ := ha
  refine ⟨max m1 m2 + 1, fun k hk => ?_⟩
  obtain ⟨k, rfl, hk'⟩ := succ_of_le hk
  rw [execG.eq_def]; simp only [h1 k (by omega), h2 k (by omega), he, Bool.false_eq_true, if_false]

/-- `Sem.apply` of a closure environment is `Sem.apply` of its `apply` function to it -/
theorem sem_apply_struct {P : Prog} {w : World} {n : Nat} {sn : String} {vs : List Val} {fn : Fn}
    (hf : P.findFn (applyFnName sn) = some fn) :
    Sem.apply n P w (.structV sn vs) [] = Sem.apply n P w (.fn (applyFnName sn)) [.structV sn vs] := by
  cases n with
  | zero => rw [Sem.apply, Sem.apply]
  | succ n =>
    rw [Sem.apply, Sem.apply]
    have : P.findFn ("inherent#" ++ sn ++ "#" ++ sn ++ "#apply") = some fn := hf
    simp only [this, hf]

/-- the shape of the statement `compile_go` emits for a `go` of the fragment -/
theorem compileGo_shape {env : Env} {file : AFile} {G : List String} {Γ : Ctx} {K : KCtx} {e : Imm} {ty : Ty}
    (h : fragC env file G Γ K (.go e ty) = true) :
    ∃ sn fty rty, e.ty = .struct sn ∧ immOK env file G Γ e = true ∧ ty = .unit ∧
      compileGo env e = .go (.call (goTy rty) (.var (vn (applyFnName sn)) (goTy fty)) (compileImms env [e])) := by
  simp only [fragC, goOK] at h
  cases hety : e.ty with
  | struct sn =>
    rw [hety] at h; simp only [Bool.and_eq_true] at h
    obtain ⟨⟨he, hty⟩, hcase⟩ := h
    cases hfc : findClosureApplyFn env (.struct sn) with
    | none => rw [hfc] at hcase; cases hcase
    | some tr =>
      obtain ⟨name, fty, rty⟩ := tr
      rw [hfc] at hcase; simp only [Bool.and_eq_true, Bool.not_eq_true', beq_iff_eq] at hcase
      obtain ⟨⟨⟨⟨⟨⟨hname, hloc⟩, hrn⟩, hsp⟩, hext⟩, hentry⟩, hfile⟩ := hcase
      have hext' : env.getExternFn (rn name) = none := by
        rw [hrn]
        cases hx : env.getExternFn name with
        | none => rfl
        | some p => rw [hx] at hext; simp at hext
      refine ⟨sn, fty, rty, rfl, he, scalarEq_eq hty, ?_⟩
      simp only [compileGo, hety, hfc]
      rw [compileCall_local (by rw [hrn]; exact hsp) hext', hname]
  | _ => rw [hety] at h; cases h

theorem stepG {env : Env} {file : AFile} {G : List String} {P : Prog} {F : GFile} (hl : Link env file G P F) {n : Nat}
    (hu : SimU env file G P F n) : SimG env file G P F (n + 1) := by
  intro e ty η Γ K ρ w gρ gw Bad hfrag hrel hw hgood hfx hcal
  have hfr := hfx.rel hgood
  simp only [fragC, goOK] at hfrag
  cases hety : e.ty with
  | struct sn =>
    rw [hety] at hfrag; simp only [Bool.and_eq_true] at hfrag
    obtain ⟨⟨he, _⟩, hcase⟩ := hfrag
    cases hfc : findClosureApplyFn env (.struct sn) with
    | none => rw [hfc] at hcase; cases hcase
    | some tr =>
      obtain ⟨name, fty, rty⟩ := tr
      rw [hfc] at hcase; simp only [Bool.and_eq_true, Bool.not_eq_true', beq_iff_eq] at hcase
      obtain ⟨⟨⟨⟨⟨⟨hname, hloc⟩, hrn⟩, hsp⟩, hext⟩, hentry⟩, hfile⟩ := hcase
      cases hfind : file.find? (·.name == name) with
      | none => rw [hfind] at hfile; cases hfile
      | some g =>
        rw [hfind] at hfile; simp only [Bool.and_eq_true] at hfile
        obtain ⟨hG, hps⟩ := hfile
        have hgmem : g ∈ file := List.mem_of_find?_eq_some hfind
        have hgname : g.name = name := by have := List.find?_some hfind; simpa using this
        have hG' : g.name ∈ G := by rw [hgname]; simpa using hG
        have hps' := scalarEqs_eq hps
        have hext' : env.getExternFn (rn name) = none := by
          rw [hrn]
          cases hx : env.getExternFn name with
          | none => rfl
          | some p => rw [hx] at hext; simp at hext
        obtain ⟨v, gv, hs, hg, h3, h4⟩ := imm_both P hl.ty he hrel hfr
        rw [hety] at h3 h4
        cases v <;> simp only [HasTy] at h4 <;> try exact h4.elim
        rename_i n' vs
        have hn : n' = sn := h4.1
        subst hn
        have h4' : HasTy env η (.structV n' vs) (.struct n') := by simp only [HasTy]; exact ⟨trivial, h4.2⟩
        -- the statement
        have hshape : compileGo env e = .go (.call (goTy rty) (.var (vn name) (goTy fty)) (compileImms env [e])) := by
          simp only [compileGo, hety, hfc]
          rw [compileCall_local (by rw [hrn]; exact hsp) hext']
        rw [hshape]
        have hbad : vn name ∈ Bad := hcal _ (by simp [calleesC, hety, hname])
        have hgo : lookupG gρ (vn name) = none := lookup_none_of_not_key (fun hk => hgood _ hk hbad)
        have hargsE : ∀ gw, EvLS F gρ gw (compileImms env [e]) (.ok [gv] gw) := fun gw => by
          simp only [compileImms, List.map_cons, List.map_nil]; exact evl_cons (hg gw) evl_nil
        simp only [CExpr.toExpr]
        rw [Sem.eval]
        rcases sem_imm_any hs (w := w) n with h1 | h1
        · rw [h1]; trivial
        · rw [h1]; simp only
          by_cases hE : w.eager = true
          · rw [if_pos hE]
            have hge : gw.eager = true := by rw [hw.eager]; exact hE
            have heq : applyFnName n' = g.name := by rw [hgname, hname]
            have hsrc' : P.findFn (applyFnName n') = some g.toFn := by rw [heq]; exact hl.fnSrc g hgmem hG'
            rw [sem_apply_struct hsrc', heq]
            have hfn : fnName g.name = vn name := by
              have hne : isEntry name = false := by simpa using hentry
              rw [hgname]
              simp only [fnName, hne, Bool.false_eq_true, if_false]
              unfold vn; rw [hrn]
            have hcallr := hu g hgmem hG' η [.structV n' vs] [gv] w gw hfx.eq hfx.deq
              (by rw [hps']; exact ⟨h3, h4', trivial⟩) hw
            rw [hfn] at hcallr
            revert hcallr
            cases hap : Sem.apply n P w (.fn g.name) [.structV n' vs] with
            | ok v' w' =>
              rintro ⟨η1, hle1, gv', gw', hc, _, _, h5⟩
              exact ⟨rfl, η1, hle1, gw', stmt_go_eager (ev_var_none hgo) (hargsE gw) hge hc, h5⟩
            | fail fl w' =>
              cases fl with
              | panic k =>
                rintro ⟨η1, hle1, gw', hc, h5⟩
                exact ⟨η1, hle1, gw', stmt_go_eager_fail (ev_var_none hgo) (hargsE gw) hge hc, h5⟩
              | fuel => intro _; trivial
              | stuck s => intro _; trivial
          · have hE' : w.eager = false := by simpa using hE
            rw [if_neg hE]
            have hge : gw.eager = false := by rw [hw.eager]; exact hE'
            exact ⟨rfl, η, η.le_refl, _, stmt_go_lazy (ev_var_none hgo) (hargsE gw) hge, hw.spawn _ _⟩
  | _ => rw [hety] at hfrag; cases hfrag

end Goml.GoComp
