import GomlVerif.Lemmas.GoCompStepA
/-! the loop `compile_while` builds against `Sem`'s `while` -/
set_option linter.unusedSimpArgs false
set_option linter.unusedVariables false
namespace Goml.GoComp
open Goml Goml.Go Goml.GoCompile Goml.GoFrag
open Goml.Sem (Val World Res Fail)
open Goml.C01 (toG)
open Goml.Dce (keys lookup_cons_self lookup_cons_ne lookup_none_of_not_key key_of_lookup_some
  keys_update lookup_update_ne lookup_update_self update_not_key)

attribute [local irreducible] Goml.GoCompile.vn Goml.GoCompile.gid Goml.GoCompile.rn

theorem stepL {env : Env} {file : AFile} {G : List String} {P : Prog} {F : GFile} {n : Nat}
    (ha : SimA env file G P F n) (hL : SimL env file G P F n) : SimL env file G P F (n + 1) := by
  intro cv st c b η Γ K ρ w gρ gw Bad hfc hcb hfb hbu hrel hkrel hw hinv htgt hus hfx hcal
  obtain ⟨htk, htne⟩ := htgt
  have hcalc : ∀ x, x ∈ calleesA (Γ.map (·.1)) c → x ∈ Bad := fun x hx => hcal x (List.mem_append_left _ hx)
  have hcalb : ∀ x, x ∈ calleesA (Γ.map (·.1)) b → x ∈ Bad := fun x hx => hcal x (List.mem_append_right _ hx)
  -- the three parts of the loop body
  generalize hA : (compileA env (.assign cv) st c).1 = A at *
  generalize hst2 : (compileA env (.assign cv) st c).2 = st2 at *
  have hbody : loopBody env cv st c b =
      A ++ (GStmt.ite (.un .not .bool (.var (gid cv) .bool)) [.brk] none :: (compileA env .effect st2 b).1) := by
    simp [loopBody, hA, hst2]
  rw [hbody] at hinv ⊢
  generalize hB : (compileA env .effect st2 b).1 = B at *
  have hinvA : GInv Bad A gρ := hinv.left
  rw [Sem.eval]
  have hAsim := ha (.assign cv) st c η Γ K ρ w gρ gw Bad hfc hrel hkrel hw (hA ▸ hinvA) ⟨htk, htne⟩ hus hfx hcalc
  rw [hA, hcb] at hAsim
  revert hAsim
  cases hres : Sem.eval n P ρ w c.toExpr with
  | fail fl w1 =>
    cases fl with
    | panic k =>
      rintro ⟨η1, hle1, gw1, hbA, h5⟩
      exact ⟨η1, hle1, gw1, stmt_loop_fail (nest_of_block (block_append_panic hbA)), h5⟩
    | fuel => intro _; trivial
    | stuck s => intro _; trivial
  | ok vc w1 =>
    rintro ⟨η1, hle1, D1, gvc, gw1, hbA, h3, h4, h5, hD1⟩
    obtain ⟨bb, rfl⟩ := hasTy_bool h4
    have := toG_bool h3; subst this
    simp only [post] at hbA
    have hD1disj : ∀ y, y ∈ keys D1 → ¬ y ∈ keys gρ := fun y hy => (sokB_top A _ hinvA.sok y (hD1 y hy)).2
    have hcvD1 : ¬ gid cv ∈ keys D1 := fun h => hD1disj _ h htk
    -- the `if !cond { break }`
    have hlk : lookupG (D1 ++ updateG gρ (gid cv) (.bool bb)) (gid cv) = some (.bool bb) := by
      rw [lookup_append_right hcvD1]; exact lookup_update_self _ _ _ htk
    have hcond : EvS F (D1 ++ updateG gρ (gid cv) (.bool bb)) gw1 (.un .not .bool (.var (gid cv) .bool))
        (.ok (.bool !bb) gw1) := ev_not (ev_var_some hlk)
    cases bb with
    | false =>
      simp only
      have hI : StmtS F (D1 ++ updateG gρ (gid cv) (.bool false)) gw1
          (.ite (.un .not .bool (.var (gid cv) .bool)) [.brk] none)
          (.ok (D1 ++ updateG gρ (gid cv) (.bool false), .brk) gw1) := by
        have := stmt_ite_true (e := none) hcond (nest_of_block (block_cons_sig (rest := []) (by simp) stmt_brk))
        simpa [popTo] using this
      have hblk := block_append hbA (block_cons_sig (rest := B) (by simp) hI)
      have hn := nest_of_block hblk
      simp only [popTo, pop_append D1 _ gρ (length_update _ _ _)] at hn
      exact ⟨by trivial, η1, hle1, gw1, stmt_loop_brk hn, h5⟩
    | true =>
      simp only
      have hI : StmtS F (D1 ++ updateG gρ (gid cv) (.bool true)) gw1
          (.ite (.un .not .bool (.var (gid cv) .bool)) [.brk] none)
          (.ok (D1 ++ updateG gρ (gid cv) (.bool true), .normal) gw1) := stmt_ite_false_none hcond
      -- the loop body proper, in effect mode
      have hrel1 : EnvRel env η1 Γ ρ (D1 ++ updateG gρ (gid cv) (.bool true)) := (hrel.mono hle1).go_agree (fun y ty hy => by
        obtain ⟨_, _, _, h2, _, _⟩ := hrel.1 y ty hy
        rw [lookup_append_right (fun h => hD1disj _ h (key_of_lookup_some h2))]
        exact lookup_update_ne _ (fun e => htne y ty hy e.symm) _)
      have hinvB : GInv Bad B (D1 ++ updateG gρ (gid cv) (.bool true)) := by
        have h1 := GInv.right (a := A) (D := D1) (U := updateG gρ (gid cv) (.bool true)) hinv (keys_update _ _ _) hD1
        have h2 : GInv Bad ([GStmt.ite (.un .not .bool (.var (gid cv) .bool)) [.brk] none] ++ B)
            (D1 ++ updateG gρ (gid cv) (.bool true)) := by simpa using h1
        have h3 := GInv.right (a := [GStmt.ite (.un .not .bool (.var (gid cv) .bool)) [.brk] none]) (D := [])
          (U := D1 ++ updateG gρ (gid cv) (.bool true)) h2 rfl (fun y hy => by cases hy)
        simpa using h3
      have hBsim := ha .effect st2 b η1 Γ K ρ w1 (D1 ++ updateG gρ (gid cv) (.bool true)) gw1 Bad hfb hrel1 hkrel h5 (hB ▸ hinvB) hbu hus (hfx.mono hle1) hcalb
      rw [hB] at hBsim
      revert hBsim
      cases hresb : Sem.eval n P ρ w1 b.toExpr with
      | fail fl w2 =>
        cases fl with
        | panic k =>
          rintro ⟨η2, hle2, gw2, hbB, g5⟩
          exact ⟨η2, Hp.le_trans hle1 hle2, gw2, stmt_loop_fail (nest_of_block (block_append hbA (block_cons hI hbB))), g5⟩
        | fuel => intro _; trivial
        | stuck s => intro _; trivial
      | ok vb w2 =>
        rintro ⟨η2, hle2, D2, gvb, gw2, hbB, _, _, g5, _⟩
        simp only [post] at hbB
        dsimp only
        have hblk := block_append hbA (block_cons hI hbB)
        have hn := nest_of_block hblk
        rw [show D2 ++ (D1 ++ updateG gρ (gid cv) (GVal.bool true)) = (D2 ++ D1) ++ updateG gρ (gid cv) (GVal.bool true) by simp] at hn
        simp only [popTo, pop_append (D2 ++ D1) _ gρ (length_update _ _ _)] at hn
        -- next iteration
        have hrel' : EnvRel env η2 Γ ρ (updateG gρ (gid cv) (.bool true)) := (hrel.mono (Hp.le_trans hle1 hle2)).go_agree (fun y ty hy =>
          lookup_update_ne _ (fun e => htne y ty hy e.symm) _)
        have hinv' : GInv Bad (A ++ (GStmt.ite (.un .not .bool (.var (gid cv) .bool)) [.brk] none :: B))
            (updateG gρ (gid cv) (.bool true)) := hinv.keys_eq (keys_update _ _ _)
        have hnext := hL cv st c b η2 Γ K ρ w2 (updateG gρ (gid cv) (.bool true)) gw2 Bad hfc hcb hfb hbu hrel' hkrel g5
          (by rw [hbody]; exact hinv') ⟨by rw [keys_update]; exact htk, htne⟩ hus (hfx.mono (Hp.le_trans hle1 hle2)) hcal
        rw [hbody] at hnext
        revert hnext
        cases hresw : Sem.eval n P ρ w2 (.while c.toExpr b.toExpr) with
        | ok v w3 =>
          rintro ⟨rfl, η3, hle3, gw3, hlp, g6⟩
          rw [update_update] at hlp
          exact ⟨rfl, η3, Hp.le_trans (Hp.le_trans hle1 hle2) hle3, gw3, stmt_loop_next hn hlp, g6⟩
        | fail fl w3 =>
          cases fl with
          | panic k =>
            rintro ⟨η3, hle3, gw3, hlp, g6⟩
            exact ⟨η3, Hp.le_trans (Hp.le_trans hle1 hle2) hle3, gw3, stmt_loop_next hn hlp, g6⟩
          | fuel => intro _; trivial
          | stuck s => intro _; trivial

end Goml.GoComp
