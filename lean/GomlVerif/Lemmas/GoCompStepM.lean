import GomlVerif.Lemmas.GoCompStepG
/-!
The arms of a `match` against what `compile_match_branches` makes of them: the clauses of a type
switch (enum scrutinee), the cases of a value switch (bool / integer / string scrutinee), the first
arm in place (unit scrutinee).
-/
set_option linter.unusedSimpArgs false
set_option linter.unusedVariables false
namespace Goml.GoComp
open Goml Goml.Go Goml.GoCompile Goml.GoFrag
open Goml.Sem (Val World Res Fail)
open Goml.C01 (toG)
open Goml.Dce (keys lookup_cons_self lookup_cons_ne lookup_none_of_not_key key_of_lookup_some
  keys_update lookup_update_ne lookup_update_self update_not_key)

attribute [local irreducible] Goml.GoCompile.vn Goml.GoCompile.gid Goml.GoCompile.rn

theorem sokT_typeCases {ok : String → Bool} (env : Env) (K : List String) : ∀ ra : List (Imm × List GStmt),
    sokTCasesB ok K (typeCases env ra) = true ↔ ∀ p, p ∈ ra → sokB ok K p.2 = true
  | [] => by simp [typeCases, sokTCasesB]
  | (lhs, body) :: rest => by simp [typeCases, sokTCasesB, sokT_typeCases env K rest]

theorem sokC_valueCases {ok : String → Bool} (k : MatchKind) (K : List String) : ∀ ra : List (Imm × List GStmt),
    sokCasesB ok K (valueCases k ra) = true ↔ ∀ p, p ∈ ra → sokB ok K p.2 = true
  | [] => by simp [valueCases, sokCasesB]
  | (lhs, body) :: rest => by simp [valueCases, sokCasesB, sokC_valueCases k K rest]

/-- the clauses of a type switch in the block-scoped invariant -/
theorem ginvA_of_tswitch {Bad : List String} {env : Env} {b : Option String} {e : GExpr} {ra : List (Imm × List GStmt)}
    {rd : Option (List GStmt)} {gρ : GEnv} (h : GInv Bad [.tswitch b e (typeCases env ra) rd] gρ) : GInvA Bad ra rd gρ := by
  have hs := h.sok
  cases rd with
  | none =>
    simp only [sokB, sokStmtB, Bool.and_eq_true, Bool.and_true] at hs
    exact ⟨fun p hp => ⟨(sokT_typeCases env _ ra).mp hs p hp, h.goodK⟩, trivial, h.goodK⟩
  | some d =>
    simp only [sokB, sokStmtB, Bool.and_eq_true, Bool.and_true] at hs
    exact ⟨fun p hp => ⟨(sokT_typeCases env _ ra).mp hs.1 p hp, h.goodK⟩, ⟨hs.2, h.goodK⟩, h.goodK⟩

theorem ginvA_of_switch {Bad : List String} {k : MatchKind} {e : GExpr} {ra : List (Imm × List GStmt)}
    {rd : Option (List GStmt)} {gρ : GEnv} (h : GInv Bad [.switch e (valueCases k ra) rd] gρ) : GInvA Bad ra rd gρ := by
  have hs := h.sok
  cases rd with
  | none =>
    simp only [sokB, sokStmtB, Bool.and_eq_true, Bool.and_true] at hs
    exact ⟨fun p hp => ⟨(sokC_valueCases k _ ra).mp hs p hp, h.goodK⟩, trivial, h.goodK⟩
  | some d =>
    simp only [sokB, sokStmtB, Bool.and_eq_true, Bool.and_true] at hs
    exact ⟨fun p hp => ⟨(sokC_valueCases k _ ra).mp hs.1 p hp, h.goodK⟩, ⟨hs.2, h.goodK⟩, h.goodK⟩

theorem GInvA.rebind {Bad ra rd gρ} (h : GInvA Bad ra rd gρ) {x : String} (hx : x ∈ keys gρ) (v : GVal) :
    GInvA Bad ra rd ((x, v) :: gρ) := by
  refine ⟨fun p hp => (h.arms p hp).rebind hx v, ?_, fun y hk => ?_⟩
  · cases rd with
    | none => trivial
    | some d => exact GInv.rebind h.dflt hx v
  · simp only [Goml.Dce.keys_cons, List.mem_cons] at hk
    rcases hk with rfl | hk
    · exact h.goodK _ hx
    · exact h.goodK y hk

theorem ConclSw.mono {env : Env} {η : Hp} {run run' : GRes (GEnv × Sig) → Prop} {m : Mode} {gρ : GEnv} {ty : Ty} {res : Res Val}
    (h : ConclSw env η run m gρ ty res) (hm : ∀ r, run r → run' r) : ConclSw env η run' m gρ ty res := by
  cases res with
  | ok v w' => obtain ⟨η1, hle, gv, gw', h1, h2⟩ := h; exact ⟨η1, hle, gv, gw', hm _ h1, h2⟩
  | fail fl w' =>
    cases fl with
    | panic k => obtain ⟨η1, hle, gw', h1, h2⟩ := h; exact ⟨η1, hle, gw', hm _ h1, h2⟩
    | fuel => trivial
    | stuck s => trivial

/-- a clause that runs `S` as a nested block inherits the conclusion about `S` -/
theorem conclSw_of_concl {env : Env} {η : Hp} {F : GFile} {S : List GStmt} {m : Mode} {gρ : GEnv} {gw : GWorld} {ty : Ty} {res : Res Val}
    {run : GRes (GEnv × Sig) → Prop} (h : Concl env η F S m gρ gw ty res) (hs : ∀ r0, NestS F gρ gw S r0 → run r0) :
    ConclSw env η run m gρ ty res := by
  cases res with
  | ok v w' =>
    obtain ⟨η1, hle, D, gv, gw', hb, h3, h4, h5, _⟩ := h
    have hn := hs _ (nest_of_block hb)
    simp only [popTo, pop_append D _ gρ (length_post m gρ gv)] at hn
    exact ⟨η1, hle, gv, gw', hn, h3, h4, h5⟩
  | fail fl w' =>
    cases fl with
    | panic k =>
      obtain ⟨η1, hle, gw', hb, h5⟩ := h
      exact ⟨η1, hle, gw', hs _ (nest_of_block hb), h5⟩
    | fuel => trivial
    | stuck s => trivial

theorem compileArms_cons (env : Env) (m : Mode) (st : St) (lhs : Imm) (body : AExpr) (rest : List AArm) :
    compileArms env m st (.mk lhs body :: rest) =
      ((lhs, (compileA env m st body).1) :: (compileArms env m (compileA env m st body).2 rest).1,
       (compileArms env m (compileA env m st body).2 rest).2) := by
  simp only [compileArms]

theorem lookupVariantName_enum {env : Env} {en : String} {idx : Nat} {d : EnumDef} {vname : String} {tys : List Ty}
    (hd : env.getEnum en = some d) (hv : d.variants[idx]? = some (vname, tys)) :
    lookupVariantName env (.enum en) idx = some (variantStructName env en vname) := by
  simp [lookupVariantName, Goml.Mono.constrName, hd, hv]

/-- what a typed enum value and its Go image look like -/
theorem enumV_inv {env : Env} {η : Hp} {en : String} {i : Nat} {vs : List Val} {gv : GVal}
    (hty : HasTy env η (.enumV en i vs) (.enum en)) (hgv : VRel env η (.enumV en i vs) (.enum en) gv) :
    ∃ d vname tys gs, en ∈ goodEnums env ∧ env.getEnum en = some d ∧ d.variants[i]? = some (vname, tys) ∧
      HasTys env η vs tys ∧ VRels env η vs tys gs ∧
      gv = .struct (variantGoName env en vname) ((fieldNames 0 gs.length).zip gs) := by
  simp only [HasTy] at hty
  obtain ⟨_, hen, hfields⟩ := hty
  cases hd : env.getEnum en with
  | none => rw [hd] at hfields; exact hfields.elim
  | some d =>
    rw [hd] at hfields; simp only at hfields
    cases hvi : d.variants[i]? with
    | none => rw [hvi] at hfields; exact hfields.elim
    | some vdef =>
      obtain ⟨vname, tys⟩ := vdef
      rw [hvi] at hfields; simp only at hfields
      simp only [VRel, hd, hvi] at hgv
      obtain ⟨gs, hgs, rfl⟩ := hgv
      exact ⟨d, vname, tys, gs, hen, rfl, hvi, hfields, hgs, rfl⟩

/-! ### enum scrutinee: type switch -/

theorem stepME {env : Env} {file : AFile} {G : List String} {P : Prog} {F : GFile} (hl : Link env file G P F) {n : Nat}
    (ha : SimA env file G P F n) (hme : SimME env file G P F n) : SimME env file G P F (n + 1) := by
  intro m st arms d ty η Γ K ρ w gρ gw Bad x en i vs gv hfa hfd hrel hkrel hw hlk hty hgv hinv htgt hus hfc hcal
  -- the scrutinee's variant and its Go struct
  have hty0 := hty
  have hgv0 := hgv
  obtain ⟨d0, vni, tysi, gs, hen, hd0, hvi, hfields, hgs, rfl⟩ := enumV_inv hty hgv
  obtain ⟨d0', hd0', _, hndv, _⟩ := good_enum hl.ty.closed hen
  rw [hd0] at hd0'; injection hd0' with hd0'; subst hd0'
  cases arms with
  | nil =>
    simp only [armsToExpr, compileArms, typeCases]
    rw [Sem.evalArms.eq_def]; simp only
    cases d with
    | none => simp only [dfltToExpr]; trivial
    | some e =>
      simp only [dfltToExpr, compileDflt]
      simp only [fragD, Bool.and_eq_true] at hfd
      obtain ⟨hfe, hte⟩ := hfd
      have hte' := scalarEq_eq hte
      have hinve : GInv Bad (compileA env m st e).1 gρ := by
        have := hinv.dflt; simpa only [compileArms, compileDflt] using this
      have hA := ha m st e η Γ K ρ w gρ gw Bad hfe hrel hkrel hw hinve (hte' ▸ htgt) hus hfc
        (fun c hc => hcal c (by simp [calleesArms, calleesD, hc]))
      rw [hte'] at hA
      exact conclSw_of_concl hA (fun r0 hn => tsw_nil_some hn)
  | cons arm rest =>
    obtain ⟨lhs, body⟩ := arm
    cases lhs with
    | var y t => simp [fragArms] at hfa
    | prim p t => simp [fragArms] at hfa
    | tag idx tty =>
      simp only [fragArms, Bool.and_eq_true] at hfa
      obtain ⟨⟨⟨⟨htt, hvo⟩, hfb⟩, htb⟩, hfr⟩ := hfa
      have htt' := scalarEq_eq htt; subst htt'
      have htb' := scalarEq_eq htb
      cases hv : variantOf env (.enum en) idx with
      | none => rw [hv] at hvo; simp at hvo
      | some vv =>
      obtain ⟨n', vname, tys⟩ := vv
      obtain ⟨hE, _, d1, hd1, hvar⟩ := variantOf_spec hv
      injection hE with hE; subst hE
      rw [hd0] at hd1; injection hd1 with hd1; subst hd1
      rw [compileArms_cons]
      simp only [armsToExpr, typeCases, Imm.toExpr, caseType, lookupVariantName_enum hd0 hvar, Option.map_some, Option.getD_some]
      rw [Sem.evalArms.eq_def]; simp only
      simp only [Sem.armMatches]
      generalize hSb : compileA env m st body = rb at *
      have hinvb : GInv Bad rb.1 gρ := by
        have := hinv.arms (.tag idx (.enum en), rb.1) (by rw [compileArms_cons, hSb]; exact List.mem_cons_self)
        exact this
      have hinvr : GInvA Bad (compileArms env m rb.2 rest).1 (compileDflt env m (compileArms env m rb.2 rest).2 d).1 gρ := by
        refine ⟨fun p hp => hinv.arms p (by rw [compileArms_cons, hSb]; exact List.mem_cons_of_mem _ hp), ?_, hinv.goodK⟩
        have := hinv.dflt; rw [compileArms_cons, hSb] at this; exact this
      by_cases hidx : idx = i
      · subst hidx
        simp only [beq_self_eq_true, if_true]
        rw [hvi] at hvar; injection hvar with hvar; injection hvar with h1 h2; subst h1; subst h2
        have hk' : KRel ((x, idx) :: K) ρ := hkrel.know hlk
        have hA := ha m st body η Γ ((x, idx) :: K) ρ w gρ gw Bad hfb hrel hk' hw (hSb ▸ hinvb) (htb' ▸ htgt) hus hfc
          (fun c hc => hcal c (by simp [calleesArms, hc]))
        rw [hSb, htb'] at hA
        refine conclSw_of_concl hA (fun r0 hn => tsw_cons_hit ?_ hn)
        simp [tcaseHit, variantGoName]
      · have hne : (idx == i) = false := by simpa using hidx
        simp only [hne, Bool.false_eq_true, if_false]
        have hR := hme m rb.2 rest d ty η Γ K ρ w gρ gw Bad x en i vs _ hfr hfd hrel hkrel hw hlk
          hty0 hgv0 hinvr htgt hus hfc
          (fun c hc => hcal c (by
            simp only [calleesArms, List.mem_append] at hc ⊢
            rcases hc with hc | hc
            · exact Or.inl (Or.inr hc)
            · exact Or.inr hc))
        refine hR.mono (fun r hr => tsw_cons_miss ?_ hr)
        simp only [tcaseHit, variantGoName, beq_eq_false_iff_ne, ne_eq]
        intro heq
        apply hidx
        have hlen : idx < (d0.variants.map fun v => variantGoName env en v.1).length := by
          rw [List.length_map]
          rcases Nat.lt_or_ge idx d0.variants.length with h | h
          · exact h
          · rw [List.getElem?_eq_none h] at hvar; cases hvar
        refine (List.getElem?_inj hlen hndv).mp ?_
        simp only [List.getElem?_map, hvar, hvi, Option.map_some, variantGoName]
        rw [heq]

/-! ### bool / integer / string scrutinee: value switch -/

/-- comparable scalars: `==` on the Go images is `valEq` -/
theorem valEq_toGV {env : Env} {η : Hp} {a b : Val} {ga gb : GVal} {t : Ty} (ha : HasTy env η a t) (hb : HasTy env η b t)
    (hs : scalarTy t = true) (h1 : VRel env η a t ga) (h2 : VRel env η b t gb) : gvalEq ga gb = Sem.valEq a b := by
  cases t <;> simp [scalarTy] at hs
  · have := hasTy_unit ha; subst this; have := hasTy_unit hb; subst this
    simp [VRel] at h1 h2; subst h1; subst h2; rfl
  · obtain ⟨x, rfl⟩ := hasTy_bool ha; obtain ⟨y, rfl⟩ := hasTy_bool hb
    simp [VRel] at h1 h2; subst h1; subst h2; rfl
  · obtain ⟨x, rfl⟩ := hasTy_int ha; obtain ⟨y, rfl⟩ := hasTy_int hb
    simp [VRel] at h1 h2; subst h1; subst h2; rfl
  · obtain ⟨x, rfl⟩ := hasTy_str ha; obtain ⟨y, rfl⟩ := hasTy_str hb
    simp [VRel] at h1 h2; subst h1; subst h2; rfl

theorem switchTy_scalar {t : Ty} (h : switchTy t = true) : scalarTy t = true := by
  cases t <;> simp [switchTy] at h <;> rfl

/-- the `case` label of a literal head of the scrutinee's own type is the literal as `compile_imm` spells it -/
theorem caseLabel_lit {env : Env} {p : Prim} {sty : Ty} (hs : switchTy sty = true) (hp : okPrim p sty = true) :
    caseLabel (matchKind sty) (.prim p sty) = some (compileImm env (.prim p sty)) := by
  cases sty <;> simp [switchTy] at hs <;> cases p <;> simp [okPrim] at hp <;>
    simp [matchKind, caseLabel, compileImm, lit, hp]

theorem stepMV {env : Env} {file : AFile} {G : List String} {P : Prog} {F : GFile} (hl : Link env file G P F) {n : Nat}
    (ha : SimA env file G P F n) (hmv : SimMV env file G P F n) : SimMV env file G P F (n + 1) := by
  intro m st arms d ty sty η Γ K ρ w gρ gw Bad v gv hsw hfa hfd hrel hkrel hw hty hgv hinv htgt hus hfc hcal
  cases arms with
  | nil =>
    simp only [armsToExpr, compileArms, valueCases]
    rw [Sem.evalArms.eq_def]; simp only
    cases d with
    | none => simp only [dfltToExpr]; trivial
    | some e =>
      simp only [dfltToExpr, compileDflt]
      simp only [fragD, Bool.and_eq_true] at hfd
      obtain ⟨hfe, hte⟩ := hfd
      have hte' := scalarEq_eq hte
      have hinve : GInv Bad (compileA env m st e).1 gρ := by
        have := hinv.dflt; simpa only [compileArms, compileDflt] using this
      have hA := ha m st e η Γ K ρ w gρ gw Bad hfe hrel hkrel hw hinve (hte' ▸ htgt) hus hfc
        (fun c hc => hcal c (by simp [calleesArms, calleesD, hc]))
      rw [hte'] at hA
      exact conclSw_of_concl hA (fun r0 hn => sw_nil_some hn)
  | cons arm rest =>
    obtain ⟨lhs, body⟩ := arm
    cases lhs with
    | var y t => simp [fragArms] at hfa
    | tag idx t => simp [fragArms] at hfa
    | prim p pty =>
      simp only [fragArms, Bool.and_eq_true] at hfa
      obtain ⟨⟨⟨⟨hp, hpt⟩, hfb⟩, htb⟩, hfr⟩ := hfa
      have hpt' := scalarEq_eq hpt; subst hpt'
      have htb' := scalarEq_eq htb
      rw [compileArms_cons]
      simp only [armsToExpr, valueCases, Imm.toExpr, caseLabel_lit (env := env) hsw hp, Option.getD_some]
      rw [Sem.evalArms.eq_def]; simp only
      simp only [Sem.armMatches]
      generalize hSb : compileA env m st body = rb at *
      have hinvb : GInv Bad rb.1 gρ := by
        have := hinv.arms (.prim p pty, rb.1) (by rw [compileArms_cons, hSb]; exact List.mem_cons_self)
        exact this
      have hinvr : GInvA Bad (compileArms env m rb.2 rest).1 (compileDflt env m (compileArms env m rb.2 rest).2 d).1 gρ := by
        refine ⟨fun p hp => hinv.arms p (by rw [compileArms_cons, hSb]; exact List.mem_cons_of_mem _ hp), ?_, hinv.goodK⟩
        have := hinv.dflt; rw [compileArms_cons, hSb] at this; exact this
      -- the label evaluates to the Go image of the literal
      have hlit : immOK env file G Γ (.prim p pty) = true := hp
      obtain ⟨lv, glv, hsl, hgl, h3l, h4l⟩ := imm_both P hl.ty hlit hrel (hfc.rel hinv.goodK)
      have hlv : lv = Sem.primVal p := by
        have := hsl 0 w; simp only [Imm.toExpr] at this; rw [Sem.eval] at this; injection this with this; exact this.symm
      subst hlv
      have heq := valEq_toGV h4l hty (switchTy_scalar hsw) h3l hgv
      by_cases hhit : (Sem.valEq (Sem.primVal p) v).getD false = true
      · simp only [hhit, if_true]
        have hA := ha m st body η Γ K ρ w gρ gw Bad hfb hrel hkrel hw (hSb ▸ hinvb) (htb' ▸ htgt) hus hfc
          (fun c hc => hcal c (by simp [calleesArms, hc]))
        rw [hSb, htb'] at hA
        exact conclSw_of_concl hA (fun r0 hn => sw_cons_hit (hgl gw) (by rw [heq]; exact hhit) hn)
      · have hmiss : (Sem.valEq (Sem.primVal p) v).getD false = false := by simpa using hhit
        simp only [hmiss, Bool.false_eq_true, if_false]
        have hR := hmv m rb.2 rest d ty pty η Γ K ρ w gρ gw Bad v gv hsw hfr hfd hrel hkrel hw hty hgv hinvr htgt hus hfc
          (fun c hc => hcal c (by
            simp only [calleesArms, List.mem_append] at hc ⊢
            rcases hc with hc | hc
            · exact Or.inl (Or.inr hc)
            · exact Or.inr hc))
        exact hR.mono (fun r hr => sw_cons_miss (hgl gw) (by rw [heq]; exact hmiss) hr)

/-! ### unit scrutinee: the first arm (else the default) in place -/

theorem stepMU {env : Env} {file : AFile} {G : List String} {P : Prog} {F : GFile} {n : Nat}
    (ha : SimA env file G P F n) : SimMU env file G P F (n + 1) := by
  intro m st arms d ty η Γ K ρ w gρ gw Bad hfrag hrel hkrel hw hinv htgt hus hfc hcal
  cases arms with
  | nil =>
    simp only [fragUnit, List.isEmpty_nil, if_true, Bool.and_eq_true] at hfrag
    simp only [unitStmts, List.isEmpty_nil, if_true] at hinv ⊢
    simp only [armsToExpr]
    rw [Sem.evalArms.eq_def]; simp only
    cases d with
    | none => simp [isSomeD] at hfrag
    | some e =>
      simp only [dfltToExpr, compileDfltUnit] at hinv ⊢
      simp only [fragD, Bool.and_eq_true] at hfrag
      obtain ⟨_, hfe, hte⟩ := hfrag
      have hte' := scalarEq_eq hte
      have hA := ha m st e η Γ K ρ w gρ gw Bad hfe hrel hkrel hw hinv (hte' ▸ htgt) hus hfc
        (fun c hc => hcal c (by simp [calleesArms, calleesD, hc]))
      rw [hte'] at hA
      exact hA
  | cons arm rest =>
    obtain ⟨lhs, body⟩ := arm
    simp only [fragUnit, List.isEmpty_cons, Bool.false_eq_true, if_false, fragFirst, Bool.and_eq_true] at hfrag
    simp only [unitStmts, List.isEmpty_cons, Bool.false_eq_true, if_false, compileFirstArm] at hinv ⊢
    obtain ⟨⟨hl, hfb⟩, htb⟩ := hfrag
    have htb' := scalarEq_eq htb
    have hlhs : lhs = .prim .unit .unit := by
      cases lhs with
      | var y t => simp at hl
      | tag idx t => simp at hl
      | prim p t => cases p <;> cases t <;> simp at hl <;> rfl
    subst hlhs
    simp only [armsToExpr, Imm.toExpr]
    rw [Sem.evalArms.eq_def]; simp only
    have hm : Sem.armMatches (.prim .unit) .unit = true := rfl
    simp only [hm, if_true]
    have hA := ha m st body η Γ K ρ w gρ gw Bad hfb hrel hkrel hw hinv (htb' ▸ htgt) hus hfc
      (fun c hc => hcal c (by simp [calleesArms, hc]))
    rw [htb'] at hA
    exact hA

end Goml.GoComp
