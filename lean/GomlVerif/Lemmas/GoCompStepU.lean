import GomlVerif.Lemmas.GoCompStepL
/-! calls of functions of the file: parameter binding, the `var ret; …; return ret` wrapper of `compile_fn` -/
set_option linter.unusedSimpArgs false
set_option linter.unusedVariables false
namespace Goml.GoComp
open Goml Goml.Go Goml.GoCompile Goml.GoFrag
open Goml.Sem (Val World Res Fail)
open Goml.C01 (toG)
open Goml.Dce (keys lookup_cons_self lookup_cons_ne lookup_none_of_not_key key_of_lookup_some
  keys_update lookup_update_ne lookup_update_self update_not_key)

attribute [local irreducible] Goml.GoCompile.vn Goml.GoCompile.gid Goml.GoCompile.rn

/-- the Go parameter environment `callG` builds -/
def goBind (ps : List (String × Ty)) (gvs : List GVal) : GEnv :=
  ((ps.map fun p => (vn p.1, goTy p.2)).zip gvs).map fun ((x, _), v) => (x, v)

theorem goBind_nil (gvs : List GVal) : goBind [] gvs = [] := rfl
theorem goBind_cons (x : String) (t : Ty) (ps : List (String × Ty)) (g : GVal) (gvs : List GVal) :
    goBind ((x, t) :: ps) (g :: gvs) = (vn x, g) :: goBind ps gvs := rfl

theorem keys_goBind_sub : ∀ (ps : List (String × Ty)) (gvs : List GVal) (y : String),
    y ∈ keys (goBind ps gvs) → y ∈ ps.map (fun p => vn p.1)
  | [], gvs, y, h => by simp [goBind, keys] at h
  | (x, t) :: ps, [], y, h => by simp [goBind, keys] at h
  | (x, t) :: ps, g :: gvs, y, h => by
    rw [goBind_cons] at h
    simp only [Goml.Dce.keys_cons, List.mem_cons] at h
    rcases h with rfl | h
    · simp
    · exact List.mem_cons_of_mem _ (keys_goBind_sub ps gvs y h)

theorem lookup_append_cons_ne {x y : String} (g : GVal) (h : x ≠ y) (ρ : GEnv) : ∀ D : GEnv,
    lookupG (D ++ (x, g) :: ρ) y = lookupG (D ++ ρ) y
  | [] => lookup_cons_ne _ _ h
  | (z, u) :: D => by
    by_cases hz : z = y
    · subst hz; rw [List.cons_append, List.cons_append, lookup_cons_self, lookup_cons_self]
    · rw [List.cons_append, List.cons_append, lookup_cons_ne _ _ hz, lookup_cons_ne _ _ hz]
      exact lookup_append_cons_ne g h ρ D

theorem lookup_swap {x : String} (g : GVal) {D : GEnv} (hx : ¬ x ∈ keys D) (ρ : GEnv) (y : String) :
    lookupG ((x, g) :: (D ++ ρ)) y = lookupG (D ++ (x, g) :: ρ) y := by
  by_cases h : x = y
  · subst h; rw [lookup_cons_self, lookup_append_right hx, lookup_cons_self]
  · rw [lookup_cons_ne _ _ h, lookup_append_cons_ne g h ρ D]

/-- binding the parameters: `Sem.bindParams` pushes them in order, `callG` zips them -/
theorem params_rel {env : Env} {η : Hp} : ∀ (ps : List (String × Ty)) (vs : List Val) (gvs : List GVal),
    ArgsRel env η vs gvs (ps.map (·.2)) → (ps.map fun p => vn p.1).Nodup →
    ∀ (Γ : Ctx) (ρ : Sem.Env) (gρ : GEnv), EnvRel env η Γ ρ gρ → (∀ p, p ∈ ps → ¬ vn p.1 ∈ keys gρ) →
    EnvRel env η (ps.reverse ++ Γ) (Sem.bindParams (ps.map (·.1)) vs ρ) (goBind ps gvs ++ gρ)
  | [], vs, gvs, hargs, _, Γ, ρ, gρ, hrel, _ => by
    cases vs <;> cases gvs <;> simp [ArgsRel] at hargs
    simpa [Sem.bindParams, goBind] using hrel
  | (x, t) :: ps, vs, gvs, hargs, hnd, Γ, ρ, gρ, hrel, hfresh => by
    rcases vs with _ | ⟨v, vs⟩ <;> rcases gvs with _ | ⟨g, gvs⟩ <;> simp [ArgsRel] at hargs
    obtain ⟨h3, h4, hrest⟩ := hargs
    simp only [List.map_cons, List.nodup_cons] at hnd
    obtain ⟨hxnot, hnd'⟩ := hnd
    have hx : ¬ vn x ∈ keys gρ := hfresh (x, t) List.mem_cons_self
    have ih := params_rel ps vs gvs hrest hnd' ((x, t) :: Γ) ((x, v) :: ρ) ((vn x, g) :: gρ) (hrel.cons hx h3 h4)
      (fun p hp hk => by
        simp only [Goml.Dce.keys_cons, List.mem_cons] at hk
        rcases hk with hk | hk
        · exact hxnot (hk ▸ List.mem_map_of_mem (f := fun p => vn p.1) hp)
        · exact hfresh p (List.mem_cons_of_mem _ hp) hk)
    have hxD : ¬ vn x ∈ keys (goBind ps gvs) := fun h => hxnot (keys_goBind_sub ps gvs _ h)
    have hΓ : ((x, t) :: ps).reverse ++ Γ = ps.reverse ++ (x, t) :: Γ := by simp
    rw [hΓ, goBind_cons]
    simp only [List.map_cons, Sem.bindParams]
    exact ih.go_agree (fun y ty hy => lookup_swap g hxD gρ (vn y))

theorem compileFn_shape (env : Env) (st : St) (g : AFn) :
    (compileFn env st g).1 =
      { name := fnName g.name, params := g.params.map fun p => (vn p.1, goTy p.2), ret := some (goTy g.ret),
        body := .varDecl (gid ("ret" ++ toString st.n)) (goTy g.ret) none ::
          ((compileA env (.assign ("ret" ++ toString st.n))
              ((st.next.check (okTy g.ret)).check (g.params.all fun p => okTy p.2)) g.body).1 ++
            [.ret (some (.var (gid ("ret" ++ toString st.n)) (goTy g.ret)))]) } := rfl

theorem stepU {env : Env} {file : AFile} {G : List String} {P : Prog} {F : GFile} (hl : Link env file G P F) {n : Nat}
    (ha : SimA env file G P F n) : SimU env file G P F (n + 1) := by
  intro g hg hgG η vs gvs w gw hfeq hdeq hargs hw
  rw [Sem.apply]; simp only [hl.fnSrc g hg hgG, AFn.toFn]
  obtain ⟨st, hfind, hlocal⟩ := hl.fnGo g hg hgG
  simp only [localOK, srcLocalOK, goLocalOK, Bool.and_eq_true, Bool.not_eq_true', compileFn_shape] at hlocal
  obtain ⟨⟨⟨⟨hps, hrs⟩, hfrag⟩, hret⟩, ⟨⟨hscoped, hblank⟩, hcallees⟩, hfnames⟩ := hlocal
  have hret' := scalarEq_eq hret
  rw [compileFn_shape] at hfind
  generalize hrn : "ret" ++ toString st.n = retName at *
  generalize hst1 : (st.next.check (okTy g.ret)).check (g.params.all fun p => okTy p.2) = st1 at *
  generalize hS : (compileA env (.assign retName) st1 g.body).1 = S at *
  -- the locals of the compiled function: parameters pairwise distinct, every declaration new in its scope
  have hpn : List.map (·.1) (g.params.map fun p => (vn p.1, goTy p.2)) = g.params.map fun p => vn p.1 := by
    simp [List.map_map, Function.comp_def]
  simp only [scopedLocalsOK, Bool.and_eq_true, decide_eq_true_eq, hpn] at hscoped
  obtain ⟨hndP, hsok0⟩ := hscoped
  simp only [sokB, sokStmtB, Goml.Dce.declScope, Bool.and_eq_true, Bool.not_eq_true', List.contains_eq_mem,
    decide_eq_false_iff_not, sokB_append] at hsok0
  obtain ⟨⟨hretPn, _⟩, hsokS, _⟩ := hsok0
  have hsubL : ∀ y, y ∈ (g.params.map fun p => vn p.1) ++ (gid retName :: Goml.Dce.allDecls S) → y ∈ Goml.Dce.localsOf
      { name := fnName g.name, params := g.params.map fun p => (vn p.1, goTy p.2), ret := some (goTy g.ret),
        body := .varDecl (gid retName) (goTy g.ret) none :: (S ++ [.ret (some (.var (gid retName) (goTy g.ret)))]) } := by
    intro y hy
    simp only [Goml.Dce.localsOf, hpn, Goml.Dce.allDecls, Goml.Dce.declsOf, allDecls_append, List.append_nil]
    simpa using hy
  -- environments
  have hlen := hargs.length
  have hrel0 : EnvRel env η (paramCtx g) (Sem.bindParams (g.params.map (·.1)) vs []) (goBind g.params gvs) := by
    have := params_rel g.params vs gvs hargs hndP [] [] [] ⟨fun x t h => by simp [lookupTy] at h, fun x _ => rfl⟩
      (fun p _ h => by simp [keys] at h)
    simpa [paramCtx] using this
  have hkeys0 : ∀ y, y ∈ keys (goBind g.params gvs) → y ∈ g.params.map (fun p => vn p.1) := keys_goBind_sub _ _
  have hretP : ¬ gid retName ∈ keys (goBind g.params gvs) := fun h => hretPn (hkeys0 _ h)
  let Bad : List String := "_" :: (calleesA ((paramCtx g).map (·.1)) g.body ++ (fnSigs file G).map (fun e => vn e.1))
  let env1 : GEnv := (gid retName, zero F (goTy g.ret)) :: goBind g.params gvs
  have hrel1 : EnvRel env η (paramCtx g) (Sem.bindParams (g.params.map (·.1)) vs []) env1 :=
    hrel0.go_agree (fun y ty hy => by
      obtain ⟨_, _, _, h2, _, _⟩ := hrel0.1 y ty hy
      exact lookup_cons_ne _ _ (fun e => hretP (e ▸ key_of_lookup_some h2)))
  have hlocalsBad : ∀ y, y ∈ (g.params.map fun p => vn p.1) ++ (gid retName :: Goml.Dce.allDecls S) → ¬ y ∈ Bad := by
    intro y hy hb
    have hyL := hsubL y hy
    simp only [Bad, List.mem_cons, List.mem_append] at hb
    rcases hb with rfl | hc | hc
    · rw [List.contains_eq_mem] at hblank; simp [hyL] at hblank
    · have := List.all_eq_true.mp hcallees y hc
      simp only [Bool.and_eq_true, Bool.not_eq_true', List.contains_eq_mem, decide_eq_false_iff_not] at this
      exact this.1 hyL
    · obtain ⟨e, he, rfl⟩ := List.mem_map.mp hc
      have := List.all_eq_true.mp hfnames e he
      simp only [Bool.and_eq_true, Bool.not_eq_true', List.contains_eq_mem, decide_eq_false_iff_not] at this
      exact this.1 hyL
  have hinv1 : GInv Bad S env1 := by
    refine ⟨sokB_anti S (fun y hk => ?_) (sokB_weaken S (fun y hy => ?_) hsokS), fun y hk => ?_⟩
    · simp only [env1, Goml.Dce.keys_cons, List.mem_cons] at hk ⊢
      exact hk.imp id (hkeys0 y)
    · have := hlocalsBad y (List.mem_append_right _ (List.mem_cons_of_mem _ hy))
      simpa [notBad] using this
    · simp only [env1, Goml.Dce.keys_cons, List.mem_cons] at hk
      rcases hk with rfl | hk
      · exact hlocalsBad _ (List.mem_append_right _ List.mem_cons_self)
      · exact hlocalsBad _ (List.mem_append_left _ (hkeys0 _ hk))
  have htgt1 : TgtOK (.assign retName) (paramCtx g) env1 (aTy g.body) :=
    ⟨by simp [env1], fun y ty hy e => by
      obtain ⟨_, _, _, h2, _, _⟩ := hrel0.1 y ty hy
      exact hretP (e ▸ key_of_lookup_some h2)⟩
  have hsim := ha (.assign retName) st1 g.body η (paramCtx g) [] _ w env1 gw Bad hfrag hrel1 (KRel.nil _) hw (hS ▸ hinv1) htgt1
    (by simp [Bad]) ⟨hfeq, fun e he => by
      simp only [Bad, List.mem_cons, List.mem_append]
      exact Or.inr (Or.inr (List.mem_map_of_mem (f := fun e => vn e.1) (hfeq ▸ he))), hdeq⟩
    (fun c hc => by simp only [Bad, List.mem_cons, List.mem_append]; exact Or.inr (Or.inl hc))
  rw [hS, hret'] at hsim
  have hvd : StmtS F (goBind g.params gvs) gw (.varDecl (gid retName) (goTy g.ret) none) (.ok (env1, .normal) gw) :=
    stmt_varDecl_none (flat_not_absurd (valTy_flat hrs))
  have harity : (g.params.map fun p => (vn p.1, goTy p.2)).length = gvs.length := by simp [hlen.2]
  revert hsim
  cases hres : Sem.eval n P (Sem.bindParams (g.params.map (·.1)) vs []) w g.body.toExpr with
  | ok v w' =>
    rintro ⟨η1, hle1, D, gv, gw', hb, h3, h4, h5, hD⟩
    simp only [post, env1, update_cons_self] at hb
    have hlk : lookupG (D ++ (gid retName, gv) :: goBind g.params gvs) (gid retName) = some gv := by
      rw [lookup_append_right (fun h => (sokB_top S _ hsokS _ (hD _ h)).2 List.mem_cons_self)]; exact lookup_cons_self _ _ _
    have hr : StmtS F (D ++ (gid retName, gv) :: goBind g.params gvs) gw'
        (.ret (some (.var (gid retName) (goTy g.ret)))) (.ok (D ++ (gid retName, gv) :: goBind g.params gvs, .ret gv) gw') :=
      stmt_ret (ev_var_some hlk)
    have hblock := block_cons hvd (block_append hb (block_cons_sig (rest := []) (by simp) hr))
    exact ⟨η1, hle1, gv, gw', call_func_env hfind rfl hblock rfl (by simp [hlen.2]), h3, h4, h5⟩
  | fail fl w' =>
    cases fl with
    | panic k =>
      rintro ⟨η1, hle1, gw', hb, h5⟩
      exact ⟨η1, hle1, gw', call_func_env hfind rfl (block_cons hvd (block_append_panic hb)) rfl (by simp [hlen.2]), h5⟩
    | fuel => intro _; trivial
    | stuck s => intro _; trivial

end Goml.GoComp
