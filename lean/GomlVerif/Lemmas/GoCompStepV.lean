import GomlVerif.Lemmas.GoCompSim
import GomlVerif.Lemmas.MonoTy
/-! expression-level step of the simulation: immediates, unary / binary operators, calls -/
set_option linter.unusedSimpArgs false
set_option linter.unusedVariables false
namespace Goml.GoComp
open Goml Goml.Go Goml.GoCompile Goml.GoFrag
open Goml.Sem (Val World Res Fail)
open Goml.C01 (toG)
open Goml.Dce (keys lookup_cons_self lookup_cons_ne lookup_none_of_not_key key_of_lookup_some)

attribute [local irreducible] Goml.GoCompile.vn Goml.GoCompile.gid Goml.GoCompile.rn

theorem toG_int {env : Env} {η : Hp} {n s x t gv} (h : VRel env η (.int n s x) t gv) : gv = .int n s x := by
  simpa [VRel] using h
theorem toG_bool {env : Env} {η : Hp} {b t gv} (h : VRel env η (.bool b) t gv) : gv = .bool b := by
  simpa [VRel] using h

/-- on values of scalar type the image is `C01.toG` -/
theorem toGV_scalar {env : Env} {η : Hp} {v : Val} {t : Ty} {g : GVal} (h : HasTy env η v t) (hs : scalarTy t = true)
    (hg : VRel env η v t g) : toG v = some g := (VRel_scalar h hs).mp hg

/-- the shape of a compiled call of the fragment: an ordinary Go call of `vn name` -/
theorem toGVs_length {env : Env} {η : Hp} {vs : List Val} {ts : List Ty} {gs : List GVal} (h : VRels env η vs ts gs) :
    gs.length = vs.length := (VRels_length h).1.symm

theorem hasTys_length {env : Env} {η : Hp} : ∀ {vs : List Val} {tys : List Ty}, HasTys env η vs tys → vs.length = tys.length
  | [], [], _ => rfl
  | [], _ :: _, h => by simp [HasTys] at h
  | _ :: _, [], h => by simp [HasTys] at h
  | v :: vs, t :: tys, h => by simp only [HasTys] at h; simp [hasTys_length h.2]

/-- a callee that is not a special helper name keeps its (escaped) name in Go -/
theorem lookupTy_none_not_mem {Γ : Ctx} {x : String} (h : lookupTy Γ x = none) : (Γ.map (·.1)).contains x = false := by
  unfold lookupTy at h
  cases hf : Γ.find? (·.1 == x) with
  | some p => rw [hf] at h; cases h
  | none =>
    rw [List.find?_eq_none] at hf
    simp only [List.contains_eq_mem, decide_eq_false_iff_not, List.mem_map, not_exists, not_and]
    intro p hp hpx
    exact hf p hp (by simp [hpx])

theorem lookupTy_none_nomem {Γ : Ctx} {x : String} (h : lookupTy Γ x = none) : ∀ t, ¬ (x, t) ∈ Γ := by
  intro t hm
  have := lookupTy_none_not_mem h
  simp only [List.contains_eq_mem, decide_eq_false_iff_not, List.mem_map, not_exists, not_and] at this
  exact this (x, t) hm rfl

theorem lookupTy_some_mem {Γ : Ctx} {x : String} {t : Ty} (h : lookupTy Γ x = some t) : (Γ.map (·.1)).contains x = true := by
  unfold lookupTy at h
  cases hf : Γ.find? (·.1 == x) with
  | none => rw [hf] at h; cases h
  | some p =>
    have hm := List.mem_of_find?_eq_some hf
    have hx : p.1 = x := by simpa using List.find?_some hf
    simp only [List.contains_eq_mem, decide_eq_true_eq, List.mem_map]
    exact ⟨p, hm, hx⟩

theorem goCallee_plain {bs : List String} {name : String} {fty : Ty} {args : List Imm} {ty : Ty} (hbs : bs.contains name = false)
    (hsp : specialCallees.contains name = false)
    (hrn : rn name = name) : goCallee bs (.var name fty) args ty = [vn name] := by
  simp only [specialCallees, List.contains_cons, List.contains_nil, Bool.or_false, Bool.or_eq_false_iff, beq_eq_false_iff_ne] at hsp
  obtain ⟨h1, h2, h3, h4, h5, h6, h7, h8, h9, _⟩ := hsp
  have hbs' : ¬ name ∈ bs := by simpa using hbs
  simp [goCallee, hbs', hrn, h1, h2, h3, h4, h5, h6, h7, h8, h9]

theorem compileCall_frag {env : Env} {file : AFile} {G : List String} {Γ : Ctx} {name : String} {fty : Ty}
    {args : List Imm} {ty : Ty} (h : callOK env file G Γ (.var name fty) args ty = true) :
    compileCall env (.var name fty) args ty =
      .call (goTy ty) (.var (vn name) (goTy fty)) (compileImms env args) := by
  simp only [callOK, Bool.and_eq_true, Bool.not_eq_true', beq_iff_eq] at h
  obtain ⟨⟨⟨⟨⟨_, hrn⟩, hsp⟩, hext⟩, _⟩, _⟩ := h
  have hext' : env.getExternFn name = none := by
    cases hx : env.getExternFn name with
    | none => rfl
    | some p => rw [hx] at hext; simp at hext
  simp only [specialCallees, List.contains_cons, List.contains_nil, Bool.or_false, Bool.or_eq_false_iff, beq_eq_false_iff_ne] at hsp
  obtain ⟨h1, h2, h3, h4, h5, h6, h7, h8, h9, _⟩ := hsp
  simp only [compileCall, callee, hrn]
  simp [h1, h2, h3, h4, h5, h6, h7, h8, h9, hext', compileImm]

/-- `Sem.eval` of a non-logical binary operator -/
theorem sem_bin_nonlogic {P : Prog} {ρ : Sem.Env} {w : World} {n : Nat} {op : BinOp} {ty : Ty} {l r : Expr}
    (hlog : Goml.C01.isLogic op = false) :
    Sem.eval (n + 1) P ρ w (.bin op ty l r) =
      (match Sem.eval n P ρ w l with
       | .fail f w => Res.fail f w
       | .ok a w =>
         match Sem.eval n P ρ w r with
         | .fail f w => Res.fail f w
         | .ok b w =>
           match Sem.binop op a b with
           | .ok v => Res.ok v w
           | .error f => Res.fail f w) := by
  rw [Sem.eval]
  cases Sem.eval n P ρ w l with
  | fail f w' => rfl
  | ok a w' =>
    cases op <;> simp [Goml.C01.isLogic] at hlog <;> simp +decide [Sem.logicalNonBool] <;>
      (cases Sem.eval n P ρ w' r with
       | fail f w2 => rfl
       | ok b w2 => simp only []; cases Sem.binop _ a b <;> rfl)

/-- `Sem.eval` of `&&` / `||` with a boolean left operand -/
theorem sem_and_bool {P : Prog} {ρ : Sem.Env} {w w1 : World} {n : Nat} {ty : Ty} {l r : Expr} {x : Bool}
    (h : Sem.eval n P ρ w l = .ok (.bool x) w1) :
    Sem.eval (n + 1) P ρ w (.bin .and ty l r) =
      (if x then
         (match Sem.eval n P ρ w1 r with
          | .fail f w => Res.fail f w
          | .ok b w =>
            match Sem.binop .and (.bool true) b with
            | .ok v => Res.ok v w
            | .error f => Res.fail f w)
       else .ok (.bool false) w1) := by
  rw [Sem.eval, h]
  cases x <;> simp +decide [Sem.logicalNonBool]
  cases Sem.eval n P ρ w1 r with
  | fail f w2 => rfl
  | ok b w2 => simp only []; cases Sem.binop _ _ b <;> rfl

theorem sem_or_bool {P : Prog} {ρ : Sem.Env} {w w1 : World} {n : Nat} {ty : Ty} {l r : Expr} {x : Bool}
    (h : Sem.eval n P ρ w l = .ok (.bool x) w1) :
    Sem.eval (n + 1) P ρ w (.bin .or ty l r) =
      (if x then .ok (.bool true) w1
       else
         (match Sem.eval n P ρ w1 r with
          | .fail f w => Res.fail f w
          | .ok b w =>
            match Sem.binop .or (.bool false) b with
            | .ok v => Res.ok v w
            | .error f => Res.fail f w)) := by
  rw [Sem.eval, h]
  cases x <;> simp +decide [Sem.logicalNonBool]
  cases Sem.eval n P ρ w1 r with
  | fail f w2 => rfl
  | ok b w2 => simp only []; cases Sem.binop _ _ b <;> rfl

theorem sem_bin_fuel {P : Prog} {ρ : Sem.Env} {w : World} {n : Nat} {op : BinOp} {ty : Ty} {l r : Expr}
    (h : Sem.eval n P ρ w l = .fail .fuel w) : Sem.eval (n + 1) P ρ w (.bin op ty l r) = .fail .fuel w := by
  rw [Sem.eval, h]

/-! ### the reference builtins -/

theorem sem_call_fn {P : Prog} {ρ : Sem.Env} {w : World} {n : Nat} {ty fty : Ty} {name : String} {args : List Expr}
    (hsrc : Sem.lookupEnv ρ name = none) :
    Sem.eval (n + 2) P ρ w (.call ty (.var name fty) args) =
      (match Sem.evalList (n + 1) P ρ w args with
       | .fail f w => Res.fail f w
       | .ok vs w => Sem.apply (n + 1) P w (.fn name) vs) := by
  rw [Sem.eval]
  rw [Sem.eval]; simp only [hsrc]
  cases Sem.evalList (n + 1) P ρ w args <;> rfl

theorem argsRel_two {env : Env} {η : Hp} {vs : List Val} {gvs : List GVal} {t1 t2 : Ty} (h : ArgsRel env η vs gvs [t1, t2]) :
    ∃ v1 v2 g1 g2, vs = [v1, v2] ∧ gvs = [g1, g2] ∧ VRel env η v1 t1 g1 ∧ HasTy env η v1 t1 ∧
      VRel env η v2 t2 g2 ∧ HasTy env η v2 t2 := by
  rcases vs with _ | ⟨v1, _ | ⟨v2, _ | ⟨v3, vs⟩⟩⟩ <;> rcases gvs with _ | ⟨g1, _ | ⟨g2, _ | ⟨g3, gs⟩⟩⟩ <;> simp [ArgsRel] at h
  exact ⟨v1, v2, g1, g2, rfl, rfl, h.1, h.2.1, h.2.2.1, h.2.2.2⟩

theorem refcall_sim {env : Env} {file : AFile} {G : List String} {P : Prog} {F : GFile} (hl : Link env file G P F) (n : Nat)
    (η : Hp) (Γ : Ctx) (ρ : Sem.Env) (w : World) (gρ : GEnv) (gw : GWorld) (Bad : List String)
    (name : String) (fty : Ty) (args : List Imm) (ty : Ty)
    (hfrag : refCallOK env file G Γ (.var name fty) args ty = true) (hrel : EnvRel env η Γ ρ gρ) (hw : WRel env η w gw)
    (hgood : ∀ y, y ∈ keys gρ → ¬ y ∈ Bad) (hfr : FnRel file G η gρ) (hcal : ∀ x, x ∈ calleesC (Γ.map (·.1)) (.call (.var name fty) args ty) → x ∈ Bad) :
    ConclV env η F (compileCExpr env (.call (.var name fty) args ty)) gρ gw ty false true w
      (Sem.eval (n + 1) P ρ w (CExpr.call (.var name fty) args ty).toExpr) := by
  simp only [refCallOK, Bool.and_eq_true, beq_iff_eq] at hfrag
  obtain ⟨⟨hloc, hrn⟩, hcase⟩ := hfrag
  have hnone : lookupTy Γ name = none := by
    cases hx : lookupTy Γ name with
    | none => rfl
    | some p => rw [hx] at hloc; simp at hloc
  have hsrc : Sem.lookupEnv ρ name = none := hrel.2 name hnone
  have hnb := lookupTy_none_nomem hnone
  simp only [CExpr.toExpr, Imm.toExpr]
  cases n with
  | zero => rw [Sem.eval]; rw [Sem.eval]; trivial
  | succ n =>
  rw [sem_call_fn hsrc]
  by_cases h1 : name = "ref"
  · subst h1
    simp only [beq_self_eq_true, if_true] at hcase
    cases ty with
    | ref e =>
      simp only [Bool.and_eq_true] at hcase
      obtain ⟨hargs, hrt⟩ := hcase
      obtain ⟨vs, gvs, hrelA, hgA, hsA⟩ := imms_both P hl.ty hrel hfr hargs
      obtain ⟨v, g, rfl, rfl, hg, ht⟩ := argsRel_single hrelA
      have hshape : compileCExpr env (.call (.var "ref" fty) args (.ref e)) =
          .call (goTy (.ref e)) (.var (helperFnName "ref" (.ref e)) (.func [goTy e] (goTy (.ref e)))) (compileImms env args) := by
        simp [compileCExpr, compileCall, callee, hrn, refElem]
      rw [hshape]
      have hbad : helperFnName "ref" (.ref e) ∈ Bad := hcal _ (by simp [calleesC, goCallee, hrn, hnb])
      have hgo : lookupG gρ (helperFnName "ref" (.ref e)) = none := lookup_none_of_not_key (fun hk => hgood _ hk hbad)
      rcases hsA (n + 1) w with h2 | h2
      · rw [h2]; trivial
      · rw [h2]; simp only
        rw [Sem.apply]; simp only [hl.refSrc "ref" (by simp [refNames])]
        have hb : Sem.builtin "ref" [v] w = some (.ok (.ref w.store.size) { w with store := w.store.push v }) := rfl
        simp only [hb]
        obtain ⟨hle, hw', hg', ht'⟩ := hw.alloc ht hg
        exact ⟨_, hle, _, _, ev_call (ev_var_none hgo) (hgA gw) (ref_new_call (hl.refGo e hrt) gw g), hg', ht', hw',
          fun h => by cases h⟩
    | _ => exact absurd hcase (by simp)
  · rw [if_neg h1] at hcase
    by_cases h2 : name = "ref_get"
    · subst h2
      simp only [beq_self_eq_true, if_true, Bool.and_eq_true] at hcase
      obtain ⟨hargs, hrt⟩ := hcase
      obtain ⟨vs, gvs, hrelA, hgA, hsA⟩ := imms_both P hl.ty hrel hfr hargs
      obtain ⟨v, g, rfl, rfl, hg, ht⟩ := argsRel_single hrelA
      -- the argument's annotated type is the reference type
      have harg0 : (args.head?.map Imm.ty).getD (.tvar 0) = .ref ty := by
        cases args with
        | nil => simp [argsOK] at hargs
        | cons a as =>
          simp only [argsOK, Bool.and_eq_true] at hargs
          simp [scalarEq_eq hargs.1.2]
      have hshape : compileCExpr env (.call (.var "ref_get" fty) args ty) =
          .call (goTy ty) (.var (helperFnName "ref_get" (.ref ty)) (.func [goTy (.ref ty)] (goTy ty))) (compileImms env args) := by
        simp [compileCExpr, compileCall, callee, hrn, harg0, refElem]
      rw [hshape]
      have hbad : helperFnName "ref_get" (.ref ty) ∈ Bad := hcal _ (by simp [calleesC, goCallee, hrn, harg0, hnb])
      have hgo : lookupG gρ (helperFnName "ref_get" (.ref ty)) = none := lookup_none_of_not_key (fun hk => hgood _ hk hbad)
      rcases hsA (n + 1) w with h3 | h3
      · rw [h3]; trivial
      · rw [h3]; simp only
        rw [Sem.apply]; simp only [hl.refSrc "ref_get" (by simp [refNames])]
        -- the argument is a reference into the store
        cases v <;> simp only [HasTy] at ht <;> try exact ht.elim
        rename_i l
        have ht' : HasTy env η (.ref l) (.ref ty) := by simp only [HasTy]; exact ht
        obtain ⟨cv, gl, gcv, hs0, hloc0, hcvt, hcvg, hcell⟩ := hw.get ht'
        have hb : Sem.builtin "ref_get" [.ref l] w = some (.ok cv w) := by
          simp [Sem.builtin, hs0]
        simp only [hb]
        have hgp : g = .ptr gl := by simp [VRel, hloc0] at hg; exact hg
        subst hgp
        exact ⟨η, η.le_refl, gcv, gw, ev_call (ev_var_none hgo) (hgA gw) (ref_get_call (hl.refGo ty hrt) gw gl gcv hcell),
          hcvg, hcvt, hw, fun h => by cases h⟩
    · rw [if_neg h2] at hcase
      by_cases h3 : name = "ref_set"
      · subst h3
        simp only [beq_self_eq_true, if_true] at hcase
        cases args with
        | nil => simp at hcase
        | cons r rest =>
          simp only at hcase
          cases hrty : r.ty with
          | ref e =>
            rw [hrty] at hcase; simp only [Bool.and_eq_true] at hcase
            obtain ⟨⟨hargs, htu⟩, hrt⟩ := hcase
            have htu' := scalarEq_eq htu; subst htu'
            obtain ⟨vs, gvs, hrelA, hgA, hsA⟩ := imms_both P hl.ty hrel hfr hargs
            obtain ⟨v1, v2, g1, g2, rfl, rfl, hg1, ht1, hg2, ht2⟩ := argsRel_two hrelA
            have hshape : compileCExpr env (.call (.var "ref_set" fty) (r :: rest) .unit) =
                .call (goTy .unit) (.var (helperFnName "ref_set" (.ref e)) (.func [goTy (.ref e), goTy e] .unit))
                  (compileImms env (r :: rest)) := by
              simp [compileCExpr, compileCall, callee, hrn, hrty, refElem]
            rw [hshape]
            have hbad : helperFnName "ref_set" (.ref e) ∈ Bad := hcal _ (by simp [calleesC, goCallee, hrn, hrty, hnb])
            have hgo : lookupG gρ (helperFnName "ref_set" (.ref e)) = none := lookup_none_of_not_key (fun hk => hgood _ hk hbad)
            rcases hsA (n + 1) w with h4 | h4
            · rw [h4]; trivial
            · rw [h4]; simp only
              rw [Sem.apply]; simp only [hl.refSrc "ref_set" (by simp [refNames])]
              cases v1 <;> simp only [HasTy] at ht1 <;> try exact ht1.elim
              rename_i l
              have ht1' : HasTy env η (.ref l) (.ref e) := by simp only [HasTy]; exact ht1
              obtain ⟨gl, hloc0, hlt, ⟨old, hcell⟩, hw'⟩ := hw.set ht1' ht2 hg2
              have hb : Sem.builtin "ref_set" [.ref l, v2] w = some (.ok .unit { w with store := w.store.set! l v2 }) := by
                simp [Sem.builtin, hlt]
              simp only [hb]
              have hgp : g1 = .ptr gl := by simp [VRel, hloc0] at hg1; exact hg1
              subst hgp
              exact ⟨η, η.le_refl, .unit, _, ev_call (ev_var_none hgo) (hgA gw) (ref_set_call (hl.refGo e hrt) gw gl old g2 hcell),
                rfl, trivial, hw', fun h => by cases h⟩
          | _ => rw [hrty] at hcase; simp at hcase
      · rw [if_neg h3] at hcase; cases hcase

/-! ### the array builtins -/

theorem Imm.ty_var (x : String) (t : Ty) : (Imm.var x t).ty = t := rfl

theorem argsRel_three {env : Env} {η : Hp} {vs : List Val} {gvs : List GVal} {t1 t2 t3 : Ty} (h : ArgsRel env η vs gvs [t1, t2, t3]) :
    ∃ v1 v2 v3 g1 g2 g3, vs = [v1, v2, v3] ∧ gvs = [g1, g2, g3] ∧ VRel env η v1 t1 g1 ∧ HasTy env η v1 t1 ∧
      VRel env η v2 t2 g2 ∧ HasTy env η v2 t2 ∧ VRel env η v3 t3 g3 ∧ HasTy env η v3 t3 := by
  rcases vs with _ | ⟨v1, _ | ⟨v2, _ | ⟨v3, _ | ⟨v4, vs⟩⟩⟩⟩ <;> rcases gvs with _ | ⟨g1, _ | ⟨g2, _ | ⟨g3, _ | ⟨g4, gs⟩⟩⟩⟩ <;>
    simp [ArgsRel] at h
  exact ⟨v1, v2, v3, g1, g2, g3, rfl, rfl, h.1, h.2.1, h.2.2.1, h.2.2.2.1, h.2.2.2.2.1, h.2.2.2.2.2⟩

/-- a typed array value and its Go image -/
theorem arrayV_inv {env : Env} {η : Hp} {v : Val} {g : GVal} {len : Nat} {e : Ty} (ht : HasTy env η v (.array len e))
    (hg : VRel env η v (.array len e) g) :
    ∃ vs gs, v = .array vs ∧ g = .array gs ∧ 1 ≤ len ∧ HasTys env η vs (List.replicate len e) ∧
      VRels env η vs (List.replicate len e) gs := by
  cases v <;> simp only [HasTy] at ht <;> try exact ht.elim
  rename_i vs
  simp only [VRel] at hg
  obtain ⟨gs, hgs, rfl⟩ := hg
  exact ⟨vs, gs, rfl, rfl, ht.1, ht.2, hgs⟩

theorem intV_inv {env : Env} {η : Hp} {v : Val} {g : GVal} {t : Ty} (hit : intTy t = true) (ht : HasTy env η v t)
    (hg : VRel env η v t g) : ∃ b s x, v = .int b s x ∧ g = .int b s x := by
  cases t <;> simp [intTy] at hit
  obtain ⟨x, rfl⟩ := hasTy_int ht
  simp [VRel] at hg
  exact ⟨_, _, x, rfl, hg⟩

theorem arrcall_name {env : Env} {file : AFile} {Γ : Ctx} {name : String} {fty : Ty} {args : List Imm} {ty : Ty}
    (hfrag : arrCallOK env file G Γ (.var name fty) args ty = true) : rn name = name ∧ (name = "array_get" ∨ name = "array_set") := by
  simp only [arrCallOK, Bool.and_eq_true, beq_iff_eq] at hfrag
  obtain ⟨⟨_, hrn⟩, hcase⟩ := hfrag
  refine ⟨hrn, ?_⟩
  cases args with
  | nil => cases hcase
  | cons a rest =>
    cases rest with
    | nil => cases hcase
    | cons i rest =>
      simp only at hcase
      cases haty : a.ty with
      | array len e =>
        rw [haty] at hcase; simp only [Bool.and_eq_true] at hcase
        obtain ⟨_, hif⟩ := hcase
        by_cases h1 : name = "array_get"
        · exact Or.inl h1
        · rw [if_neg h1] at hif
          by_cases h2 : name = "array_set"
          · exact Or.inr h2
          · rw [if_neg h2] at hif; cases hif
      | _ => rw [haty] at hcase; cases hcase

/-- the shape of a compiled call of an array builtin -/
theorem arrcall_shape {env : Env} {file : AFile} {Γ : Ctx} {name : String} {fty : Ty} {args : List Imm} {ty : Ty}
    (hfrag : arrCallOK env file G Γ (.var name fty) args ty = true) :
    ∃ helper tys, compileCExpr env (.call (.var name fty) args ty) = .call (goTy ty) (.var helper (goTy fty)) (compileImms env args) ∧
      calleesC (Γ.map (·.1)) (.call (.var name fty) args ty) = [helper] ∧ argsOK env file G Γ args tys = true := by
  simp only [arrCallOK, Bool.and_eq_true, beq_iff_eq] at hfrag
  obtain ⟨⟨hloc, hrn⟩, hcase⟩ := hfrag
  have hnone : lookupTy Γ name = none := by
    cases hx : lookupTy Γ name with
    | none => rfl
    | some p => rw [hx] at hloc; simp at hloc
  have hnb := lookupTy_none_nomem hnone
  cases args with
  | nil => cases hcase
  | cons a rest =>
    cases rest with
    | nil => cases hcase
    | cons i rest =>
      simp only at hcase
      cases haty : a.ty with
      | array len e =>
        rw [haty] at hcase; simp only [Bool.and_eq_true] at hcase
        obtain ⟨_, hif⟩ := hcase
        by_cases h1 : name = "array_get"
        · subst h1
          rw [if_pos rfl] at hif; simp only [Bool.and_eq_true] at hif
          exact ⟨helperFnName "array_get" (.array len e), _,
            by simp [compileCExpr, compileCall, callee, hrn, haty, Imm.ty_var], by simp [calleesC, goCallee, hrn, haty, hnb], hif.1⟩
        · rw [if_neg h1] at hif
          by_cases h2 : name = "array_set"
          · subst h2
            rw [if_pos rfl] at hif; simp only [Bool.and_eq_true] at hif
            exact ⟨helperFnName "array_set" (.array len e), _,
              by simp [compileCExpr, compileCall, callee, hrn, haty, Imm.ty_var], by simp [calleesC, goCallee, hrn, haty, hnb], hif.1⟩
          · rw [if_neg h2] at hif; cases hif
      | _ => rw [haty] at hcase; cases hcase

theorem arrcall_sim {env : Env} {file : AFile} {G : List String} {P : Prog} {F : GFile} (hl : Link env file G P F) (n : Nat)
    (η : Hp) (Γ : Ctx) (ρ : Sem.Env) (w : World) (gρ : GEnv) (gw : GWorld) (Bad : List String)
    (name : String) (fty : Ty) (args : List Imm) (ty : Ty)
    (hfrag : arrCallOK env file G Γ (.var name fty) args ty = true) (hrel : EnvRel env η Γ ρ gρ) (hw : WRel env η w gw)
    (hgood : ∀ y, y ∈ keys gρ → ¬ y ∈ Bad) (hfr : FnRel file G η gρ) (hcal : ∀ x, x ∈ calleesC (Γ.map (·.1)) (.call (.var name fty) args ty) → x ∈ Bad) :
    ConclV env η F (compileCExpr env (.call (.var name fty) args ty)) gρ gw ty false true w
      (Sem.eval (n + 1) P ρ w (CExpr.call (.var name fty) args ty).toExpr) := by
  obtain ⟨helper, tys0, hshape, hcs, _⟩ := arrcall_shape hfrag
  simp only [arrCallOK, Bool.and_eq_true, beq_iff_eq] at hfrag
  obtain ⟨⟨hloc, hrn⟩, hcase⟩ := hfrag
  have hnone : lookupTy Γ name = none := by
    cases hx : lookupTy Γ name with
    | none => rfl
    | some p => rw [hx] at hloc; simp at hloc
  have hsrc : Sem.lookupEnv ρ name = none := hrel.2 name hnone
  have hnb := lookupTy_none_nomem hnone
  have hbad : helper ∈ Bad := hcal _ (by rw [hcs]; exact List.mem_singleton.mpr rfl)
  have hgo : lookupG gρ helper = none := lookup_none_of_not_key (fun hk => hgood _ hk hbad)
  rw [hshape]
  simp only [CExpr.toExpr, Imm.toExpr]
  cases n with
  | zero => rw [Sem.eval]; rw [Sem.eval]; trivial
  | succ n =>
  rw [sem_call_fn hsrc]
  cases args with
  | nil => cases hcase
  | cons a rest =>
    cases rest with
    | nil => cases hcase
    | cons i rest =>
      simp only at hcase
      cases haty : a.ty with
      | array len e =>
        rw [haty] at hcase; simp only [Bool.and_eq_true] at hcase
        obtain ⟨⟨hint, hat⟩, hif⟩ := hcase
        have hhelper : ∀ nm, name = nm → helper = helperFnName nm (.array len e) := by
          intro nm hnm; subst hnm
          have : calleesC (Γ.map (·.1)) (.call (.var name fty) (a :: i :: rest) ty) = [helperFnName name (.array len e)] := by
            simp only [calleesC, goCallee, hrn, List.head?_cons, Option.map_some, Option.getD_some, haty]
            by_cases h1 : name = "array_get"
            · subst h1; simp [hnb]
            · by_cases h2 : name = "array_set"
              · subst h2; simp [hnb]
              · rw [if_neg h1, if_neg h2] at hif; cases hif
          rw [this] at hcs; injection hcs with hcs; exact hcs.symm
        by_cases h1 : name = "array_get"
        · have hh := hhelper _ h1
          subst h1; subst hh
          rw [if_pos rfl] at hif; simp only [Bool.and_eq_true] at hif
          obtain ⟨hargs, hty⟩ := hif
          have hty' := scalarEq_eq hty; subst hty'
          obtain ⟨vs, gvs, hrelA, hgA, hsA⟩ := imms_both P hl.ty hrel hfr hargs
          obtain ⟨va, vi, ga, gi, rfl, rfl, hga, hta, hgi, hti⟩ := argsRel_two hrelA
          obtain ⟨xs, gs, rfl, rfl, hlen1, hxs, hgs⟩ := arrayV_inv hta hga
          obtain ⟨b, s, x, rfl, rfl⟩ := intV_inv hint hti hgi
          rcases hsA (n + 1) w with h2 | h2
          · rw [h2]; trivial
          · rw [h2]; simp only
            rw [Sem.apply]; simp only [hl.arrSrc "array_get" (by simp [arrNames])]
            by_cases hneg : x < 0
            · have hb : Sem.builtin "array_get" [.array xs, .int b s x] w = some (.fail (.panic "index out of range") w) := by
                simp [Sem.builtin, hneg]
              simp only [hb]
              exact ⟨η, η.le_refl, gw, ev_call (ev_var_none hgo) (hgA gw) (arr_get_call_oob (hl.arrGo len ty hat) gw gs b s x (Or.inl hneg)),
                hw, rfl⟩
            · rcases toGVs_get x.toNat hgs with ⟨hn1, hn2⟩ | ⟨v, g, hv1, hv2, hvg⟩
              · have hb : Sem.builtin "array_get" [.array xs, .int b s x] w = some (.fail (.panic "index out of range") w) := by
                  simp [Sem.builtin, hneg, hn1]
                simp only [hb]
                exact ⟨η, η.le_refl, gw, ev_call (ev_var_none hgo) (hgA gw) (arr_get_call_oob (hl.arrGo len ty hat) gw gs b s x (Or.inr hn2)),
                  hw, rfl⟩
              · have hb : Sem.builtin "array_get" [.array xs, .int b s x] w = some (.ok v w) := by
                  simp [Sem.builtin, hneg, hv1]
                simp only [hb]
                exact ⟨η, η.le_refl, g, gw, ev_call (ev_var_none hgo) (hgA gw) (arr_get_call (hl.arrGo len ty hat) gw gs b s x g hneg hv2),
                  hvg, hasTys_replicate_get x.toNat hxs hv1, hw, fun h => by cases h⟩
        · rw [if_neg h1] at hif
          by_cases h2 : name = "array_set"
          · have hh := hhelper _ h2
            subst h2; subst hh
            rw [if_pos rfl] at hif; simp only [Bool.and_eq_true] at hif
            obtain ⟨hargs, hty⟩ := hif
            have hty' := scalarEq_eq hty; subst hty'
            obtain ⟨vs, gvs, hrelA, hgA, hsA⟩ := imms_both P hl.ty hrel hfr hargs
            obtain ⟨va, vi, vv, ga, gi, gv, rfl, rfl, hga, hta, hgi, hti, hgv, htv⟩ := argsRel_three hrelA
            obtain ⟨xs, gs, rfl, rfl, hlen1, hxs, hgs⟩ := arrayV_inv hta hga
            obtain ⟨b, s, x, rfl, rfl⟩ := intV_inv hint hti hgi
            have hlenG : gs.length = xs.length := toGVs_length hgs
            rcases hsA (n + 1) w with h3 | h3
            · rw [h3]; trivial
            · rw [h3]; simp only
              rw [Sem.apply]; simp only [hl.arrSrc "array_set" (by simp [arrNames])]
              by_cases hoob : x < 0 ∨ x.toNat ≥ xs.length
              · have hb : Sem.builtin "array_set" [.array xs, .int b s x, vv] w = some (.fail (.panic "index out of range") w) := by
                  have : (decide (x < 0) || decide (x.toNat ≥ xs.length)) = true := by
                    rcases hoob with h | h <;> simp [h]
                  simp [Sem.builtin, this]
                simp only [hb]
                exact ⟨η, η.le_refl, gw, ev_call (ev_var_none hgo) (hgA gw)
                  (arr_set_call_oob (hl.arrGo len e hat) gw gs b s x gv (by rw [hlenG]; exact hoob)), hw, rfl⟩
              · have hb : Sem.builtin "array_set" [.array xs, .int b s x, vv] w = some (.ok (.array (xs.set x.toNat vv)) w) := by
                  have : (decide (x < 0) || decide (x.toNat ≥ xs.length)) = false := by
                    simp only [not_or] at hoob
                    simp [hoob.1, hoob.2]
                  simp [Sem.builtin, this]
                simp only [hb]
                refine ⟨η, η.le_refl, .array (gs.set x.toNat gv), gw, ev_call (ev_var_none hgo) (hgA gw)
                  (arr_set_call (hl.arrGo len e hat) gw gs b s x gv (by rw [hlenG]; exact hoob)), ?_, ?_, hw, fun h => by cases h⟩
                · simp only [VRel]; exact ⟨_, toGVs_set x.toNat hgs hgv, rfl⟩
                · simp only [HasTy]; exact ⟨hlen1, hasTys_replicate_set x.toNat hxs htv⟩
          · rw [if_neg h2] at hif; cases hif
      | _ => rw [haty] at hcase; cases hcase

/-- the shape of a compiled call of a reference builtin: an ordinary Go call of the helper of the type -/
theorem refcall_shape {env : Env} {file : AFile} {Γ : Ctx} {name : String} {fty : Ty} {args : List Imm} {ty : Ty}
    (hfrag : refCallOK env file G Γ (.var name fty) args ty = true) :
    ∃ helper hty tys, compileCExpr env (.call (.var name fty) args ty) = .call (goTy ty) (.var helper hty) (compileImms env args) ∧
      calleesC (Γ.map (·.1)) (.call (.var name fty) args ty) = [helper] ∧ argsOK env file G Γ args tys = true := by
  simp only [refCallOK, Bool.and_eq_true, beq_iff_eq] at hfrag
  obtain ⟨⟨hloc, hrn⟩, hcase⟩ := hfrag
  have hnone : lookupTy Γ name = none := by
    cases hx : lookupTy Γ name with
    | none => rfl
    | some p => rw [hx] at hloc; simp at hloc
  have hnb := lookupTy_none_nomem hnone
  by_cases h1 : name = "ref"
  · subst h1
    rw [if_pos rfl] at hcase
    cases ty with
    | ref e =>
      simp only [Bool.and_eq_true] at hcase
      exact ⟨helperFnName "ref" (.ref e), .func [goTy e] (goTy (.ref e)), _,
        by simp [compileCExpr, compileCall, callee, hrn, refElem], by simp [calleesC, goCallee, hrn, hnb], hcase.1⟩
    | _ => exact absurd hcase (by simp)
  · rw [if_neg h1] at hcase
    by_cases h2 : name = "ref_get"
    · subst h2
      rw [if_pos rfl] at hcase
      simp only [Bool.and_eq_true] at hcase
      have harg0 : (args.head?.map Imm.ty).getD (.tvar 0) = .ref ty := by
        cases args with
        | nil => simp [argsOK] at hcase
        | cons a as =>
          have := hcase.1
          simp only [argsOK, Bool.and_eq_true] at this
          simp [scalarEq_eq this.1.2]
      exact ⟨helperFnName "ref_get" (.ref ty), .func [goTy (.ref ty)] (goTy ty), _,
        by simp [compileCExpr, compileCall, callee, hrn, harg0, refElem], by simp [calleesC, goCallee, hrn, harg0, hnb], hcase.1⟩
    · rw [if_neg h2] at hcase
      by_cases h3 : name = "ref_set"
      · subst h3
        rw [if_pos rfl] at hcase
        cases args with
        | nil => cases hcase
        | cons r rest =>
          simp only at hcase
          cases hrty : r.ty with
          | ref e =>
            rw [hrty] at hcase; simp only [Bool.and_eq_true] at hcase
            exact ⟨helperFnName "ref_set" (.ref e), .func [goTy (.ref e), goTy e] .unit, _,
              by simp [compileCExpr, compileCall, callee, hrn, hrty, refElem, scalarEq_eq hcase.1.2],
              by simp [calleesC, goCallee, hrn, hrty, hnb], hcase.1.1⟩
          | _ => rw [hrty] at hcase; cases hcase
      · rw [if_neg h3] at hcase; cases hcase

/-! ### the `Vec` builtins -/

theorem sem_evalList_one {P : Prog} {ρ : Sem.Env} {ea : Expr} {va : Val}
    (ha : ∀ n w, Sem.eval (n + 1) P ρ w ea = .ok va w) (n : Nat) (w : World) :
    Sem.evalList n P ρ w [ea] = .fail .fuel w ∨ Sem.evalList n P ρ w [ea] = .ok [va] w := by
  cases n with
  | zero => left; rw [Sem.evalList.eq_def]
  | succ n =>
    rw [Sem.evalList.eq_def]; simp only
    rcases sem_imm_any ha (w := w) n with h | h
    · left; rw [h]
    · rw [h]; simp only
      cases n with
      | zero => left; rw [Sem.evalList.eq_def]
      | succ n => right; rw [Sem.evalList.eq_def]

theorem sem_evalList_two {P : Prog} {ρ : Sem.Env} {ea ei : Expr} {va vi : Val}
    (ha : ∀ n w, Sem.eval (n + 1) P ρ w ea = .ok va w) (hi : ∀ n w, Sem.eval (n + 1) P ρ w ei = .ok vi w) (n : Nat) (w : World) :
    Sem.evalList n P ρ w [ea, ei] = .fail .fuel w ∨ Sem.evalList n P ρ w [ea, ei] = .ok [va, vi] w := by
  cases n with
  | zero => left; rw [Sem.evalList.eq_def]
  | succ n =>
    rw [Sem.evalList.eq_def]; simp only
    rcases sem_imm_any ha (w := w) n with h | h
    · left; rw [h]
    · rw [h]; simp only
      rcases sem_evalList_one hi n w with h2 | h2
      · left; rw [h2]
      · right; rw [h2]

/-- a typed vector value and its Go image: `nil`, or a slice without spare capacity over an immutable cell -/
theorem vecV_inv {env : Env} {η : Hp} {v : Val} {g : GVal} {e : Ty} (ht : HasTy env η v (.vec e)) (hg : VRel env η v (.vec e) g) :
    ∃ xs, v = .vec xs ∧ HasTys env η xs (List.replicate xs.length e) ∧
      ((xs = [] ∧ g = .nilv) ∨
       (xs ≠ [] ∧ ∃ loc gs, (loc, GVal.array gs) ∈ η.imm ∧ VRels env η xs (List.replicate xs.length e) gs ∧
          g = .slice loc xs.length xs.length)) := by
  cases v <;> simp only [HasTy] at ht <;> try exact ht.elim
  rename_i xs
  simp only [VRel] at hg
  exact ⟨xs, rfl, ht, hg⟩

theorem veccall_sim {env : Env} {file : AFile} {G : List String} {P : Prog} {F : GFile} (hl : Link env file G P F) (n : Nat)
    (η : Hp) (Γ : Ctx) (ρ : Sem.Env) (w : World) (gρ : GEnv) (gw : GWorld) (Bad : List String)
    (name : String) (fty : Ty) (args : List Imm) (ty : Ty)
    (hfrag : vecCallOK env file G Γ (.var name fty) args ty = true) (hrel : EnvRel env η Γ ρ gρ) (hw : WRel env η w gw)
    (hgood : ∀ y, y ∈ keys gρ → ¬ y ∈ Bad) (hfr : FnRel file G η gρ)
    (hcal : ∀ x, x ∈ calleesC (Γ.map (·.1)) (.call (.var name fty) args ty) → x ∈ Bad) :
    ConclV env η F (compileCExpr env (.call (.var name fty) args ty)) gρ gw ty false true w
      (Sem.eval (n + 1) P ρ w (CExpr.call (.var name fty) args ty).toExpr) := by
  simp only [vecCallOK, Bool.and_eq_true, beq_iff_eq] at hfrag
  obtain ⟨⟨hloc, hrn⟩, hcase⟩ := hfrag
  have hnone : lookupTy Γ name = none := by
    cases hx : lookupTy Γ name with
    | none => rfl
    | some p => rw [hx] at hloc; simp at hloc
  have hsrc : Sem.lookupEnv ρ name = none := hrel.2 name hnone
  have hnb := lookupTy_none_nomem hnone
  simp only [CExpr.toExpr, Imm.toExpr]
  cases n with
  | zero => rw [Sem.eval]; rw [Sem.eval]; trivial
  | succ n =>
  rw [sem_call_fn hsrc]
  by_cases h1 : name = "vec_new"
  · -- `vec_new()` is `nil`
    subst h1
    rw [if_pos rfl] at hcase
    cases args with
    | cons a rest => simp at hcase
    | nil =>
      cases ty <;> simp only at hcase <;> try (cases hcase; done)
      rename_i e
      have hshape : compileCExpr env (.call (.var "vec_new" fty) [] (.vec e)) = .nil (goTy (.vec e)) := by
        simp [compileCExpr, compileCall, callee, hrn]
      rw [hshape]
      simp only [List.map_nil]
      rw [Sem.evalList.eq_def]; simp only
      rw [Sem.apply]; simp only [hl.vecSrc "vec_new" (by simp [vecNames])]
      have hb : Sem.builtin "vec_new" [] w = some (.ok (.vec []) w) := rfl
      simp only [hb]
      exact ⟨η, η.le_refl, .nilv, gw, ev_nil, by simp [VRel], by simp [HasTy, HasTys], hw, fun h => by cases h⟩
  · rw [if_neg h1] at hcase
    by_cases h2 : name = "vec_push"
    · -- `vec_push(v, x)` is `append(v, x)`: a fresh backing array
      subst h2
      rw [if_pos rfl] at hcase
      cases ty <;> simp only at hcase <;> try (cases hcase; done)
      rename_i e
      simp only [Bool.and_eq_true] at hcase
      obtain ⟨hargs, _⟩ := hcase
      have hshape : compileCExpr env (.call (.var "vec_push" fty) args (.vec e)) =
          .call (goTy (.vec e)) (.var "append" (goTy fty)) (compileImms env args) := by
        simp [compileCExpr, compileCall, callee, hrn, Imm.ty]
      rw [hshape]
      have hbad : "append" ∈ Bad := hcal _ (by simp [calleesC, goCallee, hrn, hnb])
      have hgo : lookupG gρ "append" = none := lookup_none_of_not_key (fun hk => hgood _ hk hbad)
      obtain ⟨vs, gvs, hrelA, hgA, hsA⟩ := imms_both P hl.ty hrel hfr hargs
      obtain ⟨va, vx, ga, gx, rfl, rfl, hga, hta, hgx, htx⟩ := argsRel_two hrelA
      obtain ⟨xs, rfl, hxs, hcs⟩ := vecV_inv hta hga
      rcases hsA (n + 1) w with h3 | h3
      · rw [h3]; trivial
      · rw [h3]; simp only
        rw [Sem.apply]; simp only [hl.vecSrc "vec_push" (by simp [vecNames])]
        have hb : Sem.builtin "vec_push" [.vec xs, vx] w = some (.ok (.vec (xs ++ [vx])) w) := rfl
        simp only [hb]
        rcases hcs with ⟨rfl, rfl⟩ | ⟨hne, loc, gs, hmem, hgs, rfl⟩
        · -- onto `nil`
          obtain ⟨hle, hw'⟩ := hw.allocImm (.array [gx])
          refine ⟨_, hle, _, _, ev_call (ev_var_none hgo) (hgA gw) (call_append_nil hl.vecGo.append hw.cap), ?_, ?_, hw',
            fun h => by cases h⟩
          · simp only [VRel, List.nil_append, List.length_singleton]
            refine Or.inr ⟨by simp, gw.heap.size, [gx], by simp, ?_, rfl⟩
            simp only [List.replicate, VRels]
            exact ⟨VRel_mono hle _ _ _ hgx, trivial⟩
          · simp only [HasTy, List.nil_append, List.length_singleton, List.replicate, HasTys]
            exact ⟨HasTy_mono hle _ _ htx, trivial⟩
        · -- onto a full slice
          have hcell : gw.heap[loc]? = some (.array gs) := (hw.imm _ _ hmem).1
          have hlen : gs.length = xs.length := toGVs_length hgs
          obtain ⟨hle, hw'⟩ := hw.allocImm (.array (gs.take xs.length ++ [gx]))
          refine ⟨_, hle, _, _, ev_call (ev_var_none hgo) (hgA gw) (call_append_slice hl.vecGo.append hw.cap hcell), ?_, ?_, hw',
            fun h => by cases h⟩
          · have htake : gs.take xs.length = gs := by rw [← hlen]; exact List.take_length
            simp only [VRel]
            refine Or.inr ⟨by simp, gw.heap.size, gs ++ [gx], by simp [htake], ?_, by simp⟩
            exact VRels_replicate_snoc (VRels_mono hle _ _ _ hgs) (VRel_mono hle _ _ _ hgx)
          · simp only [HasTy]
            exact hasTys_replicate_snoc (HasTys_mono hle _ _ hxs) (HasTy_mono hle _ _ htx)
    · rw [if_neg h2] at hcase
      by_cases h3 : name = "vec_get"
      · -- `vec_get(v, i)` is `v[i]`
        subst h3
        rw [if_pos rfl] at hcase
        cases args with
        | nil => cases hcase
        | cons a rest =>
          cases rest with
          | nil => cases hcase
          | cons i rest =>
            simp only [Bool.and_eq_true] at hcase
            obtain ⟨⟨hint, hargs⟩, _⟩ := hcase
            simp only [argsOK, Bool.and_eq_true] at hargs
            obtain ⟨⟨ha, hta⟩, ⟨hi, _⟩, hrest⟩ := hargs
            cases rest with
            | cons r rs => simp [argsOK] at hrest
            | nil =>
              have hshape : compileCExpr env (.call (.var "vec_get" fty) [a, i] ty) =
                  .index (goTy ty) (compileImm env a) (compileImm env i) := by
                simp [compileCExpr, compileCall, callee, hrn, compileImms]
              rw [hshape]
              obtain ⟨va, ga, hsa, hgaE, hga, htya⟩ := imm_both P hl.ty ha hrel hfr
              obtain ⟨vi, gi, hsi, hgiE, hgi, htyi⟩ := imm_both P hl.ty hi hrel hfr
              rw [scalarEq_eq hta] at hga htya
              obtain ⟨xs, rfl, hxs, hcs⟩ := vecV_inv htya hga
              obtain ⟨b, s, x, rfl, rfl⟩ := intV_inv hint htyi hgi
              simp only [List.map_cons, List.map_nil]
              rcases sem_evalList_two hsa hsi (n + 1) w with h4 | h4
              · rw [h4]; trivial
              · rw [h4]; simp only
                rw [Sem.apply]; simp only [hl.vecSrc "vec_get" (by simp [vecNames])]
                by_cases hneg : x < 0
                · have hb : Sem.builtin "vec_get" [.vec xs, .int b s x] w = some (.fail (.panic "index out of range") w) := by
                    simp [Sem.builtin, hneg]
                  simp only [hb]
                  rcases hcs with ⟨rfl, rfl⟩ | ⟨hne, loc, gs, hmem, hgs, rfl⟩
                  · exact ⟨η, η.le_refl, gw, ev_index_nil (hgaE gw) (hgiE gw), hw, rfl⟩
                  · exact ⟨η, η.le_refl, gw, ev_index_slice_oob (hgaE gw) (hgiE gw) (Or.inl hneg), hw, rfl⟩
                · rcases hcs with ⟨rfl, rfl⟩ | ⟨hne, loc, gs, hmem, hgs, rfl⟩
                  · have hb : Sem.builtin "vec_get" [.vec [], .int b s x] w = some (.fail (.panic "index out of range") w) := by
                      simp [Sem.builtin, hneg]
                    simp only [hb]
                    exact ⟨η, η.le_refl, gw, ev_index_nil (hgaE gw) (hgiE gw), hw, rfl⟩
                  · rcases toGVs_get x.toNat hgs with ⟨hn1, hn2⟩ | ⟨v, g, hv1, hv2, hvg⟩
                    · have hb : Sem.builtin "vec_get" [.vec xs, .int b s x] w = some (.fail (.panic "index out of range") w) := by
                        simp [Sem.builtin, hneg, hn1]
                      simp only [hb]
                      have hge : x.toNat ≥ xs.length := by
                        rcases Nat.lt_or_ge x.toNat xs.length with h | h
                        · rw [List.getElem?_eq_getElem h] at hn1; cases hn1
                        · exact h
                      exact ⟨η, η.le_refl, gw, ev_index_slice_oob (hgaE gw) (hgiE gw) (Or.inr hge), hw, rfl⟩
                    · have hb : Sem.builtin "vec_get" [.vec xs, .int b s x] w = some (.ok v w) := by
                        simp [Sem.builtin, hneg, hv1]
                      simp only [hb]
                      have hlt : ¬ x.toNat ≥ xs.length := by
                        intro hge
                        rw [List.getElem?_eq_none hge] at hv1; cases hv1
                      have hcell : gw.heap[loc]? = some (.array gs) := (hw.imm _ _ hmem).1
                      exact ⟨η, η.le_refl, g, gw, ev_index_slice (hgaE gw) (hgiE gw) hneg hlt hcell hv2, hvg,
                        hasTys_replicate_get x.toNat hxs hv1, hw, fun h => by cases h⟩
      · rw [if_neg h3] at hcase
        by_cases h4 : name = "vec_len"
        · -- `vec_len(v)` is `int32(len(v))`
          subst h4
          rw [if_pos rfl] at hcase
          cases args with
          | nil => cases hcase
          | cons a rest =>
            simp only at hcase
            cases haty : a.ty with
            | vec e =>
              rw [haty] at hcase; simp only [Bool.and_eq_true] at hcase
              obtain ⟨⟨hargs, hty⟩, _⟩ := hcase
              have hty' := scalarEq_eq hty; subst hty'
              simp only [argsOK, Bool.and_eq_true] at hargs
              obtain ⟨⟨ha, hta⟩, hrest⟩ := hargs
              cases rest with
              | cons r rs => simp [argsOK] at hrest
              | nil =>
                have hshape : compileCExpr env (.call (.var "vec_len" fty) [a] (.int 32 true)) =
                    .call (.int 32 true) (.var "int32" (.func [.int 32 true] (.int 32 true)))
                      [.call (.int 32 true) (.var "len" (.func [goTy a.ty] (.int 32 true))) [compileImm env a]] := by
                  simp [compileCExpr, compileCall, callee, hrn, compileImms, goTy]
                rw [hshape]
                have hbad1 : "int32" ∈ Bad := hcal _ (by simp [calleesC, goCallee, hrn, hnb])
                have hbad2 : "len" ∈ Bad := hcal _ (by simp [calleesC, goCallee, hrn, hnb])
                have hgo1 : lookupG gρ "int32" = none := lookup_none_of_not_key (fun hk => hgood _ hk hbad1)
                have hgo2 : lookupG gρ "len" = none := lookup_none_of_not_key (fun hk => hgood _ hk hbad2)
                obtain ⟨va, ga, hsa, hgaE, hga, htya⟩ := imm_both P hl.ty ha hrel hfr
                rw [haty] at hga htya
                obtain ⟨xs, rfl, hxs, hcs⟩ := vecV_inv htya hga
                simp only [List.map_cons, List.map_nil]
                rcases sem_evalList_one hsa (n + 1) w with h5 | h5
                · rw [h5]; trivial
                · rw [h5]; simp only
                  rw [Sem.apply]; simp only [hl.vecSrc "vec_len" (by simp [vecNames])]
                  have hb : Sem.builtin "vec_len" [.vec xs] w = some (.ok (.int 32 true (Sem.wrap 32 true xs.length)) w) := rfl
                  simp only [hb]
                  have hlenE : EvS F gρ gw (.call (.int 32 true) (.var "len" (.func [goTy (.vec e)] (.int 32 true))) [compileImm env a])
                      (.ok (.int 64 true xs.length) gw) := by
                    rcases hcs with ⟨rfl, rfl⟩ | ⟨hne, loc, gs, hmem, hgs, rfl⟩
                    · exact ev_call (ev_var_none hgo2) (evl_cons (hgaE gw) evl_nil) (call_len_nil hl.vecGo.len)
                    · exact ev_call (ev_var_none hgo2) (evl_cons (hgaE gw) evl_nil) (call_len_slice hl.vecGo.len)
                  rw [haty]
                  exact ⟨η, η.le_refl, _, gw, ev_call (ev_var_none hgo1) (evl_cons hlenE evl_nil) (call_int32 hl.vecGo.int32),
                    by simp [VRel], ⟨rfl, rfl, wrap_wrap _ _ _⟩, hw, fun h => by cases h⟩
            | _ => rw [haty] at hcase; cases hcase
        · rw [if_neg h4] at hcase; cases hcase

/-- the entries of the function table: functions of `G` under their own Go name, and the printing builtins -/
theorem fnSigs_spec {file : AFile} {G : List String} {name : String} {ps : List Ty} {r : Ty}
    (h : (name, ps, r) ∈ fnSigs file G) :
    (∃ g, g ∈ file ∧ g.name = name ∧ g.name ∈ G ∧ isEntry name = false ∧ rn name = name ∧ ps = g.params.map (·.2) ∧ r = g.ret) ∨
    (name ∈ builtinNames ∧ builtinSig name = some (ps, r)) := by
  simp only [fnSigs, List.mem_append, List.mem_map, List.mem_filter, List.mem_filterMap] at h
  rcases h with ⟨g, ⟨hg, hc⟩, he⟩ | ⟨b, hb, he⟩
  · simp only [Bool.and_eq_true, Bool.not_eq_true', beq_iff_eq, List.contains_eq_mem, decide_eq_true_eq] at hc
    obtain ⟨⟨hG, hent⟩, hrn⟩ := hc
    injection he with h1 h2; injection h2 with h2 h3
    subst h1
    exact Or.inl ⟨g, hg, rfl, hG, hent, hrn, h2.symm, h3.symm⟩
  · cases hs : builtinSig b with
    | none => rw [hs] at he; cases he
    | some sg =>
      rw [hs] at he; simp only [Option.map_some, Option.some.injEq, Prod.mk.injEq] at he
      obtain ⟨h1, h2, h3⟩ := he
      subst h1
      exact Or.inr ⟨hb, by rw [hs, ← h2, ← h3]⟩

/-- the shape of a compiled call through a local of function type -/
theorem compileCall_local {env : Env} {x : String} {fty : Ty} {args : List Imm} {ty : Ty}
    (hsp : specialCallees.contains (rn x) = false) (hext : env.getExternFn (rn x) = none) :
    compileCall env (.var x fty) args ty = .call (goTy ty) (.var (vn x) (goTy fty)) (compileImms env args) := by
  simp only [specialCallees, List.contains_cons, List.contains_nil, Bool.or_false, Bool.or_eq_false_iff, beq_eq_false_iff_ne] at hsp
  obtain ⟨h1, h2, h3, h4, h5, h6, h7, h8, h9, _⟩ := hsp
  simp only [compileCall, callee]
  simp [h1, h2, h3, h4, h5, h6, h7, h8, h9, hext, compileImm]

/-- a call through a local that holds a function value: the value names a function of the table, which is one of `G`
    (`SimU`) or a printing builtin (`SimB`) -/
theorem localcall_sim {env : Env} {file : AFile} {G : List String} {P : Prog} {F : GFile} (hl : Link env file G P F) {n : Nat}
    (hu : SimU env file G P F n) (hb : SimB env P F n)
    (η : Hp) (Γ : Ctx) (ρ : Sem.Env) (w : World) (gρ : GEnv) (gw : GWorld)
    (x : String) (fty : Ty) (args : List Imm) (ty : Ty)
    (hfrag : localCallOK env file G Γ (.var x fty) args ty = true) (hrel : EnvRel env η Γ ρ gρ) (hw : WRel env η w gw)
    (hfr : FnRel file G η gρ) (hdq : η.dyns = dynTable env file G) :
    ConclV env η F (compileCExpr env (.call (.var x fty) args ty)) gρ gw ty false true w
      (Sem.eval (n + 1) P ρ w (CExpr.call (.var x fty) args ty).toExpr) := by
  simp only [localCallOK] at hfrag
  cases hlk : lookupTy Γ x with
  | none => rw [hlk] at hfrag; cases hfrag
  | some t =>
    rw [hlk] at hfrag
    cases t <;> simp only at hfrag <;> try (cases hfrag; done)
    rename_i ps r
    simp only [Bool.and_eq_true, Bool.not_eq_true'] at hfrag
    obtain ⟨⟨⟨⟨hft, hsp⟩, hext⟩, hargs⟩, hty⟩ := hfrag
    have hft' := scalarEq_eq hft; subst hft'
    have hty' := scalarEq_eq hty; subst hty'
    have hext' : env.getExternFn (rn x) = none := by
      cases hx : env.getExternFn (rn x) with
      | none => rfl
      | some p => rw [hx] at hext; simp at hext
    obtain ⟨v, gv, hsv, hgv, htg, hht⟩ := hrel.1 x _ hlk
    cases v <;> simp only [HasTy] at hht <;> try exact hht.elim
    rename_i name
    have hmem : (name, ps, ty) ∈ fnSigs file G := by rw [← hfr.eq]; exact List.mem_of_find?_eq_some hht
    have hgv' : gv = .func (vn name) := by simp [VRel] at htg; exact htg
    subst hgv'
    simp only [CExpr.toExpr, compileCExpr, Imm.toExpr, compileCall_local hsp hext']
    rw [Sem.eval]
    cases n with
    | zero => rw [Sem.eval]; trivial
    | succ n =>
      rw [Sem.eval]; simp only [hsv]
      obtain ⟨vs, gvs, hrelA, hgA, hsA⟩ := imms_both P hl.ty hrel hfr hargs
      rcases hsA (n + 1) w with h2 | h2
      · rw [h2]; trivial
      · rw [h2]; simp only
        have hcallr : ConclCall env η F (vn name) gvs gw ty (Sem.apply (n + 1) P w (.fn name) vs) := by
          rcases fnSigs_spec hmem with ⟨g, hg, hgn, hG, hent, hrn, hps, hr⟩ | ⟨hbn, hsig⟩
          · have hc := hu g hg hG η vs gvs w gw hfr.eq hdq (by rw [← hps]; exact hrelA) hw
            have hfn : fnName name = vn name := by
              simp only [fnName, hent, Bool.false_eq_true, if_false]
              unfold vn; rw [hrn]
            rw [hgn, hfn, ← hr] at hc; exact hc
          · have hc := hb name ps ty hbn hsig η vs gvs w gw hrelA hw
            rw [vn_builtin hbn]; exact hc
        revert hcallr
        cases hap : Sem.apply (n + 1) P w (.fn name) vs with
        | ok v w' =>
          rintro ⟨η1, hle1, gv, gw', hc, h3, h4, h5⟩
          exact ⟨η1, hle1, gv, gw', ev_call (ev_var_some hgv) (hgA gw) hc, h3, h4, h5, fun h => by cases h⟩
        | fail fl w' =>
          cases fl with
          | panic k =>
            rintro ⟨η1, hle1, gw', hc, h5⟩
            exact ⟨η1, hle1, gw', ev_call (ev_var_some hgv) (hgA gw) hc, h5, rfl⟩
          | fuel => intro _; trivial
          | stuck s => intro _; trivial

/-! ### trait objects -/

/-- an entry of the table of admissible vtables passes `dynEntryOK` -/
theorem dynTable_spec {env : Env} {file : AFile} {G : List String} {tr : String} {forTy : Ty}
    (h : (tr, forTy) ∈ dynTable env file G) : dynEntryOK env file G tr forTy = true := by
  unfold dynTable at h
  split at h
  · simp only [List.mem_filter] at h; exact h.2
  · cases h

/-- what `dynEntryOK` says about one method of the trait -/
theorem dynEntry_sig {env : Env} {file : AFile} {G : List String} {tr : String} {forTy : Ty}
    (h : dynEntryOK env file G tr forTy = true) {s : String × List Ty × Ty} (hs : s ∈ (traitMethodSigs env tr).getD []) :
    dynRecvTy env forTy = true ∧ (((traitMethodSigs env tr).getD []).map fun s => gid s.1).Nodup ∧
    rn (Goml.Mono.traitImplFnName tr forTy s.1) = Goml.Mono.traitImplFnName tr forTy s.1 ∧
    isEntry (Goml.Mono.traitImplFnName tr forTy s.1) = false ∧
    ("self" :: (wrapParams 0 s.2.1).map (·.1)).Nodup ∧
    ¬ gid (Goml.Mono.traitImplFnName tr forTy s.1) ∈ "self" :: (wrapParams 0 s.2.1).map (·.1) ∧
    ∃ g, g ∈ file ∧ g.name = Goml.Mono.traitImplFnName tr forTy s.1 ∧ g.name ∈ G ∧
      g.params.map (·.2) = forTy :: s.2.1 ∧ g.ret = s.2.2 := by
  simp only [dynEntryOK, Bool.and_eq_true] at h
  obtain ⟨⟨⟨hrecv, _⟩, _⟩, hsig⟩ := h
  cases hts : traitMethodSigs env tr with
  | none => rw [hts] at hs; simp at hs
  | some sigs =>
    rw [hts] at hsig hs; simp only [Option.getD_some, Bool.and_eq_true, decide_eq_true_eq, List.all_eq_true] at hsig hs
    obtain ⟨hnd, hall⟩ := hsig
    have h1 := hall s hs
    simp only [Bool.and_eq_true, Bool.not_eq_true', beq_iff_eq, decide_eq_true_eq] at h1
    obtain ⟨⟨⟨⟨⟨⟨_, _⟩, hrn⟩, hent⟩, hndp⟩, hnc⟩, hfile⟩ := h1
    refine ⟨hrecv, by simpa using hnd, hrn, hent, hndp, by simpa using hnc, ?_⟩
    cases hfind : file.find? (·.name == Goml.Mono.traitImplFnName tr forTy s.1) with
    | none => rw [hfind] at hfile; cases hfile
    | some g =>
      rw [hfind] at hfile; simp only [Bool.and_eq_true] at hfile
      obtain ⟨⟨hG, hps⟩, hret⟩ := hfile
      have hgname : g.name = Goml.Mono.traitImplFnName tr forTy s.1 := by have := List.find?_some hfind; simpa using this
      exact ⟨g, List.mem_of_find?_eq_some hfind, hgname, by rw [hgname]; simpa using hG, scalarEqs_eq hps, scalarEq_eq hret⟩

/-- the slot of a method in the vtable cell -/
theorem lookup_slots (f : String × List Ty × Ty → GVal) : ∀ (sigs : List (String × List Ty × Ty)) (s : String × List Ty × Ty),
    (sigs.map fun s => gid s.1).Nodup → s ∈ sigs → lookupG (sigs.map fun s => (gid s.1, f s)) (gid s.1) = some (f s)
  | [], s, _, hs => by cases hs
  | s0 :: rest, s, hnd, hs => by
    simp only [List.map_cons, List.nodup_cons] at hnd
    simp only [List.map_cons]
    rcases List.mem_cons.mp hs with rfl | hs'
    · exact lookup_cons_self _ _ _
    · have hne : gid s0.1 ≠ gid s.1 := fun e => hnd.1 (e ▸ List.mem_map_of_mem (f := fun s => gid s.1) hs')
      rw [lookup_cons_ne _ _ hne]
      exact lookup_slots f rest s hnd.2 hs'

/-- the `data` field of a trait object: for a numeric literal the conversion to its own type, which — the literal being in
    the range of its type — evaluates to the literal's value; else the operand itself -/
theorem dynData_ev {env : Env} {η : Hp} {F : GFile} {gρ : GEnv} {gw : GWorld} {e : Imm} {v : Val} {gd : GVal} (hvl : VecLink F)
    (hev : EvS F gρ gw (compileImm env e) (.ok gd gw)) (ht : HasTy env η v e.ty) (hg : VRel env η v e.ty gd)
    (hgo : ∀ n, n ∈ dynDataCallee e → lookupG gρ n = none) : EvS F gρ gw (dynDataExpr env e) (.ok gd gw) := by
  cases e with
  | var x ty => exact hev
  | tag idx ty => exact hev
  | prim p ty =>
    simp only [dynDataExpr]
    cases hc : convName ty with
    | none => exact hev
    | some n =>
      simp only
      simp only [Imm.ty] at ht hg
      rcases convName_spec hc with ⟨b, s, rfl, hn, hmem⟩ | ⟨b, rfl⟩
      · cases v <;> simp only [HasTy] at ht <;> try exact ht.elim
        rename_i b' s' x
        obtain ⟨rfl, rfl, hr⟩ := ht
        simp only [VRel] at hg; subst hg
        have hcall := call_conv (F := F) (w := gw) (b0 := b') (s0 := s') (x := x) hmem hn (hvl.conv n hmem)
        rw [hr] at hcall
        exact ev_call (ev_var_none (hgo n (by simp [dynDataCallee, hc]))) (evl_cons hev evl_nil) hcall
      · cases v <;> simp [HasTy] at ht

theorem todyn_sim {env : Env} {file : AFile} {G : List String} {P : Prog} {F : GFile} (hl : Link env file G P F) (n : Nat)
    (η : Hp) (Γ : Ctx) (ρ : Sem.Env) (w : World) (gρ : GEnv) (gw : GWorld) (Bad : List String)
    (tr : String) (forTy : Ty) (e : Imm) (ty : Ty)
    (hfrag : toDynOK env file G Γ tr forTy e ty = true) (hrel : EnvRel env η Γ ρ gρ) (hw : WRel env η w gw)
    (hgood : ∀ y, y ∈ keys gρ → ¬ y ∈ Bad) (hfc : FCtx env file G Bad η)
    (hcal : ∀ x, x ∈ calleesC (Γ.map (·.1)) (.toDyn tr forTy e ty) → x ∈ Bad) :
    ConclV env η F (compileCExpr env (.toDyn tr forTy e ty)) gρ gw ty false false w
      (Sem.eval (n + 1) P ρ w (CExpr.toDyn tr forTy e ty).toExpr) := by
  have hfr := hfc.rel hgood
  simp only [toDynOK, Bool.and_eq_true, List.any_eq_true] at hfrag
  obtain ⟨⟨⟨he, hety⟩, hty⟩, p, hp, hpq⟩ := hfrag
  have hty' := scalarEq_eq hty; subst hty'
  have hmem : (tr, forTy) ∈ dynTable env file G := by
    obtain ⟨p1, p2⟩ := p
    simp only [beq_iff_eq] at hpq
    have h2 := (Goml.Mono.tyBeq_iff _ _).mp hpq.2
    rw [← hpq.1, ← h2]; exact hp
  have hdl := hl.dynGo tr forTy hmem
  obtain ⟨v, gd, hs, hg, h3, h4⟩ := imm_both P hl.ty he hrel hfr
  rw [scalarEq_eq hety] at h3 h4
  have hbad : dynVtableCtorName tr forTy ∈ Bad := hcal _ (by simp [calleesC])
  have hgo : lookupG gρ (dynVtableCtorName tr forTy) = none := lookup_none_of_not_key (fun hk => hgood _ hk hbad)
  simp only [CExpr.toExpr, compileCExpr, goTy]
  rw [Sem.eval]
  rcases sem_imm_any hs (w := w) n with h1 | h1
  · rw [h1]; trivial
  · rw [h1]; simp only
    obtain ⟨hle, hw'⟩ := hw.allocImm (vtableVal env tr forTy)
    have hfields : EvFS F gρ gw
        [.mk "data" (dynDataExpr env e),
         .mk "vtable" (.call (vtablePtrTy tr) (.var (dynVtableCtorName tr forTy) (.func [] (vtablePtrTy tr))) [])]
        (.ok [("data", gd), ("vtable", .ptr gw.heap.size)] { gw with heap := gw.heap.push (vtableVal env tr forTy) }) :=
      evf_cons (dynData_ev hl.vecGo (hg gw) ((scalarEq_eq hety).symm ▸ h4) ((scalarEq_eq hety).symm ▸ h3)
        (fun nm hnm => lookup_none_of_not_key (fun hk => hgood _ hk (hcal nm (by simp [calleesC, hnm]))))) (evf_cons (ev_call (ev_var_none hgo) evl_nil (dyn_ctor_call hdl gw)) evf_nil)
    have hgoE := ev_slit_name (name := dynStructName tr) hfields
    rw [slit_dyn hdl] at hgoE
    refine ⟨_, hle, _, _, hgoE, ?_, ?_, hw', fun h => by cases h⟩
    · simp only [VRel]
      exact ⟨trivial, forTy, gd, gw.heap.size, by rw [hfc.deq]; exact hmem, rfl, HasTy_mono hle _ _ h4,
        VRel_mono hle _ _ _ h3, by simp, rfl⟩
    · simp only [HasTy]
      exact ⟨trivial, forTy, by rw [hfc.deq]; exact hmem, rfl, HasTy_mono hle _ _ h4⟩

theorem dyncall_sim {env : Env} {file : AFile} {G : List String} {P : Prog} {F : GFile} (hl : Link env file G P F) {n : Nat}
    (hu : SimU env file G P F n)
    (η : Hp) (Γ : Ctx) (ρ : Sem.Env) (w : World) (gρ : GEnv) (gw : GWorld) (Bad : List String)
    (tr m : String) (recv : Imm) (args : List Imm) (ty : Ty)
    (hfrag : dynCallOK env file G Γ tr m recv args ty = true) (hrel : EnvRel env η Γ ρ gρ) (hw : WRel env η w gw)
    (hgood : ∀ y, y ∈ keys gρ → ¬ y ∈ Bad) (hfc : FCtx env file G Bad η) :
    ConclV env η F (compileCExpr env (.dynCall tr m recv args ty)) gρ gw ty false true w
      (Sem.eval (n + 1) P ρ w (CExpr.dynCall tr m recv args ty).toExpr) := by
  have hfr := hfc.rel hgood
  simp only [dynCallOK, Bool.and_eq_true] at hfrag
  obtain ⟨⟨hr, hrty⟩, hcase⟩ := hfrag
  cases hsg : dynSig env tr m with
  | none => rw [hsg] at hcase; cases hcase
  | some s =>
    rw [hsg] at hcase; simp only [Bool.and_eq_true] at hcase
    obtain ⟨hargs, hty⟩ := hcase
    have hty' := scalarEq_eq hty; subst hty'
    have hs : s ∈ (traitMethodSigs env tr).getD [] := List.mem_of_find?_eq_some hsg
    have hsm : s.1 = m := by have := List.find?_some hsg; simpa using this
    obtain ⟨v0, gr, hsr, hgr, h3, h4⟩ := imm_both P hl.ty hr hrel hfr
    rw [scalarEq_eq hrty] at h3 h4
    obtain ⟨vs, gvs, hrelA, hgA, hsA⟩ := imms_both P hl.ty hrel hfr hargs
    -- the receiver is a trait object
    cases v0 <;> simp only [HasTy] at h4 <;> try exact h4.elim
    rename_i tr0 key v
    simp only [VRel] at h3
    obtain ⟨htr, forTy, gd, loc, hmemη, hkey, hvt, hvg, hcellη, hgre⟩ := h3
    subst htr
    subst hgre
    have hmem : (tr0, forTy) ∈ dynTable env file G := by rw [← hfc.deq]; exact hmemη
    have hdl := hl.dynGo tr0 forTy hmem
    obtain ⟨hrecv, hndS, hrn, hent, hndp, hnc, g, hgmem, hgname, hgG, hgps, hgret⟩ := dynEntry_sig (dynTable_spec hmem) hs
    obtain ⟨i, hfind, hiname⟩ := hl.impls tr0 forTy hmem s hs
    -- the compiled expression
    have hshape : compileCExpr env (.dynCall tr0 m recv args s.2.2) =
        .call (goTy s.2.2) (.field (gid m) (slotTy s.2.1 s.2.2) (.field "vtable" (vtablePtrTy tr0) (compileImm env recv)))
          (.field "data" anyTy (compileImm env recv) :: compileImms env args) := by
      have : (((traitMethodSigs env tr0).getD []).find? (·.1 == m)) = some s := hsg
      simp only [compileCExpr, this, Option.getD_some]
    rw [hshape]
    simp only [CExpr.toExpr]
    rw [Sem.eval]
    rcases sem_imm_any hsr (w := w) n with h1 | h1
    · rw [h1]; trivial
    · rw [h1]; simp only
      rcases hsA n w with h2 | h2
      · rw [h2]; trivial
      · rw [h2]; simp only
        rw [hkey, ← hsm] at *
        simp only [hfind, hiname]
        -- the implementing function
        have hfn : fnName g.name = gid (Goml.Mono.traitImplFnName tr0 forTy s.1) := by
          rw [hgname]
          simp only [fnName, hent, Bool.false_eq_true, if_false, vn_def, hrn]
        have hlenA := hrelA.length
        have hcallr := hu g hgmem hgG η (v :: vs) (gd :: gvs) w gw hfc.eq hfc.deq
          (by rw [hgps]; exact ⟨hvg, hvt, hrelA⟩) hw
        rw [hfn, hgname, hgret] at hcallr
        -- the Go side: through the vtable cell to the wrapper
        have hcell : gw.heap[loc]? = some (vtableVal env tr0 forTy) := (hw.imm _ _ hcellη).1
        have hne : ("vtable" : String) ≠ "data" := by decide
        have hvtE : EvS F gρ gw (.field "vtable" (vtablePtrTy tr0) (compileImm env recv)) (.ok (.ptr loc) gw) :=
          ev_field_struct (hgr gw) (by rw [lookup_cons_ne _ _ (fun h => hne h.symm)]; exact lookup_cons_self _ _ _)
        have hslot : EvS F gρ gw (.field (gid s.1) (slotTy s.2.1 s.2.2) (.field "vtable" (vtablePtrTy tr0) (compileImm env recv)))
            (.ok (.func (dynWrapName tr0 forTy s.1)) gw) :=
          ev_field_ptr hvtE hcell (lookup_slots (fun s => GVal.func (dynWrapName tr0 forTy s.1)) _ s hndS hs)
        have hdataE : EvS F gρ gw (.field "data" anyTy (compileImm env recv)) (.ok gd gw) :=
          ev_field_struct (hgr gw) (lookup_cons_self _ _ _)
        have hargsE : EvLS F gρ gw (.field "data" anyTy (compileImm env recv) :: compileImms env args) (.ok (gd :: gvs) gw) :=
          evl_cons hdataE (hgA gw)
        revert hcallr
        cases hap : Sem.apply n P w (.fn (Goml.Mono.traitImplFnName tr0 forTy s.1)) (v :: vs) with
        | ok rv w' =>
          rintro ⟨η1, hle1, grv, gw', hc, r3, r4, r5⟩
          exact ⟨η1, hle1, grv, gw', ev_call hslot hargsE (dyn_wrap_call hdl hs hlenA.2 hndp hnc hrecv hvt hvg hc), r3, r4, r5,
            fun h => by cases h⟩
        | fail fl w' =>
          cases fl with
          | panic k =>
            rintro ⟨η1, hle1, gw', hc, r5⟩
            exact ⟨η1, hle1, gw', ev_call hslot hargsE (dyn_wrap_call hdl hs hlenA.2 hndp hnc hrecv hvt hvg hc), r5, rfl⟩
          | fuel => intro _; trivial
          | stuck s => intro _; trivial

theorem stepV {env : Env} {file : AFile} {G : List String} {P : Prog} {F : GFile} (hl : Link env file G P F) {n : Nat}
    (hu : SimU env file G P F n) (hb : SimB env P F n) : SimV env file G P F (n + 1) := by
  intro c η Γ K ρ w gρ gw Bad hctl hgoc hfrag hrel hkrel hw hgood hfc hcal
  have hfr := hfc.rel hgood
  cases c with
  | imm i =>
    simp only [fragC] at hfrag
    obtain ⟨v, gv, hs, hg, h3, h4⟩ := imm_both P hl.ty hfrag hrel hfr
    simp only [CExpr.toExpr, compileCExpr, CExpr.annTy]
    rw [hs n w]
    exact ⟨η, η.le_refl, gv, gw, hg gw, h3, h4, hw, fun _ => ⟨rfl, rfl⟩⟩
  | un op e ty =>
    simp only [fragC, Bool.and_eq_true] at hfrag
    obtain ⟨he, hop⟩ := hfrag
    obtain ⟨v, gv, hs, hg, h3, h4⟩ := imm_both P hl.ty he hrel hfr
    simp only [CExpr.toExpr, compileCExpr, CExpr.annTy]
    rw [Sem.eval]
    rcases sem_imm_any hs (w := w) n with h1 | h1
    · rw [h1]; trivial
    · rw [h1]; simp only
      cases op with
      | neg =>
        simp only [unOK, Bool.and_eq_true] at hop
        cases hty : e.ty <;> rw [hty] at hop h4 <;> simp [intTy] at hop
        rename_i nb sg
        have := scalarEq_eq hop; subst this
        obtain ⟨x, rfl⟩ := hasTy_int h4
        have := toG_int h3; subst this
        simp only [Sem.unop, gUn]
        exact ⟨η, η.le_refl, _, gw, ev_neg_int (hg gw), rfl, ⟨rfl, rfl, wrap_wrap _ _ _⟩, hw, fun _ => ⟨rfl, rfl⟩⟩
      | not =>
        simp only [unOK, Bool.and_eq_true] at hop
        have e1 := scalarEq_eq hop.1; have e2 := scalarEq_eq hop.2
        rw [e1] at h4; subst e2
        obtain ⟨b, rfl⟩ := hasTy_bool h4
        have := toG_bool h3; subst this
        simp only [Sem.unop, gUn]
        exact ⟨η, η.le_refl, _, gw, ev_not (hg gw), rfl, trivial, hw, fun _ => ⟨rfl, rfl⟩⟩
  | bin op l r ty =>
    simp only [fragC, Bool.and_eq_true] at hfrag
    obtain ⟨⟨hl', hr'⟩, hop⟩ := hfrag
    obtain ⟨a, ga, hsa, hga, h3a, h4a⟩ := imm_both P hl.ty hl' hrel hfr
    obtain ⟨b, gb, hsb, hgb, h3b, h4b⟩ := imm_both P hl.ty hr' hrel hfr
    have htl : l.ty = r.ty := by
      simp only [binOK, Bool.and_eq_true] at hop; exact scalarEq_eq hop.1.1
    rw [← htl] at h3b h4b hop
    simp only [CExpr.toExpr, compileCExpr, CExpr.annTy]
    by_cases hlog : Goml.C01.isLogic op = true
    · -- `&&` / `||` on booleans
      have hbool : l.ty = .bool ∧ ty = .bool := by
        simp only [binOK, Bool.and_eq_true] at hop
        obtain ⟨⟨_, hdom⟩, hres⟩ := hop
        cases op <;> simp [Goml.C01.isLogic] at hlog <;> cases hlt : l.ty <;> rw [hlt] at hdom hres <;>
          simp [binDom] at hdom <;> exact ⟨rfl, scalarEq_eq hres⟩
      rw [hbool.1] at h4a h4b
      obtain ⟨x, rfl⟩ := hasTy_bool h4a
      obtain ⟨y, rfl⟩ := hasTy_bool h4b
      have := toG_bool h3a; subst this
      have := toG_bool h3b; subst this
      rw [hbool.2]
      cases op <;> simp [Goml.C01.isLogic] at hlog
      · -- and
        rcases sem_imm_any hsa (w := w) n with h1 | h1
        · rw [sem_bin_fuel h1]; trivial
        · rw [sem_and_bool h1]
          cases x with
          | false => exact ⟨η, η.le_refl, _, gw, ev_and_false (hga gw), rfl, trivial, hw, fun _ => ⟨rfl, rfl⟩⟩
          | true =>
            simp only [if_true]
            rcases sem_imm_any hsb (w := w) n with h2 | h2
            · rw [h2]; trivial
            · rw [h2]; simp only [Sem.binop, Bool.true_and]
              exact ⟨η, η.le_refl, _, gw, ev_and_true (hga gw) (hgb gw), rfl, trivial, hw, fun _ => ⟨rfl, rfl⟩⟩
      · -- or
        rcases sem_imm_any hsa (w := w) n with h1 | h1
        · rw [sem_bin_fuel h1]; trivial
        · rw [sem_or_bool h1]
          cases x with
          | true => exact ⟨η, η.le_refl, _, gw, ev_or_true (hga gw), rfl, trivial, hw, fun _ => ⟨rfl, rfl⟩⟩
          | false =>
            simp only [Bool.false_eq_true, if_false]
            rcases sem_imm_any hsb (w := w) n with h2 | h2
            · rw [h2]; trivial
            · rw [h2]; simp only [Sem.binop, Bool.false_or]
              exact ⟨η, η.le_refl, _, gw, ev_or_false (hga gw) (hgb gw), rfl, trivial, hw, fun _ => ⟨rfl, rfl⟩⟩
    · have hlog' : Goml.C01.isLogic op = false := by simpa using hlog
      rw [sem_bin_nonlogic hlog']
      rcases sem_imm_any hsa (w := w) n with h1 | h1
      · rw [h1]; trivial
      · rw [h1]; simp only
        rcases sem_imm_any hsb (w := w) n with h2 | h2
        · rw [h2]; trivial
        · rw [h2]; simp only
          have hscl : scalarTy l.ty = true := by
            simp only [binOK, Bool.and_eq_true] at hop
            obtain ⟨⟨_, hdom⟩, _⟩ := hop
            cases op <;> cases hlt : l.ty <;> rw [hlt] at hdom <;> simp [binDom, scalarTy] at hdom ⊢
          have h3a' : Goml.C01.toG a = some ga := toGV_scalar h4a hscl h3a
          have h3b' : Goml.C01.toG b = some gb := toGV_scalar h4b hscl h3b
          have hscr : scalarTy ty = true := by
            simp only [binOK, Bool.and_eq_true] at hop
            obtain ⟨⟨_, hdom⟩, hres⟩ := hop
            have := scalarEq_eq hres; subst this
            cases op <;> simp only [binResTy] <;> first | exact hscl | rfl
          rcases binop_frag hop hlog' h4a h4b with ⟨v, hv, hvt⟩ | ⟨k, hk⟩
          · rw [hv]; simp only
            obtain ⟨gv, hgv, hgt⟩ := Goml.C01.binop_ok_agree op a b v ga gb hlog' h3a' h3b' hv
            rw [← gBin_eq_gop] at hgv
            exact ⟨η, η.le_refl, gv, gw, ev_bin (by rw [isLogicG_gBin]; exact hlog') (hga gw) (hgb gw) hgv, (VRel_scalar hvt hscr).mpr hgt, hvt, hw, fun _ => ⟨rfl, rfl⟩⟩
          · rw [hk]; simp only
            have hgk := Goml.C01.binop_panic_agree op a b ga gb k hlog' h3a' h3b' hk
            rw [← gBin_eq_gop] at hgk
            exact ⟨η, η.le_refl, gw, ev_bin_err (by rw [isLogicG_gBin]; exact hlog') (hga gw) (hgb gw) hgk, hw, rfl⟩
  | call f args ty =>
    simp only [fragC, Bool.or_eq_true] at hfrag
    cases f with
    | var name fty =>
      rcases hfrag with (((hfrag | hfrag) | hfrag) | hfrag) | hfrag
      case inl.inl.inl.inr => exact refcall_sim hl n η Γ ρ w gρ gw Bad name fty args ty hfrag hrel hw hgood hfr hcal
      case inl.inl.inr => exact arrcall_sim hl n η Γ ρ w gρ gw Bad name fty args ty hfrag hrel hw hgood hfr hcal
      case inl.inr => exact localcall_sim hl hu hb η Γ ρ w gρ gw name fty args ty hfrag hrel hw hfr hfc.deq
      case inr => exact veccall_sim hl n η Γ ρ w gρ gw Bad name fty args ty hfrag hrel hw hgood hfr hcal
      have hshape := compileCall_frag hfrag
      simp only [CExpr.toExpr, compileCExpr, CExpr.annTy, Imm.toExpr, hshape]
      simp only [callOK, Bool.and_eq_true, Bool.not_eq_true', beq_iff_eq] at hfrag
      obtain ⟨⟨⟨⟨⟨hloc, hrn⟩, hsp⟩, hext⟩, hentry⟩, hcase⟩ := hfrag
      have hnone : lookupTy Γ name = none := by
        cases hx : lookupTy Γ name with
        | none => rfl
        | some p => rw [hx] at hloc; simp at hloc
      have hsrc : Sem.lookupEnv ρ name = none := hrel.2 name hnone
      have hbad : vn name ∈ Bad := hcal (vn name) (by simp [calleesC, goCallee_plain (lookupTy_none_not_mem hnone) hsp hrn])
      have hgo : lookupG gρ (vn name) = none := lookup_none_of_not_key (fun hk => hgood _ hk hbad)
      rw [Sem.eval]
      cases n with
      | zero => rw [Sem.eval]; trivial
      | succ n =>
        rw [Sem.eval]; simp only [hsrc]
        cases hsig : builtinSig name with
        | some pr =>
          obtain ⟨ps, r⟩ := pr
          rw [hsig] at hcase; simp only [Bool.and_eq_true] at hcase
          obtain ⟨⟨hbn, hargs⟩, hty⟩ := hcase
          have hbn' : name ∈ builtinNames := by simpa using hbn
          have hty' := scalarEq_eq hty; subst hty'
          obtain ⟨vs, gvs, hrelA, hgA, hsA⟩ := imms_both P hl.ty hrel hfr hargs
          rcases hsA (n + 1) w with h2 | h2
          · rw [h2]; trivial
          · rw [h2]; simp only
            have hcallr := hb name ps ty hbn' hsig η vs gvs w gw hrelA hw
            rw [vn_builtin hbn'] at hgo ⊢
            revert hcallr
            cases hap : Sem.apply (n + 1) P w (.fn name) vs with
            | ok v w' =>
              rintro ⟨η1, hle1, gv, gw', hc, h3, h4, h5⟩
              exact ⟨η1, hle1, gv, gw', ev_call (ev_var_none hgo) (hgA gw) hc, h3, h4, h5, fun h => by simp [pureC] at h⟩
            | fail fl w' =>
              cases fl with
              | panic k =>
                rintro ⟨η1, hle1, gw', hc, h5⟩
                exact ⟨η1, hle1, gw', ev_call (ev_var_none hgo) (hgA gw) hc, h5, rfl⟩
              | fuel => intro _; trivial
              | stuck s => intro _; trivial
        | none =>
          rw [hsig] at hcase; simp only at hcase
          cases hfind : file.find? (·.name == name) with
          | none => rw [hfind] at hcase; simp at hcase
          | some g =>
            rw [hfind] at hcase; simp only [Bool.and_eq_true] at hcase
            obtain ⟨⟨hG, hargs⟩, hty⟩ := hcase
            have hgmem : g ∈ file := List.mem_of_find?_eq_some hfind
            have hgname : g.name = name := by
              have := List.find?_some hfind; simpa using this
            have hG' : g.name ∈ G := by rw [hgname]; simpa using hG
            have hty' := scalarEq_eq hty; subst hty'
            obtain ⟨vs, gvs, hrelA, hgA, hsA⟩ := imms_both P hl.ty hrel hfr hargs
            rcases hsA (n + 1) w with h2 | h2
            · rw [h2]; trivial
            · rw [h2]; simp only
              have hcallr := hu g hgmem hG' η vs gvs w gw hfc.eq hfc.deq hrelA hw
              have hfn : fnName name = vn name := by
                have hne : isEntry name = false := by simpa using hentry
                simp only [fnName, hne, Bool.false_eq_true, if_false]
                unfold vn; rw [hrn]
              rw [hgname, hfn] at hcallr
              revert hcallr
              cases hap : Sem.apply (n + 1) P w (.fn name) vs with
              | ok v w' =>
                rintro ⟨η1, hle1, gv, gw', hc, h3, h4, h5⟩
                exact ⟨η1, hle1, gv, gw', ev_call (ev_var_none hgo) (hgA gw) hc, h3, h4, h5, fun h => by simp [pureC] at h⟩
              | fail fl w' =>
                cases fl with
                | panic k =>
                  rintro ⟨η1, hle1, gw', hc, h5⟩
                  exact ⟨η1, hle1, gw', ev_call (ev_var_none hgo) (hgA gw) hc, h5, rfl⟩
                | fuel => intro _; trivial
                | stuck s => intro _; trivial
    | prim p t => simp [callOK, refCallOK, arrCallOK, localCallOK, vecCallOK] at hfrag
    | tag i t => simp [callOK, refCallOK, arrCallOK, localCallOK, vecCallOK] at hfrag
  | ite c t e ty => simp [isCtl] at hctl
  | «while» c b ty => simp [isCtl] at hctl
  | matchE s arms d ty => simp [isCtl] at hctl
  | constr c args ty =>
    cases c with
    | enum tn vn' vi =>
      simp only [fragC, Bool.and_eq_true] at hfrag
      obtain ⟨hty, hcase⟩ := hfrag
      have hty' := scalarEq_eq hty; subst hty'
      cases hv : variantOf env (.enum tn) vi with
      | none => rw [hv] at hcase; simp at hcase
      | some v =>
        obtain ⟨n, vname, tys⟩ := v
        rw [hv] at hcase; simp only at hcase
        obtain ⟨hE, hn, d, hd, hvar⟩ := variantOf_spec hv
        injection hE with hE; subst hE
        obtain ⟨vs, gvs, hrelA, hgF, hsA⟩ := tfields_both P hl.ty hrel hfr 0 hcase
        obtain ⟨hval, hT⟩ := enum_value hn hd hvar hrelA
        obtain ⟨_, _, _, hlen⟩ := toGVs_of_args hrelA
        have hvt : variantTy env (.enum tn) vi = .name (variantGoName env tn vname) := by
          simp [variantTy, lookupVariantName, Goml.Mono.constrName, hd, hvar, variantGoName]
        simp only [CExpr.toExpr, compileCExpr, CExpr.annTy, hvt]
        rw [Sem.eval]
        rcases hsA n w with h2 | h2
        · rw [h2]; trivial
        · rw [h2]; simp only
          have hgo := ev_slit_name (name := variantGoName env tn vname) (hgF gw)
          rw [slit_variant hl.ty hn hd hvar hlen] at hgo
          exact ⟨η, η.le_refl, _, gw, hgo, hval, hT, hw, fun _ => ⟨rfl, rfl⟩⟩
    | struct sn =>
      simp only [fragC, Bool.and_eq_true] at hfrag
      obtain ⟨⟨hty, hgood⟩, hcase⟩ := hfrag
      have hty' := scalarEq_eq hty; subst hty'
      have hsn : sn ∈ goodStructs env := by simpa using hgood
      cases hd : env.getStruct sn with
      | none => rw [hd] at hcase; simp at hcase
      | some d =>
        rw [hd] at hcase; simp only at hcase
        obtain ⟨vs, gvs, hrelA, hgF, hsA⟩ := fields_both P hl.ty hrel hfr hcase
        obtain ⟨hv, hT⟩ := struct_value hl.ty.closed hsn hd hrelA
        obtain ⟨_, _, _, hlen⟩ := toGVs_of_args hrelA
        simp only [CExpr.toExpr, compileCExpr, CExpr.annTy, hd, Option.map_some, Option.getD_some]
        rw [Sem.eval]
        rcases hsA n w with h2 | h2
        · rw [h2]; trivial
        · rw [h2]; simp only
          have hgo := ev_slit_name (name := gid sn) (hgF gw)
          rw [slit_struct hl.ty.closed hsn (hl.ty.table sn hsn) hd (by simpa using hlen)] at hgo
          have hgt : goTy (.struct sn) = .name (gid sn) := by simp [goTy]
          rw [hgt]
          exact ⟨η, η.le_refl, _, gw, hgo, hv, hT, hw, fun _ => ⟨rfl, rfl⟩⟩
  | tuple items ty =>
    simp only [fragC] at hfrag
    cases ty with
    | tuple ts =>
      simp only [Bool.and_eq_true] at hfrag
      obtain ⟨hargs, htt⟩ := hfrag
      obtain ⟨vs, gvs, hrelA, hgF, hsA⟩ := tfields_both P hl.ty hrel hfr 0 hargs
      obtain ⟨h1, h2, _, hlen⟩ := toGVs_of_args hrelA
      have hshape : compileCExpr env (.tuple items (.tuple ts)) =
          .slit (.struct (goTypeNameFor (.tuple ts)) (goTyFields 0 ts)) (tupleFields 0 (compileImms env items)) := by
        simp [compileCExpr, tupleStructTy, goTy]
      simp only [CExpr.toExpr, CExpr.annTy, hshape]
      rw [Sem.eval]
      rcases hsA n w with h2' | h2'
      · rw [h2']; trivial
      · rw [h2']; simp only
        have hgo := ev_slit_struct (name := goTypeNameFor (.tuple ts)) (tfs := goTyFields 0 ts) (hgF gw)
        rw [slit_tuple (hl.tupGo ts htt) hlen] at hgo
        refine ⟨η, η.le_refl, _, gw, hgo, ?_, ?_, hw, fun _ => ⟨rfl, rfl⟩⟩
        · simp only [VRel]; exact ⟨gvs, h1, by rw [hlen]⟩
        · simp only [HasTy]; exact h2
    | _ => exact absurd hfrag (by simp)
  | array items ty =>
    simp only [fragC] at hfrag
    cases ty with
    | array len e =>
      simp only [Bool.and_eq_true] at hfrag
      obtain ⟨hargs, hval⟩ := hfrag
      obtain ⟨vs, gvs, hrelA, hgA, hsA⟩ := imms_both P hl.ty hrel hfr hargs
      obtain ⟨h1, h2, _, _⟩ := toGVs_of_args hrelA
      have hlen1 : 1 ≤ len := by
        simp only [valTy, valTyS, Bool.and_eq_true, decide_eq_true_eq] at hval; exact hval.1.1
      simp only [CExpr.toExpr, compileCExpr, CExpr.annTy, goTy]
      rw [Sem.eval]
      rcases hsA n w with h3 | h3
      · rw [h3]; trivial
      · rw [h3]; simp only
        refine ⟨η, η.le_refl, .array gvs, gw, ev_alit_array (hgA gw), ?_, ?_, hw, fun _ => ⟨rfl, rfl⟩⟩
        · simp only [VRel]; exact ⟨gvs, h1, rfl⟩
        · simp only [HasTy]; exact ⟨hlen1, h2⟩
    | _ => exact absurd hfrag (by simp)
  | cget e c idx ty =>
    cases c with
    | enum tn vn' vi =>
      simp only [fragC, Bool.and_eq_true] at hfrag
      obtain ⟨⟨⟨hK, he⟩, hety⟩, hcase⟩ := hfrag
      cases e with
      | prim p t => simp at hK
      | tag i t => simp at hK
      | var x xty =>
        simp only [beq_iff_eq] at hK
        have hety' : xty = .enum tn := scalarEq_eq hety
        subst hety'
        obtain ⟨v, gv, hs, hg, h3, h4⟩ := imm_both P hl.ty he hrel hfr
        obtain ⟨en, vs, hlk⟩ := hkrel x vi hK
        have hv0 := hs 0 w
        simp only [Imm.toExpr] at hv0
        rw [Sem.eval] at hv0; simp only [hlk] at hv0
        injection hv0 with hv0; subst hv0
        simp only [Imm.ty, HasTy] at h4
        obtain ⟨hen, hn, hfields⟩ := h4
        subst hen
        cases hv : variantOf env (.enum en) vi with
        | none => rw [hv] at hcase; simp at hcase
        | some vv =>
          obtain ⟨n, vname, tys⟩ := vv
          rw [hv] at hcase; simp only at hcase
          obtain ⟨hE, _, d, hd, hvar⟩ := variantOf_spec hv
          injection hE with hE; subst hE
          rw [hd] at hfields; simp only [hvar] at hfields
          cases hti : tys[idx]? with
          | none => rw [hti] at hcase; simp at hcase
          | some t =>
            rw [hti] at hcase; simp only at hcase
            have hty' := scalarEq_eq hcase; subst hty'
            simp only [Imm.ty, VRel, hd, hvar] at h3
            obtain ⟨gs, hgs, rfl⟩ := h3
            obtain ⟨vi', gi, hvi, hgi, hri, hti'⟩ := struct_field idx hgs hfields hti
            have hlenG : gs.length = tys.length := by rw [toGVs_length hgs, hasTys_length hfields]
            obtain ⟨_, _, _, _, hvs⟩ := good_enum hl.ty.closed hn
            have hcf : cgetField env (.var x (.enum en)) (.enum en vn' vi) idx = some (fieldN idx, ty) := by
              simp [cgetField, hd, hvar, hti]
            simp only [CExpr.toExpr, compileCExpr, CExpr.annTy, hcf, Option.getD_some, Imm.toExpr]
            rw [Sem.eval]
            rcases sem_imm_any hs (w := w) n with h1 | h1
            · simp only [Imm.toExpr] at h1; rw [h1]; trivial
            · simp only [Imm.toExpr] at h1; rw [h1]; simp only [hvi]
              have hidx : idx < tys.length := by
                rcases Nat.lt_or_ge idx tys.length with h | h
                · exact h
                · rw [List.getElem?_eq_none h] at hti; cases hti
              have hni : (fieldNames 0 gs.length)[idx]? = some (fieldN idx) := by
                rw [hlenG]; have := fieldNames_get 0 tys.length idx hidx; simpa using this
              have hd' := hd
              obtain ⟨d2, hd2, _, _, hvs2⟩ := good_enum hl.ty.closed hn
              rw [hd] at hd2; injection hd2 with hd2; subst hd2
              have hnd := (hvs2 _ (List.mem_of_getElem? hvar)).2
              rw [← hlenG] at hnd
              have hlk2 := lookup_zip _ gs idx (fieldN idx) gi hnd hni hgi
              exact ⟨η, η.le_refl, gi, gw, ev_field_struct (hg gw) hlk2, hri, hti', hw, fun _ => ⟨rfl, rfl⟩⟩
    | struct sn =>
      simp only [fragC, Bool.and_eq_true] at hfrag
      obtain ⟨⟨he, hety⟩, hcase⟩ := hfrag
      have hety' := scalarEq_eq hety
      obtain ⟨v, gv, hs, hg, h3, h4⟩ := imm_both P hl.ty he hrel hfr
      rw [hety'] at h4
      -- the value is a struct value of an admitted struct
      cases v <;> simp only [HasTy] at h4 <;> try exact h4.elim
      rename_i n' vs
      obtain ⟨hn, hsn, hfields⟩ := h4
      subst hn
      obtain ⟨d, hd, hgen, hnd, _⟩ := good_struct hl.ty.closed hsn
      rw [hd] at hfields
      rw [cgetField_struct hety' hd hgen] at hcase
      cases hf : d.fields[idx]? with
      | none => rw [hf] at hcase; simp at hcase
      | some p =>
        rw [hf] at hcase; simp only [Option.map_some] at hcase
        have hty' := scalarEq_eq hcase
        simp only [VRel, hd] at h3
        obtain ⟨gs, hgs, rfl⟩ := h3
        have hti : (d.fields.map (·.2))[idx]? = some p.2 := by simp [hf]
        obtain ⟨vi, gi, hvi, hgi, hri, hti'⟩ := struct_field idx hgs hfields hti
        simp only [CExpr.toExpr, compileCExpr, CExpr.annTy, cgetField_struct hety' hd hgen, hf, Option.map_some, Option.getD_some]
        rw [Sem.eval]
        rcases sem_imm_any hs (w := w) n with h1 | h1
        · rw [h1]; trivial
        · rw [h1]; simp only [hvi]
          have hni : (d.fields.map fun f => gid f.1)[idx]? = some (gid p.1) := by simp [hf]
          have hlk := lookup_zip _ gs idx (gid p.1) gi hnd hni hgi
          exact ⟨η, η.le_refl, gi, gw, ev_field_struct (hg gw) hlk, hty' ▸ hri, hty' ▸ hti', hw, fun _ => ⟨rfl, rfl⟩⟩
  | toDyn tr forTy e ty =>
    simp only [fragC] at hfrag
    exact todyn_sim hl n η Γ ρ w gρ gw Bad tr forTy e ty hfrag hrel hw hgood hfc hcal
  | dynCall tr m recv args ty =>
    simp only [fragC] at hfrag
    exact dyncall_sim hl hu η Γ ρ w gρ gw Bad tr m recv args ty hfrag hrel hw hgood hfc
  | go e ty => simp [isGoC] at hgoc
  | proj e idx ty =>
    simp only [fragC, Bool.and_eq_true] at hfrag
    obtain ⟨he, hcase⟩ := hfrag
    obtain ⟨v, gv, hs, hg, h3, h4⟩ := imm_both P hl.ty he hrel hfr
    cases hety : e.ty with
    | tuple ts =>
      rw [hety] at hcase h3 h4; simp only [Bool.and_eq_true] at hcase
      obtain ⟨⟨_, hnd0⟩, hidx⟩ := hcase
      have hnd := of_decide_eq_true hnd0
      cases hti : ts[idx]? with
      | none => rw [hti] at hidx; cases hidx
      | some t =>
        rw [hti] at hidx; simp only at hidx
        have hty' := scalarEq_eq hidx; subst hty'
        cases v <;> simp only [HasTy] at h4 <;> try exact h4.elim
        rename_i vs
        simp only [VRel] at h3
        obtain ⟨gs, hgs, rfl⟩ := h3
        obtain ⟨vi, gi, hvi, hgi, hri, hti'⟩ := struct_field idx hgs h4 hti
        have hlenG : gs.length = ts.length := by rw [toGVs_length hgs, hasTys_length h4]
        simp only [CExpr.toExpr, compileCExpr, CExpr.annTy]
        rw [Sem.eval]
        rcases sem_imm_any hs (w := w) n with h1 | h1
        · rw [h1]; trivial
        · rw [h1]; simp only [hvi]
          have hidxlt : idx < ts.length := by
            rcases Nat.lt_or_ge idx ts.length with h | h
            · exact h
            · rw [List.getElem?_eq_none h] at hti; cases hti
          have hni : (fieldNames 0 gs.length)[idx]? = some (fieldN idx) := by
            rw [hlenG]; have := fieldNames_get 0 ts.length idx hidxlt; simpa using this
          rw [← hlenG] at hnd
          have hlk2 := lookup_zip _ gs idx (fieldN idx) gi hnd hni hgi
          exact ⟨η, η.le_refl, gi, gw, ev_field_struct (hg gw) hlk2, hri, hti', hw, fun _ => ⟨rfl, rfl⟩⟩
    | _ => rw [hety] at hcase; exact absurd hcase (by simp)

end Goml.GoComp
