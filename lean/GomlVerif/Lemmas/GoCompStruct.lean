import GomlVerif.Lemmas.GoCompRuntime
/-! struct values (user structs and closure-environment structs): construction and field access on both sides -/
set_option linter.unusedSimpArgs false
set_option linter.unusedVariables false
namespace Goml.GoComp
open Goml Goml.Go Goml.GoCompile Goml.GoFrag
open Goml.Sem (Val World Res Fail)
open Goml.C01 (toG)
open Goml.Dce (keys lookup_cons_self lookup_cons_ne)

attribute [local irreducible] Goml.GoCompile.vn Goml.GoCompile.gid Goml.GoCompile.rn

theorem toGVs_of_args {env : Env} {η : Hp} : ∀ {vs : List Val} {gvs : List GVal} {tys : List Ty}, ArgsRel env η vs gvs tys →
    VRels env η vs tys gvs ∧ HasTys env η vs tys ∧ vs.length = tys.length ∧ gvs.length = tys.length
  | [], [], [], _ => by simp [VRels, HasTys]
  | [], [], _ :: _, h => by simp [ArgsRel] at h
  | [], _ :: _, _, h => by simp [ArgsRel] at h
  | _ :: _, [], _, h => by simp [ArgsRel] at h
  | _ :: _, _ :: _, [], h => by simp [ArgsRel] at h
  | v :: vs, g :: gvs, t :: tys, h => by
    simp only [ArgsRel] at h
    obtain ⟨h1, h2, h3⟩ := h
    obtain ⟨i1, i2, i3, i4⟩ := toGVs_of_args h3
    simp [VRels, HasTys, h1, h2, i1, i2, i3, i4]

/-- related lists are related argument lists -/
theorem args_of_VRels {env : Env} {η : Hp} : ∀ {vs : List Val} {tys : List Ty} {gvs : List GVal}, VRels env η vs tys gvs →
    HasTys env η vs tys → ArgsRel env η vs gvs tys
  | [], [], [], _, _ => trivial
  | [], [], _ :: _, h, _ | [], _ :: _, _, h, _ | _ :: _, [], _, h, _ | _ :: _, _ :: _, [], h, _ => by simp [VRels] at h
  | v :: vs, t :: tys, g :: gvs, h, ht => by
    simp only [VRels] at h; simp only [HasTys] at ht
    exact ⟨h.1, ht.1, args_of_VRels h.2 ht.2⟩

/-- the value of a struct and its Go image -/
theorem struct_value {env : Env} {η : Hp} (hS : structsClosed env = true) {sn : String} (hsn : sn ∈ goodStructs env)
    {d : StructDef} (hd : env.getStruct sn = some d) {vs : List Val} {gvs : List GVal}
    (hargs : ArgsRel env η vs gvs (d.fields.map (·.2))) :
    VRel env η (.structV sn vs) (.struct sn) (.struct (gid sn) ((d.fields.map fun f => gid f.1).zip gvs)) ∧
      HasTy env η (.structV sn vs) (.struct sn) := by
  obtain ⟨h1, h2, _, _⟩ := toGVs_of_args hargs
  refine ⟨by simp only [VRel, hd]; exact ⟨gvs, h1, rfl⟩, ?_⟩
  simp only [HasTy, hd]
  exact ⟨trivial, hsn, h2⟩

/-- the fields of a struct value, position by position -/
theorem struct_field {env : Env} {η : Hp} : ∀ {vs : List Val} {gs : List GVal} {tys : List Ty} (i : Nat) {t : Ty},
    VRels env η vs tys gs → HasTys env η vs tys → tys[i]? = some t →
    ∃ v g, vs[i]? = some v ∧ gs[i]? = some g ∧ VRel env η v t g ∧ HasTy env η v t
  | [], gs, tys, i, t, _, ht, hi => by
    cases tys <;> simp [HasTys] at ht; simp at hi
  | v :: vs, gs, [], i, t, _, ht, _ => by simp [HasTys] at ht
  | v :: vs, [], t0 :: tys, i, t, hg, _, _ => by simp [VRels] at hg
  | v :: vs, g :: gs', t0 :: tys, i, t, hg, ht, hi => by
    simp only [VRels] at hg
    simp only [HasTys] at ht
    cases i with
    | zero => simp at hi; subst hi; exact ⟨v, g, by simp, by simp, hg.1, ht.1⟩
    | succ i =>
      simp only [List.getElem?_cons_succ] at hi ⊢
      exact struct_field i hg.2 ht.2 hi

/-- the fields of a compiled struct literal evaluate to the declared names zipped with the values -/
theorem fields_both {env : Env} {η : Hp} {file : AFile} {G : List String} (P : Prog) {F : GFile} (ht : TyLink env F) {Γ : Ctx}
    {ρ : Sem.Env} {gρ : GEnv} (hr : EnvRel env η Γ ρ gρ) (hfr : FnRel file G η gρ) : ∀ {args : List Imm} {fields : List (String × Ty)}, argsOK env file G Γ args (fields.map (·.2)) = true →
    ∃ vs gvs, ArgsRel env η vs gvs (fields.map (·.2)) ∧
      (∀ gw, EvFS F gρ gw (structFieldsOf fields (compileImms env args)) (.ok ((fields.map fun f => gid f.1).zip gvs) gw)) ∧
      (∀ n w, Sem.evalList n P ρ w (args.map Imm.toExpr) = .fail .fuel w ∨
              Sem.evalList n P ρ w (args.map Imm.toExpr) = .ok vs w) := by
  intro args
  induction args with
  | nil =>
    intro fields h
    cases fields with
    | nil =>
      refine ⟨[], [], trivial, fun gw => by simpa [structFieldsOf, compileImms] using evf_nil, fun n w => ?_⟩
      cases n with
      | zero => left; rw [Sem.evalList.eq_def]
      | succ n => right; simp only [List.map_nil]; rw [Sem.evalList.eq_def]
    | cons t ts => simp [argsOK] at h
  | cons a as ih =>
    intro fields h
    cases fields with
    | nil => simp [argsOK] at h
    | cons f fs =>
      simp only [List.map_cons, argsOK, Bool.and_eq_true] at h
      obtain ⟨⟨ha, hta⟩, has⟩ := h
      obtain ⟨v, gv, hs, hg, hrel, hty⟩ := imm_both P ht ha hr hfr
      obtain ⟨vs, gvs, hrs, hgs, hss⟩ := ih has
      have ht := scalarEq_eq hta
      refine ⟨v :: vs, gv :: gvs, ⟨by show VRel env η v f.2 gv; rw [← ht]; exact hrel, by show HasTy env η v f.2; rw [← ht]; exact hty, hrs⟩, fun gw => ?_, fun n w => ?_⟩
      · have := evf_cons (n := gid f.1) (hg gw) (hgs gw)
        simpa [structFieldsOf, compileImms] using this
      · cases n with
        | zero => left; rw [Sem.evalList.eq_def]
        | succ n =>
          simp only [List.map_cons]
          rw [Sem.evalList.eq_def]; simp only
          rcases sem_imm_any hs (w := w) n with h1 | h1
          · left; rw [h1]
          · rw [h1]; simp only
            rcases hss n w with h2 | h2
            · left; rw [h2]
            · right; rw [h2]

mutual
theorem substTy_nil : ∀ t : Ty, substTy [] t = t
  | .unit | .bool | .int _ _ | .float _ | .string | .enum _ | .struct _ | .dyn _ | .tvar _ => by simp [substTy]
  | .param n => by simp [substTy, substLookup]
  | .tuple ts => by simp [substTy, substTys_nil ts]
  | .app t args => by simp [substTy, substTy_nil t, substTys_nil args]
  | .array len e => by simp [substTy, substTy_nil e]
  | .vec e => by simp [substTy, substTy_nil e]
  | .ref e => by simp [substTy, substTy_nil e]
  | .func ps r => by simp [substTy, substTys_nil ps, substTy_nil r]
theorem substTys_nil : ∀ ts : List Ty, substTys [] ts = ts
  | [] => by simp [substTys]
  | t :: ts => by simp [substTys, substTy_nil t, substTys_nil ts]
end

/-- `cgetField` on a value of an admitted, non-generic struct type: the declared field -/
theorem cgetField_struct {env : Env} {e : Imm} {sn : String} {idx : Nat} {d : StructDef}
    (hty : e.ty = .struct sn) (hd : env.getStruct sn = some d) (hgen : d.generics = []) :
    cgetField env e (.struct sn) idx = (d.fields[idx]?).map fun p => (gid p.1, p.2) := by
  simp only [cgetField, hty, instantiateStructFields, hd, hgen]
  simp only [bne_self_eq_false, Bool.false_eq_true, if_false, List.length_nil, List.zip_nil_left]
  have : (d.fields.map fun (x : String × Ty) => (x.1, substTy [] x.2)) = d.fields := by
    induction d.fields with
    | nil => rfl
    | cons p ps ih => simp [substTy_nil, ih]
  simp only [this]
  cases d.fields[idx]? <;> rfl

/-- the composite literal of an admitted struct evaluates to the struct value `toGV` assigns -/
theorem slit_struct {env : Env} {F : GFile} (hS : structsClosed env = true) {sn : String} (hsn : sn ∈ goodStructs env)
    (htab : structTableOK env F sn = true) {d : StructDef} (hd : env.getStruct sn = some d) {gvs : List GVal}
    (hlen : gvs.length = d.fields.length) :
    slitValue F (gid sn) ((d.fields.map fun f => gid f.1).zip gvs) =
      .struct (gid sn) ((d.fields.map fun f => gid f.1).zip gvs) := by
  obtain ⟨d', hd', _, hnd, _⟩ := good_struct hS hsn
  rw [hd] at hd'; injection hd' with hd'; subst hd'
  unfold structTableOK at htab
  rw [hd] at htab
  cases hdecl : F.structFields (gid sn) with
  | none => rw [hdecl] at htab; simp at htab
  | some decl =>
    rw [hdecl] at htab
    have hnames : decl.map (·.1) = d.fields.map (fun f => gid f.1) := by simpa using htab
    simp only [slitValue, hdecl]
    congr 1
    exact slit_fields F decl _ gvs _ hnames (by simp [hlen])
      (fun i x g hx hg => lookup_zip _ gvs i x g hnd hx hg)

/-! ### enum values -/

/-- the payload fields of a compiled variant literal evaluate to `_i, _{i+1}, …` zipped with the values -/
theorem tfields_both {env : Env} {η : Hp} {file : AFile} {G : List String} (P : Prog) {F : GFile} (ht : TyLink env F) {Γ : Ctx}
    {ρ : Sem.Env} {gρ : GEnv} (hr : EnvRel env η Γ ρ gρ) (hfr : FnRel file G η gρ) : ∀ {args : List Imm} {tys : List Ty} (i : Nat), argsOK env file G Γ args tys = true →
    ∃ vs gvs, ArgsRel env η vs gvs tys ∧
      (∀ gw, EvFS F gρ gw (tupleFields i (compileImms env args)) (.ok ((fieldNames i tys.length).zip gvs) gw)) ∧
      (∀ n w, Sem.evalList n P ρ w (args.map Imm.toExpr) = .fail .fuel w ∨
              Sem.evalList n P ρ w (args.map Imm.toExpr) = .ok vs w) := by
  intro args
  induction args with
  | nil =>
    intro tys i h
    cases tys with
    | nil =>
      refine ⟨[], [], trivial, fun gw => by simpa [tupleFields, compileImms, fieldNames] using evf_nil, fun n w => ?_⟩
      cases n with
      | zero => left; rw [Sem.evalList.eq_def]
      | succ n => right; simp only [List.map_nil]; rw [Sem.evalList.eq_def]
    | cons t ts => simp [argsOK] at h
  | cons a as ih =>
    intro tys i h
    cases tys with
    | nil => simp [argsOK] at h
    | cons t ts =>
      simp only [argsOK, Bool.and_eq_true] at h
      obtain ⟨⟨ha, hta⟩, has⟩ := h
      obtain ⟨v, gv, hs, hg, hrel, hty⟩ := imm_both P ht ha hr hfr
      obtain ⟨vs, gvs, hrs, hgs, hss⟩ := ih (i + 1) has
      have htt := scalarEq_eq hta
      refine ⟨v :: vs, gv :: gvs, ⟨htt ▸ hrel, htt ▸ hty, hrs⟩, fun gw => ?_, fun n w => ?_⟩
      · have := evf_cons (n := fieldN i) (hg gw) (hgs gw)
        simpa [tupleFields, compileImms, fieldNames] using this
      · cases n with
        | zero => left; rw [Sem.evalList.eq_def]
        | succ n =>
          simp only [List.map_cons]
          rw [Sem.evalList.eq_def]; simp only
          rcases sem_imm_any hs (w := w) n with h1 | h1
          · left; rw [h1]
          · rw [h1]; simp only
            rcases hss n w with h2 | h2
            · left; rw [h2]
            · right; rw [h2]

/-- the value of an enum constructor application and its Go image -/
theorem enum_value {env : Env} {η : Hp} {n : String} (hn : n ∈ goodEnums env) {d : EnumDef} (hd : env.getEnum n = some d)
    {idx : Nat} {vname : String} {tys : List Ty} (hv : d.variants[idx]? = some (vname, tys))
    {vs : List Val} {gvs : List GVal} (hargs : ArgsRel env η vs gvs tys) :
    VRel env η (.enumV n idx vs) (.enum n) (.struct (variantGoName env n vname) ((fieldNames 0 tys.length).zip gvs)) ∧
      HasTy env η (.enumV n idx vs) (.enum n) := by
  obtain ⟨h1, h2, _, h4⟩ := toGVs_of_args hargs
  refine ⟨by simp only [VRel, hd, hv]; exact ⟨gvs, h1, by rw [h4]⟩, ?_⟩
  simp only [HasTy, hd, hv]
  exact ⟨trivial, hn, h2⟩

end Goml.GoComp
