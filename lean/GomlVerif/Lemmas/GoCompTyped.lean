import GomlVerif.Lemmas.GoCompScope
import GomlVerif.Lemmas.GoCompLink
import GomlVerif.Model.GoTyping
import GomlVerif.Model.GoFragTyped
/-!
T2, typing half: the statements `GoCompile` emits for a stage (a) function of the fragment (`stdFn`: scalars,
operators, calls, `let`, `if`, `while`) obey the typing rules of `Go.check` — in the form of its total mirror
`GoTyping.fnOKT` (tied to `Go.check` on every run).  By mutual structural induction over the ANF body, with the
Go scope (name ↦ declared type) related to the ANF context through `vn` and `goTy`.
-/
set_option linter.unusedSimpArgs false
set_option linter.unusedVariables false
namespace Goml.GoComp
open Goml Goml.GoCompile Goml.GoFrag Goml.GoTyping
open Goml.Go (GTy GExpr GStmt GField GFunc GFile GCase GTCase intFits isNumeric isOrdered)
open Goml.Dce (Names)

attribute [local irreducible] Goml.GoCompile.vn Goml.GoCompile.gid Goml.GoCompile.rn

/-! ### Go types up to `normT` -/

mutual
theorem tyBeqG_refl : ∀ t : GTy, tyBeqG t t = true
  | .void | .unit | .bool | .string => by simp [tyBeqG]
  | .int _ _ | .float _ | .name _ => by simp [tyBeqG]
  | .struct n fs => by simp [tyBeqG, fieldsBeqG_refl fs]
  | .ptr e => by simp [tyBeqG, tyBeqG_refl e]
  | .func ps r => by simp [tyBeqG, tysBeqG_refl ps, tyBeqG_refl r]
  | .array l e => by simp [tyBeqG, tyBeqG_refl e]
  | .slice e => by simp [tyBeqG, tyBeqG_refl e]
theorem tysBeqG_refl : ∀ ts : List GTy, tysBeqG ts ts = true
  | [] => by simp [tysBeqG]
  | t :: ts => by simp [tysBeqG, tyBeqG_refl t, tysBeqG_refl ts]
theorem fieldsBeqG_refl : ∀ fs : List (String × GTy), fieldsBeqG fs fs = true
  | [] => by simp [fieldsBeqG]
  | (f, t) :: fs => by simp [fieldsBeqG, tyBeqG_refl t, fieldsBeqG_refl fs]
end

mutual
/-- the written-out equality decides equality -/
theorem tyBeqG_eq : ∀ (a b : GTy), tyBeqG a b = true → a = b
  | .void, b, h => by cases b <;> simp [tyBeqG] at h <;> rfl
  | .unit, b, h => by cases b <;> simp [tyBeqG] at h <;> rfl
  | .bool, b, h => by cases b <;> simp [tyBeqG] at h <;> rfl
  | .string, b, h => by cases b <;> simp [tyBeqG] at h <;> rfl
  | .int _ _, b, h => by cases b <;> simp [tyBeqG] at h; simp [h]
  | .float _, b, h => by cases b <;> simp [tyBeqG] at h; simp [h]
  | .name _, b, h => by cases b <;> simp [tyBeqG] at h; simp [h]
  | .struct n fs, b, h => by
    cases b <;> simp [tyBeqG] at h
    rename_i n' fs'; rw [h.1, fieldsBeqG_eq fs fs' h.2]
  | .ptr e, b, h => by
    cases b <;> simp [tyBeqG] at h
    rename_i e'; rw [tyBeqG_eq e e' h]
  | .func ps r, b, h => by
    cases b <;> simp [tyBeqG] at h
    rename_i ps' r'; rw [tysBeqG_eq ps ps' h.1, tyBeqG_eq r r' h.2]
  | .array l e, b, h => by
    cases b <;> simp [tyBeqG] at h
    rename_i l' e'; rw [h.1, tyBeqG_eq e e' h.2]
  | .slice e, b, h => by
    cases b <;> simp [tyBeqG] at h
    rename_i e'; rw [tyBeqG_eq e e' h]
theorem tysBeqG_eq : ∀ (as bs : List GTy), tysBeqG as bs = true → as = bs
  | [], bs, h => by cases bs <;> simp [tysBeqG] at h; rfl
  | a :: as, bs, h => by
    cases bs <;> simp [tysBeqG] at h
    rename_i b bs; rw [tyBeqG_eq a b h.1, tysBeqG_eq as bs h.2]
theorem fieldsBeqG_eq : ∀ (as bs : List (String × GTy)), fieldsBeqG as bs = true → as = bs
  | [], bs, h => by cases bs <;> simp [fieldsBeqG] at h; rfl
  | (f, a) :: as, bs, h => by
    cases bs <;> simp [fieldsBeqG] at h
    rename_i p bs; obtain ⟨g, b⟩ := p
    simp [fieldsBeqG] at h
    rw [h.1.1, tyBeqG_eq a b h.1.2, fieldsBeqG_eq as bs h.2]
end

mutual
theorem normT_idem : ∀ t : GTy, normT (normT t) = normT t
  | .void | .unit | .bool | .string | .int _ _ | .float _ | .name _ | .struct _ _ => by simp [normT]
  | .ptr e => by simp [normT, normT_idem e]
  | .func ps r => by simp [normT, normTs_idem ps, normT_idem r]
  | .array l e => by simp [normT, normT_idem e]
  | .slice e => by simp [normT, normT_idem e]
theorem normTs_idem : ∀ ts : List GTy, normTs (normTs ts) = normTs ts
  | [] => by simp [normTs]
  | t :: ts => by simp [normTs, normT_idem t, normTs_idem ts]
end

theorem tyEqT_of_norm {a b : GTy} (h : normT a = normT b) : tyEqT a b = true := by
  simp only [tyEqT, h, tyBeqG_refl]

/-- a value whose type is the declared type up to `normT` may be assigned -/
theorem assignable_of_norm (c : TCtx) {t v : GTy} (h : normT v = normT t) : assignableT c t v = true := by
  simp [assignableT, tyEqT_of_norm h.symm]

theorem argsAssignable_norm (c : TCtx) : ∀ ts : List GTy, argsAssignable c (normTs ts) ts = true
  | [] => by simp [normTs, argsAssignable]
  | t :: ts => by
    simp only [normTs, argsAssignable, assignable_of_norm c (normT_idem t).symm, argsAssignable_norm c ts, Bool.and_self]

theorem normT_func (ps : List GTy) (r : GTy) : normT (.func ps r) = .func (normTs ps) (normT r) := by simp [normT]

theorem goTys_map : ∀ l : List Ty, goTys l = l.map goTy
  | [] => by simp [goTys]
  | a :: l => by simp [goTys, goTys_map l]

/-! ### the types of the typing half -/

/-- `t'` is the Go struct type of a variant of the enum type `ty` -/
def IsVariant (env : Env) (t' : GTy) (ty : Ty) : Prop :=
  ∃ n vi vname tys, ty = .enum n ∧ variantOf env (.enum n) vi = some (n, vname, tys) ∧ t' = .name (variantGoName env n vname)

/-- the Go type `t'` of an immediate against its ANF type: the Go type of `ty`, or — for a variable that the enclosing arm
    of a type switch has narrowed, and for a nullary variant — the struct type of a variant of the enum `ty` -/
def SubE (env : Env) (t' : GTy) (ty : Ty) : Prop := t' = goTy ty ∨ IsVariant env t' ty

/-- the same up to `normT` (the result type of a call is the normalised one) -/
def SubT (env : Env) (t' : GTy) (ty : Ty) : Prop := normT t' = normT (goTy ty) ∨ IsVariant env t' ty

theorem SubE.sub {env : Env} {t' : GTy} {ty : Ty} (h : SubE env t' ty) : SubT env t' ty := by
  rcases h with h | h
  · exact Or.inl (by rw [h])
  · exact Or.inr h

theorem SubE.exact {env : Env} {t' : GTy} {ty : Ty} (hne : ∀ n, ty ≠ .enum n) (h : SubE env t' ty) : t' = goTy ty := by
  rcases h with h | ⟨n, _, _, _, h, _⟩
  · exact h
  · exact absurd h (hne n)

def SubTs (env : Env) : List GTy → List Ty → Prop
  | [], [] => True
  | t' :: ts', t :: ts => SubT env t' t ∧ SubTs env ts' ts
  | _, _ => False

/-- `e` has the Go type of the ANF type `t`, up to `normT`, or the struct type of one of its variants -/
def TyIs (env : Env) (c : TCtx) (s : Scp) (e : GExpr) (t : Ty) : Prop := ∃ t', tyOfT c s e = .ok t' ∧ SubT env t' t

theorem TyIs.exact {env : Env} {c : TCtx} {s : Scp} {e : GExpr} {t : Ty} (h : tyOfT c s e = .ok (goTy t)) : TyIs env c s e t :=
  ⟨_, h, Or.inl rfl⟩

theorem goTy_not_void {t : Ty} (h : stdTy t = true) : normT (goTy t) ≠ .void := by
  cases t <;> simp [stdTy] at h <;> simp [goTy, normT]

theorem tyBeqG_void {x : GTy} (h : x ≠ .void) : tyBeqG x .void = false := by
  cases x <;> simp [tyBeqG] at h ⊢

theorem not_void_of_norm {t : Ty} (h : stdTy t = true) {te : GTy} (hn : normT te = normT (goTy t)) : tyEqT te .void = false := by
  simp only [tyEqT, hn]; exact tyBeqG_void (goTy_not_void h)

theorem stdInt_width {b : Nat} {s : Bool} (h : stdTy (.int b s) = true) : b = 8 ∨ b = 16 ∨ b = 32 ∨ b = 64 := by
  simp [stdTy] at h; omega

/-- an integer literal in the range of its type (`okPrim`: wrapping leaves it alone) is one `Go.check` accepts -/
theorem intFits_of_wrap {b : Nat} {s : Bool} {v : Int} (hb : b = 8 ∨ b = 16 ∨ b = 32 ∨ b = 64)
    (h : Sem.wrap b s v = v) : intFits b s v = true := by
  rcases hb with rfl | rfl | rfl | rfl <;> cases s <;> simp [Sem.wrap, intFits] at h ⊢ <;>
    (first | omega | (split at h <;> omega))

theorem not_void_of_sub {env : Env} {t : Ty} (h : stdTy t = true) {te : GTy} (hs : SubT env te t) : tyEqT te .void = false := by
  rcases hs with hn | ⟨_, _, _, _, _, _, rfl⟩
  · exact not_void_of_norm h hn
  · simp [tyEqT, normT, tyBeqG]

/-! ### scopes -/

def skeys (s : Scp) : Names := s.map (·.1)

theorem lookupS_cons_self (s : Scp) (x : String) (t : GTy) : lookupS ((x, t) :: s) x = some t := by
  simp [lookupS, List.find?_cons]

theorem lookupS_cons_ne (s : Scp) {x y : String} (t : GTy) (h : x ≠ y) : lookupS ((x, t) :: s) y = lookupS s y := by
  have : (x == y) = false := by simp [h]
  simp [lookupS, List.find?_cons, this]

theorem lookupS_none {s : Scp} {y : String} (h : ¬ y ∈ skeys s) : lookupS s y = none := by
  induction s with
  | nil => rfl
  | cons p s ih =>
    obtain ⟨x, t⟩ := p
    simp only [skeys, List.map_cons, List.mem_cons, not_or] at h
    rw [lookupS_cons_ne _ _ (fun e => h.1 e.symm)]
    exact ih h.2

theorem lookupS_append_right {D : Scp} {y : String} (h : ¬ y ∈ skeys D) (s : Scp) : lookupS (D ++ s) y = lookupS s y := by
  induction D with
  | nil => rfl
  | cons p D ih =>
    obtain ⟨x, t⟩ := p
    simp only [skeys, List.map_cons, List.mem_cons, not_or] at h
    rw [List.cons_append, lookupS_cons_ne _ _ (fun e => h.1 e.symm)]
    exact ih h.2

theorem skeys_append (D s : Scp) : skeys (D ++ s) = skeys D ++ skeys s := by simp [skeys]

/-- every ANF variable in scope is a Go variable: of the Go type of its type, or — when an enclosing arm of a type switch
    on it has fixed its variant (`K`) — of the struct type of that variant; and no two of them are spelled alike in Go -/
structure TScp (env : Env) (s : Scp) (Γ : Ctx) (K : KCtx) : Prop where
  plain : ∀ x t, lookupTy Γ x = some t → lookupK K x = none → lookupS s (vn x) = some (goTy t)
  narrowed : ∀ x t vi, lookupTy Γ x = some t → lookupK K x = some vi →
    ∃ n vname tys, t = .enum n ∧ variantOf env (.enum n) vi = some (n, vname, tys) ∧
      lookupS s (vn x) = some (.name (variantGoName env n vname))
  inj : ∀ x y tx ty, lookupTy Γ x = some tx → lookupTy Γ y = some ty → vn x = vn y → x = y

theorem TScp.plain_of_ne {env : Env} {s : Scp} {Γ : Ctx} {K : KCtx} (h : TScp env s Γ K) {x : String} {t : Ty}
    (hx : lookupTy Γ x = some t) (hne : ∀ n, t ≠ .enum n) : lookupS s (vn x) = some (goTy t) := by
  cases hk : lookupK K x with
  | none => exact h.plain x t hx hk
  | some vi =>
    obtain ⟨n, _, _, ht, _⟩ := h.narrowed x t vi hx hk
    exact absurd ht (hne n)

/-- the target of the lowering mode is declared with the Go type of the value -/
def TgtTy (m : Mode) (s : Scp) (ty : Ty) : Prop :=
  match m with
  | .effect => True
  | .assign t => lookupS s (gid t) = some (goTy ty)

/-- what the typing context knows of the callees — the functions of `G` and the printing builtins, under their Go
    names, with the Go types of their signatures; the reference and array helpers — and of the admitted struct, tuple and
    enum types: declared with the Go types of their fields, the variants with the methods of the enum's interface -/
structure TLink (env : Env) (file : AFile) (G : List String) (c : TCtx) : Prop where
  fn : ∀ g, g ∈ file → g.name ∈ G → isEntry g.name = false → rn g.name = g.name →
    c.findFunc (vn g.name) = some (g.params.map (fun p => goTy p.2), goTy g.ret)
  builtin : ∀ b ps r, b ∈ builtinNames → builtinSig b = some (ps, r) → c.findFunc b = some (ps.map goTy, goTy r)
  closed : structsClosed env = true
  structs : ∀ n d, n ∈ goodStructs env → env.getStruct n = some d →
    ∃ ms, c.findStruct (gid n) = some (d.fields.map (fun f => (gid f.1, goTy f.2)), ms)
  refs : ∀ e, refTyOK env file (.ref e) = true →
    c.findFunc (helperFnName "ref" (.ref e)) = some ([goTy e], .ptr (.name (refStructName e))) ∧
    c.findFunc (helperFnName "ref_get" (.ref e)) = some ([.ptr (.name (refStructName e))], goTy e) ∧
    c.findFunc (helperFnName "ref_set" (.ref e)) = some ([.ptr (.name (refStructName e)), goTy e], .unit)
  arrs : ∀ len e, arrTyOK env file (.array len e) = true →
    c.findFunc (helperFnName "array_get" (.array len e)) = some ([.array len (goTy e), .int 32 true], goTy e) ∧
    c.findFunc (helperFnName "array_set" (.array len e)) =
      some ([.array len (goTy e), .int 32 true, goTy e], .array len (goTy e))
  tups : ∀ ts, tupleTyOK env file (.tuple ts) = true →
    (fieldNames 0 ts.length).Nodup ∧ ∃ ms, c.findStruct (goTypeNameFor (.tuple ts)) = some (goTyFields 0 ts, ms)
  enums : ∀ n d, n ∈ goodEnums env → env.getEnum n = some d →
    ∃ ms, isIfaceT c (.name (gid n)) = some ms ∧
      ∀ v, v ∈ d.variants → ∃ methods, c.findStruct (variantGoName env n v.1) = some (goTyFields 0 v.2, methods) ∧
        ms.all methods.contains = true

/-! ### assignability -/

/-- what `TLink.enums` says of a variant -/
theorem variant_link {env : Env} {file : AFile} {G : List String} {c : TCtx} (hl : TLink env file G c) {n vname : String} {vi : Nat}
    {tys : List Ty} (hv : variantOf env (.enum n) vi = some (n, vname, tys)) :
    ∃ ms methods, isIfaceT c (.name (gid n)) = some ms ∧
      c.findStruct (variantGoName env n vname) = some (goTyFields 0 tys, methods) ∧ ms.all methods.contains = true ∧
      (fieldNames 0 tys.length).Nodup := by
  obtain ⟨_, hn, d, hd, hvar⟩ := variantOf_spec hv
  obtain ⟨ms, hif, hvs⟩ := hl.enums n d hn hd
  obtain ⟨methods, hfs, hall⟩ := hvs (vname, tys) (List.mem_of_getElem? hvar)
  obtain ⟨d', hd', _, _, hvok⟩ := good_enum hl.closed hn
  rw [hd] at hd'; injection hd' with hd'; subst hd'
  exact ⟨ms, methods, hif, hfs, hall, (hvok (vname, tys) (List.mem_of_getElem? hvar)).2⟩

/-- a value whose type is the declared one up to `normT`, or a variant of the declared enum, may be assigned -/
theorem sub_assignable {env : Env} {file : AFile} {G : List String} {c : TCtx} (hl : TLink env file G c) {t' : GTy} {ty : Ty}
    (h : SubT env t' ty) : assignableT c (goTy ty) t' = true ∧ assignableT c (normT (goTy ty)) t' = true := by
  rcases h with h | ⟨n, vi, vname, tys, rfl, hv, rfl⟩
  · exact ⟨assignable_of_norm c h, assignable_of_norm c (by rw [normT_idem]; exact h)⟩
  · obtain ⟨ms, methods, hif, hfs, hall, _⟩ := variant_link hl hv
    have : assignableT c (.name (gid n)) (.name (variantGoName env n vname)) = true := by
      by_cases hq : tyEqT (.name (gid n)) (.name (variantGoName env n vname)) = true
      · simp [assignableT, hq]
      · simp [assignableT, hq, hif, normT, hfs, hall]
    simp only [goTy, normT]
    exact ⟨this, this⟩

theorem args_assignable {env : Env} {file : AFile} {G : List String} {c : TCtx} (hl : TLink env file G c) :
    ∀ {ts' : List GTy} {tys : List Ty}, SubTs env ts' tys → argsAssignable c (normTs (tys.map goTy)) ts' = true
  | [], [], _ => by simp [normTs, argsAssignable]
  | [], _ :: _, h => by simp [SubTs] at h
  | _ :: _, [], h => by simp [SubTs] at h
  | t' :: ts', t :: tys, h => by
    simp only [SubTs] at h
    simp only [List.map_cons, normTs, argsAssignable, (sub_assignable hl h.1).2, args_assignable hl h.2, Bool.and_self]

theorem all_assignable_replicate {env : Env} {file : AFile} {G : List String} {c : TCtx} (hl : TLink env file G c) (e : Ty) :
    ∀ {ts' : List GTy} (n : Nat), SubTs env ts' (List.replicate n e) → ts'.all (assignableT c (normT (goTy e))) = true
  | [], 0, _ => rfl
  | [], _ + 1, h => by simp [List.replicate, SubTs] at h
  | _ :: _, 0, h => by simp [List.replicate, SubTs] at h
  | t' :: ts', n + 1, h => by
    simp only [List.replicate, SubTs] at h
    simp only [List.all_cons, (sub_assignable hl h.1).2, all_assignable_replicate hl e n h.2, Bool.and_self]

theorem variantTy_eq {env : Env} {n vname : String} {vi : Nat} {tys : List Ty}
    (hv : variantOf env (.enum n) vi = some (n, vname, tys)) : variantTy env (.enum n) vi = .name (variantGoName env n vname) := by
  obtain ⟨_, _, d, hd, hvar⟩ := variantOf_spec hv
  simp [variantTy, lookupVariantName, Goml.Mono.constrName, hd, hvar, variantGoName]

/-! ### expressions -/

/-- a function of `fnSigs` (usable as a value) is known to the typing context at its signature -/
theorem fnName_sig {env : Env} {file : AFile} {G : List String} {c : TCtx} (hl : TLink env file G c) {e : String × List Ty × Ty}
    (he : e ∈ fnSigs file G) : c.findFunc (vn e.1) = some (e.2.1.map goTy, goTy e.2.2) := by
  obtain ⟨name, ps, r⟩ := e
  rcases fnSigs_spec he with ⟨g, hg, hn, hG, hent, hrn, hps, hr⟩ | ⟨hb, hsig⟩
  · subst hn; subst hps; subst hr
    have := hl.fn g hg hG hent hrn
    simpa [List.map_map, Function.comp_def] using this
  · simp only []
    rw [vn_builtin hb]; exact hl.builtin name ps r hb hsig

/-- an immediate: a variable at the type of its declaration (a narrowed one at the struct type of its variant), a
    function of `fnSigs` at its signature, a literal, a nullary variant -/
theorem typed_imm_sub {env : Env} {file : AFile} {G : List String} {c : TCtx} {s : Scp} {Γ : Ctx} {K : KCtx} {D : Names} {cs : List String}
    {i : Imm} (hi : immOK env file G Γ i = true) (hs : stdImm i = true) (hsc : TScp env s Γ K) (hctx : SCtx file G D (skeys s) Γ cs)
    (hl : TLink env file G c) : ∃ t', tyOfT c s (compileImm env i) = .ok t' ∧ SubE env t' i.ty := by
  cases i with
  | var x ty =>
    simp only [immOK] at hi
    cases hlk : lookupTy Γ x with
    | none =>
      rw [hlk] at hi; simp only at hi
      cases ty <;> simp only [fnValOK] at hi <;> try (cases hi; done)
      rename_i ps r
      simp only [Bool.and_eq_true] at hi
      obtain ⟨_, hcase⟩ := hi
      cases hf : (fnSigs file G).find? (·.1 == x) with
      | none => rw [hf] at hcase; cases hcase
      | some e =>
        rw [hf] at hcase; simp only [Bool.and_eq_true] at hcase
        have he : e ∈ fnSigs file G := List.mem_of_find?_eq_some hf
        have hex : e.1 = x := by have := List.find?_some hf; simpa using this
        have hps := scalarEqs_eq hcase.1
        have hr := scalarEq_eq hcase.2
        have hfn := fnName_sig hl he
        have hnin : ¬ vn e.1 ∈ skeys s := fun hk => (hctx.fns e he).1 (hctx.scD _ hk)
        rw [hex] at hfn hnin
        refine ⟨_, ?_, Or.inl rfl⟩
        simp only [compileImm, tyOfT, lookupS_none hnin, hfn, Imm.ty, goTy, goTys_map, hps, hr]
    | some t =>
      rw [hlk] at hi; simp only at hi
      have := scalarEq_eq hi; subst this
      cases hk : lookupK K x with
      | none => exact ⟨_, by simp only [compileImm, tyOfT, hsc.plain x t hlk hk, Imm.ty], Or.inl rfl⟩
      | some vi =>
        obtain ⟨n, vname, tys, ht, hv, hlook⟩ := hsc.narrowed x t vi hlk hk
        exact ⟨_, by simp only [compileImm, tyOfT, hlook], Or.inr ⟨n, vi, vname, tys, ht, hv, rfl⟩⟩
  | prim p ty =>
    simp only [immOK] at hi
    simp only [stdImm] at hs
    refine ⟨goTy ty, ?_, Or.inl rfl⟩
    cases p with
    | unit => cases ty <;> simp [okPrim] at hi; simp [compileImm, lit, tyOfT, Imm.ty, goTy]
    | bool b => cases ty <;> simp [okPrim] at hi; simp [compileImm, lit, tyOfT, Imm.ty, goTy]
    | str x => cases ty <;> simp [okPrim] at hi; simp [compileImm, lit, tyOfT, Imm.ty, goTy]
    | int b sg v =>
      cases ty <;> simp [okPrim] at hi
      obtain ⟨⟨hb, hsg⟩, hw⟩ := hi
      subst hb; subst hsg
      have hfit := intFits_of_wrap (stdInt_width hs) hw
      simp [compileImm, lit, tyOfT, Imm.ty, goTy, toString_toInt, hfit]
    | float b r => cases ty <;> simp [okPrim] at hi
  | tag idx ty =>
    simp only [immOK] at hi
    cases hvo : variantOf env ty idx with
    | none => rw [hvo] at hi; cases hi
    | some v =>
      obtain ⟨n, vname, tys⟩ := v
      rw [hvo] at hi; simp only [List.isEmpty_iff] at hi
      subst hi
      obtain ⟨hty, _⟩ := variantOf_spec hvo
      subst hty
      obtain ⟨ms, methods, _, hfs, _, _⟩ := variant_link hl hvo
      refine ⟨.name (variantGoName env n vname), ?_, Or.inr ⟨n, idx, vname, [], rfl, hvo, rfl⟩⟩
      simp only [compileImm, variantTy_eq hvo, tyOfT, normT, hfs, fieldsOKT, R.bind]

/-- an immediate whose type is not an enum type has exactly the Go type of its type -/
theorem typed_imm {env : Env} {file : AFile} {G : List String} {c : TCtx} {s : Scp} {Γ : Ctx} {K : KCtx} {D : Names} {cs : List String}
    {i : Imm} (hi : immOK env file G Γ i = true) (hs : stdImm i = true) (hsc : TScp env s Γ K) (hctx : SCtx file G D (skeys s) Γ cs)
    (hl : TLink env file G c) (hne : ∀ n, i.ty ≠ .enum n) : tyOfT c s (compileImm env i) = .ok (goTy i.ty) := by
  obtain ⟨t', h, hsub⟩ := typed_imm_sub hi hs hsc hctx hl
  rw [h, hsub.exact hne]

theorem typed_imms {env : Env} {file : AFile} {G : List String} {c : TCtx} {s : Scp} {Γ : Ctx} {K : KCtx} {D : Names} {cs : List String}
    (hsc : TScp env s Γ K) (hctx : SCtx file G D (skeys s) Γ cs) (hl : TLink env file G c) : ∀ {args : List Imm} {tys : List Ty},
    argsOK env file G Γ args tys = true → args.all stdImm = true →
    ∃ ts', tysOfT c s (compileImms env args) = .ok ts' ∧ SubTs env ts' tys
  | [], [], _, _ => ⟨[], by simp [compileImms, tysOfT], trivial⟩
  | [], _ :: _, h, _ => by simp [argsOK] at h
  | _ :: _, [], h, _ => by simp [argsOK] at h
  | a :: as, t :: ts, h, hs => by
    simp only [argsOK, Bool.and_eq_true] at h
    simp only [List.all_cons, Bool.and_eq_true] at hs
    obtain ⟨⟨ha, hta⟩, has⟩ := h
    have hty := scalarEq_eq hta
    obtain ⟨t', h1, hsub⟩ := typed_imm_sub (c := c) ha hs.1 hsc hctx hl
    obtain ⟨ts', h2, hsubs⟩ := typed_imms (c := c) hsc hctx hl has hs.2
    simp only [compileImms, List.map_cons] at h2 ⊢
    exact ⟨t' :: ts', by simp [tysOfT, h1, h2], ⟨hty ▸ hsub.sub, hsubs⟩⟩

/-- the field `f` of a declaration whose field names are pairwise distinct -/
theorem find_field_nodup : ∀ {l : List (String × GTy)} {f : String} {t : GTy}, (l.map (·.1)).Nodup → (f, t) ∈ l →
    l.find? (·.1 == f) = some (f, t)
  | [], _, _, _, h => by cases h
  | (g, u) :: l, f, t, hnd, h => by
    simp only [List.map_cons, List.nodup_cons] at hnd
    rcases List.mem_cons.mp h with h | h
    · injection h with h1 h2; subst h1; subst h2; simp [List.find?_cons]
    · have hne : g ≠ f := fun e => hnd.1 (e ▸ List.mem_map_of_mem (f := (·.1)) h)
      have : (g == f) = false := by simpa using hne
      simp only [List.find?_cons, this]
      exact find_field_nodup hnd.2 h

/-- the fields of a struct literal against the declaration of the struct -/
theorem fields_struct_ok {env : Env} {file : AFile} {G : List String} {c : TCtx} {s : Scp} {Γ : Ctx} {K : KCtx} {D : Names} {cs : List String}
    (hsc : TScp env s Γ K) (hctx : SCtx file G D (skeys s) Γ cs) (hl : TLink env file G c) (decl : List (String × GTy))
    (hnd : (decl.map (·.1)).Nodup) : ∀ (fs : List (String × Ty)) (args : List Imm),
    argsOK env file G Γ args (fs.map (·.2)) = true → args.all stdImm = true → (∀ p, p ∈ fs → (gid p.1, goTy p.2) ∈ decl) →
    fieldsOKT c s decl (structFieldsOf fs (compileImms env args)) = .ok ()
  | [], [], _, _, _ => by simp [structFieldsOf, compileImms, fieldsOKT]
  | [], _ :: _, h, _, _ => by simp [argsOK] at h
  | _ :: _, [], h, _, _ => by simp [argsOK] at h
  | p :: fs, a :: as, h, hs, hmem => by
    simp only [List.map_cons, argsOK, Bool.and_eq_true] at h
    simp only [List.all_cons, Bool.and_eq_true] at hs
    obtain ⟨⟨ha, hta⟩, has⟩ := h
    have hty := scalarEq_eq hta
    obtain ⟨t', h1, hsub⟩ := typed_imm_sub (c := c) ha hs.1 hsc hctx hl
    have h2 := fields_struct_ok hsc hctx hl decl hnd fs as has hs.2 (fun q hq => hmem q (List.mem_cons_of_mem _ hq))
    have hf := find_field_nodup hnd (hmem p List.mem_cons_self)
    have hasg := (sub_assignable hl (hty ▸ hsub.sub)).1
    simp only [structFieldsOf, compileImms, List.map_cons, List.zip_cons_cons] at h2 ⊢
    simp only [fieldsOKT, h1, hf, hasg, R.guard, if_true, h2, R.both]

/-- a call of a top-level function of the file by its name -/
theorem tyOf_call_fn {c : TCtx} {s : Scp} {h : String} {fty t0 : GTy} {cargs : List GExpr} {ps ts : List GTy} {r : GTy}
    (hlook : lookupS s h = none) (hfn : c.findFunc h = some (ps, r)) (hts : tysOfT c s cargs = .ok ts)
    (hargs : argsAssignable c (normTs ps) ts = true) : tyOfT c s (.call t0 (.var h fty) cargs) = .ok (normT r) := by
  have hcond : ((lookupS s h).isNone && (c.findFunc h).isNone) = false := by simp [hfn]
  simp only [tyOfT, hcond, Bool.false_eq_true, if_false, hlook, hfn, hts, callOfT, normT_func, hargs, if_true]
  simp

theorem argsOK_length {env : Env} {file : AFile} {G : List String} {Γ : Ctx} : ∀ {args : List Imm} {tys : List Ty},
    argsOK env file G Γ args tys = true → args.length = tys.length
  | [], [], _ => rfl
  | [], _ :: _, h => by simp [argsOK] at h
  | _ :: _, [], h => by simp [argsOK] at h
  | a :: as, t :: ts, h => by
    simp only [argsOK, Bool.and_eq_true] at h
    simp [argsOK_length h.2]

/-- the reference helpers `ref__T`, `ref_get__T`, `ref_set__T` at their signatures -/
theorem typed_refcall {env : Env} {file : AFile} {G : List String} {c : TCtx} {D : Names} {s : Scp} {Γ : Ctx} {K : KCtx}
    {name : String} {fty : Ty} {args : List Imm} {ty : Ty}
    (hfrag : refCallOK env file G Γ (.var name fty) args ty = true) (hargsS : args.all stdImm = true) (hsc : TScp env s Γ K)
    (hctx : SCtx file G D (skeys s) Γ (calleesC (Γ.map (·.1)) (.call (.var name fty) args ty))) (hl : TLink env file G c) :
    TyIs env c s (compileCExpr env (.call (.var name fty) args ty)) ty := by
  simp only [refCallOK, Bool.and_eq_true, beq_iff_eq] at hfrag
  obtain ⟨⟨hloc, hrn⟩, hcase⟩ := hfrag
  have hnone : lookupTy Γ name = none := by
    cases hx : lookupTy Γ name with
    | none => rfl
    | some p => rw [hx] at hloc; simp at hloc
  have hnb := lookupTy_none_nomem hnone
  have hnin : ∀ h, h ∈ calleesC (Γ.map (·.1)) (.call (.var name fty) args ty) → lookupS s h = none :=
    fun h hh => lookupS_none (fun hk => (hctx.cal h hh).1 (hctx.scD _ hk))
  by_cases h1 : name = "ref"
  · subst h1
    simp only [beq_self_eq_true, if_true] at hcase
    cases ty with
    | ref e =>
      simp only [Bool.and_eq_true] at hcase
      obtain ⟨hargs, hrt⟩ := hcase
      have hshape : compileCExpr env (.call (.var "ref" fty) args (.ref e)) =
          .call (goTy (.ref e)) (.var (helperFnName "ref" (.ref e)) (.func [goTy e] (goTy (.ref e)))) (compileImms env args) := by
        simp [compileCExpr, compileCall, callee, hrn, refElem]
      have hlook := hnin (helperFnName "ref" (.ref e)) (by simp [calleesC, goCallee, hrn, hnb])
      obtain ⟨ts', hts, hsub⟩ := typed_imms (c := c) hsc hctx hl hargs hargsS
      have hasg := args_assignable hl hsub
      simp only [List.map] at hasg
      rw [hshape]
      refine ⟨_, tyOf_call_fn hlook (hl.refs e hrt).1 hts hasg, Or.inl ?_⟩
      simp [goTy, normT_idem]
    | _ => exact absurd hcase (by simp)
  · rw [if_neg h1] at hcase
    by_cases h2 : name = "ref_get"
    · subst h2
      simp only [beq_self_eq_true, if_true, Bool.and_eq_true] at hcase
      obtain ⟨hargs, hrt⟩ := hcase
      have harg0 : (args.head?.map Imm.ty).getD (.tvar 0) = .ref ty := by
        cases args with
        | nil => simp [argsOK] at hargs
        | cons a as =>
          simp only [argsOK, Bool.and_eq_true] at hargs
          simp [scalarEq_eq hargs.1.2]
      have hshape : compileCExpr env (.call (.var "ref_get" fty) args ty) =
          .call (goTy ty) (.var (helperFnName "ref_get" (.ref ty)) (.func [goTy (.ref ty)] (goTy ty))) (compileImms env args) := by
        simp [compileCExpr, compileCall, callee, hrn, harg0, refElem]
      have hlook := hnin (helperFnName "ref_get" (.ref ty)) (by simp [calleesC, goCallee, hrn, harg0, hnb])
      obtain ⟨ts', hts, hsub⟩ := typed_imms (c := c) hsc hctx hl hargs hargsS
      have hasg := args_assignable hl hsub
      simp only [List.map, goTy] at hasg
      rw [hshape]
      exact ⟨_, tyOf_call_fn hlook (hl.refs ty hrt).2.1 hts hasg, Or.inl (normT_idem _)⟩
    · rw [if_neg h2] at hcase
      by_cases h3 : name = "ref_set"
      · subst h3
        simp only [beq_self_eq_true, if_true] at hcase
        cases args with
        | nil => cases hcase
        | cons r rest =>
          simp only at hcase
          cases hrty : r.ty with
          | ref e =>
            rw [hrty] at hcase; simp only [Bool.and_eq_true] at hcase
            obtain ⟨⟨hargs, htu⟩, hrt⟩ := hcase
            have htu' := scalarEq_eq htu; subst htu'
            have hshape : compileCExpr env (.call (.var "ref_set" fty) (r :: rest) .unit) =
                .call (goTy .unit) (.var (helperFnName "ref_set" (.ref e)) (.func [goTy (.ref e), goTy e] .unit))
                  (compileImms env (r :: rest)) := by
              simp [compileCExpr, compileCall, callee, hrn, hrty, refElem]
            have hlook := hnin (helperFnName "ref_set" (.ref e)) (by simp [calleesC, goCallee, hrn, hrty, hnb])
            obtain ⟨ts', hts, hsub⟩ := typed_imms (c := c) hsc hctx hl hargs hargsS
            have hasg := args_assignable hl hsub
            simp only [List.map, goTy] at hasg
            rw [hshape]
            exact ⟨_, tyOf_call_fn hlook (hl.refs e hrt).2.2 hts hasg, Or.inl (by simp [goTy, normT])⟩
          | _ => rw [hrty] at hcase; simp at hcase
      · rw [if_neg h3] at hcase; cases hcase

/-- the array helpers `array_get__T`, `array_set__T` at their signatures (the index is an `int32`) -/
theorem typed_arrcall {env : Env} {file : AFile} {G : List String} {c : TCtx} {D : Names} {s : Scp} {Γ : Ctx} {K : KCtx}
    {name : String} {fty : Ty} {args : List Imm} {ty : Ty}
    (hfrag : arrCallOK env file G Γ (.var name fty) args ty = true) (hargsS : args.all stdImm = true)
    (hidx : idxI32 args = true) (hsc : TScp env s Γ K)
    (hctx : SCtx file G D (skeys s) Γ (calleesC (Γ.map (·.1)) (.call (.var name fty) args ty))) (hl : TLink env file G c) :
    TyIs env c s (compileCExpr env (.call (.var name fty) args ty)) ty := by
  simp only [arrCallOK, Bool.and_eq_true, beq_iff_eq] at hfrag
  obtain ⟨⟨hloc, hrn⟩, hcase⟩ := hfrag
  have hnone : lookupTy Γ name = none := by
    cases hx : lookupTy Γ name with
    | none => rfl
    | some p => rw [hx] at hloc; simp at hloc
  have hnb := lookupTy_none_nomem hnone
  have hnin : ∀ h, h ∈ calleesC (Γ.map (·.1)) (.call (.var name fty) args ty) → lookupS s h = none :=
    fun h hh => lookupS_none (fun hk => (hctx.cal h hh).1 (hctx.scD _ hk))
  cases args with
  | nil => cases hcase
  | cons a rest =>
    cases rest with
    | nil => cases hcase
    | cons i rest =>
      simp only at hcase
      simp only [idxI32] at hidx
      have hi32 := scalarEq_eq hidx
      cases haty : a.ty with
      | array len e =>
        rw [haty] at hcase; simp only [Bool.and_eq_true] at hcase
        obtain ⟨⟨_, hat⟩, hif⟩ := hcase
        by_cases h1 : name = "array_get"
        · subst h1
          rw [if_pos rfl] at hif; simp only [Bool.and_eq_true] at hif
          have hty := scalarEq_eq hif.2
          have hshape : compileCExpr env (.call (.var "array_get" fty) (a :: i :: rest) ty) =
              .call (goTy ty) (.var (helperFnName "array_get" (.array len e)) (goTy fty)) (compileImms env (a :: i :: rest)) := by
            simp [compileCExpr, compileCall, callee, hrn, haty, Imm.ty_var]
          have hlook := hnin (helperFnName "array_get" (.array len e)) (by simp [calleesC, goCallee, hrn, haty, hnb])
          obtain ⟨ts', hts, hsub⟩ := typed_imms (c := c) hsc hctx hl hif.1 hargsS
          have hasg := args_assignable hl hsub
          simp only [List.map, goTy, hi32] at hasg
          rw [hshape, hty]
          exact ⟨_, tyOf_call_fn hlook (hl.arrs len e hat).1 hts hasg, Or.inl (normT_idem _)⟩
        · rw [if_neg h1] at hif
          by_cases h2 : name = "array_set"
          · subst h2
            rw [if_pos rfl] at hif; simp only [Bool.and_eq_true] at hif
            have hty := scalarEq_eq hif.2
            have hshape : compileCExpr env (.call (.var "array_set" fty) (a :: i :: rest) ty) =
                .call (goTy ty) (.var (helperFnName "array_set" (.array len e)) (goTy fty)) (compileImms env (a :: i :: rest)) := by
              simp [compileCExpr, compileCall, callee, hrn, haty, Imm.ty_var]
            have hlook := hnin (helperFnName "array_set" (.array len e)) (by simp [calleesC, goCallee, hrn, haty, hnb])
            obtain ⟨ts', hts, hsub⟩ := typed_imms (c := c) hsc hctx hl hif.1 hargsS
            have hasg := args_assignable hl hsub
            simp only [List.map, goTy, hi32] at hasg
            rw [hshape, hty]
            refine ⟨_, tyOf_call_fn hlook (hl.arrs len e hat).2 hts hasg, Or.inl ?_⟩
            simp [goTy, normT, normT_idem]
          · rw [if_neg h2] at hif; cases hif
      | _ => rw [haty] at hcase; cases hcase

theorem goTyFields_names : ∀ (i : Nat) (ts : List Ty), (goTyFields i ts).map (·.1) = fieldNames i ts.length
  | _, [] => by simp [goTyFields, fieldNames]
  | i, t :: ts => by simp [goTyFields, fieldNames, goTyFields_names (i + 1) ts]

theorem mem_goTyFields : ∀ (i : Nat) (ts : List Ty) (k : Nat) (t : Ty), ts[k]? = some t → (fieldN (i + k), goTy t) ∈ goTyFields i ts
  | _, [], k, t, h => by simp at h
  | i, t0 :: ts, 0, t, h => by simp at h; subst h; simp [goTyFields]
  | i, t0 :: ts, k + 1, t, h => by
    simp only [List.getElem?_cons_succ] at h
    have := mem_goTyFields (i + 1) ts k t h
    simp only [goTyFields, List.mem_cons]
    right; rw [show i + (k + 1) = i + 1 + k by omega]; exact this

/-- the fields `_i, _{i+1}, …` of a tuple or variant literal against the declaration of its struct -/
theorem fields_tuple_ok {env : Env} {file : AFile} {G : List String} {c : TCtx} {s : Scp} {Γ : Ctx} {K : KCtx} {D : Names} {cs : List String}
    (hsc : TScp env s Γ K) (hctx : SCtx file G D (skeys s) Γ cs) (hl : TLink env file G c) (decl : List (String × GTy))
    (hnd : (decl.map (·.1)).Nodup) : ∀ (i : Nat) (items : List Imm) (tys : List Ty),
    argsOK env file G Γ items tys = true → items.all stdImm = true →
    (∀ k t, tys[k]? = some t → (fieldN (i + k), goTy t) ∈ decl) →
    fieldsOKT c s decl (tupleFields i (compileImms env items)) = .ok ()
  | _, [], [], _, _, _ => by simp [tupleFields, compileImms, fieldsOKT]
  | _, [], _ :: _, h, _, _ => by simp [argsOK] at h
  | _, _ :: _, [], h, _, _ => by simp [argsOK] at h
  | i, a :: as, t :: ts, h, hs, hmem => by
    simp only [argsOK, Bool.and_eq_true] at h
    simp only [List.all_cons, Bool.and_eq_true] at hs
    obtain ⟨⟨ha, hta⟩, has⟩ := h
    have hty := scalarEq_eq hta
    obtain ⟨t', h1, hsub⟩ := typed_imm_sub (c := c) ha hs.1 hsc hctx hl
    have h2 := fields_tuple_ok hsc hctx hl decl hnd (i + 1) as ts has hs.2 (fun k u hk => by
      have := hmem (k + 1) u (by simpa using hk)
      rw [show i + 1 + k = i + (k + 1) by omega]; exact this)
    have hf := find_field_nodup hnd (by simpa using hmem 0 t (by simp))
    have hasg := (sub_assignable hl (hty ▸ hsub.sub)).1
    simp only [compileImms, List.map_cons, tupleFields] at h2 ⊢
    simp only [fieldsOKT, h1, hf, hasg, R.guard, if_true, h2, R.both]

theorem not_enum_of_scalarEq {a b : Ty} (h : scalarEq a b = true) (hb : ∀ n, b ≠ .enum n) : ∀ n, a ≠ .enum n := by
  intro n hn; exact hb n (by rw [← scalarEq_eq h, hn])

/-- a simple `CExpr` of the typing half compiled by `compile_cexpr` has the Go type of its annotation -/
theorem typed_cexpr {env : Env} {file : AFile} {G : List String} {c : TCtx} {D : Names} {s : Scp} {Γ : Ctx} {K : KCtx} {e : CExpr}
    (hctl : isCtl e = false) (hgoc : isGoC e = false) (hfrag : fragC env file G Γ K e = true) (hstd : stdC env file K e = true)
    (hsc : TScp env s Γ K) (hctx : SCtx file G D (skeys s) Γ (calleesC (Γ.map (·.1)) e)) (hl : TLink env file G c) :
    TyIs env c s (compileCExpr env e) e.annTy ∧ stdTy e.annTy = true := by
  cases e with
  | imm i =>
    simp only [fragC] at hfrag; simp only [stdC] at hstd
    obtain ⟨t', h, hsub⟩ := typed_imm_sub (c := c) hfrag hstd hsc hctx hl
    refine ⟨⟨t', h, hsub.sub⟩, ?_⟩
    cases i <;> simp [stdImm] at hstd <;> simp [CExpr.annTy, Imm.ty, hstd]
  | un op a ty =>
    simp only [fragC, Bool.and_eq_true] at hfrag
    simp only [stdC, Bool.and_eq_true] at hstd
    have hne : ∀ n, a.ty ≠ .enum n := by
      intro n hn; have := hfrag.2; rw [hn] at this; cases op <;> simp [unOK, intTy, scalarEq] at this
    have h1 := typed_imm (c := c) hfrag.1 hstd.1 hsc hctx hl hne
    refine ⟨TyIs.exact ?_, hstd.2⟩
    simp only [compileCExpr, tyOfT, h1, R.bind, CExpr.annTy]
    cases op with
    | neg =>
      simp only [unOK, Bool.and_eq_true] at hfrag
      have hty := scalarEq_eq hfrag.2.2
      cases hat : a.ty <;> rw [hat] at hfrag <;> simp [intTy] at hfrag
      simp [gUn, hty, hat, goTy, normT, isNumeric]
    | not =>
      simp only [unOK, Bool.and_eq_true] at hfrag
      have h1' := scalarEq_eq hfrag.2.1; have h2' := scalarEq_eq hfrag.2.2
      simp [gUn, h1', h2', goTy, tyEqT, normT, tyBeqG]
  | bin op l r ty =>
    simp only [fragC, Bool.and_eq_true] at hfrag
    simp only [stdC, Bool.and_eq_true] at hstd
    obtain ⟨⟨hli, hri⟩, hop⟩ := hfrag
    simp only [binOK, Bool.and_eq_true] at hop
    obtain ⟨⟨hlr, hdom⟩, hres⟩ := hop
    have hlr' := scalarEq_eq hlr
    have hres' := scalarEq_eq hres
    have hnel : ∀ n, l.ty ≠ .enum n := by
      intro n hn; rw [hn] at hdom; cases op <;> simp [binDom, scalarTy] at hdom
    have h1 := typed_imm (c := c) hli hstd.1.1 hsc hctx hl hnel
    have h2 := typed_imm (c := c) hri hstd.1.2 hsc hctx hl (hlr' ▸ hnel)
    refine ⟨TyIs.exact ?_, hstd.2⟩
    have hlstd : stdTy l.ty = true := by
      cases l <;> simp [stdImm] at hstd <;> simp [Imm.ty, hstd.1.1]
    simp only [compileCExpr, tyOfT, h1, h2, CExpr.annTy, ← hlr', tyEqT_of_norm (rfl : normT (goTy l.ty) = _), Bool.not_true,
      Bool.false_eq_true, if_false]
    subst hres'
    cases op <;> cases hlt : l.ty <;> rw [hlt] at hdom hlstd <;> simp [binDom, scalarTy, stdTy] at hdom hlstd <;>
      simp [gBin, binResTy, goTy, normT, isNumeric, isOrdered, tyEqT, tyBeqG, comparableT]
  | call f args ty =>
    simp only [stdC, Bool.and_eq_true] at hstd
    obtain ⟨⟨hargsS, htyS⟩, hf⟩ := hstd
    refine ⟨?_, htyS⟩
    cases f with
    | var name fty =>
      simp only [Bool.and_eq_true, Bool.not_eq_true', Bool.or_eq_true] at hf
      obtain ⟨hnvec, harrI⟩ := hf
      simp only [fragC, Bool.or_eq_true] at hfrag
      rcases hfrag with (((hcall | href) | harr) | hlc) | hvec
      · -- a function of `G` or a printing builtin, by name
        have hshape := compileCall_frag hcall
        simp only [callOK, Bool.and_eq_true, Bool.not_eq_true', beq_iff_eq] at hcall
        obtain ⟨⟨⟨⟨⟨hloc, hrn⟩, hsp⟩, hext⟩, hentry⟩, hcase⟩ := hcall
        have hcs : calleesC (Γ.map (·.1)) (.call (.var name fty) args ty) = [vn name] := by
          simp only [calleesC]
          have hnone : lookupTy Γ name = none := by
            cases hx : lookupTy Γ name with
            | none => rfl
            | some p => rw [hx] at hloc; simp at hloc
          exact goCallee_plain (lookupTy_none_not_mem hnone) hsp hrn
        have hnin : ¬ vn name ∈ skeys s := fun hk =>
          (hctx.cal (vn name) (by rw [hcs]; exact List.mem_singleton.mpr rfl)).1 (hctx.scD _ hk)
        have hlook : lookupS s (vn name) = none := lookupS_none hnin
        simp only [compileCExpr, hshape, CExpr.annTy]
        -- the callee's signature
        have hsig : ∃ ps, c.findFunc (vn name) = some (ps.map goTy, goTy ty) ∧ argsOK env file G Γ args ps = true := by
          cases hsg : builtinSig name with
          | some pr =>
            obtain ⟨ps, r⟩ := pr
            rw [hsg] at hcase; simp only [Bool.and_eq_true] at hcase
            obtain ⟨⟨hbn, hargs⟩, hty⟩ := hcase
            have hbn' : name ∈ builtinNames := by simpa using hbn
            have := hl.builtin name ps r hbn' hsg
            rw [vn_builtin hbn', scalarEq_eq hty]
            exact ⟨ps, this, hargs⟩
          | none =>
            rw [hsg] at hcase; simp only at hcase
            cases hfind : file.find? (·.name == name) with
            | none => rw [hfind] at hcase; simp at hcase
            | some g =>
              rw [hfind] at hcase; simp only [Bool.and_eq_true] at hcase
              obtain ⟨⟨hG, hargs⟩, hty⟩ := hcase
              have hgmem : g ∈ file := List.mem_of_find?_eq_some hfind
              have hgname : g.name = name := by have := List.find?_some hfind; simpa using this
              have := hl.fn g hgmem (by rw [hgname]; simpa using hG) (by rw [hgname]; simpa using hentry) (by rw [hgname]; exact hrn)
              rw [hgname] at this
              rw [scalarEq_eq hty]
              exact ⟨g.params.map (·.2), by simpa [List.map_map, Function.comp_def] using this, hargs⟩
        obtain ⟨ps, hfn, hargs⟩ := hsig
        obtain ⟨ts', hts, hsub⟩ := typed_imms (c := c) hsc (hctx.mono_cs (fun _ h => h)) hl hargs hargsS
        exact ⟨_, tyOf_call_fn hlook hfn hts (args_assignable hl hsub), Or.inl (normT_idem _)⟩
      · exact typed_refcall href hargsS hsc hctx hl
      · have hn := (arrcall_name harr).2
        have hidx : idxI32 args = true := by
          rcases harrI with h | h
          · exfalso; rcases hn with hn | hn <;> (subst hn; simp [arrNames] at h)
          · exact h
        exact typed_arrcall harr hargsS hidx hsc hctx hl
      · -- a call through a local of function type
        simp only [localCallOK] at hlc
        cases hlk : lookupTy Γ name with
        | none => rw [hlk] at hlc; cases hlc
        | some t =>
          rw [hlk] at hlc
          cases t <;> simp only at hlc <;> try (cases hlc; done)
          rename_i ps r
          simp only [Bool.and_eq_true, Bool.not_eq_true'] at hlc
          obtain ⟨⟨⟨⟨hft, hsp⟩, hext⟩, hargs⟩, hty⟩ := hlc
          have hext' : env.getExternFn (rn name) = none := by
            cases hx : env.getExternFn (rn name) with
            | none => rfl
            | some p => rw [hx] at hext; simp at hext
          have hty' := scalarEq_eq hty; subst hty'
          have hlook : lookupS s (vn name) = some (goTy (.func ps ty)) := hsc.plain_of_ne hlk (fun n h => by cases h)
          obtain ⟨ts', hts, hsub⟩ := typed_imms (c := c) hsc hctx hl hargs hargsS
          have hgf : goTy (.func ps ty) = .func (ps.map goTy) (goTy ty) := by simp [goTy, goTys_map]
          have hcond : ((lookupS s (vn name)).isNone && (c.findFunc (vn name)).isNone) = false := by simp [hlook]
          refine ⟨normT (goTy ty), ?_, Or.inl (normT_idem _)⟩
          simp only [compileCExpr, compileCall_local hsp hext', CExpr.annTy, tyOfT, hcond, Bool.false_eq_true, if_false, hlook,
            hts, callOfT, hgf, normT_func, args_assignable hl hsub, if_true]
          simp
      · exfalso
        simp only [vecCallOK, Bool.and_eq_true] at hvec
        obtain ⟨_, hcase⟩ := hvec
        have hnv : ¬ name = "vec_new" ∧ ¬ name = "vec_push" ∧ ¬ name = "vec_get" ∧ ¬ name = "vec_len" := by
          have := hnvec; simp [vecNames] at this; exact this
        rw [if_neg (by simpa using hnv.1), if_neg (by simpa using hnv.2.1), if_neg (by simpa using hnv.2.2.1),
          if_neg (by simpa using hnv.2.2.2)] at hcase
        cases hcase
    | prim p t => simp at hf
    | tag i t => simp at hf
  | constr ct args ty =>
    simp only [stdC, Bool.and_eq_true] at hstd
    cases ct with
    | enum tn vn' vi =>
      simp only [fragC, Bool.and_eq_true] at hfrag
      obtain ⟨hty, hcase⟩ := hfrag
      have hty' := scalarEq_eq hty; subst hty'
      cases hvo : variantOf env (.enum tn) vi with
      | none => rw [hvo] at hcase; cases hcase
      | some v =>
        obtain ⟨n, vname, tys⟩ := v
        rw [hvo] at hcase; simp only at hcase
        obtain ⟨hE, _⟩ := variantOf_spec hvo
        injection hE with hE; subst hE
        obtain ⟨ms, methods, _, hfs, _, hnd⟩ := variant_link hl hvo
        have hnd' : ((goTyFields 0 tys).map (·.1)).Nodup := by rw [goTyFields_names]; exact hnd
        have hfields := fields_tuple_ok hsc hctx hl _ hnd' 0 args tys hcase hstd.1 (fun k t hk => mem_goTyFields 0 tys k t hk)
        refine ⟨⟨.name (variantGoName env tn vname), ?_, Or.inr ⟨tn, vi, vname, tys, rfl, hvo, rfl⟩⟩, hstd.2⟩
        simp only [compileCExpr, variantTy_eq hvo, tyOfT, normT, hfs, hfields, R.bind]
    | struct sn =>
      simp only [fragC, Bool.and_eq_true] at hfrag
      obtain ⟨⟨hty, hgood⟩, hcase⟩ := hfrag
      have hty' := scalarEq_eq hty; subst hty'
      have hsn : sn ∈ goodStructs env := by simpa using hgood
      obtain ⟨d, hd, hgen, hnd, _⟩ := good_struct hl.closed hsn
      rw [hd] at hcase; simp only at hcase
      obtain ⟨ms, hfs⟩ := hl.structs sn d hsn hd
      have hnd' : ((d.fields.map fun f => (gid f.1, goTy f.2)).map (·.1)).Nodup := by
        simpa [List.map_map, Function.comp_def] using hnd
      have hfields := fields_struct_ok hsc hctx hl _ hnd' d.fields args hcase hstd.1
        (fun p hp => List.mem_map_of_mem (f := fun f : String × Ty => (gid f.1, goTy f.2)) hp)
      refine ⟨TyIs.exact ?_, hstd.2⟩
      simp only [compileCExpr, hd, Option.map_some, Option.getD_some, tyOfT, goTy, normT, hfs, hfields, R.bind, CExpr.annTy]
  | cget a ct idx ty =>
    cases ct with
    | enum tn vn' vi =>
      simp only [stdC, Bool.and_eq_true] at hstd
      simp only [fragC, Bool.and_eq_true] at hfrag
      obtain ⟨⟨⟨hk, ha⟩, haty⟩, hcase⟩ := hfrag
      have haty' := scalarEq_eq haty
      cases a with
      | prim _ _ => cases hk
      | tag _ _ => cases hk
      | var x xty =>
        simp only [beq_iff_eq] at hk
        simp only [Imm.ty] at haty'; subst haty'
        simp only [immOK] at ha
        cases hlk : lookupTy Γ x with
        | none => rw [hlk] at ha; simp [fnValOK] at ha
        | some t =>
          rw [hlk] at ha; simp only at ha
          have ht := scalarEq_eq ha; subst ht
          obtain ⟨n, vname, tys, hE, hvo, hlook⟩ := hsc.narrowed x _ vi hlk hk
          injection hE with hE; subst hE
          rw [hvo] at hcase; simp only at hcase
          obtain ⟨ms, methods, _, hfs, _, hnd⟩ := variant_link hl hvo
          have hnd' : ((goTyFields 0 tys).map (·.1)).Nodup := by rw [goTyFields_names]; exact hnd
          refine ⟨TyIs.exact ?_, hstd.2⟩
          cases hti : tys[idx]? with
          | none => rw [hti] at hcase; cases hcase
          | some t =>
            rw [hti] at hcase; simp only at hcase
            have hty' := scalarEq_eq hcase
            have hf := find_field_nodup hnd' (by simpa using mem_goTyFields 0 tys idx t hti)
            simp only [compileCExpr, cgetField_enum hvo hti, Option.getD_some, compileImm, tyOfT, hlook, normT, R.bind, hfs, hf,
              CExpr.annTy, hty']
    | struct sn =>
      simp only [stdC, Bool.and_eq_true] at hstd
      simp only [fragC, Bool.and_eq_true] at hfrag
      obtain ⟨⟨ha, haty⟩, hcase⟩ := hfrag
      obtain ⟨⟨hgood, has⟩, htyS⟩ := hstd
      have haty' := scalarEq_eq haty
      have hsn : sn ∈ goodStructs env := by simpa using hgood
      obtain ⟨d, hd, hgen, hnd, _⟩ := good_struct hl.closed hsn
      obtain ⟨ms, hfs⟩ := hl.structs sn d hsn hd
      have h1 := typed_imm (c := c) ha has hsc hctx hl (by rw [haty']; intro n h; cases h)
      rw [cgetField_struct haty' hd hgen] at hcase
      refine ⟨TyIs.exact ?_, htyS⟩
      cases hfi : d.fields[idx]? with
      | none => rw [hfi] at hcase; cases hcase
      | some p =>
        rw [hfi] at hcase; simp only [Option.map_some] at hcase
        have hty' := scalarEq_eq hcase
        have hnd' : ((d.fields.map fun f => (gid f.1, goTy f.2)).map (·.1)).Nodup := by
          simpa [List.map_map, Function.comp_def] using hnd
        have hf := find_field_nodup hnd' (List.mem_map_of_mem (f := fun f : String × Ty => (gid f.1, goTy f.2)) (List.mem_of_getElem? hfi))
        simp only [compileCExpr, cgetField_struct haty' hd hgen, hfi, Option.map_some, Option.getD_some, tyOfT, h1, haty', goTy,
          normT, R.bind, hfs, hf, CExpr.annTy, hty']
  | tuple items ty =>
    simp only [stdC, Bool.and_eq_true] at hstd
    simp only [fragC] at hfrag
    cases ty <;> simp only at hfrag <;> try (cases hfrag; done)
    rename_i ts
    simp only [Bool.and_eq_true] at hfrag
    obtain ⟨hargs, htok⟩ := hfrag
    obtain ⟨hnd, ms, hfs⟩ := hl.tups ts htok
    have hnd' : ((goTyFields 0 ts).map (·.1)).Nodup := by rw [goTyFields_names]; exact hnd
    have hfields := fields_tuple_ok hsc hctx hl _ hnd' 0 items ts hargs hstd.1 (fun k t hk => mem_goTyFields 0 ts k t hk)
    refine ⟨TyIs.exact ?_, hstd.2⟩
    simp only [compileCExpr, tupleStructTy, tyOfT, goTy, normT, hfs, hfields, R.bind, CExpr.annTy]
  | array items ty =>
    simp only [stdC, Bool.and_eq_true] at hstd
    simp only [fragC] at hfrag
    cases ty <;> simp only at hfrag <;> try (cases hfrag; done)
    rename_i len e
    simp only [Bool.and_eq_true] at hfrag
    obtain ⟨hargs, _⟩ := hfrag
    have hlen := argsOK_length hargs
    simp only [List.length_replicate] at hlen
    obtain ⟨ts', hts, hsub⟩ := typed_imms (c := c) hsc hctx hl hargs hstd.1
    have hclen : (compileImms env items).length = len := by simp [compileImms, hlen]
    refine ⟨TyIs.exact ?_, hstd.2⟩
    simp only [compileCExpr, tyOfT, goTy, normT, hclen, bne_self_eq_false, Bool.false_and, Bool.false_eq_true, if_false, hts,
      R.bind, all_assignable_replicate hl e len hsub, if_true, CExpr.annTy]
  | proj a idx ty =>
    simp only [stdC, Bool.and_eq_true] at hstd
    simp only [fragC, Bool.and_eq_true] at hfrag
    obtain ⟨ha, hcase⟩ := hfrag
    obtain ⟨⟨htok, has⟩, htyS⟩ := hstd
    cases haty : a.ty <;> rw [haty] at hcase <;> simp only at hcase <;> try (cases hcase; done)
    rename_i ts
    have h1 := typed_imm (c := c) ha has hsc hctx hl (by rw [haty]; intro n h; cases h)
    simp only [Bool.and_eq_true] at hcase
    rw [haty] at htok h1
    obtain ⟨hnd, ms, hfs⟩ := hl.tups ts htok
    have hnd' : ((goTyFields 0 ts).map (·.1)).Nodup := by rw [goTyFields_names]; exact hnd
    refine ⟨TyIs.exact ?_, htyS⟩
    cases hti : ts[idx]? with
    | none => rw [hti] at hcase; simp at hcase
    | some t =>
      rw [hti] at hcase; simp only at hcase
      have hty' := scalarEq_eq hcase.2
      have hf := find_field_nodup hnd' (by simpa using mem_goTyFields 0 ts idx t hti)
      simp only [compileCExpr, tyOfT, h1, goTy, normT, R.bind, hfs, hf, CExpr.annTy, hty']
  | ite _ _ _ _ => simp [isCtl] at hctl
  | «while» _ _ _ => simp [isCtl] at hctl
  | matchE _ _ _ _ => simp [isCtl] at hctl
  | toDyn _ _ _ _ => simp [stdC] at hstd
  | dynCall _ _ _ _ _ => simp [stdC] at hstd
  | go _ _ => simp [isGoC] at hgoc

/-- `go f(env)`: the `apply` function of the closure environment at its signature -/
theorem typed_go {env : Env} {file : AFile} {G : List String} {c : TCtx} {D : Names} {ret : Option GTy} {s : Scp} {Γ : Ctx} {K : KCtx}
    {e : Imm} {ty : Ty} (hfrag : fragC env file G Γ K (.go e ty) = true) (hs : stdImm e = true) (hsc : TScp env s Γ K)
    (hctx : SCtx file G D (skeys s) Γ (calleesC (Γ.map (·.1)) (.go e ty))) (hl : TLink env file G c) :
    stmtOKT c ret s (compileGo env e) = .ok s ∧ ty = .unit := by
  obtain ⟨sn, fty, rty, hety, he, hty, hshape⟩ := compileGo_shape hfrag
  refine ⟨?_, hty⟩
  simp only [fragC, goOK, hety, Bool.and_eq_true] at hfrag
  obtain ⟨_, hcase⟩ := hfrag
  cases hfc : findClosureApplyFn env (.struct sn) with
  | none => rw [hfc] at hcase; cases hcase
  | some tr =>
    obtain ⟨name, fty', rty'⟩ := tr
    rw [hfc] at hcase; simp only [Bool.and_eq_true, Bool.not_eq_true', beq_iff_eq] at hcase
    obtain ⟨⟨⟨⟨⟨⟨hname, hloc⟩, hrn⟩, hsp⟩, hext⟩, hentry⟩, hfile⟩ := hcase
    cases hfind : file.find? (·.name == name) with
    | none => rw [hfind] at hfile; cases hfile
    | some g =>
      rw [hfind] at hfile; simp only [Bool.and_eq_true] at hfile
      obtain ⟨hG, hps⟩ := hfile
      have hgmem : g ∈ file := List.mem_of_find?_eq_some hfind
      have hgname : g.name = name := by have := List.find?_some hfind; simpa using this
      have hfn := hl.fn g hgmem (by rw [hgname]; simpa using hG) (by rw [hgname]; simpa using hentry) (by rw [hgname]; exact hrn)
      rw [hgname, hname] at hfn
      have hps' := scalarEqs_eq hps
      have hlook : lookupS s (vn (applyFnName sn)) = none :=
        lookupS_none (fun hk => (hctx.cal _ (by simp [calleesC, hety])).1 (hctx.scD _ hk))
      have h1 := typed_imm (c := c) he hs hsc hctx hl (by rw [hety]; intro n h; cases h)
      have hts : tysOfT c s (compileImms env [e]) = .ok [goTy (.struct sn)] := by
        simp [compileImms, tysOfT, h1, hety]
      have hpm : g.params.map (fun p => goTy p.2) = [goTy (.struct sn)] := by
        have : g.params.map (fun p => goTy p.2) = (g.params.map (·.2)).map goTy := by simp [List.map_map, Function.comp_def]
        rw [this, hps']; rfl
      rw [hpm] at hfn
      have hcall := tyOf_call_fn (t0 := goTy rty) (fty := goTy fty) hlook hfn hts (argsAssignable_norm c _)
      rw [hshape]
      simp only [stmtOKT, isCallE, if_true, hcall, R.bind]

/-! ### statement sequences -/

/-- every statement of `S` is well typed, starting in scope `s` and ending in scope `s'` -/
def seqOK (c : TCtx) (ret : Option GTy) : Scp → List GStmt → Scp → Prop
  | s, [], s' => s' = s
  | s, st :: rest, s' => ∃ s1, stmtOKT c ret s st = .ok s1 ∧ seqOK c ret s1 rest s'

theorem seqOK_append {c : TCtx} {ret : Option GTy} : ∀ {a b : List GStmt} {s s1 s2 : Scp},
    seqOK c ret s a s1 → seqOK c ret s1 b s2 → seqOK c ret s (a ++ b) s2
  | [], b, s, s1, s2, h1, h2 => by simp only [seqOK] at h1; subst h1; exact h2
  | st :: a, b, s, s1, s2, h1, h2 => by
    obtain ⟨s0, hs, hr⟩ := h1
    exact ⟨s0, hs, seqOK_append hr h2⟩

theorem block_of_seq {c : TCtx} {ret : Option GTy} : ∀ {S : List GStmt} {s s' : Scp}, seqOK c ret s S s' → blockOKT c ret s S = .ok ()
  | [], s, s', _ => by simp [blockOKT]
  | st :: rest, s, s', h => by
    obtain ⟨s1, hs, hr⟩ := h
    simp only [blockOKT, hs]; exact block_of_seq hr

theorem block_of_seq_then {c : TCtx} {ret : Option GTy} : ∀ {S rest : List GStmt} {s s' : Scp}, seqOK c ret s S s' →
    blockOKT c ret s (S ++ rest) = blockOKT c ret s' rest
  | [], rest, s, s', h => by simp only [seqOK] at h; subst h; rfl
  | st :: S, rest, s, s', h => by
    obtain ⟨s1, hs, hr⟩ := h
    simp only [List.cons_append, blockOKT, hs]; exact block_of_seq_then hr

/-- every call form of `compile_cexpr` but `vec_new` (`nil`) and `vec_get` (an index expression) is a Go call -/
theorem compileCall_isCall (env : Env) (name : String) (fty : Ty) (args : List Imm) (ty : Ty)
    (h1 : rn name ≠ "vec_new") (h2 : rn name ≠ "vec_get") :
    isNilLit (compileCall env (.var name fty) args ty) = false ∧ isCallE (compileCall env (.var name fty) args ty) = true := by
  simp only [compileCall, callee]
  repeat' split
  all_goals simp_all [isNilLit, isCallE, compileImm]

theorem isNilLit_simple {env : Env} {file0 : AFile} {K0 : KCtx} {e : CExpr} (hstd : stdC env file0 K0 e = true) (hctl : isCtl e = false) {file G Γ K}
    (hfrag : fragC env file G Γ K e = true) :
    isNilLit (compileCExpr env e) = false ∧ (∀ f a t, e = .call f a t → isCallE (compileCExpr env e) = true) := by
  cases e with
  | imm i =>
    cases i <;> simp [compileCExpr, compileImm, isNilLit]
    rename_i p t; cases p <;> simp [lit, isNilLit]
  | un _ _ _ => simp [compileCExpr, isNilLit]
  | bin _ _ _ _ => simp [compileCExpr, isNilLit]
  | constr ct _ _ => cases ct <;> simp [compileCExpr, isNilLit]
  | cget _ _ _ _ => simp [compileCExpr, isNilLit]
  | tuple _ _ => simp [compileCExpr, isNilLit]
  | array _ _ => simp [compileCExpr, isNilLit]
  | proj _ _ _ => simp [compileCExpr, isNilLit]
  | call f args ty =>
    simp only [stdC, Bool.and_eq_true] at hstd
    cases f with
    | var name fty =>
      simp only [Bool.and_eq_true, Bool.not_eq_true'] at hstd
      have hnvec := hstd.2.1
      have hnv : ¬ name = "vec_new" ∧ ¬ name = "vec_push" ∧ ¬ name = "vec_get" ∧ ¬ name = "vec_len" := by
        have := hnvec; simp [vecNames] at this; exact this
      have hne : rn name ≠ "vec_new" ∧ rn name ≠ "vec_get" := by
        simp only [fragC, Bool.or_eq_true] at hfrag
        rcases hfrag with (((h | h) | h) | h) | h
        · simp only [callOK, Bool.and_eq_true, Bool.not_eq_true', beq_iff_eq] at h
          rw [h.1.1.1.1.2]; exact ⟨hnv.1, hnv.2.2.1⟩
        · simp only [refCallOK, Bool.and_eq_true, beq_iff_eq] at h
          rw [h.1.2]; exact ⟨hnv.1, hnv.2.2.1⟩
        · rw [(arrcall_name h).1]; exact ⟨hnv.1, hnv.2.2.1⟩
        · simp only [localCallOK] at h
          cases hlk : lookupTy Γ name with
          | none => rw [hlk] at h; cases h
          | some t =>
            rw [hlk] at h
            cases t <;> simp only at h <;> try (cases h; done)
            simp only [Bool.and_eq_true, Bool.not_eq_true'] at h
            have hsp := h.1.1.1.2
            simp only [specialCallees, List.contains_cons, List.contains_nil, Bool.or_false, Bool.or_eq_false_iff, beq_eq_false_iff_ne] at hsp
            exact ⟨hsp.2.2.2.2.2.1, hsp.2.2.2.2.2.2.2.1⟩
        · simp only [vecCallOK, Bool.and_eq_true, beq_iff_eq] at h
          rw [h.1.2]; exact ⟨hnv.1, hnv.2.2.1⟩
      have := compileCall_isCall env name fty args ty hne.1 hne.2
      exact ⟨by simpa [compileCExpr] using this.1, fun _ _ _ _ => by simpa [compileCExpr] using this.2⟩
    | prim p t => simp at hstd
    | tag i t => simp at hstd
  | ite _ _ _ _ => simp [isCtl] at hctl
  | «while» _ _ _ => simp [isCtl] at hctl
  | matchE _ _ _ _ => simp [isCtl] at hctl
  | toDyn _ _ _ _ => simp [stdC] at hstd
  | dynCall _ _ _ _ _ => simp [stdC] at hstd
  | go _ _ => simp [compileCExpr, isNilLit]

/-! ### the scope along a statement list -/

theorem SCtx.extend {D sc : Names} {Γ : Ctx} {cs : List String} (h : SCtx file G D sc Γ cs) {ys : Names}
    (hnew : ∀ y, y ∈ ys → y ∈ D ∧ y ≠ "_") : SCtx file G D (ys ++ sc) Γ cs :=
  ⟨fun x t hx => List.mem_append_right _ (h.vars x t hx),
   fun y hy => by rcases List.mem_append.mp hy with hy | hy; exact (hnew y hy).1; exact h.scD y hy,
   fun hb => by rcases List.mem_append.mp hb with hb | hb; exact (hnew _ hb).2 rfl; exact h.nob hb,
   h.cal, h.fns⟩

theorem SCtx.letvar {D sc : Names} {Γ : Ctx} {cs : List String} (h : SCtx file G D sc Γ cs) {x : String} (hx : vn x ∈ sc) (t : Ty) :
    SCtx file G D sc ((x, t) :: Γ) cs := by
  refine ⟨fun y ty hy => ?_, h.scD, h.nob, h.cal, h.fns⟩
  by_cases hxy : x = y
  · subst hxy; exact hx
  · rw [lookupTy_cons_ne _ _ hxy] at hy; exact h.vars y ty hy

theorem TScp.extend {env : Env} {D : Names} {s : Scp} {Γ : Ctx} {K : KCtx} {cs : List String} (h : TScp env s Γ K)
    (hctx : SCtx file G D (skeys s) Γ cs) {Dl : Scp} (hfresh : ∀ y, y ∈ skeys Dl → ¬ y ∈ skeys s) : TScp env (Dl ++ s) Γ K := by
  refine ⟨fun x t hx hk => ?_, fun x t vi hx hk => ?_, h.inj⟩
  · rw [lookupS_append_right (fun hk' => hfresh _ hk' (hctx.vars x t hx))]
    exact h.plain x t hx hk
  · obtain ⟨n, vname, tys, h1, h2, h3⟩ := h.narrowed x t vi hx hk
    exact ⟨n, vname, tys, h1, h2, by rw [lookupS_append_right (fun hk' => hfresh _ hk' (hctx.vars x t hx))]; exact h3⟩

/-- a `let`: the new variable is declared at the Go type of its type, nothing is known of its variant, and no variable in
    scope is spelled like it -/
theorem TScp.letvar {env : Env} {s : Scp} {Γ : Ctx} {K : KCtx} (h : TScp env s Γ K) {x : String} {t : Ty}
    (hx : lookupS s (vn x) = some (goTy t)) (hfreshx : ∀ y ty, lookupTy Γ y = some ty → vn y ≠ vn x) :
    TScp env s ((x, t) :: Γ) (eraseK K x) := by
  refine ⟨fun y ty hy hk => ?_, fun y ty vi hy hk => ?_, fun y z ty tz hy hz hyz => ?_⟩
  · by_cases hxy : x = y
    · subst hxy; rw [lookupTy_cons_self] at hy; injection hy with hy; subst hy; exact hx
    · rw [lookupTy_cons_ne _ _ hxy] at hy
      rw [lookupK_erase_ne K hxy] at hk
      exact h.plain y ty hy hk
  · by_cases hxy : x = y
    · subst hxy; rw [lookupK_erase_self] at hk; cases hk
    · rw [lookupTy_cons_ne _ _ hxy] at hy
      rw [lookupK_erase_ne K hxy] at hk
      exact h.narrowed y ty vi hy hk
  · by_cases hxy : x = y
    · by_cases hxz : x = z
      · rw [← hxy, ← hxz]
      · subst hxy
        rw [lookupTy_cons_ne _ _ hxz] at hz
        exact absurd hyz.symm (hfreshx z tz hz)
    · rw [lookupTy_cons_ne _ _ hxy] at hy
      by_cases hxz : x = z
      · subst hxz
        exact absurd hyz (hfreshx y ty hy)
      · rw [lookupTy_cons_ne _ _ hxz] at hz
        exact h.inj y z ty tz hy hz hyz

/-- the arm of a type switch on `x` that fixes its variant: `x` is re-bound at the struct type of the variant -/
theorem TScp.narrow {env : Env} {s : Scp} {Γ : Ctx} {K : KCtx} (h : TScp env s Γ K) {x n vname : String} {vi : Nat} {tys : List Ty}
    (hx : lookupTy Γ x = some (.enum n)) (hv : variantOf env (.enum n) vi = some (n, vname, tys)) :
    TScp env ((vn x, .name (variantGoName env n vname)) :: s) Γ ((x, vi) :: K) := by
  refine ⟨fun y ty hy hk => ?_, fun y ty vj hy hk => ?_, h.inj⟩
  · by_cases hxy : x = y
    · subst hxy; rw [lookupK_cons_self] at hk; cases hk
    · rw [lookupK_cons_ne _ _ hxy] at hk
      have hne : vn x ≠ vn y := fun e => hxy (h.inj x y _ _ hx hy e)
      rw [lookupS_cons_ne _ _ hne]
      exact h.plain y ty hy hk
  · by_cases hxy : x = y
    · subst hxy
      rw [lookupK_cons_self] at hk; injection hk with hk; subst hk
      rw [hx] at hy; injection hy with hy; subst hy
      exact ⟨n, vname, tys, rfl, hv, lookupS_cons_self _ _ _⟩
    · rw [lookupK_cons_ne _ _ hxy] at hk
      have hne : vn x ≠ vn y := fun e => hxy (h.inj x y _ _ hx hy e)
      obtain ⟨n', vname', tys', h1, h2, h3⟩ := h.narrowed y ty vj hy hk
      exact ⟨n', vname', tys', h1, h2, by rw [lookupS_cons_ne _ _ hne]; exact h3⟩

/-- re-declaring a name that is in scope (the binding of a type switch) changes nothing for `SCtx` -/
theorem SCtx.dup {D sc : Names} {Γ : Ctx} {cs : List String} (h : SCtx file G D sc Γ cs) {y : String} (hy : y ∈ sc) :
    SCtx file G D (y :: sc) Γ cs :=
  ⟨fun x t hx => List.mem_cons_of_mem _ (h.vars x t hx),
   fun z hz => by rcases List.mem_cons.mp hz with rfl | hz; exact h.scD _ hy; exact h.scD z hz,
   fun hb => by rcases List.mem_cons.mp hb with hb | hb; exact h.nob (hb ▸ hy); exact h.nob hb,
   h.cal, h.fns⟩

theorem TgtSc.extend {m : Mode} {Γ : Ctx} {sc : Names} (h : TgtSc m Γ sc) (ys : Names) : TgtSc m Γ (ys ++ sc) := by
  cases m with
  | effect => trivial
  | assign t => exact ⟨List.mem_append_right _ h.1, h.2⟩

theorem TgtSc.letvar {m : Mode} {Γ : Ctx} {sc : Names} (h : TgtSc m Γ sc) {x : String} (t : Ty)
    (hx : ∀ t', m = .assign t' → vn x ≠ gid t') : TgtSc m ((x, t) :: Γ) sc := by
  cases m with
  | effect => trivial
  | assign t' =>
    refine ⟨h.1, fun y ty hy => ?_⟩
    by_cases hxy : x = y
    · subst hxy; exact hx t' rfl
    · rw [lookupTy_cons_ne _ _ hxy] at hy; exact h.2 y ty hy

theorem TgtTy.extend {m : Mode} {s : Scp} {ty : Ty} {Γ : Ctx} (h : TgtTy m s ty) (hs : TgtSc m Γ (skeys s)) {Dl : Scp}
    (hfresh : ∀ y, y ∈ skeys Dl → ¬ y ∈ skeys s) : TgtTy m (Dl ++ s) ty := by
  cases m with
  | effect => trivial
  | assign t =>
    show lookupS (Dl ++ s) (gid t) = some (goTy ty)
    rw [lookupS_append_right (fun hk => hfresh _ hk hs.1)]; exact h

theorem len_bound {t : Ty} (h : stdTy t = true) {n : Nat} {e : GTy} (hn : normT (goTy t) = .array n e) : ¬ n > 100000000 := by
  cases t <;> simp [stdTy] at h <;> simp [goTy, normT] at hn
  omega

theorem stmt_varDecl_none_ok (c : TCtx) (ret : Option GTy) (s : Scp) (x : String) {t : Ty} (h : stdTy t = true) :
    stmtOKT c ret s (.varDecl x (goTy t) none) = .ok ((x, goTy t) :: s) := by
  simp only [stmtOKT]
  cases hnt : normT (goTy t) <;> simp only [R.both, R.bind]
  have := len_bound h hnt
  simp [R.guard, this]

theorem stmt_varDecl_some_ok {env : Env} {file : AFile} {G : List String} {c : TCtx} (hl : TLink env file G c) (ret : Option GTy)
    (s : Scp) (x : String) {t : Ty} (h : stdTy t = true) {e : GExpr} (he : TyIs env c s e t) (hnil : isNilLit e = false) :
    stmtOKT c ret s (.varDecl x (goTy t) (some e)) = .ok ((x, goTy t) :: s) := by
  obtain ⟨te, he, hn⟩ := he
  simp only [stmtOKT, he, R.bind, not_void_of_sub h hn, hnil, Bool.false_eq_true, if_false, (sub_assignable hl hn).1, R.guard,
    if_true]
  cases hnt : normT (goTy t) <;> simp only [R.both, R.bind]
  have := len_bound h hnt
  simp [this]

theorem stmt_assign_ok {env : Env} {file : AFile} {G : List String} {c : TCtx} (hl : TLink env file G c) (ret : Option GTy)
    (s : Scp) (x : String) {t : Ty} (h : stdTy t = true) {e : GExpr} (he : TyIs env c s e t) (hx : x ≠ "_")
    (hlk : lookupS s x = some (goTy t)) : stmtOKT c ret s (.assign x e) = .ok s := by
  obtain ⟨te, he, hn⟩ := he
  have hx' : (x == "_") = false := by simpa using hx
  simp only [stmtOKT, he, R.bind, hx', Bool.false_eq_true, if_false, hlk, not_void_of_sub h hn, (sub_assignable hl hn).1, if_true]

theorem ndDecls_nil : ndDecls [] = [] := by simp [ndDecls]

/-- the simple forms in tail position are well typed and declare nothing -/
theorem typedC_simple {env : Env} {file : AFile} {G : List String} {c : TCtx} {D : Names} {ret : Option GTy} (hl : TLink env file G c)
    (m : Mode) (e : CExpr) (Γ : Ctx) (K : KCtx) (s : Scp) (hctl : isCtl e = false)
    (hfrag : fragC env file G Γ K e = true) (hstd : stdC env file K e = true) (hsc : TScp env s Γ K) (hctx : SCtx file G D (skeys s) Γ (calleesC (Γ.map (·.1)) e))
    (htgt : TgtSc m Γ (skeys s)) (htt : TgtTy m s e.annTy) : seqOK c ret s (compileSimple env m e) s := by
  by_cases hgo : isGoC e = false
  rotate_left
  · -- `go f(env)` and, in assign mode, `t = struct{}{}`
    cases e <;> simp [isGoC] at hgo
    rename_i a ty
    simp only [stdC] at hstd
    obtain ⟨hg, hty⟩ := typed_go (ret := ret) hfrag hstd hsc hctx hl
    subst hty
    cases m with
    | effect => exact ⟨s, by simpa only [compileSimple] using hg, rfl⟩
    | assign t =>
      have hne : gid t ≠ "_" := fun e' => hctx.nob (e' ▸ htgt.1)
      have hasg : stmtOKT c ret s (.assign (gid t) unitE) = .ok s :=
        stmt_assign_ok hl ret s (gid t) (t := .unit) rfl (TyIs.exact (by simp [unitE, tyOfT, goTy])) hne htt
      exact ⟨s, by simpa only [compileSimple] using hg, s, hasg, rfl⟩
  obtain ⟨hty, hstdt⟩ := typed_cexpr (c := c) hctl hgo hfrag hstd hsc hctx hl
  cases m with
  | assign t =>
    have hshape : compileSimple env (.assign t) e = [.assign (gid t) (compileCExpr env e)] := by
      cases e <;> simp [isCtl] at hctl <;> (try (simp [isGoC] at hgo; done)) <;> simp only [compileSimple]
      rename_i f args ty
      simp only [fragC] at hfrag
      simp [not_missing' hfrag]
    rw [hshape]
    have hne : gid t ≠ "_" := fun e' => hctx.nob (e' ▸ htgt.1)
    exact ⟨s, stmt_assign_ok hl ret s (gid t) hstdt hty hne htt, rfl⟩
  | effect =>
    have hcallE := (isNilLit_simple hstd hctl hfrag).2
    obtain ⟨te, hty, -⟩ := hty
    cases e <;> simp [isCtl] at hctl <;> (try (simp [isGoC] at hgo; done)) <;> (try (simp [stdC] at hstd; done)) <;>
      simp only [compileSimple, seqOK] <;>
      first
        | rfl
        | (refine ⟨s, ?_, rfl⟩
           simp only [stmtOKT, hcallE _ _ _ rfl, if_true, hty, R.bind])

mutual
theorem typedA {env : Env} {file : AFile} {G : List String} {c : TCtx} {D : Names} {ret : Option GTy} (hl : TLink env file G c) :
    ∀ (e : AExpr) (m : Mode) (st : St) (Γ : Ctx) (K : KCtx) (s : Scp), fragA env file G Γ K e = true → stdA env file K e = true →
      TScp env s Γ K → SCtx file G D (skeys s) Γ (calleesA (Γ.map (·.1)) e) → DeclOK D (skeys s) (compileA env m st e).1 → TgtSc m Γ (skeys s) →
      TgtTy m s (aTy e) →
      ∃ Dl, seqOK c ret s (compileA env m st e).1 (Dl ++ s) ∧ ∀ y, y ∈ skeys Dl → y ∈ topDecls (compileA env m st e).1
  | .ret c0, m, st, Γ, K, s, hfrag, hstd, hsc, hctx, hdecl, htgt, htt => by
    simp only [compileA, fragA, calleesA, stdA, aTy] at *
    exact typedC hl c0 m st Γ K s hfrag hstd hsc hctx hdecl htgt htt
  | .letE x v body ty, m, st, Γ, K, s, hfrag, hstd, hsc, hctx, hdecl, htgt, htt => by
    simp only [fragA, Bool.and_eq_true] at hfrag
    simp only [stdA, Bool.and_eq_true] at hstd
    obtain ⟨hfv, hfb⟩ := hfrag
    obtain ⟨⟨hsv, hsvt⟩, hsb⟩ := hstd
    simp only [aTy] at htt
    rw [compileA_let] at hdecl ⊢
    have hctxv : SCtx file G D (skeys s) Γ (calleesC (Γ.map (·.1)) v) := hctx.mono_cs (fun f hf => by simp [calleesA, hf])
    have hctxb : SCtx file G D (skeys s) Γ (calleesA (x :: Γ.map (·.1)) body) := hctx.mono_cs (fun f hf => by simp [calleesA, hf])
    obtain ⟨hdP, hdR⟩ := hdecl.append
    have hT : cexprTy env v = goTy v.annTy := by simp [cexprTy, cexprTastTy_frag hfv]
    by_cases hctl : isCtl v = true
    · simp only [letPrefix, letBodySt, hctl, if_true, hT] at hdP hdR ⊢
      generalize hd : compileTail env (.assign (rn x)) (st.check (okTy (cexprTastTy env v))) v = d at *
      obtain ⟨hxin, hdecl1'⟩ := hdP.varDecl
      rw [scopeAfter_varDecl] at hdR
      -- `var x T`
      have h1 := stmt_varDecl_none_ok c ret s (vn x) hsvt
      -- the statements that assign it
      have hfreshx : ∀ y ty, lookupTy Γ y = some ty → vn y ≠ vn x := fun y ty hy e => hxin.1 (e ▸ hctxv.vars y ty hy)
      have hnew1 : ∀ y, y ∈ [vn x] → y ∈ D ∧ y ≠ "_" := fun y hy => by
        simp only [List.mem_singleton] at hy; subst hy; exact hxin.2
      have hfresh1 : ∀ y, y ∈ skeys [(vn x, goTy v.annTy)] → ¬ y ∈ skeys s := fun y hy => by
        simp only [skeys, List.map_cons, List.map_nil, List.mem_singleton] at hy; subst hy; exact hxin.1
      have hsc1 : TScp env ((vn x, goTy v.annTy) :: s) Γ K := TScp.extend (Dl := [(vn x, goTy v.annTy)]) hsc hctxv hfresh1
      have hctx1 : SCtx file G D (skeys ((vn x, goTy v.annTy) :: s)) Γ (calleesC (Γ.map (·.1)) v) := hctxv.extend hnew1
      have hdecl1 : DeclOK D (skeys ((vn x, goTy v.annTy) :: s)) d.1 := hdecl1'
      have htgt1 : TgtSc (.assign (rn x)) Γ (skeys ((vn x, goTy v.annTy) :: s)) := by
        refine ⟨by rw [← vn_def]; simp [skeys], fun y ty hy => ?_⟩
        rw [← vn_def]; exact fun e => hxin.1 (e ▸ hctxv.vars y ty hy)
      have htt1 : TgtTy (.assign (rn x)) ((vn x, goTy v.annTy) :: s) v.annTy := by
        show lookupS _ (gid (rn x)) = _
        rw [← vn_def]; exact lookupS_cons_self _ _ _
      obtain ⟨Dl1, hseq1, hk1⟩ := typedC (ret := ret) hl v (.assign (rn x)) (st.check (okTy (cexprTastTy env v))) Γ K _ hfv hsv hsc1 hctx1
        (hd ▸ hdecl1) htgt1 htt1
      rw [hd] at hseq1 hk1
      -- the body
      have hk1D : ∀ y, y ∈ skeys Dl1 → y ∈ D ∧ y ≠ "_" := fun y hy => (hdecl1.top y (hk1 y hy)).2
      have hk1fresh : ∀ y, y ∈ skeys Dl1 → ¬ y ∈ skeys ((vn x, goTy v.annTy) :: s) := fun y hy => (hdecl1.top y (hk1 y hy)).1
      have hxDl1 : ¬ vn x ∈ skeys Dl1 := fun h => hk1fresh _ h (by simp [skeys])
      let s2 : Scp := Dl1 ++ (vn x, goTy v.annTy) :: s
      have hlx : lookupS s2 (vn x) = some (goTy v.annTy) := by
        simp only [s2]; rw [lookupS_append_right hxDl1]; exact lookupS_cons_self _ _ _
      have hsc2 : TScp env s2 ((x, v.annTy) :: Γ) (eraseK K x) := (TScp.extend hsc1 hctx1 hk1fresh).letvar hlx hfreshx
      have hks2 : skeys s2 = skeys Dl1 ++ (vn x :: skeys s) := by simp [s2, skeys]
      have hctx2 : SCtx file G D (skeys s2) ((x, v.annTy) :: Γ) (calleesA (x :: Γ.map (·.1)) body) := by
        rw [hks2]
        have hb1 : SCtx file G D (skeys ((vn x, goTy v.annTy) :: s)) Γ (calleesA (x :: Γ.map (·.1)) body) := hctxb.extend hnew1
        exact (hb1.extend hk1D).letvar (List.mem_append_right _ List.mem_cons_self) _
      have hdecl2 : DeclOK D (skeys s2) (compileA env m d.2 body).1 := by
        refine sokB_anti _ (fun y h => ?_) hdR
        rw [hks2] at h
        rw [scopeAfter_mem]
        rcases List.mem_append.mp h with h | h
        · exact Or.inr (hk1 _ h)
        · exact Or.inl h
      have hxt : ∀ t', m = .assign t' → vn x ≠ gid t' := fun t' ht' e => by
        subst ht'; exact hxin.1 (e ▸ htgt.1)
      have htgt2 : TgtSc m ((x, v.annTy) :: Γ) (skeys s2) := by
        rw [hks2]
        exact ((htgt.extend [vn x]).extend (skeys Dl1)).letvar _ hxt
      have htt2 : TgtTy m s2 (aTy body) := by
        have h0 : TgtTy m ((vn x, goTy v.annTy) :: s) (aTy body) := TgtTy.extend (Dl := [(vn x, goTy v.annTy)]) htt htgt hfresh1
        exact TgtTy.extend h0 (htgt.extend [vn x]) hk1fresh
      obtain ⟨Dl2, hseq2, hk2⟩ := typedA (ret := ret) hl body m d.2 _ _ s2 hfb hsb hsc2 hctx2 hdecl2 htgt2 htt2
      refine ⟨Dl2 ++ Dl1 ++ [(vn x, goTy v.annTy)], ?_, fun y hy => ?_⟩
      · have hall : seqOK c ret s (GStmt.varDecl (vn x) (goTy v.annTy) none :: d.1) s2 := ⟨_, h1, hseq1⟩
        have := seqOK_append hall hseq2
        simpa [s2, List.append_assoc] using this
      · rw [topDecls_append]
        simp only [skeys, List.map_append, List.mem_append, List.map_cons, List.map_nil, List.mem_singleton] at hy
        rcases hy with (hy | hy) | hy
        · exact List.mem_append_right _ (hk2 y hy)
        · exact List.mem_append_left _ (by simp only [topDecls]; exact List.mem_cons_of_mem _ (hk1 y hy))
        · subst hy; exact List.mem_append_left _ (by simp only [topDecls]; exact List.mem_cons_self)
    · have hctl' : isCtl v = false := by simpa using hctl
      by_cases hgoc : isGoC v = false
      rotate_left
      · -- `go f(env); var x struct{} = struct{}{}`
        cases v <;> simp [isGoC] at hgoc
        rename_i a ty'
        simp only [stdC] at hsv
        obtain ⟨hg, hty'⟩ := typed_go (ret := ret) hfv hsv hsc hctxv hl
        subst hty'
        obtain ⟨X, hX⟩ := compileGo_isGo env a
        simp only [letPrefix, letBodySt, isCtl, Bool.false_eq_true, if_false, compileBindSimple, CExpr.annTy] at hdP hdR hfb hsvt ⊢
        have hds : Goml.Dce.declScope (compileGo env a) (skeys s) = skeys s := by rw [hX]; rfl
        have hsa : scopeAfter [compileGo env a, GStmt.varDecl (vn x) GTy.unit (some unitE)] (skeys s) = vn x :: skeys s := by
          simp only [scopeAfter, hds]; rfl
        rw [hsa] at hdR
        have hdP' : DeclOK D (skeys s) [GStmt.varDecl (vn x) GTy.unit (some unitE)] := by
          have := hdP; simp only [DeclOK, sokB, hds, Bool.and_eq_true] at this ⊢; exact ⟨this.2.1, trivial⟩
        obtain ⟨hxin, -⟩ := hdP'.varDecl
        have h1 : stmtOKT c ret s (.varDecl (vn x) .unit (some unitE)) = .ok ((vn x, .unit) :: s) :=
          stmt_varDecl_some_ok hl ret s (vn x) (t := .unit) rfl (TyIs.exact (by simp [unitE, tyOfT, goTy])) rfl
        have hfreshx : ∀ y ty, lookupTy Γ y = some ty → vn y ≠ vn x := fun y ty hy e => hxin.1 (e ▸ hctxv.vars y ty hy)
        have hnew1 : ∀ y, y ∈ [vn x] → y ∈ D ∧ y ≠ "_" := fun y hy => by
          simp only [List.mem_singleton] at hy; subst hy; exact hxin.2
        have hfresh1 : ∀ y, y ∈ skeys [(vn x, GTy.unit)] → ¬ y ∈ skeys s := fun y hy => by
          simp only [skeys, List.map_cons, List.map_nil, List.mem_singleton] at hy; subst hy; exact hxin.1
        let s2 : Scp := (vn x, GTy.unit) :: s
        have hsc2 : TScp env s2 ((x, .unit) :: Γ) (eraseK K x) :=
          (TScp.extend (Dl := [(vn x, GTy.unit)]) hsc hctxv hfresh1).letvar (t := .unit) (lookupS_cons_self _ _ _) hfreshx
        have hctx2 : SCtx file G D (skeys s2) ((x, .unit) :: Γ) (calleesA (x :: Γ.map (·.1)) body) :=
          (hctxb.extend hnew1).letvar (by simp [s2, skeys]) _
        have hxt : ∀ t', m = .assign t' → vn x ≠ gid t' := fun t' ht' e => by
          subst ht'; exact hxin.1 (e ▸ htgt.1)
        have htgt2 : TgtSc m ((x, .unit) :: Γ) (skeys s2) := (htgt.extend [vn x]).letvar _ hxt
        have htt2 : TgtTy m s2 (aTy body) := TgtTy.extend (Dl := [(vn x, GTy.unit)]) htt htgt hfresh1
        obtain ⟨Dl2, hseq2, hk2⟩ := typedA (ret := ret) hl body m _ _ _ s2 hfb hsb hsc2 hctx2 hdR htgt2 htt2
        refine ⟨Dl2 ++ [(vn x, GTy.unit)], ?_, fun y hy => ?_⟩
        · have hall : seqOK c ret s [compileGo env a, GStmt.varDecl (vn x) GTy.unit (some unitE)] s2 := ⟨_, hg, _, h1, rfl⟩
          have := seqOK_append hall hseq2
          simpa [s2, List.append_assoc] using this
        · rw [topDecls_append]
          simp only [skeys, List.map_append, List.mem_append, List.map_cons, List.map_nil, List.mem_singleton] at hy
          rcases hy with hy | hy
          · exact List.mem_append_right _ (hk2 y hy)
          · subst hy; exact List.mem_append_left _ (by rw [hX]; simp [topDecls])
      simp only [letPrefix, letBodySt, hctl', Bool.false_eq_true, if_false, bindSimple_shape x hfv hgoc] at hdP hdR ⊢
      obtain ⟨hxin, -⟩ := hdP.varDecl
      rw [scopeAfter_varDecl] at hdR
      obtain ⟨hty, _⟩ := typed_cexpr (c := c) hctl' hgoc hfv hsv hsc hctxv hl
      have h1 := stmt_varDecl_some_ok hl ret s (vn x) hsvt hty (isNilLit_simple hsv hctl' hfv).1
      have hfreshx : ∀ y ty, lookupTy Γ y = some ty → vn y ≠ vn x := fun y ty hy e => hxin.1 (e ▸ hctxv.vars y ty hy)
      have hnew1 : ∀ y, y ∈ [vn x] → y ∈ D ∧ y ≠ "_" := fun y hy => by
        simp only [List.mem_singleton] at hy; subst hy; exact hxin.2
      have hfresh1 : ∀ y, y ∈ skeys [(vn x, goTy v.annTy)] → ¬ y ∈ skeys s := fun y hy => by
        simp only [skeys, List.map_cons, List.map_nil, List.mem_singleton] at hy; subst hy; exact hxin.1
      let s2 : Scp := (vn x, goTy v.annTy) :: s
      have hsc2 : TScp env s2 ((x, v.annTy) :: Γ) (eraseK K x) :=
        (TScp.extend (Dl := [(vn x, goTy v.annTy)]) hsc hctxv hfresh1).letvar (lookupS_cons_self _ _ _) hfreshx
      have hctx2 : SCtx file G D (skeys s2) ((x, v.annTy) :: Γ) (calleesA (x :: Γ.map (·.1)) body) :=
        (hctxb.extend hnew1).letvar (by simp [s2, skeys]) _
      have hdecl2 : DeclOK D (skeys s2) (compileA env m (st.check (okBindSimple env v)) body).1 := hdR
      have hxt : ∀ t', m = .assign t' → vn x ≠ gid t' := fun t' ht' e => by
        subst ht'; exact hxin.1 (e ▸ htgt.1)
      have htgt2 : TgtSc m ((x, v.annTy) :: Γ) (skeys s2) := (htgt.extend [vn x]).letvar _ hxt
      have htt2 : TgtTy m s2 (aTy body) := TgtTy.extend (Dl := [(vn x, goTy v.annTy)]) htt htgt hfresh1
      obtain ⟨Dl2, hseq2, hk2⟩ := typedA (ret := ret) hl body m _ _ _ s2 hfb hsb hsc2 hctx2 hdecl2 htgt2 htt2
      refine ⟨Dl2 ++ [(vn x, goTy v.annTy)], ?_, fun y hy => ?_⟩
      · have hall : seqOK c ret s [GStmt.varDecl (vn x) (goTy v.annTy) (some (compileCExpr env v))] s2 := ⟨_, h1, rfl⟩
        have := seqOK_append hall hseq2
        simpa [s2, List.append_assoc] using this
      · rw [topDecls_append]
        simp only [skeys, List.map_append, List.mem_append, List.map_cons, List.map_nil, List.mem_singleton] at hy
        rcases hy with hy | hy
        · exact List.mem_append_right _ (hk2 y hy)
        · subst hy; exact List.mem_append_left _ (by simp [topDecls])
theorem typedC {env : Env} {file : AFile} {G : List String} {c : TCtx} {D : Names} {ret : Option GTy} (hl : TLink env file G c) :
    ∀ (e : CExpr) (m : Mode) (st : St) (Γ : Ctx) (K : KCtx) (s : Scp), fragC env file G Γ K e = true → stdC env file K e = true →
      TScp env s Γ K → SCtx file G D (skeys s) Γ (calleesC (Γ.map (·.1)) e) → DeclOK D (skeys s) (compileTail env m st e).1 → TgtSc m Γ (skeys s) →
      TgtTy m s e.annTy →
      ∃ Dl, seqOK c ret s (compileTail env m st e).1 (Dl ++ s) ∧ ∀ y, y ∈ skeys Dl → y ∈ topDecls (compileTail env m st e).1
  | .ite c0 t e ty, m, st, Γ, K, s, hfrag, hstd, hsc, hctx, hdecl, htgt, htt => by
    simp only [fragC, Bool.and_eq_true] at hfrag
    simp only [stdC, Bool.and_eq_true] at hstd
    obtain ⟨⟨⟨⟨⟨hc, hcb⟩, hft⟩, hfe⟩, htyt⟩, htye⟩ := hfrag
    obtain ⟨⟨⟨hsc0, hst⟩, hse⟩, _⟩ := hstd
    simp only [compileTail] at hdecl ⊢
    simp only [CExpr.annTy] at htt
    have hcty := typed_imm (c := c) hc hsc0 hsc hctx hl (not_enum_of_scalarEq hcb (by intro n h; cases h))
    rw [scalarEq_eq hcb] at hcty
    have hdI : DeclOK D (skeys s) (compileA env m (st.check (okImm env c0)) t).1 ∧
        DeclOK D (skeys s) (compileA env m (compileA env m (st.check (okImm env c0)) t).2 e).1 := by
      simpa only [DeclOK, sokB, sokStmtB, Bool.and_eq_true, Bool.and_true] using hdecl
    obtain ⟨Dt, hseqt, _⟩ := typedA (ret := ret) hl t m (st.check (okImm env c0)) Γ K s hft hst hsc
      (hctx.mono_cs (fun f hf => by simp [calleesC, hf]))
      hdI.1 htgt (by rw [scalarEq_eq htyt]; exact htt)
    obtain ⟨De, hseqe, _⟩ := typedA (ret := ret) hl e m (compileA env m (st.check (okImm env c0)) t).2 Γ K s hfe hse hsc
      (hctx.mono_cs (fun f hf => by simp [calleesC, hf]))
      hdI.2 htgt (by rw [scalarEq_eq htye]; exact htt)
    refine ⟨[], ⟨s, ?_, rfl⟩, fun y hy => by simp [skeys] at hy⟩
    simp only [stmtOKT, hcty, R.bind, goTy, tyEqT, normT, tyBeqG, R.guard, if_true, block_of_seq hseqt, block_of_seq hseqe, R.both]
  | .while c0 b ty, m, st, Γ, K, s, hfrag, hstd, hsc, hctx, hdecl, htgt, htt => by
    simp only [fragC, Bool.and_eq_true] at hfrag
    simp only [stdC, Bool.and_eq_true] at hstd
    obtain ⟨⟨⟨⟨hfc, hcb⟩, hfb⟩, hbu⟩, htu⟩ := hfrag
    obtain ⟨⟨hsc0, hsb⟩, _⟩ := hstd
    have htu' := scalarEq_eq htu
    simp only [CExpr.annTy] at htt
    rw [tail_while_shape] at hdecl ⊢
    generalize hcv : "cond" ++ toString st.n = cv at hdecl ⊢
    generalize hst' : st.next.check (isBoolTy c0.annTy) = st' at hdecl ⊢
    simp only [loopBody] at hdecl ⊢
    generalize hA : compileA env (.assign cv) st' c0 = rA at *
    generalize hB : compileA env .effect rA.2 b = rB at *
    have hdeclS := tail_while_top (gid cv) (rA.1 ++ [GStmt.ite (.un .not .bool (.var (gid cv) .bool)) [.brk] none] ++ rB.1) m
    obtain ⟨hdW, -⟩ := hdecl.append
    obtain ⟨hcvin, hdL⟩ := hdW.varDecl
    have hdL' : DeclOK D (gid cv :: skeys s) (rA.1 ++ ([GStmt.ite (.un .not .bool (.var (gid cv) .bool)) [.brk] none] ++ rB.1)) := by
      simpa only [DeclOK, sokB, sokStmtB, Bool.and_true, List.append_assoc] using hdL
    obtain ⟨hdeclA', hdL2⟩ := hdL'.append
    obtain ⟨-, hdeclB'⟩ := hdL2.append
    have hsaI : ∀ K', scopeAfter [GStmt.ite (.un .not .bool (.var (gid cv) .bool)) [.brk] none] K' = K' := fun _ => rfl
    rw [hsaI] at hdeclB'
    -- `var cond bool`
    have hb : stdTy .bool = true := rfl
    have h1 : stmtOKT c ret s (.varDecl (gid cv) .bool none) = .ok ((gid cv, .bool) :: s) := by
      have := stmt_varDecl_none_ok c ret s (gid cv) hb; simpa [goTy] using this
    let s1 : Scp := (gid cv, GTy.bool) :: s
    have hnew1 : ∀ y, y ∈ [gid cv] → y ∈ D ∧ y ≠ "_" := fun y hy => by
      simp only [List.mem_singleton] at hy; subst hy; exact hcvin.2
    have hfresh1 : ∀ y, y ∈ skeys [(gid cv, GTy.bool)] → ¬ y ∈ skeys s := fun y hy => by
      simp only [skeys, List.map_cons, List.map_nil, List.mem_singleton] at hy; subst hy; exact hcvin.1
    have hctxc : SCtx file G D (skeys s) Γ (calleesA (Γ.map (·.1)) c0) := hctx.mono_cs (fun f hf => by simp [calleesC, hf])
    have hctxb : SCtx file G D (skeys s) Γ (calleesA (Γ.map (·.1)) b) := hctx.mono_cs (fun f hf => by simp [calleesC, hf])
    have hsc1 : TScp env s1 Γ K := TScp.extend (Dl := [(gid cv, GTy.bool)]) hsc hctxc hfresh1
    have hdeclA : DeclOK D (skeys s1) rA.1 := hdeclA'
    have htgtA : TgtSc (.assign cv) Γ (skeys s1) :=
      ⟨by simp [s1, skeys], fun y ty hy e => hcvin.1 (e ▸ hctx.vars y ty hy)⟩
    have httA : TgtTy (.assign cv) s1 (aTy c0) := by
      show lookupS s1 (gid cv) = _
      rw [scalarEq_eq hcb]; exact lookupS_cons_self _ _ _
    obtain ⟨DA, hseqA, hkA⟩ := typedA (ret := ret) hl c0 (.assign cv) st' Γ K s1 hfc hsc0 hsc1 (hctxc.extend hnew1) (hA ▸ hdeclA) htgtA httA
    rw [hA] at hseqA hkA
    -- `if !cond { break }` and the body, in the scope after the condition
    have hkAD : ∀ y, y ∈ skeys DA → y ∈ D ∧ y ≠ "_" := fun y hy => (hdeclA.top y (hkA y hy)).2
    have hkAfresh : ∀ y, y ∈ skeys DA → ¬ y ∈ skeys s1 := fun y hy => (hdeclA.top y (hkA y hy)).1
    let s2 : Scp := DA ++ s1
    have hcvDA : ¬ gid cv ∈ skeys DA := fun h => hkAfresh _ h (by simp [s1, skeys])
    have hlcv : lookupS s2 (gid cv) = some .bool := by
      simp only [s2]; rw [lookupS_append_right hcvDA]; exact lookupS_cons_self _ _ _
    have hite : stmtOKT c ret s2 (.ite (.un .not .bool (.var (gid cv) .bool)) [.brk] none) = .ok s2 := by
      simp only [stmtOKT, tyOfT, hlcv, R.bind, tyEqT, normT, tyBeqG, R.guard, if_true, blockOKT, R.both]
    have hks2 : skeys s2 = skeys DA ++ (gid cv :: skeys s) := by simp [s2, s1, skeys]
    have hsc2 : TScp env s2 Γ K := TScp.extend hsc1 (hctxc.extend hnew1) hkAfresh
    have hctx2 : SCtx file G D (skeys s2) Γ (calleesA (Γ.map (·.1)) b) := by
      rw [hks2]; exact (hctxb.extend hnew1).extend hkAD
    have hdeclB : DeclOK D (skeys s2) rB.1 := by
      refine sokB_anti _ (fun y h => ?_) hdeclB'
      rw [hks2] at h
      rw [scopeAfter_mem]
      rcases List.mem_append.mp h with h | h
      · exact Or.inr (hkA _ h)
      · exact Or.inl h
    obtain ⟨DB, hseqB, _⟩ := typedA (ret := ret) hl b .effect rA.2 Γ K s2 hfb hsb hsc2 hctx2 (hB ▸ hdeclB) trivial trivial
    rw [hB] at hseqB
    have hbody : blockOKT c ret s1 (rA.1 ++ [GStmt.ite (.un .not .bool (.var (gid cv) .bool)) [.brk] none] ++ rB.1) = .ok () := by
      rw [List.append_assoc, block_of_seq_then hseqA]
      show blockOKT c ret s2 (GStmt.ite (.un .not .bool (.var (gid cv) .bool)) [.brk] none :: rB.1) = _
      simp only [blockOKT, hite]
      exact block_of_seq hseqB
    have hloop : stmtOKT c ret s1 (.loop (rA.1 ++ [GStmt.ite (.un .not .bool (.var (gid cv) .bool)) [.brk] none] ++ rB.1)) = .ok s1 := by
      simp only [stmtOKT, hbody, R.bind]
    cases m with
    | effect =>
      refine ⟨[(gid cv, .bool)], ⟨s1, h1, s1, hloop, rfl⟩, fun y hy => ?_⟩
      simp only [skeys, List.map_cons, List.map_nil, List.mem_singleton] at hy; subst hy
      rw [hdeclS]; exact List.mem_cons_self
    | assign t =>
      have hne : gid t ≠ "_" := fun e' => hctx.nob (e' ▸ htgt.1)
      have hlt : lookupS s1 (gid t) = some (goTy .unit) := by
        have : gid cv ≠ gid t := fun e => hcvin.1 (e ▸ htgt.1)
        simp only [s1]; rw [lookupS_cons_ne _ _ this]
        have := htt; rw [htu'] at this; exact this
      have hasg : stmtOKT c ret s1 (.assign (gid t) unitE) = .ok s1 :=
        stmt_assign_ok hl ret s1 (gid t) (t := .unit) rfl (TyIs.exact (by simp [unitE, tyOfT, goTy])) hne hlt
      refine ⟨[(gid cv, .bool)], ⟨s1, h1, s1, hloop, s1, hasg, rfl⟩, fun y hy => ?_⟩
      simp only [skeys, List.map_cons, List.map_nil, List.mem_singleton] at hy; subst hy
      rw [hdeclS]; exact List.mem_cons_self
  | .imm i, m, st, Γ, K, s, hfrag, hstd, hsc, hctx, hdecl, htgt, htt => by
    rw [compileTail_simple env m st (by rfl)]
    exact ⟨[], typedC_simple hl m _ Γ K s rfl hfrag hstd hsc hctx htgt htt, fun y hy => by simp [skeys] at hy⟩
  | .un op e ty, m, st, Γ, K, s, hfrag, hstd, hsc, hctx, hdecl, htgt, htt => by
    rw [compileTail_simple env m st (by rfl)]
    exact ⟨[], typedC_simple hl m _ Γ K s rfl hfrag hstd hsc hctx htgt htt, fun y hy => by simp [skeys] at hy⟩
  | .bin op l r ty, m, st, Γ, K, s, hfrag, hstd, hsc, hctx, hdecl, htgt, htt => by
    rw [compileTail_simple env m st (by rfl)]
    exact ⟨[], typedC_simple hl m _ Γ K s rfl hfrag hstd hsc hctx htgt htt, fun y hy => by simp [skeys] at hy⟩
  | .call f args ty, m, st, Γ, K, s, hfrag, hstd, hsc, hctx, hdecl, htgt, htt => by
    rw [compileTail_simple env m st (by rfl)]
    exact ⟨[], typedC_simple hl m _ Γ K s rfl hfrag hstd hsc hctx htgt htt, fun y hy => by simp [skeys] at hy⟩
  | .matchE sc arms d ty, m, st, Γ, K, s, hfrag, hstd, hsc, hctx, hdecl, htgt, htt => by
    simp only [fragC, Bool.and_eq_true] at hfrag
    obtain ⟨⟨hs, _⟩, hcase⟩ := hfrag
    simp only [stdC, Bool.and_eq_true] at hstd
    obtain ⟨⟨hsS, htyS⟩, hstdcase⟩ := hstd
    simp only [CExpr.annTy] at htt
    have hctxA : SCtx file G D (skeys s) Γ (calleesArms (Γ.map (·.1)) arms) := hctx.mono_cs (fun f hf => by simp [calleesC, hf])
    have hctxD : SCtx file G D (skeys s) Γ (calleesD (Γ.map (·.1)) d) := hctx.mono_cs (fun f hf => by simp [calleesC, hf])
    cases hsty : sc.ty with
    | enum en =>
      rw [hsty] at hcase hstdcase; simp only at hcase hstdcase
      cases sc with
      | prim p t => simp at hcase
      | tag idx t => simp at hcase
      | var x xty =>
        simp only [Imm.ty] at hsty; subst hsty
        simp only [Bool.and_eq_true, beq_iff_eq] at hcase hstdcase
        obtain ⟨⟨⟨hvn, hgood⟩, hfa⟩, hfd⟩ := hcase
        obtain ⟨⟨hkn, hsa⟩, hsd⟩ := hstdcase
        have hkn' : lookupK K x = none := by
          cases hk : lookupK K x with
          | none => rfl
          | some v => rw [hk] at hkn; simp at hkn
        simp only [immOK] at hs
        cases hlt : lookupTy Γ x with
        | none => rw [hlt] at hs; simp [fnValOK] at hs
        | some t =>
          rw [hlt] at hs; simp only at hs
          have ht := scalarEq_eq hs; subst ht
          have hxsc : vn x ∈ skeys s := hctx.vars x _ hlt
          have hshape : (compileTail env m st (.matchE (.var x (.enum en)) arms d ty)).1 =
              [.tswitch (some (rn x)) (.var (vn x) (goTy (.enum en)))
                (typeCases env (compileArms env m (st.check (okImm env (.var x (.enum en)))) arms).1)
                (compileDflt env m (compileArms env m (st.check (okImm env (.var x (.enum en)))) arms).2 d).1] := by
            simp only [compileTail, Imm.ty, matchKind, compileImm]
          rw [hshape] at hdecl ⊢
          generalize hst1 : st.check (okImm env (.var x (.enum en))) = st1 at hdecl ⊢
          rw [← hvn] at hdecl ⊢
          have hdn : DeclOKA D (skeys s) (compileArms env m st1 arms).1 (compileDflt env m (compileArms env m st1 arms).2 d).1 :=
            declOKA_of_tswitch hdecl
          have hen : en ∈ goodEnums env := by simpa using hgood
          obtain ⟨de, hde, _⟩ := good_enum hl.closed hen
          obtain ⟨ms, hif, _⟩ := hl.enums en de hen hde
          have hlook := hsc.plain x _ hlt hkn'
          have hA := typedArmsE (ret := ret) hl arms m st1 Γ K s x en ty hfa hsa hsc hlt hctxA hdn.1 htgt htt
          have hDf := typedD (ret := ret) hl d m (compileArms env m st1 arms).2 Γ K s ty hfd hsd hsc hctxD hdn.2 htgt htt
          refine ⟨[], ⟨s, ?_, rfl⟩, fun y hy => by simp [skeys] at hy⟩
          cases hd : (compileDflt env m (compileArms env m st1 arms).2 d).1 with
          | none => simp only [stmtOKT, tyOfT, hlook, goTy, hif, Option.isSome_some, R.guard, if_true, hA, R.both, R.bind]
          | some b => simp only [stmtOKT, tyOfT, hlook, goTy, hif, Option.isSome_some, R.guard, if_true, hA, hDf b hd, R.both, R.bind]
    | unit =>
      rw [hsty] at hcase hstdcase; simp only at hcase hstdcase
      have hshape : compileTail env m st (.matchE sc arms d ty) = unitStmts env m st arms d := by
        simp only [compileTail, hsty, matchKind, unitStmts]
      rw [hshape] at hdecl ⊢
      by_cases he : arms.isEmpty = true
      · simp only [he, if_true, Bool.and_eq_true] at hcase hstdcase
        simp only [unitStmts, he, if_true] at hdecl ⊢
        exact typedDU hl d m st Γ K s ty hcase.2 hstdcase hsc hctxD hdecl htgt htt
      · simp only [he, if_false] at hcase hstdcase
        simp only [unitStmts, he, if_false] at hdecl ⊢
        exact typedFirst hl arms m st Γ K s ty hcase hstdcase hsc hctxA hdecl htgt htt
    | bool =>
      rw [hsty] at hcase hstdcase; simp only [Bool.and_eq_true] at hcase hstdcase
      obtain ⟨⟨_, hfa⟩, hfd⟩ := hcase
      have hshape : (compileTail env m st (.matchE sc arms d ty)).1 =
          [.switch (compileImm env sc) (valueCases (matchKind (.bool)) (compileArms env m (st.check (okImm env sc)) arms).1)
            (compileDflt env m (compileArms env m (st.check (okImm env sc)) arms).2 d).1] := by
        simp only [compileTail, hsty, matchKind]
      rw [hshape] at hdecl ⊢
      generalize hst1 : st.check (okImm env sc) = st1 at hdecl ⊢
      have hdn : DeclOKA D (skeys s) (compileArms env m st1 arms).1 (compileDflt env m (compileArms env m st1 arms).2 d).1 :=
        declOKA_of_switch hdecl
      have hscty := typed_imm (c := c) hs hsS hsc hctx hl (by rw [hsty]; intro n h; cases h)
      have hsstd : stdTy (.bool) = true := by
        have : stdTy sc.ty = true := by cases sc <;> simp [stdImm] at hsS <;> simp [Imm.ty, hsS]
        rw [hsty] at this; exact this
      have hA := typedArmsV (ret := ret) hl arms m st1 Γ K s (.bool) ty hfa hstdcase.1 hsc hctxA hdn.1 htgt htt rfl hsstd
      have hDf := typedD (ret := ret) hl d m (compileArms env m st1 arms).2 Γ K s ty hfd hstdcase.2 hsc hctxD hdn.2 htgt htt
      refine ⟨[], ⟨s, ?_, rfl⟩, fun y hy => by simp [skeys] at hy⟩
      rw [hsty] at hscty
      cases hd : (compileDflt env m (compileArms env m st1 arms).2 d).1 with
      | none => simp only [stmtOKT, hscty, hA, R.both, R.bind]
      | some b => simp only [stmtOKT, hscty, hA, hDf b hd, R.both, R.bind]
    | int bits sg =>
      rw [hsty] at hcase hstdcase; simp only [Bool.and_eq_true] at hcase hstdcase
      obtain ⟨⟨_, hfa⟩, hfd⟩ := hcase
      have hshape : (compileTail env m st (.matchE sc arms d ty)).1 =
          [.switch (compileImm env sc) (valueCases (matchKind (.int bits sg)) (compileArms env m (st.check (okImm env sc)) arms).1)
            (compileDflt env m (compileArms env m (st.check (okImm env sc)) arms).2 d).1] := by
        simp only [compileTail, hsty, matchKind]
      rw [hshape] at hdecl ⊢
      generalize hst1 : st.check (okImm env sc) = st1 at hdecl ⊢
      have hdn : DeclOKA D (skeys s) (compileArms env m st1 arms).1 (compileDflt env m (compileArms env m st1 arms).2 d).1 :=
        declOKA_of_switch hdecl
      have hscty := typed_imm (c := c) hs hsS hsc hctx hl (by rw [hsty]; intro n h; cases h)
      have hsstd : stdTy (.int bits sg) = true := by
        have : stdTy sc.ty = true := by cases sc <;> simp [stdImm] at hsS <;> simp [Imm.ty, hsS]
        rw [hsty] at this; exact this
      have hA := typedArmsV (ret := ret) hl arms m st1 Γ K s (.int bits sg) ty hfa hstdcase.1 hsc hctxA hdn.1 htgt htt rfl hsstd
      have hDf := typedD (ret := ret) hl d m (compileArms env m st1 arms).2 Γ K s ty hfd hstdcase.2 hsc hctxD hdn.2 htgt htt
      refine ⟨[], ⟨s, ?_, rfl⟩, fun y hy => by simp [skeys] at hy⟩
      rw [hsty] at hscty
      cases hd : (compileDflt env m (compileArms env m st1 arms).2 d).1 with
      | none => simp only [stmtOKT, hscty, hA, R.both, R.bind]
      | some b => simp only [stmtOKT, hscty, hA, hDf b hd, R.both, R.bind]
    | string =>
      rw [hsty] at hcase hstdcase; simp only [Bool.and_eq_true] at hcase hstdcase
      obtain ⟨⟨_, hfa⟩, hfd⟩ := hcase
      have hshape : (compileTail env m st (.matchE sc arms d ty)).1 =
          [.switch (compileImm env sc) (valueCases (matchKind (.string)) (compileArms env m (st.check (okImm env sc)) arms).1)
            (compileDflt env m (compileArms env m (st.check (okImm env sc)) arms).2 d).1] := by
        simp only [compileTail, hsty, matchKind]
      rw [hshape] at hdecl ⊢
      generalize hst1 : st.check (okImm env sc) = st1 at hdecl ⊢
      have hdn : DeclOKA D (skeys s) (compileArms env m st1 arms).1 (compileDflt env m (compileArms env m st1 arms).2 d).1 :=
        declOKA_of_switch hdecl
      have hscty := typed_imm (c := c) hs hsS hsc hctx hl (by rw [hsty]; intro n h; cases h)
      have hsstd : stdTy (.string) = true := by
        have : stdTy sc.ty = true := by cases sc <;> simp [stdImm] at hsS <;> simp [Imm.ty, hsS]
        rw [hsty] at this; exact this
      have hA := typedArmsV (ret := ret) hl arms m st1 Γ K s (.string) ty hfa hstdcase.1 hsc hctxA hdn.1 htgt htt rfl hsstd
      have hDf := typedD (ret := ret) hl d m (compileArms env m st1 arms).2 Γ K s ty hfd hstdcase.2 hsc hctxD hdn.2 htgt htt
      refine ⟨[], ⟨s, ?_, rfl⟩, fun y hy => by simp [skeys] at hy⟩
      rw [hsty] at hscty
      cases hd : (compileDflt env m (compileArms env m st1 arms).2 d).1 with
      | none => simp only [stmtOKT, hscty, hA, R.both, R.bind]
      | some b => simp only [stmtOKT, hscty, hA, hDf b hd, R.both, R.bind]
    | float b => rw [hsty] at hcase; simp [switchTy] at hcase
    | tuple ts => rw [hsty] at hcase; simp [switchTy] at hcase
    | struct sn => rw [hsty] at hcase; simp [switchTy] at hcase
    | dyn tr => rw [hsty] at hcase; simp [switchTy] at hcase
    | app t args => rw [hsty] at hcase; simp [switchTy] at hcase
    | array len e => rw [hsty] at hcase; simp [switchTy] at hcase
    | vec e => rw [hsty] at hcase; simp [switchTy] at hcase
    | ref e => rw [hsty] at hcase; simp [switchTy] at hcase
    | param p => rw [hsty] at hcase; simp [switchTy] at hcase
    | func ps r => rw [hsty] at hcase; simp [switchTy] at hcase
    | tvar k => rw [hsty] at hcase; simp [switchTy] at hcase
  | .constr ct args ty, m, st, Γ, K, s, hfrag, hstd, hsc, hctx, hdecl, htgt, htt => by
    rw [compileTail_simple env m st (by rfl)]
    exact ⟨[], typedC_simple hl m _ Γ K s rfl hfrag hstd hsc hctx htgt htt, fun y hy => by simp [skeys] at hy⟩
  | .tuple items ty, m, st, Γ, K, s, hfrag, hstd, hsc, hctx, hdecl, htgt, htt => by
    rw [compileTail_simple env m st (by rfl)]
    exact ⟨[], typedC_simple hl m _ Γ K s rfl hfrag hstd hsc hctx htgt htt, fun y hy => by simp [skeys] at hy⟩
  | .array items ty, m, st, Γ, K, s, hfrag, hstd, hsc, hctx, hdecl, htgt, htt => by
    rw [compileTail_simple env m st (by rfl)]
    exact ⟨[], typedC_simple hl m _ Γ K s rfl hfrag hstd hsc hctx htgt htt, fun y hy => by simp [skeys] at hy⟩
  | .cget a ct idx ty, m, st, Γ, K, s, hfrag, hstd, hsc, hctx, hdecl, htgt, htt => by
    rw [compileTail_simple env m st (by rfl)]
    exact ⟨[], typedC_simple hl m _ Γ K s rfl hfrag hstd hsc hctx htgt htt, fun y hy => by simp [skeys] at hy⟩
  | .toDyn _ _ _ _, m, st, Γ, K, s, _, hstd, _, _, _, _, _ => by simp [stdC] at hstd
  | .dynCall _ _ _ _ _, m, st, Γ, K, s, _, hstd, _, _, _, _, _ => by simp [stdC] at hstd
  | .go a ty, m, st, Γ, K, s, hfrag, hstd, hsc, hctx, hdecl, htgt, htt => by
    rw [compileTail_simple env m st (by rfl)]
    exact ⟨[], typedC_simple hl m _ Γ K s rfl hfrag hstd hsc hctx htgt htt, fun y hy => by simp [skeys] at hy⟩
  | .proj a idx ty, m, st, Γ, K, s, hfrag, hstd, hsc, hctx, hdecl, htgt, htt => by
    rw [compileTail_simple env m st (by rfl)]
    exact ⟨[], typedC_simple hl m _ Γ K s rfl hfrag hstd hsc hctx htgt htt, fun y hy => by simp [skeys] at hy⟩
/-- the clauses of a type switch on the enum variable `x`: in each, `x` is re-bound at the struct type of the variant -/
theorem typedArmsE {env : Env} {file : AFile} {G : List String} {c : TCtx} {D : Names} {ret : Option GTy} (hl : TLink env file G c) :
    ∀ (arms : List AArm) (m : Mode) (st : St) (Γ : Ctx) (K : KCtx) (s : Scp) (x en : String) (ty : Ty),
      fragArms env file G Γ K (.enumK x (.enum en)) ty arms = true → stdArms env file K (some x) arms = true →
      TScp env s Γ K → lookupTy Γ x = some (.enum en) → SCtx file G D (skeys s) Γ (calleesArms (Γ.map (·.1)) arms) →
      (∀ p, p ∈ (compileArms env m st arms).1 → DeclOK D (skeys s) p.2) → TgtSc m Γ (skeys s) → TgtTy m s ty →
      tcasesOKT c ret s (some (vn x)) (typeCases env (compileArms env m st arms).1) = .ok ()
  | [], m, st, Γ, K, s, x, en, ty, _, _, _, _, _, _, _, _ => by simp [compileArms, typeCases, tcasesOKT]
  | .mk lhs body :: rest, m, st, Γ, K, s, x, en, ty, hfrag, hstd, hsc, hlt, hctx, hdecl, htgt, htt => by
    rw [compileArms_cons] at hdecl ⊢
    simp only [fragArms, Bool.and_eq_true] at hfrag
    obtain ⟨⟨hhead, hbty⟩, hfr⟩ := hfrag
    simp only [stdArms, Bool.and_eq_true] at hstd
    obtain ⟨hsb, hsr⟩ := hstd
    have hctxb : SCtx file G D (skeys s) Γ (calleesA (Γ.map (·.1)) body) := hctx.mono_cs (fun f hf => by simp [calleesArms, hf])
    have hctxr : SCtx file G D (skeys s) Γ (calleesArms (Γ.map (·.1)) rest) := hctx.mono_cs (fun f hf => by simp [calleesArms, hf])
    have hrest := typedArmsE (ret := ret) hl rest m (compileA env m st body).2 Γ K s x en ty hfr hsr hsc hlt hctxr
      (fun p hp => hdecl p (List.mem_cons_of_mem _ hp)) htgt htt
    have hdb : DeclOK D (skeys s) (compileA env m st body).1 := hdecl _ List.mem_cons_self
    have hxsc : vn x ∈ skeys s := hctx.vars x _ hlt
    have hxne : vn x ≠ "_" := fun e => hctx.nob (e ▸ hxsc)
    cases lhs with
    | var y t => simp at hhead
    | prim p t => simp at hhead
    | tag idx tty =>
      simp only [Bool.and_eq_true] at hhead hsb
      obtain ⟨⟨htty, hvs⟩, hfb⟩ := hhead
      have htty' := scalarEq_eq htty; subst htty'
      cases hvo : variantOf env (.enum en) idx with
      | none => rw [hvo] at hvs; cases hvs
      | some v =>
        obtain ⟨n, vname, tys⟩ := v
        obtain ⟨hE, _, de, hde, hvar⟩ := variantOf_spec hvo
        injection hE with hE; subst hE
        have hct : caseType env (.tag idx (.enum en)) = some (.name (variantGoName env en vname)) := by
          simp [caseType, lookupVariantName, Goml.Mono.constrName, hde, hvar, variantGoName]
        let s' : Scp := (vn x, GTy.name (variantGoName env en vname)) :: s
        have hsc' : TScp env s' Γ ((x, idx) :: K) := hsc.narrow hlt hvo
        have hctx' : SCtx file G D (skeys s') Γ (calleesA (Γ.map (·.1)) body) := hctxb.dup hxsc
        have hdecl' : DeclOK D (skeys s') (compileA env m st body).1 :=
          sokB_anti _ (fun y hy => by rcases List.mem_cons.mp hy with rfl | hy; exact hxsc; exact hy) hdb
        have htgt' : TgtSc m Γ (skeys s') := htgt.extend [vn x]
        have htt' : TgtTy m s' (aTy body) := by
          rw [scalarEq_eq hbty]
          cases m with
          | effect => trivial
          | assign t =>
            show lookupS s' (gid t) = _
            simp only [s']; rw [lookupS_cons_ne _ _ (htgt.2 x _ hlt)]; exact htt
        obtain ⟨Dl, hseq, _⟩ := typedA (ret := ret) hl body m st Γ ((x, idx) :: K) s' hfb hsb hsc' hctx' hdecl' htgt' htt'
        have hxb : (vn x == "_") = false := by simpa using hxne
        have hblk : blockOKT c ret ((vn x, GTy.name (variantGoName env en vname)) :: s) (compileA env m st body).1 = .ok () :=
          block_of_seq hseq
        simp only [typeCases, hct, Option.getD_some, tcasesOKT, hxb, Bool.false_eq_true, if_false, hblk, hrest, R.both]
/-- the label of a value-switch clause is a literal of the scrutinee's type -/
theorem typedArmsV {env : Env} {file : AFile} {G : List String} {c : TCtx} {D : Names} {ret : Option GTy} (hl : TLink env file G c) :
    ∀ (arms : List AArm) (m : Mode) (st : St) (Γ : Ctx) (K : KCtx) (s : Scp) (sty ty : Ty),
      fragArms env file G Γ K (.valK sty) ty arms = true → stdArms env file K none arms = true →
      TScp env s Γ K → SCtx file G D (skeys s) Γ (calleesArms (Γ.map (·.1)) arms) →
      (∀ p, p ∈ (compileArms env m st arms).1 → DeclOK D (skeys s) p.2) → TgtSc m Γ (skeys s) → TgtTy m s ty →
      switchTy sty = true → stdTy sty = true →
      casesOKT c ret s (goTy sty) (valueCases (matchKind sty) (compileArms env m st arms).1) = .ok ()
  | [], m, st, Γ, K, s, sty, ty, _, _, _, _, _, _, _, _, _ => by simp [compileArms, valueCases, casesOKT]
  | .mk lhs body :: rest, m, st, Γ, K, s, sty, ty, hfrag, hstd, hsc, hctx, hdecl, htgt, htt, hsw, hsstd => by
    rw [compileArms_cons] at hdecl ⊢
    simp only [fragArms, Bool.and_eq_true] at hfrag
    obtain ⟨⟨hhead, hbty⟩, hfr⟩ := hfrag
    simp only [stdArms, Bool.and_eq_true] at hstd
    obtain ⟨hsb, hsr⟩ := hstd
    have hctxb : SCtx file G D (skeys s) Γ (calleesA (Γ.map (·.1)) body) := hctx.mono_cs (fun f hf => by simp [calleesArms, hf])
    have hctxr : SCtx file G D (skeys s) Γ (calleesArms (Γ.map (·.1)) rest) := hctx.mono_cs (fun f hf => by simp [calleesArms, hf])
    have hrest := typedArmsV (ret := ret) hl rest m (compileA env m st body).2 Γ K s sty ty hfr hsr hsc hctxr
      (fun p hp => hdecl p (List.mem_cons_of_mem _ hp)) htgt htt hsw hsstd
    have hdb : DeclOK D (skeys s) (compileA env m st body).1 := hdecl _ List.mem_cons_self
    cases lhs with
    | var y t => simp at hhead
    | tag idx t => simp at hhead
    | prim p pty =>
      simp only [Bool.and_eq_true] at hhead
      obtain ⟨⟨hp, hpt⟩, hfb⟩ := hhead
      have hpt' := scalarEq_eq hpt; subst hpt'
      have htt' : TgtTy m s (aTy body) := by rw [scalarEq_eq hbty]; exact htt
      obtain ⟨Dl, hseq, _⟩ := typedA (ret := ret) hl body m st Γ K s hfb hsb hsc hctxb hdb htgt htt'
      have hlbl : tyOfT c s ((caseLabel (matchKind pty) (.prim p pty)).getD unitE) = .ok (goTy pty) := by
        cases pty <;> simp [switchTy] at hsw <;> cases p <;> simp [okPrim] at hp
        · simp [matchKind, caseLabel, tyOfT, goTy]
        · rename_i b sg b' sg' v
          obtain ⟨⟨hb, hsg⟩, hw⟩ := hp
          subst hb; subst hsg
          have hfit := intFits_of_wrap (stdInt_width hsstd) hw
          simp [matchKind, caseLabel, tyOfT, goTy, toString_toInt, hfit]
        · simp [matchKind, caseLabel, tyOfT, goTy]
      simp only [valueCases, casesOKT, hlbl, R.bind, tyEqT_of_norm (rfl : normT (goTy pty) = _), R.guard, if_true,
        block_of_seq hseq, hrest, R.both]
theorem typedD {env : Env} {file : AFile} {G : List String} {c : TCtx} {D : Names} {ret : Option GTy} (hl : TLink env file G c) :
    ∀ (d : ADflt) (m : Mode) (st : St) (Γ : Ctx) (K : KCtx) (s : Scp) (ty : Ty),
      fragD env file G Γ K ty d = true → stdD env file K d = true → TScp env s Γ K →
      SCtx file G D (skeys s) Γ (calleesD (Γ.map (·.1)) d) →
      (match (compileDflt env m st d).1 with | some b => DeclOK D (skeys s) b | none => True) → TgtSc m Γ (skeys s) → TgtTy m s ty →
      ∀ b, (compileDflt env m st d).1 = some b → blockOKT c ret s b = .ok ()
  | .none, m, st, Γ, K, s, ty, _, _, _, _, _, _, _ => by intro b hb; simp [compileDflt] at hb
  | .some e, m, st, Γ, K, s, ty, hfrag, hstd, hsc, hctx, hdecl, htgt, htt => by
    simp only [fragD, Bool.and_eq_true] at hfrag
    simp only [stdD] at hstd
    simp only [compileDflt] at hdecl ⊢
    intro b hb; injection hb with hb; subst hb
    have htt' : TgtTy m s (aTy e) := by rw [scalarEq_eq hfrag.2]; exact htt
    obtain ⟨Dl, hseq, _⟩ := typedA (ret := ret) hl e m st Γ K s hfrag.1 hstd hsc (hctx.mono_cs (fun f hf => by simpa [calleesD] using hf))
      hdecl htgt htt'
    exact block_of_seq hseq
theorem typedFirst {env : Env} {file : AFile} {G : List String} {c : TCtx} {D : Names} {ret : Option GTy} (hl : TLink env file G c) :
    ∀ (arms : List AArm) (m : Mode) (st : St) (Γ : Ctx) (K : KCtx) (s : Scp) (ty : Ty),
      fragFirst env file G Γ K ty arms = true → stdFirst env file K arms = true → TScp env s Γ K →
      SCtx file G D (skeys s) Γ (calleesArms (Γ.map (·.1)) arms) → DeclOK D (skeys s) (compileFirstArm env m st arms).1 →
      TgtSc m Γ (skeys s) → TgtTy m s ty →
      ∃ Dl, seqOK c ret s (compileFirstArm env m st arms).1 (Dl ++ s) ∧ ∀ y, y ∈ skeys Dl → y ∈ topDecls (compileFirstArm env m st arms).1
  | [], m, st, Γ, K, s, ty, hfrag, _, _, _, _, _, _ => by simp [fragFirst] at hfrag
  | .mk lhs body :: rest, m, st, Γ, K, s, ty, hfrag, hstd, hsc, hctx, hdecl, htgt, htt => by
    simp only [fragFirst, Bool.and_eq_true] at hfrag
    simp only [stdFirst] at hstd
    simp only [compileFirstArm] at hdecl ⊢
    have htt' : TgtTy m s (aTy body) := by rw [scalarEq_eq hfrag.2]; exact htt
    exact typedA hl body m st Γ K s hfrag.1.2 hstd hsc (hctx.mono_cs (fun f hf => by simp [calleesArms, hf])) hdecl htgt htt'
theorem typedDU {env : Env} {file : AFile} {G : List String} {c : TCtx} {D : Names} {ret : Option GTy} (hl : TLink env file G c) :
    ∀ (d : ADflt) (m : Mode) (st : St) (Γ : Ctx) (K : KCtx) (s : Scp) (ty : Ty),
      fragD env file G Γ K ty d = true → stdD env file K d = true → TScp env s Γ K →
      SCtx file G D (skeys s) Γ (calleesD (Γ.map (·.1)) d) → DeclOK D (skeys s) (compileDfltUnit env m st d).1 →
      TgtSc m Γ (skeys s) → TgtTy m s ty →
      ∃ Dl, seqOK c ret s (compileDfltUnit env m st d).1 (Dl ++ s) ∧ ∀ y, y ∈ skeys Dl → y ∈ topDecls (compileDfltUnit env m st d).1
  | .none, m, st, Γ, K, s, ty, _, _, _, _, _, _, _ => by
    simp only [compileDfltUnit]; exact ⟨[], rfl, fun y hy => by simp [skeys] at hy⟩
  | .some e, m, st, Γ, K, s, ty, hfrag, hstd, hsc, hctx, hdecl, htgt, htt => by
    simp only [fragD, Bool.and_eq_true] at hfrag
    simp only [stdD] at hstd
    simp only [compileDfltUnit] at hdecl ⊢
    have htt' : TgtTy m s (aTy e) := by rw [scalarEq_eq hfrag.2]; exact htt
    exact typedA hl e m st Γ K s hfrag.1 hstd hsc (hctx.mono_cs (fun f hf => by simpa [calleesD] using hf)) hdecl htgt htt'
end

/-! ### functions -/

theorem findFunc_mkTCtx (F : GFile) (x : String) :
    (mkTCtx F).findFunc x = (F.findFunc x).map (fun g => (g.params.map (·.2), g.ret.getD .void)) := by
  simp only [TCtx.findFunc, mkTCtx, Goml.Go.GFile.findFunc]
  induction F.funcs with
  | nil => rfl
  | cons g rest ih =>
    simp only [List.map_cons, List.find?_cons]
    by_cases h : (g.name == x) = true
    · simp [h]
    · have h' : (g.name == x) = false := by simpa using h
      simp only [h', ih]

theorem findStruct_items : ∀ (items : List Goml.Go.GItem) (n : String) {fs : List (String × GTy)},
    (Goml.Go.GFile.mk items).structFields n = some fs → ∃ ms, (mkTCtx ⟨items⟩).findStruct n = some (fs, ms)
  | [], n, fs, h => by simp [Goml.Go.GFile.structFields] at h
  | it :: rest, n, fs, h => by
    have ih := fun h' => findStruct_items rest n (fs := fs) h'
    simp only [TCtx.findStruct, mkTCtx, Goml.Go.GFile.structFields, List.findSome?_cons, List.filterMap_cons] at h ih ⊢
    cases it with
    | structDef m fs' ms =>
      simp only at h ⊢
      by_cases hm : m = n
      · subst hm
        simp only [beq_self_eq_true, if_true, Option.some.injEq] at h
        subst h
        exact ⟨ms.map (·.name), by simp [List.find?_cons]⟩
      · have hm' : (m == n) = false := by simpa using hm
        simp only [hm', Bool.false_eq_true, if_false] at h
        obtain ⟨ms', h'⟩ := ih h
        exact ⟨ms', by simpa [List.find?_cons, hm'] using h'⟩
    | package _ => simp only at h ⊢; exact ih h
    | imports _ => simp only at h ⊢; exact ih h
    | interface _ _ => simp only at h ⊢; exact ih h
    | «alias» _ _ => simp only at h ⊢; exact ih h
    | func _ => simp only at h ⊢; exact ih h

theorem findStruct_mkTCtx (F : GFile) (n : String) {fs : List (String × GTy)} (h : F.structFields n = some fs) :
    ∃ ms, (mkTCtx F).findStruct n = some (fs, ms) := findStruct_items F.items n h

/-- the typing context of the emitted file knows the callees of the fragment, the reference and array helpers and, when
    the struct declarations carry the field types (`structTyTableOK`, `tupleTyTableOK`), the admitted struct and tuple
    types -/
theorem tlink_of_link {env : Env} {file : AFile} {G : List String} {P : Prog} {F : GFile} (hl : Link env file G P F)
    (hT : (goodStructs env).all (structTyTableOK env F) = true)
    (hT2 : (collectRuntimeTypes env file).tuples.all (tupleTyTableOK env F) = true)
    (hT3 : (goodEnums env).all (enumTyTableOK env F) = true) : TLink env file G (mkTCtx F) := by
  refine ⟨?fn, ?builtin, hl.ty.closed, ?structs, ?refs, ?arrs, ?tups, ?enums⟩
  case enums =>
    intro n d hn hd
    have := List.all_eq_true.mp hT3 n hn
    simp only [enumTyTableOK, hd, Bool.and_eq_true, bne_iff_ne] at this
    obtain ⟨hany, hcase⟩ := this
    cases hif : (mkTCtx F).ifaces.find? (·.1 == gid n) with
    | none => rw [hif] at hcase; cases hcase
    | some p =>
      obtain ⟨nm, ms⟩ := p
      rw [hif] at hcase; simp only [List.all_eq_true] at hcase
      have hany' : (gid n == "any") = false := by simpa using hany
      refine ⟨ms, by simp [isIfaceT, normT, hany', hif], fun v hv => ?_⟩
      have := hcase v hv
      cases hfs : (mkTCtx F).findStruct (variantGoName env n v.1) with
      | none => rw [hfs] at this; cases this
      | some q =>
        obtain ⟨fs, methods⟩ := q
        rw [hfs] at this; simp only [Bool.and_eq_true] at this
        have hvf : ∀ (i : Nat) (ts : List Ty), variantFields i ts = goTyFields i ts := by
          intro i ts; induction ts generalizing i with
          | nil => simp [variantFields, goTyFields]
          | cons t ts ih => simp [variantFields, goTyFields, ih]
        have hfe := fieldsBeqG_eq _ _ this.1
        rw [hvf] at hfe; subst hfe
        exact ⟨methods, rfl, this.2⟩
  case fn =>
    intro g hg hG hentry hrn
    obtain ⟨st, hfind, _⟩ := hl.fnGo g hg hG
    have hname : fnName g.name = vn g.name := by
      simp only [fnName, hentry, Bool.false_eq_true, if_false]; unfold vn; rw [hrn]
    rw [findFunc_mkTCtx, ← hname, hfind]
    simp [compileFn_shape, List.map_map, Function.comp_def]
  case builtin =>
    intro b ps r hb hsig
    rw [findFunc_mkTCtx]
    simp only [builtinNames, List.mem_cons, List.mem_singleton, List.not_mem_nil, or_false] at hb
    rcases hb with rfl | rfl | rfl | rfl | rfl | rfl | rfl | rfl | rfl | rfl | rfl | rfl | rfl <;>
      (simp only [builtinSig, Option.some.injEq, Prod.mk.injEq] at hsig; obtain ⟨hp, hr⟩ := hsig; subst hp; subst hr
       rw [hl.rt.rt _ _ rfl]; rfl)
  case structs =>
    intro n d hn hd
    have := List.all_eq_true.mp hT n hn
    simp only [structTyTableOK, hd] at this
    cases hsf : F.structFields (gid n) with
    | none => rw [hsf] at this; cases this
    | some decl =>
      rw [hsf] at this; simp only at this
      have := fieldsBeqG_eq _ _ this
      subst this
      exact findStruct_mkTCtx F (gid n) hsf
  case refs =>
    intro e he
    obtain ⟨h1, h2, h3, _⟩ := hl.refGo e he
    simp only [findFunc_mkTCtx, h1, h2, h3, Option.map_some]
    simp [refFn, refGetFn, refSetFn, unitE]
  case arrs =>
    intro len e he
    obtain ⟨h1, h2⟩ := hl.arrGo len e he
    simp only [findFunc_mkTCtx, h1, h2, Option.map_some]
    simp [arrGetFn, arrSetFn, i32]
  case tups =>
    intro ts hts
    refine ⟨(hl.tupGo ts hts).nodup, ?_⟩
    simp only [tupleTyOK, Bool.and_eq_true, List.any_eq_true] at hts
    obtain ⟨hval, x, hx, hbeq⟩ := hts
    have hxe : x = .tuple ts := ((Goml.Mono.tyBeq_iff _ _).mp hbeq).symm
    subst hxe
    have htb := List.all_eq_true.mp hT2 _ hx
    simp only [tupleTyTableOK, hval, Bool.not_true, Bool.false_or] at htb
    cases hsf : F.structFields (goTypeNameFor (.tuple ts)) with
    | none => rw [hsf] at htb; cases htb
    | some decl =>
      rw [hsf] at htb; simp only at htb
      have := fieldsBeqG_eq _ _ htb
      subst this
      exact findStruct_mkTCtx F _ hsf

theorem endsInRet_append (a : List GStmt) (e : Option GExpr) : endsInRet (a ++ [.ret e]) = true := by
  induction a with
  | nil => rfl
  | cons st a ih =>
    cases a with
    | nil => cases st <;> simp [endsInRet]
    | cons st2 a2 => simp only [List.cons_append] at ih ⊢; cases st <;> simp [endsInRet, ih]

theorem lookupS_params : ∀ (ps : List (String × Ty)), (ps.map fun p => vn p.1).Nodup → ∀ p, p ∈ ps →
    lookupS (ps.map fun p => (vn p.1, goTy p.2)) (vn p.1) = some (goTy p.2)
  | [], _, p, hp => by cases hp
  | q :: ps, hnd, p, hp => by
    simp only [List.map_cons, List.nodup_cons] at hnd
    rcases List.mem_cons.mp hp with rfl | hp
    · exact lookupS_cons_self _ _ _
    · have hne : vn q.1 ≠ vn p.1 := fun e => hnd.1 (e ▸ List.mem_map_of_mem (f := fun p => vn p.1) hp)
      simp only [List.map_cons]
      rw [lookupS_cons_ne _ _ hne]; exact lookupS_params ps hnd.2 p hp

theorem nodup_map_inj : ∀ (l : List (String × Ty)), (l.map fun p => vn p.1).Nodup → ∀ p q, p ∈ l → q ∈ l → vn p.1 = vn q.1 → p = q
  | [], _, p, _, hp, _, _ => by cases hp
  | a :: l, hnd, p, q, hp, hq, h => by
    simp only [List.map_cons, List.nodup_cons] at hnd
    rcases List.mem_cons.mp hp with hpa | hpl <;> rcases List.mem_cons.mp hq with hqa | hql
    · rw [hpa, hqa]
    · subst hpa
      exact absurd (by rw [h]; exact List.mem_map_of_mem (f := fun p : String × Ty => vn p.1) hql) hnd.1
    · subst hqa
      exact absurd (by rw [← h]; exact List.mem_map_of_mem (f := fun p : String × Ty => vn p.1) hpl) hnd.1
    · exact nodup_map_inj l hnd.2 p q hpl hql h

theorem lookupTy_mem' {Γ : Ctx} {x : String} {t : Ty} (h : lookupTy Γ x = some t) : (x, t) ∈ Γ := by
  unfold lookupTy at h
  cases hf : Γ.find? (·.1 == x) with
  | none => rw [hf] at h; cases h
  | some p =>
    rw [hf] at h; injection h with h
    have hm := List.mem_of_find?_eq_some hf
    have hx : p.1 = x := by simpa using List.find?_some hf
    obtain ⟨a, b⟩ := p; simp at hx h; subst hx; subst h; exact hm

/-- **T2, typing half, at function level**: the function `compile_fn` builds for a stage (a) function that passes the
    local checks of the fragment is well typed (`GoTyping.fnOKT`) in a typing context that knows its callees -/
theorem fn_typed {env : Env} {file : AFile} {G : List String} {c : TCtx} {st : St} {g : AFn} (hl : TLink env file G c)
    (hlocal : localOK env file G st g = true) (hstd : stdFn env file g = true) : fnOKT c (compileFn env st g).1 = .ok () := by
  simp only [localOK, srcLocalOK, goLocalOK, Bool.and_eq_true, Bool.not_eq_true', compileFn_shape] at hlocal
  obtain ⟨⟨⟨⟨hps, hrs⟩, hfrag⟩, hret⟩, ⟨⟨hscoped, hblank⟩, hcallees⟩, hfnames⟩ := hlocal
  simp only [stdFn, Bool.and_eq_true] at hstd
  obtain ⟨⟨hpstd, hrstd⟩, hbstd⟩ := hstd
  have hret' := scalarEq_eq hret
  rw [compileFn_shape]
  generalize hrn : "ret" ++ toString st.n = retName at *
  generalize hst1 : (st.next.check (okTy g.ret)).check (g.params.all fun p => okTy p.2) = st1 at *
  generalize hS : (compileA env (.assign retName) st1 g.body).1 = S at *
  simp only [scopedLocalsOK, Bool.and_eq_true, List.map_map, Function.comp_def] at hscoped
  obtain ⟨hndP0, hsok⟩ := hscoped
  have hndP : (g.params.map fun p => vn p.1).Nodup := of_decide_eq_true hndP0
  have hlocalsD : Goml.Dce.localsOf
      { name := fnName g.name, params := g.params.map fun p => (vn p.1, goTy p.2), ret := some (goTy g.ret),
        body := .varDecl (gid retName) (goTy g.ret) none :: (S ++ [.ret (some (.var (gid retName) (goTy g.ret)))]) } =
      (g.params.map fun p => vn p.1) ++ (gid retName :: (Goml.Dce.allDecls S ++ [])) := by
    simp [Goml.Dce.localsOf, Goml.Dce.allDecls, Goml.Dce.declsOf, allDecls_append, List.map_map, Function.comp_def]
  generalize hD : Goml.Dce.localsOf
      { name := fnName g.name, params := g.params.map fun p => (vn p.1, goTy p.2), ret := some (goTy g.ret),
        body := .varDecl (gid retName) (goTy g.ret) none :: (S ++ [.ret (some (.var (gid retName) (goTy g.ret)))]) } = D at *
  have hnb : ¬ "_" ∈ D := by
    intro h; rw [List.contains_eq_mem] at hblank; simp [h] at hblank
  have hPD : ∀ y, y ∈ (g.params.map fun p => vn p.1) → y ∈ D := fun y hy => by rw [hlocalsD]; exact List.mem_append_left _ hy
  have hRD : gid retName ∈ D := by rw [hlocalsD]; exact List.mem_append_right _ List.mem_cons_self
  have hsok' : DeclOK D (g.params.map fun p => vn p.1)
      (.varDecl (gid retName) (goTy g.ret) none :: (S ++ [.ret (some (.var (gid retName) (goTy g.ret)))])) := by
    refine sokB_weaken _ (fun y hy => ?_) hsok
    have hyD : y ∈ D := by
      rw [hlocalsD]; refine List.mem_append_right _ ?_
      simpa [Goml.Dce.allDecls, Goml.Dce.declsOf, allDecls_append] using hy
    have : y ≠ "_" := fun e => hnb (e ▸ hyD)
    simp [declOKB, hyD, this]
  obtain ⟨⟨hretP, -, -⟩, hdS⟩ := hsok'.varDecl
  have hdecl0 : DeclOK D (gid retName :: g.params.map fun p => vn p.1) S := hdS.append.1
  -- scopes
  let s0 : Scp := g.params.map fun p => (vn p.1, goTy p.2)
  let s1 : Scp := (gid retName, goTy g.ret) :: s0
  have hk0 : skeys s0 = g.params.map fun p => vn p.1 := by
    show List.map (·.1) (g.params.map fun p => (vn p.1, goTy p.2)) = _
    simp [List.map_map, Function.comp_def]
  have hk1 : skeys s1 = gid retName :: g.params.map fun p => vn p.1 := by
    show List.map (·.1) ((gid retName, goTy g.ret) :: s0) = _
    rw [List.map_cons]; exact congrArg _ hk0
  have hsc1 : TScp env s1 (paramCtx g) [] := by
    refine ⟨fun x t hx _ => ?_, fun x t vi _ hk => by simp [lookupK] at hk, fun x y tx ty hx hy hxy => ?_⟩
    · have hmem := lookupTy_mem' hx
      simp only [paramCtx, List.mem_reverse] at hmem
      have hne : gid retName ≠ vn x := fun e => hretP (e ▸ List.mem_map_of_mem (f := fun p => vn p.1) hmem)
      simp only [s1]; rw [lookupS_cons_ne _ _ hne]
      exact lookupS_params g.params hndP (x, t) hmem
    · have hmx := lookupTy_mem' hx
      have hmy := lookupTy_mem' hy
      simp only [paramCtx, List.mem_reverse] at hmx hmy
      have := nodup_map_inj g.params hndP _ _ hmx hmy hxy
      injection this
  have hctx : SCtx file G D (skeys s1) (paramCtx g) (calleesA ((paramCtx g).map (·.1)) g.body) := by
    rw [hk1]
    refine ⟨fun x t hx => ?_, fun y hy => ?_, fun h => ?_, fun f hf => ?_, fun e he => ?_⟩
    · obtain ⟨p, hp, rfl⟩ := lookupTy_mem hx
      simp only [paramCtx, List.mem_reverse] at hp
      exact List.mem_cons_of_mem _ (List.mem_map_of_mem (f := fun p => vn p.1) hp)
    · rcases List.mem_cons.mp hy with rfl | hy
      · exact hRD
      · exact hPD y hy
    · rcases List.mem_cons.mp h with h | h
      · exact hnb (h ▸ hRD)
      · exact hnb (hPD _ h)
    · have := List.all_eq_true.mp hcallees f hf
      simp only [Bool.and_eq_true, Bool.not_eq_true', List.contains_eq_mem, decide_eq_false_iff_not, bne_iff_ne] at this
      exact this
    · have := List.all_eq_true.mp hfnames e he
      simp only [Bool.and_eq_true, Bool.not_eq_true', List.contains_eq_mem, decide_eq_false_iff_not, bne_iff_ne] at this
      exact this
  have hdecl : DeclOK D (skeys s1) S := by
    rw [hk1]; exact hdecl0
  have htgt : TgtSc (.assign retName) (paramCtx g) (skeys s1) := by
    rw [hk1]
    exact ⟨List.mem_cons_self, fun x t hx e => by
      obtain ⟨p, hp, rfl⟩ := lookupTy_mem hx
      simp only [paramCtx, List.mem_reverse] at hp
      exact hretP (e ▸ List.mem_map_of_mem (f := fun p => vn p.1) hp)⟩
  have htt : TgtTy (.assign retName) s1 (aTy g.body) := by
    show lookupS s1 (gid retName) = _
    rw [hret']; exact lookupS_cons_self _ _ _
  obtain ⟨Dl, hseq, hkD⟩ := typedA (ret := some (goTy g.ret)) hl g.body (.assign retName) st1 (paramCtx g) [] s1 hfrag hbstd hsc1 hctx
    (hS ▸ hdecl) htgt htt
  rw [hS] at hseq hkD
  -- the function
  have h1 : stmtOKT c (some (goTy g.ret)) s0 (.varDecl (gid retName) (goTy g.ret) none) = .ok s1 :=
    stmt_varDecl_none_ok c _ s0 (gid retName) hrstd
  have hlret : lookupS (Dl ++ s1) (gid retName) = some (goTy g.ret) := by
    rw [lookupS_append_right (fun hk => (hdecl.top _ (hkD _ hk)).1 (by rw [hk1]; exact List.mem_cons_self))]; exact lookupS_cons_self _ _ _
  have hretst : stmtOKT c (some (goTy g.ret)) (Dl ++ s1) (.ret (some (.var (gid retName) (goTy g.ret)))) = .ok (Dl ++ s1) := by
    simp only [stmtOKT, tyOfT, hlret, R.bind, assignable_of_norm c rfl, if_true]
  have hbody : blockOKT c (some (goTy g.ret)) s0
      (.varDecl (gid retName) (goTy g.ret) none :: (S ++ [.ret (some (.var (gid retName) (goTy g.ret)))])) = .ok () := by
    simp only [blockOKT, h1]
    rw [block_of_seq_then hseq]
    simp only [blockOKT, hretst]
  have hends : endsInRet (.varDecl (gid retName) (goTy g.ret) none :: (S ++ [.ret (some (.var (gid retName) (goTy g.ret)))])) = true := by
    have := endsInRet_append (GStmt.varDecl (gid retName) (goTy g.ret) none :: S) (some (.var (gid retName) (goTy g.ret)))
    simpa using this
  simp only [fnOKT, s0] at hbody ⊢
  simp only [hbody, R.bind, hends, if_true]

end Goml.GoComp
