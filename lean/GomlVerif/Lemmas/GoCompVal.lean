import GomlVerif.Lemmas.GoCompRel
/-!
Admitted struct and enum types: what the decidable closure checks (`structsClosed`, `structTableOK`,
`enumTableOK`) give, and how composite literals of those types evaluate.
-/
set_option linter.unusedSimpArgs false
set_option linter.unusedVariables false
namespace Goml.GoComp
open Goml Goml.Go Goml.GoCompile Goml.GoFrag
open Goml.Sem (Val World Res Fail)
open Goml.Dce (keys lookup_cons_self lookup_cons_ne)

attribute [local irreducible] Goml.GoCompile.vn Goml.GoCompile.gid Goml.GoCompile.rn

/-- what the proofs need to know about the admitted types and their declarations in the Go file -/
structure TyLink (env : Env) (F : GFile) : Prop where
  closed : structsClosed env = true
  table : ∀ n, n ∈ goodStructs env → structTableOK env F n = true
  etable : ∀ n, n ∈ goodEnums env → enumTableOK env F n = true

/-- what `structsClosed` gives for an admitted struct -/
theorem good_struct {env : Env} (hS : structsClosed env = true) {n : String} (hn : n ∈ goodStructs env) :
    ∃ d, env.getStruct n = some d ∧ d.generics = [] ∧ (d.fields.map fun f => gid f.1).Nodup ∧
      ∀ f, f ∈ d.fields → valTy env f.2 = true := by
  simp only [structsClosed, Bool.and_eq_true] at hS
  have h := List.all_eq_true.mp hS.1 n hn
  unfold structLocalOK at h
  cases hd : env.getStruct n with
  | none => rw [hd] at h; simp at h
  | some d =>
    rw [hd] at h
    simp only [Bool.and_eq_true, List.isEmpty_iff, decide_eq_true_eq, List.all_eq_true] at h
    exact ⟨d, rfl, h.1.1, h.1.2, fun f hf => h.2 f hf⟩

/-- what `structsClosed` gives for an admitted enum -/
theorem good_enum {env : Env} (hS : structsClosed env = true) {n : String} (hn : n ∈ goodEnums env) :
    ∃ d, env.getEnum n = some d ∧ d.generics = [] ∧ (d.variants.map fun v => variantGoName env n v.1).Nodup ∧
      ∀ v, v ∈ d.variants → (∀ t, t ∈ v.2 → valTy env t = true) ∧ (fieldNames 0 v.2.length).Nodup := by
  simp only [structsClosed, Bool.and_eq_true] at hS
  have h := List.all_eq_true.mp hS.2 n hn
  unfold enumLocalOK at h
  cases hd : env.getEnum n with
  | none => rw [hd] at h; simp at h
  | some d =>
    rw [hd] at h
    simp only [Bool.and_eq_true, List.isEmpty_iff, decide_eq_true_eq, List.all_eq_true] at h
    exact ⟨d, rfl, h.1.1, h.1.2, fun v hv => ⟨fun t ht => (h.2 v hv).1 t ht, (h.2 v hv).2⟩⟩

mutual
theorem valTyS_flat {S E : List String} : ∀ {t : Ty}, valTyS S E t = true → flatTy t = true
  | .ref e, h => by simp only [valTyS] at h; simp only [flatTy]; exact valTyS_flat h
  | .tuple ts, h => by simp only [valTyS] at h; simp only [flatTy]; exact valTysS_flat h
  | .array len e, h => by
    simp only [valTyS, Bool.and_eq_true] at h
    simp only [flatTy, Bool.and_eq_true]; exact ⟨h.1, valTyS_flat h.2⟩
  | .func ps r, h => by
    simp only [valTyS, Bool.and_eq_true] at h
    simp only [flatTy, Bool.and_eq_true]; exact ⟨valTysS_flat h.1, valTyS_flat h.2⟩
  | .vec e, h => by simp only [valTyS] at h; simp only [flatTy]; exact valTyS_flat h
  | .unit, _ | .bool, _ | .string, _ | .int _ _, _ | .struct _, _ | .enum _, _ | .dyn _, _ => rfl
  | .float _, h | .app _ _, h | .param _, h
  | .tvar _, h => by simp [valTyS, scalarTy] at h
theorem valTysS_flat {S E : List String} : ∀ {ts : List Ty}, valTysS S E ts = true → flatTys ts = true
  | [], _ => rfl
  | t :: ts, h => by
    simp only [valTysS, Bool.and_eq_true] at h
    simp only [flatTys, Bool.and_eq_true]
    exact ⟨valTyS_flat h.1, valTysS_flat h.2⟩
end

theorem valTy_flat {env : Env} {t : Ty} (h : valTy env t = true) : flatTy t = true := valTyS_flat h

/-- `variantOf` answers only for an existing variant of an admitted enum type -/
theorem variantOf_spec {env : Env} {ty : Ty} {idx : Nat} {n vname : String} {tys : List Ty}
    (h : variantOf env ty idx = some (n, vname, tys)) :
    ty = .enum n ∧ n ∈ goodEnums env ∧ ∃ d, env.getEnum n = some d ∧ d.variants[idx]? = some (vname, tys) := by
  cases ty <;> simp only [variantOf] at h <;> try (cases h; done)
  rename_i m
  split at h
  · rename_i hm
    cases hd : env.getEnum m with
    | none => rw [hd] at h; cases h
    | some d =>
      rw [hd] at h; simp only at h
      cases hv : d.variants[idx]? with
      | none => rw [hv] at h; cases h
      | some v =>
        rw [hv] at h
        simp only [Option.some.injEq, Prod.mk.injEq] at h
        obtain ⟨h1, h2, h3⟩ := h
        subst h1
        refine ⟨rfl, by simpa using hm, d, hd, ?_⟩
        rw [hv]; obtain ⟨a, b⟩ := v; simp at h2 h3; rw [h2, h3]
  · cases h

/-- looking a name up in `names.zip gs` when the names are pairwise distinct -/
theorem lookup_zip : ∀ (names : List String) (gs : List GVal) (i : Nat) (x : String) (g : GVal),
    names.Nodup → names[i]? = some x → gs[i]? = some g → lookupG (names.zip gs) x = some g
  | [], _, i, x, g, _, hx, _ => by simp at hx
  | n :: names, [], i, x, g, _, _, hg => by simp at hg
  | n :: names, g0 :: gs, 0, x, g, _, hx, hg => by
    simp at hx hg; subst hx; subst hg
    exact lookup_cons_self _ _ _
  | n :: names, g0 :: gs, i + 1, x, g, hnd, hx, hg => by
    simp only [List.getElem?_cons_succ] at hx hg
    obtain ⟨hn, hnd'⟩ := List.nodup_cons.mp hnd
    have hne : n ≠ x := fun e => hn (e ▸ List.mem_of_getElem? hx)
    rw [List.zip_cons_cons, lookup_cons_ne _ _ hne]
    exact lookup_zip names gs i x g hnd' hx hg

/-- a composite literal that mentions every declared field, in order, evaluates to those fields -/
theorem slit_fields (F : GFile) : ∀ (decl : List (String × GTy)) (names : List String) (gs : List GVal) (fs : List (String × GVal)),
    decl.map (·.1) = names → names.length = gs.length →
    (∀ (i : Nat) (x : String) (g : GVal), names[i]? = some x → gs[i]? = some g → lookupG fs x = some g) →
    decl.map (fun p => (p.1, (lookupG fs p.1).getD (zero F p.2))) = names.zip gs
  | [], names, gs, fs, hn, hl, _ => by
    simp at hn; subst hn
    cases gs <;> simp at hl ⊢
  | (f, t) :: decl, [], gs, fs, hn, _, _ => by simp at hn
  | (f, t) :: decl, n :: names, [], fs, _, hl, _ => by simp at hl
  | (f, t) :: decl, n :: names, g :: gs, fs, hn, hl, hlook => by
    simp only [List.map_cons, List.cons.injEq] at hn
    obtain ⟨hfn, hn'⟩ := hn
    subst hfn
    have h0 := hlook 0 f g (by simp) (by simp)
    simp only [List.map_cons, List.zip_cons_cons, h0, Option.getD_some, List.cons.injEq, true_and]
    exact slit_fields F decl names gs fs hn' (by simpa using hl)
      (fun i x g' hx hg => hlook (i + 1) x g' (by simpa using hx) (by simpa using hg))

theorem length_fieldNames : ∀ (i k : Nat), (fieldNames i k).length = k
  | _, 0 => rfl
  | i, k + 1 => by simp [fieldNames, length_fieldNames (i + 1) k]

theorem fieldNames_get : ∀ (i k j : Nat), j < k → (fieldNames i k)[j]? = some (fieldN (i + j))
  | i, 0, j, h => by omega
  | i, k + 1, 0, _ => by simp [fieldNames]
  | i, k + 1, j + 1, h => by
    simp only [fieldNames, List.getElem?_cons_succ]
    rw [fieldNames_get (i + 1) k j (by omega)]
    congr 2; omega

/-- a composite literal of a variant struct with all its payload fields evaluates to exactly them -/
theorem slit_variant {env : Env} {F : GFile} (ht : TyLink env F) {n : String} (hn : n ∈ goodEnums env)
    {d : EnumDef} (hd : env.getEnum n = some d) {idx : Nat} {vname : String} {tys : List Ty}
    (hv : d.variants[idx]? = some (vname, tys)) {gvs : List GVal} (hlen : gvs.length = tys.length) :
    slitValue F (variantGoName env n vname) ((fieldNames 0 tys.length).zip gvs) =
      .struct (variantGoName env n vname) ((fieldNames 0 tys.length).zip gvs) := by
  obtain ⟨d', hd', _, _, hvs⟩ := good_enum ht.closed hn
  rw [hd] at hd'; injection hd' with hd'; subst hd'
  have hmem : (vname, tys) ∈ d.variants := List.mem_of_getElem? hv
  have hnd := (hvs _ hmem).2
  have htab := ht.etable n hn
  unfold enumTableOK at htab
  rw [hd] at htab
  have htab' := List.all_eq_true.mp htab _ hmem
  simp only at htab'
  cases hdecl : F.structFields (variantGoName env n vname) with
  | none => simp [slitValue, hdecl]
  | some decl =>
    rw [hdecl] at htab'
    have hnames : decl.map (·.1) = fieldNames 0 tys.length := by simpa using htab'
    simp only [slitValue, hdecl]
    congr 1
    exact slit_fields F decl _ gvs _ hnames (by rw [length_fieldNames, hlen])
      (fun i x g hx hg => lookup_zip _ gvs i x g hnd hx hg)

/-- what the file must contain for a tuple type: its struct, declared with the fields `_0, _1, …` -/
structure TupLink (F : GFile) (ts : List Ty) : Prop where
  nodup : (fieldNames 0 ts.length).Nodup
  table : ∃ decl, F.structFields (goTypeNameFor (.tuple ts)) = some decl ∧ decl.map (·.1) = fieldNames 0 ts.length

/-- a composite literal of a tuple struct with all its fields evaluates to exactly them -/
theorem slit_tuple {F : GFile} {ts : List Ty} (hl : TupLink F ts) {gvs : List GVal} (hlen : gvs.length = ts.length) :
    slitValue F (goTypeNameFor (.tuple ts)) ((fieldNames 0 ts.length).zip gvs) =
      .struct (goTypeNameFor (.tuple ts)) ((fieldNames 0 ts.length).zip gvs) := by
  obtain ⟨decl, hd, hn⟩ := hl.table
  simp only [slitValue, hd]
  congr 1
  exact slit_fields F decl _ gvs _ hn (by rw [length_fieldNames, hlen])
    (fun i x g hx hg => lookup_zip _ gvs i x g hl.nodup hx hg)

end Goml.GoComp
