import GomlVerif.Lemmas.GoCompArr
/-!
`Vec`: a `Sem` vector value against a Go slice.  `vec_new()` is `nil`; `vec_push(v, x)` is `append(v, x)`, which
under the no-spare-capacity policy (`capPolicy = 0`, part of `WRel`) always allocates a fresh backing array — an
immutable cell of the heap context (`Hp.imm`, `WRel.allocImm`) — so that no two related vectors ever share a cell that
is written; `vec_get(v, i)` is `v[i]` with the out-of-range panic of both sides; `vec_len(v)` is `int32(len(v))`.
With spare capacity (`capPolicy ≠ 0`) two appends to a common prefix may share the backing array and `Sem`'s
functional `vec_push` is NOT simulated (the known sharing finding): that case is excluded by `WRel.cap`.
-/
set_option linter.unusedSimpArgs false
set_option linter.unusedVariables false
namespace Goml.GoComp
open Goml Goml.Go Goml.GoCompile Goml.GoFrag
open Goml.Sem (Val World Res Fail)
open Goml.Dce (keys lookup_cons_self lookup_cons_ne)

/-! ### `Go.Sem` rules for slices -/

theorem ev_nil {F ρ w ty} : EvS F ρ w (.nil ty) (.ok .nilv w) := by
  refine ⟨1, fun k hk => ?_⟩
  obtain ⟨k, rfl, -⟩ := succ_of_le hk
  rw [evalG.eq_def]

theorem ev_index_slice {F ρ w ty arr idx loc len cap vs b s i v w1 w2} (ha : EvS F ρ w arr (.ok (.slice loc len cap) w1))
    (hi : EvS F ρ w1 idx (.ok (.int b s i) w2)) (hnn : ¬ i < 0) (hlt : ¬ i.toNat ≥ len)
    (hc : w2.heap[loc]? = some (.array vs)) (hv : vs[i.toNat]? = some v) :
    EvS F ρ w (.index ty arr idx) (.ok v w2) := by
  obtain ⟨m1, h1⟩ := ha
  obtain ⟨m2, h2⟩ := hi
  refine ⟨max m1 m2 + 1, fun k hk => ?_⟩
  obtain ⟨k, rfl, hk'⟩ := succ_of_le hk
  rw [evalG.eq_def]; simp only [h1 k (by omega), h2 k (by omega), hnn, hlt, hc, hv, if_false]

theorem ev_index_slice_oob {F ρ w ty arr idx loc len cap b s i w1 w2} (ha : EvS F ρ w arr (.ok (.slice loc len cap) w1))
    (hi : EvS F ρ w1 idx (.ok (.int b s i) w2)) (hoob : i < 0 ∨ i.toNat ≥ len) :
    EvS F ρ w (.index ty arr idx) (.fail (.panic "index out of range") w2) := by
  obtain ⟨m1, h1⟩ := ha
  obtain ⟨m2, h2⟩ := hi
  refine ⟨max m1 m2 + 1, fun k hk => ?_⟩
  obtain ⟨k, rfl, hk'⟩ := succ_of_le hk
  rw [evalG.eq_def]; simp only [h1 k (by omega), h2 k (by omega)]
  by_cases hneg : i < 0
  · simp [hneg]
  · rcases hoob with h | h
    · exact absurd h hneg
    · simp [hneg, h]

theorem ev_index_nil {F ρ w ty arr idx b s i w1 w2} (ha : EvS F ρ w arr (.ok .nilv w1))
    (hi : EvS F ρ w1 idx (.ok (.int b s i) w2)) :
    EvS F ρ w (.index ty arr idx) (.fail (.panic "index out of range") w2) := by
  obtain ⟨m1, h1⟩ := ha
  obtain ⟨m2, h2⟩ := hi
  refine ⟨max m1 m2 + 1, fun k hk => ?_⟩
  obtain ⟨k, rfl, hk'⟩ := succ_of_le hk
  rw [evalG.eq_def]; simp only [h1 k (by omega), h2 k (by omega)]
  by_cases hneg : i < 0 <;> simp [hneg]

/-- `append` to a slice without spare capacity under the no-spare-capacity policy: a fresh backing array -/
theorem call_append_slice {F : GFile} {w : GWorld} {loc n : Nat} {vs : List GVal} {v : GVal} (h : F.findFunc "append" = none)
    (hcap : w.capPolicy = 0) (hc : w.heap[loc]? = some (.array vs)) :
    CallS F w (.func "append") [.slice loc n n, v]
      (.ok (.slice w.heap.size (n + 1) (n + 1)) { w with heap := w.heap.push (.array (vs.take n ++ [v])) }) := by
  refine ⟨1, fun k hk => ?_⟩
  obtain ⟨k, rfl, -⟩ := succ_of_le hk
  rw [callG.eq_def]; simp [h, hc, hcap]

/-- `append` to `nil` -/
theorem call_append_nil {F : GFile} {w : GWorld} {v : GVal} (h : F.findFunc "append" = none) (hcap : w.capPolicy = 0) :
    CallS F w (.func "append") [.nilv, v] (.ok (.slice w.heap.size 1 1) { w with heap := w.heap.push (.array [v]) }) := by
  refine ⟨1, fun k hk => ?_⟩
  obtain ⟨k, rfl, -⟩ := succ_of_le hk
  rw [callG.eq_def]; simp [h, hcap]

theorem call_len_slice {F : GFile} {w : GWorld} {loc n c : Nat} (h : F.findFunc "len" = none) :
    CallS F w (.func "len") [.slice loc n c] (.ok (.int 64 true n) w) := by
  refine ⟨1, fun k hk => ?_⟩
  obtain ⟨k, rfl, -⟩ := succ_of_le hk
  rw [callG.eq_def]; simp [h]

theorem call_len_nil {F : GFile} {w : GWorld} (h : F.findFunc "len" = none) :
    CallS F w (.func "len") [.nilv] (.ok (.int 64 true 0) w) := by
  refine ⟨1, fun k hk => ?_⟩
  obtain ⟨k, rfl, -⟩ := succ_of_le hk
  rw [callG.eq_def]; simp [h]

/-- the integer conversions `dyn_data_expr` spells as calls -/
def intConvNames : List String := ["int8", "int16", "int32", "int64", "uint8", "uint16", "uint32", "uint64"]

/-- what the file must (not) contain for the `Vec` builtins: `append`, `len`, `int32` keep their Go meaning -/
structure VecLink (F : GFile) : Prop where
  append : F.findFunc "append" = none
  len : F.findFunc "len" = none
  int32 : F.findFunc "int32" = none
  /-- the integer conversions keep their Go meaning too (a numeric literal that becomes a trait object) -/
  conv : ∀ n, n ∈ intConvNames → F.findFunc n = none

/-- the conversion `T(x)` of an integer to the integer type `T` -/
theorem call_conv {F : GFile} {w : GWorld} {name : String} {b b0 : Nat} {s s0 : Bool} {x : Int} (hmem : name ∈ intConvNames)
    (hn : isIntTy name = some (b, s)) (h : F.findFunc name = none) :
    CallS F w (.func name) [.int b0 s0 x] (.ok (.int b s (Sem.wrap b s x)) w) := by
  refine ⟨1, fun k hk => ?_⟩
  obtain ⟨k, rfl, -⟩ := succ_of_le hk
  simp only [intConvNames, List.mem_cons, List.mem_singleton, List.not_mem_nil, or_false] at hmem
  rcases hmem with rfl | rfl | rfl | rfl | rfl | rfl | rfl | rfl <;>
    (simp only [isIntTy, Option.some.injEq, Prod.mk.injEq] at hn; obtain ⟨rfl, rfl⟩ := hn
     rw [callG.eq_def]; simp [h, isIntTy, convert])

/-- what `convName` answers: the name of the conversion to that integer type, or a float type -/
theorem convName_spec {ty : Ty} {n : String} (h : convName ty = some n) :
    (∃ b s, ty = .int b s ∧ isIntTy n = some (b, s) ∧ n ∈ intConvNames) ∨ (∃ b, ty = .float b) := by
  unfold convName at h
  split at h <;> first
    | (injection h with h; subst h; exact Or.inl ⟨_, _, rfl, rfl, by simp [intConvNames]⟩)
    | (injection h with h; exact Or.inr ⟨_, rfl⟩)
    | cases h

/-! ### related lists -/

theorem VRels_replicate_snoc {env : Env} {η : Hp} : ∀ {vs : List Val} {gs : List GVal} {e : Ty} {v : Val} {g : GVal},
    VRels env η vs (List.replicate vs.length e) gs → VRel env η v e g →
    VRels env η (vs ++ [v]) (List.replicate (vs ++ [v]).length e) (gs ++ [g])
  | [], gs, e, v, g, h, hg => by
    cases gs <;> simp [List.replicate, VRels] at h
    simp [List.replicate, VRels, hg]
  | v0 :: vs, [], e, v, g, h, _ => by simp [List.replicate, VRels] at h
  | v0 :: vs, g0 :: gs, e, v, g, h, hg => by
    simp only [List.length_cons, List.replicate, VRels] at h
    have := VRels_replicate_snoc h.2 hg
    simp only [List.cons_append, List.length_cons, List.replicate, VRels]
    exact ⟨h.1, this⟩

theorem hasTys_replicate_snoc {env : Env} {η : Hp} : ∀ {vs : List Val} {e : Ty} {v : Val},
    HasTys env η vs (List.replicate vs.length e) → HasTy env η v e →
    HasTys env η (vs ++ [v]) (List.replicate (vs ++ [v]).length e)
  | [], e, v, _, hv => by simp [List.replicate, HasTys, hv]
  | v0 :: vs, e, v, h, hv => by
    simp only [List.length_cons, List.replicate, HasTys] at h
    have := hasTys_replicate_snoc h.2 hv
    simp only [List.cons_append, List.length_cons, List.replicate, HasTys]
    exact ⟨h.1, this⟩

end Goml.GoComp
