import GomlVerif.Lemmas.GoCompStepU
import GomlVerif.Lemmas.DceScope
/-!
What the statements `GoCompile` emits can assign: only the target of the lowering mode and variables
the statements declare themselves (`let`-bound variables lowered through `var x T; … x = …`, the
condition variable of a loop).  Holds of every ANF expression (no fragment hypothesis).  Used by T2:
a type switch never assigns its binding.
-/
set_option linter.unusedSimpArgs false
set_option linter.unusedVariables false
namespace Goml.GoComp
open Goml Goml.Go Goml.GoCompile Goml.GoFrag
open Goml.Dce (writesStmts writesStmt writesCases writesTCases mem_uni Names)

attribute [local irreducible] Goml.GoCompile.vn Goml.GoCompile.gid Goml.GoCompile.rn

/-- the names the compiled arms declare (nested included) -/
def armDecls : List (Imm × List GStmt) → List String
  | [] => []
  | p :: rest => ndDecls p.2 ++ armDecls rest

def optDecls : Option (List GStmt) → List String
  | some b => ndDecls b
  | none => []

theorem armDecls_typeCases (env : Env) : ∀ ra : List (Imm × List GStmt), ndDeclsTCases (typeCases env ra) = armDecls ra
  | [] => rfl
  | (lhs, body) :: rest => by simp [typeCases, ndDeclsTCases, armDecls, armDecls_typeCases env rest]

theorem armDecls_valueCases (k : MatchKind) : ∀ ra : List (Imm × List GStmt), ndDeclsCases (valueCases k ra) = armDecls ra
  | [] => rfl
  | (lhs, body) :: rest => by simp [valueCases, ndDeclsCases, armDecls, armDecls_valueCases k rest]


/-- the variable a lowering mode assigns -/
def tgtName : Mode → List String
  | .effect => []
  | .assign t => [gid t]

/-- `S` assigns only the mode's target and its own declarations -/
def WOK (m : Mode) (S : List GStmt) : Prop := ∀ y, y ∈ writesStmts S → y ∈ tgtName m ∨ y ∈ ndDecls S

theorem mem_writes_cons (y : String) (s : GStmt) (rest : List GStmt) :
    y ∈ writesStmts (s :: rest) ↔ y ∈ writesStmt s ∨ y ∈ writesStmts rest := by
  simp [writesStmts, mem_uni]

theorem mem_writes_append (y : String) : ∀ a b : List GStmt, y ∈ writesStmts (a ++ b) ↔ y ∈ writesStmts a ∨ y ∈ writesStmts b
  | [], b => by simp [writesStmts]
  | s :: a, b => by
    rw [List.cons_append, mem_writes_cons, mem_writes_cons, mem_writes_append y a b, or_assoc]

theorem mem_ndDecls_cons (y : String) (s : GStmt) (rest : List GStmt) :
    y ∈ ndDecls (s :: rest) ↔ y ∈ ndDeclsOf s ∨ y ∈ ndDecls rest := by
  simp [ndDecls]

theorem WOK.nil (m : Mode) : WOK m [] := by intro y hy; simp [writesStmts] at hy

theorem WOK.append {m : Mode} {a b : List GStmt} (ha : WOK m a) (hb : WOK m b) : WOK m (a ++ b) := by
  intro y hy
  rw [mem_writes_append] at hy
  rw [ndDecls_append, List.mem_append]
  rcases hy with hy | hy
  · exact (ha y hy).imp id Or.inl
  · exact (hb y hy).imp id Or.inr

theorem compileGo_go (env : Env) (e : Imm) : ∃ X, compileGo env e = .go X := by
  unfold compileGo; split <;> exact ⟨_, rfl⟩

theorem writes_simple (env : Env) (m : Mode) (c : CExpr) : ∀ y, y ∈ writesStmts (compileSimple env m c) → y ∈ tgtName m := by
  intro y hy
  cases m with
  | effect =>
    cases c <;> simp only [compileSimple] at hy <;>
      first
        | (simp [writesStmts, writesStmt] at hy; done)
        | (rename_i e ty; obtain ⟨X, hX⟩ := compileGo_go env e; rw [hX] at hy; simp [writesStmts, writesStmt] at hy)
  | assign t =>
    cases c <;> simp only [compileSimple] at hy <;>
      first
        | (simp [writesStmts, writesStmt, mem_uni] at hy; simp [tgtName, hy]; done)
        | (rename_i e ty; obtain ⟨X, hX⟩ := compileGo_go env e; rw [hX] at hy
           simp [writesStmts, writesStmt, mem_uni] at hy; simp [tgtName, hy]; done)
        | (split at hy <;> simp [writesStmts, writesStmt, mem_uni] at hy <;> simp [tgtName, hy])

theorem writes_bindSimple (env : Env) (x : String) (v : CExpr) : writesStmts (compileBindSimple env x v) = [] := by
  cases v <;> simp only [compileBindSimple] <;>
    first
      | (simp [writesStmts, writesStmt, Goml.Dce.uni]; done)
      | (rename_i e ty; obtain ⟨X, hX⟩ := compileGo_go env e; rw [hX]; simp [writesStmts, writesStmt, Goml.Dce.uni])

/-- what the compiled arms assign -/
def armWrites : List (Imm × List GStmt) → List String
  | [] => []
  | p :: rest => writesStmts p.2 ++ armWrites rest

def optWrites : Option (List GStmt) → List String
  | some b => writesStmts b
  | none => []

theorem mem_writesTCases (env : Env) (y : String) : ∀ ra : List (Imm × List GStmt),
    y ∈ writesTCases (typeCases env ra) ↔ y ∈ armWrites ra
  | [] => by simp [typeCases, writesTCases, armWrites]
  | (lhs, body) :: rest => by
    simp only [typeCases, writesTCases, armWrites, mem_uni, List.mem_append, mem_writesTCases env y rest]

theorem mem_writesCases (k : MatchKind) (y : String) : ∀ ra : List (Imm × List GStmt),
    y ∈ writesCases (valueCases k ra) ↔ y ∈ armWrites ra
  | [] => by simp [valueCases, writesCases, armWrites]
  | (lhs, body) :: rest => by
    simp only [valueCases, writesCases, armWrites, mem_uni, List.mem_append, mem_writesCases k y rest]

theorem writes_switch (e : GExpr) (cs : List GCase) (d : Option (List GStmt)) (y : String) :
    y ∈ writesStmt (.switch e cs d) ↔ y ∈ writesCases cs ∨ y ∈ optWrites d := by
  cases d <;> simp [writesStmt, mem_uni, optWrites]

theorem writes_tswitch (b : Option String) (e : GExpr) (cs : List GTCase) (d : Option (List GStmt)) (y : String) :
    y ∈ writesStmt (.tswitch b e cs d) ↔ y ∈ writesTCases cs ∨ y ∈ optWrites d := by
  cases d <;> simp [writesStmt, mem_uni, optWrites]

theorem ndDecls_single (s : GStmt) : ndDecls [s] = ndDeclsOf s := by simp [ndDecls]

/-- the statement a `match` on an enum / a literal becomes assigns what its clauses assign -/
theorem wok_switchlike {m : Mode} {s : GStmt} {ra : List (Imm × List GStmt)} {rd : Option (List GStmt)}
    (hw : ∀ y, y ∈ writesStmt s → y ∈ armWrites ra ∨ y ∈ optWrites rd)
    (hd : ndDeclsOf s = armDecls ra ++ optDecls rd)
    (ha : ∀ y, y ∈ armWrites ra → y ∈ tgtName m ∨ y ∈ armDecls ra)
    (hdd : ∀ y, y ∈ optWrites rd → y ∈ tgtName m ∨ y ∈ optDecls rd) : WOK m [s] := by
  intro y hy
  rw [mem_writes_cons] at hy
  rw [ndDecls_single, hd, List.mem_append]
  rcases hy with hy | hy
  · rcases hw y hy with h | h
    · exact (ha y h).imp id Or.inl
    · exact (hdd y h).imp id Or.inr
  · simp [writesStmts] at hy

mutual
theorem writesA (env : Env) : ∀ (e : AExpr) (m : Mode) (st : St), WOK m (compileA env m st e).1
  | .ret c, m, st => by simp only [compileA]; exact writesT env c m st
  | .letE x v body ty, m, st => by
    rw [compileA_let]
    refine WOK.append ?_ (writesA env body m _)
    intro y hy
    by_cases hctl : isCtl v = true
    · simp only [letPrefix, hctl, if_true] at hy ⊢
      rw [mem_writes_cons] at hy
      rw [ndDecls_varDecl]
      rcases hy with hy | hy
      · simp [writesStmt] at hy
      · rcases writesT env v (.assign (rn x)) _ y hy with h | h
        · simp only [tgtName, List.mem_singleton] at h
          right; rw [h, ← vn_def]; exact List.mem_cons_self
        · right; exact List.mem_cons_of_mem _ h
    · have hctl' : isCtl v = false := by simpa using hctl
      simp only [letPrefix, hctl', Bool.false_eq_true, if_false, writes_bindSimple] at hy
      cases hy
theorem writesT (env : Env) : ∀ (c : CExpr) (m : Mode) (st : St), WOK m (compileTail env m st c).1
  | .ite c t e ty, m, st => by
    simp only [compileTail]
    intro y hy
    rw [mem_writes_cons] at hy
    rw [ndDecls_ite]
    rcases hy with hy | hy
    · simp only [writesStmt, mem_uni] at hy
      rcases hy with hy | hy
      · exact (writesA env t m _ y hy).imp id (fun h => List.mem_append_left _ h)
      · exact (writesA env e m _ y hy).imp id (fun h => List.mem_append_right _ h)
    · simp [writesStmts] at hy
  | .while c b ty, m, st => by
    rw [tail_while_shape]
    generalize hcv : "cond" ++ toString st.n = cv
    generalize hst : st.next.check (isBoolTy c.annTy) = st'
    intro y hy
    rw [tail_while_decls]
    have hbody : ∀ z, z ∈ writesStmts (loopBody env cv st' c b) → z = gid cv ∨ z ∈ ndDecls (loopBody env cv st' c b) := by
      intro z hz
      simp only [loopBody] at hz ⊢
      rw [mem_writes_append, mem_writes_append] at hz
      rw [ndDecls_append, ndDecls_append]
      rcases hz with (hz | hz) | hz
      · rcases writesA env c (.assign cv) st' z hz with h | h
        · simp only [tgtName, List.mem_singleton] at h; exact Or.inl h
        · exact Or.inr (List.mem_append_left _ (List.mem_append_left _ h))
      · simp [writesStmts, writesStmt, mem_uni] at hz
      · rcases writesA env b .effect _ z hz with h | h
        · simp [tgtName] at h
        · exact Or.inr (List.mem_append_right _ h)
    rw [mem_writes_append] at hy
    rcases hy with hy | hy
    · rw [mem_writes_cons, mem_writes_cons] at hy
      rcases hy with hy | hy | hy
      · simp [writesStmt] at hy
      · simp only [writesStmt] at hy
        rcases hbody y hy with h | h
        · right; rw [h]; exact List.mem_cons_self
        · right; exact List.mem_cons_of_mem _ h
      · simp [writesStmts] at hy
    · cases m with
      | effect => simp [writesStmts] at hy
      | assign t =>
        simp [writesStmts, writesStmt, mem_uni] at hy
        left; simp [tgtName, hy]
  | .matchE s arms d ty, m, st => by
    simp only [compileTail]
    cases hk : matchKind s.ty with
    | unit =>
      simp only
      by_cases he : arms.isEmpty = true
      · simp only [he, if_true]; exact writesDU env d m st
      · simp only [he, if_false]; exact writesFirst env arms m st
    | unsupported => simp only; exact WOK.nil m
    | enum =>
      simp only
      refine wok_switchlike (ra := (compileArms env m (st.check (okImm env s)) arms).1)
        (rd := (compileDflt env m (compileArms env m (st.check (okImm env s)) arms).2 d).1) ?_ ?_
        (writesArms env arms m _) (writesD env d m _)
      · intro y hy
        rw [writes_tswitch, mem_writesTCases] at hy
        exact hy
      · rw [← ndDecls_single, ndDecls_tswitch, armDecls_typeCases]
        cases (compileDflt env m (compileArms env m (st.check (okImm env s)) arms).2 d).1 <;> rfl
    | bool =>
      simp only
      refine wok_switchlike (ra := (compileArms env m (st.check (okImm env s)) arms).1)
        (rd := (compileDflt env m (compileArms env m (st.check (okImm env s)) arms).2 d).1) ?_ ?_
        (writesArms env arms m _) (writesD env d m _)
      · intro y hy
        rw [writes_switch, mem_writesCases] at hy
        exact hy
      · rw [← ndDecls_single, ndDecls_switch, armDecls_valueCases]
        cases (compileDflt env m (compileArms env m (st.check (okImm env s)) arms).2 d).1 <;> rfl
    | int bits sg =>
      simp only
      refine wok_switchlike (ra := (compileArms env m (st.check (okImm env s)) arms).1)
        (rd := (compileDflt env m (compileArms env m (st.check (okImm env s)) arms).2 d).1) ?_ ?_
        (writesArms env arms m _) (writesD env d m _)
      · intro y hy
        rw [writes_switch, mem_writesCases] at hy
        exact hy
      · rw [← ndDecls_single, ndDecls_switch, armDecls_valueCases]
        cases (compileDflt env m (compileArms env m (st.check (okImm env s)) arms).2 d).1 <;> rfl
    | float bits =>
      simp only
      refine wok_switchlike (ra := (compileArms env m (st.check (okImm env s)) arms).1)
        (rd := (compileDflt env m (compileArms env m (st.check (okImm env s)) arms).2 d).1) ?_ ?_
        (writesArms env arms m _) (writesD env d m _)
      · intro y hy
        rw [writes_switch, mem_writesCases] at hy
        exact hy
      · rw [← ndDecls_single, ndDecls_switch, armDecls_valueCases]
        cases (compileDflt env m (compileArms env m (st.check (okImm env s)) arms).2 d).1 <;> rfl
    | str =>
      simp only
      refine wok_switchlike (ra := (compileArms env m (st.check (okImm env s)) arms).1)
        (rd := (compileDflt env m (compileArms env m (st.check (okImm env s)) arms).2 d).1) ?_ ?_
        (writesArms env arms m _) (writesD env d m _)
      · intro y hy
        rw [writes_switch, mem_writesCases] at hy
        exact hy
      · rw [← ndDecls_single, ndDecls_switch, armDecls_valueCases]
        cases (compileDflt env m (compileArms env m (st.check (okImm env s)) arms).2 d).1 <;> rfl
  | .imm i, m, st => by
    rw [compileTail_simple env m st (by rfl)]; exact fun y hy => Or.inl (writes_simple env m _ y hy)
  | .un op e ty, m, st => by
    rw [compileTail_simple env m st (by rfl)]; exact fun y hy => Or.inl (writes_simple env m _ y hy)
  | .bin op l r ty, m, st => by
    rw [compileTail_simple env m st (by rfl)]; exact fun y hy => Or.inl (writes_simple env m _ y hy)
  | .call f args ty, m, st => by
    rw [compileTail_simple env m st (by rfl)]; exact fun y hy => Or.inl (writes_simple env m _ y hy)
  | .constr c args ty, m, st => by
    rw [compileTail_simple env m st (by rfl)]; exact fun y hy => Or.inl (writes_simple env m _ y hy)
  | .tuple items ty, m, st => by
    rw [compileTail_simple env m st (by rfl)]; exact fun y hy => Or.inl (writes_simple env m _ y hy)
  | .array items ty, m, st => by
    rw [compileTail_simple env m st (by rfl)]; exact fun y hy => Or.inl (writes_simple env m _ y hy)
  | .cget e c idx ty, m, st => by
    rw [compileTail_simple env m st (by rfl)]; exact fun y hy => Or.inl (writes_simple env m _ y hy)
  | .toDyn tr forTy e ty, m, st => by
    rw [compileTail_simple env m st (by rfl)]; exact fun y hy => Or.inl (writes_simple env m _ y hy)
  | .dynCall tr mm recv args ty, m, st => by
    rw [compileTail_simple env m st (by rfl)]; exact fun y hy => Or.inl (writes_simple env m _ y hy)
  | .go e ty, m, st => by
    rw [compileTail_simple env m st (by rfl)]; exact fun y hy => Or.inl (writes_simple env m _ y hy)
  | .proj e idx ty, m, st => by
    rw [compileTail_simple env m st (by rfl)]; exact fun y hy => Or.inl (writes_simple env m _ y hy)
theorem writesArms (env : Env) : ∀ (arms : List AArm) (m : Mode) (st : St) (y : String),
    y ∈ armWrites (compileArms env m st arms).1 → y ∈ tgtName m ∨ y ∈ armDecls (compileArms env m st arms).1
  | [], m, st, y, hy => by simp [compileArms, armWrites] at hy
  | .mk lhs body :: rest, m, st, y, hy => by
    rw [compileArms_cons] at hy ⊢
    simp only [armWrites, armDecls, List.mem_append] at hy ⊢
    rcases hy with hy | hy
    · exact (writesA env body m st y hy).imp id Or.inl
    · exact (writesArms env rest m _ y hy).imp id Or.inr
theorem writesD (env : Env) : ∀ (d : ADflt) (m : Mode) (st : St) (y : String),
    y ∈ optWrites (compileDflt env m st d).1 → y ∈ tgtName m ∨ y ∈ optDecls (compileDflt env m st d).1
  | .none, m, st, y, hy => by simp [compileDflt, optWrites] at hy
  | .some e, m, st, y, hy => by
    simp only [compileDflt, optWrites, optDecls] at hy ⊢
    exact writesA env e m st y hy
theorem writesFirst (env : Env) : ∀ (arms : List AArm) (m : Mode) (st : St), WOK m (compileFirstArm env m st arms).1
  | [], m, st => by simp only [compileFirstArm]; exact WOK.nil m
  | .mk lhs body :: rest, m, st => by simp only [compileFirstArm]; exact writesA env body m st
theorem writesDU (env : Env) : ∀ (d : ADflt) (m : Mode) (st : St), WOK m (compileDfltUnit env m st d).1
  | .none, m, st => by simp only [compileDfltUnit]; exact WOK.nil m
  | .some e, m, st => by simp only [compileDfltUnit]; exact writesA env e m st
end

end Goml.GoComp
