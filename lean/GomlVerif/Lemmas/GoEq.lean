import GomlVerif.Model.GoEq
/-! soundness of the structural equality test of `Model/GoEq.lean`: `eqStmts a b = true → a = b` -/
set_option linter.unusedSimpArgs false
set_option linter.unusedVariables false
namespace Goml.Dce
open Goml.Go

mutual
theorem eqTy_sound : ∀ a b : GTy, eqTy a b = true → a = b
  | .void, b, h => by cases b <;> simp [eqTy] at h ⊢
  | .unit, b, h => by cases b <;> simp [eqTy] at h ⊢
  | .bool, b, h => by cases b <;> simp [eqTy] at h ⊢
  | .string, b, h => by cases b <;> simp [eqTy] at h ⊢
  | .int n s, b, h => by cases b <;> simp [eqTy] at h ⊢; exact h
  | .float n, b, h => by cases b <;> simp [eqTy] at h ⊢; exact h
  | .struct n fs, b, h => by
    cases b <;> simp [eqTy] at h ⊢
    exact ⟨h.1, eqTyFields_sound _ _ h.2⟩
  | .ptr e, b, h => by cases b <;> simp [eqTy] at h ⊢; exact eqTy_sound _ _ h
  | .func ps r, b, h => by
    cases b <;> simp [eqTy] at h ⊢
    exact ⟨eqTys_sound _ _ h.1, eqTy_sound _ _ h.2⟩
  | .name n, b, h => by cases b <;> simp [eqTy] at h ⊢; exact h
  | .array k e, b, h => by
    cases b <;> simp [eqTy] at h ⊢
    exact ⟨h.1, eqTy_sound _ _ h.2⟩
  | .slice e, b, h => by cases b <;> simp [eqTy] at h ⊢; exact eqTy_sound _ _ h
theorem eqTys_sound : ∀ a b : List GTy, eqTys a b = true → a = b
  | [], b, h => by cases b <;> simp [eqTys] at h ⊢
  | a :: as, b, h => by
    cases b <;> simp [eqTys] at h ⊢
    exact ⟨eqTy_sound _ _ h.1, eqTys_sound _ _ h.2⟩
theorem eqTyFields_sound : ∀ a b : List (String × GTy), eqTyFields a b = true → a = b
  | [], b, h => by cases b <;> simp [eqTyFields] at h ⊢
  | (x, a) :: as, b, h => by
    cases b with
    | nil => simp [eqTyFields] at h
    | cons hd tl =>
      obtain ⟨x', a'⟩ := hd
      simp [eqTyFields] at h ⊢
      exact ⟨⟨h.1.1, eqTy_sound _ _ h.1.2⟩, eqTyFields_sound _ _ h.2⟩
end

theorem eqOptStr_sound : ∀ a b, eqOptStr a b = true → a = b
  | none, none, _ => rfl
  | some a, some b, h => by simp [eqOptStr] at h; rw [h]
  | none, some _, h => by simp [eqOptStr] at h
  | some _, none, h => by simp [eqOptStr] at h

mutual
theorem eqExpr_sound : ∀ a b : GExpr, eqExpr a b = true → a = b
  | .nil t, b, h => by cases b <;> simp [eqExpr] at h ⊢; exact eqTy_sound _ _ h
  | .voidv t, b, h => by cases b <;> simp [eqExpr] at h ⊢; exact eqTy_sound _ _ h
  | .unitv t, b, h => by cases b <;> simp [eqExpr] at h ⊢; exact eqTy_sound _ _ h
  | .var x t, b, h => by cases b <;> simp [eqExpr] at h ⊢; exact ⟨h.1, eqTy_sound _ _ h.2⟩
  | .bool v, b, h => by cases b <;> simp [eqExpr] at h ⊢; exact h
  | .int v t, b, h => by cases b <;> simp [eqExpr] at h ⊢; exact ⟨h.1, eqTy_sound _ _ h.2⟩
  | .float v t, b, h => by cases b <;> simp [eqExpr] at h ⊢; exact ⟨h.1, eqTy_sound _ _ h.2⟩
  | .str v, b, h => by cases b <;> simp [eqExpr] at h ⊢; exact h
  | .call t f args, b, h => by
    cases b <;> simp [eqExpr] at h ⊢
    exact ⟨eqTy_sound _ _ h.1.1, eqExpr_sound _ _ h.1.2, eqExprs_sound _ _ h.2⟩
  | .un op t e, b, h => by
    cases b <;> simp [eqExpr] at h ⊢
    exact ⟨h.1.1, eqTy_sound _ _ h.1.2, eqExpr_sound _ _ h.2⟩
  | .bin op t l r, b, h => by
    cases b <;> simp [eqExpr] at h ⊢
    exact ⟨h.1.1.1, eqTy_sound _ _ h.1.1.2, eqExpr_sound _ _ h.1.2, eqExpr_sound _ _ h.2⟩
  | .field f t o, b, h => by
    cases b <;> simp [eqExpr] at h ⊢
    exact ⟨h.1.1, eqTy_sound _ _ h.1.2, eqExpr_sound _ _ h.2⟩
  | .index t a i, b, h => by
    cases b <;> simp [eqExpr] at h ⊢
    exact ⟨eqTy_sound _ _ h.1.1, eqExpr_sound _ _ h.1.2, eqExpr_sound _ _ h.2⟩
  | .cast t e, b, h => by
    cases b <;> simp [eqExpr] at h ⊢
    exact ⟨eqTy_sound _ _ h.1, eqExpr_sound _ _ h.2⟩
  | .slit t fs, b, h => by
    cases b <;> simp [eqExpr] at h ⊢
    exact ⟨eqTy_sound _ _ h.1, eqFields_sound _ _ h.2⟩
  | .alit t es, b, h => by
    cases b <;> simp [eqExpr] at h ⊢
    exact ⟨eqTy_sound _ _ h.1, eqExprs_sound _ _ h.2⟩
  | .blocke t ss (some e), b, h => by
    cases b with
    | blocke t' ss' e' =>
      cases e' with
      | none => simp [eqExpr] at h
      | some e'' =>
        simp [eqExpr] at h ⊢
        exact ⟨eqTy_sound _ _ h.1.1, eqStmts_sound _ _ h.1.2, eqExpr_sound _ _ h.2⟩
    | _ => simp [eqExpr] at h
  | .blocke t ss none, b, h => by
    cases b with
    | blocke t' ss' e' =>
      cases e' with
      | none => simp [eqExpr] at h ⊢; exact ⟨eqTy_sound _ _ h.1, eqStmts_sound _ _ h.2⟩
      | some e'' => simp [eqExpr] at h
    | _ => simp [eqExpr] at h
theorem eqExprs_sound : ∀ a b : List GExpr, eqExprs a b = true → a = b
  | [], b, h => by cases b <;> simp [eqExprs] at h ⊢
  | a :: as, b, h => by
    cases b <;> simp [eqExprs] at h ⊢
    exact ⟨eqExpr_sound _ _ h.1, eqExprs_sound _ _ h.2⟩
theorem eqFields_sound : ∀ a b : List GField, eqFields a b = true → a = b
  | [], b, h => by cases b <;> simp [eqFields] at h ⊢
  | .mk n a :: as, b, h => by
    cases b with
    | nil => simp [eqFields] at h
    | cons hd tl =>
      cases hd with
      | mk n' a' =>
        simp [eqFields] at h ⊢
        exact ⟨⟨h.1.1, eqExpr_sound _ _ h.1.2⟩, eqFields_sound _ _ h.2⟩
theorem eqStmts_sound : ∀ a b : List GStmt, eqStmts a b = true → a = b
  | [], b, h => by cases b <;> simp [eqStmts] at h ⊢
  | a :: as, b, h => by
    cases b <;> simp [eqStmts] at h ⊢
    exact ⟨eqStmt_sound _ _ h.1, eqStmts_sound _ _ h.2⟩
theorem eqStmt_sound : ∀ a b : GStmt, eqStmt a b = true → a = b
  | .expr e, b, h => by cases b <;> simp [eqStmt] at h ⊢; exact eqExpr_sound _ _ h
  | .go e, b, h => by cases b <;> simp [eqStmt] at h ⊢; exact eqExpr_sound _ _ h
  | .varDecl x t (some e), b, h => by
    cases b with
    | varDecl x' t' v' =>
      cases v' with
      | none => simp [eqStmt] at h
      | some e' =>
        simp [eqStmt] at h ⊢
        exact ⟨h.1.1, eqTy_sound _ _ h.1.2, eqExpr_sound _ _ h.2⟩
    | _ => simp [eqStmt] at h
  | .varDecl x t none, b, h => by
    cases b with
    | varDecl x' t' v' =>
      cases v' with
      | none => simp [eqStmt] at h ⊢; exact ⟨h.1, eqTy_sound _ _ h.2⟩
      | some e' => simp [eqStmt] at h
    | _ => simp [eqStmt] at h
  | .assign x e, b, h => by cases b <;> simp [eqStmt] at h ⊢; exact ⟨h.1, eqExpr_sound _ _ h.2⟩
  | .fieldAssign t e, b, h => by
    cases b <;> simp [eqStmt] at h ⊢; exact ⟨eqExpr_sound _ _ h.1, eqExpr_sound _ _ h.2⟩
  | .ptrAssign t e, b, h => by
    cases b <;> simp [eqStmt] at h ⊢; exact ⟨eqExpr_sound _ _ h.1, eqExpr_sound _ _ h.2⟩
  | .indexAssign a i e, b, h => by
    cases b <;> simp [eqStmt] at h ⊢
    exact ⟨eqExpr_sound _ _ h.1.1, eqExpr_sound _ _ h.1.2, eqExpr_sound _ _ h.2⟩
  | .ret (some e), b, h => by
    cases b with
    | ret v' =>
      cases v' with
      | none => simp [eqStmt] at h
      | some e' => simp [eqStmt] at h ⊢; exact eqExpr_sound _ _ h
    | _ => simp [eqStmt] at h
  | .ret none, b, h => by
    cases b with
    | ret v' => cases v' <;> simp [eqStmt] at h ⊢
    | _ => simp [eqStmt] at h
  | .ite c t (some e), b, h => by
    cases b with
    | ite c' t' e' =>
      cases e' with
      | none => simp [eqStmt] at h
      | some e'' =>
        simp [eqStmt] at h ⊢
        exact ⟨eqExpr_sound _ _ h.1.1, eqStmts_sound _ _ h.1.2, eqStmts_sound _ _ h.2⟩
    | _ => simp [eqStmt] at h
  | .ite c t none, b, h => by
    cases b with
    | ite c' t' e' =>
      cases e' with
      | none => simp [eqStmt] at h ⊢; exact ⟨eqExpr_sound _ _ h.1, eqStmts_sound _ _ h.2⟩
      | some e'' => simp [eqStmt] at h
    | _ => simp [eqStmt] at h
  | .loop body, b, h => by cases b <;> simp [eqStmt] at h ⊢; exact eqStmts_sound _ _ h
  | .brk, b, h => by cases b <;> simp [eqStmt] at h ⊢
  | .switch e cs (some d), b, h => by
    cases b with
    | «switch» e' cs' d' =>
      cases d' with
      | none => simp [eqStmt] at h
      | some d'' =>
        simp [eqStmt] at h ⊢
        exact ⟨eqExpr_sound _ _ h.1.1, eqCases_sound _ _ h.1.2, eqStmts_sound _ _ h.2⟩
    | _ => simp [eqStmt] at h
  | .switch e cs none, b, h => by
    cases b with
    | «switch» e' cs' d' =>
      cases d' with
      | none => simp [eqStmt] at h ⊢; exact ⟨eqExpr_sound _ _ h.1, eqCases_sound _ _ h.2⟩
      | some d'' => simp [eqStmt] at h
    | _ => simp [eqStmt] at h
  | .tswitch bd e cs (some d), b, h => by
    cases b with
    | tswitch bd' e' cs' d' =>
      cases d' with
      | none => simp [eqStmt] at h
      | some d'' =>
        simp [eqStmt] at h ⊢
        exact ⟨eqOptStr_sound _ _ h.1.1.1, eqExpr_sound _ _ h.1.1.2, eqTCases_sound _ _ h.1.2, eqStmts_sound _ _ h.2⟩
    | _ => simp [eqStmt] at h
  | .tswitch bd e cs none, b, h => by
    cases b with
    | tswitch bd' e' cs' d' =>
      cases d' with
      | none =>
        simp [eqStmt] at h ⊢
        exact ⟨eqOptStr_sound _ _ h.1.1, eqExpr_sound _ _ h.1.2, eqTCases_sound _ _ h.2⟩
      | some d'' => simp [eqStmt] at h
    | _ => simp [eqStmt] at h
theorem eqCases_sound : ∀ a b : List GCase, eqCases a b = true → a = b
  | [], b, h => by cases b <;> simp [eqCases] at h ⊢
  | .mk v a :: as, b, h => by
    cases b with
    | nil => simp [eqCases] at h
    | cons hd tl =>
      cases hd with
      | mk v' a' =>
        simp [eqCases] at h ⊢
        exact ⟨⟨eqExpr_sound _ _ h.1.1, eqStmts_sound _ _ h.1.2⟩, eqCases_sound _ _ h.2⟩
theorem eqTCases_sound : ∀ a b : List GTCase, eqTCases a b = true → a = b
  | [], b, h => by cases b <;> simp [eqTCases] at h ⊢
  | .mk t a :: as, b, h => by
    cases b with
    | nil => simp [eqTCases] at h
    | cons hd tl =>
      cases hd with
      | mk t' a' =>
        simp [eqTCases] at h ⊢
        exact ⟨⟨eqTy_sound _ _ h.1.1, eqStmts_sound _ _ h.1.2⟩, eqTCases_sound _ _ h.2⟩
end
end Goml.Dce
