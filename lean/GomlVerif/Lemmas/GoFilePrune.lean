import GomlVerif.Lemmas.GoFileSim
import GomlVerif.Lemmas.DcePrune
/-!
`Go.Sem` is insensitive to functions that are never reached (used by the file-level lifting of
`dce_preserves` for `prune_dead_functions` and `prune_unused_imports`).

`G'` agrees with `G` on struct declarations and on the functions named in a set `R` that is closed
under "mentions a function of the file" (`PruneRel`); functions outside `R` may be missing in `G'`.
Then, with the SAME fuel, every run whose syntax only mentions functions in `R` and whose values
(environment, heap, spawned calls, arguments) contain no function value outside `R` gives the same
result in `G'` as in `G`, and its result again contains no function value outside `R`
(`prune_all`).  The invariant is needed because function values flow through the heap
(`dyn` vtables) and through variables.
-/
set_option linter.unusedSimpArgs false
set_option linter.unusedVariables false
namespace Goml.Dce
open Goml.Go
open Goml.Sem (Fail)

/-! ### values without function values outside `R` -/

mutual
def vg (ok : String → Bool) : GVal → Bool
  | .func x => ok x
  | .struct _ fs => vgF ok fs
  | .array vs => vgL ok vs
  | _ => true
def vgF (ok : String → Bool) : List (String × GVal) → Bool
  | [] => true
  | (_, v) :: rest => vg ok v && vgF ok rest
def vgL (ok : String → Bool) : List GVal → Bool
  | [] => true
  | v :: rest => vg ok v && vgL ok rest
end

section
variable {ok : String → Bool}

theorem vgL_mem : ∀ {vs : List GVal} {v : GVal}, vgL ok vs = true → v ∈ vs → vg ok v = true
  | a :: rest, v, h, hm => by
    simp only [vgL, Bool.and_eq_true] at h
    cases hm with
    | head => exact h.1
    | tail _ hm => exact vgL_mem h.2 hm

theorem vgL_of_forall : ∀ {vs : List GVal}, (∀ v, v ∈ vs → vg ok v = true) → vgL ok vs = true
  | [], _ => rfl
  | a :: rest, h => by
    simp only [vgL, Bool.and_eq_true]
    exact ⟨h a List.mem_cons_self, vgL_of_forall (fun v hv => h v (List.mem_cons_of_mem _ hv))⟩

theorem vgL_iff {vs : List GVal} : vgL ok vs = true ↔ ∀ v, v ∈ vs → vg ok v = true :=
  ⟨fun h v hv => vgL_mem h hv, vgL_of_forall⟩

theorem vgL_append {a b : List GVal} (ha : vgL ok a = true) (hb : vgL ok b = true) : vgL ok (a ++ b) = true := by
  rw [vgL_iff] at *
  intro v hv
  rcases List.mem_append.mp hv with h | h
  · exact ha v h
  · exact hb v h

theorem vgL_get {vs : List GVal} {i : Nat} {v : GVal} (h : vgL ok vs = true) (hi : vs[i]? = some v) : vg ok v = true :=
  vgL_mem h (List.mem_of_getElem? hi)

theorem vgL_set {vs : List GVal} {v : GVal} (h : vgL ok vs = true) (hv : vg ok v = true) (i : Nat) :
    vgL ok (vs.set i v) = true := by
  rw [vgL_iff] at *
  intro u hu
  rcases List.mem_or_eq_of_mem_set hu with h1 | h1
  · exact h u h1
  · rw [h1]; exact hv

theorem vgL_take {vs : List GVal} (h : vgL ok vs = true) (n : Nat) : vgL ok (vs.take n) = true := by
  rw [vgL_iff] at *
  intro u hu; exact h u (List.mem_of_mem_take hu)

theorem vgL_replicate (n : Nat) {v : GVal} (hv : vg ok v = true) : vgL ok (List.replicate n v) = true := by
  rw [vgL_iff]
  intro u hu
  rw [(List.mem_replicate.mp hu).2]; exact hv

theorem vgF_mem : ∀ {fs : List (String × GVal)} {p : String × GVal}, vgF ok fs = true → p ∈ fs → vg ok p.2 = true
  | (x, a) :: rest, p, h, hm => by
    simp only [vgF, Bool.and_eq_true] at h
    cases hm with
    | head => exact h.1
    | tail _ hm => exact vgF_mem h.2 hm

theorem vgF_of_forall : ∀ {fs : List (String × GVal)}, (∀ p, p ∈ fs → vg ok p.2 = true) → vgF ok fs = true
  | [], _ => rfl
  | (x, a) :: rest, h => by
    simp only [vgF, Bool.and_eq_true]
    exact ⟨h (x, a) List.mem_cons_self, vgF_of_forall (fun p hp => h p (List.mem_cons_of_mem _ hp))⟩

theorem vgF_iff {fs : List (String × GVal)} : vgF ok fs = true ↔ ∀ p, p ∈ fs → vg ok p.2 = true :=
  ⟨fun h p hp => vgF_mem h hp, vgF_of_forall⟩

theorem vgF_lookup {fs : List (String × GVal)} {x : String} {v : GVal} (h : vgF ok fs = true)
    (hl : lookupG fs x = some v) : vg ok v = true := by
  unfold lookupG at hl
  cases hf : fs.find? (·.1 == x) with
  | none => rw [hf] at hl; cases hl
  | some p =>
    rw [hf] at hl
    simp only [Option.some.injEq] at hl
    subst hl
    exact vgF_mem h (List.mem_of_find?_eq_some hf)

theorem vgF_update : ∀ {ρ : GEnv} {v : GVal} (x : String), vgF ok ρ = true → vg ok v = true →
    vgF ok (updateG ρ x v) = true
  | [], v, x, _, _ => rfl
  | (y, u) :: rest, v, x, h, hv => by
    simp only [vgF, Bool.and_eq_true] at h
    unfold updateG
    split
    · simp only [vgF, Bool.and_eq_true]; exact ⟨hv, h.2⟩
    · simp only [vgF, Bool.and_eq_true]; exact ⟨h.1, vgF_update x h.2 hv⟩

theorem vgF_setField : ∀ {fs : List (String × GVal)} {v : GVal} (f : String), vgF ok fs = true → vg ok v = true →
    vgF ok (setField fs f v) = true
  | [], v, x, _, _ => rfl
  | (y, u) :: rest, v, x, h, hv => by
    simp only [vgF, Bool.and_eq_true] at h
    unfold setField
    split
    · simp only [vgF, Bool.and_eq_true]; exact ⟨hv, h.2⟩
    · simp only [vgF, Bool.and_eq_true]; exact ⟨h.1, vgF_setField x h.2 hv⟩

theorem vgF_drop {ρ : GEnv} (h : vgF ok ρ = true) (n : Nat) : vgF ok (ρ.drop n) = true := by
  rw [vgF_iff] at *
  intro p hp; exact h p (List.mem_of_mem_drop hp)

theorem vgF_bindG : ∀ (ps : List (String × GTy)) {args : List GVal}, vgL ok args = true →
    vgF ok (bindG ps args) = true
  | [], _, _ => rfl
  | _ :: _, [], _ => rfl
  | p :: ps, a :: as, h => by
    simp only [vgL, Bool.and_eq_true] at h
    have := vgF_bindG ps h.2
    simp only [bindG, List.zip_cons_cons, List.map_cons, vgF, Bool.and_eq_true] at this ⊢
    exact ⟨h.1, this⟩

/-- the zero value of a type contains no function value -/
theorem vg_zeroWith (sf : String → Option (List (String × GTy))) : ∀ (k : Nat) (t : GTy), vg ok (zeroWith sf k t) = true
  | 0, t => by simp [zeroWith, vg]
  | k + 1, t => by
    have hmap : ∀ fs : List (String × GTy), vgF ok (fs.map fun p => (p.1, zeroWith sf k p.2)) = true := by
      intro fs
      rw [vgF_iff]
      intro p hp
      simp only [List.mem_map] at hp
      obtain ⟨q, _, rfl⟩ := hp
      exact vg_zeroWith sf k q.2
    cases t <;> simp only [zeroWith, vg]
    · exact hmap _
    · split
      · simp only [vg]; exact hmap _
      · rfl
    · exact vgL_replicate _ (vg_zeroWith sf k _)

theorem vg_zero (F : GFile) (t : GTy) : vg ok (zero F t) = true := vg_zeroWith _ _ _

end

/-! ### operators produce no function values -/
section
variable {ok : String → Bool}

theorem gbin_good {op : GBin} {a b v : GVal} (h : gbin op a b = .ok v) : vg ok v = true := by
  unfold gbin at h
  split at h <;> (try split at h) <;> first
    | (cases h; rfl)
    | (simp at h; done)
    | (injection h with h; subst h; rfl)

theorem convert_good {ty : GTy} {v r : GVal} (h : convert ty v = .ok r) (hv : vg ok v = true) : vg ok r = true := by
  unfold convert at h
  split at h <;> first
    | (injection h with h; subst h; first | rfl | exact hv)

end

/-! ### worlds, results -/

def WG (ok : String → Bool) (w : GWorld) : Prop :=
  vgL ok w.heap.toList = true ∧ ∀ p, p ∈ w.spawned → vg ok p.1 = true ∧ vgL ok p.2 = true

def RG {α : Type} (ok : String → Bool) (P : α → Prop) : GRes α → Prop
  | .ok a w => P a ∧ WG ok w
  | .fail _ _ => True

def sigG (ok : String → Bool) : Sig → Prop
  | .ret v => vg ok v = true
  | _ => True

/-- environment and signal of a block result -/
def PS (ok : String → Bool) (p : GEnv × Sig) : Prop := vgF ok p.1 = true ∧ sigG ok p.2

section
variable {ok : String → Bool}

theorem WG.heap_get {w : GWorld} (h : WG ok w) {l : Nat} {v : GVal} (hl : w.heap[l]? = some v) : vg ok v = true := by
  apply vgL_get h.1 (i := l)
  simpa using hl

theorem WG.push {w : GWorld} (h : WG ok w) {v : GVal} (hv : vg ok v = true) :
    WG ok { w with heap := w.heap.push v } := by
  refine ⟨?_, h.2⟩
  simp only [Array.toList_push]
  exact vgL_append h.1 (by simp [vgL, hv])

theorem WG.set {w : GWorld} (h : WG ok w) {v : GVal} (hv : vg ok v = true) (l : Nat) :
    WG ok { w with heap := w.heap.set! l v } := by
  refine ⟨?_, h.2⟩
  simp only [Array.set!_eq_setIfInBounds, Array.toList_setIfInBounds]
  exact vgL_set h.1 hv l

theorem WG.out {w : GWorld} (h : WG ok w) (s : String) : WG ok { w with out := s } := ⟨h.1, h.2⟩
theorem WG.externs {w : GWorld} (h : WG ok w) (s : List String) : WG ok { w with externs := s } := ⟨h.1, h.2⟩

theorem WG.spawn {w : GWorld} (h : WG ok w) {fv : GVal} {vs : List GVal} (hf : vg ok fv = true) (hv : vgL ok vs = true) :
    WG ok { w with spawned := w.spawned ++ [(fv, vs)] } := by
  refine ⟨h.1, ?_⟩
  intro p hp
  rcases List.mem_append.mp hp with h1 | h1
  · exact h.2 p h1
  · simp only [List.mem_singleton] at h1; subst h1; exact ⟨hf, hv⟩

end

/-! ### the relation between the two files -/

/-- `G'` is `G` without (some of) the functions outside `R`; `fns` = the function names of `G` -/
structure PruneRel (G G' : GFile) (fns R : Names) : Prop where
  like : FileLike G G'
  keep : ∀ x, x ∈ R → G'.findFunc x = G.findFunc x
  none : ∀ x, G.findFunc x = none → G'.findFunc x = none
  fnsSpec : ∀ x fn, G.findFunc x = some fn → x ∈ fns
  closed : ∀ x fn, x ∈ R → G.findFunc x = some fn → ∀ y, y ∈ calledStmts fns fn.body → y ∈ R

/-- a name that is not a dropped function -/
def okName (fns R : Names) (x : String) : Bool := !fns.contains x || R.contains x

/-! ### the lock-step statement -/

section
variable {G G' : GFile} {fns R : Names}

local notation "okN" => okName fns R

/-- the statement at one fuel: same result in both files, and the result is again free of
    function values outside `R` -/
structure PAt (G G' : GFile) (fns R : Names) (n : Nat) : Prop where
  ev : ∀ {ρ w e}, vgF (okName fns R) ρ = true → WG (okName fns R) w → (∀ y, y ∈ calledExpr fns e → y ∈ R) →
    ∃ r, evalG n G ρ w e = r ∧ evalG n G' ρ w e = r ∧ RG (okName fns R) (fun v => vg (okName fns R) v = true) r
  el : ∀ {ρ w es}, vgF (okName fns R) ρ = true → WG (okName fns R) w → (∀ y, y ∈ calledList fns es → y ∈ R) →
    ∃ r, evalListG n G ρ w es = r ∧ evalListG n G' ρ w es = r ∧ RG (okName fns R) (fun vs => vgL (okName fns R) vs = true) r
  ef : ∀ {ρ w fs}, vgF (okName fns R) ρ = true → WG (okName fns R) w → (∀ y, y ∈ calledFields fns fs → y ∈ R) →
    ∃ r, evalFieldsG n G ρ w fs = r ∧ evalFieldsG n G' ρ w fs = r ∧ RG (okName fns R) (fun vs => vgF (okName fns R) vs = true) r
  cl : ∀ {w f args}, vg (okName fns R) f = true → vgL (okName fns R) args = true → WG (okName fns R) w →
    ∃ r, callG n G w f args = r ∧ callG n G' w f args = r ∧ RG (okName fns R) (fun v => vg (okName fns R) v = true) r
  bl : ∀ {ρ w ss}, vgF (okName fns R) ρ = true → WG (okName fns R) w → (∀ y, y ∈ calledStmts fns ss → y ∈ R) →
    ∃ r, execBlockG n G ρ w ss = r ∧ execBlockG n G' ρ w ss = r ∧ RG (okName fns R) (PS (okName fns R)) r
  ne : ∀ {ρ w ss}, vgF (okName fns R) ρ = true → WG (okName fns R) w → (∀ y, y ∈ calledStmts fns ss → y ∈ R) →
    ∃ r, nestedG n G ρ w ss = r ∧ nestedG n G' ρ w ss = r ∧ RG (okName fns R) (PS (okName fns R)) r
  ex : ∀ {ρ w s}, vgF (okName fns R) ρ = true → WG (okName fns R) w → (∀ y, y ∈ calledStmt fns s → y ∈ R) →
    ∃ r, execG n G ρ w s = r ∧ execG n G' ρ w s = r ∧ RG (okName fns R) (PS (okName fns R)) r
  sw : ∀ {ρ w v cs d}, vgF (okName fns R) ρ = true → WG (okName fns R) w → vg (okName fns R) v = true →
    (∀ y, y ∈ calledCases fns cs → y ∈ R) → (∀ b, d = some b → ∀ y, y ∈ calledStmts fns b → y ∈ R) →
    ∃ r, switchG n G ρ w v cs d = r ∧ switchG n G' ρ w v cs d = r ∧ RG (okName fns R) (PS (okName fns R)) r
  ts : ∀ {ρ w v cs d}, vgF (okName fns R) ρ = true → WG (okName fns R) w → vg (okName fns R) v = true →
    (∀ y, y ∈ calledTCases fns cs → y ∈ R) → (∀ b, d = some b → ∀ y, y ∈ calledStmts fns b → y ∈ R) →
    ∃ r, tswitchG n G ρ w v cs d = r ∧ tswitchG n G' ρ w v cs d = r ∧ RG (okName fns R) (PS (okName fns R)) r

set_option hygiene false in
/-- the next recursive call: same result in both files by the induction hypothesis `t`; rewrite it
    on both sides; if it failed both sides fail alike, otherwise go on with the value `v`, the
    world `w` and the invariant `g` -/
macro "pcall " v:ident w:ident g:ident " : " t:term : tactic => `(tactic|
  (obtain ⟨r1, a1, b1, g1⟩ := $t
   simp only [a1, b1]
   clear a1 b1
   cases r1
   rotate_left
   · exact ⟨_, rfl, rfl, trivial⟩
   rename_i $v:ident $w:ident
   have $g:ident := g1
   clear g1
   try simp only []))

set_option hygiene false in
/-- sub-syntax mentions only what the whole mentions -/
macro "sub" : tactic => `(tactic|
  (intro y hy; apply hs; simp only [calledExpr, calledList, calledFields, calledStmts, calledStmt, calledCases,
     calledTCases, mem_uni]; simp [hy]))

theorem pL (n : Nat) (ih : PAt G G' fns R n) : ∀ ρ w es, vgF okN ρ = true → WG okN w →
    (∀ y, y ∈ calledList fns es → y ∈ R) →
    ∃ r, evalListG (n+1) G ρ w es = r ∧ evalListG (n+1) G' ρ w es = r ∧ RG okN (fun vs => vgL okN vs = true) r := by
  intro ρ w es hρ hw hs
  cases es with
  | nil =>
    rw [evalListG.eq_def (fuel := n+1) (F := G), evalListG.eq_def (fuel := n+1) (F := G')]
    exact ⟨_, rfl, rfl, rfl, hw⟩
  | cons e rest =>
    rw [evalListG.eq_def (fuel := n+1) (F := G), evalListG.eq_def (fuel := n+1) (F := G')]
    simp only []
    pcall v1 w1 g1 : ih.ev (e := e) hρ hw (by sub)
    pcall v2 w2 g2 : ih.el (es := rest) hρ g1.2 (by sub)
    exact ⟨_, rfl, rfl, by simp [vgL, g1.1, g2.1], g2.2⟩

theorem pF (n : Nat) (ih : PAt G G' fns R n) : ∀ ρ w fs, vgF okN ρ = true → WG okN w →
    (∀ y, y ∈ calledFields fns fs → y ∈ R) →
    ∃ r, evalFieldsG (n+1) G ρ w fs = r ∧ evalFieldsG (n+1) G' ρ w fs = r ∧ RG okN (fun vs => vgF okN vs = true) r := by
  intro ρ w fs hρ hw hs
  cases fs with
  | nil =>
    rw [evalFieldsG.eq_def (fuel := n+1) (F := G), evalFieldsG.eq_def (fuel := n+1) (F := G')]
    exact ⟨_, rfl, rfl, rfl, hw⟩
  | cons fd rest =>
    cases fd with
    | mk nm e =>
      rw [evalFieldsG.eq_def (fuel := n+1) (F := G), evalFieldsG.eq_def (fuel := n+1) (F := G')]
      simp only []
      pcall v1 w1 g1 : ih.ev (e := e) hρ hw (by sub)
      pcall v2 w2 g2 : ih.ef (fs := rest) hρ g1.2 (by sub)
      exact ⟨_, rfl, rfl, by simp [vgF, g1.1, g2.1], g2.2⟩

theorem ok_of_var {x : String} {t : GTy} (hs : ∀ y, y ∈ calledExpr fns (.var x t) → y ∈ R) : okName fns R x = true := by
  unfold okName
  by_cases hx : fns.contains x = true
  · have : x ∈ R := hs x (by simp only [calledExpr, hx, if_true]; exact List.mem_cons_self)
    simp [this]
  · have hx' : ¬ x ∈ fns := by simpa using hx
    simp [hx']

theorem pE (hR : PruneRel G G' fns R) (n : Nat) (ih : PAt G G' fns R n) : ∀ ρ w e, vgF okN ρ = true → WG okN w →
    (∀ y, y ∈ calledExpr fns e → y ∈ R) →
    ∃ r, evalG (n+1) G ρ w e = r ∧ evalG (n+1) G' ρ w e = r ∧ RG okN (fun v => vg okN v = true) r := by
  intro ρ w e hρ hw hs
  rw [evalG.eq_def (fuel := n+1) (F := G), evalG.eq_def (fuel := n+1) (F := G')]
  cases e with
  | nil t => exact ⟨_, rfl, rfl, rfl, hw⟩
  | voidv t => exact ⟨_, rfl, rfl, rfl, hw⟩
  | unitv t => exact ⟨_, rfl, rfl, rfl, hw⟩
  | bool b => exact ⟨_, rfl, rfl, rfl, hw⟩
  | str v => exact ⟨_, rfl, rfl, rfl, hw⟩
  | var x t =>
    simp only []
    cases hl : lookupG ρ x with
    | none => exact ⟨_, rfl, rfl, ok_of_var hs, hw⟩
    | some v => exact ⟨_, rfl, rfl, vgF_lookup hρ hl, hw⟩
  | int v t =>
    simp only []
    refine ⟨_, rfl, rfl, ?_⟩
    split <;> first | trivial | exact ⟨rfl, hw⟩
  | float v t =>
    simp only []
    refine ⟨_, rfl, rfl, ?_⟩
    split <;> exact ⟨rfl, hw⟩
  | call t f args =>
    simp only []
    pcall v1 w1 g1 : ih.ev (e := f) hρ hw (by sub)
    pcall v2 w2 g2 : ih.el (es := args) hρ g1.2 (by sub)
    exact ih.cl g1.1 g2.1 g2.2
  | un op t e =>
    simp only []
    cases op <;> simp only []
    case addr =>
      pcall v1 w1 g1 : ih.ev (e := e) hρ hw (by sub)
      exact ⟨_, rfl, rfl, rfl, g1.2.push g1.1⟩
    all_goals
      pcall v1 w1 g1 : ih.ev (e := e) hρ hw (by sub)
      refine ⟨_, rfl, rfl, ?_⟩
      split <;> first
        | trivial
        | exact ⟨rfl, g1.2⟩
        | (split <;> first | trivial | exact ⟨g1.2.heap_get ‹_›, g1.2⟩)
  | bin op t l r' =>
    simp only []
    pcall a w1 g1 : ih.ev (e := l) hρ hw (by sub)
    have hfin : ∀ (w2 : GWorld) (b : GVal), WG okN w2 →
        RG okN (fun v => vg okN v = true)
          (match gbin op a b with | .ok v => GRes.ok v w2 | .error f => GRes.fail f w2) := by
      intro w2 b hw2
      cases hg : gbin op a b with
      | ok v => exact ⟨gbin_good hg, hw2⟩
      | error f => trivial
    cases a with
    | bool b =>
      cases b
      · cases op
        case and => exact ⟨_, rfl, rfl, rfl, g1.2⟩
        case or =>
          simp only []
          pcall b2 w2 g2 : ih.ev (e := r') hρ g1.2 (by sub)
          exact ⟨_, rfl, rfl, g2⟩
        all_goals
          simp only []
          pcall b2 w2 g2 : ih.ev (e := r') hρ g1.2 (by sub)
          exact ⟨_, rfl, rfl, hfin w2 b2 g2.2⟩
      · cases op
        case or => exact ⟨_, rfl, rfl, rfl, g1.2⟩
        case and =>
          simp only []
          pcall b2 w2 g2 : ih.ev (e := r') hρ g1.2 (by sub)
          exact ⟨_, rfl, rfl, g2⟩
        all_goals
          simp only []
          pcall b2 w2 g2 : ih.ev (e := r') hρ g1.2 (by sub)
          exact ⟨_, rfl, rfl, hfin w2 b2 g2.2⟩
    | _ =>
      cases op <;>
        (simp only []
         pcall b2 w2 g2 : ih.ev (e := r') hρ g1.2 (by sub)
         exact ⟨_, rfl, rfl, hfin w2 b2 g2.2⟩)
  | field f t o =>
    simp only []
    pcall v1 w1 g1 : ih.ev (e := o) hρ hw (by sub)
    refine ⟨_, rfl, rfl, ?_⟩
    cases v1 <;> (try simp only []) <;> try trivial
    · rename_i sn fs
      have hfs : vgF okN fs = true := by simpa [vg] using g1.1
      cases hl : lookupG fs f with
      | none => trivial
      | some u => exact ⟨vgF_lookup hfs hl, g1.2⟩
    · rename_i l
      cases hh : w1.heap[l]? with
      | none => trivial
      | some hv =>
        have hst := g1.2.heap_get hh
        cases hv <;> (try simp only []) <;> try trivial
        rename_i sn fs
        simp only [vg] at hst
        cases hl : lookupG fs f with
        | none => trivial
        | some u => exact ⟨vgF_lookup hst hl, g1.2⟩
    · split <;> trivial
  | index t a i =>
    simp only []
    pcall va w1 g1 : ih.ev (e := a) hρ hw (by sub)
    pcall vi w2 g2 : ih.ev (e := i) hρ g1.2 (by sub)
    refine ⟨_, rfl, rfl, ?_⟩
    cases vi <;> (try simp only []) <;> try trivial
    rename_i ib is iv
    split
    · trivial
    · cases va <;> (try simp only []) <;> try trivial
      · rename_i s
        split <;> first | trivial | exact ⟨rfl, g2.2⟩
      · rename_i vs
        have hvs : vgL okN vs = true := by simpa [vg] using g1.1
        cases hi : vs[iv.toNat]? with
        | none => trivial
        | some u => exact ⟨vgL_get hvs hi, g2.2⟩
      · rename_i loc len cap
        split
        · trivial
        · cases hh : w2.heap[loc]? with
          | none => trivial
          | some hv =>
            have hst := g2.2.heap_get hh
            cases hv <;> (try simp only []) <;> try trivial
            rename_i vs
            simp only [vg] at hst
            cases hi : vs[iv.toNat]? with
            | none => trivial
            | some u => exact ⟨vgL_get hst hi, g2.2⟩
  | cast t e =>
    simp only []
    pcall v1 w1 g1 : ih.ev (e := e) hρ hw (by sub)
    refine ⟨_, rfl, by simp only [hR.like.si], ?_⟩
    have hconv : RG okN (fun v => vg okN v = true)
        (match convert t v1 with | .ok r => GRes.ok r w1 | .error f => GRes.fail f w1) := by
      cases hc : convert t v1 with
      | ok r => exact ⟨convert_good hc g1.1, g1.2⟩
      | error f => trivial
    split
    · split <;> first | trivial | exact ⟨g1.1, g1.2⟩
    · exact hconv
  | slit t fs =>
    simp only []
    pcall v1 w1 g1 : ih.ef (fs := fs) hρ hw (by sub)
    refine ⟨_, rfl, by simp only [hR.like.sf, hR.like.zero], ?_⟩
    refine ⟨?_, g1.2⟩
    simp only [vg]
    split
    · rw [vgF_iff]
      intro p hp
      simp only [List.mem_map] at hp
      obtain ⟨q, _, rfl⟩ := hp
      simp only []
      cases hl : lookupG v1 q.1 with
      | none => simpa using vg_zero G q.2
      | some u => simpa using vgF_lookup g1.1 hl
    · exact g1.1
  | alit t es =>
    simp only []
    pcall v1 w1 g1 : ih.el (es := es) hρ hw (by sub)
    refine ⟨_, rfl, rfl, ?_⟩
    split
    · exact ⟨rfl, g1.2.push (by simpa [vg] using g1.1)⟩
    · exact ⟨by simpa [vg] using g1.1, g1.2⟩
  | blocke t ss e =>
    cases e with
    | none =>
      simp only []
      pcall p w1 g1 : ih.bl (ss := ss) hρ hw (by sub)
      obtain ⟨ρ', sig⟩ := p
      cases sig <;> simp only []
      · exact ⟨_, rfl, rfl, rfl, g1.2⟩
      · exact ⟨_, rfl, rfl, trivial⟩
      · exact ⟨_, rfl, rfl, g1.1.2, g1.2⟩
    | some e =>
      simp only []
      pcall p w1 g1 : ih.bl (ss := ss) hρ hw (by sub)
      obtain ⟨ρ', sig⟩ := p
      cases sig <;> simp only []
      · exact ih.ev (e := e) g1.1.1 g1.2 (by sub)
      · exact ⟨_, rfl, rfl, trivial⟩
      · exact ⟨_, rfl, rfl, g1.1.2, g1.2⟩

/-- what a call of a name that is no function of the file returns (builtins, conversions, extern
    events) contains no function value that its arguments and the heap did not contain -/
theorem builtin_good {ok : String → Bool} (F : GFile) (n : Nat) (name : String) (args : List GVal) (w : GWorld)
    (hnone : F.findFunc name = none) (ha : vgL ok args = true) (hw : WG ok w) :
    RG ok (fun v => vg ok v = true) (callG (n+1) F w (.func name) args) := by
  have hconv : ∀ (ty : GTy) (v : GVal), vg ok v = true →
      RG ok (fun v => vg ok v = true) (match convert ty v with | .ok r => GRes.ok r w | .error f => GRes.fail f w) := by
    intro ty v hv
    cases hc : convert ty v with
    | ok r => exact ⟨convert_good hc hv, hw⟩
    | error f => trivial
  rw [callG.eq_def]; simp only [hnone]
  split
  all_goals try (first | trivial | exact ⟨rfl, hw⟩ | exact ⟨rfl, hw.out _⟩)
  · -- strings.ReplaceAll
    split <;> first | trivial | exact ⟨rfl, hw⟩
  · -- append to a slice
    rename_i loc len cap v
    have hv : vg ok v = true := by
      simp only [vgL, Bool.and_eq_true] at ha; exact ha.2.1
    cases hh : w.heap[loc]? with
    | none => trivial
    | some hvl =>
      have hst := hw.heap_get hh
      cases hvl <;> (try simp only []) <;> try trivial
      rename_i vs
      simp only [vg] at hst
      split
      · exact ⟨rfl, hw.set (by simp only [vg]; exact vgL_set hst hv _) _⟩
      · refine ⟨rfl, hw.push ?_⟩
        simp only [vg]
        exact vgL_append (vgL_append (vgL_take hst _) (by simp [vgL, hv])) (vgL_replicate _ rfl)
  · -- append to nil
    rename_i v
    have hv : vg ok v = true := by
      simp only [vgL, Bool.and_eq_true] at ha; exact ha.2.1
    refine ⟨rfl, hw.push ?_⟩
    simp only [vg, vgL, Bool.and_eq_true]
    exact ⟨hv, vgL_replicate _ rfl⟩
  · -- conversions `T(v)` and unknown one-argument callees
    simp only [vgL, Bool.and_eq_true] at ha
    have hv := ha.1
    split
    · exact hconv _ _ hv
    · split
      · exact hconv _ _ hv
      · split
        · exact hconv _ _ hv
        · exact ⟨rfl, hw.externs _⟩

theorem pC (hR : PruneRel G G' fns R) (n : Nat) (ih : PAt G G' fns R n) : ∀ w f args, vg okN f = true →
    vgL okN args = true → WG okN w →
    ∃ r, callG (n+1) G w f args = r ∧ callG (n+1) G' w f args = r ∧ RG okN (fun v => vg okN v = true) r := by
  intro w f args hf ha hw
  cases f with
  | func name =>
    cases hfind : G.findFunc name with
    | none =>
      have h' := hR.none name hfind
      refine ⟨_, rfl, ?_, builtin_good G n name args w hfind ha hw⟩
      rw [callG.eq_def (fuel := n+1) (F := G), callG.eq_def (fuel := n+1) (F := G')]
      simp only [hfind, h']
    | some fn =>
      have hmem := hR.fnsSpec name fn hfind
      have hRn : name ∈ R := by
        simp only [vg, okName, Bool.or_eq_true, Bool.not_eq_true', List.contains_eq_mem, decide_eq_false_iff_not,
          decide_eq_true_eq] at hf
        rcases hf with hf | hf
        · exact absurd hmem hf
        · exact hf
      have h' : G'.findFunc name = some fn := by rw [hR.keep name hRn]; exact hfind
      by_cases hlen : fn.params.length = args.length
      · rw [callG_some hfind hlen, callG_some h' hlen]
        obtain ⟨r0, a0, b0, g0⟩ := ih.bl (ss := fn.body) (vgF_bindG fn.params ha) hw (hR.closed name fn hRn hfind)
        rw [a0, b0]
        refine ⟨_, rfl, rfl, ?_⟩
        cases r0 with
        | fail f w' => trivial
        | ok p w' =>
          obtain ⟨ρ', sig⟩ := p
          cases sig
          · exact ⟨rfl, g0.2⟩
          · exact ⟨rfl, g0.2⟩
          · exact ⟨g0.1.2, g0.2⟩
      · have har : (fn.params.length != args.length) = true := by simp [hlen]
        rw [callG.eq_def (fuel := n+1) (F := G), callG.eq_def (fuel := n+1) (F := G')]
        simp only [hfind, h', har, if_true]
        exact ⟨_, rfl, rfl, trivial⟩
  | void => rw [callG.eq_def (fuel := n+1) (F := G), callG.eq_def (fuel := n+1) (F := G')]; exact ⟨_, rfl, rfl, trivial⟩
  | unit => rw [callG.eq_def (fuel := n+1) (F := G), callG.eq_def (fuel := n+1) (F := G')]; exact ⟨_, rfl, rfl, trivial⟩
  | bool b => rw [callG.eq_def (fuel := n+1) (F := G), callG.eq_def (fuel := n+1) (F := G')]; exact ⟨_, rfl, rfl, trivial⟩
  | int a b c => rw [callG.eq_def (fuel := n+1) (F := G), callG.eq_def (fuel := n+1) (F := G')]; exact ⟨_, rfl, rfl, trivial⟩
  | float a b => rw [callG.eq_def (fuel := n+1) (F := G), callG.eq_def (fuel := n+1) (F := G')]; exact ⟨_, rfl, rfl, trivial⟩
  | str a => rw [callG.eq_def (fuel := n+1) (F := G), callG.eq_def (fuel := n+1) (F := G')]; exact ⟨_, rfl, rfl, trivial⟩
  | struct a b => rw [callG.eq_def (fuel := n+1) (F := G), callG.eq_def (fuel := n+1) (F := G')]; exact ⟨_, rfl, rfl, trivial⟩
  | ptr a => rw [callG.eq_def (fuel := n+1) (F := G), callG.eq_def (fuel := n+1) (F := G')]; exact ⟨_, rfl, rfl, trivial⟩
  | nilv => rw [callG.eq_def (fuel := n+1) (F := G), callG.eq_def (fuel := n+1) (F := G')]; exact ⟨_, rfl, rfl, trivial⟩
  | array a => rw [callG.eq_def (fuel := n+1) (F := G), callG.eq_def (fuel := n+1) (F := G')]; exact ⟨_, rfl, rfl, trivial⟩
  | slice a b c => rw [callG.eq_def (fuel := n+1) (F := G), callG.eq_def (fuel := n+1) (F := G')]; exact ⟨_, rfl, rfl, trivial⟩

theorem pB (n : Nat) (ih : PAt G G' fns R n) : ∀ ρ w ss, vgF okN ρ = true → WG okN w →
    (∀ y, y ∈ calledStmts fns ss → y ∈ R) →
    ∃ r, execBlockG (n+1) G ρ w ss = r ∧ execBlockG (n+1) G' ρ w ss = r ∧ RG okN (PS okN) r := by
  intro ρ w ss hρ hw hs
  rw [execBlockG.eq_def (fuel := n+1) (F := G), execBlockG.eq_def (fuel := n+1) (F := G')]
  cases ss with
  | nil => exact ⟨_, rfl, rfl, ⟨hρ, trivial⟩, hw⟩
  | cons s rest =>
    simp only []
    pcall p w1 g1 : ih.ex (s := s) hρ hw (by sub)
    obtain ⟨ρ', sig⟩ := p
    cases sig <;> simp only []
    · exact ih.bl (ss := rest) g1.1.1 g1.2 (by sub)
    · exact ⟨_, rfl, rfl, g1⟩
    · exact ⟨_, rfl, rfl, g1⟩

theorem pN (n : Nat) (ih : PAt G G' fns R n) : ∀ ρ w ss, vgF okN ρ = true → WG okN w →
    (∀ y, y ∈ calledStmts fns ss → y ∈ R) →
    ∃ r, nestedG (n+1) G ρ w ss = r ∧ nestedG (n+1) G' ρ w ss = r ∧ RG okN (PS okN) r := by
  intro ρ w ss hρ hw hs
  rw [nestedG.eq_def (fuel := n+1) (F := G), nestedG.eq_def (fuel := n+1) (F := G')]
  simp only []
  pcall p w1 g1 : ih.bl (ss := ss) hρ hw hs
  obtain ⟨ρ', sig⟩ := p
  exact ⟨_, rfl, rfl, ⟨vgF_drop g1.1.1 _, g1.1.2⟩, g1.2⟩

theorem pS (n : Nat) (ih : PAt G G' fns R n) : ∀ ρ w v cs d, vgF okN ρ = true → WG okN w → vg okN v = true →
    (∀ y, y ∈ calledCases fns cs → y ∈ R) → (∀ b, d = some b → ∀ y, y ∈ calledStmts fns b → y ∈ R) →
    ∃ r, switchG (n+1) G ρ w v cs d = r ∧ switchG (n+1) G' ρ w v cs d = r ∧ RG okN (PS okN) r := by
  intro ρ w v cs d hρ hw hv hs hd
  rw [switchG.eq_def (fuel := n+1) (F := G), switchG.eq_def (fuel := n+1) (F := G')]
  cases cs with
  | nil =>
    cases d with
    | none => exact ⟨_, rfl, rfl, ⟨hρ, trivial⟩, hw⟩
    | some b => exact ih.ne (ss := b) hρ hw (hd b rfl)
  | cons c rest =>
    cases c with
    | mk ce body =>
      simp only []
      pcall cv w1 g1 : ih.ev (e := ce) hρ hw (by sub)
      by_cases hc : (gvalEq cv v).getD false = true
      · simp only [hc, if_true]
        exact ih.ne (ss := body) hρ g1.2 (by sub)
      · simp only [hc, if_false, Bool.false_eq_true]
        exact ih.sw (cs := rest) (d := d) hρ g1.2 hv (by sub) hd

theorem pT (n : Nat) (ih : PAt G G' fns R n) : ∀ ρ w v cs d, vgF okN ρ = true → WG okN w → vg okN v = true →
    (∀ y, y ∈ calledTCases fns cs → y ∈ R) → (∀ b, d = some b → ∀ y, y ∈ calledStmts fns b → y ∈ R) →
    ∃ r, tswitchG (n+1) G ρ w v cs d = r ∧ tswitchG (n+1) G' ρ w v cs d = r ∧ RG okN (PS okN) r := by
  intro ρ w v cs d hρ hw hv hs hd
  rw [tswitchG.eq_def (fuel := n+1) (F := G), tswitchG.eq_def (fuel := n+1) (F := G')]
  cases cs with
  | nil =>
    cases d with
    | none => exact ⟨_, rfl, rfl, ⟨hρ, trivial⟩, hw⟩
    | some b => exact ih.ne (ss := b) hρ hw (hd b rfl)
  | cons c rest =>
    cases c with
    | mk ty body =>
      simp only []
      split
      all_goals
        split
        · exact ih.ne (ss := body) hρ hw (by sub)
        · exact ih.ts (cs := rest) (d := d) hρ hw hv (by sub) hd

theorem pX (hR : PruneRel G G' fns R) (n : Nat) (ih : PAt G G' fns R n) : ∀ ρ w s, vgF okN ρ = true → WG okN w →
    (∀ y, y ∈ calledStmt fns s → y ∈ R) →
    ∃ r, execG (n+1) G ρ w s = r ∧ execG (n+1) G' ρ w s = r ∧ RG okN (PS okN) r := by
  intro ρ w s hρ hw hs
  rw [execG.eq_def (fuel := n+1) (F := G), execG.eq_def (fuel := n+1) (F := G')]
  cases s with
  | expr e =>
    simp only []
    pcall v1 w1 g1 : ih.ev (e := e) hρ hw (by sub)
    exact ⟨_, rfl, rfl, ⟨hρ, trivial⟩, g1.2⟩
  | go call =>
    cases call with
    | call t f args =>
      simp only []
      pcall fv w1 g1 : ih.ev (e := f) hρ hw (by sub)
      pcall vs w2 g2 : ih.el (es := args) hρ g1.2 (by sub)
      by_cases he : w2.eager = true
      · simp only [he, if_true]
        pcall v3 w3 g3 : ih.cl (f := fv) (args := vs) g1.1 g2.1 g2.2
        exact ⟨_, rfl, rfl, ⟨hρ, trivial⟩, g3.2⟩
      · simp only [he, if_false, Bool.false_eq_true]
        exact ⟨_, rfl, rfl, ⟨hρ, trivial⟩, g2.2.spawn g1.1 g2.1⟩
    | _ => exact ⟨_, rfl, rfl, trivial⟩
  | varDecl x ty v =>
    cases v with
    | none =>
      simp only [hR.like.zero]
      refine ⟨_, rfl, rfl, ?_⟩
      split
      · trivial
      · exact ⟨⟨by simp only [vgF, Bool.and_eq_true]; exact ⟨vg_zero G ty, hρ⟩, trivial⟩, hw⟩
    | some e =>
      simp only []
      by_cases ha : absurdTy ty = true
      · simp only [ha, if_true]; exact ⟨_, rfl, rfl, trivial⟩
      · simp only [ha, if_false, Bool.false_eq_true]
        pcall v1 w1 g1 : ih.ev (e := e) hρ hw (by sub)
        exact ⟨_, rfl, rfl, ⟨by simp only [vgF, Bool.and_eq_true]; exact ⟨g1.1, hρ⟩, trivial⟩, g1.2⟩
  | assign x e =>
    simp only []
    pcall v1 w1 g1 : ih.ev (e := e) hρ hw (by sub)
    refine ⟨_, rfl, rfl, ⟨?_, trivial⟩, g1.2⟩
    split
    · exact hρ
    · exact vgF_update x hρ g1.1
  | fieldAssign target e =>
    cases target with
    | field f t obj =>
      simp only []
      pcall ov w1 g1 : ih.ev (e := obj) hρ hw (by sub)
      pcall v2 w2 g2 : ih.ev (e := e) hρ g1.2 (by sub)
      refine ⟨_, rfl, rfl, ?_⟩
      cases ov <;> (try simp only []) <;> try trivial
      · rename_i sn fs
        have hfs : vgF okN fs = true := by simpa [vg] using g1.1
        cases obj <;> (try simp only []) <;> try trivial
        rename_i x tx
        exact ⟨⟨vgF_update x hρ (by simp only [vg]; exact vgF_setField f hfs g2.1), trivial⟩, g2.2⟩
      · rename_i l
        cases hh : w2.heap[l]? with
        | none => trivial
        | some hv =>
          have hst := g2.2.heap_get hh
          cases hv <;> (try simp only []) <;> try trivial
          rename_i sn fs
          simp only [vg] at hst
          exact ⟨⟨hρ, trivial⟩, g2.2.set (by simp only [vg]; exact vgF_setField f hst g2.1) l⟩
    | _ => exact ⟨_, rfl, rfl, trivial⟩
  | ptrAssign p e =>
    simp only []
    pcall pv w1 g1 : ih.ev (e := p) hρ hw (by sub)
    cases pv <;> (try simp only []) <;> try exact ⟨_, rfl, rfl, trivial⟩
    rename_i l
    pcall v2 w2 g2 : ih.ev (e := e) hρ g1.2 (by sub)
    exact ⟨_, rfl, rfl, ⟨hρ, trivial⟩, g2.2.set g2.1 l⟩
  | indexAssign arr idx e =>
    cases arr with
    | var x t =>
      simp only []
      pcall iv w1 g1 : ih.ev (e := idx) hρ hw (by sub)
      cases hl : lookupG ρ x with
      | none => cases iv <;> exact ⟨_, rfl, rfl, trivial⟩
      | some av =>
        have hav := vgF_lookup hρ hl
        cases av with
        | array vs =>
          cases iv with
          | int a b i =>
            simp only []
            pcall v2 w2 g2 : ih.ev (e := e) hρ g1.2 (by sub)
            refine ⟨_, rfl, rfl, ?_⟩
            split
            · trivial
            · exact ⟨⟨vgF_update x hρ (by simp only [vg] at hav ⊢; exact vgL_set hav g2.1 _), trivial⟩, g2.2⟩
          | _ => exact ⟨_, rfl, rfl, trivial⟩
        | _ => cases iv <;> exact ⟨_, rfl, rfl, trivial⟩
    | _ => exact ⟨_, rfl, rfl, trivial⟩
  | ret e =>
    cases e with
    | none => exact ⟨_, rfl, rfl, ⟨hρ, rfl⟩, hw⟩
    | some e =>
      simp only []
      pcall v1 w1 g1 : ih.ev (e := e) hρ hw (by sub)
      exact ⟨_, rfl, rfl, ⟨hρ, g1.1⟩, g1.2⟩
  | ite c t e =>
    cases e with
    | none =>
      simp only []
      pcall cv w1 g1 : ih.ev (e := c) hρ hw (by sub)
      cases cv <;> (try simp only []) <;> try exact ⟨_, rfl, rfl, trivial⟩
      rename_i b
      cases b <;> simp only []
      · exact ⟨_, rfl, rfl, ⟨hρ, trivial⟩, g1.2⟩
      · exact ih.ne (ss := t) hρ g1.2 (by sub)
    | some eb =>
      simp only []
      pcall cv w1 g1 : ih.ev (e := c) hρ hw (by sub)
      cases cv <;> (try simp only []) <;> try exact ⟨_, rfl, rfl, trivial⟩
      rename_i b
      cases b <;> simp only []
      · exact ih.ne (ss := eb) hρ g1.2 (by sub)
      · exact ih.ne (ss := t) hρ g1.2 (by sub)
  | loop body =>
    simp only []
    pcall p w1 g1 : ih.ne (ss := body) hρ hw (by sub)
    obtain ⟨ρ', sig⟩ := p
    cases sig <;> simp only []
    · exact ih.ex (s := .loop body) g1.1.1 g1.2 hs
    · exact ⟨_, rfl, rfl, ⟨g1.1.1, trivial⟩, g1.2⟩
    · exact ⟨_, rfl, rfl, g1⟩
  | brk => exact ⟨_, rfl, rfl, ⟨hρ, trivial⟩, hw⟩
  | «switch» e cs d =>
    cases d with
    | none =>
      simp only []
      pcall v1 w1 g1 : ih.ev (e := e) hρ hw (by sub)
      exact ih.sw (cs := cs) (d := none) hρ g1.2 g1.1 (by sub) (by intro b hb; cases hb)
    | some db =>
      simp only []
      pcall v1 w1 g1 : ih.ev (e := e) hρ hw (by sub)
      exact ih.sw (cs := cs) (d := some db) hρ g1.2 g1.1 (by sub) (by intro b hb; cases hb; sub)
  | tswitch bind e cs d =>
    have hcs : ∀ y, y ∈ calledTCases fns cs → y ∈ R := by
      cases d <;> sub
    have hdd : ∀ b, d = some b → ∀ y, y ∈ calledStmts fns b → y ∈ R := by
      intro b hb; subst hb; sub
    have hee : ∀ y, y ∈ calledExpr fns e → y ∈ R := by
      cases d <;> sub
    simp only []
    pcall v1 w1 g1 : ih.ev (e := e) hρ hw hee
    have fin : ∀ ρb, vgF okN ρb = true →
        ∃ r, (match tswitchG n G ρb w1 v1 cs d with
              | .fail f w => GRes.fail f w
              | .ok (ρ', sig) w => GRes.ok (List.drop (ρ'.length - ρ.length) ρ', sig) w) = r ∧
             (match tswitchG n G' ρb w1 v1 cs d with
              | .fail f w => GRes.fail f w
              | .ok (ρ', sig) w => GRes.ok (List.drop (ρ'.length - ρ.length) ρ', sig) w) = r ∧
             RG okN (PS okN) r := by
      intro ρb hρb
      pcall p w2 g2 : ih.ts (cs := cs) (d := d) hρb g1.2 g1.1 hcs hdd
      obtain ⟨ρ', sig⟩ := p
      exact ⟨_, rfl, rfl, ⟨vgF_drop g2.1.1 _, g2.1.2⟩, g2.2⟩
    cases bind with
    | none => exact fin ρ hρ
    | some b =>
      simp only []
      by_cases hb : (b == "_") = true
      · simp only [hb, if_true]; exact fin ρ hρ
      · simp only [hb, if_false, Bool.false_eq_true]
        exact fin ((b, v1) :: ρ) (by simp only [vgF, Bool.and_eq_true]; exact ⟨g1.1, hρ⟩)

theorem p0 : PAt G G' fns R 0 := by
  constructor <;> intros <;>
    (first
      | (rw [evalG.eq_def (fuel := 0) (F := G), evalG.eq_def (fuel := 0) (F := G')])
      | (rw [evalListG.eq_def (fuel := 0) (F := G), evalListG.eq_def (fuel := 0) (F := G')])
      | (rw [evalFieldsG.eq_def (fuel := 0) (F := G), evalFieldsG.eq_def (fuel := 0) (F := G')])
      | (rw [callG.eq_def (fuel := 0) (F := G), callG.eq_def (fuel := 0) (F := G')])
      | (rw [execBlockG.eq_def (fuel := 0) (F := G), execBlockG.eq_def (fuel := 0) (F := G')])
      | (rw [nestedG.eq_def (fuel := 0) (F := G), nestedG.eq_def (fuel := 0) (F := G')])
      | (rw [execG.eq_def (fuel := 0) (F := G), execG.eq_def (fuel := 0) (F := G')])
      | (rw [switchG.eq_def (fuel := 0) (F := G), switchG.eq_def (fuel := 0) (F := G')])
      | (rw [tswitchG.eq_def (fuel := 0) (F := G), tswitchG.eq_def (fuel := 0) (F := G')])) <;>
    exact ⟨_, rfl, rfl, trivial⟩

/-- **lock-step insensitivity to unreached functions**, for every fuel -/
theorem prune_all (hR : PruneRel G G' fns R) : ∀ n, PAt G G' fns R n
  | 0 => p0
  | n + 1 =>
    have ih := prune_all hR n
    { ev := fun h1 h2 h3 => pE hR n ih _ _ _ h1 h2 h3
      el := fun h1 h2 h3 => pL n ih _ _ _ h1 h2 h3
      ef := fun h1 h2 h3 => pF n ih _ _ _ h1 h2 h3
      cl := fun h1 h2 h3 => pC hR n ih _ _ _ h1 h2 h3
      bl := fun h1 h2 h3 => pB n ih _ _ _ h1 h2 h3
      ne := fun h1 h2 h3 => pN n ih _ _ _ h1 h2 h3
      ex := fun h1 h2 h3 => pX hR n ih _ _ _ h1 h2 h3
      sw := fun h1 h2 h3 h4 h5 => pS n ih _ _ _ _ _ h1 h2 h3 h4 h5
      ts := fun h1 h2 h3 h4 h5 => pT n ih _ _ _ _ _ h1 h2 h3 h4 h5 }

end

end Goml.Dce
