import GomlVerif.Lemmas.GoSemMono
import GomlVerif.Lemmas.DceSimBase
/-!
`Go.Sem` congruence for files (used by the file-level lifting of `dce_preserves`).

`F'` is a file that looks like `F` to the semantics except for its function bodies: same struct
declarations and method sets (`FileLike`), and for every function of `F` a function of the same
name and parameters in `F'` whose body — RUN IN `F'` — reproduces every definite run of the original
body RUN IN `F'` (`FnSim`).  Then every definite run of any expression, statement, block or call in
`F` is reproduced in `F'` (`fileSim_all`): by induction on the fuel of the run in `F`; a call first
moves the callee's ORIGINAL body from `F` to `F'` (induction hypothesis), then exchanges it for the
new body (`FnSim`).  Results are stated as "for every sufficiently large fuel" (`Ev1`), which
composes without a separate appeal to monotonicity.
-/
set_option linter.unusedSimpArgs false
set_option linter.unusedVariables false
namespace Goml.Go
open Goml.Sem (Fail)
open Goml.Dce (Definite)

/-- the computation `T` (a function of the fuel) eventually returns `r` -/
def Ev1 {α : Type} (T : Nat → GRes α) (r : GRes α) : Prop := ∃ m, ∀ k, m ≤ k → T k = r

theorem Ev1.const {α : Type} (r : GRes α) : Ev1 (fun _ => r) r := ⟨0, fun _ _ => rfl⟩

/-- what `callG` makes of the result of a function body -/
def retOfB : GRes (GEnv × Sig) → GRes GVal
  | .fail f w => .fail f w
  | .ok (_, .ret v) w => .ok v w
  | .ok (_, _) w => .ok .void w

theorem retOfB_definite {r0 : GRes (GEnv × Sig)} (h : Definite (retOfB r0)) : Definite r0 := by
  cases r0 with
  | ok p w => trivial
  | fail f w => cases f <;> exact h

/-- a failure is definite or not whatever the type of the result it stands for -/
theorem defCast {α β : Type} {f : Fail} {w : GWorld} (h : Definite (GRes.fail (α := α) f w)) :
    Definite (GRes.fail (α := β) f w) := by
  cases f <;> exact h

/-- the parameter environment `callG` builds -/
def bindG (ps : List (String × GTy)) (args : List GVal) : GEnv := (ps.zip args).map fun x => (x.1.1, x.2)

/-- same struct declarations and method sets -/
structure FileLike (F F' : GFile) : Prop where
  sf : ∀ n, F'.structFields n = F.structFields n
  si : ∀ s i, F'.structImplements s i = F.structImplements s i

theorem FileLike.zero {F F' : GFile} (h : FileLike F F') (t : GTy) : zero F' t = zero F t := by
  unfold Goml.Go.zero
  have : F'.structFields = F.structFields := funext h.sf
  rw [this]

/-- the functions of `F'` simulate those of `F`, bodies run in `F'` -/
structure FnSim (F F' : GFile) : Prop where
  none : ∀ name, F.findFunc name = none → F'.findFunc name = none
  some : ∀ name fn, F.findFunc name = some fn → ∃ fn', F'.findFunc name = some fn' ∧ fn'.params = fn.params ∧
    ∀ (args : List GVal) (w : GWorld) (r0 : GRes (GEnv × Sig)), fn.params.length = args.length →
      Ev1 (fun k => execBlockG k F' (bindG fn.params args) w fn.body) r0 → Definite r0 →
      Ev1 (fun k => retOfB (execBlockG k F' (bindG fn.params args) w fn'.body)) (retOfB r0)

section
variable {F F' : GFile}

/-- the statement at one fuel of the run in `F` -/
structure SimAt (F F' : GFile) (n : Nat) : Prop where
  ev : ∀ {ρ w e r}, evalG n F ρ w e = r → Definite r → Ev1 (fun k => evalG k F' ρ w e) r
  el : ∀ {ρ w es r}, evalListG n F ρ w es = r → Definite r → Ev1 (fun k => evalListG k F' ρ w es) r
  ef : ∀ {ρ w fs r}, evalFieldsG n F ρ w fs = r → Definite r → Ev1 (fun k => evalFieldsG k F' ρ w fs) r
  cl : ∀ {w f args r}, callG n F w f args = r → Definite r → Ev1 (fun k => callG k F' w f args) r
  bl : ∀ {ρ w ss r}, execBlockG n F ρ w ss = r → Definite r → Ev1 (fun k => execBlockG k F' ρ w ss) r
  ne : ∀ {ρ w ss r}, nestedG n F ρ w ss = r → Definite r → Ev1 (fun k => nestedG k F' ρ w ss) r
  ex : ∀ {ρ w s r}, execG n F ρ w s = r → Definite r → Ev1 (fun k => execG k F' ρ w s) r
  sw : ∀ {ρ w v cs d r}, switchG n F ρ w v cs d = r → Definite r → Ev1 (fun k => switchG k F' ρ w v cs d) r
  ts : ∀ {ρ w v cs d r}, tswitchG n F ρ w v cs d = r → Definite r → Ev1 (fun k => tswitchG k F' ρ w v cs d) r

/-! ### tactics: one recursive call of the run in `F` at a time -/

set_option hygiene false in
/-- finish: the target computation at fuel `k+1` unfolds (`fn.eq_def`) to the sub-computations whose
    eventual values are the given `Ev1` facts; after rewriting them (and the extra facts in
    brackets) both sides coincide -/
macro "sfin0 " fn:ident " [" xs:Lean.Parser.Tactic.simpLemma,* "]" : tactic => `(tactic|
  (exact ⟨1, fun k hk => by
    obtain ⟨k, rfl⟩ : ∃ j, k = j + 1 := ⟨k - 1, by omega⟩
    dsimp only
    rw [$fn:ident]; try simp only [hL.sf, hL.si, hL.zero, Bool.false_eq_true, if_false, if_true, $xs,*]⟩))

set_option hygiene false in
macro "sfin1 " fn:ident E1:ident " [" xs:Lean.Parser.Tactic.simpLemma,* "]" : tactic => `(tactic|
  (obtain ⟨m1, e1⟩ := $E1:ident
   dsimp only at e1
   exact ⟨m1 + 1, fun k hk => by
    obtain ⟨k, rfl⟩ : ∃ j, k = j + 1 := ⟨k - 1, by omega⟩
    dsimp only
    rw [$fn:ident]; try simp only [e1 k (by omega), hL.sf, hL.si, hL.zero, Bool.false_eq_true, if_false, if_true, $xs,*]⟩))

set_option hygiene false in
macro "sfin2 " fn:ident E1:ident E2:ident " [" xs:Lean.Parser.Tactic.simpLemma,* "]" : tactic => `(tactic|
  (obtain ⟨m1, e1⟩ := $E1:ident
   obtain ⟨m2, e2⟩ := $E2:ident
   dsimp only at e1 e2
   exact ⟨m1 + m2 + 1, fun k hk => by
    obtain ⟨k, rfl⟩ : ∃ j, k = j + 1 := ⟨k - 1, by omega⟩
    dsimp only
    rw [$fn:ident]; try simp only [e1 k (by omega), e2 k (by omega), hL.sf, hL.si, hL.zero, Bool.false_eq_true, if_false, if_true, $xs,*]⟩))

set_option hygiene false in
macro "sfin3 " fn:ident E1:ident E2:ident E3:ident " [" xs:Lean.Parser.Tactic.simpLemma,* "]" : tactic => `(tactic|
  (obtain ⟨m1, e1⟩ := $E1:ident
   obtain ⟨m2, e2⟩ := $E2:ident
   obtain ⟨m3, e3⟩ := $E3:ident
   dsimp only at e1 e2 e3
   exact ⟨m1 + m2 + m3 + 1, fun k hk => by
    obtain ⟨k, rfl⟩ : ∃ j, k = j + 1 := ⟨k - 1, by omega⟩
    dsimp only
    rw [$fn:ident]; try simp only [e1 k (by omega), e2 k (by omega), e3 k (by omega), hL.sf, hL.si, hL.zero, Bool.false_eq_true, if_false, if_true, $xs,*]⟩))

set_option hygiene false in
/-- case split on the result of the recursive call `t0` of the run in `F` (fuel `n`); `E` names the
    `Ev1` fact the induction hypothesis `ih` gives for it; `fin` closes the branch where it failed -/
macro "scall " hx:ident v:ident w:ident E:ident " : " t0:term ", " ih:term ", " fin:tactic : tactic => `(tactic|
  (cases $hx:ident : $t0
   rotate_left
   next f' w' =>
     rw [$hx:ident] at h; simp only at h; subst h
     have $E:ident := $ih $hx:ident (defCast hdef)
     $fin
   rename_i $v:ident $w:ident
   rw [$hx:ident] at h
   have $E:ident := $ih $hx:ident trivial
   try simp only at h))

theorem simL (hL : FileLike F F') (n : Nat) (ih : SimAt F F' n) : ∀ ρ w es r, evalListG (n+1) F ρ w es = r →
    Definite r → Ev1 (fun k => evalListG k F' ρ w es) r := by
  intro ρ w es r h hdef
  cases es with
  | nil => rw [evalListG.eq_def] at h; simp only at h; subst h; sfin0 evalListG.eq_def []
  | cons e rest =>
    rw [evalListG.eq_def] at h; simp only at h
    scall h1 v1 w1 E1 : evalG n F ρ w e, ih.ev, (sfin1 evalListG.eq_def E1 [])
    scall h2 v2 w2 E2 : evalListG n F ρ w1 rest, ih.el, (sfin2 evalListG.eq_def E1 E2 [])
    subst h; sfin2 evalListG.eq_def E1 E2 []

theorem simF (hL : FileLike F F') (n : Nat) (ih : SimAt F F' n) : ∀ ρ w fs r, evalFieldsG (n+1) F ρ w fs = r →
    Definite r → Ev1 (fun k => evalFieldsG k F' ρ w fs) r := by
  intro ρ w fs r h hdef
  cases fs with
  | nil => rw [evalFieldsG.eq_def] at h; simp only at h; subst h; sfin0 evalFieldsG.eq_def []
  | cons fd rest =>
    cases fd with
    | mk nm e =>
      rw [evalFieldsG.eq_def] at h; simp only at h
      scall h1 v1 w1 E1 : evalG n F ρ w e, ih.ev, (sfin1 evalFieldsG.eq_def E1 [])
      scall h2 v2 w2 E2 : evalFieldsG n F ρ w1 rest, ih.ef, (sfin2 evalFieldsG.eq_def E1 E2 [])
      subst h; sfin2 evalFieldsG.eq_def E1 E2 []

theorem simE (hL : FileLike F F') (n : Nat) (ih : SimAt F F' n) : ∀ ρ w e r, evalG (n+1) F ρ w e = r →
    Definite r → Ev1 (fun k => evalG k F' ρ w e) r := by
  intro ρ w e r h hdef
  cases e with
  | nil t => rw [evalG.eq_def] at h; simp only at h; subst h; sfin0 evalG.eq_def []
  | voidv t => rw [evalG.eq_def] at h; simp only at h; subst h; sfin0 evalG.eq_def []
  | unitv t => rw [evalG.eq_def] at h; simp only at h; subst h; sfin0 evalG.eq_def []
  | var x t => rw [evalG.eq_def] at h; simp only at h; subst h; sfin0 evalG.eq_def []
  | bool b => rw [evalG.eq_def] at h; simp only at h; subst h; sfin0 evalG.eq_def []
  | int v t => rw [evalG.eq_def] at h; simp only at h; subst h; sfin0 evalG.eq_def []
  | float v t => rw [evalG.eq_def] at h; simp only at h; subst h; sfin0 evalG.eq_def []
  | str v => rw [evalG.eq_def] at h; simp only at h; subst h; sfin0 evalG.eq_def []
  | call t f args =>
    rw [evalG.eq_def] at h; simp only at h
    scall h1 v1 w1 E1 : evalG n F ρ w f, ih.ev, (sfin1 evalG.eq_def E1 [])
    scall h2 v2 w2 E2 : evalListG n F ρ w1 args, ih.el, (sfin2 evalG.eq_def E1 E2 [])
    have E3 := ih.cl h hdef
    sfin3 evalG.eq_def E1 E2 E3 []
  | un op t e =>
    rw [evalG.eq_def] at h; simp only at h
    cases op <;> simp only at h
    all_goals
      scall h1 v1 w1 E1 : evalG n F ρ w e, ih.ev, (sfin1 evalG.eq_def E1 [])
      subst h; sfin1 evalG.eq_def E1 []
  | bin op t l r' =>
    rw [evalG.eq_def] at h; simp only at h
    scall h1 a w1 E1 : evalG n F ρ w l, ih.ev, (sfin1 evalG.eq_def E1 [])
    cases a with
    | bool b =>
      cases b
      · cases op
        case and => simp only at h; subst h; sfin1 evalG.eq_def E1 []
        all_goals
          simp only at h
          scall h2 v2 w2 E2 : evalG n F ρ w1 r', ih.ev, (sfin2 evalG.eq_def E1 E2 [])
          subst h; sfin2 evalG.eq_def E1 E2 []
      · cases op
        case or => simp only at h; subst h; sfin1 evalG.eq_def E1 []
        all_goals
          simp only at h
          scall h2 v2 w2 E2 : evalG n F ρ w1 r', ih.ev, (sfin2 evalG.eq_def E1 E2 [])
          subst h; sfin2 evalG.eq_def E1 E2 []
    | _ =>
      cases op <;>
        (simp only at h
         scall h2 v2 w2 E2 : evalG n F ρ w1 r', ih.ev, (sfin2 evalG.eq_def E1 E2 [])
         subst h; sfin2 evalG.eq_def E1 E2 [])
  | field f t o =>
    rw [evalG.eq_def] at h; simp only at h
    scall h1 v1 w1 E1 : evalG n F ρ w o, ih.ev, (sfin1 evalG.eq_def E1 [])
    subst h; sfin1 evalG.eq_def E1 []
  | index t a i =>
    rw [evalG.eq_def] at h; simp only at h
    scall h1 v1 w1 E1 : evalG n F ρ w a, ih.ev, (sfin1 evalG.eq_def E1 [])
    scall h2 v2 w2 E2 : evalG n F ρ w1 i, ih.ev, (sfin2 evalG.eq_def E1 E2 [])
    subst h; sfin2 evalG.eq_def E1 E2 []
  | cast t e =>
    rw [evalG.eq_def] at h; simp only at h
    scall h1 v1 w1 E1 : evalG n F ρ w e, ih.ev, (sfin1 evalG.eq_def E1 [])
    subst h; sfin1 evalG.eq_def E1 []
  | slit t fs =>
    rw [evalG.eq_def] at h; simp only at h
    scall h1 v1 w1 E1 : evalFieldsG n F ρ w fs, ih.ef, (sfin1 evalG.eq_def E1 [])
    subst h; sfin1 evalG.eq_def E1 []
  | alit t es =>
    rw [evalG.eq_def] at h; simp only at h
    scall h1 v1 w1 E1 : evalListG n F ρ w es, ih.el, (sfin1 evalG.eq_def E1 [])
    subst h; sfin1 evalG.eq_def E1 []
  | blocke t ss e =>
    rw [evalG.eq_def] at h; simp only at h
    scall h1 p w1 E1 : execBlockG n F ρ w ss, ih.bl, (sfin1 evalG.eq_def E1 [])
    obtain ⟨ρ', sig⟩ := p
    cases sig <;> simp only at h
    · cases e with
      | none => subst h; sfin1 evalG.eq_def E1 []
      | some e =>
        simp only at h
        have E2 := ih.ev h hdef
        sfin2 evalG.eq_def E1 E2 []
    · subst h; sfin1 evalG.eq_def E1 []
    · subst h; sfin1 evalG.eq_def E1 []

theorem callG_some {G : GFile} {name : String} {fn : GFunc} (hf : G.findFunc name = some fn) {args : List GVal}
    (hlen : fn.params.length = args.length) (k : Nat) (w : GWorld) :
    callG (k + 1) G w (.func name) args = retOfB (execBlockG k G (bindG fn.params args) w fn.body) := by
  have har : (fn.params.length != args.length) = false := by simp [hlen]
  rw [callG.eq_def]; simp only [hf, har, Bool.false_eq_true, if_false]
  unfold bindG
  cases execBlockG k G (List.map (fun x => (x.1.1, x.2)) (fn.params.zip args)) w fn.body with
  | fail f w => rfl
  | ok p w => obtain ⟨ρ', sig⟩ := p; cases sig <;> rfl

theorem simC (hL : FileLike F F') (hS : FnSim F F') (n : Nat) (ih : SimAt F F' n) : ∀ w f args r,
    callG (n+1) F w f args = r → Definite r → Ev1 (fun k => callG k F' w f args) r := by
  intro w f args r h hdef
  cases f with
  | func name =>
    cases hf : F.findFunc name with
    | none =>
      rw [callG.eq_def] at h; simp only [hf] at h; subst h
      exact ⟨1, fun k hk => by
        obtain ⟨k, rfl⟩ : ∃ j, k = j + 1 := ⟨k - 1, by omega⟩
        dsimp only
        rw [callG.eq_def]; simp only [hS.none name hf]⟩
    | some fn =>
      by_cases hlen : fn.params.length = args.length
      · rw [callG_some hf hlen] at h
        have hd0 : Definite (execBlockG n F (bindG fn.params args) w fn.body) := retOfB_definite (h ▸ hdef)
        have E0 := ih.bl rfl hd0
        obtain ⟨fn', hf', hps, hsim⟩ := hS.some name fn hf
        obtain ⟨m, em⟩ := hsim args w _ hlen E0 hd0
        dsimp only at em
        refine ⟨m + 1, fun k hk => ?_⟩
        obtain ⟨k, rfl⟩ : ∃ j, k = j + 1 := ⟨k - 1, by omega⟩
        dsimp only
        rw [callG_some hf' (by rw [hps]; exact hlen), hps, em k (by omega), h]
      · exfalso
        have har : (fn.params.length != args.length) = true := by simp [hlen]
        rw [callG.eq_def] at h; simp only [hf, har, if_true] at h
        subst h; exact hdef
  | void => rw [callG.eq_def] at h; simp only at h; subst h; sfin0 callG.eq_def []
  | unit => rw [callG.eq_def] at h; simp only at h; subst h; sfin0 callG.eq_def []
  | bool b => rw [callG.eq_def] at h; simp only at h; subst h; sfin0 callG.eq_def []
  | int a b c => rw [callG.eq_def] at h; simp only at h; subst h; sfin0 callG.eq_def []
  | float a b => rw [callG.eq_def] at h; simp only at h; subst h; sfin0 callG.eq_def []
  | str a => rw [callG.eq_def] at h; simp only at h; subst h; sfin0 callG.eq_def []
  | struct a b => rw [callG.eq_def] at h; simp only at h; subst h; sfin0 callG.eq_def []
  | ptr a => rw [callG.eq_def] at h; simp only at h; subst h; sfin0 callG.eq_def []
  | nilv => rw [callG.eq_def] at h; simp only at h; subst h; sfin0 callG.eq_def []
  | array a => rw [callG.eq_def] at h; simp only at h; subst h; sfin0 callG.eq_def []
  | slice a b c => rw [callG.eq_def] at h; simp only at h; subst h; sfin0 callG.eq_def []

theorem simB (hL : FileLike F F') (n : Nat) (ih : SimAt F F' n) : ∀ ρ w ss r, execBlockG (n+1) F ρ w ss = r →
    Definite r → Ev1 (fun k => execBlockG k F' ρ w ss) r := by
  intro ρ w ss r h hdef
  cases ss with
  | nil => rw [execBlockG.eq_def] at h; simp only at h; subst h; sfin0 execBlockG.eq_def []
  | cons s rest =>
    rw [execBlockG.eq_def] at h; simp only at h
    scall h1 p w1 E1 : execG n F ρ w s, ih.ex, (sfin1 execBlockG.eq_def E1 [])
    obtain ⟨ρ', sig⟩ := p
    cases sig <;> simp only at h
    · have E2 := ih.bl h hdef
      sfin2 execBlockG.eq_def E1 E2 []
    · subst h; sfin1 execBlockG.eq_def E1 []
    · subst h; sfin1 execBlockG.eq_def E1 []

theorem simN (hL : FileLike F F') (n : Nat) (ih : SimAt F F' n) : ∀ ρ w ss r, nestedG (n+1) F ρ w ss = r →
    Definite r → Ev1 (fun k => nestedG k F' ρ w ss) r := by
  intro ρ w ss r h hdef
  rw [nestedG.eq_def] at h; simp only at h
  scall h1 p w1 E1 : execBlockG n F ρ w ss, ih.bl, (sfin1 nestedG.eq_def E1 [])
  subst h; sfin1 nestedG.eq_def E1 []

theorem simS (hL : FileLike F F') (n : Nat) (ih : SimAt F F' n) : ∀ ρ w v cs d r, switchG (n+1) F ρ w v cs d = r →
    Definite r → Ev1 (fun k => switchG k F' ρ w v cs d) r := by
  intro ρ w v cs d r h hdef
  cases cs with
  | nil =>
    rw [switchG.eq_def] at h; simp only at h
    cases d with
    | none => simp only at h; subst h; sfin0 switchG.eq_def []
    | some b => simp only at h; have E1 := ih.ne h hdef; sfin1 switchG.eq_def E1 []
  | cons c rest =>
    cases c with
    | mk ce body =>
      rw [switchG.eq_def] at h; simp only at h
      scall h1 cv w1 E1 : evalG n F ρ w ce, ih.ev, (sfin1 switchG.eq_def E1 [])
      split at h
      · rename_i hc; have E2 := ih.ne h hdef; sfin2 switchG.eq_def E1 E2 [hc, if_true]
      · rename_i hc; have E2 := ih.sw h hdef; sfin2 switchG.eq_def E1 E2 [hc, if_false]

theorem simT (hL : FileLike F F') (n : Nat) (ih : SimAt F F' n) : ∀ ρ w v cs d r, tswitchG (n+1) F ρ w v cs d = r →
    Definite r → Ev1 (fun k => tswitchG k F' ρ w v cs d) r := by
  intro ρ w v cs d r h hdef
  cases cs with
  | nil =>
    rw [tswitchG.eq_def] at h; simp only at h
    cases d with
    | none => simp only at h; subst h; sfin0 tswitchG.eq_def []
    | some b => simp only at h; have E1 := ih.ne h hdef; sfin1 tswitchG.eq_def E1 []
  | cons c rest =>
    cases c with
    | mk ty body =>
      rw [tswitchG.eq_def] at h; simp only at h
      split at h
      all_goals
        split at h
        · rename_i hc; have E1 := ih.ne h hdef; sfin1 tswitchG.eq_def E1 [hc, if_true]
        · rename_i hc; have E1 := ih.ts h hdef; sfin1 tswitchG.eq_def E1 [hc, if_false]

theorem simX (hL : FileLike F F') (n : Nat) (ih : SimAt F F' n) : ∀ ρ w s r, execG (n+1) F ρ w s = r →
    Definite r → Ev1 (fun k => execG k F' ρ w s) r := by
  intro ρ w s r h hdef
  cases s with
  | expr e =>
    rw [execG.eq_def] at h; simp only at h
    scall h1 v1 w1 E1 : evalG n F ρ w e, ih.ev, (sfin1 execG.eq_def E1 [])
    subst h; sfin1 execG.eq_def E1 []
  | go call =>
    rw [execG.eq_def] at h; simp only at h
    cases call with
    | call t f args =>
      simp only at h
      scall h1 fv w1 E1 : evalG n F ρ w f, ih.ev, (sfin1 execG.eq_def E1 [])
      scall h2 vs w2 E2 : evalListG n F ρ w1 args, ih.el, (sfin2 execG.eq_def E1 E2 [])
      split at h
      · rename_i he
        scall h3 v3 w3 E3 : callG n F w2 fv vs, ih.cl, (sfin3 execG.eq_def E1 E2 E3 [he, if_true])
        subst h; sfin3 execG.eq_def E1 E2 E3 [he, if_true]
      · rename_i he; subst h; sfin2 execG.eq_def E1 E2 [he, if_false]
    | _ => subst h; sfin0 execG.eq_def []
  | varDecl x ty v =>
    rw [execG.eq_def] at h; simp only at h
    split at h
    · rename_i ha; subst h; sfin0 execG.eq_def [ha, if_true]
    · rename_i ha
      cases v with
      | none => simp only at h; subst h; sfin0 execG.eq_def [ha, if_false]
      | some e =>
        simp only at h
        scall h1 v1 w1 E1 : evalG n F ρ w e, ih.ev, (sfin1 execG.eq_def E1 [ha, if_false])
        subst h; sfin1 execG.eq_def E1 [ha, if_false]
  | assign x e =>
    rw [execG.eq_def] at h; simp only at h
    scall h1 v1 w1 E1 : evalG n F ρ w e, ih.ev, (sfin1 execG.eq_def E1 [])
    subst h; sfin1 execG.eq_def E1 []
  | fieldAssign target e =>
    rw [execG.eq_def] at h; simp only at h
    cases target with
    | field f t obj =>
      simp only at h
      scall h1 ov w1 E1 : evalG n F ρ w obj, ih.ev, (sfin1 execG.eq_def E1 [])
      scall h2 v2 w2 E2 : evalG n F ρ w1 e, ih.ev, (sfin2 execG.eq_def E1 E2 [])
      subst h; sfin2 execG.eq_def E1 E2 []
    | _ => subst h; sfin0 execG.eq_def []
  | ptrAssign p e =>
    rw [execG.eq_def] at h; simp only at h
    scall h1 pv w1 E1 : evalG n F ρ w p, ih.ev, (sfin1 execG.eq_def E1 [])
    cases pv with
    | ptr l =>
      simp only at h
      scall h2 v2 w2 E2 : evalG n F ρ w1 e, ih.ev, (sfin2 execG.eq_def E1 E2 [])
      subst h; sfin2 execG.eq_def E1 E2 []
    | _ => subst h; sfin1 execG.eq_def E1 []
  | indexAssign arr idx e =>
    rw [execG.eq_def] at h; simp only at h
    cases arr with
    | var x t =>
      simp only at h
      scall h1 iv w1 E1 : evalG n F ρ w idx, ih.ev, (sfin1 execG.eq_def E1 [])
      cases hl : lookupG ρ x with
      | none => rw [hl] at h; cases iv <;> (simp only at h; subst h; sfin1 execG.eq_def E1 [hl])
      | some av =>
        rw [hl] at h
        cases av with
        | array vs =>
          cases iv with
          | int a b i =>
            simp only at h
            scall h2 v2 w2 E2 : evalG n F ρ w1 e, ih.ev, (sfin2 execG.eq_def E1 E2 [hl])
            subst h; sfin2 execG.eq_def E1 E2 [hl]
          | _ => simp only at h; subst h; sfin1 execG.eq_def E1 [hl]
        | _ => cases iv <;> (simp only at h; subst h; sfin1 execG.eq_def E1 [hl])
    | _ => subst h; sfin0 execG.eq_def []
  | ret e =>
    rw [execG.eq_def] at h; simp only at h
    cases e with
    | none => simp only at h; subst h; sfin0 execG.eq_def []
    | some e =>
      simp only at h
      scall h1 v1 w1 E1 : evalG n F ρ w e, ih.ev, (sfin1 execG.eq_def E1 [])
      subst h; sfin1 execG.eq_def E1 []
  | ite c t e =>
    rw [execG.eq_def] at h; simp only at h
    scall h1 cv w1 E1 : evalG n F ρ w c, ih.ev, (sfin1 execG.eq_def E1 [])
    cases cv with
    | bool b =>
      cases b <;> simp only at h
      · cases e with
        | none => simp only at h; subst h; sfin1 execG.eq_def E1 []
        | some eb => simp only at h; have E2 := ih.ne h hdef; sfin2 execG.eq_def E1 E2 []
      · have E2 := ih.ne h hdef; sfin2 execG.eq_def E1 E2 []
    | _ => subst h; sfin1 execG.eq_def E1 []
  | loop body =>
    rw [execG.eq_def] at h; simp only at h
    scall h1 p w1 E1 : nestedG n F ρ w body, ih.ne, (sfin1 execG.eq_def E1 [])
    obtain ⟨ρ', sig⟩ := p
    cases sig <;> simp only at h
    · have E2 := ih.ex h hdef; sfin2 execG.eq_def E1 E2 []
    · subst h; sfin1 execG.eq_def E1 []
    · subst h; sfin1 execG.eq_def E1 []
  | brk => rw [execG.eq_def] at h; simp only at h; subst h; sfin0 execG.eq_def []
  | «switch» e cs d =>
    rw [execG.eq_def] at h; simp only at h
    scall h1 v1 w1 E1 : evalG n F ρ w e, ih.ev, (sfin1 execG.eq_def E1 [])
    have E2 := ih.sw h hdef; sfin2 execG.eq_def E1 E2 []
  | tswitch bind e cs d =>
    rw [execG.eq_def] at h; simp only at h
    scall h1 v1 w1 E1 : evalG n F ρ w e, ih.ev, (sfin1 execG.eq_def E1 [])
    cases bind with
    | none =>
      simp only at h
      scall h2 p w2 E2 : tswitchG n F ρ w1 v1 cs d, ih.ts, (sfin2 execG.eq_def E1 E2 [])
      subst h; sfin2 execG.eq_def E1 E2 []
    | some b =>
      simp only at h
      by_cases hb : (b == "_") = true
      · simp only [hb, if_true] at h
        scall h2 p w2 E2 : tswitchG n F ρ w1 v1 cs d, ih.ts, (sfin2 execG.eq_def E1 E2 [hb, if_true])
        subst h; sfin2 execG.eq_def E1 E2 [hb, if_true]
      · simp only [hb, if_false, Bool.false_eq_true] at h
        scall h2 p w2 E2 : tswitchG n F ((b, v1) :: ρ) w1 v1 cs d, ih.ts, (sfin2 execG.eq_def E1 E2 [hb, if_false, Bool.false_eq_true])
        subst h; sfin2 execG.eq_def E1 E2 [hb, if_false, Bool.false_eq_true]

theorem sim0 : SimAt F F' 0 := by
  constructor <;> intros <;> rename_i h hdef <;>
    (first
      | (rw [evalG.eq_def] at h) | (rw [evalListG.eq_def] at h) | (rw [evalFieldsG.eq_def] at h)
      | (rw [callG.eq_def] at h) | (rw [execBlockG.eq_def] at h) | (rw [nestedG.eq_def] at h)
      | (rw [execG.eq_def] at h) | (rw [switchG.eq_def] at h) | (rw [tswitchG.eq_def] at h)) <;>
    (simp only at h; subst h; exact hdef.elim)

/-- **file congruence**: every definite run in `F` — of an expression, an operand list, a call, a
    block, a statement, a switch — is reproduced in `F'` for every sufficiently large fuel -/
theorem fileSim_all (hL : FileLike F F') (hS : FnSim F F') : ∀ n, SimAt F F' n
  | 0 => sim0
  | n + 1 =>
    have ih := fileSim_all hL hS n
    { ev := fun h hd => simE hL n ih _ _ _ _ h hd
      el := fun h hd => simL hL n ih _ _ _ _ h hd
      ef := fun h hd => simF hL n ih _ _ _ _ h hd
      cl := fun h hd => simC hL hS n ih _ _ _ _ h hd
      bl := fun h hd => simB hL n ih _ _ _ _ h hd
      ne := fun h hd => simN hL n ih _ _ _ _ h hd
      ex := fun h hd => simX hL n ih _ _ _ _ h hd
      sw := fun h hd => simS hL n ih _ _ _ _ _ _ h hd
      ts := fun h hd => simT hL n ih _ _ _ _ _ _ h hd }

end
end Goml.Go
