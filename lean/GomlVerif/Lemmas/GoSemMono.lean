import GomlVerif.Model.GoSem
/-!
Fuel monotonicity of `Go.Sem` (`Model/GoSem.lean`): a run that did not stop for lack of fuel is
unchanged by more fuel, for every one of the nine mutually recursive functions.
-/
set_option linter.unusedSimpArgs false
set_option linter.unusedVariables false
namespace Goml.Go
open Goml.Sem (Fail)

/-- the run did not stop for lack of fuel -/
def GRes.nf {α : Type} : GRes α → Prop
  | .fail .fuel _ => False
  | _ => True

@[simp] theorem nf_ok {α : Type} (a : α) (w : GWorld) : (GRes.ok a w).nf = True := by simp [GRes.nf]
@[simp] theorem nf_fail {α : Type} (f : Fail) (w : GWorld) : (GRes.fail (α := α) f w).nf ↔ f ≠ .fuel := by
  cases f <;> simp [GRes.nf]

structure MonoAt (n : Nat) : Prop where
  ev : ∀ {F ρ w e}, (evalG n F ρ w e).nf → evalG (n+1) F ρ w e = evalG n F ρ w e
  el : ∀ {F ρ w es}, (evalListG n F ρ w es).nf → evalListG (n+1) F ρ w es = evalListG n F ρ w es
  ef : ∀ {F ρ w fs}, (evalFieldsG n F ρ w fs).nf → evalFieldsG (n+1) F ρ w fs = evalFieldsG n F ρ w fs
  cl : ∀ {F w f args}, (callG n F w f args).nf → callG (n+1) F w f args = callG n F w f args
  bl : ∀ {F ρ w ss}, (execBlockG n F ρ w ss).nf → execBlockG (n+1) F ρ w ss = execBlockG n F ρ w ss
  ne : ∀ {F ρ w ss}, (nestedG n F ρ w ss).nf → nestedG (n+1) F ρ w ss = nestedG n F ρ w ss
  ex : ∀ {F ρ w s}, (execG n F ρ w s).nf → execG (n+1) F ρ w s = execG n F ρ w s
  sw : ∀ {F ρ w v cs d}, (switchG n F ρ w v cs d).nf → switchG (n+1) F ρ w v cs d = switchG n F ρ w v cs d
  ts : ∀ {F ρ w v cs d}, (tswitchG n F ρ w v cs d).nf → tswitchG (n+1) F ρ w v cs d = tswitchG n F ρ w v cs d

set_option hygiene false in
/-- case split on the result of a recursive call at fuel `n` (`t0`); `t1` is the same call at
    `n+1`, `ih` the induction hypothesis for that function -/
macro "rcall " hx:ident v:ident w:ident " : " t0:term ", " t1:term ", " ih:term : tactic => `(tactic|
  (cases $hx:ident : $t0
   rotate_left
   next f' w' =>
     rw [$hx:ident] at h; simp only at h; subst h
     have hq : $t1 = $t0 := $ih (by rw [$hx:ident]; simp at hnf ⊢; exact hnf)
     rw [hq, $hx:ident]
   rename_i $v:ident $w:ident
   rw [$hx:ident] at h
   have hq : $t1 = $t0 := $ih (by rw [$hx:ident]; trivial)
   rw [hq, $hx:ident]; clear hq; try simp only at h ⊢))

theorem monoL (n : Nat) (ih : MonoAt n) : ∀ F ρ w es r, evalListG (n+1) F ρ w es = r → r.nf → evalListG (n+2) F ρ w es = r := by
  intro F ρ w es r h hnf
  cases es with
  | nil => rw [evalListG.eq_def] at h ⊢; exact h
  | cons e rest =>
    rw [evalListG.eq_def] at h ⊢
    simp only at h ⊢
    rcall h1 v1 w1 : evalG n F ρ w e, evalG (n+1) F ρ w e, ih.ev
    rcall h2 v2 w2 : evalListG n F ρ w1 rest, evalListG (n+1) F ρ w1 rest, ih.el
    exact h

theorem monoF (n : Nat) (ih : MonoAt n) : ∀ F ρ w fs r, evalFieldsG (n+1) F ρ w fs = r → r.nf → evalFieldsG (n+2) F ρ w fs = r := by
  intro F ρ w fs r h hnf
  cases fs with
  | nil => rw [evalFieldsG.eq_def] at h ⊢; exact h
  | cons fd rest =>
    cases fd with
    | mk nm e =>
      rw [evalFieldsG.eq_def] at h ⊢
      simp only at h ⊢
      rcall h1 v1 w1 : evalG n F ρ w e, evalG (n+1) F ρ w e, ih.ev
      rcall h2 v2 w2 : evalFieldsG n F ρ w1 rest, evalFieldsG (n+1) F ρ w1 rest, ih.ef
      exact h

theorem monoE (n : Nat) (ih : MonoAt n) : ∀ F ρ w e r, evalG (n+1) F ρ w e = r → r.nf → evalG (n+2) F ρ w e = r := by
  intro F ρ w e r h hnf
  cases e with
  | nil t => rw [evalG.eq_def] at h ⊢; exact h
  | voidv t => rw [evalG.eq_def] at h ⊢; exact h
  | unitv t => rw [evalG.eq_def] at h ⊢; exact h
  | var x t => rw [evalG.eq_def] at h ⊢; exact h
  | bool b => rw [evalG.eq_def] at h ⊢; exact h
  | int v t => rw [evalG.eq_def] at h ⊢; exact h
  | float v t => rw [evalG.eq_def] at h ⊢; exact h
  | str v => rw [evalG.eq_def] at h ⊢; exact h
  | call t f args =>
    rw [evalG.eq_def] at h ⊢; simp only at h ⊢
    rcall h1 v1 w1 : evalG n F ρ w f, evalG (n+1) F ρ w f, ih.ev
    rcall h2 v2 w2 : evalListG n F ρ w1 args, evalListG (n+1) F ρ w1 args, ih.el
    rw [ih.cl (by rw [h]; exact hnf)]; exact h
  | un op t e =>
    rw [evalG.eq_def] at h ⊢; simp only at h ⊢
    cases op <;> simp only at h ⊢
    all_goals
      rcall h1 v1 w1 : evalG n F ρ w e, evalG (n+1) F ρ w e, ih.ev
      exact h
  | bin op t l r' =>
    rw [evalG.eq_def] at h ⊢; simp only at h ⊢
    rcall h1 a w1 : evalG n F ρ w l, evalG (n+1) F ρ w l, ih.ev
    cases a with
    | bool b =>
      cases b <;> cases op <;> simp only at h ⊢ <;>
        (first | exact h | (rcall h2 v2 w2 : evalG n F ρ w1 r', evalG (n+1) F ρ w1 r', ih.ev; exact h))
    | _ =>
      cases op <;> simp only at h ⊢ <;>
        (first | exact h | (rcall h2 v2 w2 : evalG n F ρ w1 r', evalG (n+1) F ρ w1 r', ih.ev; exact h))
  | field f t o =>
    rw [evalG.eq_def] at h ⊢; simp only at h ⊢
    rcall h1 v1 w1 : evalG n F ρ w o, evalG (n+1) F ρ w o, ih.ev
    exact h
  | index t a i =>
    rw [evalG.eq_def] at h ⊢; simp only at h ⊢
    rcall h1 v1 w1 : evalG n F ρ w a, evalG (n+1) F ρ w a, ih.ev
    rcall h2 v2 w2 : evalG n F ρ w1 i, evalG (n+1) F ρ w1 i, ih.ev
    exact h
  | cast t e =>
    rw [evalG.eq_def] at h ⊢; simp only at h ⊢
    rcall h1 v1 w1 : evalG n F ρ w e, evalG (n+1) F ρ w e, ih.ev
    exact h
  | slit t fs =>
    rw [evalG.eq_def] at h ⊢; simp only at h ⊢
    rcall h1 v1 w1 : evalFieldsG n F ρ w fs, evalFieldsG (n+1) F ρ w fs, ih.ef
    exact h
  | alit t es =>
    rw [evalG.eq_def] at h ⊢; simp only at h ⊢
    rcall h1 v1 w1 : evalListG n F ρ w es, evalListG (n+1) F ρ w es, ih.el
    exact h
  | blocke t ss e =>
    rw [evalG.eq_def] at h ⊢; simp only at h ⊢
    rcall h1 p w1 : execBlockG n F ρ w ss, execBlockG (n+1) F ρ w ss, ih.bl
    obtain ⟨ρ', sig⟩ := p
    cases sig <;> simp only at h ⊢
    · cases e with
      | none => exact h
      | some e => simp only at h ⊢; rw [ih.ev (by rw [h]; exact hnf)]; exact h
    · exact h
    · exact h

theorem monoC (n : Nat) (ih : MonoAt n) : ∀ F w f args r, callG (n+1) F w f args = r → r.nf → callG (n+2) F w f args = r := by
  intro F w f args r h hnf
  rw [callG.eq_def] at h ⊢; simp only at h ⊢
  cases f with
  | func name =>
    simp only at h ⊢
    cases hf : F.findFunc name with
    | none => rw [hf] at h; simp only at h ⊢; exact h
    | some fn =>
      rw [hf] at h; simp only at h ⊢
      by_cases har : (fn.params.length != args.length) = true
      · simp only [har, if_true] at h ⊢; exact h
      · simp only [har] at h ⊢
        rcall h1 p w1 : execBlockG n F ((fn.params.zip args).map fun x => (x.1.1, x.2)) w fn.body,
          execBlockG (n+1) F ((fn.params.zip args).map fun x => (x.1.1, x.2)) w fn.body, ih.bl
        exact h
  | _ => exact h

theorem monoB (n : Nat) (ih : MonoAt n) : ∀ F ρ w ss r, execBlockG (n+1) F ρ w ss = r → r.nf → execBlockG (n+2) F ρ w ss = r := by
  intro F ρ w ss r h hnf
  cases ss with
  | nil => rw [execBlockG.eq_def] at h ⊢; exact h
  | cons s rest =>
    rw [execBlockG.eq_def] at h ⊢; simp only at h ⊢
    rcall h1 p w1 : execG n F ρ w s, execG (n+1) F ρ w s, ih.ex
    obtain ⟨ρ', sig⟩ := p
    cases sig <;> simp only at h ⊢
    · rw [ih.bl (by rw [h]; exact hnf)]; exact h
    · exact h
    · exact h

theorem monoN (n : Nat) (ih : MonoAt n) : ∀ F ρ w ss r, nestedG (n+1) F ρ w ss = r → r.nf → nestedG (n+2) F ρ w ss = r := by
  intro F ρ w ss r h hnf
  rw [nestedG.eq_def] at h ⊢; simp only at h ⊢
  rcall h1 p w1 : execBlockG n F ρ w ss, execBlockG (n+1) F ρ w ss, ih.bl
  exact h

theorem monoS (n : Nat) (ih : MonoAt n) : ∀ F ρ w v cs d r, switchG (n+1) F ρ w v cs d = r → r.nf → switchG (n+2) F ρ w v cs d = r := by
  intro F ρ w v cs d r h hnf
  cases cs with
  | nil =>
    rw [switchG.eq_def] at h ⊢; simp only at h ⊢
    cases d with
    | none => exact h
    | some b => simp only at h ⊢; rw [ih.ne (by rw [h]; exact hnf)]; exact h
  | cons c rest =>
    cases c with
    | mk ce body =>
      rw [switchG.eq_def] at h ⊢; simp only at h ⊢
      rcall h1 cv w1 : evalG n F ρ w ce, evalG (n+1) F ρ w ce, ih.ev
      split at h
      · rename_i hc; rw [if_pos hc, ih.ne (by rw [h]; exact hnf)]; exact h
      · rename_i hc; rw [if_neg hc, ih.sw (by rw [h]; exact hnf)]; exact h

theorem monoT (n : Nat) (ih : MonoAt n) : ∀ F ρ w v cs d r, tswitchG (n+1) F ρ w v cs d = r → r.nf → tswitchG (n+2) F ρ w v cs d = r := by
  intro F ρ w v cs d r h hnf
  cases cs with
  | nil =>
    rw [tswitchG.eq_def] at h ⊢; simp only at h ⊢
    cases d with
    | none => exact h
    | some b => simp only at h ⊢; rw [ih.ne (by rw [h]; exact hnf)]; exact h
  | cons c rest =>
    cases c with
    | mk ty body =>
      rw [tswitchG.eq_def] at h ⊢; simp only at h ⊢
      split at h
      all_goals
        split at h
        · rename_i hc; rw [if_pos hc, ih.ne (by rw [h]; exact hnf)]; exact h
        · rename_i hc; rw [if_neg hc, ih.ts (by rw [h]; exact hnf)]; exact h

theorem monoX (n : Nat) (ih : MonoAt n) : ∀ F ρ w s r, execG (n+1) F ρ w s = r → r.nf → execG (n+2) F ρ w s = r := by
  intro F ρ w s r h hnf
  cases s with
  | expr e =>
    rw [execG.eq_def] at h ⊢; simp only at h ⊢
    rcall h1 v1 w1 : evalG n F ρ w e, evalG (n+1) F ρ w e, ih.ev
    exact h
  | go call =>
    rw [execG.eq_def] at h ⊢; simp only at h ⊢
    cases call with
    | call t f args =>
      simp only at h ⊢
      rcall h1 fv w1 : evalG n F ρ w f, evalG (n+1) F ρ w f, ih.ev
      rcall h2 vs w2 : evalListG n F ρ w1 args, evalListG (n+1) F ρ w1 args, ih.el
      split at h
      · rename_i he
        rw [if_pos he]
        rcall h3 v3 w3 : callG n F w2 fv vs, callG (n+1) F w2 fv vs, ih.cl
        exact h
      · rename_i he; rw [if_neg he]; exact h
    | _ => exact h
  | varDecl x ty v =>
    rw [execG.eq_def] at h ⊢; simp only at h ⊢
    split at h
    · rename_i ha; rw [if_pos ha]; exact h
    · rename_i ha; rw [if_neg ha]
      cases v with
      | none => exact h
      | some e =>
        simp only at h ⊢
        rcall h1 v1 w1 : evalG n F ρ w e, evalG (n+1) F ρ w e, ih.ev
        exact h
  | assign x e =>
    rw [execG.eq_def] at h ⊢; simp only at h ⊢
    rcall h1 v1 w1 : evalG n F ρ w e, evalG (n+1) F ρ w e, ih.ev
    exact h
  | fieldAssign target e =>
    rw [execG.eq_def] at h ⊢; simp only at h ⊢
    cases target with
    | field f t obj =>
      simp only at h ⊢
      rcall h1 ov w1 : evalG n F ρ w obj, evalG (n+1) F ρ w obj, ih.ev
      rcall h2 v2 w2 : evalG n F ρ w1 e, evalG (n+1) F ρ w1 e, ih.ev
      exact h
    | _ => exact h
  | ptrAssign p e =>
    rw [execG.eq_def] at h ⊢; simp only at h ⊢
    rcall h1 pv w1 : evalG n F ρ w p, evalG (n+1) F ρ w p, ih.ev
    cases pv with
    | ptr l =>
      simp only at h ⊢
      rcall h2 v2 w2 : evalG n F ρ w1 e, evalG (n+1) F ρ w1 e, ih.ev
      exact h
    | _ => exact h
  | indexAssign arr idx e =>
    rw [execG.eq_def] at h ⊢; simp only at h ⊢
    cases arr with
    | var x t =>
      simp only at h ⊢
      rcall h1 iv w1 : evalG n F ρ w idx, evalG (n+1) F ρ w idx, ih.ev
      cases hl : lookupG ρ x with
      | none => rw [hl] at h; cases iv <;> exact h
      | some av =>
        rw [hl] at h
        cases av with
        | array vs =>
          cases iv with
          | int a b i =>
            simp only at h ⊢
            rcall h2 v2 w2 : evalG n F ρ w1 e, evalG (n+1) F ρ w1 e, ih.ev
            exact h
          | _ => exact h
        | _ => cases iv <;> exact h
    | _ => exact h
  | ret e =>
    rw [execG.eq_def] at h ⊢; simp only at h ⊢
    cases e with
    | none => exact h
    | some e =>
      simp only at h ⊢
      rcall h1 v1 w1 : evalG n F ρ w e, evalG (n+1) F ρ w e, ih.ev
      exact h
  | ite c t e =>
    rw [execG.eq_def] at h ⊢; simp only at h ⊢
    rcall h1 cv w1 : evalG n F ρ w c, evalG (n+1) F ρ w c, ih.ev
    cases cv with
    | bool b =>
      cases b <;> simp only at h ⊢
      · cases e with
        | none => exact h
        | some eb => simp only at h ⊢; rw [ih.ne (by rw [h]; exact hnf)]; exact h
      · rw [ih.ne (by rw [h]; exact hnf)]; exact h
    | _ => exact h
  | loop body =>
    rw [execG.eq_def] at h ⊢; simp only at h ⊢
    rcall h1 p w1 : nestedG n F ρ w body, nestedG (n+1) F ρ w body, ih.ne
    obtain ⟨ρ', sig⟩ := p
    cases sig <;> simp only at h ⊢
    · rw [ih.ex (by rw [h]; exact hnf)]; exact h
    · exact h
    · exact h
  | brk => rw [execG.eq_def] at h ⊢; exact h
  | «switch» e cs d =>
    rw [execG.eq_def] at h ⊢; simp only at h ⊢
    rcall h1 v1 w1 : evalG n F ρ w e, evalG (n+1) F ρ w e, ih.ev
    rw [ih.sw (by rw [h]; exact hnf)]; exact h
  | tswitch bind e cs d =>
    rw [execG.eq_def] at h ⊢; simp only at h ⊢
    rcall h1 v1 w1 : evalG n F ρ w e, evalG (n+1) F ρ w e, ih.ev
    cases bind with
    | none =>
      simp only at h ⊢
      rcall h2 p w2 : tswitchG n F ρ w1 v1 cs d, tswitchG (n+1) F ρ w1 v1 cs d, ih.ts
      exact h
    | some b =>
      simp only at h ⊢
      by_cases hb : (b == "_") = true
      · simp only [hb, if_true] at h ⊢
        rcall h2 p w2 : tswitchG n F ρ w1 v1 cs d, tswitchG (n+1) F ρ w1 v1 cs d, ih.ts
        exact h
      · simp only [hb, if_false, Bool.false_eq_true] at h ⊢
        rcall h2 p w2 : tswitchG n F ((b, v1) :: ρ) w1 v1 cs d, tswitchG (n+1) F ((b, v1) :: ρ) w1 v1 cs d, ih.ts
        exact h

theorem mono0 : MonoAt 0 := by
  constructor <;> intros <;>
    simp_all [evalG, evalListG, evalFieldsG, callG, execBlockG, nestedG, execG, switchG, tswitchG]

theorem monoStep (n : Nat) (ih : MonoAt n) : MonoAt (n+1) where
  ev := fun {F ρ w e} h => monoE n ih F ρ w e _ rfl h
  el := fun {F ρ w es} h => monoL n ih F ρ w es _ rfl h
  ef := fun {F ρ w fs} h => monoF n ih F ρ w fs _ rfl h
  cl := fun {F w f args} h => monoC n ih F w f args _ rfl h
  bl := fun {F ρ w ss} h => monoB n ih F ρ w ss _ rfl h
  ne := fun {F ρ w ss} h => monoN n ih F ρ w ss _ rfl h
  ex := fun {F ρ w s} h => monoX n ih F ρ w s _ rfl h
  sw := fun {F ρ w v cs d} h => monoS n ih F ρ w v cs d _ rfl h
  ts := fun {F ρ w v cs d} h => monoT n ih F ρ w v cs d _ rfl h

/-- **fuel monotonicity**, one step, all nine functions of `Go.Sem` -/
theorem mono_all : ∀ n, MonoAt n
  | 0 => mono0
  | n + 1 => monoStep n (mono_all n)

/-- `execBlockG`: a run that finished within `n` is the same with any `m ≥ n` -/
theorem execBlockG_mono {n m : Nat} (hle : n ≤ m) {F ρ w ss} (h : (execBlockG n F ρ w ss).nf) :
    execBlockG m F ρ w ss = execBlockG n F ρ w ss := by
  induction hle with
  | refl => rfl
  | step _ ih => rw [(mono_all _).bl (by rw [ih]; exact h), ih]

theorem execG_mono {n m : Nat} (hle : n ≤ m) {F ρ w s} (h : (execG n F ρ w s).nf) :
    execG m F ρ w s = execG n F ρ w s := by
  induction hle with
  | refl => rfl
  | step _ ih => rw [(mono_all _).ex (by rw [ih]; exact h), ih]

theorem nestedG_mono {n m : Nat} (hle : n ≤ m) {F ρ w ss} (h : (nestedG n F ρ w ss).nf) :
    nestedG m F ρ w ss = nestedG n F ρ w ss := by
  induction hle with
  | refl => rfl
  | step _ ih => rw [(mono_all _).ne (by rw [ih]; exact h), ih]

theorem evalG_mono {n m : Nat} (hle : n ≤ m) {F ρ w e} (h : (evalG n F ρ w e).nf) :
    evalG m F ρ w e = evalG n F ρ w e := by
  induction hle with
  | refl => rfl
  | step _ ih => rw [(mono_all _).ev (by rw [ih]; exact h), ih]

theorem evalListG_mono {n m : Nat} (hle : n ≤ m) {F ρ w es} (h : (evalListG n F ρ w es).nf) :
    evalListG m F ρ w es = evalListG n F ρ w es := by
  induction hle with
  | refl => rfl
  | step _ ih => rw [(mono_all _).el (by rw [ih]; exact h), ih]

theorem evalFieldsG_mono {n m : Nat} (hle : n ≤ m) {F ρ w fs} (h : (evalFieldsG n F ρ w fs).nf) :
    evalFieldsG m F ρ w fs = evalFieldsG n F ρ w fs := by
  induction hle with
  | refl => rfl
  | step _ ih => rw [(mono_all _).ef (by rw [ih]; exact h), ih]

theorem callG_mono {n m : Nat} (hle : n ≤ m) {F w f args} (h : (callG n F w f args).nf) :
    callG m F w f args = callG n F w f args := by
  induction hle with
  | refl => rfl
  | step _ ih => rw [(mono_all _).cl (by rw [ih]; exact h), ih]

theorem switchG_mono {n m : Nat} (hle : n ≤ m) {F ρ w v cs d} (h : (switchG n F ρ w v cs d).nf) :
    switchG m F ρ w v cs d = switchG n F ρ w v cs d := by
  induction hle with
  | refl => rfl
  | step _ ih => rw [(mono_all _).sw (by rw [ih]; exact h), ih]

theorem tswitchG_mono {n m : Nat} (hle : n ≤ m) {F ρ w v cs d} (h : (tswitchG n F ρ w v cs d).nf) :
    tswitchG m F ρ w v cs d = tswitchG n F ρ w v cs d := by
  induction hle with
  | refl => rfl
  | step _ ih => rw [(mono_all _).ts (by rw [ih]; exact h), ih]

end Goml.Go
