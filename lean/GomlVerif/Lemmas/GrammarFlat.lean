import GomlVerif.Lemmas.GrammarStep
/-! The event list `flatL items` of every item tree resolves (`Tree.resolve`: forward-parent chains with
tombstoning) to a balanced event list with `advsL items` advances. -/
namespace Goml.Grammar
open Goml.Tree

/-! ## `chain` only looks ahead -/

theorem chain_none (f : Nat) (evs : List Ev) (i : Nat) (ks : List Nat) : chain f evs i none ks = some (ks, evs) := by
  cases f <;> simp [chain]

theorem chain_local : ∀ (f : Nat) (X post : List Ev) (j : Nat) (fp : Option Nat) (kinds : List Nat),
    chain f (X ++ post) (X.length + j) fp kinds = (chain f post j fp kinds).map (fun r => (r.1, X ++ r.2)) := by
  intro f
  induction f with
  | zero => intro X post j fp kinds; cases fp <;> simp [chain]
  | succ f ih =>
    intro X post j fp kinds
    cases fp with
    | none => simp [chain]
    | some fwd =>
      simp only [chain]
      have h1 : (X ++ post)[X.length + j + fwd]? = post[j + fwd]? := by
        rw [Nat.add_assoc, List.getElem?_append_right (by omega)]; congr 1; omega
      rw [h1]
      cases hp : post[j + fwd]? with
      | none => simp
      | some ev =>
        cases ev with
        | op k fp' =>
          simp only
          have h2 : (X ++ post).set (X.length + j + fwd) tombstone = X ++ post.set (j + fwd) tombstone := by
            rw [Nat.add_assoc, List.set_append_right _ _ (by omega)]; congr 2; omega
          rw [h2, Nat.add_assoc, ih]
        | close => simp
        | advance => simp
        | error m => simp

theorem chain_length : ∀ (f : Nat) (evs : List Ev) (i : Nat) (fp : Option Nat) (ks : List Nat) (r : List Nat × List Ev),
    chain f evs i fp ks = some r → r.2.length = evs.length := by
  intro f
  induction f with
  | zero => intro evs i fp ks r h; cases fp <;> simp [chain] at h; subst h; rfl
  | succ f ih =>
    intro evs i fp ks r h
    cases fp with
    | none => simp [chain] at h; subst h; rfl
    | some fwd =>
      simp only [chain] at h
      cases hp : evs[i + fwd]? with
      | none => simp [hp] at h
      | some ev =>
        cases ev with
        | op k fp' => simp only [hp] at h; have := ih _ _ _ _ _ h; simpa using this
        | close => simp [hp] at h
        | advance => simp [hp] at h
        | error m => simp [hp] at h

/-! ## `resolveLoop` on the suffix it still has to read -/

def filt (ks : List Nat) : List Nat := ks.filter (· != Goml.Gen.Tokens.tombStoneKind)

def resolveS (N : Nat) : Nat → List Ev → Option (List REv)
  | 0, _ => some []
  | _ + 1, [] => some []
  | fuel + 1, ev :: rest =>
      match ev with
      | .op k fp => do
          let (kinds, evs) ← chain N (tombstone :: rest) 0 fp [k]
          let r ← resolveS N fuel (evs.drop 1)
          pure (.starts (filt kinds.reverse) :: r)
      | .close => (resolveS N fuel rest).map (.finish :: ·)
      | .advance => (resolveS N fuel rest).map (.advance :: ·)
      | .error m => (resolveS N fuel rest).map (.error m :: ·)

theorem drop_succ_set (evs : List Ev) (i : Nat) (x : Ev) : (evs.set i x).drop (i + 1) = evs.drop (i + 1) := by
  apply List.ext_getElem?
  intro n
  simp only [List.getElem?_drop, List.getElem?_set]
  split
  · omega
  · rfl

theorem resolveLoop_eq : ∀ (fuel i : Nat) (evs : List Ev),
    resolveLoop fuel i evs = resolveS (evs.length + 1) fuel (evs.drop i) := by
  intro fuel
  induction fuel with
  | zero => intro i evs; simp [resolveLoop, resolveS]
  | succ fuel ih =>
    intro i evs
    rw [resolveLoop]
    by_cases hi : i < evs.length
    · have hd : evs.drop i = evs[i] :: evs.drop (i + 1) := List.drop_eq_getElem_cons hi
      rw [hd, List.getElem?_eq_getElem hi]
      have hset : evs.set i tombstone = evs.take i ++ tombstone :: evs.drop (i + 1) := by
        rw [List.set_eq_take_append_cons_drop]; simp [hi]
      have hlen : (evs.take i).length = i := by simp; omega
      cases hev : evs[i] with
      | op k fp =>
        simp only [resolveS]
        rw [hset]
        have := chain_local ((evs.take i ++ tombstone :: evs.drop (i + 1)).length + 1) (evs.take i)
          (tombstone :: evs.drop (i + 1)) 0 fp [k]
        simp only [Nat.add_zero, hlen] at this
        rw [this]
        have hl2 : (evs.take i ++ tombstone :: evs.drop (i + 1)).length = evs.length := by
          rw [← hset]; simp
        rw [hl2]
        cases hc : chain (evs.length + 1) (tombstone :: evs.drop (i + 1)) 0 fp [k] with
        | none => simp
        | some r =>
          have hr := chain_length _ _ _ _ _ _ hc
          simp only [Option.map_some, Option.bind_eq_bind, Option.bind_some]
          rw [ih]
          have e1 : (evs.take i ++ r.2).length = evs.length := by
            simp only [List.length_append, hlen, hr, List.length_cons, List.length_drop]; omega
          have e2 : (evs.take i ++ r.2).drop (i + 1) = r.2.drop 1 := by
            have hh : i + 1 = (evs.take i).length + 1 := by omega
            rw [hh, List.drop_append, List.drop_eq_nil_of_le (by omega), Nat.add_sub_cancel_left, List.nil_append]
          rw [e1, e2]
          rfl
      | close => simp only [resolveS]; rw [ih, drop_succ_set, List.length_set]
      | advance => simp only [resolveS]; rw [ih, drop_succ_set, List.length_set]
      | error m => simp only [resolveS]; rw [ih, drop_succ_set, List.length_set]
    · have : evs.drop i = [] := List.drop_eq_nil_of_le (by omega)
      rw [this, List.getElem?_eq_none (by omega)]
      simp [resolveS]

/-- resolution of a suffix with exactly the fuel it needs -/
def R (N : Nat) (l : List Ev) : Option (List REv) := resolveS N l.length l

theorem resolve_eq_R (evs : List Ev) : resolve evs = R (evs.length + 1) evs := by
  simp [resolve, resolveLoop_eq, R]

theorem R_nil (N : Nat) : R N [] = some [] := by simp [R, resolveS]
theorem R_close (N : Nat) (rest : List Ev) : R N (.close :: rest) = (R N rest).map (.finish :: ·) := by simp [R, resolveS]
theorem R_advance (N : Nat) (rest : List Ev) : R N (.advance :: rest) = (R N rest).map (.advance :: ·) := by simp [R, resolveS]
theorem R_error (N : Nat) (m : String) (rest : List Ev) : R N (.error m :: rest) = (R N rest).map (.error m :: ·) := by simp [R, resolveS]

theorem R_op (N k : Nat) (fp : Option Nat) (rest : List Ev) (kinds : List Nat) (evs' : List Ev)
    (h : chain N (tombstone :: rest) 0 fp [k] = some (kinds, evs')) :
    R N (.op k fp :: rest) = (R N (evs'.drop 1)).map (.starts (filt kinds.reverse) :: ·) := by
  have hl := chain_length _ _ _ _ _ _ h
  simp only [List.length_cons] at hl
  have hl' : (evs'.drop 1).length = rest.length := by simp [hl]
  simp only [R, resolveS, List.length_cons, h, Option.bind_eq_bind, Option.bind_some, hl']
  cases resolveS N rest.length (List.drop 1 evs') <;> rfl

/-! ## forward-parent chains, relationally -/

inductive Ch : List Ev → Nat → Option Nat → List Nat → List Ev → Prop
  | done (evs : List Ev) (i : Nat) : Ch evs i none [] evs
  | step (evs : List Ev) (i fwd k : Nat) (fp : Option Nat) (ups : List Nat) (evs' : List Ev) :
      evs[i + fwd]? = some (.op k fp) → Ch (evs.set (i + fwd) tombstone) (i + fwd) fp ups evs' →
      Ch evs i (some fwd) (k :: ups) evs'

theorem ch_chain {evs : List Ev} {i : Nat} {fp : Option Nat} {ups : List Nat} {evs' : List Ev} (h : Ch evs i fp ups evs') :
    ∀ (f : Nat) (ks : List Nat), ups.length ≤ f → chain f evs i fp ks = some (ks ++ ups, evs') := by
  induction h with
  | done evs i => intro f ks _; simp [chain_none]
  | step evs i fwd k fp ups evs' hget _ ih =>
    intro f ks hf
    cases f with
    | zero => simp at hf
    | succ f =>
      simp only [chain, hget]
      rw [ih f (ks ++ [k]) (by simpa using hf)]
      simp

theorem ch_local {post : List Ev} {j : Nat} {fp : Option Nat} {ups : List Nat} {post' : List Ev} (h : Ch post j fp ups post')
    (X : List Ev) : Ch (X ++ post) (X.length + j) fp ups (X ++ post') := by
  induction h with
  | done evs i => exact Ch.done _ _
  | step evs i fwd k fp ups evs' hget _ ih =>
    refine Ch.step _ _ fwd k fp ups _ ?_ ?_
    · rw [Nat.add_assoc, List.getElem?_append_right (by omega)]; rw [← hget]; congr 1; omega
    · have : (X ++ evs).set (X.length + i + fwd) tombstone = X ++ evs.set (i + fwd) tombstone := by
        rw [Nat.add_assoc, List.set_append_right _ _ (by omega)]; congr 2; omega
      rw [this, Nat.add_assoc]; exact ih

/-- a chain that starts inside a prefix `X` (at index `i`) and whose first jump leaves `X` -/
theorem ch_lift {post : List Ev} {fw : Option Nat} {ups : List Nat} {postT : List Ev} (h : Ch post 0 fw ups postT)
    (X : List Ev) (i : Nat) (hi : i ≤ X.length) :
    Ch (X ++ post) i (fw.map (· + (X.length - i))) ups (X ++ postT) := by
  cases h with
  | done => exact Ch.done _ _
  | step _ _ fwd k fp ups evs' hget hrest =>
    simp only [Option.map_some]
    have e : i + (fwd + (X.length - i)) = X.length + fwd := by omega
    refine Ch.step _ _ _ k fp ups _ ?_ ?_
    · rw [e, List.getElem?_append_right (by omega)]; rw [← hget]; congr 1; omega
    · have : (X ++ post).set (i + (fwd + (X.length - i))) tombstone = X ++ post.set (0 + fwd) tombstone := by
        rw [e, List.set_append_right _ _ (by omega)]; congr 2; omega
      rw [this, e]
      have := ch_local hrest X
      simpa using this

/-! ## the resolved view of an item tree -/

def hasHead : Item → Bool
  | .adv => false
  | .err _ => false
  | _ => true

mutual
/-- the resolved events of an item whose head `Open` also starts the pending parents `ups` (innermost first) -/
def rf : Item → List Nat → List REv
  | .adv, _ => [.advance]
  | .err m, _ => [.error m]
  | .node k ch, ups => .starts (filt (k :: ups).reverse) :: (rfL ch ++ [.finish])
  | .wrap k first mid rest, ups =>
      rf first (k :: ups) ++ (rfL mid ++
        (.starts (if hasHead first then [] else filt (k :: ups).reverse) :: (rfL rest ++ [.finish])))
def rfL : List Item → List REv
  | [] => []
  | i :: is => rf i [] ++ rfL is
end

theorem flat_length_fwd (it : Item) (a b : Option Nat) : (flat it a).length = (flat it b).length := by
  cases it with
  | adv => simp [flat]
  | err m => simp [flat]
  | node k ch => simp [flat]
  | wrap k first mid rest => simp [flat]

theorem filt_tomb : filt [Goml.Gen.Tokens.tombStoneKind] = [] := by decide

/-- **Resolution of `flat`.** With the chain from the head of `it` continuing through `post` (`Ch`), resolving
`flat it fw ++ post` gives the resolved view of `it` followed by the resolution of what the chain left of `post`. -/
theorem rf_spec (N : Nat) :
    (∀ (it : Item) (fw : Option Nat) (post : List Ev) (ups : List Nat) (postT : List Ev),
      Ch post 0 fw ups postT → ups.length + (flat it fw).length ≤ N →
      R N (flat it fw ++ post) = (R N (if hasHead it then postT else post)).map (rf it ups ++ ·)) := by
  intro it
  apply Item.rec
    (motive_1 := fun it => ∀ (fw : Option Nat) (post : List Ev) (ups : List Nat) (postT : List Ev),
      Ch post 0 fw ups postT → ups.length + (flat it fw).length ≤ N →
      R N (flat it fw ++ post) = (R N (if hasHead it then postT else post)).map (rf it ups ++ ·))
    (motive_2 := fun items => ∀ (post : List Ev), (flatL items).length ≤ N →
      R N (flatL items ++ post) = (R N post).map (rfL items ++ ·))
  · -- adv
    intro fw post ups postT _ _
    simp only [flat, rf, hasHead, List.cons_append, List.nil_append, R_advance, Bool.false_eq_true, ite_false]
  · -- err
    intro m fw post ups postT _ _
    simp only [flat, rf, hasHead, List.cons_append, List.nil_append, R_error, Bool.false_eq_true, ite_false]
  · -- node
    intro k ch ihch fw post ups postT hch hN
    simp only [flat, List.length_cons, List.length_append, List.length_nil] at hN
    have hX := ch_lift hch (tombstone :: (flatL ch ++ [.close])) 0 (Nat.zero_le _)
    have hc := ch_chain hX N [k] (by omega)
    have e1 : (flat (.node k ch) fw ++ post) =
        .op k (fw.map (· + ((tombstone :: (flatL ch ++ [Ev.close])).length - 0))) :: (flatL ch ++ (.close :: post)) := by
      simp only [flat, List.cons_append, List.append_assoc, List.length_cons, List.length_append, List.length_nil,
        List.nil_append, Nat.sub_zero]
      congr 2
    rw [e1]
    have e2 : tombstone :: (flatL ch ++ (Ev.close :: post)) = (tombstone :: (flatL ch ++ [Ev.close])) ++ post := by simp
    rw [R_op N k _ _ ([k] ++ ups) ((tombstone :: (flatL ch ++ [Ev.close])) ++ postT) (by rw [e2]; exact hc)]
    have e3 : List.drop 1 ((tombstone :: (flatL ch ++ [Ev.close])) ++ postT) = flatL ch ++ (.close :: postT) := by simp
    rw [e3, ihch _ (by omega), R_close]
    simp only [hasHead, rf, ite_true]
    cases R N postT <;> simp
  · -- wrap
    intro k first mid rest ihf ihm ihr fw post ups postT hch hN
    simp only [flat, List.length_cons, List.length_append, List.length_nil] at hN
    -- the list after `first`
    let fw2 : Option Nat := fw.map (· + (flatL rest).length + 2)
    have e1 : flat (.wrap k first mid rest) fw ++ post =
        flat first (some (flatL mid).length) ++ (flatL mid ++ (.op k fw2 :: (flatL rest ++ (.close :: post)))) := by
      simp [flat, fw2]
    -- the chain from the head of `first`: lands on `op k`, then goes on as the chain of the whole item
    have hX := ch_lift hch (tombstone :: (flatL rest ++ [.close])) 0 (Nat.zero_le _)
    have hfw2 : fw2 = fw.map (· + ((tombstone :: (flatL rest ++ [Ev.close])).length - 0)) := by
      cases fw <;> simp [fw2] <;> omega
    have e2 : ∀ (p : List Ev), tombstone :: (flatL rest ++ (Ev.close :: p)) = (tombstone :: (flatL rest ++ [Ev.close])) ++ p := by
      intro p; simp
    have hch1 : Ch (flatL mid ++ (.op k fw2 :: (flatL rest ++ (.close :: post)))) 0 (some (flatL mid).length) (k :: ups)
        (flatL mid ++ (tombstone :: (flatL rest ++ (.close :: postT)))) := by
      refine Ch.step _ _ _ k fw2 ups _ ?_ ?_
      · rw [Nat.zero_add, List.getElem?_append_right (Nat.le_refl _)]; simp
      · have : (flatL mid ++ (Ev.op k fw2 :: (flatL rest ++ (Ev.close :: post)))).set (0 + (flatL mid).length) tombstone =
            flatL mid ++ (tombstone :: (flatL rest ++ (Ev.close :: post))) := by
          rw [Nat.zero_add, List.set_append_right _ _ (Nat.le_refl _)]; simp
        rw [this, e2, e2, hfw2]
        have := ch_local hX (flatL mid)
        simpa using this
    rw [e1, ihf _ _ _ _ hch1 (by simp only [List.length_cons]; omega)]
    have hw : hasHead (Item.wrap k first mid rest) = true := rfl
    simp only [hw, ite_true]
    cases hh : hasHead first with
    | true =>
      simp only [ite_true, rf, hh]
      rw [ihm _ (by omega)]
      have hR : R N (tombstone :: (flatL rest ++ (.close :: postT))) =
          (R N (flatL rest ++ (.close :: postT))).map (.starts [] :: ·) := by
        have := R_op N Goml.Gen.Tokens.tombStoneKind none (flatL rest ++ (.close :: postT))
          [Goml.Gen.Tokens.tombStoneKind] (tombstone :: (flatL rest ++ (.close :: postT))) (by rw [chain_none])
        show R N (Ev.op Goml.Gen.Tokens.tombStoneKind none :: _) = _
        rw [this]
        simp [filt_tomb]
      rw [hR, ihr _ (by omega), R_close]
      cases R N postT <;> simp
    | false =>
      simp only [Bool.false_eq_true, ite_false, rf, hh]
      rw [ihm _ (by omega)]
      have hc := ch_chain hX N [k] (by omega)
      rw [← hfw2, ← e2] at hc
      rw [R_op N k fw2 _ ([k] ++ ups) _ hc]
      have : List.drop 1 ((tombstone :: (flatL rest ++ [Ev.close])) ++ postT) = flatL rest ++ (.close :: postT) := by simp
      rw [this, ihr _ (by omega), R_close]
      cases R N postT <;> simp
  · -- nil
    intro post _
    simp only [flatL, rfL, List.nil_append]
    cases R N post <;> rfl
  · -- cons
    intro i is ihi ihis post hN
    simp only [flatL, List.length_append] at hN
    simp only [flatL, rfL, List.append_assoc]
    rw [ihi none _ [] _ (Ch.done _ _) (by simp; omega)]
    simp only [ite_self]
    rw [ihis _ (by omega)]
    cases R N post <;> simp

/-! ## the resolved view is balanced -/

abbrev tombK : Nat := Goml.Gen.Tokens.tombStoneKind

mutual
/-- no node of the item tree has the kind `TombStone` (such a node would be dropped by `build_tree`) -/
def kindsOK : Item → Bool
  | .adv => true
  | .err _ => true
  | .node k ch => k != tombK && kindsOKL ch
  | .wrap k first mid rest => k != tombK && kindsOK first && kindsOKL mid && kindsOKL rest
def kindsOKL : List Item → Bool
  | [] => true
  | i :: is => kindsOK i && kindsOKL is
end

theorem filt_id (l : List Nat) (h : ∀ u ∈ l, u ≠ tombK) : filt l = l := by
  unfold filt
  rw [List.filter_eq_self]
  intro a ha
  simpa using h a ha

theorem bal_cons (d : Nat) (ev : REv) (evs : List REv) (h : evs ≠ []) :
    balancedFrom d (ev :: evs) = (match depthAfter d ev with
      | some (d' + 1) => balancedFrom (d' + 1) evs
      | _ => false) := by
  cases evs with
  | nil => exact absurd rfl h
  | cons x xs => rfl

theorem bal_advance (d : Nat) (evs : List REv) (h : evs ≠ []) (hd : 1 ≤ d) :
    balancedFrom d (.advance :: evs) = balancedFrom d evs := by
  rw [bal_cons _ _ _ h]; obtain ⟨d', rfl⟩ : ∃ d', d = d' + 1 := ⟨d - 1, by omega⟩; simp [depthAfter]

theorem bal_error (d : Nat) (m : String) (evs : List REv) (h : evs ≠ []) (hd : 1 ≤ d) :
    balancedFrom d (.error m :: evs) = balancedFrom d evs := by
  rw [bal_cons _ _ _ h]; obtain ⟨d', rfl⟩ : ∃ d', d = d' + 1 := ⟨d - 1, by omega⟩; simp [depthAfter]

theorem bal_starts (d : Nat) (ks : List Nat) (evs : List REv) (h : evs ≠ []) (hd : 1 ≤ d + ks.length) :
    balancedFrom d (.starts ks :: evs) = balancedFrom (d + ks.length) evs := by
  rw [bal_cons _ _ _ h]; obtain ⟨d', hd'⟩ : ∃ d', d + ks.length = d' + 1 := ⟨d + ks.length - 1, by omega⟩
  simp [depthAfter, hd']

theorem bal_finish (d : Nat) (evs : List REv) (h : evs ≠ []) (hd : 2 ≤ d) :
    balancedFrom d (.finish :: evs) = balancedFrom (d - 1) evs := by
  rw [bal_cons _ _ _ h]; obtain ⟨d', rfl⟩ : ∃ d', d = d' + 2 := ⟨d - 2, by omega⟩
  simp [depthAfter]

theorem rf_balanced :
    ∀ (it : Item), kindsOK it = true → ∀ (ups : List Nat) (d : Nat) (tail : List REv), (∀ u ∈ ups, u ≠ tombK) → 1 ≤ d →
      tail ≠ [] → balancedFrom d (rf it ups ++ tail) = balancedFrom (d + if hasHead it then ups.length else 0) tail := by
  intro it
  apply Item.rec
    (motive_1 := fun it => kindsOK it = true → ∀ (ups : List Nat) (d : Nat) (tail : List REv), (∀ u ∈ ups, u ≠ tombK) →
      1 ≤ d → tail ≠ [] → balancedFrom d (rf it ups ++ tail) = balancedFrom (d + if hasHead it then ups.length else 0) tail)
    (motive_2 := fun items => kindsOKL items = true → ∀ (d : Nat) (tail : List REv), 1 ≤ d → tail ≠ [] →
      balancedFrom d (rfL items ++ tail) = balancedFrom d tail)
  · intro _ ups d tail _ hd ht
    simp only [rf, hasHead, List.cons_append, List.nil_append, Bool.false_eq_true, ite_false, Nat.add_zero]
    exact bal_advance d tail ht hd
  · intro m _ ups d tail _ hd ht
    simp only [rf, hasHead, List.cons_append, List.nil_append, Bool.false_eq_true, ite_false, Nat.add_zero]
    exact bal_error d m tail ht hd
  · intro k ch ih hk ups d tail hu hd ht
    simp only [kindsOK, Bool.and_eq_true, bne_iff_ne, ne_eq] at hk
    have hf : filt (k :: ups).reverse = (k :: ups).reverse := filt_id _ (by
      intro u hu'; simp only [List.mem_reverse, List.mem_cons] at hu'; rcases hu' with rfl | h; exact hk.1; exact hu u h)
    simp only [rf, hasHead, ite_true, List.cons_append, List.append_assoc, hf]
    rw [bal_starts _ _ _ (by simp) (by omega)]
    simp only [List.length_reverse, List.length_cons]
    rw [ih hk.2 _ _ (by omega) (by simp)]
    simp only [List.nil_append]
    rw [bal_finish _ _ ht (by omega)]
    congr 1
  · intro k first mid rest ihf ihm ihr hk ups d tail hu hd ht
    simp only [kindsOK, Bool.and_eq_true, bne_iff_ne, ne_eq] at hk
    obtain ⟨⟨⟨hk1, hk2⟩, hk3⟩, hk4⟩ := hk
    have hu' : ∀ u ∈ k :: ups, u ≠ tombK := by
      intro u h; simp only [List.mem_cons] at h; rcases h with rfl | h; exact hk1; exact hu u h
    have hf : filt (k :: ups).reverse = (k :: ups).reverse := filt_id _ (by
      intro u h; apply hu' u; simp only [List.mem_reverse] at h; exact h)
    have hw : hasHead (Item.wrap k first mid rest) = true := rfl
    simp only [rf, hw, ite_true, List.append_assoc, List.cons_append]
    rw [ihf hk2 _ _ _ hu' hd (by simp)]
    cases hh : hasHead first with
    | true =>
      simp only [ite_true, List.length_cons]
      rw [ihm hk3 _ _ (by omega) (by simp), bal_starts _ _ _ (by simp) (by simp; omega)]
      simp only [List.length_nil, Nat.add_zero]
      rw [ihr hk4 _ _ (by omega) (by simp)]
      simp only [List.nil_append]
      rw [bal_finish _ _ ht (by omega)]
      congr 1
    | false =>
      simp only [Bool.false_eq_true, ite_false, Nat.add_zero, hf]
      rw [ihm hk3 _ _ hd (by simp), bal_starts _ _ _ (by simp) (by omega)]
      simp only [List.length_reverse, List.length_cons]
      rw [ihr hk4 _ _ (by omega) (by simp)]
      simp only [List.nil_append]
      rw [bal_finish _ _ ht (by omega)]
      congr 1
  · intro _ d tail _ _; simp [rfL]
  · intro i is ihi ihis hk d tail hd ht
    simp only [kindsOKL, Bool.and_eq_true] at hk
    simp only [rfL, List.append_assoc]
    rw [ihi hk.1 [] _ _ (by simp) hd (by
      intro h; simp only [List.append_eq_nil_iff] at h; exact ht h.2)]
    simp only [List.length_nil, ite_self, Nat.add_zero]
    exact ihis hk.2 d tail hd ht

theorem rfL_balanced : ∀ (items : List Item), kindsOKL items = true → ∀ (d : Nat) (tail : List REv), 1 ≤ d → tail ≠ [] →
    balancedFrom d (rfL items ++ tail) = balancedFrom d tail := by
  intro items
  induction items with
  | nil => intro _ d tail _ _; simp [rfL]
  | cons i is ih =>
    intro hk d tail hd ht
    simp only [kindsOKL, Bool.and_eq_true] at hk
    simp only [rfL, List.append_assoc]
    rw [rf_balanced i hk.1 [] _ _ (by simp) hd (by
      intro h; simp only [List.append_eq_nil_iff] at h; exact ht h.2)]
    simp only [List.length_nil, ite_self, Nat.add_zero]
    exact ih hk.2 d tail hd ht

theorem advances_append (a b : List REv) : advances (a ++ b) = advances a + advances b := by
  induction a with
  | nil => simp [advances]
  | cons x xs ih => cases x <;> simp [advances, ih] <;> omega

theorem rf_advances : ∀ (it : Item) (ups : List Nat), advances (rf it ups) = advs it := by
  intro it
  apply Item.rec
    (motive_1 := fun it => ∀ (ups : List Nat), advances (rf it ups) = advs it)
    (motive_2 := fun items => advances (rfL items) = advsL items)
  · intro ups; simp [rf, advances, advs]
  · intro m ups; simp [rf, advances, advs]
  · intro k ch ih ups; simp [rf, advances, advs, advances_append, ih]
  · intro k first mid rest ihf ihm ihr ups
    simp [rf, advances, advs, advances_append, ihf, ihm, ihr]; omega
  · simp [rfL, advances, advsL]
  · intro i is ihi ihis; simp [rfL, advsL, advances_append, ihi, ihis]

/-- **The event list of a rooted item tree is well-formed**: it resolves, is balanced (root opened by the first
event and closed by the last), and has exactly `advsL` advances. -/
theorem flat_root_wellformed (k : Nat) (ch : List Item) (hk : kindsOK (.node k ch) = true) :
    ∃ revs, resolve (flatL [.node k ch]) = some revs ∧ balancedFrom 0 revs = true ∧ advances revs = advsL ch := by
  have hspec := rf_spec ((flatL [Item.node k ch]).length + 1) (.node k ch) none [] [] [] (Ch.done _ _)
    (by simp [flatL])
  have e : flatL [Item.node k ch] = flat (.node k ch) none ++ [] := by simp [flatL]
  refine ⟨rf (.node k ch) [] ++ [], ?_, ?_, ?_⟩
  · rw [resolve_eq_R, e]
    rw [e] at hspec
    rw [hspec]; simp [R_nil]
  · have hk' := hk
    simp only [kindsOK, Bool.and_eq_true, bne_iff_ne, ne_eq] at hk'
    have hf : filt [k] = [k] := filt_id _ (by intro u hu; simp at hu; subst hu; exact hk'.1)
    simp only [rf, List.reverse_cons, List.reverse_nil, List.nil_append, List.append_nil, hf]
    rw [bal_starts _ _ _ (by simp) (by simp)]
    rw [rfL_balanced ch hk'.2 _ _ (by simp) (by simp)]
    rfl
  · simp [rf, advances, advances_append]
    have := rf_advances (.node k ch) []
    simp [rf, advances, advances_append, advs] at this
    exact this

end Goml.Grammar
