import GomlVerif.Lemmas.GrammarFlat
/-! No node the grammar model emits has the kind `TombStone` (which `build_tree` would silently drop): a static
check of every `node`/`wrap`/`setKind` of every grammar function, and the invariant it gives for every output. -/
namespace Goml.Grammar
open Goml.Gen.Gram

def stmtKindsOK : Stmt → Bool
  | .seq a b => stmtKindsOK a && stmtKindsOK b
  | .ifAt _ t e => stmtKindsOK t && stmtKindsOK e
  | .ifAtAny _ t e => stmtKindsOK t && stmtKindsOK e
  | .ifEof t e => stmtKindsOK t && stmtKindsOK e
  | .ifCur _ t e => stmtKindsOK t && stmtKindsOK e
  | .ifRet t e => stmtKindsOK t && stmtKindsOK e
  | .ifIdxZero t e => stmtKindsOK t && stmtKindsOK e
  | .node k b => k != tombK && stmtKindsOK b
  | .nodeReg b => stmtKindsOK b
  | .wrap k b => k != tombK && stmtKindsOK b
  | .setKind k => k != tombK
  | _ => true

theorem opArm_ok (op l bp : Nat) (act : Stmt) (self : Fn) (rest : Stmt) (h1 : stmtKindsOK act = true)
    (h2 : stmtKindsOK rest = true) : stmtKindsOK (opArm op l bp act self rest) = true := by
  unfold opArm
  simp only [stmtKindsOK, Bool.and_eq_true, h2, and_true]
  split <;> simp [stmtKindsOK, h1]

theorem foldr_opArm_ok {α : Type} (tbl : List α) (op l : α → Nat) (bp : Nat) (act : α → Stmt) (self : Fn) (base : Stmt)
    (h1 : ∀ o, stmtKindsOK (act o) = true) (h2 : stmtKindsOK base = true) :
    stmtKindsOK (tbl.foldr (fun o acc => opArm (op o) (l o) bp (act o) self acc) base) = true := by
  induction tbl with
  | nil => exact h2
  | cons x xs ih => exact opArm_ok _ _ _ _ _ _ (h1 x) ih

theorem body_kindsOK (f : Fn) : stmtKindsOK (body f) = true := by
  cases f with
  | generic b => cases b <;> rfl
  | genericList b => rfl
  | genericListLoop b => rfl
  | blockLoop b => cases b <;> rfl
  | pathInner b => cases b <;> rfl
  | typeExprBp bp => rfl
  | typeExprBpLoop bp =>
    simp only [body, stmtKindsOK, Bool.true_and]
    exact foldr_opArm_ok typeInfixBp (·.1) (·.2.1) bp _ _ _ (fun o => rfl) rfl
  | exprBp bp => rfl
  | exprBpLoop bp =>
    simp only [body, stmtKindsOK, Bool.true_and]
    exact foldr_opArm_ok postfixBp (·.1) (·.2) bp _ _ _ (fun o => rfl)
      (foldr_opArm_ok infixBp (·.1) (·.2.1) bp _ _ _ (fun o => rfl) rfl)
  | expectExpr m => rfl
  | expectExprBp bp m => rfl
  | _ => rfl

theorem kindsOKL_append (a b : List Item) : kindsOKL (a ++ b) = (kindsOKL a && kindsOKL b) := by
  induction a with
  | nil => simp [kindsOKL]
  | cons x xs ih => simp [kindsOKL, ih, Bool.and_assoc]

theorem kindsOKL_wrapAt (out : List Item) (j k : Nat) (rest : List Item) (h1 : kindsOKL out = true)
    (hk : k ≠ tombK) (h2 : kindsOKL rest = true) : kindsOKL (wrapAt out j k rest) = true := by
  unfold wrapAt
  have h := h1
  rw [← List.take_append_drop j out, kindsOKL_append] at h
  simp only [Bool.and_eq_true] at h
  split
  · rename_i first mid hd
    rw [hd] at h
    simp only [kindsOKL, Bool.and_eq_true] at h
    simp only [kindsOKL_append, kindsOKL, kindsOK, Bool.and_eq_true, bne_iff_ne, ne_eq, and_true]
    exact ⟨h.1, ⟨⟨hk, h.2.1⟩, h.2.2⟩, h2⟩
  · simp only [kindsOKL_append, kindsOKL, kindsOK, Bool.and_eq_true, bne_iff_ne, ne_eq, and_true]
    exact ⟨h1, hk, h2⟩

/-- every node so far has a real kind, and so has the pending `close` -/
def KInv (s : PS) : Prop := kindsOKL s.out = true ∧ s.kd ≠ tombK

theorem kinv_emit (s : PS) (i : Item) (h : KInv s) (hi : kindsOK i = true) : KInv (emit s i) := by
  refine ⟨?_, h.2⟩
  simp [emit, kindsOKL_append, kindsOKL, h.1, hi]

theorem kinv_look (s : PS) (n : Nat) (h : KInv s) : KInv (look s n).2 := by
  unfold look; split <;> exact h

theorem kinv_bump (s : PS) (h : KInv s) : KInv (bump s) := h

theorem errTree_ok (m : String) : kindsOK (.node K_ErrorTree [.err m, .adv]) = true := by
  simp [kindsOK, kindsOKL, tombK]; decide

theorem kinv_expectK (s : PS) (k : Nat) (h : KInv s) : KInv (expectK s k) := by
  unfold expectK
  simp only
  split
  · exact kinv_emit _ _ (kinv_bump _ (kinv_look _ _ h)) rfl
  · split
    · exact kinv_emit _ _ (kinv_look _ _ (kinv_look _ _ h)) rfl
    · exact kinv_emit _ _ (kinv_bump _ (kinv_look _ _ (kinv_look _ _ h))) (errTree_ok _)

theorem execS_kinv (callF : Fn → PS → PS) (hc : ∀ f s, KInv s → KInv (callF f s)) :
    ∀ (st : Stmt), stmtKindsOK st = true → ∀ (s : PS), KInv s → KInv (execS callF st s) := by
  intro st
  induction st with
  | skip => intro _ s h; exact h
  | seq a b iha ihb =>
    intro hk s h; simp only [stmtKindsOK, Bool.and_eq_true] at hk; exact ihb hk.2 _ (iha hk.1 _ h)
  | adv => intro _ s h; exact kinv_emit _ _ (kinv_bump _ h) rfl
  | err m => intro _ s h; exact kinv_emit _ _ h rfl
  | advErr m => intro _ s h; exact kinv_emit _ _ (kinv_bump _ h) (errTree_ok _)
  | advErrDbg p => intro _ s h; exact kinv_emit _ _ (kinv_bump _ h) (errTree_ok _)
  | expect k => intro _ s h; exact kinv_expectK s k h
  | eat k =>
    intro _ s h; simp only [execS]; split
    · exact kinv_emit _ _ (kinv_bump _ (kinv_look _ _ h)) rfl
    · exact kinv_look _ _ h
  | ifAt k t e iht ihe =>
    intro hk s h; simp only [stmtKindsOK, Bool.and_eq_true] at hk; simp only [execS]
    split <;> first | exact iht hk.1 _ (kinv_look _ _ h) | exact ihe hk.2 _ (kinv_look _ _ h)
  | ifAtAny ks t e iht ihe =>
    intro hk s h; simp only [stmtKindsOK, Bool.and_eq_true] at hk; simp only [execS]
    split <;> first | exact iht hk.1 _ (kinv_look _ _ h) | exact ihe hk.2 _ (kinv_look _ _ h)
  | ifEof t e iht ihe =>
    intro hk s h; simp only [stmtKindsOK, Bool.and_eq_true] at hk; simp only [execS]
    split <;> first | exact iht hk.1 _ h | exact ihe hk.2 _ h
  | peek => intro _ s h; exact kinv_look _ _ h
  | nth i => intro _ s h; exact kinv_look _ _ h
  | nthIdx => intro _ s h; exact kinv_look _ _ h
  | ifCur ks t e iht ihe =>
    intro hk s h; simp only [stmtKindsOK, Bool.and_eq_true] at hk; simp only [execS]
    split <;> first | exact iht hk.1 _ h | exact ihe hk.2 _ h
  | ifRet t e iht ihe =>
    intro hk s h; simp only [stmtKindsOK, Bool.and_eq_true] at hk; simp only [execS]
    split <;> first | exact iht hk.1 _ h | exact ihe hk.2 _ h
  | setRet b => intro _ s h; exact h
  | setIdx n => intro _ s h; exact h
  | incIdx => intro _ s h; exact h
  | decIdx => intro _ s h; exact h
  | ifIdxZero t e iht ihe =>
    intro hk s h; simp only [stmtKindsOK, Bool.and_eq_true] at hk; simp only [execS]
    split <;> first | exact iht hk.1 _ h | exact ihe hk.2 _ h
  | node k b ih =>
    intro hk s h
    simp only [stmtKindsOK, Bool.and_eq_true, bne_iff_ne, ne_eq] at hk
    have h1 := ih hk.2 { s with out := [] } ⟨rfl, h.2⟩
    refine ⟨?_, h1.2⟩
    simp [execS, kindsOKL_append, kindsOKL, kindsOK, h.1, h1.1, hk.1]
  | nodeReg b ih =>
    intro hk s h
    simp only [stmtKindsOK] at hk
    have h1 := ih hk { s with out := [] } ⟨rfl, h.2⟩
    refine ⟨?_, h1.2⟩
    simp [execS, kindsOKL_append, kindsOKL, kindsOK, h.1, h1.1, h1.2]
  | setKind k =>
    intro hk s h
    simp only [stmtKindsOK, bne_iff_ne, ne_eq] at hk
    exact ⟨h.1, hk⟩
  | markLast => intro _ s h; exact h
  | wrap k b ih =>
    intro hk s h
    simp only [stmtKindsOK, Bool.and_eq_true, bne_iff_ne, ne_eq] at hk
    have h1 := ih hk.2 { s with out := [] } ⟨rfl, h.2⟩
    exact ⟨kindsOKL_wrapAt _ _ _ _ h.1 hk.1 h1.1, h1.2⟩
  | call f => intro _ s h; simp only [execS]; split; exact h; exact hc f s h

theorem run_kinv : ∀ (n : Nat) (f : Fn) (s : PS), KInv s → KInv (run n f s) := by
  intro n
  induction n with
  | zero => intro f s h; exact h
  | succ n ih => intro f s h; exact execS_kinv (run n) ih (body f) (body_kindsOK f) _ h

end Goml.Grammar
