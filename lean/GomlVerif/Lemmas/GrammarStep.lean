import GomlVerif.Model.Grammar
/-! Invariants of the grammar interpreter (`Model/Grammar.lean`) that hold for every statement and
every grammar function: the token list is never touched, the cursor never moves back and never
passes the end, and every step of the cursor is matched by an `Advance` in the output. -/
namespace Goml.Grammar

mutual
/-- number of `Advance` events of an item -/
def advs : Item → Nat
  | .adv => 1
  | .err _ => 0
  | .node _ ch => advsL ch
  | .wrap _ first mid rest => advs first + advsL mid + advsL rest
def advsL : List Item → Nat
  | [] => 0
  | i :: is => advs i + advsL is
end

theorem advsL_append (a b : List Item) : advsL (a ++ b) = advsL a + advsL b := by
  induction a with
  | nil => simp [advsL]
  | cons x xs ih => simp [advsL, ih]; omega

theorem advsL_take_drop (l : List Item) (j : Nat) : advsL (l.take j) + advsL (l.drop j) = advsL l := by
  rw [← advsL_append, List.take_append_drop]

theorem advsL_wrapAt (out : List Item) (j k : Nat) (rest : List Item) :
    advsL (wrapAt out j k rest) = advsL out + advsL rest := by
  unfold wrapAt
  have h := advsL_take_drop out j
  split
  · rename_i first mid hd
    rw [hd] at h
    simp only [advsL_append, advsL, advs] at h ⊢
    omega
  · simp [advsL_append, advsL, advs]

/-- what every step preserves, relative to the state `s` it started from: tokens untouched, cursor
monotone and inside the text, and `#Advance` grows at least as much as the cursor -/
structure StepInv (s s' : PS) : Prop where
  toks : s'.toks = s.toks
  mono : s.pos ≤ s'.pos
  bound : s.pos ≤ s.toks.length → s'.pos ≤ s.toks.length
  adv : advsL s.out + (s'.pos - s.pos) ≤ advsL s'.out
  /-- as long as the cursor has not reached the end: exactly one `Advance` per token consumed -/
  exact : s'.isEof = false → advsL s'.out = advsL s.out + (s'.pos - s.pos)

theorem StepInv.refl (s : PS) : StepInv s s := ⟨rfl, Nat.le_refl _, id, by omega, fun _ => by omega⟩

theorem StepInv.trans {a b c : PS} (h1 : StepInv a b) (h2 : StepInv b c) : StepInv a c := by
  refine ⟨h2.toks.trans h1.toks, Nat.le_trans h1.mono h2.mono, ?_, ?_, ?_⟩
  · intro h; have := h1.bound h; have := h2.bound (by rw [h1.toks]; exact this); rw [h1.toks] at this; exact this
  · have := h1.adv; have := h2.adv; have := h1.mono; have := h2.mono; omega
  · intro hc
    have hb : b.isEof = false := by
      simp only [PS.isEof, decide_eq_false_iff_not, Nat.not_le] at hc ⊢
      have := h2.mono; have := congrArg List.length h2.toks; omega
    have := h1.exact hb; have := h2.exact hc; have := h1.mono; have := h2.mono; omega

/-- a step that only changes registers (`out`, `pos`, `toks` kept) -/
theorem StepInv.of_eq {s s' : PS} (ht : s'.toks = s.toks) (hp : s'.pos = s.pos) (ho : s'.out = s.out) : StepInv s s' :=
  ⟨ht, by omega, by intro h; omega, by rw [ho, hp]; omega, fun _ => by rw [ho, hp]; omega⟩

theorem look_inv (s : PS) (n : Nat) : StepInv s (look s n).2 := by
  unfold look; split <;> exact StepInv.of_eq rfl rfl rfl

theorem doAdvance_inv (s : PS) : StepInv s (doAdvance s) := by
  refine ⟨rfl, ?_, ?_, ?_, ?_⟩ <;> simp only [doAdvance, emit, bump]
  · split <;> omega
  · intro h; split <;> omega
  · simp only [advsL_append, advsL, advs]; split <;> omega
  · simp only [PS.isEof, decide_eq_false_iff_not, Nat.not_le, advsL_append, advsL, advs]
    intro h; split at h <;> split <;> omega

theorem doAdvErr_inv (s : PS) (m : String) : StepInv s (doAdvErr s m) := by
  refine ⟨rfl, ?_, ?_, ?_, ?_⟩ <;> simp only [doAdvErr, emit, bump]
  · split <;> omega
  · intro h; split <;> omega
  · simp only [advsL_append, advsL, advs]; split <;> omega
  · simp only [PS.isEof, decide_eq_false_iff_not, Nat.not_le, advsL_append, advsL, advs]
    intro h; split at h <;> split <;> omega

theorem emit_inv (s : PS) (m : String) : StepInv s (emit s (.err m)) :=
  ⟨rfl, Nat.le_refl _, id, by simp [emit, advsL_append], fun _ => by simp [emit, advsL_append, advsL, advs]⟩

theorem expectK_inv (s : PS) (k : Nat) : StepInv s (expectK s k) := by
  unfold expectK
  simp only
  split
  · exact (look_inv s 0).trans (doAdvance_inv _)
  · split
    · exact ((look_inv s 0).trans (look_inv _ 0)).trans (emit_inv _ _)
    · exact ((look_inv s 0).trans (look_inv _ 0)).trans (doAdvErr_inv _ _)

/-- a body run inside a fresh `out`, closed by `f` which keeps the `Advance` count -/
theorem node_inv {s s1 : PS} {f : List Item → List Item} (h : StepInv { s with out := [] } s1)
    (hf : advsL (f s1.out) = advsL s.out + advsL s1.out) (s2 : PS)
    (h2t : s2.toks = s1.toks) (h2p : s2.pos = s1.pos) (h2o : s2.out = f s1.out) : StepInv s s2 := by
  refine ⟨h2t.trans h.toks, by rw [h2p]; exact h.mono, by intro hb; rw [h2p]; exact h.bound hb, ?_, ?_⟩
  · have := h.adv
    simp only [advsL] at this
    rw [h2o, hf, h2p]
    have hm := h.mono
    simp only at hm this
    omega
  · intro he
    have he1 : s1.isEof = false := by
      simp only [PS.isEof, h2t, h2p] at he ⊢; exact he
    have := h.exact he1
    simp only [advsL] at this
    rw [h2o, hf, h2p]
    omega

theorem execS_inv (callF : Fn → PS → PS) (hc : ∀ f s, StepInv s (callF f s)) :
    ∀ (st : Stmt) (s : PS), StepInv s (execS callF st s) := by
  intro st
  induction st with
  | skip => intro s; exact StepInv.refl s
  | seq a b iha ihb => intro s; exact (iha s).trans (ihb _)
  | adv => intro s; exact doAdvance_inv s
  | err m => intro s; exact emit_inv s m
  | advErr m => intro s; exact doAdvErr_inv s m
  | advErrDbg p => intro s; exact doAdvErr_inv s _
  | expect k => intro s; exact expectK_inv s k
  | eat k =>
    intro s; simp only [execS]; split
    · exact (look_inv s 0).trans ((doAdvance_inv _).trans (StepInv.of_eq rfl rfl rfl))
    · exact (look_inv s 0).trans (StepInv.of_eq rfl rfl rfl)
  | ifAt k t e iht ihe => intro s; simp only [execS]; split <;> exact (look_inv s 0).trans (by first | exact iht _ | exact ihe _)
  | ifAtAny ks t e iht ihe => intro s; simp only [execS]; split <;> exact (look_inv s 0).trans (by first | exact iht _ | exact ihe _)
  | ifEof t e iht ihe => intro s; simp only [execS]; split <;> first | exact iht _ | exact ihe _
  | peek => intro s; exact (look_inv s 0).trans (StepInv.of_eq rfl rfl rfl)
  | nth i => intro s; exact (look_inv s i).trans (StepInv.of_eq rfl rfl rfl)
  | nthIdx => intro s; exact (look_inv s _).trans (StepInv.of_eq rfl rfl rfl)
  | ifCur ks t e iht ihe => intro s; simp only [execS]; split <;> first | exact iht _ | exact ihe _
  | ifRet t e iht ihe => intro s; simp only [execS]; split <;> first | exact iht _ | exact ihe _
  | setRet b => intro s; exact StepInv.of_eq rfl rfl rfl
  | setIdx n => intro s; exact StepInv.of_eq rfl rfl rfl
  | incIdx => intro s; exact StepInv.of_eq rfl rfl rfl
  | decIdx => intro s; exact StepInv.of_eq rfl rfl rfl
  | ifIdxZero t e iht ihe => intro s; simp only [execS]; split <;> first | exact iht _ | exact ihe _
  | node k b ih =>
    intro s
    exact node_inv (f := fun o => s.out ++ [.node k o]) (ih { s with out := [] })
      (by simp [advsL_append, advsL, advs]) _ rfl rfl rfl
  | nodeReg b ih =>
    intro s
    exact node_inv (f := fun o => s.out ++ [.node (execS callF b { s with out := [] }).kd o]) (ih { s with out := [] })
      (by simp [advsL_append, advsL, advs]) _ rfl rfl rfl
  | setKind k => intro s; exact StepInv.of_eq rfl rfl rfl
  | markLast => intro s; exact StepInv.of_eq rfl rfl rfl
  | wrap k b ih =>
    intro s
    exact node_inv (f := fun o => wrapAt s.out s.mark k o) (ih { s with out := [] })
      (advsL_wrapAt _ _ _ _) _ rfl rfl rfl
  | call f => intro s; simp only [execS]; split; exact StepInv.refl s; exact hc f s

theorem run_inv : ∀ (n : Nat) (f : Fn) (s : PS), StepInv s (run n f s) := by
  intro n
  induction n with
  | zero => intro f s; exact StepInv.of_eq rfl rfl rfl
  | succ n ih =>
    intro f s
    have h1 : StepInv s { s with trace := s.trace ||| (1 <<< f.id) } := StepInv.of_eq rfl rfl rfl
    exact h1.trans (execS_inv (run n) ih (body f) _)

end Goml.Grammar
