import GomlVerif.Lemmas.GrammarStep
/-! Termination of the grammar model: the call budget `budget len` never runs out.

Potential `mu s = (len − pos)·(FUEL+1) + fuel` (0 at the end). Every look with fuel left lowers it, every `advance`
inside the input lowers it, nothing raises it. In a *dead* state (`fuel = 0` or at the end) every look answers `eof`.
An abstract interpreter `abs` over `Stmt` tracks, relative to the state a function was entered in, facts of the form
"`mu` dropped, or …": `pk` (dead), `ne` (not at the end), `nr` (`ret = false`), `cv` (`cur = eof`), `pr` (`mu` dropped).
A call made before `mu` dropped must go to a function of lower rank; a function entered dead and not at the end has a
summary (`summ`). The checks are decided per function; soundness is one induction over `Stmt`. -/
namespace Goml.Grammar
open Goml.Gen.Gram

def mu (s : PS) : Nat := if s.toks.length ≤ s.pos then 0 else (s.toks.length - s.pos) * 257 + s.fuel

def Dead (s : PS) : Prop := s.fuel = 0 ∨ s.isEof = true

theorem isEof_iff (s : PS) : s.isEof = true ↔ s.toks.length ≤ s.pos := by simp [PS.isEof]
theorem isEof_false_iff (s : PS) : s.isEof = false ↔ s.pos < s.toks.length := by simp [PS.isEof]

/-! ### primitives -/

theorem look_snd (s : PS) (n : Nat) : (look s n).2 = if s.fuel = 0 then s else { s with fuel := s.fuel - 1 } := by
  unfold look; split <;> rfl

theorem look_isEof (s : PS) (n : Nat) : (look s n).2.isEof = s.isEof := by rw [look_snd]; split <;> rfl
theorem look_ret (s : PS) (n : Nat) : (look s n).2.ret = s.ret := by rw [look_snd]; split <;> rfl
theorem look_cur (s : PS) (n : Nat) : (look s n).2.cur = s.cur := by rw [look_snd]; split <;> rfl
theorem look_oof (s : PS) (n : Nat) : (look s n).2.oof = s.oof := by rw [look_snd]; split <;> rfl

theorem mu_look_le (s : PS) (n : Nat) : mu (look s n).2 ≤ mu s := by
  rw [look_snd]; split
  · exact Nat.le_refl _
  · unfold mu
    by_cases h : s.toks.length ≤ s.pos
    · simp [h]
    · simp only [h, if_false]; omega

theorem look_dead (s : PS) (n : Nat) (h : Dead s) : (look s n).1 = T_Eof ∧ Dead (look s n).2 := by
  by_cases hf : s.fuel = 0
  · unfold look; rw [if_pos hf]; exact ⟨rfl, Or.inl hf⟩
  · rcases h with h | h
    · exact absurd h hf
    · have hle : s.toks.length ≤ s.pos := (isEof_iff s).1 h
      refine ⟨?_, Or.inr (by rw [look_isEof]; exact h)⟩
      unfold look; simp only [hf, if_false, List.getD_eq_getElem?_getD]
      rw [List.getElem?_eq_none (Nat.le_trans hle (Nat.le_add_right _ _))]; rfl

theorem look_live (s : PS) (n : Nat) (h : ¬ Dead s) : mu (look s n).2 < mu s := by
  have h1 : s.fuel ≠ 0 := fun h' => h (Or.inl h')
  have h2 : ¬ s.toks.length ≤ s.pos := fun h' => h (Or.inr ((isEof_iff s).2 h'))
  rw [look_snd, if_neg h1]
  unfold mu
  simp only [h2, if_false]; omega

theorem look_ne_eof (s : PS) (n : Nat) (h : (look s n).1 ≠ T_Eof) : mu (look s n).2 < mu s := by
  by_cases hd : Dead s
  · exact absurd (look_dead s n hd).1 h
  · exact look_live s n hd

theorem mu_bump_le (s : PS) : mu (bump s) ≤ mu s := by
  unfold mu bump
  by_cases h : s.toks.length ≤ s.pos
  · have : ¬ s.pos < s.toks.length := by omega
    simp [h, this]
  · have h' : s.pos < s.toks.length := by omega
    simp only [h, h', if_true, if_false, FUEL, Gen.parserFuel]
    split <;> omega

theorem mu_bump_lt (s : PS) (h : s.isEof = false) : mu (bump s) < mu s := by
  have h' : s.pos < s.toks.length := (isEof_false_iff s).1 h
  have h2 : ¬ s.toks.length ≤ s.pos := by omega
  unfold mu bump
  simp only [h2, h', if_true, if_false, FUEL, Gen.parserFuel]
  split <;> omega

theorem mu_emit (s : PS) (i : Item) : mu (emit s i) = mu s := rfl

theorem dead_of_emit (s : PS) (i : Item) : Dead (emit s i) ↔ Dead s := Iff.rfl

theorem mu_doAdvance_le (s : PS) : mu (doAdvance s) ≤ mu s := mu_bump_le s
theorem mu_doAdvErr_le (s : PS) (m : String) : mu (doAdvErr s m) ≤ mu s := mu_bump_le s

theorem mu_expectK_le (s : PS) (k : Nat) : mu (expectK s k) ≤ mu s := by
  unfold expectK
  simp only
  split
  · exact Nat.le_trans (mu_doAdvance_le _) (mu_look_le _ _)
  · split
    · exact Nat.le_trans (mu_look_le _ _) (mu_look_le _ _)
    · exact Nat.le_trans (mu_doAdvErr_le _ _) (Nat.le_trans (mu_look_le _ _) (mu_look_le _ _))

/-- nothing raises the potential -/
theorem execS_mu_le (callF : Fn → PS → PS) (hm : ∀ g s, mu (callF g s) ≤ mu s) :
    ∀ (st : Stmt) (s : PS), mu (execS callF st s) ≤ mu s := by
  intro st
  induction st with
  | skip => intro s; exact Nat.le_refl _
  | seq a b iha ihb => intro s; exact Nat.le_trans (ihb _) (iha s)
  | adv => intro s; exact mu_doAdvance_le s
  | err m => intro s; exact Nat.le_refl _
  | advErr m => intro s; exact mu_doAdvErr_le s m
  | advErrDbg p => intro s; exact mu_doAdvErr_le s _
  | expect k => intro s; exact mu_expectK_le s k
  | eat k =>
    intro s; simp only [execS]; split
    · exact Nat.le_trans (show mu (doAdvance (look s 0).2) ≤ _ from mu_doAdvance_le _) (mu_look_le _ _)
    · exact mu_look_le s 0
  | ifAt k t e iht ihe => intro s; simp only [execS]; split <;> exact Nat.le_trans (by first | exact iht _ | exact ihe _) (mu_look_le s 0)
  | ifAtAny ks t e iht ihe => intro s; simp only [execS]; split <;> exact Nat.le_trans (by first | exact iht _ | exact ihe _) (mu_look_le s 0)
  | ifEof t e iht ihe => intro s; simp only [execS]; split <;> first | exact iht _ | exact ihe _
  | peek => intro s; exact mu_look_le s 0
  | nth i => intro s; exact mu_look_le s i
  | nthIdx => intro s; exact mu_look_le s _
  | ifCur ks t e iht ihe => intro s; simp only [execS]; split <;> first | exact iht _ | exact ihe _
  | ifRet t e iht ihe => intro s; simp only [execS]; split <;> first | exact iht _ | exact ihe _
  | setRet b => intro s; exact Nat.le_refl _
  | setIdx n => intro s; exact Nat.le_refl _
  | incIdx => intro s; exact Nat.le_refl _
  | decIdx => intro s; exact Nat.le_refl _
  | ifIdxZero t e iht ihe => intro s; simp only [execS]; split <;> first | exact iht _ | exact ihe _
  | node k b ih => intro s; exact ih { s with out := [] }
  | nodeReg b ih => intro s; exact ih { s with out := [] }
  | setKind k => intro s; exact Nat.le_refl _
  | markLast => intro s; exact Nat.le_refl _
  | wrap k b ih => intro s; exact ih { s with out := [] }
  | call f => intro s; simp only [execS]; split; exact Nat.le_refl _; exact hm f s

theorem run_mu_le : ∀ (n : Nat) (f : Fn) (s : PS), mu (run n f s) ≤ mu s := by
  intro n
  induction n with
  | zero => intro f s; exact Nat.le_refl _
  | succ n ih => intro f s; exact execS_mu_le (run n) ih (body f) _

end Goml.Grammar
