import GomlVerif.Lemmas.GrammarStep
/-! Termination of the grammar model: the call budget `budget len` never runs out.

Potential `mu s = (len − pos)·(FUEL+1) + fuel` (0 at the end). Every look with fuel left lowers it, every `advance`
inside the input lowers it, nothing raises it. In a *dead* state (`fuel = 0` or at the end) every look answers `eof`.
An abstract interpreter `abs` over `Stmt` tracks, relative to the state a function was entered in, facts of the form
"`mu` dropped, or …": `pk` (dead), `ne` (not at the end), `nr` (`ret = false`), `cv` (`cur = eof`), `pr` (`mu` dropped).
A call made before `mu` dropped must go to a function of lower rank; a function entered dead and not at the end has a
summary (`summ`). The checks are decided per function; soundness is one induction over `Stmt`. -/
namespace Goml.Grammar
open Goml.Gen.Gram

def mu (s : PS) : Nat := if s.toks.length ≤ s.pos then 0 else (s.toks.length - s.pos) * 257 + s.fuel

def Dead (s : PS) : Prop := s.fuel = 0 ∨ s.isEof = true

theorem isEof_iff (s : PS) : s.isEof = true ↔ s.toks.length ≤ s.pos := by simp [PS.isEof]
theorem isEof_false_iff (s : PS) : s.isEof = false ↔ s.pos < s.toks.length := by simp [PS.isEof]

/-! ### primitives -/

theorem look_snd (s : PS) (n : Nat) : (look s n).2 = if s.fuel = 0 then s else { s with fuel := s.fuel - 1 } := by
  unfold look; split <;> rfl

theorem look_isEof (s : PS) (n : Nat) : (look s n).2.isEof = s.isEof := by rw [look_snd]; split <;> rfl
theorem look_ret (s : PS) (n : Nat) : (look s n).2.ret = s.ret := by rw [look_snd]; split <;> rfl
theorem look_cur (s : PS) (n : Nat) : (look s n).2.cur = s.cur := by rw [look_snd]; split <;> rfl
theorem look_oof (s : PS) (n : Nat) : (look s n).2.oof = s.oof := by rw [look_snd]; split <;> rfl

theorem mu_look_le (s : PS) (n : Nat) : mu (look s n).2 ≤ mu s := by
  rw [look_snd]; split
  · exact Nat.le_refl _
  · unfold mu
    by_cases h : s.toks.length ≤ s.pos
    · simp [h]
    · simp only [h, if_false]; omega

theorem look_dead (s : PS) (n : Nat) (h : Dead s) : (look s n).1 = T_Eof ∧ Dead (look s n).2 := by
  by_cases hf : s.fuel = 0
  · unfold look; rw [if_pos hf]; exact ⟨rfl, Or.inl hf⟩
  · rcases h with h | h
    · exact absurd h hf
    · have hle : s.toks.length ≤ s.pos := (isEof_iff s).1 h
      refine ⟨?_, Or.inr (by rw [look_isEof]; exact h)⟩
      unfold look; simp only [hf, if_false, List.getD_eq_getElem?_getD]
      rw [List.getElem?_eq_none (Nat.le_trans hle (Nat.le_add_right _ _))]; rfl

theorem look_live (s : PS) (n : Nat) (h : ¬ Dead s) : mu (look s n).2 < mu s := by
  have h1 : s.fuel ≠ 0 := fun h' => h (Or.inl h')
  have h2 : ¬ s.toks.length ≤ s.pos := fun h' => h (Or.inr ((isEof_iff s).2 h'))
  rw [look_snd, if_neg h1]
  unfold mu
  simp only [h2, if_false]; omega

theorem look_ne_eof (s : PS) (n : Nat) (h : (look s n).1 ≠ T_Eof) : mu (look s n).2 < mu s := by
  by_cases hd : Dead s
  · exact absurd (look_dead s n hd).1 h
  · exact look_live s n hd

theorem mu_bump_le (s : PS) : mu (bump s) ≤ mu s := by
  unfold mu bump
  by_cases h : s.toks.length ≤ s.pos
  · have : ¬ s.pos < s.toks.length := by omega
    simp [h, this]
  · have h' : s.pos < s.toks.length := by omega
    simp only [h, h', if_true, if_false, FUEL, Gen.parserFuel]
    split <;> omega

theorem mu_bump_lt (s : PS) (h : s.isEof = false) : mu (bump s) < mu s := by
  have h' : s.pos < s.toks.length := (isEof_false_iff s).1 h
  have h2 : ¬ s.toks.length ≤ s.pos := by omega
  unfold mu bump
  simp only [h2, h', if_true, if_false, FUEL, Gen.parserFuel]
  split <;> omega

theorem mu_emit (s : PS) (i : Item) : mu (emit s i) = mu s := rfl

theorem dead_of_emit (s : PS) (i : Item) : Dead (emit s i) ↔ Dead s := Iff.rfl

theorem mu_doAdvance_le (s : PS) : mu (doAdvance s) ≤ mu s := mu_bump_le s
theorem mu_doAdvErr_le (s : PS) (m : String) : mu (doAdvErr s m) ≤ mu s := mu_bump_le s

theorem mu_expectK_le (s : PS) (k : Nat) : mu (expectK s k) ≤ mu s := by
  unfold expectK
  simp only
  split
  · exact Nat.le_trans (mu_doAdvance_le _) (mu_look_le _ _)
  · split
    · exact Nat.le_trans (mu_look_le _ _) (mu_look_le _ _)
    · exact Nat.le_trans (mu_doAdvErr_le _ _) (Nat.le_trans (mu_look_le _ _) (mu_look_le _ _))

/-- nothing raises the potential -/
theorem execS_mu_le (callF : Fn → PS → PS) (hm : ∀ g s, mu (callF g s) ≤ mu s) :
    ∀ (st : Stmt) (s : PS), mu (execS callF st s) ≤ mu s := by
  intro st
  induction st with
  | skip => intro s; exact Nat.le_refl _
  | seq a b iha ihb => intro s; exact Nat.le_trans (ihb _) (iha s)
  | adv => intro s; exact mu_doAdvance_le s
  | err m => intro s; exact Nat.le_refl _
  | advErr m => intro s; exact mu_doAdvErr_le s m
  | advErrDbg p => intro s; exact mu_doAdvErr_le s _
  | expect k => intro s; exact mu_expectK_le s k
  | eat k =>
    intro s; simp only [execS]; split
    · exact Nat.le_trans (show mu (doAdvance (look s 0).2) ≤ _ from mu_doAdvance_le _) (mu_look_le _ _)
    · exact mu_look_le s 0
  | ifAt k t e iht ihe => intro s; simp only [execS]; split <;> exact Nat.le_trans (by first | exact iht _ | exact ihe _) (mu_look_le s 0)
  | ifAtAny ks t e iht ihe => intro s; simp only [execS]; split <;> exact Nat.le_trans (by first | exact iht _ | exact ihe _) (mu_look_le s 0)
  | ifEof t e iht ihe => intro s; simp only [execS]; split <;> first | exact iht _ | exact ihe _
  | peek => intro s; exact mu_look_le s 0
  | nth i => intro s; exact mu_look_le s i
  | nthIdx => intro s; exact mu_look_le s _
  | ifCur ks t e iht ihe => intro s; simp only [execS]; split <;> first | exact iht _ | exact ihe _
  | ifRet t e iht ihe => intro s; simp only [execS]; split <;> first | exact iht _ | exact ihe _
  | setRet b => intro s; exact Nat.le_refl _
  | setIdx n => intro s; exact Nat.le_refl _
  | incIdx => intro s; exact Nat.le_refl _
  | decIdx => intro s; exact Nat.le_refl _
  | ifIdxZero t e iht ihe => intro s; simp only [execS]; split <;> first | exact iht _ | exact ihe _
  | node k b ih => intro s; exact ih { s with out := [] }
  | nodeReg b ih => intro s; exact ih { s with out := [] }
  | setKind k => intro s; exact Nat.le_refl _
  | markLast => intro s; exact Nat.le_refl _
  | wrap k b ih => intro s; exact ih { s with out := [] }
  | call f => intro s; simp only [execS]; split; exact Nat.le_refl _; exact hm f s

theorem run_mu_le : ∀ (n : Nat) (f : Fn) (s : PS), mu (run n f s) ≤ mu s := by
  intro n
  induction n with
  | zero => intro f s; exact Nat.le_refl _
  | succ n ih => intro f s; exact execS_mu_le (run n) ih (body f) _

/-! ### the abstract interpreter -/

structure A where
  pk : Bool   -- `mu` dropped, or the state is dead
  ne : Bool   -- …, or not at the end
  pr : Bool   -- `mu` dropped
  nr : Bool   -- …, or `ret = false`
  cv : Bool   -- …, or `cur = eof`
  ok : Bool   -- every call so far was allowed
deriving DecidableEq, Repr

def A.top (a : A) : A := ⟨true, true, true, true, true, a.ok⟩
def A.meet (a b : A) : A := ⟨a.pk && b.pk, a.ne && b.ne, a.pr && b.pr, a.nr && b.nr, a.cv && b.cv, a.ok && b.ok⟩
def A.bad (a : A) : A := { a with ok := false }
def A.looked (a : A) : A := { a with pk := true }
def A.advd (a : A) : A := if a.ne then a.top else { a with pk := false, ne := false }
def A.le (b a : A) : Bool := (!b.pk || a.pk) && (!b.ne || a.ne) && (!b.pr || a.pr) && (!b.nr || a.nr) && (!b.cv || a.cv)

structure Cfg where
  rk : Fn → Nat
  summ : Fn → A
  inU : Fn → Bool

def abs (c : Cfg) (r : Nat) : Stmt → A → A
  | .skip, a => a
  | .seq x y, a => abs c r y (abs c r x a)
  | .adv, a => a.advd
  | .advErr _, a => a.advd
  | .advErrDbg _, a => a.advd
  | .err _, a => a
  | .expect k, a => if k = T_Eof then a.bad else a.looked
  | .eat k, a => if k = T_Eof then a.bad else { a with pk := true, nr := true }
  | .ifAt k t e, a => if k = T_Eof then a.bad else (abs c r t a.top).meet (abs c r e a.looked)
  | .ifAtAny ks t e, a => if ks.contains T_Eof then a.bad else (abs c r t a.top).meet (abs c r e a.looked)
  | .ifEof t e, a => (abs c r t (if a.ne then a.top else a)).meet (abs c r e { a with ne := true })
  | .peek, a => { a with pk := true, cv := true }
  | .nth _, a => { a with pk := true, cv := true }
  | .nthIdx, a => { a with pk := true, cv := true }
  | .ifCur ks t e, a => (abs c r t (if a.cv && !ks.contains T_Eof then a.top else a)).meet (abs c r e a)
  | .ifRet t e, a => (abs c r t (if a.nr then a.top else a)).meet (abs c r e a)
  | .setRet b, a => if a.pr then a else { a with nr := !b }
  | .setIdx _, a => a
  | .incIdx, a => a
  | .decIdx, a => a
  | .ifIdxZero t e, a => (abs c r t a).meet (abs c r e a)
  | .node _ b, a => abs c r b a
  | .nodeReg b, a => abs c r b a
  | .setKind _, a => a
  | .markLast, a => a
  | .wrap _ b, a => abs c r b a
  | .call g, a =>
      let a' : A := if a.pr then a.top else if a.pk && a.ne then c.summ g else ⟨false, false, false, false, false, true⟩
      { a' with ok := a.ok && (c.inU g && (a.pr || decide (c.rk g < r))) }

def Facts (a : A) (s : PS) : Prop :=
  (a.pk = true → Dead s) ∧ (a.ne = true → s.isEof = false) ∧ (a.nr = true → s.ret = false) ∧ (a.cv = true → s.cur = T_Eof)

def G (a : A) (s0 s : PS) : Prop := mu s ≤ mu s0 ∧ (mu s < mu s0 ∨ (a.pr = false ∧ Facts a s))

theorem G_of_lt (a : A) {s0 s : PS} (h : mu s < mu s0) : G a s0 s := ⟨Nat.le_of_lt h, Or.inl h⟩

theorem G_weaken {a b : A} {s0 s : PS} (h : G a s0 s) (hle : A.le b a = true) : G b s0 s := by
  refine ⟨h.1, ?_⟩
  rcases h.2 with h | ⟨hp, hf⟩
  · exact Or.inl h
  · simp only [A.le, Bool.and_eq_true, Bool.or_eq_true, Bool.not_eq_true'] at hle
    obtain ⟨⟨⟨⟨l1, l2⟩, l3⟩, l4⟩, l5⟩ := hle
    refine Or.inr ⟨?_, ?_, ?_, ?_, ?_⟩
    · rcases l3 with l | l; exact l; rw [hp] at l; cases l
    · intro hb; rcases l1 with l | l; rw [hb] at l; cases l; exact hf.1 l
    · intro hb; rcases l2 with l | l; rw [hb] at l; cases l; exact hf.2.1 l
    · intro hb; rcases l4 with l | l; rw [hb] at l; cases l; exact hf.2.2.1 l
    · intro hb; rcases l5 with l | l; rw [hb] at l; cases l; exact hf.2.2.2 l

theorem imp_and_l (x y : Bool) : (!(x && y) || x) = true := by cases x <;> cases y <;> rfl
theorem imp_and_r (x y : Bool) : (!(x && y) || y) = true := by cases x <;> cases y <;> rfl

theorem le_meet_left (a b : A) : A.le (a.meet b) a = true := by simp only [A.le, A.meet, imp_and_l, Bool.and_self]
theorem le_meet_right (a b : A) : A.le (a.meet b) b = true := by simp only [A.le, A.meet, imp_and_r, Bool.and_self]

theorem meet_ok {a b : A} (h : (a.meet b).ok = true) : a.ok = true ∧ b.ok = true := by
  simpa [A.meet] using h

theorem abs_ok_mono (c : Cfg) (r : Nat) : ∀ (st : Stmt) (a : A), (abs c r st a).ok = true → a.ok = true := by
  intro st
  induction st with
  | seq x y ihx ihy => intro a h; exact ihx _ (ihy _ h)
  | expect k => intro a h; simp only [abs] at h; split at h <;> simpa [A.bad, A.looked] using h
  | eat k => intro a h; simp only [abs] at h; split at h <;> simpa [A.bad] using h
  | ifAt k t e iht ihe =>
    intro a h; simp only [abs] at h; split at h
    · simp [A.bad] at h
    · have := iht a.top (meet_ok h).1; simpa [A.top] using this
  | ifAtAny ks t e iht ihe =>
    intro a h; simp only [abs] at h; split at h
    · simp [A.bad] at h
    · have := iht a.top (meet_ok h).1; simpa [A.top] using this
  | ifEof t e iht ihe => intro a h; have := ihe _ (meet_ok h).2; simpa using this
  | ifCur ks t e iht ihe => intro a h; exact ihe _ (meet_ok h).2
  | ifRet t e iht ihe => intro a h; exact ihe _ (meet_ok h).2
  | ifIdxZero t e iht ihe => intro a h; exact ihe _ (meet_ok h).2
  | node k b ih => intro a h; exact ih _ h
  | nodeReg b ih => intro a h; exact ih _ h
  | wrap k b ih => intro a h; exact ih _ h
  | call g => intro a h; simp only [abs, Bool.and_eq_true] at h; exact h.1
  | adv => intro a h; simp only [abs, A.advd] at h; split at h <;> simpa [A.top] using h
  | advErr m => intro a h; simp only [abs, A.advd] at h; split at h <;> simpa [A.top] using h
  | advErrDbg m => intro a h; simp only [abs, A.advd] at h; split at h <;> simpa [A.top] using h
  | setRet b => intro a h; simp only [abs] at h; split at h <;> simpa using h
  | _ => intro a h; simpa [abs] using h

/-! ### soundness -/

theorem expectK_oof (s : PS) (k : Nat) : (expectK s k).oof = s.oof := by
  unfold expectK; simp only; split
  · exact look_oof s 0
  · split
    · show (look (look s 0).2 0).2.oof = _; rw [look_oof, look_oof]
    · show (look (look s 0).2 0).2.oof = _; rw [look_oof, look_oof]

theorem expectK_ret (s : PS) (k : Nat) : (expectK s k).ret = s.ret := by
  unfold expectK; simp only; split
  · exact look_ret s 0
  · split
    · show (look (look s 0).2 0).2.ret = _; rw [look_ret, look_ret]
    · show (look (look s 0).2 0).2.ret = _; rw [look_ret, look_ret]

theorem expectK_cur (s : PS) (k : Nat) : (expectK s k).cur = s.cur := by
  unfold expectK; simp only; split
  · exact look_cur s 0
  · split
    · show (look (look s 0).2 0).2.cur = _; rw [look_cur, look_cur]
    · show (look (look s 0).2 0).2.cur = _; rw [look_cur, look_cur]

theorem expectK_live (s : PS) (k : Nat) (h : ¬ Dead s) : mu (expectK s k) < mu s := by
  unfold expectK; simp only; split
  · exact Nat.lt_of_le_of_lt (mu_doAdvance_le _) (look_live s 0 h)
  · split
    · exact Nat.lt_of_le_of_lt (mu_look_le _ _) (look_live s 0 h)
    · exact Nat.lt_of_le_of_lt (Nat.le_trans (mu_doAdvErr_le _ _) (mu_look_le _ _)) (look_live s 0 h)

theorem expectK_dead (s : PS) (k : Nat) (h : Dead s) (hk : k ≠ T_Eof) :
    Dead (expectK s k) ∧ (expectK s k).isEof = s.isEof := by
  have h1 := look_dead s 0 h
  have h2 := look_dead _ 0 h1.2
  unfold expectK; simp only
  rw [if_neg (by rw [h1.1]; exact fun e => hk e.symm), if_pos (Or.inl h2.1)]
  exact ⟨h2.2, by show (look (look s 0).2 0).2.isEof = _; rw [look_isEof, look_isEof]⟩

section sound
variable (c : Cfg) (r : Nat) (s0 : PS) (callF : Fn → PS → PS)

/-- what the soundness proof needs from calls -/
def HC : Prop := ∀ g s, c.inU g = true → s.oof = false → mu s ≤ mu s0 → (mu s < mu s0 ∨ c.rk g < r) →
  (callF g s).oof = false ∧ (Dead s → s.isEof = false → G (c.summ g) s (callF g s))

/-- once `mu` dropped, every call is within budget -/
theorem prog (hm : ∀ g s, mu (callF g s) ≤ mu s) (hc : HC c r s0 callF) :
    ∀ (st : Stmt) (a : A) (s : PS), mu s < mu s0 → s.oof = false → (abs c r st a).ok = true →
      (execS callF st s).oof = false := by
  intro st
  induction st with
  | skip => intro a s _ h _; exact h
  | seq x y ihx ihy =>
    intro a s hl ho hk
    exact ihy _ _ (Nat.lt_of_le_of_lt (execS_mu_le callF hm x s) hl) (ihx a s hl ho (abs_ok_mono c r y _ hk)) hk
  | adv => intro a s _ h _; exact h
  | err m => intro a s _ h _; exact h
  | advErr m => intro a s _ h _; exact h
  | advErrDbg m => intro a s _ h _; exact h
  | expect k => intro a s _ h _; rw [execS, expectK_oof]; exact h
  | eat k => intro a s _ h _; simp only [execS]; split <;> (show (look s 0).2.oof = false; rw [look_oof]; exact h)
  | ifAt k t e iht ihe =>
    intro a s hl ho hk
    simp only [abs] at hk
    split at hk
    · simp [A.bad] at hk
    · have hl' := Nat.lt_of_le_of_lt (mu_look_le s 0) hl
      have ho' : (look s 0).2.oof = false := by rw [look_oof]; exact ho
      simp only [execS]; split
      · exact iht _ _ hl' ho' (meet_ok hk).1
      · exact ihe _ _ hl' ho' (meet_ok hk).2
  | ifAtAny ks t e iht ihe =>
    intro a s hl ho hk
    simp only [abs] at hk
    split at hk
    · simp [A.bad] at hk
    · have hl' := Nat.lt_of_le_of_lt (mu_look_le s 0) hl
      have ho' : (look s 0).2.oof = false := by rw [look_oof]; exact ho
      simp only [execS]; split
      · exact iht _ _ hl' ho' (meet_ok hk).1
      · exact ihe _ _ hl' ho' (meet_ok hk).2
  | ifEof t e iht ihe =>
    intro a s hl ho hk; simp only [execS]; split
    · exact iht _ _ hl ho (meet_ok hk).1
    · exact ihe _ _ hl ho (meet_ok hk).2
  | peek => intro a s _ h _; show (look s 0).2.oof = false; rw [look_oof]; exact h
  | nth i => intro a s _ h _; show (look s i).2.oof = false; rw [look_oof]; exact h
  | nthIdx => intro a s _ h _; show (look s s.idx).2.oof = false; rw [look_oof]; exact h
  | ifCur ks t e iht ihe =>
    intro a s hl ho hk; simp only [execS]; split
    · exact iht _ _ hl ho (meet_ok hk).1
    · exact ihe _ _ hl ho (meet_ok hk).2
  | ifRet t e iht ihe =>
    intro a s hl ho hk; simp only [execS]; split
    · exact iht _ _ hl ho (meet_ok hk).1
    · exact ihe _ _ hl ho (meet_ok hk).2
  | setRet b => intro a s _ h _; exact h
  | setIdx n => intro a s _ h _; exact h
  | incIdx => intro a s _ h _; exact h
  | decIdx => intro a s _ h _; exact h
  | ifIdxZero t e iht ihe =>
    intro a s hl ho hk; simp only [execS]; split
    · exact iht _ _ hl ho (meet_ok hk).1
    · exact ihe _ _ hl ho (meet_ok hk).2
  | node k b ih => intro a s hl ho hk; exact ih a { s with out := [] } hl ho hk
  | nodeReg b ih => intro a s hl ho hk; exact ih a { s with out := [] } hl ho hk
  | setKind k => intro a s _ h _; exact h
  | markLast => intro a s _ h _; exact h
  | wrap k b ih => intro a s hl ho hk; exact ih a { s with out := [] } hl ho hk
  | call g =>
    intro a s hl ho hk
    simp only [abs, Bool.and_eq_true] at hk
    simp only [execS, ho, Bool.false_eq_true, if_false]
    exact (hc g s hk.2.1 ho (Nat.le_of_lt hl) (Or.inl hl)).1

theorem toG (hm : ∀ g s, mu (callF g s) ≤ mu s) (hc : HC c r s0 callF) (st : Stmt)
    (ih : ∀ (a : A) (s : PS), mu s ≤ mu s0 → a.pr = false → Facts a s → s.oof = false → (abs c r st a).ok = true →
      G (abs c r st a) s0 (execS callF st s) ∧ (execS callF st s).oof = false)
    (a : A) (s : PS) (hG : G a s0 s) (ho : s.oof = false) (hk : (abs c r st a).ok = true) :
    G (abs c r st a) s0 (execS callF st s) ∧ (execS callF st s).oof = false := by
  rcases hG.2 with hl | ⟨hp, hf⟩
  · exact ⟨G_of_lt _ (Nat.lt_of_le_of_lt (execS_mu_le callF hm st s) hl), prog c r s0 callF hm hc st a s hl ho hk⟩
  · exact ih a s hG.1 hp hf ho hk

/-- a step that is `advance` or `advance_with_error` -/
theorem sound_bump (a : A) (s s' : PS) (hle : mu s ≤ mu s0) (hp : a.pr = false) (hf : Facts a s)
    (h1 : mu s' ≤ mu s) (h2 : s.isEof = false → mu s' < mu s) (h3 : s'.ret = s.ret) (h4 : s'.cur = s.cur) :
    G a.advd s0 s' := by
  unfold A.advd
  split
  · rename_i hne
    exact G_of_lt _ (Nat.lt_of_lt_of_le (h2 (hf.2.1 hne)) hle)
  · refine ⟨Nat.le_trans h1 hle, Or.inr ⟨hp, ?_, ?_, ?_, ?_⟩⟩
    · intro h; cases h
    · intro h; cases h
    · intro h; rw [h3]; exact hf.2.2.1 h
    · intro h; rw [h4]; exact hf.2.2.2 h

/-- a look whose answer is only stored or compared -/
theorem sound_look (a : A) (s : PS) (n : Nat) (hle : mu s ≤ mu s0) (hp : a.pr = false) (hf : Facts a s) :
    mu (look s n).2 < mu s0 ∨ ((look s n).1 = T_Eof ∧ mu (look s n).2 ≤ mu s0 ∧ Facts a.looked (look s n).2) := by
  by_cases hd : Dead s
  · have h := look_dead s n hd
    refine Or.inr ⟨h.1, Nat.le_trans (mu_look_le s n) hle, fun _ => h.2, ?_, ?_, ?_⟩
    · intro hh; rw [look_isEof]; exact hf.2.1 hh
    · intro hh; rw [look_ret]; exact hf.2.2.1 hh
    · intro hh; rw [look_cur]; exact hf.2.2.2 hh
  · exact Or.inl (Nat.lt_of_lt_of_le (look_live s n hd) hle)

theorem sound (hm : ∀ g s, mu (callF g s) ≤ mu s) (hc : HC c r s0 callF) :
    ∀ (st : Stmt) (a : A) (s : PS), mu s ≤ mu s0 → a.pr = false → Facts a s → s.oof = false → (abs c r st a).ok = true →
      G (abs c r st a) s0 (execS callF st s) ∧ (execS callF st s).oof = false := by
  intro st
  induction st with
  | skip => intro a s hle hp hf ho _; exact ⟨⟨hle, Or.inr ⟨hp, hf⟩⟩, ho⟩
  | seq x y ihx ihy =>
    intro a s hle hp hf ho hk
    have h1 := ihx a s hle hp hf ho (abs_ok_mono c r y _ hk)
    exact toG c r s0 callF hm hc y ihy _ _ h1.1 h1.2 hk
  | adv => intro a s hle hp hf ho _; exact ⟨sound_bump s0 a s _ hle hp hf (mu_bump_le s) (mu_bump_lt s) rfl rfl, ho⟩
  | advErr m => intro a s hle hp hf ho _; exact ⟨sound_bump s0 a s _ hle hp hf (mu_bump_le s) (mu_bump_lt s) rfl rfl, ho⟩
  | advErrDbg m => intro a s hle hp hf ho _; exact ⟨sound_bump s0 a s _ hle hp hf (mu_bump_le s) (mu_bump_lt s) rfl rfl, ho⟩
  | err m => intro a s hle hp hf ho _; exact ⟨⟨hle, Or.inr ⟨hp, hf⟩⟩, ho⟩
  | expect k =>
    intro a s hle hp hf ho hk
    simp only [abs] at hk ⊢
    split at hk
    · simp [A.bad] at hk
    · rename_i hne
      rw [if_neg hne]
      refine ⟨?_, by rw [execS, expectK_oof]; exact ho⟩
      by_cases hd : Dead s
      · have h := expectK_dead s k hd hne
        refine ⟨Nat.le_trans (mu_expectK_le s k) hle, Or.inr ⟨hp, fun _ => h.1, ?_, ?_, ?_⟩⟩
        · intro hh; rw [execS, h.2]; exact hf.2.1 hh
        · intro hh; rw [execS, expectK_ret]; exact hf.2.2.1 hh
        · intro hh; rw [execS, expectK_cur]; exact hf.2.2.2 hh
      · exact G_of_lt _ (Nat.lt_of_lt_of_le (expectK_live s k hd) hle)
  | eat k =>
    intro a s hle hp hf ho hk
    simp only [abs] at hk ⊢
    split at hk
    · simp [A.bad] at hk
    · rename_i hne
      rw [if_neg hne]
      have ho' : (execS callF (.eat k) s).oof = false := by
        simp only [execS]; split <;> (show (look s 0).2.oof = false; rw [look_oof]; exact ho)
      refine ⟨?_, ho'⟩
      rcases sound_look s0 a s 0 hle hp hf with hl | ⟨he, hle', hf'⟩
      · refine G_of_lt _ (Nat.lt_of_le_of_lt ?_ hl)
        simp only [execS]; split
        · exact (show mu (doAdvance (look s 0).2) ≤ _ from mu_doAdvance_le _)
        · exact Nat.le_refl _
      · simp only [execS]
        rw [if_neg (by rw [he]; exact fun e => hne e.symm)]
        exact ⟨hle', Or.inr ⟨hp, fun _ => hf'.1 rfl, hf'.2.1, fun _ => rfl, hf'.2.2.2⟩⟩
  | ifAt k t e iht ihe =>
    intro a s hle hp hf ho hk
    simp only [abs] at hk ⊢
    split at hk
    · simp [A.bad] at hk
    · rename_i hne
      rw [if_neg hne]
      have ho' : (look s 0).2.oof = false := by rw [look_oof]; exact ho
      rcases sound_look s0 a s 0 hle hp hf with hl | ⟨he, hle', hf'⟩
      · simp only [execS]; split
        · exact ⟨G_of_lt _ (Nat.lt_of_le_of_lt (execS_mu_le callF hm t _) hl), prog c r s0 callF hm hc t _ _ hl ho' (meet_ok hk).1⟩
        · exact ⟨G_of_lt _ (Nat.lt_of_le_of_lt (execS_mu_le callF hm e _) hl), prog c r s0 callF hm hc e _ _ hl ho' (meet_ok hk).2⟩
      · simp only [execS]
        rw [if_neg (by rw [he]; exact fun e' => hne e'.symm)]
        have := ihe a.looked _ hle' hp hf' ho' (meet_ok hk).2
        exact ⟨G_weaken this.1 (le_meet_right _ _), this.2⟩
  | ifAtAny ks t e iht ihe =>
    intro a s hle hp hf ho hk
    simp only [abs] at hk ⊢
    split at hk
    · simp [A.bad] at hk
    · rename_i hne
      rw [if_neg hne]
      have ho' : (look s 0).2.oof = false := by rw [look_oof]; exact ho
      rcases sound_look s0 a s 0 hle hp hf with hl | ⟨he, hle', hf'⟩
      · simp only [execS]; split
        · exact ⟨G_of_lt _ (Nat.lt_of_le_of_lt (execS_mu_le callF hm t _) hl), prog c r s0 callF hm hc t _ _ hl ho' (meet_ok hk).1⟩
        · exact ⟨G_of_lt _ (Nat.lt_of_le_of_lt (execS_mu_le callF hm e _) hl), prog c r s0 callF hm hc e _ _ hl ho' (meet_ok hk).2⟩
      · simp only [execS]
        rw [if_neg (by rw [he]; exact hne)]
        have := ihe a.looked _ hle' hp hf' ho' (meet_ok hk).2
        exact ⟨G_weaken this.1 (le_meet_right _ _), this.2⟩
  | ifEof t e iht ihe =>
    intro a s hle hp hf ho hk
    simp only [abs] at hk ⊢
    simp only [execS]
    cases he : s.isEof with
    | true =>
      have hne : a.ne = false := by
        cases h : a.ne; rfl; have := hf.2.1 h; rw [he] at this; cases this
      rw [hne] at hk ⊢
      simp only [Bool.false_eq_true, ↓reduceIte] at hk ⊢
      have := iht a s hle hp hf ho (meet_ok hk).1
      exact ⟨G_weaken this.1 (le_meet_left _ _), this.2⟩
    | false =>
      simp only [Bool.false_eq_true, ↓reduceIte]
      have := ihe { a with ne := true } s hle hp ⟨hf.1, fun _ => he, hf.2.2.1, hf.2.2.2⟩ ho (meet_ok hk).2
      exact ⟨G_weaken this.1 (le_meet_right _ _), this.2⟩
  | peek =>
    intro a s hle hp hf ho _
    refine ⟨?_, by show (look s 0).2.oof = false; rw [look_oof]; exact ho⟩
    rcases sound_look s0 a s 0 hle hp hf with hl | ⟨he, hle', hf'⟩
    · exact G_of_lt _ hl
    · exact ⟨hle', Or.inr ⟨hp, fun _ => hf'.1 rfl, hf'.2.1, hf'.2.2.1, fun _ => he⟩⟩
  | nth i =>
    intro a s hle hp hf ho _
    refine ⟨?_, by show (look s i).2.oof = false; rw [look_oof]; exact ho⟩
    rcases sound_look s0 a s i hle hp hf with hl | ⟨he, hle', hf'⟩
    · exact G_of_lt _ hl
    · exact ⟨hle', Or.inr ⟨hp, fun _ => hf'.1 rfl, hf'.2.1, hf'.2.2.1, fun _ => he⟩⟩
  | nthIdx =>
    intro a s hle hp hf ho _
    refine ⟨?_, by show (look s s.idx).2.oof = false; rw [look_oof]; exact ho⟩
    rcases sound_look s0 a s s.idx hle hp hf with hl | ⟨he, hle', hf'⟩
    · exact G_of_lt _ hl
    · exact ⟨hle', Or.inr ⟨hp, fun _ => hf'.1 rfl, hf'.2.1, hf'.2.2.1, fun _ => he⟩⟩
  | ifCur ks t e iht ihe =>
    intro a s hle hp hf ho hk
    simp only [abs] at hk ⊢
    simp only [execS]
    cases hin : ks.contains s.cur with
    | true =>
      have hcond : (a.cv && !ks.contains T_Eof) = false := by
        cases hcv : a.cv
        · rfl
        · have := hf.2.2.2 hcv; rw [this] at hin; rw [hin]; rfl
      rw [hcond] at hk ⊢
      simp only [Bool.false_eq_true, ↓reduceIte] at hk ⊢
      have := iht a s hle hp hf ho (meet_ok hk).1
      exact ⟨G_weaken this.1 (le_meet_left _ _), this.2⟩
    | false =>
      simp only [Bool.false_eq_true, ↓reduceIte]
      have := ihe a s hle hp hf ho (meet_ok hk).2
      exact ⟨G_weaken this.1 (le_meet_right _ _), this.2⟩
  | ifRet t e iht ihe =>
    intro a s hle hp hf ho hk
    simp only [abs] at hk ⊢
    simp only [execS]
    cases hr : s.ret with
    | true =>
      have hnr : a.nr = false := by
        cases h : a.nr; rfl; have := hf.2.2.1 h; rw [hr] at this; cases this
      rw [hnr] at hk ⊢
      simp only [Bool.false_eq_true, ↓reduceIte] at hk ⊢
      have := iht a s hle hp hf ho (meet_ok hk).1
      exact ⟨G_weaken this.1 (le_meet_left _ _), this.2⟩
    | false =>
      simp only [Bool.false_eq_true, ↓reduceIte]
      have := ihe a s hle hp hf ho (meet_ok hk).2
      exact ⟨G_weaken this.1 (le_meet_right _ _), this.2⟩
  | setRet b =>
    intro a s hle hp hf ho _
    simp only [abs, hp, Bool.false_eq_true, if_false]
    refine ⟨⟨hle, Or.inr ⟨rfl, hf.1, hf.2.1, ?_, hf.2.2.2⟩⟩, ho⟩
    intro h; cases b
    · rfl
    · simp at h
  | setIdx n => intro a s hle hp hf ho _; exact ⟨⟨hle, Or.inr ⟨hp, hf⟩⟩, ho⟩
  | incIdx => intro a s hle hp hf ho _; exact ⟨⟨hle, Or.inr ⟨hp, hf⟩⟩, ho⟩
  | decIdx => intro a s hle hp hf ho _; exact ⟨⟨hle, Or.inr ⟨hp, hf⟩⟩, ho⟩
  | ifIdxZero t e iht ihe =>
    intro a s hle hp hf ho hk
    simp only [abs] at hk ⊢
    simp only [execS]
    split
    · have := iht a s hle hp hf ho (meet_ok hk).1
      exact ⟨G_weaken this.1 (le_meet_left _ _), this.2⟩
    · have := ihe a s hle hp hf ho (meet_ok hk).2
      exact ⟨G_weaken this.1 (le_meet_right _ _), this.2⟩
  | node k b ih => intro a s hle hp hf ho hk; exact ih a { s with out := [] } hle hp hf ho hk
  | nodeReg b ih => intro a s hle hp hf ho hk; exact ih a { s with out := [] } hle hp hf ho hk
  | setKind k => intro a s hle hp hf ho _; exact ⟨⟨hle, Or.inr ⟨hp, hf⟩⟩, ho⟩
  | markLast => intro a s hle hp hf ho _; exact ⟨⟨hle, Or.inr ⟨hp, hf⟩⟩, ho⟩
  | wrap k b ih => intro a s hle hp hf ho hk; exact ih a { s with out := [] } hle hp hf ho hk
  | call g =>
    intro a s hle hp hf ho hk
    simp only [abs, Bool.and_eq_true, hp, Bool.false_or, decide_eq_true_eq, Bool.false_eq_true, if_false] at hk ⊢
    simp only [execS, ho, Bool.false_eq_true, if_false]
    have h := hc g s hk.2.1 ho hle (Or.inr hk.2.2)
    refine ⟨?_, h.1⟩
    have hle' : mu (callF g s) ≤ mu s0 := Nat.le_trans (hm g s) hle
    by_cases hpn : a.pk = true ∧ a.ne = true
    · simp only [hpn, and_self, if_true]
      have hg := h.2 (hf.1 hpn.1) (hf.2.1 hpn.2)
      refine ⟨hle', ?_⟩
      rcases hg.2 with hl | hr
      · exact Or.inl (Nat.lt_of_lt_of_le hl hle)
      · exact Or.inr hr
    · simp only [hpn, if_false]
      refine ⟨hle', Or.inr ⟨rfl, ?_, ?_, ?_, ?_⟩⟩ <;> (intro x; exact Bool.noConfusion x)

end sound

end Goml.Grammar
