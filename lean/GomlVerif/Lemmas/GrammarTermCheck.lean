import GomlVerif.Lemmas.GrammarTerm
/-! `grammar_terminates`: the static check of the abstract interpreter, decided for every grammar function the parser
can reach, and the resulting theorem that the call budget of `parseItems` never runs out. The three tables below were
computed as fixpoints (universe = closure of `file` under calls; summaries = greatest fixpoint from ⊤; ranks = least
ranks that make every call before progress go downward) and are only *checked* here: a changed grammar or generated
table that invalidates them makes `all_checked` fail to build. -/
namespace Goml.Grammar

def rkTbl : List Nat := [1, 0, 0, 0, 0, 0, 1, 0, 0, 1, 0, 1, 0, 1, 0, 4, 0, 0, 3, 0, 1, 0, 1, 0, 0, 1, 0, 1, 0, 1, 0, 1, 0, 3, 0, 1, 0, 0, 0, 0, 1, 0, 1, 0, 3, 2, 1, 0, 0, 1, 0, 1, 0, 3, 2, 0, 0, 0, 0, 3, 2, 1, 0, 0, 6, 5, 4, 1, 0, 0, 0, 2, 1, 0, 1, 0, 3, 1, 0, 0, 0, 1, 0, 0, 0, 0, 1, 0, 0, 0, 0, 0, 0, 0, 0, 0, 0, 0, 0, 0]
def summTbl : List A := [⟨true, true, true, true, true, true⟩, ⟨true, true, false, false, false, true⟩, ⟨true, true, true, true, true, true⟩, ⟨true, true, true, true, true, true⟩, ⟨true, true, true, true, true, true⟩, ⟨true, true, true, true, true, true⟩, ⟨true, true, false, false, false, true⟩, ⟨true, true, false, false, false, true⟩, ⟨true, true, false, true, false, true⟩, ⟨true, true, false, false, false, true⟩, ⟨true, true, false, false, false, true⟩, ⟨true, true, true, true, true, true⟩, ⟨true, true, true, true, true, true⟩, ⟨true, true, false, true, false, true⟩, ⟨true, true, false, true, false, true⟩, ⟨true, true, true, true, true, true⟩, ⟨true, true, false, true, true, true⟩, ⟨true, true, false, true, true, true⟩, ⟨true, true, true, true, true, true⟩, ⟨true, true, true, true, true, true⟩, ⟨true, true, false, false, false, true⟩, ⟨true, true, false, false, false, true⟩, ⟨true, true, true, true, true, true⟩, ⟨true, true, true, true, true, true⟩, ⟨true, true, false, true, false, true⟩, ⟨true, true, false, false, false, true⟩, ⟨true, true, false, false, false, true⟩, ⟨true, true, false, false, false, true⟩, ⟨true, true, false, false, false, true⟩, ⟨true, true, true, true, true, true⟩, ⟨true, true, true, true, true, true⟩, ⟨true, true, true, true, true, true⟩, ⟨true, true, true, true, true, true⟩, ⟨true, true, true, true, true, true⟩, ⟨true, true, false, false, false, true⟩, ⟨true, true, true, true, true, true⟩, ⟨true, true, true, true, true, true⟩, ⟨true, true, false, false, false, true⟩, ⟨true, true, true, true, true, true⟩, ⟨true, true, false, true, false, true⟩, ⟨true, true, true, true, true, true⟩, ⟨true, true, true, true, true, true⟩, ⟨true, true, true, true, true, true⟩, ⟨true, true, true, true, true, true⟩, ⟨true, true, true, true, true, true⟩, ⟨true, true, true, true, true, true⟩, ⟨true, true, false, true, true, true⟩, ⟨true, true, false, false, true, true⟩, ⟨true, true, false, true, true, true⟩, ⟨true, true, true, true, true, true⟩, ⟨true, true, true, true, true, true⟩, ⟨true, true, true, true, true, true⟩, ⟨true, true, true, true, true, true⟩, ⟨true, true, true, true, true, true⟩, ⟨true, true, true, true, true, true⟩, ⟨true, true, false, true, true, true⟩, ⟨true, true, false, false, false, true⟩, ⟨true, true, false, false, false, true⟩, ⟨true, true, true, true, true, true⟩, ⟨true, true, true, true, true, true⟩, ⟨true, true, true, true, true, true⟩, ⟨true, true, true, true, true, true⟩, ⟨true, true, true, true, true, true⟩, ⟨true, true, true, true, true, true⟩, ⟨true, true, true, true, true, true⟩, ⟨true, true, true, true, true, true⟩, ⟨true, true, true, true, true, true⟩, ⟨true, true, true, true, true, true⟩, ⟨true, true, true, true, true, true⟩, ⟨true, true, false, true, false, true⟩, ⟨true, true, false, true, false, true⟩, ⟨true, true, false, true, true, true⟩, ⟨true, true, false, true, true, true⟩, ⟨true, true, false, false, true, true⟩, ⟨true, true, false, false, false, true⟩, ⟨true, true, false, false, false, true⟩, ⟨true, true, true, true, true, true⟩, ⟨true, true, false, true, true, true⟩, ⟨true, true, false, true, true, true⟩, ⟨true, true, false, false, false, true⟩, ⟨true, true, false, false, false, true⟩, ⟨true, true, true, true, true, true⟩, ⟨true, true, true, true, true, true⟩, ⟨true, true, false, false, false, true⟩, ⟨true, true, true, true, true, true⟩, ⟨true, true, false, false, false, true⟩, ⟨true, true, true, true, true, true⟩, ⟨true, true, false, true, false, true⟩, ⟨true, true, false, false, false, true⟩, ⟨true, true, true, true, true, true⟩, ⟨true, true, true, true, true, true⟩, ⟨true, true, true, true, true, true⟩, ⟨true, true, true, true, true, true⟩, ⟨true, true, true, true, true, true⟩, ⟨true, true, true, true, true, true⟩, ⟨true, true, true, true, true, true⟩, ⟨true, true, true, true, true, true⟩, ⟨true, true, true, true, true, true⟩, ⟨true, true, true, true, true, true⟩, ⟨true, true, true, true, true, true⟩]
def allFns : List Fn := [(Goml.Grammar.Fn.file),
  (Goml.Grammar.Fn.packageDecl),
  (Goml.Grammar.Fn.fileImports),
  (Goml.Grammar.Fn.fileItems),
  (Goml.Grammar.Fn.importDecl),
  (Goml.Grammar.Fn.attributeList),
  (Goml.Grammar.Fn.itemWithAttrs),
  (Goml.Grammar.Fn.externDecl),
  (Goml.Grammar.Fn.func),
  (Goml.Grammar.Fn.enumDef),
  (Goml.Grammar.Fn.structDef),
  (Goml.Grammar.Fn.traitDef),
  (Goml.Grammar.Fn.implBlock),
  (Goml.Grammar.Fn.expr),
  (Goml.Grammar.Fn.attributeListLoop),
  (Goml.Grammar.Fn.externDeclWithMarker),
  (Goml.Grammar.Fn.funcWithMarker),
  (Goml.Grammar.Fn.enumDefWithMarker),
  (Goml.Grammar.Fn.structDefWithMarker),
  (Goml.Grammar.Fn.traitDefWithMarker),
  (Goml.Grammar.Fn.implBlockWithMarker),
  (Goml.Grammar.Fn.exprBp 0),
  (Goml.Grammar.Fn.attribute),
  (Goml.Grammar.Fn.paramList),
  (Goml.Grammar.Fn.typeExpr),
  (Goml.Grammar.Fn.genericList true),
  (Goml.Grammar.Fn.block),
  (Goml.Grammar.Fn.genericList false),
  (Goml.Grammar.Fn.variantList),
  (Goml.Grammar.Fn.structFieldList),
  (Goml.Grammar.Fn.traitMethodList),
  (Goml.Grammar.Fn.implHasTrait),
  (Goml.Grammar.Fn.pathAlways),
  (Goml.Grammar.Fn.implItems),
  (Goml.Grammar.Fn.expectExprBp 23 "expected an operand for prefix operator"),
  (Goml.Grammar.Fn.exprBpLoop 0),
  (Goml.Grammar.Fn.atom),
  (Goml.Grammar.Fn.attributeBody),
  (Goml.Grammar.Fn.paramListLoop),
  (Goml.Grammar.Fn.typeExprBp 0),
  (Goml.Grammar.Fn.genericListLoop true),
  (Goml.Grammar.Fn.blockLoop false),
  (Goml.Grammar.Fn.genericListLoop false),
  (Goml.Grammar.Fn.variantListLoop),
  (Goml.Grammar.Fn.structFieldListLoop),
  (Goml.Grammar.Fn.traitMethodListLoop),
  (Goml.Grammar.Fn.implHasTraitLoop),
  (Goml.Grammar.Fn.pathInner true),
  (Goml.Grammar.Fn.exprBp 23),
  (Goml.Grammar.Fn.argList),
  (Goml.Grammar.Fn.expectExprBp 2 "expected a right-hand side for binary operator"),
  (Goml.Grammar.Fn.expectExprBp 4 "expected a right-hand side for binary operator"),
  (Goml.Grammar.Fn.expectExprBp 10 "expected a right-hand side for binary operator"),
  (Goml.Grammar.Fn.expectExprBp 12 "expected a right-hand side for binary operator"),
  (Goml.Grammar.Fn.expectExprBp 14 "expected a right-hand side for binary operator"),
  (Goml.Grammar.Fn.expectExprBp 16 "expected a right-hand side for binary operator"),
  (Goml.Grammar.Fn.expectExprBp 24 "expected a right-hand side for binary operator"),
  (Goml.Grammar.Fn.expectExpr "expected an expression in array literal"),
  (Goml.Grammar.Fn.arrayLoop),
  (Goml.Grammar.Fn.looksLikeStructLiteral),
  (Goml.Grammar.Fn.structLitFieldList),
  (Goml.Grammar.Fn.expectExpr "expected an expression in paren or tuple literal"),
  (Goml.Grammar.Fn.tupleLoop),
  (Goml.Grammar.Fn.expectExpr "expected an expression after `if`"),
  (Goml.Grammar.Fn.expectExpr "expected a then-branch expression for `if`"),
  (Goml.Grammar.Fn.expectExpr "expected an else-branch expression for `if`"),
  (Goml.Grammar.Fn.expectExpr "expected a scrutinee expression for `match`"),
  (Goml.Grammar.Fn.matchArmList),
  (Goml.Grammar.Fn.expectExpr "expected an expression after `while`"),
  (Goml.Grammar.Fn.expectExpr "expected a body expression for `while`"),
  (Goml.Grammar.Fn.expectExpr "expected an expression after `go`"),
  (Goml.Grammar.Fn.goLoop),
  (Goml.Grammar.Fn.closureExpr),
  (Goml.Grammar.Fn.attributeBodyLoop),
  (Goml.Grammar.Fn.param),
  (Goml.Grammar.Fn.typeAtom),
  (Goml.Grammar.Fn.typeExprBpLoop 0),
  (Goml.Grammar.Fn.generic true),
  (Goml.Grammar.Fn.letStmt),
  (Goml.Grammar.Fn.wrapExprStmt),
  (Goml.Grammar.Fn.blockLoop true),
  (Goml.Grammar.Fn.generic false),
  (Goml.Grammar.Fn.variant),
  (Goml.Grammar.Fn.structField),
  (Goml.Grammar.Fn.traitMethod),
  (Goml.Grammar.Fn.pathLoop),
  (Goml.Grammar.Fn.exprBpLoop 23),
  (Goml.Grammar.Fn.argListLoop),
  (Goml.Grammar.Fn.exprBp 2),
  (Goml.Grammar.Fn.exprBp 4),
  (Goml.Grammar.Fn.exprBp 10),
  (Goml.Grammar.Fn.exprBp 12),
  (Goml.Grammar.Fn.exprBp 14),
  (Goml.Grammar.Fn.exprBp 16),
  (Goml.Grammar.Fn.exprBp 24),
  (Goml.Grammar.Fn.structLitFieldListLoop),
  (Goml.Grammar.Fn.expectExpr "expected an expression in tuple literal"),
  (Goml.Grammar.Fn.matchArmListLoop),
  (Goml.Grammar.Fn.closureParamList),
  (Goml.Grammar.Fn.closureBody),
  (Goml.Grammar.Fn.typeList),
  (Goml.Grammar.Fn.typeParamList),
  (Goml.Grammar.Fn.typeExprBp 4),
  (Goml.Grammar.Fn.traitSet),
  (Goml.Grammar.Fn.pattern),
  (Goml.Grammar.Fn.arg),
  (Goml.Grammar.Fn.exprBpLoop 2),
  (Goml.Grammar.Fn.exprBpLoop 4),
  (Goml.Grammar.Fn.exprBpLoop 10),
  (Goml.Grammar.Fn.exprBpLoop 12),
  (Goml.Grammar.Fn.exprBpLoop 14),
  (Goml.Grammar.Fn.exprBpLoop 16),
  (Goml.Grammar.Fn.exprBpLoop 24),
  (Goml.Grammar.Fn.structLitField),
  (Goml.Grammar.Fn.matchArm),
  (Goml.Grammar.Fn.closureParamListLoop),
  (Goml.Grammar.Fn.expectExpr "expected a closure body"),
  (Goml.Grammar.Fn.typeListLoop),
  (Goml.Grammar.Fn.typeParamListLoop),
  (Goml.Grammar.Fn.typeExprBpLoop 4),
  (Goml.Grammar.Fn.traitSetLoop),
  (Goml.Grammar.Fn.simplePattern),
  (Goml.Grammar.Fn.expectExpr "expected an expression"),
  (Goml.Grammar.Fn.expectExpr "expected an expression in match arm"),
  (Goml.Grammar.Fn.closureParam),
  (Goml.Grammar.Fn.patTupleLoop),
  (Goml.Grammar.Fn.patCtorLoop),
  (Goml.Grammar.Fn.structPatFieldList),
  (Goml.Grammar.Fn.structPatFieldListLoop),
  (Goml.Grammar.Fn.structPatField)]

def a0 : A := ⟨false, false, false, false, false, true⟩
def aDead : A := ⟨true, true, false, false, false, true⟩

def theCfg : Cfg :=
  { rk := fun f => rkTbl.getD f.id 0
    summ := fun f => summTbl.getD f.id ⟨false, false, false, false, false, true⟩
    inU := fun f => allFns.contains f }

/-- per function: every call is allowed from a fresh entry and from a dead entry, the claimed summary is what the
body yields from a dead entry, and the rank is below `ranks` -/
def checkFn (c : Cfg) (f : Fn) : Bool :=
  (abs c (c.rk f) (body f) a0).ok && (abs c (c.rk f) (body f) aDead).ok &&
    A.le (c.summ f) (abs c (c.rk f) (body f) aDead) && decide (c.rk f < ranks)

theorem all_checked : allFns.all (checkFn theCfg) = true := by decide +kernel

theorem file_in_universe : theCfg.inU .file = true := by decide +kernel

theorem run_terminates (c : Cfg) (hchk : ∀ f, c.inU f = true → checkFn c f = true) :
    ∀ (n : Nat) (f : Fn) (s : PS), c.inU f = true → s.oof = false → ranks * mu s + c.rk f + 1 ≤ n →
      (run n f s).oof = false ∧ (Dead s → s.isEof = false → G (c.summ f) s (run n f s)) := by
  intro n
  induction n with
  | zero => intro f s _ _ h; omega
  | succ n ih =>
    intro f s hU ho hb
    have hck := hchk f hU
    simp only [checkFn, Bool.and_eq_true, decide_eq_true_eq] at hck
    obtain ⟨⟨⟨hk0, hkd⟩, hle⟩, hr⟩ := hck
    let s1 : PS := { s with trace := s.trace ||| (1 <<< f.id) }
    have hm : ∀ g s, mu (run n g s) ≤ mu s := run_mu_le n
    have hc : HC c (c.rk f) s1 (run n) := by
      intro g s' hUg ho' hle' hcase
      have hckg := hchk g hUg
      simp only [checkFn, Bool.and_eq_true, decide_eq_true_eq] at hckg
      have hrg := hckg.2
      have hmu : mu s1 = mu s := rfl
      rw [hmu] at hle' hcase
      refine ih g s' hUg ho' ?_
      simp only [ranks] at hb hrg hr ⊢
      rcases hcase with h | h <;> omega
    have hG0 : G a0 s1 s1 := ⟨Nat.le_refl _, Or.inr ⟨rfl, fun x => Bool.noConfusion x, fun x => Bool.noConfusion x,
      fun x => Bool.noConfusion x, fun x => Bool.noConfusion x⟩⟩
    have r0 := toG c (c.rk f) s1 (run n) hm hc (body f) (sound c (c.rk f) s1 (run n) hm hc (body f)) a0 s1 hG0 ho hk0
    refine ⟨r0.2, ?_⟩
    intro hd he
    have hGd : G aDead s1 s1 := ⟨Nat.le_refl _, Or.inr ⟨rfl, fun _ => hd, fun _ => he,
      fun x => Bool.noConfusion x, fun x => Bool.noConfusion x⟩⟩
    have rd := toG c (c.rk f) s1 (run n) hm hc (body f) (sound c (c.rk f) s1 (run n) hm hc (body f)) aDead s1 hGd ho hkd
    exact G_weaken rd.1 hle

theorem theCfg_checked (f : Fn) (h : theCfg.inU f = true) : checkFn theCfg f = true := by
  have := List.all_eq_true.1 all_checked f (by simpa [theCfg] using h)
  exact this

theorem mu_init_le (toks : List Nat) : mu (initPS toks) ≤ (toks.length + 1) * (FUEL + 1) := by
  unfold mu initPS
  simp only [FUEL, Gen.parserFuel]
  split <;> omega

/-- **the call budget of the grammar model never runs out**, for every token list. Each call or
loop iteration made before the potential `(len − pos)·257 + fuel` dropped goes to a function of lower rank (ranks ≤ 6);
every other one follows a look that spent parser fuel or an `advance` inside the input; at fuel 0 every look answers
`eof` and the default path of each loop reaches an `advance` or leaves the loop. Hence the depth of calls and loop
iterations is at most `ranks · ((len+1)·257) + ranks` < `budget len` = `40·257·(len+1) + 41`. -/
theorem parseItems_no_oof (toks : List Nat) : (parseItems toks).oof = false := by
  unfold parseItems
  refine (run_terminates theCfg theCfg_checked _ .file (initPS toks) file_in_universe rfl ?_).1
  have h1 := mu_init_le toks
  have h2 : theCfg.rk .file < ranks := by decide +kernel
  unfold budget
  have : ranks * mu (initPS toks) ≤ ranks * ((toks.length + 1) * (FUEL + 1)) := Nat.mul_le_mul_left _ h1
  omega

end Goml.Grammar
