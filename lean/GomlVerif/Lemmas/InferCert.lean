import GomlVerif.Lemmas.InferTotal
import GomlVerif.Model.InferSpec
import GomlVerif.Lemmas.C03presMatch
/-! Helper lemmas for `Props/Infer.lean::infer_sound_partial`: an obligation the executable check `checkB` accepts holds. -/
namespace Goml.Infer
open Goml Goml.Unify

theorem isEqC_sound {l r c} (h : isEqC l r c = true) : c = .eq l r := by
  cases c with
  | eq a b =>
    simp only [isEqC, Bool.and_eq_true] at h
    rw [Match.tyEqB_sound _ _ h.1, Match.tyEqB_sound _ _ h.2]
  | ovl _ _ _ => simp [isEqC] at h
  | field _ _ _ => simp [isEqC] at h

/-- an obligation discharged by the queue holds under every relation that contains the identity and
the queued equalities -/
theorem checkB_sound {R : Ty → Ty → Prop} {cs : List Constraint} {bs funs o}
    (hR : ∀ l r, Constraint.eq l r ∈ cs → R l r) (hrefl : ∀ t, R t t)
    (h : checkB (fun a b => Match.tyEqB a b || cs.any (isEqC a b)) bs funs o = true) :
    Holds R (fun x => lookupScope x bs) funs o := by
  cases o with
  | rel a b =>
    simp only [checkB, Bool.or_eq_true, List.any_eq_true] at h
    rcases h with h | ⟨c, hc, he⟩
    · rw [Match.tyEqB_sound _ _ h]; exact hrefl _
    · rw [isEqC_sound he] at hc; exact hR _ _ hc
  | same a b => exact Match.tyEqB_sound _ _ h
  | bound x ty =>
    simp only [checkB] at h
    simp only [Holds]
    cases hl : lookupScope x bs with
    | none => simp [hl] at h
    | some t => simp only [hl] at h; rw [Match.tyEqB_sound _ _ h]
  | inst n ty =>
    simp only [checkB] at h
    cases hl : lookupAssoc n funs with
    | none => simp [hl] at h
    | some sch => simp only [hl] at h; exact ⟨sch, hl, instStore ty, Match.tyEqB_sound _ _ h⟩
  | projOk tup idx ty =>
    cases tup <;> simp only [checkB] at h <;> try contradiction
    rename_i tys
    cases hi : tys[idx]? with
    | none => simp [hi] at h
    | some t => simp only [hi] at h; exact ⟨tys, rfl, by rw [hi, Match.tyEqB_sound _ _ h]⟩
  | fld _ _ _ => simp [checkB] at h
  | bad => simp [checkB] at h

end Goml.Infer
