import GomlVerif.Lemmas.InferTotal
import GomlVerif.Model.InferSpec
/-!
`go_just`: every obligation (`Model/InferSpec.lean::obls`) of the tree constraint generation returns is JUSTIFIED by the
state it returns — an identity, a queued `TypeEqual` / `StructFieldAccess`, a binder of the binder table, an instance made
by `inst_ty` — provided no diagnostic was pushed.  This removes the per-function certificate from `infer_sound`.
-/
namespace Goml.Infer
open Goml Goml.Unify

/-- `o` is justified by the queue `cs`, the binder table `B` and the signatures -/
def J (B : Nat → Option Ty) (funs : List (String × Ty)) (cs : List Constraint) : Obl → Prop
  | .rel l r => l = r ∨ Constraint.eq l r ∈ cs
  | .same l r => l = r
  | .bound x ty => B x = some ty
  | .inst n ty => ∃ sch, lookupAssoc n funs = some sch ∧ IsInst sch ty
  | .projOk tup idx ty => ∃ tys, tup = .tuple tys ∧ tys[idx]? = some ty
  | .fld e f r => Constraint.field e f r ∈ cs
  | .bad => False

def JL (B : Nat → Option Ty) (funs : List (String × Ty)) (cs : List Constraint) (os : List Obl) : Prop :=
  ∀ o, o ∈ os → J B funs cs o

/-- the binder table agrees with a list of binders -/
def BIn (B : Nat → Option Ty) (bs : List (Nat × Ty)) : Prop := ∀ p, p ∈ bs → B p.1 = some p.2

/-- every entry of every scope agrees with the binder table -/
def EnvAll (B : Nat → Option Ty) (Γ : Scopes) : Prop := ∀ sc, sc ∈ Γ → ∀ p, p ∈ sc → B p.1 = some p.2

theorem J.mono {B funs cs cs' o} (h : J B funs cs o) (hs : ∀ c, c ∈ cs → c ∈ cs') : J B funs cs' o := by
  cases o with
  | rel l r => exact h.imp id (hs _)
  | same l r => exact h
  | bound x ty => exact h
  | inst n ty => exact h
  | projOk a i t => exact h
  | fld e f r => exact hs _ h
  | bad => exact h

theorem Le.mem {s s' : St} (l : Le s s') : ∀ c, c ∈ s.cs → c ∈ s'.cs := by
  intro c hc
  obtain ⟨n, e⟩ := l.cs
  rw [e]; exact List.mem_append_left _ hc

theorem JL.mono {B funs os} {s s' : St} (h : JL B funs s.cs os) (l : Le s s') : JL B funs s'.cs os :=
  fun o ho => (h o ho).mono l.mem

theorem JL.nil {B funs cs} : JL B funs cs [] := fun _ h => by cases h

theorem JL.append {B funs cs a b} (ha : JL B funs cs a) (hb : JL B funs cs b) : JL B funs cs (a ++ b) := by
  intro o ho
  rcases List.mem_append.1 ho with h | h
  · exact ha o h
  · exact hb o h

theorem JL.cons {B funs cs o os} (ha : J B funs cs o) (hb : JL B funs cs os) : JL B funs cs (o :: os) := by
  intro o' ho
  rcases List.mem_cons.1 ho with h | h
  · rw [h]; exact ha
  · exact hb o' h

theorem JL.one {B funs cs o} (ha : J B funs cs o) : JL B funs cs [o] := JL.cons ha JL.nil

/-- no diagnostic, and generation stayed inside the forms the soundness theorem covers (ghost flag) -/
def Clean (s : St) : Prop := s.diags = [] ∧ s.outside = false

theorem Le.nodiag {s s' : St} (l : Le s s') (h : Clean s') : Clean s := by
  obtain ⟨m, e⟩ := l.diags
  have h1 := h.1
  rw [e] at h1
  refine ⟨(List.append_eq_nil_iff.1 h1).1, ?_⟩
  cases ho : s.outside with
  | false => rfl
  | true => have := l.out ho; rw [h.2] at this; cases this

theorem diag_absurd {s s' : St} {d} (l : Le (s.diag d) s') (h : Clean s') : False := by
  have := (l.nodiag h).1
  simp [St.diag] at this

theorem mark_absurd {s s' : St} (l : Le s.mark s') (h : Clean s') : False := by
  have := (l.nodiag h).2
  simp [St.mark] at this

theorem mem_push (s : St) (c : Constraint) : c ∈ (s.push c).cs := by simp [St.push]

theorem BIn.left {B a b} (h : BIn B (a ++ b)) : BIn B a := fun p hp => h p (List.mem_append_left _ hp)
theorem BIn.right {B a b} (h : BIn B (a ++ b)) : BIn B b := fun p hp => h p (List.mem_append_right _ hp)

/-! ### scopes -/

theorem lookupScope_mem {x ty} : ∀ {sc : List (Nat × Ty)}, lookupScope x sc = some ty → (x, ty) ∈ sc
  | [], h => by simp [lookupScope] at h
  | (y, t) :: rest, h => by
    simp only [lookupScope] at h
    split at h
    · rename_i e; injection h with h; subst h; subst e; exact List.mem_cons_self
    · exact List.mem_cons_of_mem _ (lookupScope_mem h)

theorem EnvAll.lookup {B x ty} : ∀ {Γ : Scopes}, EnvAll B Γ → lookupVar x Γ = some ty → B x = some ty
  | [], _, h => by simp [lookupVar] at h
  | sc :: rest, hE, h => by
    simp only [lookupVar] at h
    cases hs : lookupScope x sc with
    | some t =>
      simp only [hs] at h; injection h with h; subst h
      exact hE sc List.mem_cons_self _ (lookupScope_mem hs)
    | none =>
      simp only [hs] at h
      exact EnvAll.lookup (fun sc' hm => hE sc' (List.mem_cons_of_mem _ hm)) h

theorem EnvAll.push {B Γ} (h : EnvAll B Γ) : EnvAll B (pushScope Γ) := by
  intro sc hm p hp
  rcases List.mem_cons.1 hm with e | e
  · subst e; cases hp
  · exact h sc e p hp

theorem EnvAll.insert {B Γ x ty} (h : EnvAll B Γ) (hx : B x = some ty) : EnvAll B (insertVar x ty Γ) := by
  cases Γ with
  | nil => exact h
  | cons sc rest =>
    intro sc' hm p hp
    simp only [insertVar] at hm
    rcases List.mem_cons.1 hm with e | e
    · subst e
      rcases List.mem_cons.1 hp with e2 | e2
      · subst e2; exact hx
      · exact h sc List.mem_cons_self p e2
    · exact h sc' (List.mem_cons_of_mem _ e) p hp

theorem EnvAll.pop {B Γ} {s : St} (h : EnvAll B Γ) : EnvAll B (popScope Γ s).1 := by
  unfold popScope; split
  · exact h
  · intro sc hm p hp
    exact h sc (List.mem_of_mem_tail hm) p hp

/-! ### patterns -/

theorem freshN_le' (n) (s : St) : Le s (freshN n s).2 := le_freshN n s

theorem checkPat_just {B funs} : ∀ (p : IPat) ty Γ (s : St),
    BIn B (pbinders (checkPat p ty Γ s).1) → EnvAll B Γ →
    EnvAll B (checkPat p ty Γ s).2.1 ∧ JL B funs (checkPat p ty Γ s).2.2.cs (pobls (checkPat p ty Γ s).1 ty) := by
  intro p
  apply IPat.rec
    (motive_1 := fun p => ∀ ty Γ (s : St), BIn B (pbinders (checkPat p ty Γ s).1) → EnvAll B Γ →
      EnvAll B (checkPat p ty Γ s).2.1 ∧ JL B funs (checkPat p ty Γ s).2.2.cs (pobls (checkPat p ty Γ s).1 ty))
    (motive_2 := fun ps => ∀ tys Γ (s : St), BIn B (pbindersL (checkPatZip ps tys Γ s).1) → EnvAll B Γ →
      EnvAll B (checkPatZip ps tys Γ s).2.1 ∧ JL B funs (checkPatZip ps tys Γ s).2.2.cs (pselfL (checkPatZip ps tys Γ s).1))
  · intro x ty Γ s hB hΓ
    simp only [checkPat, pbinders] at hB ⊢
    have hx : B x = some ty := hB (x, ty) List.mem_cons_self
    refine ⟨hΓ.insert hx, ?_⟩
    simp only [pobls, pself, plink]
    exact JL.cons hx (JL.one rfl)
  · intro ty Γ s _ hΓ
    simp only [checkPat]
    refine ⟨hΓ, ?_⟩
    simp only [pobls, pself, plink]
    exact JL.one (Or.inr (mem_push _ _))
  · intro ty Γ s _ hΓ
    simp only [checkPat]
    refine ⟨hΓ, ?_⟩
    simp only [pobls, pself, plink]
    exact JL.cons (Or.inl rfl) (JL.one (Or.inr (mem_push _ _)))
  · intro ty Γ s _ hΓ
    simp only [checkPat]
    refine ⟨hΓ, ?_⟩
    simp only [pobls, pself, plink]
    exact JL.cons (Or.inl rfl) (JL.one (Or.inr (mem_push _ _)))
  · intro ty Γ s _ hΓ
    simp only [checkPat]
    refine ⟨hΓ, ?_⟩
    simp only [pobls, pself, plink]
    exact JL.cons (Or.inr (mem_push _ _)) (JL.one (Or.inr (mem_push _ _)))
  · intro ty Γ s _ hΓ
    simp only [checkPat]
    refine ⟨hΓ, ?_⟩
    simp only [pobls, pself, plink]
    exact JL.cons (Or.inl rfl) (JL.one (Or.inr (mem_push _ _)))
  · intro k ty Γ s _ hΓ
    simp only [checkPat]
    refine ⟨hΓ, ?_⟩
    simp only [pobls, pself, plink]
    exact JL.cons (Or.inl rfl) (JL.one (Or.inr (mem_push _ _)))
  · intro info args ih ty Γ s hB hΓ
    have wild : ∀ (s0 : St), JL B funs ((s0.fresh.2).push (.eq s0.fresh.1 ty)).cs (pobls (.wild s0.fresh.1) ty) := by
      intro s0
      simp only [pobls, pself, plink]
      exact JL.one (Or.inr (mem_push _ _))
    rcases info with _ | _ | ⟨cty, arity⟩
    · simp only [checkPat] at hB ⊢
      exact ⟨hΓ, wild _⟩
    · simp only [checkPat] at hB ⊢
      exact ⟨hΓ, wild _⟩
    · simp only [checkPat] at hB ⊢
      by_cases hc : arity = args.length
      · simp only [hc, if_true, pbinders] at hB ⊢
        obtain ⟨h1, h2⟩ := ih _ Γ _ hB hΓ
        refine ⟨h1, ?_⟩
        simp only [pobls, pself, plink]
        exact JL.append (h2.mono (le_push _ _)) (JL.one (Or.inr (mem_push _ _)))
      · simp only [hc, if_false] at hB ⊢
        exact ⟨hΓ, wild _⟩
  · intro ps ih ty Γ s hB hΓ
    simp only [checkPat, pbinders] at hB ⊢
    obtain ⟨h1, h2⟩ := ih _ Γ (tupleElemTys ps.length ty s).2 hB hΓ
    refine ⟨h1, ?_⟩
    simp only [pobls, pself, plink]
    refine JL.append (JL.cons rfl (h2.mono (le_push _ _))) (JL.one (Or.inr (mem_push _ _)))
  · intro tys Γ s _ hΓ
    simp only [checkPatZip]
    exact ⟨hΓ, JL.nil⟩
  · intro p ps ihp ihps tys Γ s hB hΓ
    cases tys with
    | nil => simp only [checkPatZip]; exact ⟨hΓ, JL.nil⟩
    | cons t ts =>
      simp only [checkPatZip, pbindersL] at hB ⊢
      obtain ⟨h1, h2⟩ := ihp t Γ s hB.left hΓ
      obtain ⟨h3, h4⟩ := ihps ts _ _ hB.right h1
      refine ⟨h3, ?_⟩
      simp only [pselfL]
      refine JL.append ?_ h4
      have : JL B funs (checkPat p t Γ s).2.2.cs (pself (checkPat p t Γ s).1) := by
        intro o ho; exact h2 o (by simp only [pobls]; exact List.mem_append_left _ ho)
      exact this.mono (le_checkPat_zip_aux ps ts _ _)
where
  le_checkPat_zip_aux : ∀ (ps : List IPat) tys Γ (s : St), Le s (checkPatZip ps tys Γ s).2.2 := by
    intro ps
    induction ps with
    | nil => intro tys Γ s; simp only [checkPatZip]; exact Le.refl _
    | cons p ps ih =>
      intro tys Γ s
      cases tys with
      | nil => simp only [checkPatZip]; exact Le.refl _
      | cons t ts => simp only [checkPatZip]; exact (le_checkPat _ _ _ _).trans (ih _ _ _)


/-! ### closure parameters, names, `finish` -/

theorem bindParamsInf_just {B funs cs} : ∀ ps Γ (s : St), BIn B (bindParamsInf ps Γ s).1 → EnvAll B Γ →
    EnvAll B (bindParamsInf ps Γ s).2.1 ∧ JL B funs cs (boundsOf (bindParamsInf ps Γ s).1)
  | [], Γ, s, _, hΓ => by simp only [bindParamsInf]; exact ⟨hΓ, JL.nil⟩
  | (x, ann) :: ps, Γ, s, hB, hΓ => by
    simp only [bindParamsInf] at hB ⊢
    have hx := hB _ List.mem_cons_self
    obtain ⟨h1, h2⟩ := bindParamsInf_just (cs := cs) ps _ _ (fun p hp => hB p (List.mem_cons_of_mem _ hp)) (hΓ.insert hx)
    exact ⟨h1, by simp only [boundsOf]; exact JL.cons hx h2⟩

theorem bindParamsChk_just {B funs cs} : ∀ ps eps Γ (s : St), BIn B (bindParamsChk ps eps Γ s).1 → EnvAll B Γ →
    EnvAll B (bindParamsChk ps eps Γ s).2.1 ∧ JL B funs cs (boundsOf (bindParamsChk ps eps Γ s).1)
  | [], eps, Γ, s, _, hΓ => by simp only [bindParamsChk]; exact ⟨hΓ, JL.nil⟩
  | (x, ann) :: ps, [], Γ, s, _, hΓ => by simp only [bindParamsChk]; exact ⟨hΓ, JL.nil⟩
  | (x, ann) :: ps, ep :: eps, Γ, s, hB, hΓ => by
    simp only [bindParamsChk] at hB ⊢
    have hx := hB _ List.mem_cons_self
    obtain ⟨h1, h2⟩ := bindParamsChk_just (cs := cs) ps eps _ _ (fun p hp => hB p (List.mem_cons_of_mem _ hp)) (hΓ.insert hx)
    exact ⟨h1, by simp only [boundsOf]; exact JL.cons hx h2⟩

theorem finish_inv {i exp v T Γx} {sx : St} {t Γ' s'} (h : finish i exp v T Γx sx = some (t, Γ', s')) :
    t = T ∧ Γ' = Γx ∧ Le sx s' ∧ (∀ x, exp = some x → Constraint.eq T.ty x ∈ s'.cs) := by
  obtain ⟨s2, h2, l⟩ := finish_le i exp v T Γx sx
  have e := h.symm.trans h2
  injection e with e; injection e with e1 e; injection e with e2 e3
  subst e1; subst e2; subst e3
  refine ⟨rfl, rfl, l, ?_⟩
  intro x hx
  subst hx
  simp only [finish] at h
  injection h with h; injection h with _ h; injection h with _ h
  rw [← h]
  simp [St.push, St.record]

theorem nameRef_just {B} {r G Γ} {s s' : St} (l : Le (nameRef r G Γ s).2 s') (hd : Clean s') (hΓ : EnvAll B Γ) :
    JL B G.funs s'.cs (obls (nameRef r G Γ s).1) := by
  unfold nameRef at l ⊢
  cases r with
  | loc x =>
    simp only at l ⊢
    cases hl : lookupVar x Γ with
    | some ty => simp only [hl, obls]; exact JL.one (hΓ.lookup hl)
    | none => simp only [hl] at l; exact (diag_absurd ((le_errExpr _).trans l) hd).elim
  | defn hint =>
    simp only at l ⊢
    cases hl : lookupAssoc hint G.funs with
    | some fty => simp only [hl, obls]; exact JL.one ⟨fty, hl, s.σ, rfl⟩
    | none => simp only [hl] at l; exact (diag_absurd ((le_errExpr _).trans l) hd).elim
  | builtin h => simp only at l; exact (diag_absurd ((le_errExpr _).trans l) hd).elim
  | unres o =>
    cases o with
    | none => simp only at l; exact (diag_absurd ((le_errExpr _).trans l) hd).elim
    | some n =>
      simp only at l ⊢
      cases hl : lookupAssoc n G.funs with
      | some fty => simp only [hl, obls]; exact JL.one ⟨fty, hl, s.σ, rfl⟩
      | none => simp only [hl] at l; exact (diag_absurd ((le_errExpr _).trans l) hd).elim

end Goml.Infer
