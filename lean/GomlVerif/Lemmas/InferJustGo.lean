import GomlVerif.Lemmas.InferJust
/-! `go_just`: the main induction (see `Lemmas/InferJust.lean`). -/
namespace Goml.Infer
open Goml Goml.Unify

def Just1 (e : IExpr) : Prop :=
  ∀ exp G Γ s t Γ' s', go e exp G Γ s = some (t, Γ', s') → Clean s' →
    ∀ B, BIn B (binders t) → EnvAll B Γ →
      EnvAll B Γ' ∧ JL B G.funs s'.cs (obls t) ∧ (∀ x, exp = some x → Constraint.eq t.ty x ∈ s'.cs)

def JustLs (es : List IExpr) : Prop :=
  (∀ G Γ s ts Γ' s', goL es G Γ s = some (ts, Γ', s') → Clean s' →
    ∀ B, BIn B (bindersL ts) → EnvAll B Γ → EnvAll B Γ' ∧ JL B G.funs s'.cs (oblsL ts)) ∧
  (∀ xs G Γ s ts Γ' s', goZip es xs G Γ s = some (ts, Γ', s') → Clean s' →
    ∀ B, BIn B (bindersL ts) → EnvAll B Γ → EnvAll B Γ' ∧ JL B G.funs s'.cs (oblsL ts)) ∧
  (∀ exp G Γ s ts Γ' s', goBlock es exp G Γ s = some (ts, Γ', s') → Clean s' →
    ∀ B, BIn B (bindersL ts) → EnvAll B Γ → EnvAll B Γ' ∧ JL B G.funs s'.cs (oblsL ts)) ∧
  (∀ el G Γ s ts Γ' s', goArr es el G Γ s = some (ts, Γ', s') → Clean s' →
    ∀ B, BIn B (bindersL ts) → EnvAll B Γ → EnvAll B Γ' ∧ JL B G.funs s'.cs (oblsL ts ++ relAll ts el)) ∧
  (∀ ks ps G Γ s ts Γ' s', goIdx es ks ps G Γ s = some (ts, Γ', s') → Clean s' →
    ∀ B, BIn B (bindersL ts) → EnvAll B Γ → EnvAll B Γ' ∧ JL B G.funs s'.cs (oblsL ts))

def JustA (arms : List IArm) : Prop :=
  ∀ sty exp armTy G Γ s tas Γ' s', goArms arms sty exp armTy G Γ s = some (tas, Γ', s') → Clean s' →
    ∀ B, BIn B (bindersA tas) → EnvAll B Γ → EnvAll B Γ' ∧ JL B G.funs s'.cs (oblsA tas sty (exp.getD armTy))

theorem find_of_nodup {α} : ∀ (l : List (Nat × α)), (l.map (·.1)).Nodup → ∀ p, p ∈ l →
    l.find? (fun q => q.1 == p.1) = some p
  | [], _, p, hp => by cases hp
  | q :: l, hn, p, hp => by
    simp only [List.map_cons, List.nodup_cons] at hn
    rcases List.mem_cons.1 hp with e | e
    · subst e; simp [List.find?]
    · have hne : ¬ (q.1 == p.1) = true := by
        intro h
        have : q.1 = p.1 := by simpa using h
        exact hn.1 (this ▸ List.mem_map_of_mem (f := (·.1)) e)
      simp only [List.find?, hne]
      exact find_of_nodup l hn.2 p e

theorem mem_zip_of_le {α} : ∀ (ks : List Nat) (ts : List α), ts.length ≤ ks.length → ∀ t, t ∈ ts → ∃ k, (k, t) ∈ ks.zip ts
  | _, [], _, t, ht => by cases ht
  | [], _ :: _, hl, _, _ => by simp at hl
  | k :: ks, t0 :: ts, hl, t, ht => by
    rcases List.mem_cons.1 ht with e | e
    · subst e; exact ⟨k, by simp⟩
    · obtain ⟨k', hk⟩ := mem_zip_of_le ks ts (by simpa using hl) t e
      exact ⟨k', by simp [hk]⟩

theorem mem_bindersL : ∀ (L : List TExpr) p, p ∈ bindersL L ↔ ∃ t, t ∈ L ∧ p ∈ binders t
  | [], p => by simp [bindersL]
  | t :: L, p => by
    simp only [bindersL, List.mem_append, mem_bindersL L p, List.mem_cons]
    constructor
    · rintro (h | ⟨t', h1, h2⟩)
      · exact ⟨t, Or.inl rfl, h⟩
      · exact ⟨t', Or.inr h1, h2⟩
    · rintro ⟨t', h1 | h1, h2⟩
      · subst h1; exact Or.inl h2
      · exact Or.inr ⟨t', h1, h2⟩

theorem mem_oblsL : ∀ (L : List TExpr) o, o ∈ oblsL L ↔ ∃ t, t ∈ L ∧ o ∈ obls t
  | [], o => by simp [oblsL]
  | t :: L, o => by
    simp only [oblsL, List.mem_append, mem_oblsL L o, List.mem_cons]
    constructor
    · rintro (h | ⟨t', h1, h2⟩)
      · exact ⟨t, Or.inl rfl, h⟩
      · exact ⟨t', Or.inr h1, h2⟩
    · rintro ⟨t', h1 | h1, h2⟩
      · subst h1; exact Or.inl h2
      · exact Or.inr ⟨t', h1, h2⟩

theorem reorder_sub {n idxs ts t} (h : t ∈ reorder n idxs ts) : t ∈ ts ∨ t = TExpr.prim .unit := by
  simp only [reorder, List.mem_map, List.mem_range] at h
  obtain ⟨k, _, rfl⟩ := h
  cases hf : (idxs.zip ts).find? (fun p => p.1 == k) with
  | none => exact Or.inr rfl
  | some p => exact Or.inl (List.of_mem_zip (List.mem_of_find?_eq_some hf)).2

theorem reorder_sup {n idxs ts} (hz : zipOk n idxs ts = true) {t} (ht : t ∈ ts) : t ∈ reorder n idxs ts := by
  simp only [zipOk, Bool.and_eq_true, decide_eq_true_eq, List.all_eq_true] at hz
  obtain ⟨⟨hnd, hle⟩, hall⟩ := hz
  obtain ⟨k, hk⟩ := mem_zip_of_le idxs ts hle t ht
  have hkn : k < n := hall k (List.of_mem_zip hk).1
  simp only [reorder, List.mem_map, List.mem_range]
  refine ⟨k, hkn, ?_⟩
  have := find_of_nodup (idxs.zip ts) hnd (k, t) hk
  simp only at this
  rw [this]
  rfl

theorem absurd_err {α : Prop} {i exp v Γx} {s0 : St} {d} {t Γ' s'}
    (h : finish i exp v (errExpr (s0.diag d)).1 Γx (errExpr (s0.diag d)).2 = some (t, Γ', s')) (hd : Clean s') : α := by
  obtain ⟨_, _, lf, _⟩ := finish_inv h
  exact (diag_absurd ((le_errExpr _).trans lf) hd).elim

theorem go_just : ∀ e, Just1 e := by
  apply IExpr.rec (motive_1 := Just1) (motive_2 := fun a => Just1 a.body) (motive_3 := JustLs) (motive_4 := JustA)
  -- lit
  · intro i ty exp G Γ s t Γ' s' h hd B hB hΓ
    rw [go] at h
    obtain ⟨rfl, rfl, lf, hexp⟩ := finish_inv h
    exact ⟨hΓ, by simp only [obls]; exact JL.nil, hexp⟩
  -- name
  · intro i r exp G Γ s t Γ' s' h hd B hB hΓ
    rw [go] at h
    obtain ⟨rfl, rfl, lf, hexp⟩ := finish_inv h
    exact ⟨hΓ, nameRef_just lf hd hΓ, hexp⟩
  -- tuple
  · intro i items ih exp G Γ s t Γ' s' h hd B hB hΓ
    rw [go] at h
    cases hck : tupleCheckTys exp items.length with
    | some tys =>
      simp only [hck] at h
      obtain ⟨ts, Γ1, s1, h1, l1⟩ := (goL_le items).2.1 tys G Γ s
      simp only [h1] at h
      obtain ⟨rfl, rfl, lf, hexp⟩ := finish_inv h
      simp only [binders] at hB
      obtain ⟨e1, j1⟩ := ih.2.1 tys G Γ s ts _ s1 h1 (lf.nodiag hd) B hB hΓ
      exact ⟨e1, by simp only [obls]; exact JL.append (j1.mono lf) (JL.one rfl), hexp⟩
    | none =>
      simp only [hck] at h
      obtain ⟨ts, Γ1, s1, h1, l1⟩ := (goL_le items).1 G Γ s
      simp only [h1] at h
      obtain ⟨rfl, rfl, lf, hexp⟩ := finish_inv h
      simp only [binders] at hB
      obtain ⟨e1, j1⟩ := ih.1 G Γ s ts _ s1 h1 (lf.nodiag hd) B hB hΓ
      exact ⟨e1, by simp only [obls]; exact JL.append (j1.mono lf) (JL.one rfl), hexp⟩
  -- closure
  · intro i params body ih exp G Γ s t Γ' s' h hd B hB hΓ
    rw [go] at h
    cases hck : closureCheck exp params.length with
    | some pr =>
      obtain ⟨eps, eret⟩ := pr
      simp only [hck] at h
      obtain ⟨tb, Γ2, s2, h1, l1⟩ := go_le body (some eret) G (bindParamsChk params eps (pushScope Γ) s).2.1
        (bindParamsChk params eps (pushScope Γ) s).2.2
      simp only [h1] at h
      obtain ⟨rfl, rfl, lf, hexp⟩ := finish_inv h
      simp only [binders] at hB
      have L2 : Le s2 s' := (le_popScope _ _).trans lf
      obtain ⟨e0, j0⟩ := bindParamsChk_just (cs := s'.cs) (funs := G.funs) params eps (pushScope Γ) s hB.left hΓ.push
      obtain ⟨e1, j1, _⟩ := ih (some eret) G _ _ tb _ s2 h1 (L2.nodiag hd) B hB.right e0
      refine ⟨e1.pop, ?_, hexp⟩
      simp only [obls]
      exact JL.append (JL.append j0 (j1.mono L2)) (JL.one rfl)
    | none =>
      simp only [hck] at h
      obtain ⟨tb, Γ2, s2, h1, l1⟩ := go_le body none G (bindParamsInf params (pushScope Γ) s).2.1
        (bindParamsInf params (pushScope Γ) s).2.2
      simp only [h1] at h
      obtain ⟨rfl, rfl, lf, hexp⟩ := finish_inv h
      simp only [binders] at hB
      have L2 : Le s2 s' := (le_popScope _ _).trans lf
      obtain ⟨e0, j0⟩ := bindParamsInf_just (cs := s'.cs) (funs := G.funs) params (pushScope Γ) s hB.left hΓ.push
      obtain ⟨e1, j1, _⟩ := ih none G _ _ tb _ s2 h1 (L2.nodiag hd) B hB.right e0
      refine ⟨e1.pop, ?_, hexp⟩
      simp only [obls]
      exact JL.append (JL.append j0 (j1.mono L2)) (JL.one rfl)
  -- let
  · intro i p ann v ih exp G Γ s t Γ' s' h hd B hB hΓ
    cases ann with
    | some a =>
      rw [go] at h
      obtain ⟨tv, Γ1, s1, h1, l1⟩ := go_le v (some a) G Γ s
      simp only [h1] at h
      obtain ⟨rfl, rfl, lf, hexp⟩ := finish_inv h
      simp only [binders] at hB
      have L1 : Le s1 s' := (le_checkPat p a Γ1 s1).trans lf
      obtain ⟨e1, j1, x1⟩ := ih (some a) G Γ s tv Γ1 s1 h1 (L1.nodiag hd) B hB.left hΓ
      obtain ⟨e2, j2⟩ := checkPat_just (B := B) (funs := G.funs) p a Γ1 s1 hB.right e1
      refine ⟨e2, ?_, hexp⟩
      simp only [obls]
      exact JL.append (JL.append (j1.mono L1) (JL.one (Or.inr (L1.mem _ (x1 a rfl))))) (j2.mono lf)
    | none =>
      rw [go] at h
      obtain ⟨tv, Γ1, s1, h1, l1⟩ := go_le v none G Γ s
      simp only [h1] at h
      obtain ⟨rfl, rfl, lf, hexp⟩ := finish_inv h
      simp only [binders] at hB
      have L1 : Le s1 s' := (le_checkPat p tv.ty Γ1 s1).trans lf
      obtain ⟨e1, j1, _⟩ := ih none G Γ s tv Γ1 s1 h1 (L1.nodiag hd) B hB.left hΓ
      obtain ⟨e2, j2⟩ := checkPat_just (B := B) (funs := G.funs) p tv.ty Γ1 s1 hB.right e1
      refine ⟨e2, ?_, hexp⟩
      simp only [obls]
      exact JL.append (JL.append (j1.mono L1) (JL.one (Or.inl rfl))) (j2.mono lf)
  -- block
  · intro i es ih exp G Γ s t Γ' s' h hd B hB hΓ
    rw [go] at h
    split at h
    · obtain ⟨rfl, rfl, lf, hexp⟩ := finish_inv h
      exact ⟨hΓ, by simp only [obls]; exact JL.nil, hexp⟩
    · obtain ⟨ts, Γ1, s1, h1, l1⟩ := (goL_le es).2.2.1 exp G (pushScope Γ) s
      simp only [h1] at h
      obtain ⟨rfl, rfl, lf, hexp⟩ := finish_inv h
      simp only [binders] at hB
      have L1 : Le s1 s' := (le_popScope _ _).trans lf
      obtain ⟨e1, j1⟩ := ih.2.2.1 exp G _ s ts _ s1 h1 (L1.nodiag hd) B hB hΓ.push
      exact ⟨e1.pop, by simp only [obls]; exact JL.append (j1.mono L1) (JL.one rfl), hexp⟩
  -- ite
  · intro i c t e ihc iht ihe exp G Γ s tt0 Γ' s' h hd B hB hΓ
    cases exp with
    | some x =>
      rw [go] at h
      obtain ⟨tc, Γ1, s1, h1, l1⟩ := go_le c (some .bool) G Γ s
      obtain ⟨tt, Γ2, s2, h2, l2⟩ := go_le t (some x) G Γ1 s1
      obtain ⟨te, Γ3, s3, h3, l3⟩ := go_le e (some x) G Γ2 s2
      simp only [h1, h2, h3] at h
      obtain ⟨rfl, rfl, lf, hexp⟩ := finish_inv h
      simp only [binders] at hB
      have L2 : Le s2 s' := l3.trans lf
      have L1 : Le s1 s' := l2.trans L2
      obtain ⟨e1, j1, x1⟩ := ihc (some .bool) G Γ s tc Γ1 s1 h1 (L1.nodiag hd) B hB.left.left hΓ
      obtain ⟨e2, j2, x2⟩ := iht (some x) G Γ1 s1 tt Γ2 s2 h2 (L2.nodiag hd) B hB.left.right e1
      obtain ⟨e3, j3, x3⟩ := ihe (some x) G Γ2 s2 te _ s3 h3 (lf.nodiag hd) B hB.right e2
      refine ⟨e3, ?_, hexp⟩
      simp only [obls]
      exact JL.append (JL.append (JL.append (j1.mono L1) (j2.mono L2)) (j3.mono lf))
        (JL.cons (Or.inr (L1.mem _ (x1 _ rfl))) (JL.cons (Or.inr (L2.mem _ (x2 _ rfl))) (JL.one (Or.inr (lf.mem _ (x3 _ rfl))))))
    | none =>
      rw [go] at h
      obtain ⟨tc, Γ1, s1, h1, l1⟩ := go_le c none G Γ s
      obtain ⟨tt, Γ2, s2, h2, l2⟩ := go_le t none G Γ1 (s1.push (.eq tc.ty .bool))
      obtain ⟨te, Γ3, s3, h3, l3⟩ := go_le e none G Γ2 s2
      simp only [h1, h2, h3] at h
      obtain ⟨rfl, rfl, lf, hexp⟩ := finish_inv h
      simp only [binders] at hB
      have L3 : Le s3 s' := (le_fresh _).trans ((le_push _ _).trans ((le_push _ _).trans lf))
      have L2 : Le s2 s' := l3.trans L3
      have L1' : Le (s1.push (.eq tc.ty .bool)) s' := l2.trans L2
      have L1 : Le s1 s' := (le_push _ _).trans L1'
      obtain ⟨e1, j1, _⟩ := ihc none G Γ s tc Γ1 s1 h1 (L1.nodiag hd) B hB.left.left hΓ
      obtain ⟨e2, j2, _⟩ := iht none G Γ1 _ tt Γ2 s2 h2 (L2.nodiag hd) B hB.left.right e1
      obtain ⟨e3, j3, _⟩ := ihe none G Γ2 s2 te _ s3 h3 (L3.nodiag hd) B hB.right e2
      refine ⟨e3, ?_, hexp⟩
      simp only [obls]
      exact JL.append (JL.append (JL.append (j1.mono L1) (j2.mono L2)) (j3.mono L3))
        (JL.cons (Or.inr (L1'.mem _ (mem_push _ _))) (JL.cons (Or.inr (lf.mem _ (by simp [St.push])))
          (JL.one (Or.inr (lf.mem _ (by simp [St.push]))))))
  -- while
  · intro i c b ihc ihb exp G Γ s t Γ' s' h hd B hB hΓ
    rw [go] at h
    obtain ⟨tc, Γ1, s1, h1, l1⟩ := go_le c none G Γ s
    obtain ⟨tb, Γ2, s2, h2, l2⟩ := go_le b none G Γ1 (s1.push (.eq tc.ty .bool))
    simp only [h1, h2] at h
    obtain ⟨rfl, rfl, lf, hexp⟩ := finish_inv h
    simp only [binders] at hB
    have L2 : Le s2 s' := (le_push _ _).trans lf
    have L1' : Le (s1.push (.eq tc.ty .bool)) s' := l2.trans L2
    have L1 : Le s1 s' := (le_push _ _).trans L1'
    obtain ⟨e1, j1, _⟩ := ihc none G Γ s tc Γ1 s1 h1 (L1.nodiag hd) B hB.left hΓ
    obtain ⟨e2, j2, _⟩ := ihb none G Γ1 _ tb _ s2 h2 (L2.nodiag hd) B hB.right e1
    refine ⟨e2, ?_, hexp⟩
    simp only [obls]
    exact JL.append (JL.append (j1.mono L1) (j2.mono L2))
      (JL.cons (Or.inr (L1'.mem _ (mem_push _ _))) (JL.one (Or.inr (lf.mem _ (mem_push _ _)))))
  -- call
  · intro i f args ihf iha exp G Γ s t Γ' s' h hd B hB hΓ
    rw [go] at h
    cases hk : calleeKind f with
    | loc fi x =>
      simp only [hk] at h
      obtain ⟨ts, Γ1, s1, h1, l1⟩ := (goL_le args).1 G Γ s
      simp only [h1] at h
      cases hl : lookupVar x Γ1 with
      | some vt =>
        simp only [hl] at h
        obtain ⟨rfl, rfl, lf, hexp⟩ := finish_inv h
        simp only [binders] at hB
        have L1 : Le s1 s' := (le_record _ _ _).trans ((le_fresh _).trans ((le_push _ _).trans lf))
        obtain ⟨e1, j1⟩ := iha.1 G Γ s ts _ s1 h1 (L1.nodiag hd) B hB.right hΓ
        refine ⟨e1, ?_, hexp⟩
        simp only [obls]
        exact JL.append (JL.append (JL.one (e1.lookup hl)) (j1.mono L1)) (JL.one (Or.inr (lf.mem _ (mem_push _ _))))
      | none =>
        simp only [hl] at h
        exact absurd_err h hd
    | global fi name unres =>
      simp only [hk] at h
      cases hf : lookupAssoc name G.funs with
      | some fty =>
        simp only [hf] at h
        cases hc : callParamTys (s.inst fty).1 args.length with
        | some ps =>
          simp only [hc] at h
          obtain ⟨ts, Γ1, s1, h1, l1⟩ := (goL_le args).2.1 ps G Γ (s.inst fty).2
          simp only [h1] at h
          obtain ⟨ret, s2, h2, l2⟩ := callRet_total name (tysOf ts) s1
          simp only [h2] at h
          obtain ⟨rfl, rfl, lf, hexp⟩ := finish_inv h
          simp only [binders] at hB
          have L1 : Le s1 s' := l2.trans ((le_push _ _).trans ((le_record _ _ _).trans lf))
          obtain ⟨e1, j1⟩ := iha.2.1 ps G Γ _ ts _ s1 h1 (L1.nodiag hd) B hB.right hΓ
          refine ⟨e1, ?_, hexp⟩
          simp only [obls]
          exact JL.append (JL.append (JL.one ⟨fty, hf, s.σ, rfl⟩) (j1.mono L1))
            (JL.one (Or.inr (lf.mem _ (by simp [St.push, St.record, TExpr.ty]))))
        | none =>
          simp only [hc] at h
          obtain ⟨ts, Γ1, s1, h1, l1⟩ := (goL_le args).1 G Γ (s.inst fty).2
          simp only [h1] at h
          obtain ⟨ret, s2, h2, l2⟩ := callRet_total name (tysOf ts) s1
          simp only [h2] at h
          obtain ⟨rfl, rfl, lf, hexp⟩ := finish_inv h
          simp only [binders] at hB
          have L1 : Le s1 s' := l2.trans ((le_push _ _).trans ((le_record _ _ _).trans lf))
          obtain ⟨e1, j1⟩ := iha.1 G Γ _ ts _ s1 h1 (L1.nodiag hd) B hB.right hΓ
          refine ⟨e1, ?_, hexp⟩
          simp only [obls]
          exact JL.append (JL.append (JL.one ⟨fty, hf, s.σ, rfl⟩) (j1.mono L1))
            (JL.one (Or.inr (lf.mem _ (by simp [St.push, St.record, TExpr.ty]))))
      | none =>
        simp only [hf] at h
        cases unres with
        | true =>
          simp only [if_true] at h
          exact absurd_err h hd
        | false =>
          obtain ⟨ts, Γ1, s1, h1, l1⟩ := (goL_le args).1 G Γ s
          simp only [h1] at h
          exact absurd_err h hd
    | unresPath => simp only [hk] at h; exact absurd_err h hd
    | method => simp only [hk] at h; exact absurd_err h hd
    | other =>
      simp only [hk] at h
      obtain ⟨ts, Γ1, s1, h1, l1⟩ := (goL_le args).1 G Γ s
      obtain ⟨tf, Γ2, s2, h2, l2⟩ := go_le f none G Γ1 s1.fresh.2
      simp only [h1, h2] at h
      obtain ⟨rfl, rfl, lf, hexp⟩ := finish_inv h
      simp only [binders] at hB
      have L2 : Le s2 s' := (le_push _ _).trans lf
      have L1 : Le s1 s' := (le_fresh _).trans (l2.trans L2)
      obtain ⟨e1, j1⟩ := iha.1 G Γ s ts _ s1 h1 (L1.nodiag hd) B hB.right hΓ
      obtain ⟨e2, j2, _⟩ := ihf none G Γ1 _ tf _ s2 h2 (L2.nodiag hd) B hB.left e1
      refine ⟨e2, ?_, hexp⟩
      simp only [obls]
      exact JL.append (JL.append (j2.mono L2) (j1.mono L1)) (JL.one (Or.inr (lf.mem _ (mem_push _ _))))
  -- un
  · intro i op e ih exp G Γ s t Γ' s' h hd B hB hΓ
    rw [go] at h
    cases hn : (if (op == UnOp.neg) = true then numericExp exp else none) with
    | some x =>
      simp only [hn] at h
      obtain ⟨te, Γ1, s1, h1, l1⟩ := go_le e (some x) G Γ s
      simp only [h1] at h
      obtain ⟨rfl, rfl, lf, hexp⟩ := finish_inv h
      simp only [binders] at hB
      obtain ⟨e1, j1, x1⟩ := ih (some x) G Γ s te _ s1 h1 (lf.nodiag hd) B hB hΓ
      refine ⟨e1, ?_, hexp⟩
      cases op with
      | not => simp [show (UnOp.not == UnOp.neg) = false from rfl] at hn
      | neg => simp only [obls]; exact JL.append (j1.mono lf) (JL.one (Or.inr (lf.mem _ (x1 _ rfl))))
    | none =>
      simp only [hn] at h
      obtain ⟨te, Γ1, s1, h1, l1⟩ := go_le e none G Γ s
      simp only [h1] at h
      cases op with
      | not =>
        simp only at h
        obtain ⟨rfl, rfl, lf, hexp⟩ := finish_inv h
        simp only [binders] at hB
        have L1 : Le s1 s' := (le_push _ _).trans lf
        obtain ⟨e1, j1, _⟩ := ih none G Γ s te _ s1 h1 (L1.nodiag hd) B hB hΓ
        refine ⟨e1, ?_, hexp⟩
        simp only [obls]
        exact JL.append (j1.mono L1) (JL.cons (Or.inr (lf.mem _ (mem_push _ _))) (JL.one rfl))
      | neg =>
        simp only at h
        obtain ⟨rfl, rfl, lf, hexp⟩ := finish_inv h
        simp only [binders] at hB
        have L1 : Le s1 s' := (le_push _ _).trans lf
        obtain ⟨e1, j1, _⟩ := ih none G Γ s te _ s1 h1 (L1.nodiag hd) B hB hΓ
        refine ⟨e1, ?_, hexp⟩
        simp only [obls]
        exact JL.append (j1.mono L1) (JL.one (Or.inl rfl))
  -- bin
  · intro i op l r ihl ihr exp G Γ s t Γ' s' h hd B hB hΓ
    rw [go] at h
    cases hn : (if isArith op = true then numericExp exp else none) with
    | some x =>
      simp only [hn] at h
      obtain ⟨tl, Γ1, s1, h1, l1⟩ := go_le l (some x) G Γ s
      obtain ⟨tr, Γ2, s2, h2, l2⟩ := go_le r (some x) G Γ1 s1
      simp only [h1, h2] at h
      obtain ⟨rfl, rfl, lf, hexp⟩ := finish_inv h
      simp only [binders] at hB
      have L1 : Le s1 s' := l2.trans lf
      obtain ⟨e1, j1, x1⟩ := ihl (some x) G Γ s tl Γ1 s1 h1 (L1.nodiag hd) B hB.left hΓ
      obtain ⟨e2, j2, x2⟩ := ihr (some x) G Γ1 s1 tr _ s2 h2 (lf.nodiag hd) B hB.right e1
      refine ⟨e2, ?_, hexp⟩
      have ha : isArith op = true := by
        cases hq : isArith op with
        | true => rfl
        | false => simp [hq] at hn
      simp only [obls, binObls, ha, if_true]
      exact JL.append (JL.append (j1.mono L1) (j2.mono lf))
        (JL.cons (Or.inr (L1.mem _ (x1 _ rfl))) (JL.one (Or.inr (lf.mem _ (x2 _ rfl)))))
    | none =>
      simp only [hn] at h
      obtain ⟨tl, Γ1, s1, h1, l1⟩ := go_le l none G Γ s
      obtain ⟨tr, Γ2, s2, h2, l2⟩ := go_le r none G Γ1 s1
      simp only [h1, h2] at h
      split at h
      · rename_i ha
        obtain ⟨rfl, rfl, lf, hexp⟩ := finish_inv h
        simp only [binders] at hB
        have L2 : Le s2 s' := (le_fresh _).trans ((le_push _ _).trans ((le_push _ _).trans lf))
        have L1 : Le s1 s' := l2.trans L2
        obtain ⟨e1, j1, _⟩ := ihl none G Γ s tl Γ1 s1 h1 (L1.nodiag hd) B hB.left hΓ
        obtain ⟨e2, j2, _⟩ := ihr none G Γ1 s1 tr _ s2 h2 (L2.nodiag hd) B hB.right e1
        refine ⟨e2, ?_, hexp⟩
        simp only [obls, binObls, ha, if_true]
        exact JL.append (JL.append (j1.mono L1) (j2.mono L2))
          (JL.cons (Or.inr (lf.mem _ (by simp [St.push]))) (JL.one (Or.inr (lf.mem _ (by simp [St.push])))))
      · rename_i ha
        split at h
        · rename_i hlg
          obtain ⟨rfl, rfl, lf, hexp⟩ := finish_inv h
          simp only [binders] at hB
          have L2 : Le s2 s' := (le_push _ _).trans ((le_push _ _).trans lf)
          have L1 : Le s1 s' := l2.trans L2
          obtain ⟨e1, j1, _⟩ := ihl none G Γ s tl Γ1 s1 h1 (L1.nodiag hd) B hB.left hΓ
          obtain ⟨e2, j2, _⟩ := ihr none G Γ1 s1 tr _ s2 h2 (L2.nodiag hd) B hB.right e1
          refine ⟨e2, ?_, hexp⟩
          simp only [obls, binObls, ha, hlg, if_true, if_false]
          exact JL.append (JL.append (j1.mono L1) (j2.mono L2))
            (JL.cons (Or.inr (lf.mem _ (by simp [St.push]))) (JL.cons (Or.inr (lf.mem _ (by simp [St.push]))) (JL.one rfl)))
        · rename_i hlg
          obtain ⟨rfl, rfl, lf, hexp⟩ := finish_inv h
          simp only [binders] at hB
          have L2 : Le s2 s' := (le_push _ _).trans lf
          have L1 : Le s1 s' := l2.trans L2
          obtain ⟨e1, j1, _⟩ := ihl none G Γ s tl Γ1 s1 h1 (L1.nodiag hd) B hB.left hΓ
          obtain ⟨e2, j2, _⟩ := ihr none G Γ1 s1 tr _ s2 h2 (L2.nodiag hd) B hB.right e1
          refine ⟨e2, ?_, hexp⟩
          simp only [obls, binObls, ha, hlg, if_false]
          exact JL.append (JL.append (j1.mono L1) (j2.mono L2))
            (JL.cons (Or.inr (lf.mem _ (mem_push _ _))) (JL.one rfl))
  -- proj
  · intro i e idx ih exp G Γ s t Γ' s' h hd B hB hΓ
    rw [go] at h
    obtain ⟨te, Γ1, s1, h1, l1⟩ := go_le e none G Γ s
    simp only [h1] at h
    split at h
    · rename_i tys hty
      split at h
      · rename_i ft hft
        obtain ⟨rfl, rfl, lf, hexp⟩ := finish_inv h
        simp only [binders] at hB
        obtain ⟨e1, j1, _⟩ := ih none G Γ s te _ s1 h1 (lf.nodiag hd) B hB hΓ
        refine ⟨e1, ?_, hexp⟩
        simp only [obls]
        exact JL.append (j1.mono lf) (JL.one ⟨tys, hty, hft⟩)
      · obtain ⟨_, _, lf, _⟩ := finish_inv h
        exact (diag_absurd ((le_fresh _).trans lf) hd).elim
    · obtain ⟨_, _, lf, _⟩ := finish_inv h
      exact (diag_absurd ((le_fresh _).trans lf) hd).elim
  -- field
  · intro i e fld ih exp G Γ s t Γ' s' h hd B hB hΓ
    rw [go] at h
    obtain ⟨te, Γ1, s1, h1, l1⟩ := go_le e none G Γ s
    simp only [h1] at h
    obtain ⟨rfl, rfl, lf, hexp⟩ := finish_inv h
    simp only [binders] at hB
    have L1 : Le s1 s' := (le_fresh _).trans ((le_push _ _).trans lf)
    obtain ⟨e1, j1, _⟩ := ih none G Γ s te _ s1 h1 (L1.nodiag hd) B hB hΓ
    refine ⟨e1, ?_, hexp⟩
    simp only [obls]
    exact JL.append (j1.mono L1) (JL.one (lf.mem _ (mem_push _ _)))
  -- match
  · intro i scrut arms ihs iha exp G Γ s t Γ' s' h hd B hB hΓ
    rw [go] at h
    obtain ⟨tsc, Γ1, s1, h1, l1⟩ := go_le scrut none G Γ s
    simp only [h1] at h
    cases exp with
    | some x =>
      simp only at h
      obtain ⟨tas, Γ2, s2, h2, l2⟩ := goArms_le arms tsc.ty (some x) .unit G Γ1 s1
      simp only [h2] at h
      obtain ⟨rfl, rfl, lf, hexp⟩ := finish_inv h
      simp only [binders] at hB
      have L1 : Le s1 s' := l2.trans lf
      obtain ⟨e1, j1, _⟩ := ihs none G Γ s tsc Γ1 s1 h1 (L1.nodiag hd) B hB.left hΓ
      obtain ⟨e2, j2⟩ := iha tsc.ty (some x) .unit G Γ1 s1 tas _ s2 h2 (lf.nodiag hd) B hB.right e1
      refine ⟨e2, ?_, hexp⟩
      simp only [obls]
      exact JL.append (j1.mono L1) (j2.mono lf)
    | none =>
      simp only at h
      obtain ⟨tas, Γ2, s2, h2, l2⟩ := goArms_le arms tsc.ty none s1.fresh.1 G Γ1 s1.fresh.2
      simp only [h2] at h
      obtain ⟨rfl, rfl, lf, hexp⟩ := finish_inv h
      simp only [binders] at hB
      have L1 : Le s1 s' := (le_fresh _).trans (l2.trans lf)
      obtain ⟨e1, j1, _⟩ := ihs none G Γ s tsc Γ1 s1 h1 (L1.nodiag hd) B hB.left hΓ
      obtain ⟨e2, j2⟩ := iha tsc.ty none s1.fresh.1 G Γ1 _ tas _ s2 h2 (lf.nodiag hd) B hB.right e1
      refine ⟨e2, ?_, hexp⟩
      simp only [obls]
      exact JL.append (j1.mono L1) (j2.mono lf)
  -- mcall, scall, array: outside the theorem for now (ghost flag)
  · intro i fi recv m args _ _ exp G Γ s t Γ' s' h hd B hB hΓ
    obtain ⟨t1, Γ1, s1, h1, l1⟩ := go_le (.mcall i fi recv m args) exp G Γ s.mark
    have e : go (.mcall i fi recv m args) exp G Γ s = go (.mcall i fi recv m args) exp G Γ s.mark := by rw [go, go]; rfl
    rw [e, h1] at h
    simp only [Option.some.injEq, Prod.mk.injEq] at h
    obtain ⟨_, _, rfl⟩ := h
    exact (mark_absurd l1 hd).elim
  · intro i fi tyName m args _ exp G Γ s t Γ' s' h hd B hB hΓ
    obtain ⟨t1, Γ1, s1, h1, l1⟩ := go_le (.scall i fi tyName m args) exp G Γ s.mark
    have e : go (.scall i fi tyName m args) exp G Γ s = go (.scall i fi tyName m args) exp G Γ s.mark := by rw [go, go]; rfl
    rw [e, h1] at h
    simp only [Option.some.injEq, Prod.mk.injEq] at h
    obtain ⟨_, _, rfl⟩ := h
    exact (mark_absurd l1 hd).elim
  -- array
  · intro i items ih exp G Γ s t Γ' s' h hd B hB hΓ
    rw [go] at h
    obtain ⟨ts, Γ1, s1, h1, l1⟩ := (goL_le items).2.2.2.1 s.fresh.1 G Γ s.fresh.2
    simp only [h1] at h
    obtain ⟨rfl, rfl, lf, hexp⟩ := finish_inv h
    simp only [binders] at hB
    obtain ⟨e1, j1⟩ := ih.2.2.2.1 s.fresh.1 G Γ _ ts _ s1 h1 (lf.nodiag hd) B hB hΓ
    refine ⟨e1, ?_, hexp⟩
    simp only [obls, arrObls]
    exact j1.mono lf
  -- constr
  · intro i info args ih exp G Γ s t Γ' s' h hd B hB hΓ
    rcases info with _ | _ | ⟨cty, arity⟩
    · rw [go] at h; exact absurd_err h hd
    · rw [go] at h; exact absurd_err h hd
    · rw [go] at h
      dsimp only at h
      split at h
      · exact absurd_err h hd
      · cases hps : (ctorParams (s.inst cty).1).isEmpty with
        | true =>
          obtain ⟨ts, Γ1, s1, h1, l1⟩ := (goL_le args).1 G Γ (s.inst cty).2
          simp only [hps, if_true, h1] at h
          obtain ⟨rfl, rfl, lf, hexp⟩ := finish_inv h
          simp only [binders] at hB
          have L1 : Le s1 s' := (le_push _ _).trans lf
          obtain ⟨e1, j1⟩ := ih.1 G Γ _ ts _ s1 h1 (L1.nodiag hd) B hB hΓ
          refine ⟨e1, ?_, hexp⟩
          simp only [obls]
          refine JL.append (j1.mono L1) (JL.one ?_)
          cases hts : ts.isEmpty <;> simp only [hts, if_true, Bool.false_eq_true, if_false] <;>
            exact Or.inr (lf.mem _ (by simp [St.push, hts]))
        | false =>
          obtain ⟨ts, Γ1, s1, h1, l1⟩ := (goL_le args).2.1 (ctorParams (s.inst cty).1) G Γ (s.inst cty).2
          simp only [hps, Bool.false_eq_true, if_false, h1] at h
          obtain ⟨rfl, rfl, lf, hexp⟩ := finish_inv h
          simp only [binders] at hB
          have L1 : Le s1 s' := (le_push _ _).trans lf
          obtain ⟨e1, j1⟩ := ih.2.1 _ G Γ _ ts _ s1 h1 (L1.nodiag hd) B hB hΓ
          refine ⟨e1, ?_, hexp⟩
          simp only [obls]
          refine JL.append (j1.mono L1) (JL.one ?_)
          cases hts : ts.isEmpty <;> simp only [hts, if_true, Bool.false_eq_true, if_false] <;>
            exact Or.inr (lf.mem _ (by simp [St.push, hts]))
  -- slit
  · intro i info idxs args ih exp G Γ s t Γ' s' h hd B hB hΓ
    cases info with
    | none => rw [go] at h; exact absurd_err h hd
    | some pr =>
      obtain ⟨cty, nf⟩ := pr
      rw [go] at h
      dsimp only at h
      obtain ⟨ts, Γ1, s1, h1, l1⟩ := (goL_le args).2.2.2.2.2.2 idxs (ctorParams (s.inst cty).1) G Γ (s.inst cty).2
      simp only [h1] at h
      obtain ⟨rfl, rfl, lf, hexp⟩ := finish_inv h
      cases hz : zipOk nf idxs ts with
      | false =>
        simp only [hz, Bool.false_eq_true, if_false] at lf
        exact (mark_absurd ((le_push _ _).trans lf) hd).elim
      | true =>
        simp only [hz, if_true] at lf
        simp only [binders] at hB
        have L1 : Le s1 s' := (le_push _ _).trans lf
        have hBts : BIn B (bindersL ts) := by
          intro p hp
          obtain ⟨t, ht, hpt⟩ := (mem_bindersL ts p).1 hp
          exact hB p ((mem_bindersL _ p).2 ⟨t, reorder_sup hz ht, hpt⟩)
        obtain ⟨e1, j1⟩ := ih.2.2.2.2 idxs _ G Γ _ ts _ s1 h1 (L1.nodiag hd) B hBts hΓ
        refine ⟨e1, ?_, hexp⟩
        simp only [obls]
        refine JL.append ?_ (JL.one ?_)
        · intro o ho
          obtain ⟨t, ht, hot⟩ := (mem_oblsL _ o).1 ho
          rcases reorder_sub ht with h | h
          · exact (j1.mono L1) o ((mem_oblsL ts o).2 ⟨t, h, hot⟩)
          · subst h; simp [obls] at hot
        · cases hts : (reorder nf idxs ts).isEmpty <;> simp only [hts, if_true, Bool.false_eq_true, if_false] <;>
            exact Or.inr (lf.mem _ (by simp [St.push, hts]))
  -- arm
  · intro p body ih; exact ih
  -- []
  · refine ⟨?_, ?_, ?_, ?_, ?_⟩
    · intro G Γ s ts Γ' s' h hd B hB hΓ
      rw [goL] at h
      simp only [Option.some.injEq, Prod.mk.injEq] at h
      obtain ⟨rfl, rfl, rfl⟩ := h
      exact ⟨hΓ, by simp only [oblsL]; exact JL.nil⟩
    · intro xs G Γ s ts Γ' s' h hd B hB hΓ
      simp only [goZip, Option.some.injEq, Prod.mk.injEq] at h
      obtain ⟨rfl, rfl, rfl⟩ := h
      exact ⟨hΓ, by simp only [oblsL]; exact JL.nil⟩
    · intro exp G Γ s ts Γ' s' h hd B hB hΓ
      rw [goBlock] at h
      simp only [Option.some.injEq, Prod.mk.injEq] at h
      obtain ⟨rfl, rfl, rfl⟩ := h
      exact ⟨hΓ, by simp only [oblsL]; exact JL.nil⟩
    · intro el G Γ s ts Γ' s' h hd B hB hΓ
      rw [goArr] at h
      simp only [Option.some.injEq, Prod.mk.injEq] at h
      obtain ⟨rfl, rfl, rfl⟩ := h
      exact ⟨hΓ, by simp only [oblsL, relAll]; exact JL.nil⟩
    · intro ks ps G Γ s ts Γ' s' h hd B hB hΓ
      simp only [goIdx, Option.some.injEq, Prod.mk.injEq] at h
      obtain ⟨rfl, rfl, rfl⟩ := h
      exact ⟨hΓ, by simp only [oblsL]; exact JL.nil⟩
  -- e :: es
  · intro e es ihe ihes
    refine ⟨?_, ?_, ?_, ?_, ?_⟩
    · intro G Γ s ts Γ' s' h hd B hB hΓ
      rw [goL] at h
      obtain ⟨t, Γ1, s1, h1, l1⟩ := go_le e none G Γ s
      obtain ⟨ts2, Γ2, s2, h2, l2⟩ := (goL_le es).1 G Γ1 s1
      simp only [h1, h2, Option.some.injEq, Prod.mk.injEq] at h
      obtain ⟨rfl, rfl, rfl⟩ := h
      simp only [bindersL] at hB
      obtain ⟨e1, j1, _⟩ := ihe none G Γ s t Γ1 s1 h1 (l2.nodiag hd) B hB.left hΓ
      obtain ⟨e2, j2⟩ := ihes.1 G Γ1 s1 ts2 _ _ h2 hd B hB.right e1
      exact ⟨e2, by simp only [oblsL]; exact JL.append (j1.mono l2) j2⟩
    · intro xs G Γ s ts Γ' s' h hd B hB hΓ
      cases xs with
      | nil =>
        simp only [goZip, Option.some.injEq, Prod.mk.injEq] at h
        obtain ⟨rfl, rfl, rfl⟩ := h
        exact ⟨hΓ, by simp only [oblsL]; exact JL.nil⟩
      | cons x xs =>
        simp only [goZip] at h
        obtain ⟨t, Γ1, s1, h1, l1⟩ := go_le e (some x) G Γ s
        obtain ⟨ts2, Γ2, s2, h2, l2⟩ := (goL_le es).2.1 xs G Γ1 s1
        simp only [h1, h2, Option.some.injEq, Prod.mk.injEq] at h
        obtain ⟨rfl, rfl, rfl⟩ := h
        simp only [bindersL] at hB
        obtain ⟨e1, j1, _⟩ := ihe (some x) G Γ s t Γ1 s1 h1 (l2.nodiag hd) B hB.left hΓ
        obtain ⟨e2, j2⟩ := ihes.2.1 xs G Γ1 s1 ts2 _ _ h2 hd B hB.right e1
        exact ⟨e2, by simp only [oblsL]; exact JL.append (j1.mono l2) j2⟩
    · intro exp G Γ s ts Γ' s' h hd B hB hΓ
      rw [goBlock] at h
      obtain ⟨t, Γ1, s1, h1, l1⟩ := go_le e (if es.isEmpty then exp else none) G Γ s
      obtain ⟨ts2, Γ2, s2, h2, l2⟩ := (goL_le es).2.2.1 exp G Γ1 s1
      simp only [h1, h2, Option.some.injEq, Prod.mk.injEq] at h
      obtain ⟨rfl, rfl, rfl⟩ := h
      simp only [bindersL] at hB
      obtain ⟨e1, j1, _⟩ := ihe _ G Γ s t Γ1 s1 h1 (l2.nodiag hd) B hB.left hΓ
      obtain ⟨e2, j2⟩ := ihes.2.2.1 exp G Γ1 s1 ts2 _ _ h2 hd B hB.right e1
      exact ⟨e2, by simp only [oblsL]; exact JL.append (j1.mono l2) j2⟩
    · intro el G Γ s ts Γ' s' h hd B hB hΓ
      rw [goArr] at h
      obtain ⟨t, Γ1, s1, h1, l1⟩ := go_le e none G Γ s
      obtain ⟨ts2, Γ2, s2, h2, l2⟩ := (goL_le es).2.2.2.1 el G Γ1 (s1.push (.eq t.ty el))
      simp only [h1, h2, Option.some.injEq, Prod.mk.injEq] at h
      obtain ⟨rfl, rfl, rfl⟩ := h
      simp only [bindersL] at hB
      have L1 : Le s1 s2 := (le_push _ _).trans l2
      obtain ⟨e1, j1, _⟩ := ihe none G Γ s t Γ1 s1 h1 (L1.nodiag hd) B hB.left hΓ
      obtain ⟨e2, j2⟩ := ihes.2.2.2.1 el G Γ1 _ ts2 _ _ h2 hd B hB.right e1
      refine ⟨e2, ?_⟩
      simp only [oblsL, relAll]
      intro o ho
      rcases List.mem_append.1 ho with ho | ho
      · rcases List.mem_append.1 ho with ho | ho
        · exact (j1.mono L1) o ho
        · exact j2 o (List.mem_append_left _ ho)
      · rcases List.mem_cons.1 ho with ho | ho
        · rw [ho]; exact Or.inr (l2.mem _ (mem_push _ _))
        · exact j2 o (List.mem_append_right _ ho)
    · intro ks ps G Γ s ts Γ' s' h hd B hB hΓ
      cases ks with
      | nil =>
        simp only [goIdx, Option.some.injEq, Prod.mk.injEq] at h
        obtain ⟨rfl, rfl, rfl⟩ := h
        exact ⟨hΓ, by simp only [oblsL]; exact JL.nil⟩
      | cons k ks =>
        simp only [goIdx] at h
        obtain ⟨t, Γ1, s1, h1, l1⟩ := go_le e ps[k]? G Γ s
        obtain ⟨ts2, Γ2, s2, h2, l2⟩ := (goL_le es).2.2.2.2.2.2 ks ps G Γ1 s1
        simp only [h1, h2, Option.some.injEq, Prod.mk.injEq] at h
        obtain ⟨rfl, rfl, rfl⟩ := h
        simp only [bindersL] at hB
        obtain ⟨e1, j1, _⟩ := ihe _ G Γ s t Γ1 s1 h1 (l2.nodiag hd) B hB.left hΓ
        obtain ⟨e2, j2⟩ := ihes.2.2.2.2 ks ps G Γ1 s1 ts2 _ _ h2 hd B hB.right e1
        exact ⟨e2, by simp only [oblsL]; exact JL.append (j1.mono l2) j2⟩
  -- [] arms
  · intro sty exp armTy G Γ s tas Γ' s' h hd B hB hΓ
    rw [goArms] at h
    simp only [Option.some.injEq, Prod.mk.injEq] at h
    obtain ⟨rfl, rfl, rfl⟩ := h
    exact ⟨hΓ, by simp only [oblsA]; exact JL.nil⟩
  -- arm :: arms
  · intro a arms iha ihas sty exp armTy G Γ s tas Γ' s' h hd B hB hΓ
    cases a with
    | mk p body =>
      have iha' : Just1 body := iha
      cases exp with
      | some x =>
        rw [goArms] at h
        obtain ⟨tb, Γ1, s1, h1, l1⟩ := go_le body (some x) G (checkPat p sty (pushScope Γ) s).2.1 (checkPat p sty (pushScope Γ) s).2.2
        obtain ⟨tas2, Γ2, s3, h3, l3⟩ := goArms_le arms sty (some x) armTy G (popScope Γ1 s1).1 (popScope Γ1 s1).2
        simp only [h1, h3, Option.some.injEq, Prod.mk.injEq] at h
        obtain ⟨rfl, rfl, rfl⟩ := h
        simp only [bindersA] at hB
        have L1 : Le s1 s3 := (le_popScope _ _).trans l3
        have L0 : Le (checkPat p sty (pushScope Γ) s).2.2 s3 := l1.trans L1
        obtain ⟨e0, j0⟩ := checkPat_just (B := B) (funs := G.funs) p sty (pushScope Γ) s hB.left.left hΓ.push
        obtain ⟨e1, j1, x1⟩ := iha' (some x) G _ _ tb Γ1 s1 h1 (L1.nodiag hd) B hB.left.right e0
        obtain ⟨e2, j2⟩ := ihas sty (some x) armTy G _ _ tas2 _ _ h3 hd B hB.right e1.pop
        refine ⟨e2, ?_⟩
        simp only [oblsA, Option.getD] at j2 ⊢
        exact JL.append (JL.append (JL.append (j0.mono L0) (j1.mono L1)) (JL.one (Or.inr (L1.mem _ (x1 _ rfl))))) j2
      | none =>
        rw [goArms] at h
        obtain ⟨tb, Γ1, s1, h1, l1⟩ := go_le body none G (checkPat p sty (pushScope Γ) s).2.1 (checkPat p sty (pushScope Γ) s).2.2
        obtain ⟨tas2, Γ2, s3, h3, l3⟩ := goArms_le arms sty none armTy G (popScope Γ1 s1).1 ((popScope Γ1 s1).2.push (.eq tb.ty armTy))
        simp only [h1, h3, Option.some.injEq, Prod.mk.injEq] at h
        obtain ⟨rfl, rfl, rfl⟩ := h
        simp only [bindersA] at hB
        have L1 : Le s1 s3 := (le_popScope _ _).trans ((le_push _ _).trans l3)
        have L0 : Le (checkPat p sty (pushScope Γ) s).2.2 s3 := l1.trans L1
        obtain ⟨e0, j0⟩ := checkPat_just (B := B) (funs := G.funs) p sty (pushScope Γ) s hB.left.left hΓ.push
        obtain ⟨e1, j1, _⟩ := iha' none G _ _ tb Γ1 s1 h1 (L1.nodiag hd) B hB.left.right e0
        obtain ⟨e2, j2⟩ := ihas sty none armTy G _ _ tas2 _ _ h3 hd B hB.right e1.pop
        refine ⟨e2, ?_⟩
        simp only [oblsA, Option.getD] at j2 ⊢
        exact JL.append (JL.append (JL.append (j0.mono L0) (j1.mono L1)) (JL.one (Or.inr (l3.mem _ (mem_push _ _))))) j2

theorem envAll_params {B} : ∀ (ps : List (Nat × Ty)) Γ, BIn B ps → EnvAll B Γ → EnvAll B (insertParams ps Γ)
  | [], _, _, h => h
  | (x, t) :: ps, Γ, hB, h => by
    simp only [insertParams]
    exact envAll_params ps _ (fun p hp => hB p (List.mem_cons_of_mem _ hp)) (h.insert (hB (x, t) List.mem_cons_self))

end Goml.Infer
