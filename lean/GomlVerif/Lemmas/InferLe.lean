import GomlVerif.Model.Infer
import GomlVerif.Props.Solve
/-!
Helper lemmas for `Props/Infer.lean`: constraint generation is total (never `none`) and only EXTENDS the
state — the union-find store keeps `rep` / `val` (only keys are created), the queue and the diagnostics
grow at the end.
-/
namespace Goml.Infer
open Goml Goml.Unify

/-- `s'` extends `s` -/
structure Le (s s' : St) : Prop where
  rep : s'.σ.rep = s.σ.rep
  val : s'.σ.val = s.σ.val
  cs : ∃ new, s'.cs = s.cs ++ new
  diags : ∃ more, s'.diags = s.diags ++ more
  out : s.outside = true → s'.outside = true

theorem Le.refl (s : St) : Le s s := ⟨rfl, rfl, ⟨[], by simp⟩, ⟨[], by simp⟩, id⟩

theorem Le.trans {a b c : St} (h1 : Le a b) (h2 : Le b c) : Le a c := by
  obtain ⟨n1, e1⟩ := h1.cs; obtain ⟨n2, e2⟩ := h2.cs
  obtain ⟨m1, d1⟩ := h1.diags; obtain ⟨m2, d2⟩ := h2.diags
  exact ⟨h2.rep.trans h1.rep, h2.val.trans h1.val, ⟨n1 ++ n2, by rw [e2, e1, List.append_assoc]⟩,
    ⟨m1 ++ m2, by rw [d2, d1, List.append_assoc]⟩, fun h => h2.out (h1.out h)⟩

theorem le_push (s : St) (c : Constraint) : Le s (s.push c) := ⟨rfl, rfl, ⟨[c], rfl⟩, ⟨[], by simp [St.push]⟩, id⟩
theorem le_diag (s : St) (d : IDiag) : Le s (s.diag d) := ⟨rfl, rfl, ⟨[], by simp [St.diag]⟩, ⟨[d], rfl⟩, id⟩
theorem le_record (s : St) (i : Nat) (t : Ty) : Le s (s.record i t) :=
  ⟨rfl, rfl, ⟨[], by simp [St.record]⟩, ⟨[], by simp [St.record]⟩, id⟩
theorem le_mark (s : St) : Le s s.mark := ⟨rfl, rfl, ⟨[], by simp [St.mark]⟩, ⟨[], by simp [St.mark]⟩, fun _ => rfl⟩
theorem le_fresh (s : St) : Le s s.fresh.2 := ⟨rfl, rfl, ⟨[], by simp [St.fresh]⟩, ⟨[], by simp [St.fresh]⟩, id⟩
theorem le_inst (s : St) (t : Ty) : Le s (s.inst t).2 :=
  ⟨(instTy_same s.σ [] t).1, (instTy_same s.σ [] t).2, ⟨[], by simp [St.inst]⟩, ⟨[], by simp [St.inst]⟩, id⟩
theorem le_errExpr (s : St) : Le s (errExpr s).2 := le_fresh s

theorem le_popScope (Γ : Scopes) (s : St) : Le s (popScope Γ s).2 := by
  unfold popScope; split
  · exact le_diag _ _
  · exact Le.refl _

theorem le_ite_diag (s0 : St) (b : Bool) (d : IDiag) : Le s0 (if b = true then s0.diag d else s0) := by
  cases b with
  | false => exact Le.refl _
  | true => exact le_diag _ _

theorem le_ite_record (s0 : St) (b : Bool) (i : Nat) (t : Ty) : Le s0 (if b = true then s0.record i t else s0) := by
  cases b with
  | false => exact Le.refl _
  | true => exact le_record _ _ _

theorem finish_le (i exp v t Γ) (s : St) : ∃ s', finish i exp v t Γ s = some (t, Γ, s') ∧ Le s s' := by
  unfold finish
  cases exp with
  | none => exact ⟨_, rfl, le_ite_record _ _ _ _⟩
  | some x =>
    exact ⟨_, rfl, (le_ite_record _ _ _ _).trans ((le_ite_diag _ _ _).trans ((le_push _ _).trans (le_record _ _ _)))⟩

theorem le_freshN : ∀ n (s : St), Le s (freshN n s).2
  | 0, s => Le.refl s
  | n + 1, s => by
    simp only [freshN]
    exact (le_fresh s).trans (le_freshN n _)

theorem le_tupleElemTys (n ty) (s : St) : Le s (tupleElemTys n ty s).2 := by
  unfold tupleElemTys
  split
  · split
    · exact Le.refl _
    · exact le_freshN _ _
  · exact le_freshN _ _

theorem le_checkPat : ∀ (p : IPat) ty Γ (s : St), Le s (checkPat p ty Γ s).2.2 := by
  intro p
  apply IPat.rec (motive_1 := fun p => ∀ ty Γ (s : St), Le s (checkPat p ty Γ s).2.2)
    (motive_2 := fun ps => ∀ tys Γ (s : St), Le s (checkPatZip ps tys Γ s).2.2)
  · intro x ty Γ s; rw [checkPat]; exact Le.refl _
  · intro ty Γ s; rw [checkPat]; exact (le_fresh s).trans (le_push _ _)
  · intro ty Γ s; rw [checkPat]; exact le_push _ _
  · intro ty Γ s; rw [checkPat]; exact le_push _ _
  · intro ty Γ s; rw [checkPat]; exact le_push _ _
  · intro ty Γ s; rw [checkPat]; exact le_push _ _
  · intro k ty Γ s; rw [checkPat]; exact le_push _ _
  · intro info args ih ty Γ s
    rcases info with _ | _ | ⟨cty, arity⟩
    · simp only [checkPat]
      exact (le_diag _ _).trans ((le_fresh _).trans (le_push _ _))
    · simp only [checkPat]
      exact (le_diag _ _).trans ((le_fresh _).trans (le_push _ _))
    · simp only [checkPat]
      split
      · exact (le_diag _ _).trans ((le_fresh _).trans (le_push _ _))
      · exact (le_inst _ _).trans ((ih _ _ _).trans (le_push _ _))
  · intro ps ih ty Γ s; rw [checkPat]
    exact (le_tupleElemTys _ _ _).trans ((ih _ _ _).trans (le_push _ _))
  · intro tys Γ s; simp only [checkPatZip]; exact Le.refl _
  · intro p ps ihp ihps tys Γ s
    cases tys with
    | nil => simp only [checkPatZip]; exact Le.refl _
    | cons t ts => simp only [checkPatZip]; exact (ihp _ _ _).trans (ihps _ _ _)

theorem le_bindParamsInf : ∀ ps Γ (s : St), Le s (bindParamsInf ps Γ s).2.2
  | [], Γ, s => by simp only [bindParamsInf]; exact Le.refl _
  | (x, ann) :: ps, Γ, s => by
    simp only [bindParamsInf]
    cases ann with
    | none => exact (le_fresh s).trans (le_bindParamsInf ps _ _)
    | some a => exact le_bindParamsInf ps _ _

theorem le_bindParamsChk : ∀ ps eps Γ (s : St), Le s (bindParamsChk ps eps Γ s).2.2
  | [], eps, Γ, s => by simp only [bindParamsChk]; exact Le.refl _
  | (x, ann) :: ps, [], Γ, s => by simp only [bindParamsChk]; exact Le.refl _
  | (x, ann) :: ps, ep :: eps, Γ, s => by
    simp only [bindParamsChk]
    cases ann with
    | none => exact le_bindParamsChk ps eps _ _
    | some a => exact (le_push s _).trans (le_bindParamsChk ps eps _ _)

theorem le_nameRef (r G Γ) (s : St) : Le s (nameRef r G Γ s).2 := by
  unfold nameRef
  split
  · split
    · exact Le.refl _
    · exact (le_diag _ _).trans (le_errExpr _)
  · split
    · exact le_inst _ _
    · exact (le_diag _ _).trans (le_errExpr _)
  · exact (le_diag _ _).trans (le_errExpr _)
  · split
    · exact le_inst _ _
    · exact (le_diag _ _).trans (le_errExpr _)
  · exact (le_diag _ _).trans (le_errExpr _)

/-- `args_tast[0]` is only evaluated under the guard `args_tast.len() == 3` -/
theorem callRet_total (name : String) (tys : List Ty) (s : St) : ∃ ret s', callRet name tys s = some (ret, s') ∧ Le s s' := by
  unfold callRet
  split
  · split
    · exact ⟨_, _, rfl, Le.refl _⟩
    · exact ⟨_, _, rfl, le_fresh _⟩
  · split
    · rename_i h
      cases tys with
      | nil => simp at h
      | cons t ts => exact ⟨_, _, rfl, Le.refl _⟩
    · exact ⟨_, _, rfl, le_fresh _⟩

end Goml.Infer
