import GomlVerif.Lemmas.InferLe
/-!
`go_le`: the model of `infer_expr` / `check_expr` always returns (no `Vec` index out of range, no
`len - 1` on an empty vector) and the state it returns extends the one it was given.
-/
namespace Goml.Infer
open Goml Goml.Unify

theorem finish_tot {s sx : St} (L : Le s sx) (i exp v T Γx) :
    ∃ t Γ' s', finish i exp v T Γx sx = some (t, Γ', s') ∧ Le s s' := by
  obtain ⟨s', h, l⟩ := finish_le i exp v T Γx sx
  exact ⟨_, _, s', h, L.trans l⟩

theorem le_to_err {s X : St} {d} (h : Le s X) : Le s (errExpr (X.diag d)).2 := h.trans ((le_diag _ _).trans (le_errExpr _))
theorem le_to_push {s X : St} {c} (h : Le s X) : Le s (X.push c) := h.trans (le_push _ _)
theorem le_to_record {s X : St} {i t} (h : Le s X) : Le s (X.record i t) := h.trans (le_record _ _ _)
theorem le_to_fresh {s X : St} (h : Le s X) : Le s X.fresh.2 := h.trans (le_fresh _)
theorem le_to_inst {s X : St} {t} (h : Le s X) : Le s (X.inst t).2 := h.trans (le_inst _ _)
theorem le_to_mark {s X : St} (h : Le s X) : Le s X.mark := h.trans (le_mark _)
theorem le_to_diag {s X : St} {d} (h : Le s X) : Le s (X.diag d) := h.trans (le_diag _ _)

macro "le_auto" : tactic => `(tactic| repeat' (first | assumption | exact Le.refl _ | apply le_to_err | apply le_to_push | apply le_to_record | apply le_to_fresh | apply le_to_inst | apply le_to_mark | apply le_to_diag))

def IArm.body : IArm → IExpr
  | .mk _ b => b

def Tot1 (e : IExpr) : Prop := ∀ exp G Γ s, ∃ t Γ' s', go e exp G Γ s = some (t, Γ', s') ∧ Le s s'
def TotL (es : List IExpr) : Prop :=
  (∀ G Γ s, ∃ ts Γ' s', goL es G Γ s = some (ts, Γ', s') ∧ Le s s') ∧
  (∀ xs G Γ s, ∃ ts Γ' s', goZip es xs G Γ s = some (ts, Γ', s') ∧ Le s s') ∧
  (∀ exp G Γ s, ∃ ts Γ' s', goBlock es exp G Γ s = some (ts, Γ', s') ∧ Le s s') ∧
  (∀ el G Γ s, ∃ ts Γ' s', goArr es el G Γ s = some (ts, Γ', s') ∧ Le s s') ∧
  (∀ G Γ s, ∃ ts Γ' s', goHead es G Γ s = some (ts, Γ', s') ∧ Le s s') ∧
  (∀ xs G Γ s, ∃ ts Γ' s', goZipTail es xs G Γ s = some (ts, Γ', s') ∧ Le s s') ∧
  (∀ ks ps G Γ s, ∃ ts Γ' s', goIdx es ks ps G Γ s = some (ts, Γ', s') ∧ Le s s')
def TotA (arms : List IArm) : Prop :=
  ∀ sty exp armTy G Γ s, ∃ tas Γ' s', goArms arms sty exp armTy G Γ s = some (tas, Γ', s') ∧ Le s s'

theorem go_le : ∀ e, Tot1 e := by
  apply IExpr.rec (motive_1 := Tot1) (motive_2 := fun a => Tot1 a.body) (motive_3 := TotL) (motive_4 := TotA)
  -- lit
  · intro i ty exp G Γ s; rw [go]; exact finish_tot (Le.refl _) _ _ _ _ _
  -- name
  · intro i r exp G Γ s; rw [go]; exact finish_tot (le_nameRef _ _ _ _) _ _ _ _ _
  -- tuple
  · intro i items ih exp G Γ s
    rw [go]
    cases hck : tupleCheckTys exp items.length with
    | some tys =>
      obtain ⟨ts, Γ', s', h, l⟩ := ih.2.1 tys G Γ s
      simp only [h]
      exact finish_tot l _ _ _ _ _
    | none =>
      obtain ⟨ts, Γ', s', h, l⟩ := ih.1 G Γ s
      simp only [h]
      exact finish_tot l _ _ _ _ _
  -- closure
  · intro i params body ih exp G Γ s
    rw [go]
    cases hck : closureCheck exp params.length with
    | some pr =>
      obtain ⟨eps, eret⟩ := pr
      obtain ⟨tb, Γ2, s2, h, l⟩ := ih (some eret) G (bindParamsChk params eps (pushScope Γ) s).2.1
        (bindParamsChk params eps (pushScope Γ) s).2.2
      simp only [h]
      exact finish_tot ((le_bindParamsChk _ _ _ _).trans (l.trans (le_popScope _ _))) _ _ _ _ _
    | none =>
      obtain ⟨tb, Γ2, s2, h, l⟩ := ih none G (bindParamsInf params (pushScope Γ) s).2.1
        (bindParamsInf params (pushScope Γ) s).2.2
      simp only [h]
      exact finish_tot ((le_bindParamsInf _ _ _).trans (l.trans (le_popScope _ _))) _ _ _ _ _
  -- let
  · intro i p ann v ih exp G Γ s
    cases ann with
    | some a =>
      rw [go]
      obtain ⟨tv, Γ1, s1, h, l⟩ := ih (some a) G Γ s
      simp only [h]
      exact finish_tot (l.trans (le_checkPat _ _ _ _)) _ _ _ _ _
    | none =>
      rw [go]
      obtain ⟨tv, Γ1, s1, h, l⟩ := ih none G Γ s
      simp only [h]
      exact finish_tot (l.trans (le_checkPat _ _ _ _)) _ _ _ _ _
  -- block
  · intro i es ih exp G Γ s
    rw [go]
    split
    · exact finish_tot (Le.refl _) _ _ _ _ _
    · obtain ⟨ts, Γ1, s1, h, l⟩ := ih.2.2.1 exp G (pushScope Γ) s
      simp only [h]
      exact finish_tot (l.trans (le_popScope _ _)) _ _ _ _ _
  -- ite
  · intro i c t e ihc iht ihe exp G Γ s
    cases exp with
    | some x =>
      rw [go]
      obtain ⟨tc, Γ1, s1, h1, l1⟩ := ihc (some .bool) G Γ s
      obtain ⟨tt, Γ2, s2, h2, l2⟩ := iht (some x) G Γ1 s1
      obtain ⟨te, Γ3, s3, h3, l3⟩ := ihe (some x) G Γ2 s2
      simp only [h1, h2, h3]
      exact finish_tot (l1.trans (l2.trans l3)) _ _ _ _ _
    | none =>
      rw [go]
      obtain ⟨tc, Γ1, s1, h1, l1⟩ := ihc none G Γ s
      obtain ⟨tt, Γ2, s2, h2, l2⟩ := iht none G Γ1 (s1.push (.eq tc.ty .bool))
      obtain ⟨te, Γ3, s3, h3, l3⟩ := ihe none G Γ2 s2
      simp only [h1, h2, h3]
      exact finish_tot (l1.trans ((le_push _ _).trans (l2.trans (l3.trans
        ((le_fresh _).trans ((le_push _ _).trans (le_push _ _))))))) _ _ _ _ _
  -- while
  · intro i c b ihc ihb exp G Γ s
    rw [go]
    obtain ⟨tc, Γ1, s1, h1, l1⟩ := ihc none G Γ s
    obtain ⟨tb, Γ2, s2, h2, l2⟩ := ihb none G Γ1 (s1.push (.eq tc.ty .bool))
    simp only [h1, h2]
    exact finish_tot (l1.trans ((le_push _ _).trans (l2.trans (le_push _ _)))) _ _ _ _ _
  -- call
  · intro i f args ihf iha exp G Γ s
    rw [go]
    cases hk : calleeKind f with
    | loc fi x =>
      obtain ⟨ts, Γ1, s1, h1, l1⟩ := iha.1 G Γ s
      simp only [h1]
      cases hl : lookupVar x Γ1 with
      | some vt =>
        dsimp only
        exact finish_tot (l1.trans ((le_record _ _ _).trans ((le_fresh _).trans (le_push _ _)))) _ _ _ _ _
      | none =>
        dsimp only
        exact finish_tot (l1.trans ((le_diag _ _).trans (le_errExpr _))) _ _ _ _ _
    | global fi name unres =>
      dsimp only
      cases hf : lookupAssoc name G.funs with
      | some fty =>
        dsimp only
        cases hc : callParamTys (s.inst fty).1 args.length with
        | some ps =>
          obtain ⟨ts, Γ1, s1, h1, l1⟩ := iha.2.1 ps G Γ (s.inst fty).2
          simp only [h1]
          obtain ⟨ret, s2, h2, l2⟩ := callRet_total name (tysOf ts) s1
          simp only [h2]
          exact finish_tot ((le_inst _ _).trans (l1.trans (l2.trans ((le_push _ _).trans (le_record _ _ _))))) _ _ _ _ _
        | none =>
          obtain ⟨ts, Γ1, s1, h1, l1⟩ := iha.1 G Γ (s.inst fty).2
          simp only [h1]
          obtain ⟨ret, s2, h2, l2⟩ := callRet_total name (tysOf ts) s1
          simp only [h2]
          exact finish_tot ((le_inst _ _).trans (l1.trans (l2.trans ((le_push _ _).trans (le_record _ _ _))))) _ _ _ _ _
      | none =>
        dsimp only
        cases unres with
        | true =>
          simp only [if_true]
          exact finish_tot ((le_diag _ _).trans (le_errExpr _)) _ _ _ _ _
        | false =>
          obtain ⟨ts, Γ1, s1, h1, l1⟩ := iha.1 G Γ s
          simp only [h1]
          exact finish_tot (l1.trans ((le_diag _ _).trans (le_errExpr _))) _ _ _ _ _
    | unresPath => dsimp only; exact finish_tot ((le_diag _ _).trans (le_errExpr _)) _ _ _ _ _
    | method => dsimp only; exact finish_tot ((le_diag _ _).trans (le_errExpr _)) _ _ _ _ _
    | other =>
      obtain ⟨ts, Γ1, s1, h1, l1⟩ := iha.1 G Γ s
      obtain ⟨tf, Γ2, s2, h2, l2⟩ := ihf none G Γ1 s1.fresh.2
      simp only [h1, h2]
      exact finish_tot (l1.trans ((le_fresh _).trans (l2.trans (le_push _ _)))) _ _ _ _ _
  -- un
  · intro i op e ih exp G Γ s
    rw [go]
    cases hn : (if (op == UnOp.neg) = true then numericExp exp else none) with
    | some x =>
      obtain ⟨te, Γ1, s1, h1, l1⟩ := ih (some x) G Γ s
      simp only [h1]
      exact finish_tot l1 _ _ _ _ _
    | none =>
      obtain ⟨te, Γ1, s1, h1, l1⟩ := ih none G Γ s
      simp only [h1]
      cases op with
      | not => exact finish_tot (l1.trans (le_push _ _)) _ _ _ _ _
      | neg => exact finish_tot (l1.trans (le_push _ _)) _ _ _ _ _
  -- bin
  · intro i op l r ihl ihr exp G Γ s
    rw [go]
    cases hn : (if isArith op = true then numericExp exp else none) with
    | some x =>
      obtain ⟨tl, Γ1, s1, h1, l1⟩ := ihl (some x) G Γ s
      obtain ⟨tr, Γ2, s2, h2, l2⟩ := ihr (some x) G Γ1 s1
      simp only [h1, h2]
      exact finish_tot (l1.trans l2) _ _ _ _ _
    | none =>
      obtain ⟨tl, Γ1, s1, h1, l1⟩ := ihl none G Γ s
      obtain ⟨tr, Γ2, s2, h2, l2⟩ := ihr none G Γ1 s1
      simp only [h1, h2]
      split
      · exact finish_tot (l1.trans (l2.trans ((le_fresh _).trans ((le_push _ _).trans (le_push _ _))))) _ _ _ _ _
      · split
        · exact finish_tot (l1.trans (l2.trans ((le_push _ _).trans (le_push _ _)))) _ _ _ _ _
        · exact finish_tot (l1.trans (l2.trans (le_push _ _))) _ _ _ _ _
  -- proj
  · intro i e idx ih exp G Γ s
    rw [go]
    obtain ⟨te, Γ1, s1, h1, l1⟩ := ih none G Γ s
    simp only [h1]
    split
    · split
      · exact finish_tot l1 _ _ _ _ _
      · exact finish_tot (l1.trans ((le_diag _ _).trans (le_fresh _))) _ _ _ _ _
    · exact finish_tot (l1.trans ((le_diag _ _).trans (le_fresh _))) _ _ _ _ _
  -- field
  · intro i e fld ih exp G Γ s
    rw [go]
    obtain ⟨te, Γ1, s1, h1, l1⟩ := ih none G Γ s
    simp only [h1]
    exact finish_tot (l1.trans ((le_fresh _).trans (le_push _ _))) _ _ _ _ _
  -- match
  · intro i scrut arms ihs iha exp G Γ s
    rw [go]
    obtain ⟨tsc, Γ1, s1, h1, l1⟩ := ihs none G Γ s
    simp only [h1]
    cases exp with
    | some x =>
      obtain ⟨tas, Γ2, s2, h2, l2⟩ := iha tsc.ty (some x) .unit G Γ1 s1
      simp only [h2]
      exact finish_tot (l1.trans l2) _ _ _ _ _
    | none =>
      obtain ⟨tas, Γ2, s2, h2, l2⟩ := iha tsc.ty none s1.fresh.1 G Γ1 s1.fresh.2
      simp only [h2]
      exact finish_tot (l1.trans ((le_fresh _).trans l2)) _ _ _ _ _
  -- mcall
  · intro i fi recv m args ihr iha exp G Γ s
    rw [go]
    obtain ⟨tr, Γ1, s1, h1, l1⟩ := ihr none G Γ s.mark
    have l1' : Le s s1 := (le_mark _).trans l1
    simp only [h1]
    cases hl : lookupInherent G tr.ty m with
    | some mty =>
      dsimp only
      obtain ⟨ts, Γ2, s2, h2, l2⟩ := iha.1 G Γ1 s1
      have l2' : Le s s2 := l1'.trans l2
      simp only [h2]
      exact finish_tot (by le_auto) _ _ _ _ _
    | none =>
      dsimp only
      split <;> exact finish_tot (by le_auto) _ _ _ _ _
  -- scall
  · intro i fi tyName m args iha exp G Γ s
    rw [go]
    cases hn : nominalOf G tyName with
    | none => dsimp only; exact finish_tot (by le_auto) _ _ _ _ _
    | some recv0 =>
      dsimp only
      split
      · obtain ⟨t0s, Γ1, s1, h1, l1⟩ := iha.2.2.2.2.1 G Γ s.mark
        have l1' : Le s s1 := (le_mark _).trans l1
        simp only [h1]
        split
        · exact finish_tot (by le_auto) _ _ _ _ _
        · split
          · split
            · exact finish_tot (by le_auto) _ _ _ _ _
            · rename_i look rty mty hlook inst ps r hinst hlen
              obtain ⟨ts, Γ2, s2, h2, l2⟩ := iha.2.2.2.2.2.1 ps G Γ1
                ((s1.inst mty).snd.push (Constraint.eq ((tysOf t0s).headD Ty.unit) (ps.headD Ty.unit)))
              simp only [h2]
              exact finish_tot (l1'.trans ((le_inst _ _).trans ((le_push _ _).trans (l2.trans (le_record _ _ _))))) _ _ _ _ _
          · exact finish_tot (by le_auto) _ _ _ _ _
      · cases hl : lookupInherent G recv0 m with
        | none => dsimp only; exact finish_tot (by le_auto) _ _ _ _ _
        | some mty =>
          dsimp only
          split
          · split
            · exact finish_tot (by le_auto) _ _ _ _ _
            · rename_i ps ret _ _
              obtain ⟨ts, Γ2, s2, h2, l2⟩ := iha.2.1 ps G Γ (s.mark.inst mty).2
              simp only [h2]
              exact finish_tot ((le_mark _).trans ((le_inst _ _).trans (l2.trans (le_record _ _ _)))) _ _ _ _ _
          · exact finish_tot (by le_auto) _ _ _ _ _
  -- array
  · intro i items ih exp G Γ s
    rw [go]
    obtain ⟨ts, Γ1, s1, h1, l1⟩ := ih.2.2.2.1 s.fresh.1 G Γ s.fresh.2
    simp only [h1]
    exact finish_tot ((le_fresh _).trans l1) _ _ _ _ _
  -- constr
  · intro i info args ih exp G Γ s
    cases info with
    | none => rw [go]; exact finish_tot (by le_auto) _ _ _ _ _
    | some o =>
      cases o with
      | none => rw [go]; exact finish_tot (by le_auto) _ _ _ _ _
      | some pr =>
        obtain ⟨cty, arity⟩ := pr
        rw [go]
        dsimp only
        split
        · exact finish_tot (by le_auto) _ _ _ _ _
        · cases hps : (ctorParams (s.inst cty).1).isEmpty with
          | true =>
            obtain ⟨ts, Γ1, s1, h1, l1⟩ := ih.1 G Γ (s.inst cty).2
            simp only [if_true, h1]
            exact finish_tot (((le_inst _ _).trans (l1.trans (le_push _ _)))) _ _ _ _ _
          | false =>
            obtain ⟨ts, Γ1, s1, h1, l1⟩ := ih.2.1 (ctorParams (s.inst cty).1) G Γ (s.inst cty).2
            simp only [Bool.false_eq_true, if_false, h1]
            exact finish_tot (((le_inst _ _).trans (l1.trans (le_push _ _)))) _ _ _ _ _
  -- slit
  · intro i info idxs args ih exp G Γ s
    cases info with
    | none => rw [go]; exact finish_tot (by le_auto) _ _ _ _ _
    | some pr =>
      obtain ⟨cty, nf⟩ := pr
      rw [go]
      dsimp only
      obtain ⟨ts, Γ1, s1, h1, l1⟩ := ih.2.2.2.2.2.2 idxs (ctorParams (s.inst cty).1) G Γ (s.inst cty).2
      simp only [h1]
      have lm : Le s1 (if zipOk nf idxs ts = true then s1 else s1.mark) := by
        split
        · exact Le.refl _
        · exact le_mark _
      exact finish_tot ((le_inst _ _).trans (l1.trans (lm.trans (le_push _ _)))) _ _ _ _ _
  -- arm
  · intro p body ih; exact ih
  -- []
  · refine ⟨?_, ?_, ?_, ?_, ?_, ?_, ?_⟩
    · intro G Γ s; rw [goL]; exact ⟨_, _, _, rfl, Le.refl _⟩
    · intro xs G Γ s; simp only [goZip]; exact ⟨_, _, _, rfl, Le.refl _⟩
    · intro exp G Γ s; rw [goBlock]; exact ⟨_, _, _, rfl, Le.refl _⟩
    · intro el G Γ s; rw [goArr]; exact ⟨_, _, _, rfl, Le.refl _⟩
    · intro G Γ s; rw [goHead]; exact ⟨_, _, _, rfl, Le.refl _⟩
    · intro xs G Γ s; simp only [goZipTail]; exact ⟨_, _, _, rfl, Le.refl _⟩
    · intro ks ps G Γ s; simp only [goIdx]; exact ⟨_, _, _, rfl, Le.refl _⟩
  -- e :: es
  · intro e es ihe ihes
    refine ⟨?_, ?_, ?_, ?_, ?_, ?_, ?_⟩
    · intro G Γ s
      rw [goL]
      obtain ⟨t, Γ1, s1, h1, l1⟩ := ihe none G Γ s
      obtain ⟨ts, Γ2, s2, h2, l2⟩ := ihes.1 G Γ1 s1
      simp only [h1, h2]
      exact ⟨_, _, _, rfl, l1.trans l2⟩
    · intro xs G Γ s
      cases xs with
      | nil => simp only [goZip]; exact ⟨_, _, _, rfl, Le.refl _⟩
      | cons x xs =>
        simp only [goZip]
        obtain ⟨t, Γ1, s1, h1, l1⟩ := ihe (some x) G Γ s
        obtain ⟨ts, Γ2, s2, h2, l2⟩ := ihes.2.1 xs G Γ1 s1
        simp only [h1, h2]
        exact ⟨_, _, _, rfl, l1.trans l2⟩
    · intro exp G Γ s
      rw [goBlock]
      obtain ⟨t, Γ1, s1, h1, l1⟩ := ihe (if es.isEmpty then exp else none) G Γ s
      obtain ⟨ts, Γ2, s2, h2, l2⟩ := ihes.2.2.1 exp G Γ1 s1
      simp only [h1, h2]
      exact ⟨_, _, _, rfl, l1.trans l2⟩
    · intro el G Γ s
      rw [goArr]
      obtain ⟨t, Γ1, s1, h1, l1⟩ := ihe none G Γ s
      obtain ⟨ts, Γ2, s2, h2, l2⟩ := ihes.2.2.2.1 el G Γ1 (s1.push (.eq t.ty el))
      simp only [h1, h2]
      exact ⟨_, _, _, rfl, l1.trans ((le_push _ _).trans l2)⟩
    · intro G Γ s
      rw [goHead]
      obtain ⟨t, Γ1, s1, h1, l1⟩ := ihe none G Γ s
      simp only [h1]
      exact ⟨_, _, _, rfl, l1⟩
    · intro xs G Γ s
      cases xs with
      | nil => simp only [goZipTail]; exact ⟨_, _, _, rfl, Le.refl _⟩
      | cons x xs => simp only [goZipTail]; exact ihes.2.1 xs G Γ s
    · intro ks ps G Γ s
      cases ks with
      | nil => simp only [goIdx]; exact ⟨_, _, _, rfl, Le.refl _⟩
      | cons k ks =>
        simp only [goIdx]
        obtain ⟨t, Γ1, s1, h1, l1⟩ := ihe ps[k]? G Γ s
        obtain ⟨ts, Γ2, s2, h2, l2⟩ := ihes.2.2.2.2.2.2 ks ps G Γ1 s1
        simp only [h1, h2]
        exact ⟨_, _, _, rfl, l1.trans l2⟩
  -- [] arms
  · intro sty exp armTy G Γ s; rw [goArms]; exact ⟨_, _, _, rfl, Le.refl _⟩
  -- arm :: arms
  · intro a arms iha ihas sty exp armTy G Γ s
    cases a with
    | mk p body =>
      have iha' : Tot1 body := iha
      cases exp with
      | some x =>
        rw [goArms]
        obtain ⟨tb, Γ1, s1, h1, l1⟩ := iha' (some x) G (checkPat p sty (pushScope Γ) s).2.1 (checkPat p sty (pushScope Γ) s).2.2
        simp only [h1]
        obtain ⟨tas, Γ2, s3, h3, l3⟩ := ihas sty (some x) armTy G (popScope Γ1 s1).1 (popScope Γ1 s1).2
        simp only [h3]
        exact ⟨_, _, _, rfl, (le_checkPat _ _ _ _).trans (l1.trans ((le_popScope _ _).trans l3))⟩
      | none =>
        rw [goArms]
        obtain ⟨tb, Γ1, s1, h1, l1⟩ := iha' none G (checkPat p sty (pushScope Γ) s).2.1 (checkPat p sty (pushScope Γ) s).2.2
        simp only [h1]
        obtain ⟨tas, Γ2, s3, h3, l3⟩ := ihas sty none armTy G (popScope Γ1 s1).1 ((popScope Γ1 s1).2.push (.eq tb.ty armTy))
        simp only [h3]
        exact ⟨_, _, _, rfl, (le_checkPat _ _ _ _).trans (l1.trans ((le_popScope _ _).trans ((le_push _ _).trans l3)))⟩


theorem goL_le : ∀ es, TotL es
  | [] => by
    refine ⟨?_, ?_, ?_, ?_, ?_, ?_, ?_⟩
    · intro G Γ s; rw [goL]; exact ⟨_, _, _, rfl, Le.refl _⟩
    · intro xs G Γ s; simp only [goZip]; exact ⟨_, _, _, rfl, Le.refl _⟩
    · intro exp G Γ s; rw [goBlock]; exact ⟨_, _, _, rfl, Le.refl _⟩
    · intro el G Γ s; rw [goArr]; exact ⟨_, _, _, rfl, Le.refl _⟩
    · intro G Γ s; rw [goHead]; exact ⟨_, _, _, rfl, Le.refl _⟩
    · intro xs G Γ s; simp only [goZipTail]; exact ⟨_, _, _, rfl, Le.refl _⟩
    · intro ks ps G Γ s; simp only [goIdx]; exact ⟨_, _, _, rfl, Le.refl _⟩
  | e :: es => by
    have ihe := go_le e
    have ihes := goL_le es
    refine ⟨?_, ?_, ?_, ?_, ?_, ?_, ?_⟩
    · intro G Γ s
      rw [goL]
      obtain ⟨t, Γ1, s1, h1, l1⟩ := ihe none G Γ s
      obtain ⟨ts, Γ2, s2, h2, l2⟩ := ihes.1 G Γ1 s1
      simp only [h1, h2]
      exact ⟨_, _, _, rfl, l1.trans l2⟩
    · intro xs G Γ s
      cases xs with
      | nil => simp only [goZip]; exact ⟨_, _, _, rfl, Le.refl _⟩
      | cons x xs =>
        simp only [goZip]
        obtain ⟨t, Γ1, s1, h1, l1⟩ := ihe (some x) G Γ s
        obtain ⟨ts, Γ2, s2, h2, l2⟩ := ihes.2.1 xs G Γ1 s1
        simp only [h1, h2]
        exact ⟨_, _, _, rfl, l1.trans l2⟩
    · intro exp G Γ s
      rw [goBlock]
      obtain ⟨t, Γ1, s1, h1, l1⟩ := ihe (if es.isEmpty then exp else none) G Γ s
      obtain ⟨ts, Γ2, s2, h2, l2⟩ := ihes.2.2.1 exp G Γ1 s1
      simp only [h1, h2]
      exact ⟨_, _, _, rfl, l1.trans l2⟩
    · intro el G Γ s
      rw [goArr]
      obtain ⟨t, Γ1, s1, h1, l1⟩ := ihe none G Γ s
      obtain ⟨ts, Γ2, s2, h2, l2⟩ := ihes.2.2.2.1 el G Γ1 (s1.push (.eq t.ty el))
      simp only [h1, h2]
      exact ⟨_, _, _, rfl, l1.trans ((le_push _ _).trans l2)⟩
    · intro G Γ s
      rw [goHead]
      obtain ⟨t, Γ1, s1, h1, l1⟩ := ihe none G Γ s
      simp only [h1]
      exact ⟨_, _, _, rfl, l1⟩
    · intro xs G Γ s
      cases xs with
      | nil => simp only [goZipTail]; exact ⟨_, _, _, rfl, Le.refl _⟩
      | cons x xs => simp only [goZipTail]; exact ihes.2.1 xs G Γ s
    · intro ks ps G Γ s
      cases ks with
      | nil => simp only [goIdx]; exact ⟨_, _, _, rfl, Le.refl _⟩
      | cons k ks =>
        simp only [goIdx]
        obtain ⟨t, Γ1, s1, h1, l1⟩ := ihe ps[k]? G Γ s
        obtain ⟨ts, Γ2, s2, h2, l2⟩ := ihes.2.2.2.2.2.2 ks ps G Γ1 s1
        simp only [h1, h2]
        exact ⟨_, _, _, rfl, l1.trans l2⟩

theorem goArms_le : ∀ arms, TotA arms
  | [] => by intro sty exp armTy G Γ s; rw [goArms]; exact ⟨_, _, _, rfl, Le.refl _⟩
  | .mk p body :: arms => by
    have iha' := go_le body
    have ihas := goArms_le arms
    intro sty exp armTy G Γ s
    cases exp with
    | some x =>
      rw [goArms]
      obtain ⟨tb, Γ1, s1, h1, l1⟩ := iha' (some x) G (checkPat p sty (pushScope Γ) s).2.1 (checkPat p sty (pushScope Γ) s).2.2
      simp only [h1]
      obtain ⟨tas, Γ2, s3, h3, l3⟩ := ihas sty (some x) armTy G (popScope Γ1 s1).1 (popScope Γ1 s1).2
      simp only [h3]
      exact ⟨_, _, _, rfl, (le_checkPat _ _ _ _).trans (l1.trans ((le_popScope _ _).trans l3))⟩
    | none =>
      rw [goArms]
      obtain ⟨tb, Γ1, s1, h1, l1⟩ := iha' none G (checkPat p sty (pushScope Γ) s).2.1 (checkPat p sty (pushScope Γ) s).2.2
      simp only [h1]
      obtain ⟨tas, Γ2, s3, h3, l3⟩ := ihas sty none armTy G (popScope Γ1 s1).1 ((popScope Γ1 s1).2.push (.eq tb.ty armTy))
      simp only [h3]
      exact ⟨_, _, _, rfl, (le_checkPat _ _ _ _).trans (l1.trans ((le_popScope _ _).trans ((le_push _ _).trans l3)))⟩

end Goml.Infer
