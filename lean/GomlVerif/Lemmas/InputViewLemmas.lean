import GomlVerif.Model.InputView
namespace Goml.InputView
open Goml.Lex (isTrivia)
open Goml.Gen.Gram

theorem view_eatTrivia (rest : List Nat) : view (eatTrivia rest) = view rest := by
  induction rest with
  | nil => rfl
  | cons k ks ih =>
    simp only [eatTrivia]
    split
    · rename_i h; rw [ih]; simp [view, h]
    · rfl

theorem eatTrivia_head (rest : List Nat) : (eatTrivia rest).headD T_Eof = (view rest).headD T_Eof := by
  induction rest with
  | nil => rfl
  | cons k ks ih =>
    simp only [eatTrivia]
    split
    · rename_i h; rw [ih]; simp [view, h]
    · rename_i h; simp [view, h]

theorem eatTrivia_empty (rest : List Nat) : (eatTrivia rest).isEmpty = (view rest).isEmpty := by
  induction rest with
  | nil => rfl
  | cons k ks ih =>
    simp only [eatTrivia]
    split
    · rename_i h; rw [ih]; simp [view, h]
    · rename_i h; simp [view, h]

theorem view_skip (rest : List Nat) : view (skip rest) = (view rest).tail := by
  unfold skip
  induction rest with
  | nil => rfl
  | cons k ks ih =>
    simp only [eatTrivia]
    split
    · rename_i h; rw [ih]; simp [view, h]
    · rename_i h; simp [view, h]

theorem nth_eq_view (rest : List Nat) : ∀ n, nth rest n = (view rest).getD n T_Eof := by
  induction rest with
  | nil => intro n; simp [nth, view]
  | cons k ks ih =>
    intro n
    simp only [nth]
    split
    · rename_i h; rw [ih]; simp [view, h]
    · rename_i h
      have hv : view (k :: ks) = k :: view ks := by simp [view, h]
      rw [hv]
      cases n with
      | zero => simp
      | succ n => simp [ih]

theorem view_append (a b : List Nat) : view (a ++ b) = view a ++ view b := by simp [view]

end Goml.InputView

namespace Goml.InputView
open Goml.Lex (isTrivia)
open Goml.Gen.Gram Goml.Grammar

theorem eatTrivia_suffix (rest : List Nat) : ∃ tr, rest = tr ++ eatTrivia rest ∧ view tr = [] := by
  induction rest with
  | nil => exact ⟨[], rfl, rfl⟩
  | cons k ks ih =>
    simp only [eatTrivia]
    split
    · rename_i h
      obtain ⟨tr, h1, h2⟩ := ih
      refine ⟨k :: tr, by rw [List.cons_append, ← h1], ?_⟩
      simp [view, h] at h2 ⊢; exact h2
    · exact ⟨[], rfl, rfl⟩

theorem eatTrivia_head_nontrivia : ∀ (rest : List Nat) (k : Nat) (tl : List Nat), eatTrivia rest = k :: tl → isTrivia k = false := by
  intro rest
  induction rest with
  | nil => intro k tl h; simp [eatTrivia] at h
  | cons a as ih =>
    intro k tl h
    simp only [eatTrivia] at h
    split at h
    · exact ih k tl h
    · rename_i ha
      simp only [List.cons.injEq] at h
      rw [← h.1]; simpa using ha

/-- the grammar model's state `s` stands for the real `Input` whose cursor has passed `pre` and still sees `rest` -/
def Corr (all pre rest : List Nat) (s : PS) : Prop :=
  all = pre ++ rest ∧ s.toks = view all ∧ s.pos = (view pre).length

theorem corr_getD {all pre rest : List Nat} {s : PS} (h : Corr all pre rest s) (n : Nat) :
    s.toks.getD (s.pos + n) T_Eof = nth rest n := by
  obtain ⟨h1, h2, h3⟩ := h
  rw [nth_eq_view, h2, h1, view_append, h3]
  simp only [List.getD_eq_getElem?_getD]
  rw [List.getElem?_append_right (by omega)]
  congr 2; omega

theorem corr_isEof {all pre rest : List Nat} {s : PS} (h : Corr all pre rest s) : s.isEof = (eof rest).1 := by
  obtain ⟨h1, h2, h3⟩ := h
  simp only [eof, eatTrivia_empty, PS.isEof, h2, h1, view_append, List.length_append, h3]
  cases hv : view rest with
  | nil => simp
  | cons x xs => simp

theorem corr_skip {all pre rest : List Nat} {s : PS} (h : Corr all pre rest s) :
    ∃ pre', Corr all pre' (skip rest) (bump s) := by
  obtain ⟨h1, h2, h3⟩ := h
  obtain ⟨tr, e1, e2⟩ := eatTrivia_suffix rest
  have hvr : view rest = view (eatTrivia rest) := (view_eatTrivia rest).symm
  cases he : eatTrivia rest with
  | nil =>
    refine ⟨all, ?_, h2, ?_⟩
    · simp [skip, he]
    · have : view rest = [] := by rw [hvr, he]; rfl
      simp only [bump, h2, h1, view_append, this, List.append_nil, List.length_append, h3]
      simp
  | cons k tl =>
    have hk : isTrivia k = false := eatTrivia_head_nontrivia rest k tl he
    have e1' : rest = tr ++ k :: tl := by rw [he] at e1; exact e1
    have hs : skip rest = tl := by simp [skip, he]
    refine ⟨pre ++ tr ++ [k], ?_, h2, ?_⟩
    · rw [hs, h1]
      have : pre ++ rest = pre ++ (tr ++ k :: tl) := by rw [← e1']
      rw [this]; simp
    · have hv : view rest = k :: view tl := by rw [hvr, he]; simp [view, hk]
      have hlen : s.pos < s.toks.length := by
        rw [h2, h1, view_append, hv, h3]; simp
      have hk' : view [k] = [k] := by simp [view, hk]
      rw [h3] at hlen
      simp only [bump, view_append, e2, hk', List.length_append, List.length_nil, List.length_cons, h3]
      rw [if_pos hlen]

end Goml.InputView
