import GomlVerif.Model.InputView
namespace Goml.InputView
open Goml.Lex (isTrivia)
open Goml.Gen.Gram

theorem view_eatTrivia (rest : List Nat) : view (eatTrivia rest) = view rest := by
  induction rest with
  | nil => rfl
  | cons k ks ih =>
    simp only [eatTrivia]
    split
    · rename_i h; rw [ih]; simp [view, h]
    · rfl

theorem eatTrivia_head (rest : List Nat) : (eatTrivia rest).headD T_Eof = (view rest).headD T_Eof := by
  induction rest with
  | nil => rfl
  | cons k ks ih =>
    simp only [eatTrivia]
    split
    · rename_i h; rw [ih]; simp [view, h]
    · rename_i h; simp [view, h]

theorem eatTrivia_empty (rest : List Nat) : (eatTrivia rest).isEmpty = (view rest).isEmpty := by
  induction rest with
  | nil => rfl
  | cons k ks ih =>
    simp only [eatTrivia]
    split
    · rename_i h; rw [ih]; simp [view, h]
    · rename_i h; simp [view, h]

theorem view_skip (rest : List Nat) : view (skip rest) = (view rest).tail := by
  unfold skip
  induction rest with
  | nil => rfl
  | cons k ks ih =>
    simp only [eatTrivia]
    split
    · rename_i h; rw [ih]; simp [view, h]
    · rename_i h; simp [view, h]

theorem nth_eq_view (rest : List Nat) : ∀ n, nth rest n = (view rest).getD n T_Eof := by
  induction rest with
  | nil => intro n; simp [nth, view]
  | cons k ks ih =>
    intro n
    simp only [nth]
    split
    · rename_i h; rw [ih]; simp [view, h]
    · rename_i h
      have hv : view (k :: ks) = k :: view ks := by simp [view, h]
      rw [hv]
      cases n with
      | zero => simp
      | succ n => simp [ih]

theorem view_append (a b : List Nat) : view (a ++ b) = view a ++ view b := by simp [view]

end Goml.InputView
