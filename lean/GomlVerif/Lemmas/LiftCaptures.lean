import GomlVerif.Model.Lift
/-! C08: `collectCaptured` computes exactly the free variables of the body that are in scope -/
namespace Goml.Lift
open Goml

mutual
/-- free variables, every occurrence, in traversal order (`let` and closure parameters bind) -/
def fv : Expr → List String
  | .var x _ => [x]
  | .prim _ => []
  | .tag _ _ => []
  | .constr _ _ args => fvList args
  | .tuple _ items => fvList items
  | .array _ items => fvList items
  | .closure _ ps body => (fv body).filter (fun y => !(ps.map (·.1)).contains y)
  | .letE x v b => fv v ++ (fv b).filter (fun y => !(y == x))
  | .matchE _ s arms d => fv s ++ fvArms arms ++ (match d with | some d => fv d | none => [])
  | .ite c t e => fv c ++ fv t ++ fv e
  | .while c b => fv c ++ fv b
  | .go e => fv e
  | .cget _ _ _ e => fv e
  | .un _ _ e => fv e
  | .bin _ _ l r => fv l ++ fv r
  | .call _ f args => fv f ++ fvList args
  | .toDyn _ _ _ e => fv e
  | .dynCall _ _ _ recv args => fv recv ++ fvList args
  | .traitCall _ _ _ recv args => fv recv ++ fvList args
  | .proj _ _ e => fv e
def fvList : List Expr → List String
  | [] => []
  | e :: es => fv e ++ fvList es
/-- the head of an arm is traversed like an expression (as `collect_captured` does) -/
def fvArms : List Arm → List String
  | [] => []
  | .mk lhs body :: rest => fv lhs ++ fv body ++ fvArms rest
end

/-- what `collect_captured` does at one variable occurrence -/
def captureStep (sc : Scope) (acc : List (String × Ty)) (x : String) : List (String × Ty) :=
  match sc.get x with
  | some entry => if acc.any (·.1 == x) then acc else acc ++ [(x, entry.ty)]
  | none => acc

def notIn (bound : List String) (l : List String) : List String := l.filter (fun y => !bound.contains y)

theorem notIn_append (bound l₁ l₂) : notIn bound (l₁ ++ l₂) = notIn bound l₁ ++ notIn bound l₂ := by
  simp [notIn]

theorem notIn_snoc (bound : List String) (x : String) (l : List String) :
    notIn (bound ++ [x]) l = notIn bound (l.filter (fun y => !(y == x))) := by
  simp only [notIn, List.filter_filter]
  apply List.filter_congr
  intro y _
  simp [List.contains_eq_mem]
  by_cases h : y = x <;> simp [h]

theorem notIn_app (bound ps : List String) (l : List String) :
    notIn (bound ++ ps) l = notIn bound (l.filter (fun y => !ps.contains y)) := by
  simp only [notIn, List.filter_filter]
  apply List.filter_congr
  intro y _
  simp [List.contains_eq_mem]

mutual
theorem collect_eq (sc : Scope) : ∀ (e : Expr) (bound : List String) (acc : List (String × Ty)),
    collectCaptured sc bound acc e = (notIn bound (fv e)).foldl (captureStep sc) acc
  | .var x _, bound, acc => by
    simp only [collectCaptured, fv, notIn, List.filter]
    cases h : bound.contains x <;> simp [captureStep]
    cases sc.get x <;> simp
  | .prim _, bound, acc => by simp [collectCaptured, fv, notIn]
  | .tag _ _, bound, acc => by simp [collectCaptured, fv, notIn]
  | .constr _ _ args, bound, acc => by simp only [collectCaptured, fv]; exact collectList_eq sc args bound acc
  | .tuple _ items, bound, acc => by simp only [collectCaptured, fv]; exact collectList_eq sc items bound acc
  | .array _ items, bound, acc => by simp only [collectCaptured, fv]; exact collectList_eq sc items bound acc
  | .closure _ ps body, bound, acc => by
    simp only [collectCaptured, fv]
    rw [collect_eq sc body, notIn_app]
  | .letE x v b, bound, acc => by
    simp only [collectCaptured, fv]
    rw [collect_eq sc b, collect_eq sc v, notIn_append, List.foldl_append, notIn_snoc]
  | .matchE _ s arms d, bound, acc => by
    cases d with
    | none =>
      simp only [collectCaptured, fv]
      rw [collectArms_eq sc arms, collect_eq sc s]
      simp [List.foldl_append, notIn]
    | some d =>
      simp only [collectCaptured, fv]
      rw [collect_eq sc d, collectArms_eq sc arms, collect_eq sc s]
      simp [notIn_append, List.foldl_append]
  | .ite c t e, bound, acc => by
    simp only [collectCaptured, fv]
    rw [collect_eq sc e, collect_eq sc t, collect_eq sc c]
    simp [notIn_append, List.foldl_append]
  | .while c b, bound, acc => by
    simp only [collectCaptured, fv]
    rw [collect_eq sc b, collect_eq sc c]
    simp [notIn_append, List.foldl_append]
  | .go e, bound, acc => by simp only [collectCaptured, fv]; exact collect_eq sc e bound acc
  | .cget _ _ _ e, bound, acc => by simp only [collectCaptured, fv]; exact collect_eq sc e bound acc
  | .un _ _ e, bound, acc => by simp only [collectCaptured, fv]; exact collect_eq sc e bound acc
  | .bin _ _ l r, bound, acc => by
    simp only [collectCaptured, fv]
    rw [collect_eq sc r, collect_eq sc l]
    simp [notIn_append, List.foldl_append]
  | .call _ f args, bound, acc => by
    simp only [collectCaptured, fv]
    rw [collectList_eq sc args, collect_eq sc f]
    simp [notIn_append, List.foldl_append]
  | .toDyn _ _ _ e, bound, acc => by simp only [collectCaptured, fv]; exact collect_eq sc e bound acc
  | .dynCall _ _ _ recv args, bound, acc => by
    simp only [collectCaptured, fv]
    rw [collectList_eq sc args, collect_eq sc recv]
    simp [notIn_append, List.foldl_append]
  | .traitCall _ _ _ recv args, bound, acc => by
    simp only [collectCaptured, fv]
    rw [collectList_eq sc args, collect_eq sc recv]
    simp [notIn_append, List.foldl_append]
  | .proj _ _ e, bound, acc => by simp only [collectCaptured, fv]; exact collect_eq sc e bound acc
theorem collectList_eq (sc : Scope) : ∀ (es : List Expr) (bound : List String) (acc : List (String × Ty)),
    collectCapturedList sc bound acc es = (notIn bound (fvList es)).foldl (captureStep sc) acc
  | [], bound, acc => by simp [collectCapturedList, fvList, notIn]
  | e :: es, bound, acc => by
    simp only [collectCapturedList, fvList]
    rw [collectList_eq sc es, collect_eq sc e]
    simp [notIn_append, List.foldl_append]
theorem collectArms_eq (sc : Scope) : ∀ (arms : List Arm) (bound : List String) (acc : List (String × Ty)),
    collectCapturedArms sc bound acc arms = (notIn bound (fvArms arms)).foldl (captureStep sc) acc
  | [], bound, acc => by simp [collectCapturedArms, fvArms, notIn]
  | .mk lhs body :: rest, bound, acc => by
    simp only [collectCapturedArms, fvArms]
    rw [collectArms_eq sc rest, collect_eq sc body, collect_eq sc lhs]
    simp [notIn_append, List.foldl_append]
end

/-- keep the first occurrence of every name -/
def dedupStep (a : List String) (x : String) : List String := if a.contains x then a else a ++ [x]
def dedup (xs : List String) : List String := xs.foldl dedupStep []

theorem captureStep_names (sc : Scope) (acc : List (String × Ty)) (x : String) :
    (captureStep sc acc x).map (·.1) =
      if sc.has x then dedupStep (acc.map (·.1)) x else acc.map (·.1) := by
  unfold captureStep Scope.has dedupStep
  cases h : sc.get x with
  | none => simp
  | some entry =>
    have hc : (acc.any (·.1 == x)) = (acc.map (·.1)).contains x := by
      induction acc with
      | nil => simp
      | cons p ps ih =>
        simp only [List.any_cons, List.map_cons, List.contains_cons, ih]
        rw [Bool.beq_comm]
    simp only [Option.isSome_some, if_true, hc]
    split <;> simp

theorem foldl_captureStep_names (sc : Scope) (xs : List String) : ∀ (acc : List (String × Ty)),
    (xs.foldl (captureStep sc) acc).map (·.1) = (xs.filter sc.has).foldl dedupStep (acc.map (·.1)) := by
  induction xs with
  | nil => intro acc; simp
  | cons x xs ih =>
    intro acc
    simp only [List.foldl_cons, ih, captureStep_names, List.filter_cons]
    cases sc.has x <;> simp

theorem dedupStep_of_mem {a : List String} {x : String} (h : x ∈ a) : dedupStep a x = a := by
  simp [dedupStep, h]
theorem dedupStep_of_not_mem {a : List String} {x : String} (h : x ∉ a) : dedupStep a x = a ++ [x] := by
  simp [dedupStep, h]

theorem mem_foldl_dedupStep (xs : List String) : ∀ (a : List String) (y : String),
    y ∈ xs.foldl dedupStep a ↔ y ∈ a ∨ y ∈ xs := by
  induction xs with
  | nil => intro a y; simp
  | cons x xs ih =>
    intro a y
    simp only [List.foldl_cons, ih, List.mem_cons]
    by_cases hx : x ∈ a
    · rw [dedupStep_of_mem hx]
      constructor
      · rintro (h | h)
        · exact Or.inl h
        · exact Or.inr (Or.inr h)
      · rintro (h | h | h)
        · exact Or.inl h
        · exact Or.inl (h ▸ hx)
        · exact Or.inr h
    · rw [dedupStep_of_not_mem hx]
      simp only [List.mem_append, List.mem_singleton]
      constructor
      · rintro ((h | h) | h)
        · exact Or.inl h
        · exact Or.inr (Or.inl h)
        · exact Or.inr (Or.inr h)
      · rintro (h | h | h)
        · exact Or.inl (Or.inl h)
        · exact Or.inl (Or.inr h)
        · exact Or.inr h

theorem nodup_foldl_dedupStep (xs : List String) : ∀ (a : List String), a.Nodup → (xs.foldl dedupStep a).Nodup := by
  induction xs with
  | nil => intro a h; simpa using h
  | cons x xs ih =>
    intro a h
    simp only [List.foldl_cons]
    apply ih
    by_cases hx : x ∈ a
    · rw [dedupStep_of_mem hx]; exact h
    · rw [dedupStep_of_not_mem hx]
      rw [List.nodup_append]
      refine ⟨h, by simp, ?_⟩
      intro y hy z hz
      simp only [List.mem_singleton] at hz
      subst hz
      intro e
      exact hx (e ▸ hy)

/-- every captured entry carries the type recorded in the scope entry of its name -/
theorem foldl_captureStep_types (sc : Scope) (xs : List String) : ∀ (acc : List (String × Ty)) (p : String × Ty),
    p ∈ xs.foldl (captureStep sc) acc → p ∈ acc ∨ ∃ entry, sc.get p.1 = some entry ∧ p.2 = entry.ty := by
  induction xs with
  | nil => intro acc p h; exact Or.inl (by simpa using h)
  | cons x xs ih =>
    intro acc p h
    simp only [List.foldl_cons] at h
    rcases ih _ p h with h | h
    · unfold captureStep at h
      cases hg : sc.get x with
      | none => simp only [hg] at h; exact Or.inl h
      | some entry =>
        simp only [hg] at h
        split at h
        · exact Or.inl h
        · simp only [List.mem_append, List.mem_singleton] at h
          rcases h with h | h
          · exact Or.inl h
          · subst h; exact Or.inr ⟨entry, hg, rfl⟩
    · exact Or.inr h

end Goml.Lift
