import GomlVerif.Model.Lift
/-! REAL Mono dumps (input of `lift::lambda_lift`) of corpus programs, converted by tools/c08_examples.py -/
namespace Goml.Lift.Examples
open Goml

/-- corpus program 033_closure after monomorphisation -/
def p033 : Prog := { fns := [
  { name := "test", generics := [], params := [], ret := .unit,
    body := (.letE "y/0" (.prim (.int 32 true (3)))
    (.letE "z/1" (.prim (.int 32 true (5)))
    (.letE "f/3" (.closure (.func [(.int 32 true)] (.int 32 true)) [("x/2", (.int 32 true))]
    (.bin .mul (.int 32 true) (.bin .mul (.int 32 true) (.var "x/2" (.int 32 true)) (.var "y/0" (.int 32 true))) (.var "z/1" (.int 32 true))))
    (.letE "mtmp0" (.call .unit (.var "string_println" (.func [.string] .unit)) [(.call .string (.var "int32_to_string" (.func [(.int 32 true)] .string)) [(.call (.int 32 true) (.var "f/3" (.func [(.int 32 true)] (.int 32 true))) [(.prim (.int 32 true (2)))])])])
    (.call .unit (.var "string_println" (.func [.string] .unit)) [(.call .string (.var "int32_to_string" (.func [(.int 32 true)] .string)) [(.call (.int 32 true) (.var "f/3" (.func [(.int 32 true)] (.int 32 true))) [(.prim (.int 32 true (3)))])])]))))) },
  { name := "call_int_id", generics := [], params := [("f/4", (.func [(.int 32 true)] (.int 32 true))), ("v/5", (.int 32 true))], ret := (.int 32 true),
    body := (.call (.int 32 true) (.var "f/4" (.func [(.int 32 true)] (.int 32 true))) [(.var "v/5" (.int 32 true))]) },
  { name := "main", generics := [], params := [], ret := .unit,
    body := (.letE "base/6" (.prim (.int 32 true (5)))
    (.letE "add_base/8" (.closure (.func [(.int 32 true)] (.int 32 true)) [("x/7", (.int 32 true))]
    (.bin .add (.int 32 true) (.var "x/7" (.int 32 true)) (.var "base/6" (.int 32 true))))
    (.letE "result/9" (.call (.int 32 true) (.var "add_base/8" (.func [(.int 32 true)] (.int 32 true))) [(.prim (.int 32 true (7)))])
    (.letE "printer/13" (.closure (.func [.string, (.int 32 true)] .unit) [("prefix/10", .string), ("value/11", (.int 32 true))]
    (.letE "message/12" (.bin .add .string (.var "prefix/10" .string) (.call .string (.var "int32_to_string" (.func [(.int 32 true)] .string)) [(.var "value/11" (.int 32 true))]))
    (.call .unit (.var "string_println" (.func [.string] .unit)) [(.var "message/12" .string)])))
    (.letE "mtmp1" (.call .unit (.var "printer/13" (.func [.string, (.int 32 true)] .unit)) [(.prim (.str "result: ")), (.var "result/9" (.int 32 true))])
    (.letE "unused/15" (.closure (.func [(.int 32 true)] (.int 32 true)) [("y/14", (.int 32 true))]
    (.bin .add (.int 32 true) (.var "y/14" (.int 32 true)) (.var "result/9" (.int 32 true))))
    (.letE "no_capture/17" (.closure (.func [(.int 32 true)] (.int 32 true)) [("z/16", (.int 32 true))]
    (.bin .mul (.int 32 true) (.var "z/16" (.int 32 true)) (.prim (.int 32 true (2)))))
    (.letE "doubled/18" (.call (.int 32 true) (.var "no_capture/17" (.func [(.int 32 true)] (.int 32 true))) [(.prim (.int 32 true (3)))])
    (.letE "mtmp2" (.call .unit (.var "string_println" (.func [.string] .unit)) [(.call .string (.var "int32_to_string" (.func [(.int 32 true)] .string)) [(.var "doubled/18" (.int 32 true))])])
    (.letE "mtmp3" (.call .unit (.var "test" (.func [] .unit)) [])
    (.letE "list123/19" (.constr (.enum "IntList" "Cons" 1) (.enum "IntList") [(.prim (.int 32 true (1))), (.constr (.enum "IntList" "Cons" 1) (.enum "IntList") [(.prim (.int 32 true (2))), (.constr (.enum "IntList" "Cons" 1) (.enum "IntList") [(.prim (.int 32 true (3))), (.constr (.enum "IntList" "Nil" 0) (.enum "IntList") [])])])])
    (.letE "point/20" (.constr (.struct "Point") (.struct "Point") [(.prim (.int 32 true (10))), (.prim (.int 32 true (20)))])
    (.letE "play_list_and_point/25" (.closure (.func [] .unit) []
    (.matchE .unit (.var "list123/19" (.enum "IntList")) [.mk (.constr (.enum "IntList" "Nil" 0) (.enum "IntList") []) (.call .unit (.var "string_println" (.func [.string] .unit)) [(.prim (.str "Empty list"))]), .mk (.constr (.enum "IntList" "Cons" 1) (.enum "IntList") [(.var "x4" (.int 32 true)), (.var "x5" (.enum "IntList"))]) (.letE "x4" (.cget (.enum "IntList" "Cons" 1) 0 (.int 32 true) (.var "list123/19" (.enum "IntList")))
    (.letE "x5" (.cget (.enum "IntList" "Cons" 1) 1 (.enum "IntList") (.var "list123/19" (.enum "IntList")))
    (.letE "tail/22" (.var "x5" (.enum "IntList"))
    (.letE "head/21" (.var "x4" (.int 32 true))
    (.letE "mtmp6" (.call .unit (.var "string_println" (.func [.string] .unit)) [(.call .string (.var "int32_to_string" (.func [(.int 32 true)] .string)) [(.var "head/21" (.int 32 true))])])
    (.letE "x7" (.cget (.struct "Point") 0 (.int 32 true) (.var "point/20" (.struct "Point")))
    (.letE "x8" (.cget (.struct "Point") 1 (.int 32 true) (.var "point/20" (.struct "Point")))
    (.letE "y/24" (.var "x8" (.int 32 true))
    (.letE "x/23" (.var "x7" (.int 32 true))
    (.letE "mtmp9" (.call .unit (.var "string_println" (.func [.string] .unit)) [(.bin .add .string (.bin .add .string (.bin .add .string (.bin .add .string (.prim (.str "Point: (")) (.call .string (.var "int32_to_string" (.func [(.int 32 true)] .string)) [(.var "x/23" (.int 32 true))])) (.prim (.str ", "))) (.call .string (.var "int32_to_string" (.func [(.int 32 true)] .string)) [(.var "y/24" (.int 32 true))])) (.prim (.str ")")))])
    (.prim .unit)))))))))))] none))
    (.letE "mtmp10" (.call .unit (.var "play_list_and_point/25" (.func [] .unit)) [])
    (.prim .unit))))))))))))))) }] }
def env033 : Env := { gensym := 11, funcs := [("test", (.func [] .unit)), ("call_int_id", (.func [(.func [(.int 32 true)] (.int 32 true)), (.int 32 true)] (.int 32 true))), ("main", (.func [] .unit))], structs := [{ name := "Point", generics := [], fields := [("x", (.int 32 true)), ("y", (.int 32 true))] }], enums := [{ name := "IntList", generics := [], variants := [("Nil", []), ("Cons", [(.int 32 true), (.enum "IntList")])] }] }

/-- corpus program 037_deep_nested_closure after monomorphisation -/
def p037 : Prog := { fns := [
  { name := "main", generics := [], params := [], ret := .unit,
    body := (.letE "a/0" (.prim (.int 32 true (10)))
    (.letE "f1/11" (.closure (.func [(.int 32 true)] (.int 32 true)) [("x/1", (.int 32 true))]
    (.letE "b/2" (.prim (.int 32 true (20)))
    (.letE "f2/10" (.closure (.func [(.int 32 true)] (.int 32 true)) [("y/3", (.int 32 true))]
    (.letE "c/4" (.prim (.int 32 true (30)))
    (.letE "f3/9" (.closure (.func [(.int 32 true)] (.int 32 true)) [("z/5", (.int 32 true))]
    (.letE "d/6" (.prim (.int 32 true (40)))
    (.letE "f4/8" (.closure (.func [(.int 32 true)] (.int 32 true)) [("w/7", (.int 32 true))]
    (.bin .add (.int 32 true) (.bin .add (.int 32 true) (.bin .add (.int 32 true) (.bin .add (.int 32 true) (.bin .add (.int 32 true) (.bin .add (.int 32 true) (.bin .add (.int 32 true) (.var "a/0" (.int 32 true)) (.var "b/2" (.int 32 true))) (.var "c/4" (.int 32 true))) (.var "d/6" (.int 32 true))) (.var "x/1" (.int 32 true))) (.var "y/3" (.int 32 true))) (.var "z/5" (.int 32 true))) (.var "w/7" (.int 32 true))))
    (.call (.int 32 true) (.var "f4/8" (.func [(.int 32 true)] (.int 32 true))) [(.prim (.int 32 true (4)))]))))
    (.call (.int 32 true) (.var "f3/9" (.func [(.int 32 true)] (.int 32 true))) [(.prim (.int 32 true (3)))]))))
    (.call (.int 32 true) (.var "f2/10" (.func [(.int 32 true)] (.int 32 true))) [(.prim (.int 32 true (2)))]))))
    (.letE "result/12" (.call (.int 32 true) (.var "f1/11" (.func [(.int 32 true)] (.int 32 true))) [(.prim (.int 32 true (1)))])
    (.call .unit (.var "string_println" (.func [.string] .unit)) [(.call .string (.var "int32_to_string" (.func [(.int 32 true)] .string)) [(.var "result/12" (.int 32 true))])])))) }] }
def env037 : Env := { gensym := 0, funcs := [("main", (.func [] .unit))], structs := [], enums := [] }

/-- corpus program 038_counter_closure after monomorphisation -/
def p038 : Prog := { fns := [
  { name := "make_counter", generics := [], params := [], ret := (.tuple [(.func [] (.int 32 true)), (.func [] .unit)]),
    body := (.letE "cell/0" (.call (.ref (.int 32 true)) (.var "ref" (.func [(.int 32 true)] (.ref (.int 32 true)))) [(.prim (.int 32 true (0)))])
    (.letE "next/2" (.closure (.func [] (.int 32 true)) []
    (.letE "next/1" (.bin .add (.int 32 true) (.call (.int 32 true) (.var "ref_get" (.func [(.ref (.int 32 true))] (.int 32 true))) [(.var "cell/0" (.ref (.int 32 true)))]) (.prim (.int 32 true (1))))
    (.letE "mtmp0" (.call .unit (.var "ref_set" (.func [(.ref (.int 32 true)), (.int 32 true)] .unit)) [(.var "cell/0" (.ref (.int 32 true))), (.var "next/1" (.int 32 true))])
    (.var "next/1" (.int 32 true)))))
    (.letE "reset/3" (.closure (.func [] .unit) []
    (.letE "mtmp1" (.call .unit (.var "ref_set" (.func [(.ref (.int 32 true)), (.int 32 true)] .unit)) [(.var "cell/0" (.ref (.int 32 true))), (.prim (.int 32 true (0)))])
    (.prim .unit)))
    (.tuple (.tuple [(.func [] (.int 32 true)), (.func [] .unit)]) [(.var "next/2" (.func [] (.int 32 true))), (.var "reset/3" (.func [] .unit))])))) },
  { name := "main", generics := [], params := [], ret := .unit,
    body := (.letE "counter/4" (.call (.tuple [(.func [] (.int 32 true)), (.func [] .unit)]) (.var "make_counter" (.func [] (.tuple [(.func [] (.int 32 true)), (.func [] .unit)]))) [])
    (.letE "mtmp2" (.var "counter/4" (.tuple [(.func [] (.int 32 true)), (.func [] .unit)]))
    (.letE "x3" (.proj 0 (.func [] (.int 32 true)) (.var "mtmp2" (.tuple [(.func [] (.int 32 true)), (.func [] .unit)])))
    (.letE "x4" (.proj 1 (.func [] .unit) (.var "mtmp2" (.tuple [(.func [] (.int 32 true)), (.func [] .unit)])))
    (.letE "reset/6" (.var "x4" (.func [] .unit))
    (.letE "next/5" (.var "x3" (.func [] (.int 32 true)))
    (.letE "first/7" (.call (.int 32 true) (.var "next/5" (.func [] (.int 32 true))) [])
    (.letE "second/8" (.call (.int 32 true) (.var "next/5" (.func [] (.int 32 true))) [])
    (.letE "mtmp5" (.call .unit (.var "reset/6" (.func [] .unit)) [])
    (.letE "third/9" (.call (.int 32 true) (.var "next/5" (.func [] (.int 32 true))) [])
    (.letE "new_counter/10" (.call (.tuple [(.func [] (.int 32 true)), (.func [] .unit)]) (.var "make_counter" (.func [] (.tuple [(.func [] (.int 32 true)), (.func [] .unit)]))) [])
    (.letE "mtmp6" (.var "new_counter/10" (.tuple [(.func [] (.int 32 true)), (.func [] .unit)]))
    (.letE "x7" (.proj 0 (.func [] (.int 32 true)) (.var "mtmp6" (.tuple [(.func [] (.int 32 true)), (.func [] .unit)])))
    (.letE "x8" (.proj 1 (.func [] .unit) (.var "mtmp6" (.tuple [(.func [] (.int 32 true)), (.func [] .unit)])))
    (.letE "new_next/11" (.var "x7" (.func [] (.int 32 true)))
    (.letE "fourth/12" (.call (.int 32 true) (.var "new_next/11" (.func [] (.int 32 true))) [])
    (.letE "mtmp9" (.call .unit (.var "string_println" (.func [.string] .unit)) [(.call .string (.var "int32_to_string" (.func [(.int 32 true)] .string)) [(.var "first/7" (.int 32 true))])])
    (.letE "mtmp10" (.call .unit (.var "string_println" (.func [.string] .unit)) [(.call .string (.var "int32_to_string" (.func [(.int 32 true)] .string)) [(.var "second/8" (.int 32 true))])])
    (.letE "mtmp11" (.call .unit (.var "string_println" (.func [.string] .unit)) [(.call .string (.var "int32_to_string" (.func [(.int 32 true)] .string)) [(.var "third/9" (.int 32 true))])])
    (.letE "mtmp12" (.call .unit (.var "string_println" (.func [.string] .unit)) [(.call .string (.var "int32_to_string" (.func [(.int 32 true)] .string)) [(.var "fourth/12" (.int 32 true))])])
    (.prim .unit))))))))))))))))))))) }] }
def env038 : Env := { gensym := 13, funcs := [("make_counter", (.func [] (.tuple [(.func [] (.int 32 true)), (.func [] .unit)]))), ("main", (.func [] .unit))], structs := [], enums := [] }

end Goml.Lift.Examples
