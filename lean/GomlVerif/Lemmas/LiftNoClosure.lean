import GomlVerif.Model.Lift
/-! C08: the output of the lifting model contains no closure node -/
namespace Goml.Lift
open Goml

mutual
/-- the Lift sub-language: no `closure` node anywhere -/
def noClosure : Expr → Bool
  | .closure _ _ _ => false
  | .var _ _ => true
  | .prim _ => true
  | .tag _ _ => true
  | .constr _ _ args => noClosureList args
  | .tuple _ items => noClosureList items
  | .array _ items => noClosureList items
  | .letE _ v b => noClosure v && noClosure b
  | .matchE _ s arms d => noClosure s && noClosureArms arms && (match d with | some d => noClosure d | none => true)
  | .ite c t e => noClosure c && noClosure t && noClosure e
  | .while c b => noClosure c && noClosure b
  | .go e => noClosure e
  | .cget _ _ _ e => noClosure e
  | .un _ _ e => noClosure e
  | .bin _ _ l r => noClosure l && noClosure r
  | .call _ f args => noClosure f && noClosureList args
  | .toDyn _ _ _ e => noClosure e
  | .dynCall _ _ _ r args => noClosure r && noClosureList args
  | .traitCall _ _ _ r args => noClosure r && noClosureList args
  | .proj _ _ e => noClosure e
def noClosureList : List Expr → Bool
  | [] => true
  | e :: es => noClosure e && noClosureList es
def noClosureArms : List Arm → Bool
  | [] => true
  | .mk l b :: rest => noClosure l && noClosure b && noClosureArms rest
end

theorem band {a b : Bool} (ha : a = true) (hb : b = true) : (a && b) = true := by simp [ha, hb]

/-- all apply functions generated so far are closure-free -/
def AllOk (st : State) : Prop := ∀ f ∈ st.newFns, noClosure f.body = true

theorem noClosure_rebind (n e : String) (t : Ty) (body : Expr) (h : noClosure body = true) :
    ∀ (caps : List (String × Ty)) (i : Nat), noClosure (rebind n e t body i caps) = true
  | [], _ => by simpa [rebind] using h
  | (x, ty) :: rest, i => by
    simp [rebind, noClosure, noClosure_rebind n e t body h rest (i + 1)]

theorem noClosureList_vars (caps : List (String × Ty)) :
    noClosureList (caps.map (fun p => Expr.var p.1 p.2)) = true := by
  induction caps with
  | nil => simp [noClosureList]
  | cons p ps ih => simp [noClosureList, noClosure, ih]

theorem finishClosure_ok (st : State) (sc : Scope) (params : List (String × Ty)) (ty : Ty)
    (hint : Option String) (body : Expr) (hst : AllOk st) (hb : noClosure body = true) :
    noClosure (finishClosure st sc params ty hint body).1 = true ∧ AllOk (finishClosure st sc params ty hint body).2.2 := by
  unfold finishClosure
  refine ⟨?_, ?_⟩
  · simp only [noClosure]
    exact noClosureList_vars _
  · intro f hf
    simp only [List.mem_append, List.mem_singleton] at hf
    rcases hf with hf | hf
    · exact hst f hf
    · subst hf
      exact noClosure_rebind _ _ _ _ hb _ _

@[simp] theorem updateStruct_newFns (st : State) (n : String) (cfs : List (Option String)) :
    (st.updateStruct n cfs).newFns = st.newFns := by
  unfold State.updateStruct; split <;> rfl

theorem AllOk_of_newFns_eq {st st' : State} (h : st'.newFns = st.newFns) (hst : AllOk st) : AllOk st' := by
  intro f hf; rw [h] at hf; exact hst f hf

theorem transformExpr_let_eq (st : State) (sc : Scope) (x : String) (v b : Expr)
    (h : ∀ t p c, v = Expr.closure t p c → False) :
    transformExpr st sc (.letE x v b) =
      (.letE x (transformExpr st sc v).1
          (transformExpr (transformExpr st sc v).2.2 (sc.pushLayer.insert x
            { ty := (transformExpr st sc v).2.1,
              closureStruct := (transformExpr st sc v).2.2.closureStructForTy (transformExpr st sc v).2.1 }) b).1,
        (transformExpr (transformExpr st sc v).2.2 (sc.pushLayer.insert x
            { ty := (transformExpr st sc v).2.1,
              closureStruct := (transformExpr st sc v).2.2.closureStructForTy (transformExpr st sc v).2.1 }) b).2.1,
        (transformExpr (transformExpr st sc v).2.2 (sc.pushLayer.insert x
            { ty := (transformExpr st sc v).2.1,
              closureStruct := (transformExpr st sc v).2.2.closureStructForTy (transformExpr st sc v).2.1 }) b).2.2) := by
  rw [transformExpr]
  exact h

mutual
theorem transformExpr_ok : ∀ (e : Expr) (st : State) (sc : Scope), AllOk st →
    noClosure (transformExpr st sc e).1 = true ∧ AllOk (transformExpr st sc e).2.2
  | .var x ty, st, sc, h => by
    rw [transformExpr]
    repeat' split
    all_goals exact ⟨rfl, h⟩
  | .prim p, st, sc, h => by rw [transformExpr]; exact ⟨rfl, h⟩
  | .tag i ty, st, sc, h => by rw [transformExpr]; exact ⟨rfl, h⟩
  | .constr c ty args, st, sc, h => by
    have h1 := transformList_ok args st sc h
    rw [transformExpr]
    refine ⟨h1.1, ?_⟩
    cases c with
    | struct n => exact AllOk_of_newFns_eq (by simp) h1.2
    | «enum» a b i => exact h1.2
  | .tuple ty items, st, sc, h => by
    have h1 := transformList_ok items st sc h
    rw [transformExpr]
    exact ⟨h1.1, h1.2⟩
  | .array ty items, st, sc, h => by
    have h1 := transformList_ok items st sc h
    rw [transformExpr]
    exact ⟨h1.1, h1.2⟩
  | .closure ty params body, st, sc, h => by
    rw [transformExpr]
    have h1 := transformExpr_ok body
      (match closureHint st none with | some hh => { st with ctx := hh :: st.ctx } | none => st)
      (closureScope st sc params ty)
      (by cases closureHint st none <;> exact h)
    exact finishClosure_ok _ sc params ty _ _ (AllOk_of_newFns_eq rfl h1.2) h1.1
  | .letE x v body, st, sc, h => by
    match v with
    | .closure cty params cbody =>
      rw [transformExpr]
      have h1 := transformExpr_ok cbody
        (match closureHint st (some x) with | some hh => { st with ctx := hh :: st.ctx } | none => st)
        (closureScope st sc params cty)
        (by cases closureHint st (some x) <;> exact h)
      have h2 := finishClosure_ok { (transformExpr (match closureHint st (some x) with | some hh => { st with ctx := hh :: st.ctx } | none => st) (closureScope st sc params cty) cbody).2.2 with ctx := st.ctx }
        sc params cty (closureHint st (some x)) _ (AllOk_of_newFns_eq rfl h1.2) h1.1
      have h3 := transformExpr_ok body _ (sc.pushLayer.insert x
        { ty := (finishClosure { (transformExpr (match closureHint st (some x) with | some hh => { st with ctx := hh :: st.ctx } | none => st) (closureScope st sc params cty) cbody).2.2 with ctx := st.ctx } sc params cty (closureHint st (some x)) (transformExpr (match closureHint st (some x) with | some hh => { st with ctx := hh :: st.ctx } | none => st) (closureScope st sc params cty) cbody).1).2.1,
          closureStruct := State.closureStructForTy (finishClosure { (transformExpr (match closureHint st (some x) with | some hh => { st with ctx := hh :: st.ctx } | none => st) (closureScope st sc params cty) cbody).2.2 with ctx := st.ctx } sc params cty (closureHint st (some x)) (transformExpr (match closureHint st (some x) with | some hh => { st with ctx := hh :: st.ctx } | none => st) (closureScope st sc params cty) cbody).1).2.2 (finishClosure { (transformExpr (match closureHint st (some x) with | some hh => { st with ctx := hh :: st.ctx } | none => st) (closureScope st sc params cty) cbody).2.2 with ctx := st.ctx } sc params cty (closureHint st (some x)) (transformExpr (match closureHint st (some x) with | some hh => { st with ctx := hh :: st.ctx } | none => st) (closureScope st sc params cty) cbody).1).2.1 }) h2.2
      exact ⟨band h2.1 h3.1, h3.2⟩
    | .var _ _ | .prim _ | .tag _ _ | .constr _ _ _ | .tuple _ _ | .array _ _ | .letE _ _ _ | .matchE _ _ _ _
    | .ite _ _ _ | .while _ _ | .go _ | .cget _ _ _ _ | .un _ _ _ | .bin _ _ _ _ | .call _ _ _ | .toDyn _ _ _ _
    | .dynCall _ _ _ _ _ | .traitCall _ _ _ _ _ | .proj _ _ _ =>
      all_goals
        rw [transformExpr_let_eq _ _ _ _ _ (by intro _ _ _ hh; cases hh)]
        exact ⟨band (transformExpr_ok _ st sc h).1 (transformExpr_ok body _ _ (transformExpr_ok _ st sc h).2).1,
            (transformExpr_ok body _ _ (transformExpr_ok _ st sc h).2).2⟩
  | .matchE ty s arms d, st, sc, h => by
    have h1 := transformExpr_ok s st sc h
    have h2 := transformArms_ok arms _ sc h1.2
    cases d with
    | none =>
      rw [transformExpr]
      refine ⟨?_, h2.2⟩
      show (noClosure _ && noClosureArms _ && true) = true
      rw [h1.1, h2.1]; rfl
    | some d =>
      have h3 := transformExpr_ok d _ sc h2.2
      rw [transformExpr]
      refine ⟨?_, h3.2⟩
      show (noClosure _ && noClosureArms _ && noClosure _) = true
      rw [h1.1, h2.1, h3.1]; rfl
  | .ite c t e, st, sc, h => by
    have h1 := transformExpr_ok c st sc h
    have h2 := transformExpr_ok t _ sc h1.2
    have h3 := transformExpr_ok e _ sc h2.2
    rw [transformExpr]
    refine ⟨?_, h3.2⟩
    show (noClosure _ && noClosure _ && noClosure _) = true
    rw [h1.1, h2.1, h3.1]; rfl
  | .while c b, st, sc, h => by
    have h1 := transformExpr_ok c st sc h
    have h2 := transformExpr_ok b _ sc h1.2
    rw [transformExpr]
    refine ⟨?_, h2.2⟩
    show (noClosure _ && noClosure _) = true
    rw [h1.1, h2.1]; rfl
  | .go e, st, sc, h => by
    have h1 := transformExpr_ok e st sc h
    rw [transformExpr]; exact ⟨h1.1, h1.2⟩
  | .cget c i ty e, st, sc, h => by
    have h1 := transformExpr_ok e st sc h
    rw [transformExpr]; exact ⟨h1.1, h1.2⟩
  | .un op ty e, st, sc, h => by
    have h1 := transformExpr_ok e st sc h
    rw [transformExpr]; exact ⟨h1.1, h1.2⟩
  | .bin op ty l r, st, sc, h => by
    have h1 := transformExpr_ok l st sc h
    have h2 := transformExpr_ok r _ sc h1.2
    rw [transformExpr]
    refine ⟨?_, h2.2⟩
    show (noClosure _ && noClosure _) = true
    rw [h1.1, h2.1]; rfl
  | .call ty f args, st, sc, h => by
    have h1 := transformExpr_ok f st sc h
    have h2 := transformList_ok args _ sc h1.2
    rw [transformExpr]
    have hd : ∀ cty, noClosure (.call cty (transformExpr st sc f).1 (transformList (transformExpr st sc f).2.2 sc args).1) = true := by
      intro cty; show (noClosure _ && noClosureList _) = true; rw [h1.1, h2.1]; rfl
    have hr : ∀ a b c d, noClosure (.call ty (.var a b) (.var c d :: (transformList (transformExpr st sc f).2.2 sc args).1)) = true := by
      intro a b c d; show (true && (true && noClosureList _)) = true; rw [h2.1]; rfl
    dsimp only
    repeat' split
    all_goals first | exact ⟨hr _ _ _ _, h2.2⟩ | exact ⟨hd _, h2.2⟩
  | .toDyn tr forTy ty e, st, sc, h => by
    have h1 := transformExpr_ok e st sc h
    rw [transformExpr]; exact ⟨h1.1, h1.2⟩
  | .dynCall tr m ty recv args, st, sc, h => by
    have h1 := transformExpr_ok recv st sc h
    have h2 := transformList_ok args _ sc h1.2
    rw [transformExpr]
    refine ⟨?_, h2.2⟩
    show (noClosure _ && noClosureList _) = true
    rw [h1.1, h2.1]; rfl
  | .traitCall tr m ty recv args, st, sc, h => by
    have h1 := transformExpr_ok recv st sc h
    have h2 := transformList_ok args _ sc h1.2
    rw [transformExpr]
    refine ⟨?_, h2.2⟩
    show (noClosure _ && noClosureList _) = true
    rw [h1.1, h2.1]; rfl
  | .proj i ty e, st, sc, h => by
    have h1 := transformExpr_ok e st sc h
    rw [transformExpr]; exact ⟨h1.1, h1.2⟩
theorem transformList_ok : ∀ (es : List Expr) (st : State) (sc : Scope), AllOk st →
    noClosureList (transformList st sc es).1 = true ∧ AllOk (transformList st sc es).2.2
  | [], st, sc, h => by rw [transformList]; exact ⟨rfl, h⟩
  | e :: es, st, sc, h => by
    have h1 := transformExpr_ok e st sc h
    have h2 := transformList_ok es _ sc h1.2
    rw [transformList]
    refine ⟨?_, h2.2⟩
    show (noClosure _ && noClosureList _) = true
    rw [h1.1, h2.1]; rfl
theorem transformArms_ok : ∀ (arms : List Arm) (st : State) (sc : Scope), AllOk st →
    noClosureArms (transformArms st sc arms).1 = true ∧ AllOk (transformArms st sc arms).2
  | [], st, sc, h => by rw [transformArms]; exact ⟨rfl, h⟩
  | .mk lhs body :: rest, st, sc, h => by
    have h1 := transformExpr_ok lhs st sc h
    have h2 := transformExpr_ok body _ sc h1.2
    have h3 := transformArms_ok rest _ sc h2.2
    rw [transformArms]
    refine ⟨?_, h3.2⟩
    show (noClosure _ && noClosure _ && noClosureArms _) = true
    rw [h1.1, h2.1, h3.1]; rfl
end

theorem liftFn_ok (st : State) (f : Fn) (h : AllOk st) :
    noClosure (liftFn st f).1.body = true ∧ AllOk (liftFn st f).2 := by
  unfold liftFn
  have h1 := transformExpr_ok f.body
    (match sanitizeEnvName f.name with | some c => { st with ctx := c :: st.ctx } | none => st)
    (f.params.foldl (fun s p => s.insert p.1 { ty := p.2, closureStruct := st.closureStructForTy p.2 }) Scope.new.pushLayer)
    (by cases sanitizeEnvName f.name <;> exact h)
  exact ⟨h1.1, AllOk_of_newFns_eq rfl h1.2⟩

theorem liftFns_ok : ∀ (fs : List Fn) (st : State), AllOk st →
    (∀ f ∈ (liftFns st fs).1, noClosure f.body = true) ∧ AllOk (liftFns st fs).2
  | [], st, h => by simp [liftFns]; exact h
  | f :: fs, st, h => by
    have h1 := liftFn_ok st f h
    have h2 := liftFns_ok fs _ h1.2
    rw [liftFns]
    refine ⟨?_, h2.2⟩
    intro g hg
    change g ∈ (liftFn st f).1 :: (liftFns (liftFn st f).2 fs).1 at hg
    rcases List.mem_cons.mp hg with hg | hg
    · rw [hg]; exact h1.1
    · exact h2.1 g hg

theorem liftFile_noClosure (env : Env) (fns : List Fn) :
    ∀ f ∈ (liftFile env fns).1, noClosure f.body = true := by
  have h := liftFns_ok fns (initState env) (by intro f hf; simp [initState] at hf)
  intro f hf
  unfold liftFile at hf
  change f ∈ (liftFns (initState env) fns).1 ++ (liftFns (initState env) fns).2.newFns at hf
  rcases List.mem_append.mp hf with hf | hf
  · exact h.1 f hf
  · exact h.2 f hf

end Goml.Lift
