import GomlVerif.Model.Sem
/-! One-step unfoldings of `Sem.eval` in sequencing form (`Res.andThen`), one per node kind -/
namespace Goml.Sem
open Goml

/-- failure propagates, success continues -/
def Res.andThen {α β : Type} (r : Res α) (K : α → World → Res β) : Res β :=
  match r with
  | .fail f w => .fail f w
  | .ok v w => K v w

@[simp] theorem Res.andThen_fail {α β : Type} (f : Fail) (w : World) (K : α → World → Res β) :
    (Res.fail f w : Res α).andThen K = .fail f w := rfl
@[simp] theorem Res.andThen_ok {α β : Type} (v : α) (w : World) (K : α → World → Res β) :
    (Res.ok v w).andThen K = K v w := rfl

variable (n : Nat) (P : Prog) (ρ : Env) (w : World)

theorem eval_zero (e : Expr) : eval 0 P ρ w e = .fail .fuel w := by rw [eval]
theorem evalList_zero (es : List Expr) : evalList 0 P ρ w es = .fail .fuel w := by rw [evalList]
theorem evalArms_zero (v : Val) (arms : List Arm) (d : Option Expr) : evalArms 0 P ρ w v arms d = .fail .fuel w := by
  rw [evalArms]
theorem apply_zero (f : Val) (args : List Val) : apply 0 P w f args = .fail .fuel w := by rw [apply]

theorem eval_var (x : String) (t : Ty) : eval (n + 1) P ρ w (.var x t) = .ok ((lookupEnv ρ x).getD (.fn x)) w := by
  rw [eval]; cases lookupEnv ρ x <;> rfl
theorem eval_prim (p : Prim) : eval (n + 1) P ρ w (.prim p) = .ok (primVal p) w := by rw [eval]
theorem eval_tag (i : Nat) (t : Ty) : eval (n + 1) P ρ w (.tag i t) = .ok (.enumV (tagTyName t) i []) w := by rw [eval]
theorem eval_constr (c : Ctor) (t : Ty) (args : List Expr) :
    eval (n + 1) P ρ w (.constr c t args) = (evalList n P ρ w args).andThen (fun vs w =>
      match c with
      | .enum ty _ idx => .ok (.enumV ty idx vs) w
      | .struct ty => .ok (.structV ty vs) w) := by
  rw [eval]; cases evalList n P ρ w args <;> rfl
theorem eval_tuple (t : Ty) (items : List Expr) :
    eval (n + 1) P ρ w (.tuple t items) = (evalList n P ρ w items).andThen (fun vs w => .ok (.tuple vs) w) := by
  rw [eval]; cases evalList n P ρ w items <;> rfl
theorem eval_array (t : Ty) (items : List Expr) :
    eval (n + 1) P ρ w (.array t items) = (evalList n P ρ w items).andThen (fun vs w => .ok (.array vs) w) := by
  rw [eval]; cases evalList n P ρ w items <;> rfl
theorem eval_closure (t : Ty) (ps : List (String × Ty)) (body : Expr) :
    eval (n + 1) P ρ w (.closure t ps body) = .ok (.closure (ps.map (·.1)) body ρ) w := by rw [eval]
theorem eval_letE (x : String) (v b : Expr) :
    eval (n + 1) P ρ w (.letE x v b) = (eval n P ρ w v).andThen (fun vv w => eval n P ((x, vv) :: ρ) w b) := by
  rw [eval]; cases eval n P ρ w v <;> rfl
theorem eval_matchE (t : Ty) (scrut : Expr) (arms : List Arm) (d : Option Expr) :
    eval (n + 1) P ρ w (.matchE t scrut arms d) =
      (eval n P ρ w scrut).andThen (fun v w => evalArms n P ρ w v arms d) := by
  rw [eval]; cases eval n P ρ w scrut <;> rfl
theorem eval_ite (c t e : Expr) :
    eval (n + 1) P ρ w (.ite c t e) = (eval n P ρ w c).andThen (fun v w =>
      match v with
      | .bool true => eval n P ρ w t
      | .bool false => eval n P ρ w e
      | _ => .fail (.stuck "if on a non-boolean") w) := by
  rw [eval]; split <;> simp_all [Res.andThen]
theorem eval_while (c b : Expr) :
    eval (n + 1) P ρ w (.while c b) = (eval n P ρ w c).andThen (fun v w =>
      match v with
      | .bool true => (eval n P ρ w b).andThen (fun _ w => eval n P ρ w (.while c b))
      | .bool false => .ok .unit w
      | _ => .fail (.stuck "while on a non-boolean") w) := by
  rw [eval]; split <;> simp_all [Res.andThen]
  split <;> simp_all
theorem eval_go (e : Expr) :
    eval (n + 1) P ρ w (.go e) = (eval n P ρ w e).andThen (fun v w =>
      if w.eager then (apply n P w v []).andThen (fun _ w => .ok .unit w)
      else .ok .unit { w with spawned := w.spawned ++ [v] }) := by
  rw [eval]
  cases eval n P ρ w e with
  | fail f w1 => rfl
  | ok v w1 =>
    simp only [Res.andThen_ok]
    cases w1.eager <;> simp
    cases apply n P w1 v [] <;> rfl
theorem eval_cget (c : Ctor) (i : Nat) (t : Ty) (e : Expr) :
    eval (n + 1) P ρ w (.cget c i t e) = (eval n P ρ w e).andThen (fun v w =>
      match v with
      | .enumV _ _ args => match args[i]? with
        | some v => .ok v w
        | none => .fail (.stuck "constructor field out of range") w
      | .structV _ fs => match fs[i]? with
        | some v => .ok v w
        | none => .fail (.stuck "struct field out of range") w
      | _ => .fail (.stuck "field access on a non-constructor value") w) := by
  rw [eval]; split <;> simp_all [Res.andThen] <;> rfl
theorem eval_proj (i : Nat) (t : Ty) (e : Expr) :
    eval (n + 1) P ρ w (.proj i t e) = (eval n P ρ w e).andThen (fun v w =>
      match v with
      | .tuple vs => match vs[i]? with
        | some v => .ok v w
        | none => .fail (.stuck "tuple index out of range") w
      | _ => .fail (.stuck "projection from a non-tuple") w) := by
  rw [eval]; split <;> simp_all [Res.andThen] <;> rfl
theorem eval_un (op : UnOp) (t : Ty) (e : Expr) :
    eval (n + 1) P ρ w (.un op t e) = (eval n P ρ w e).andThen (fun v w =>
      match unop op v with
      | .ok r => .ok r w
      | .error f => .fail f w) := by
  rw [eval]; cases eval n P ρ w e <;> rfl
/-- `false && _` -/
def scAnd : BinOp → Val → Bool
  | .and, .bool false => true
  | _, _ => false
/-- `true || _` -/
def scOr : BinOp → Val → Bool
  | .or, .bool true => true
  | _, _ => false

theorem eval_bin (op : BinOp) (t : Ty) (l r : Expr) :
    eval (n + 1) P ρ w (.bin op t l r) = (eval n P ρ w l).andThen (fun a w =>
      if scAnd op a then .ok (.bool false) w
      else if scOr op a then .ok (.bool true) w
      else if logicalNonBool op a then .fail (.stuck "logical operator on a non-boolean") w
      else (eval n P ρ w r).andThen (fun b w =>
        match binop op a b with
        | .ok v => .ok v w
        | .error f => .fail f w)) := by
  rw [eval]; cases eval n P ρ w l with
  | fail f w1 => rfl
  | ok a w1 =>
    simp only [Res.andThen_ok]
    split
    · simp [scAnd]
    · simp [scAnd, scOr]
    · rename_i h1 h2
      have ha : scAnd op a = false := by
        unfold scAnd; split
        · exact absurd rfl (h1 rfl)
        · rfl
      have ho : scOr op a = false := by
        unfold scOr; split
        · exact absurd rfl (h2 rfl)
        · rfl
      simp only [ha, ho]
      by_cases hl : logicalNonBool op a = true
      · simp [hl]
      · simp only [hl]
        cases eval n P ρ w1 r <;> rfl
theorem eval_call (t : Ty) (f : Expr) (args : List Expr) :
    eval (n + 1) P ρ w (.call t f args) = (eval n P ρ w f).andThen (fun fv w =>
      (evalList n P ρ w args).andThen (fun vs w => apply n P w fv vs)) := by
  rw [eval]; cases eval n P ρ w f with
  | fail f w1 => rfl
  | ok a w1 => simp only [Res.andThen_ok]; cases evalList n P ρ w1 args <;> rfl
theorem eval_toDyn (tr : String) (forTy t : Ty) (e : Expr) :
    eval (n + 1) P ρ w (.toDyn tr forTy t e) = (eval n P ρ w e).andThen (fun v w => .ok (.dyn tr (tyKey forTy) v) w) := by
  rw [eval]; cases eval n P ρ w e <;> rfl
theorem eval_dynCall (tr m : String) (t : Ty) (recv : Expr) (args : List Expr) :
    eval (n + 1) P ρ w (.dynCall tr m t recv args) = (eval n P ρ w recv).andThen (fun rv w =>
      match rv with
      | .dyn _ key v => (evalList n P ρ w args).andThen (fun vs w =>
        match P.impls.find? (fun i => i.1 == tr && i.2.1 == key && i.2.2.1 == m) with
        | some i => apply n P w (.fn i.2.2.2) (v :: vs)
        | none => .fail (.stuck ("no impl of " ++ tr ++ " for " ++ key)) w)
      | _ => .fail (.stuck "dyn call on a non-dyn value") w) := by
  rw [eval]; split <;> simp_all [Res.andThen]
  split <;> simp_all
  rfl

theorem evalList_nil_at : evalList (n + 1) P ρ w [] = .ok [] w := by rw [evalList]
theorem evalList_cons_at (e : Expr) (es : List Expr) :
    evalList (n + 1) P ρ w (e :: es) = (eval n P ρ w e).andThen (fun v w =>
      (evalList n P ρ w es).andThen (fun vs w => .ok (v :: vs) w)) := by
  rw [evalList]; cases eval n P ρ w e with
  | fail f w1 => rfl
  | ok a w1 => simp only [Res.andThen_ok]; cases evalList n P ρ w1 es <;> rfl

theorem evalArms_nil_at (v : Val) (d : Option Expr) :
    evalArms (n + 1) P ρ w v [] d =
      match d with
      | some d => eval n P ρ w d
      | none => .fail (.stuck "no arm selected and no default") w := by
  cases d <;> rw [evalArms]
theorem evalArms_cons_at (v : Val) (lhs body : Expr) (rest : List Arm) (d : Option Expr) :
    evalArms (n + 1) P ρ w v (.mk lhs body :: rest) d =
      if armMatches lhs v then eval n P ρ w body else evalArms n P ρ w v rest d := by
  rw [evalArms]

theorem apply_closure (ps : List String) (body : Expr) (ρc : Env) (args : List Val) :
    apply (n + 1) P w (.closure ps body ρc) args = eval n P (bindParams ps args ρc) w body := by rw [apply]
theorem apply_fn (name : String) (args : List Val) :
    apply (n + 1) P w (.fn name) args =
      match P.findFn name with
      | some fn => eval n P (bindParams (fn.params.map (·.1)) args []) w fn.body
      | none =>
        match builtin name args w with
        | some r => r
        | none => .ok .unit { w with externs := w.externs ++ [name] } := by rw [apply]; rfl
theorem apply_structV (sn : String) (fs : List Val) (args : List Val) :
    apply (n + 1) P w (.structV sn fs) args =
      match P.findFn ("inherent#" ++ sn ++ "#" ++ sn ++ "#apply") with
      | some fn => eval n P (bindParams (fn.params.map (·.1)) (.structV sn fs :: args) []) w fn.body
      | none => .fail (.stuck ("no apply function for " ++ sn)) w := by rw [apply]; rfl

end Goml.Sem
