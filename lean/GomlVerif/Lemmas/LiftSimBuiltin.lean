import GomlVerif.Lemmas.LiftSimRel
/-! C08: builtins, operators and arm selection respect the simulation relation -/
namespace Goml.Lift
open Goml Goml.Sem

section
variable {P P' : Prog}

theorem WRel.with_out {w w' : World} (h : WRel P P' w w') (s : String) :
    WRel P P' { w with out := w.out ++ s } { w' with out := w'.out ++ s } :=
  ⟨by simp [h.out], h.store, h.spawned, h.externs, h.eager⟩

theorem WRel.with_externs {w w' : World} (h : WRel P P' w w') (s : String) :
    WRel P P' { w with externs := w.externs ++ [s] } { w' with externs := w'.externs ++ [s] } :=
  ⟨h.out, h.store, h.spawned, by simp [h.externs], h.eager⟩

theorem WRel.with_spawned {w w' : World} (h : WRel P P' w w') {v v' : Val} (hv : VRel P P' v v') :
    WRel P P' { w with spawned := w.spawned ++ [v] } { w' with spawned := w'.spawned ++ [v'] } :=
  ⟨h.out, h.store, h.spawned.append (.singleton hv), h.externs, h.eager⟩

theorem WRel.size_eq {w w' : World} (h : WRel P P' w w') : w.store.size = w'.store.size := by
  have := h.store.length_eq
  simpa using this

theorem WRel.push {w w' : World} (h : WRel P P' w w') {v v' : Val} (hv : VRel P P' v v') :
    WRel P P' { w with store := w.store.push v } { w' with store := w'.store.push v' } :=
  ⟨h.out, by simpa using h.store.append (.singleton hv), h.spawned, h.externs, h.eager⟩

theorem WRel.set {w w' : World} (h : WRel P P' w w') {v v' : Val} (hv : VRel P P' v v') (l : Nat) :
    WRel P P' { w with store := w.store.set! l v } { w' with store := w'.store.set! l v' } :=
  ⟨h.out, by simpa using h.store.set hv l, h.spawned, h.externs, h.eager⟩

theorem WRel.store_get {w w' : World} (h : WRel P P' w w') (l : Nat) :
    (w.store[l]? = none ∧ w'.store[l]? = none) ∨
      ∃ v v', w.store[l]? = some v ∧ w'.store[l]? = some v' ∧ VRel P P' v v' := by
  simpa using h.store.get l

def BRel (P P' : Prog) (r r' : Option (Res Val)) : Prop :=
  match r, r' with
  | none, none => True
  | some r, some r' => ResRel P P' .any r r'
  | _, _ => False

theorem ResRel.ok_any {v v' : Val} {w w' : World} (hv : VRel P P' v v') (hw : WRel P P' w w') :
    ResRel P P' .any (.ok v w) (.ok v' w') := ⟨hv, HasShape.any _, hw⟩

theorem ResRel.fail_same {f : Fail} {w w' : World} (hw : WRel P P' w w') {s : Shape} :
    ResRel P P' s (.fail f w) (.fail f w') := ⟨rfl, hw⟩

set_option maxRecDepth 4000 in
set_option maxHeartbeats 1600000 in
theorem builtin_rel (name : String) {args args' : List Val} {w w' : World}
    (h : VRelList P P' args args') (hw : WRel P P' w w') :
    BRel P P' (builtin name args w) (builtin name args' w') := by
  unfold builtin
  split
  case h_21 =>
    -- no builtin of that name and shape: the same holds for the related arguments
    split
    all_goals first
      | exact trivial
      | (exfalso
         repeat (first
           | cases ‹VRelList P P' _ (_ :: _)›
           | cases ‹VRelList P P' _ []›
           | cases ‹VRel P P' _ Val.unit›
           | cases ‹VRel P P' _ (Val.bool _)›
           | cases ‹VRel P P' _ (Val.int _ _ _)›
           | cases ‹VRel P P' _ (Val.float _ _)›
           | cases ‹VRel P P' _ (Val.str _)›
           | cases ‹VRel P P' _ (Val.ref _)›
           | cases ‹VRel P P' _ (Val.array _)›
           | cases ‹VRel P P' _ (Val.vec _)›)
         first | (solve_by_elim) | simp_all)
  all_goals
    repeat (first
      | cases ‹VRelList P P' (_ :: _) _›
      | cases ‹VRelList P P' [] _›
      | cases ‹VRel P P' Val.unit _›
      | cases ‹VRel P P' (Val.bool _) _›
      | cases ‹VRel P P' (Val.int _ _ _) _›
      | cases ‹VRel P P' (Val.float _ _) _›
      | cases ‹VRel P P' (Val.str _) _›
      | cases ‹VRel P P' (Val.ref _) _›
      | cases ‹VRel P P' (Val.array _) _›
      | cases ‹VRel P P' (Val.vec _) _›)
  all_goals (try simp only [])
  all_goals first
    | (simp only [BRel]
       first
        | exact ResRel.fail_same hw
        | exact ResRel.ok_any (.str _) hw
        | exact ResRel.ok_any (.int _ _ _) hw
        | exact ResRel.ok_any (.vec .nil) hw
        | exact ResRel.ok_any .unit (hw.with_out _)
        | exact ResRel.ok_any .unit ((hw.with_out _).with_out _)
        | exact ResRel.ok_any (.vec (VRelList.append ‹_› (.singleton ‹_›))) hw
        | (rw [hw.size_eq]; exact ResRel.ok_any (.ref _) (hw.push ‹_›))
        | (rw [VRelList.length_eq ‹_›]; exact ResRel.ok_any (.int _ _ _) hw))
    | (rename_i l
       rcases hw.store_get l with ⟨h1, h2⟩ | ⟨v, v', h1, h2, hv⟩
       · simp only [h1, h2, BRel]; exact ResRel.fail_same hw
       · simp only [h1, h2, BRel]; exact ResRel.ok_any hv hw)
    | (rename_i i _ hvs
       split
       · simp only [BRel]; exact ResRel.fail_same hw
       · rcases VRelList.get hvs i.toNat with ⟨h1, h2⟩ | ⟨v, v', h1, h2, hv⟩
         · simp only [h1, h2, BRel]; exact ResRel.fail_same hw
         · simp only [h1, h2, BRel]; exact ResRel.ok_any hv hw)
    | (rw [← hw.size_eq]
       split
       · simp only [BRel]; exact ResRel.ok_any .unit (hw.set ‹_› _)
       · simp only [BRel]; exact ResRel.fail_same hw)
    | (rename_i hvs
       rw [← VRelList.length_eq hvs]
       split
       · simp only [BRel]; exact ResRel.fail_same hw
       · simp only [BRel]; exact ResRel.ok_any (.array (VRelList.set hvs ‹_› _)) hw)
    | (repeat' split
       all_goals (simp only [BRel])
       all_goals first
        | exact trivial
        | exact ResRel.fail_same hw
        | exact ResRel.ok_any (.str _) hw)
/-! ### operators -/

def ExRel (P P' : Prog) : Except Fail Val → Except Fail Val → Prop
  | .ok v, .ok v' => VRel P P' v v'
  | .error f, .error f' => f = f'
  | _, _ => False

theorem valEq_rel {a a' b b' : Val} (h1 : VRel P P' a a') (h2 : VRel P P' b b') : valEq a' b' = valEq a b := by
  cases h1 <;> cases h2 <;> simp [valEq]

set_option maxHeartbeats 4000000 in
theorem binop_rel (op : BinOp) {a a' b b' : Val} (h1 : VRel P P' a a') (h2 : VRel P P' b b') :
    ExRel P P' (binop op a b) (binop op a' b') := by
  cases h1
  case unit => cases h2 <;> cases op <;> simp [binop, valEq, ExRel] <;> (try constructor)
  case bool => cases h2 <;> cases op <;> simp [binop, valEq, ExRel] <;> (try constructor)
  case int =>
    cases h2 <;> cases op <;> simp [binop, valEq, ExRel] <;> (try constructor)
    all_goals (rename_i y; by_cases hz : y = 0 <;> simp [hz] <;> constructor)
  case float => cases h2 <;> cases op <;> simp [binop, valEq, ExRel] <;> (try constructor)
  case str => cases h2 <;> cases op <;> simp [binop, valEq, ExRel] <;> (try constructor)
  all_goals (cases op <;> simp [binop, valEq, ExRel])

theorem unop_rel (op : UnOp) {a a' : Val} (h1 : VRel P P' a a') : ExRel P P' (unop op a) (unop op a') := by
  cases h1 <;> cases op <;> simp [unop, ExRel] <;> (try constructor)

theorem primEq_eq {p q : Prim} (h : primEq p q = true) : p = q := by
  cases p <;> cases q <;> simp_all [primEq]

/-! ### arm selection -/

def headMatches : Head → Val → Bool
  | .ctor i, .enumV _ j _ => i == j
  | .lit p, v => (valEq (primVal p) v).getD false
  | _, _ => false

theorem armMatches_eq (lhs : Expr) (v : Val) : armMatches lhs v = headMatches (armHead lhs) v := by
  cases lhs with
  | constr c ty args => cases c <;> cases v <;> simp [armMatches, armHead, headMatches]
  | tag i ty => cases v <;> simp [armMatches, armHead, headMatches]
  | prim p => cases v <;> simp [armMatches, armHead, headMatches]
  | _ => cases v <;> simp [armMatches, armHead, headMatches]

theorem VRel_primVal (p : Prim) : VRel P P' (primVal p) (primVal p) := by
  cases p <;> simp [primVal] <;> constructor

theorem headMatches_rel {h h' : Head} {v v' : Val} (hh : headEq h h' = true) (hv : VRel P P' v v') :
    headMatches h' v' = headMatches h v := by
  cases h <;> cases h' <;> simp [headEq] at hh
  · subst hh; cases hv <;> simp [headMatches]
  · have := primEq_eq hh; subst this
    simp only [headMatches]
    rw [valEq_rel (VRel_primVal _) hv]
  · cases hv <;> simp [headMatches]

theorem armMatches_rel {lhs lhs' : Expr} {v v' : Val} (hh : headEq (armHead lhs) (armHead lhs') = true)
    (hv : VRel P P' v v') : armMatches lhs' v' = armMatches lhs v := by
  rw [armMatches_eq, armMatches_eq, headMatches_rel hh hv]

end
end Goml.Lift
