import GomlVerif.Lemmas.LiftSimRel
/-! C08: environments in the simulation (let, parameters, captured-variable rebinding) -/
namespace Goml.Lift
open Goml Goml.Sem

theorem lookupEnv_cons (x y : String) (v : Val) (ρ : Sem.Env) :
    lookupEnv ((x, v) :: ρ) y = if x == y then some v else lookupEnv ρ y := by
  unfold lookupEnv
  simp only [List.find?_cons]
  by_cases h : (x == y) = true <;> simp [h]

theorem lookupEnv_nil (y : String) : lookupEnv [] y = none := by simp [lookupEnv]

theorem valOf_cons_self (x : String) (v : Val) (ρ : Sem.Env) : valOf ((x, v) :: ρ) x = v := by
  simp [valOf, lookupEnv_cons]

theorem valOf_cons_ne {x y : String} (h : x ≠ y) (v : Val) (ρ : Sem.Env) : valOf ((x, v) :: ρ) y = valOf ρ y := by
  simp [valOf, lookupEnv_cons, h]

theorem valOf_of_none {ρ : Sem.Env} {x : String} (h : lookupEnv ρ x = none) : valOf ρ x = .fn x := by
  simp [valOf, h]

theorem SEnv.get_cons (x y : String) (s : Shape) (Γ : SEnv) :
    SEnv.get ((x, s) :: Γ) y = if x == y then s else Γ.get y := by
  unfold SEnv.get
  simp only [List.find?_cons]
  by_cases h : (x == y) = true <;> simp [h]

theorem SEnv.get_nil (y : String) : SEnv.get [] y = .any := by simp [SEnv.get]

theorem SEnv.get_map_of_mem (Γ : SEnv) (ys : List String) (x : String) (h : x ∈ ys) :
    SEnv.get (ys.map (fun y => (y, Γ.get y))) x = Γ.get x := by
  induction ys with
  | nil => cases h
  | cons y ys ih =>
    simp only [List.map_cons, SEnv.get_cons]
    by_cases hy : y = x
    · subst hy; simp
    · have : x ∈ ys := by
        rcases List.mem_cons.mp h with h | h
        · exact absurd h.symm hy
        · exact h
      simp [hy, ih this]

theorem SEnv.get_map_of_not_mem (Γ : SEnv) (ys : List String) (x : String) (h : x ∉ ys) :
    SEnv.get (ys.map (fun y => (y, Γ.get y))) x = .any := by
  induction ys with
  | nil => simp [SEnv.get]
  | cons y ys ih =>
    simp only [List.map_cons, SEnv.get_cons]
    have hy : y ≠ x := fun e => h (e ▸ List.mem_cons_self)
    have : x ∉ ys := fun e => h (List.mem_cons_of_mem _ e)
    simp [hy, ih this]

theorem lookupEnv_bindParams_of_not_mem (ps : List String) : ∀ (args : List Val) (ρ : Sem.Env) (x : String),
    x ∉ ps → lookupEnv (bindParams ps args ρ) x = lookupEnv ρ x := by
  induction ps with
  | nil => intro args ρ x _; cases args <;> rfl
  | cons p ps ih =>
    intro args ρ x hx
    cases args with
    | nil => rfl
    | cons a as =>
      have hp : p ≠ x := fun e => hx (e ▸ List.mem_cons_self)
      have : x ∉ ps := fun e => hx (List.mem_cons_of_mem _ e)
      simp only [bindParams]
      rw [ih as _ x this, lookupEnv_cons]
      simp [hp]

theorem valOf_bindParams_of_not_mem (ps : List String) (args : List Val) (ρ : Sem.Env) (x : String)
    (h : x ∉ ps) : valOf (bindParams ps args ρ) x = valOf ρ x := by
  simp [valOf, lookupEnv_bindParams_of_not_mem ps args ρ x h]

section
variable {P P' : Prog}

/-- binding related arguments to the same parameter names keeps any property of pairs of values
    that holds of related values and of the base environments -/
theorem bindParams_rel (Q : String → Val → Val → Prop) (ps : List String) :
    ∀ (args args' : List Val) (ρ ρ' : Sem.Env), VRelList P P' args args' →
      (∀ x v v', VRel P P' v v' → x ∈ ps → Q x v v') →
      ∀ x, Q x (valOf ρ x) (valOf ρ' x) → Q x (valOf (bindParams ps args ρ) x) (valOf (bindParams ps args' ρ') x) := by
  induction ps with
  | nil => intro args args' ρ ρ' h _ x hb; cases h <;> exact hb
  | cons p ps ih =>
    intro args args' ρ ρ' h hq x hb
    cases h with
    | nil => exact hb
    | cons h1 h2 =>
      simp only [bindParams]
      apply ih _ _ _ _ h2 (fun x v v' hv hx => hq x v v' hv (List.mem_cons_of_mem _ hx))
      by_cases hp : p = x
      · subst hp
        rw [valOf_cons_self, valOf_cons_self]
        exact hq _ _ _ h1 List.mem_cons_self
      · rw [valOf_cons_ne hp, valOf_cons_ne hp]; exact hb

/-- extending both environments by a `let` -/
theorem EnvRel.cons {Γ : SEnv} {S T : List String} {ρ ρ' : Sem.Env} (h : EnvRel P P' Γ S T ρ ρ')
    {x : String} {v v' : Val} {s : Shape} (hv : VRel P P' v v') (hs : HasShape s v') :
    EnvRel P P' ((x, s) :: Γ) (x :: S) (x :: T) ((x, v) :: ρ) ((x, v') :: ρ') := by
  refine ⟨?_, ?_, ?_⟩
  · intro y hyS hyT
    by_cases hxy : x = y
    · subst hxy
      rw [valOf_cons_self, valOf_cons_self, SEnv.get_cons]
      simpa using ⟨hv, hs⟩
    · have hS : y ∈ S := by
        rcases List.mem_cons.mp hyS with e | e
        · exact absurd e.symm hxy
        · exact e
      have hT : y ∈ T := by
        rcases List.mem_cons.mp hyT with e | e
        · exact absurd e.symm hxy
        · exact e
      rw [valOf_cons_ne hxy, valOf_cons_ne hxy, SEnv.get_cons]
      simpa [hxy] using h.rel y hS hT
  · intro y hy
    have hxy : x ≠ y := fun e => hy (e ▸ List.mem_cons_self)
    rw [lookupEnv_cons]
    simp [hxy, h.src y (fun e => hy (List.mem_cons_of_mem _ e))]
  · intro y hy
    have hxy : x ≠ y := fun e => hy (e ▸ List.mem_cons_self)
    rw [lookupEnv_cons]
    simp [hxy, h.tgt y (fun e => hy (List.mem_cons_of_mem _ e))]

theorem VRel.fn_of_globalOk {x : String} (h : globalOk P P' x = true) : VRel P P' (.fn x) (.fn x) := by
  apply VRel.fn
  intro hn
  simp only [globalOk, hn, Option.isSome_none, Bool.false_or, Option.isNone_iff_eq_none] at h
  exact h

/-- the environments of a top-level function and its lifted counterpart -/
theorem EnvRel.params {ps : List String} {args args' : List Val} (hg : ∀ p ∈ ps, globalOk P P' p = true)
    (h : VRelList P P' args args') :
    EnvRel P P' [] ps ps (bindParams ps args []) (bindParams ps args' []) := by
  refine ⟨?_, ?_, ?_⟩
  · intro x hx _
    have := bindParams_rel (P := P) (P' := P') (fun x v v' => x ∈ ps → VRel P P' v v') ps args args' [] [] h
      (fun _ _ _ hv _ _ => hv) x (by
        intro hx
        rw [valOf_of_none (lookupEnv_nil x)]
        exact VRel.fn_of_globalOk (hg x hx))
    exact ⟨this hx, by rw [SEnv.get_nil]; exact HasShape.any _⟩
  · intro x hx; rw [lookupEnv_bindParams_of_not_mem _ _ _ _ hx]; exact lookupEnv_nil x
  · intro x hx; rw [lookupEnv_bindParams_of_not_mem _ _ _ _ hx]; exact lookupEnv_nil x

/-- the rebinding of the captured variables gives every captured name a value related to the one
    it had in the creator's environment, with the shape known there -/
theorem CapRel.valOf {Γ : SEnv} {ρc : Sem.Env} (x : String) : ∀ (ys : List String) (vs' : List Val),
    CapRel P P' Γ ρc ys vs' → ∀ (base : Sem.Env),
      (x ∈ ys ∨ (VRel P P' (valOf ρc x) (valOf base x) ∧ HasShape (Γ.get x) (valOf base x))) →
      VRel P P' (valOf ρc x) (valOf (bindParams ys vs' base) x) ∧ HasShape (Γ.get x) (valOf (bindParams ys vs' base) x) := by
  intro ys
  induction ys with
  | nil =>
    intro vs' h base hb
    cases h
    rcases hb with hb | hb
    · cases hb
    · simpa [bindParams] using hb
  | cons y ys ih =>
    intro vs' h base hb
    cases h with
    | cons hv hs hrest =>
      simp only [bindParams]
      apply ih _ hrest
      by_cases hy : y = x
      · subst hy
        right
        rw [valOf_cons_self]
        exact ⟨hv, hs⟩
      · rcases hb with hb | hb
        · left
          rcases List.mem_cons.mp hb with e | e
          · exact absurd e.symm hy
          · exact e
        · right
          rw [valOf_cons_ne hy]
          exact hb

theorem CapRel.length_eq {Γ : SEnv} {ρc : Sem.Env} : ∀ (ys : List String) (vs' : List Val),
    CapRel P P' Γ ρc ys vs' → ys.length = vs'.length := by
  intro ys
  induction ys with
  | nil => intro vs' h; cases h; rfl
  | cons y ys ih => intro vs' h; cases h with | cons _ _ hr => simp [ih _ hr]

/-- the environments in which a closure body and its lifted form run -/
theorem EnvRel.closureBody {Γ : SEnv} {S : List String} {ρc : Sem.Env} {ys ps : List String} {vs' : List Val}
    {envp : String} {sv : Val} {args args' : List Val}
    (hcap : CapRel P P' Γ ρc ys vs') (hsrc : ∀ x, x ∉ S → lookupEnv ρc x = none)
    (hys : ∀ y, y ∈ ys → y ∈ S ∧ y ∉ ps ∧ y ≠ envp)
    (hps : ∀ p, p ∈ ps → p ∉ S ∧ p ≠ envp ∧ globalOk P P' p = true) (henv : envp ∉ S)
    (hargs : VRelList P P' args args') :
    EnvRel P P' (ys.map (fun y => (y, Γ.get y))) (ps ++ S) (ys ++ ps ++ [envp])
      (bindParams ps args ρc) (bindParams ys vs' (bindParams ps args' [(envp, sv)])) := by
  refine ⟨?_, ?_, ?_⟩
  · intro x hxS hxT
    by_cases hxy : x ∈ ys
    · have hxp : x ∉ ps := (hys x hxy).2.1
      rw [valOf_bindParams_of_not_mem ps args ρc x hxp, SEnv.get_map_of_mem Γ ys x hxy]
      exact CapRel.valOf x ys vs' hcap _ (Or.inl hxy)
    · have hxp : x ∈ ps := by
        simp only [List.mem_append, List.mem_singleton] at hxT hxS
        rcases hxT with (h | h) | h
        · exact absurd h hxy
        · exact h
        · subst h
          rcases hxS with h | h
          · exact h
          · exact absurd h henv
      rw [valOf_bindParams_of_not_mem ys vs' _ x hxy, SEnv.get_map_of_not_mem Γ ys x hxy]
      refine ⟨?_, HasShape.any _⟩
      have := bindParams_rel (P := P) (P' := P') (fun x v v' => x ∈ ps → VRel P P' v v') ps args args' ρc [(envp, sv)] hargs
        (fun _ _ _ hv _ _ => hv) x (by
          intro hx
          obtain ⟨h1, h2, h3⟩ := hps x hx
          rw [valOf_of_none (hsrc x h1)]
          have : lookupEnv [(envp, sv)] x = none := by
            rw [lookupEnv_cons]; simp [Ne.symm h2, lookupEnv_nil]
          rw [valOf_of_none this]
          exact VRel.fn_of_globalOk h3)
      exact this hxp
  · intro x hx
    simp only [List.mem_append, not_or] at hx
    rw [lookupEnv_bindParams_of_not_mem _ _ _ _ hx.1]
    exact hsrc x hx.2
  · intro x hx
    simp only [List.mem_append, List.mem_singleton, not_or] at hx
    rw [lookupEnv_bindParams_of_not_mem _ _ _ _ hx.1.1, lookupEnv_bindParams_of_not_mem _ _ _ _ hx.1.2,
      lookupEnv_cons]
    simp [Ne.symm hx.2, lookupEnv_nil]

end

/-! ### evaluating the rebinding prefix of an apply function -/

theorem unrebind_cons_inv {n envp : String} {i : Nat} {y : String} {ys : List String} {e body' : Expr}
    (h : unrebind n envp i (y :: ys) e = some body') :
    ∃ t1 t2 rest, e = .letE y (.cget (.struct n) i t1 (.var envp t2)) rest ∧
      unrebind n envp (i + 1) ys rest = some body' := by
  unfold unrebind at h
  split at h
  · rename_i heq; cases heq
  · rename_i heq
    simp only [List.cons.injEq] at heq
    obtain ⟨rfl, rfl⟩ := heq
    split at h
    · rename_i hc
      simp only [Bool.and_eq_true, beq_iff_eq] at hc
      obtain ⟨⟨⟨rfl, rfl⟩, rfl⟩, rfl⟩ := hc
      exact ⟨_, _, _, rfl, h⟩
    · cases h
  · cases h

theorem eval_unrebind (P' : Prog) (n envp : String) (vs' : List Val) (w : World) (body' : Expr) (r : Res Val) :
    ∀ (ys : List String) (i : Nat) (e : Expr) (ρ0 : Sem.Env) (k : Nat),
      unrebind n envp i ys e = some body' →
      lookupEnv ρ0 envp = some (.structV n vs') →
      envp ∉ ys →
      i + ys.length ≤ vs'.length →
      (∀ m, k ≤ m → eval m P' (bindParams ys (vs'.drop i) ρ0) w body' = r) →
      ∀ m, k + ys.length + 2 ≤ m → eval m P' ρ0 w e = r := by
  intro ys
  induction ys with
  | nil =>
    intro i e ρ0 k hu _ _ _ hst m hm
    simp only [unrebind, Option.some.injEq] at hu
    subst hu
    have : bindParams [] (List.drop i vs') ρ0 = ρ0 := by cases (List.drop i vs') <;> rfl
    rw [this] at hst
    exact hst m (by omega)
  | cons y ys ih =>
    intro i e ρ0 k hu hl hne hlen hst m hm
    obtain ⟨t1, t2, rest, rfl, hu'⟩ := unrebind_cons_inv hu
    simp only [List.length_cons] at hlen hm
    have hi : i < vs'.length := by omega
    obtain ⟨m1, rfl⟩ : ∃ m1, m = m1 + 1 := ⟨m - 1, by omega⟩
    obtain ⟨m2, rfl⟩ : ∃ m2, m1 = m2 + 1 := ⟨m1 - 1, by omega⟩
    obtain ⟨m3, rfl⟩ : ∃ m3, m2 = m3 + 1 := ⟨m2 - 1, by omega⟩
    have hcget : eval (m3 + 1 + 1) P' ρ0 w (.cget (.struct n) i t1 (.var envp t2)) = .ok vs'[i] w := by
      rw [eval, eval]
      simp [hl, hi]
    rw [eval, hcget]
    simp only
    have hy : y ≠ envp := fun e => hne (e ▸ List.mem_cons_self)
    apply ih (i + 1) rest ((y, vs'[i]) :: ρ0) k hu'
    · rw [lookupEnv_cons]; simp [hy, hl]
    · exact fun e => hne (List.mem_cons_of_mem _ e)
    · omega
    · have hd : List.drop i vs' = vs'[i] :: List.drop (i + 1) vs' := by
        rw [List.drop_eq_getElem_cons hi]
      rw [hd] at hst
      simpa [bindParams] using hst
    · omega

end Goml.Lift
