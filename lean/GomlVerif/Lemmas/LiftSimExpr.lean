import GomlVerif.Lemmas.LiftSimProof
/-! C08: the simulation step for each expression form (fuel `n + 1`, given `SimAt n`) -/
namespace Goml.Lift
open Goml Goml.Sem

section
variable {P P' : Prog}

/-- the simulation statement for one source expression at one fuel -/
def ExprSim (P P' : Prog) (n : Nat) (e : Expr) : Prop :=
  ∀ {e' : Expr} {Γ : SEnv} {S T : List String} {ρ ρ' : Sem.Env} {w w' : World} {s : Shape},
    simE P P' Γ S T e e' = some s → EnvRel P P' Γ S T ρ ρ' → WRel P P' w w' → Good (eval n P ρ w e) →
    ∃ r', (∃ k, ∀ m, k ≤ m → eval m P' ρ' w' e' = r') ∧ ResRel P P' s (eval n P ρ w e) r'

theorem sim_var (n : Nat) (x : String) (t : Ty) : ExprSim P P' (n + 1) (.var x t) := by
  intro e' Γ S T ρ ρ' w w' s hs hρ hw _
  obtain ⟨t', rfl, hx⟩ := simE_var_inv hs
  rw [eval_var]
  refine ⟨.ok (valOf ρ' x) w', stable_succ (k := 0) (fun m _ => eval_var m P' ρ' w' x t'), ?_⟩
  rcases hx with ⟨hS, hT, rfl⟩ | ⟨hS, hT, hgl, rfl⟩
  · exact ⟨(hρ.rel x hS hT).1, (hρ.rel x hS hT).2, hw⟩
  · show ResRel P P' _ (.ok (valOf ρ x) w) _
    rw [valOf_of_none (hρ.src x hS), valOf_of_none (hρ.tgt x hT)]
    exact ⟨VRel.fn_of_globalOk hgl, HasShape.any _, hw⟩

theorem sim_prim (n : Nat) (p : Prim) : ExprSim P P' (n + 1) (.prim p) := by
  intro e' Γ S T ρ ρ' w w' s hs _ hw _
  obtain ⟨q, rfl, hpq, rfl⟩ := simE_prim_inv hs
  have := primEq_eq hpq
  subst this
  rw [eval_prim]
  exact ⟨.ok (primVal p) w', stable_succ (k := 0) (fun m _ => eval_prim m P' ρ' w' p), VRel_primVal p, HasShape.any _, hw⟩

theorem sim_tag (n : Nat) (i : Nat) (t : Ty) : ExprSim P P' (n + 1) (.tag i t) := by
  intro e' Γ S T ρ ρ' w w' s hs _ hw _
  obtain ⟨t', rfl, hk, rfl⟩ := simE_tag_inv hs
  rw [eval_tag, hk]
  exact ⟨.ok (.enumV (tagTyName t') i []) w', stable_succ (k := 0) (fun m _ => eval_tag m P' ρ' w' i t'),
    VRel.enumV .nil, HasShape.any _, hw⟩

theorem fieldsOk_hasShape {n : String} : ∀ (ss : List Shape) (j : Nat) (vs' : List Val),
    fieldsOk P' n j ss = true → HasShapes ss vs' →
    ∀ i v', vs'[i]? = some v' → HasShape (fieldShape P' n (j + i)) v' := by
  intro ss
  induction ss with
  | nil =>
    intro j vs' _ hv i v' hi
    simp only [HasShapes] at hv; subst hv; simp at hi
  | cons a ss ih =>
    intro j vs' hf hv i v' hi
    simp only [fieldsOk, Bool.and_eq_true] at hf
    simp only [HasShapes] at hv
    obtain ⟨v0, rest, rfl, h1, h2⟩ := hv
    cases i with
    | zero =>
      simp at hi; subst hi
      exact HasShape.mono _ _ _ hf.1 h1
    | succ i =>
      have := ih (j + 1) rest hf.2 h2 i v' (by simpa using hi)
      simpa [Nat.add_assoc, Nat.add_comm 1 i] using this

theorem sim_constr {n : Nat} (ih : SimAt P P' n) (c : Ctor) (t : Ty) (args : List Expr) :
    ExprSim P P' (n + 1) (.constr c t args) := by
  intro e' Γ S T ρ ρ' w w' s hs hρ hw hg
  obtain ⟨t', args', ss, rfl, hl, hc⟩ := simE_constr_inv hs
  rw [eval_constr] at hg ⊢
  refine lift_shift (fun m => eval_constr m P' ρ' w' c t' args') ?_
  refine sim_bindL0 ih (ResRel.failClosed s) hl hρ hw ?_ hg
  intro vs vs' w1 w1' hvs hss hw1 _
  rcases hc with ⟨sn, rfl, hf, rfl⟩ | ⟨a, b, i, rfl, rfl⟩
  · refine ⟨.ok (.structV sn vs') w1', ⟨0, fun _ _ => rfl⟩, ?_⟩
    refine ⟨VRel.structV hvs ?_, ⟨vs', rfl⟩, hw1⟩
    intro i v' hi
    simpa using fieldsOk_hasShape ss 0 vs' hf hss i v' hi
  · exact ⟨.ok (.enumV a i vs') w1', ⟨0, fun _ _ => rfl⟩, VRel.enumV hvs, HasShape.any _, hw1⟩

theorem sim_tuple {n : Nat} (ih : SimAt P P' n) (t : Ty) (items : List Expr) :
    ExprSim P P' (n + 1) (.tuple t items) := by
  intro e' Γ S T ρ ρ' w w' s hs hρ hw hg
  obtain ⟨t', items', ss, rfl, hl, rfl⟩ := simE_tuple_inv hs
  rw [eval_tuple] at hg ⊢
  refine lift_shift (fun m => eval_tuple m P' ρ' w' t' items') ?_
  refine sim_bindL0 ih (ResRel.failClosed _) hl hρ hw ?_ hg
  intro vs vs' w1 w1' hvs hss hw1 _
  exact ⟨.ok (.tuple vs') w1', ⟨0, fun _ _ => rfl⟩, VRel.tuple hvs, ⟨vs', rfl, hss⟩, hw1⟩

theorem sim_array {n : Nat} (ih : SimAt P P' n) (t : Ty) (items : List Expr) :
    ExprSim P P' (n + 1) (.array t items) := by
  intro e' Γ S T ρ ρ' w w' s hs hρ hw hg
  obtain ⟨t', items', ss, rfl, hl, rfl⟩ := simE_array_inv hs
  rw [eval_array] at hg ⊢
  refine lift_shift (fun m => eval_array m P' ρ' w' t' items') ?_
  refine sim_bindL0 ih (ResRel.failClosed _) hl hρ hw ?_ hg
  intro vs vs' w1 w1' hvs _ hw1 _
  exact ⟨.ok (.array vs') w1', ⟨0, fun _ _ => rfl⟩, VRel.array hvs, HasShape.any _, hw1⟩

theorem sim_letE {n : Nat} (ih : SimAt P P' n) (x : String) (v b : Expr) :
    ExprSim P P' (n + 1) (.letE x v b) := by
  intro e' Γ S T ρ ρ' w w' s hs hρ hw hg
  obtain ⟨v', b', s1, rfl, h1, h2⟩ := simE_letE_inv hs
  rw [eval_letE] at hg ⊢
  refine lift_shift (fun m => eval_letE m P' ρ' w' x v' b') ?_
  refine sim_bind0 ih (ResRel.failClosed _) h1 hρ hw ?_ hg
  intro vv vv' w1 w1' hv hsv hw1 _ hgK
  exact ih.expr h2 (hρ.cons hv hsv) hw1 hgK

theorem sim_matchE {n : Nat} (ih : SimAt P P' n) (t : Ty) (scrut : Expr) (arms : List Arm) (d : Option Expr) :
    ExprSim P P' (n + 1) (.matchE t scrut arms d) := by
  intro e' Γ S T ρ ρ' w w' s hs hρ hw hg
  obtain ⟨t', scrut', arms', d', s1, rfl, h1, h2, h3, rfl⟩ := simE_matchE_inv hs
  rw [eval_matchE] at hg ⊢
  refine lift_shift (fun m => eval_matchE m P' ρ' w' t' scrut' arms' d') ?_
  refine sim_bind0 ih (ResRel.failClosed _) h1 hρ hw ?_ hg
  intro v v' w1 w1' hv _ hw1 _ hgK
  exact ih.arms h2 h3 hρ hw1 hv hgK

theorem sim_ite {n : Nat} (ih : SimAt P P' n) (c t e : Expr) : ExprSim P P' (n + 1) (.ite c t e) := by
  intro e' Γ S T ρ ρ' w w' s hs hρ hw hg
  obtain ⟨c', t', e2', s1, s2, s3, rfl, h1, h2, h3, rfl⟩ := simE_ite_inv hs
  rw [eval_ite] at hg ⊢
  refine lift_shift (fun m => eval_ite m P' ρ' w' c' t' e2') ?_
  refine sim_bind0 ih (ResRel.failClosed _) h1 hρ hw ?_ hg
  intro v v' w1 w1' hv _ hw1 _ hgK
  cases hv with
  | bool b =>
    cases b with
    | true =>
      obtain ⟨r', hst, hr⟩ := ih.expr h2 hρ hw1 hgK
      exact ⟨r', hst, by cases hq : eval n P ρ w1 t <;> (rw [hq] at hr; cases r' <;> simp_all [ResRel, HasShape])⟩
    | false =>
      obtain ⟨r', hst, hr⟩ := ih.expr h3 hρ hw1 hgK
      exact ⟨r', hst, by cases hq : eval n P ρ w1 e <;> (rw [hq] at hr; cases r' <;> simp_all [ResRel, HasShape])⟩
  | _ => exact absurd hgK not_good_stuck

theorem ResRel.weaken {s : Shape} {r r' : Res Val} (h : ResRel P P' s r r') : ResRel P P' .any r r' := by
  cases r <;> cases r' <;> simp_all [ResRel, HasShape]

theorem sim_while {n : Nat} (ih : SimAt P P' n) (c b : Expr) : ExprSim P P' (n + 1) (.while c b) := by
  intro e' Γ S T ρ ρ' w w' s hs hρ hw hg
  obtain ⟨c', b', s1, s2, rfl, h1, h2, rfl⟩ := simE_while_inv hs
  rw [eval_while] at hg ⊢
  refine lift_shift (fun m => eval_while m P' ρ' w' c' b') ?_
  refine sim_bind0 ih (ResRel.failClosed _) h1 hρ hw ?_ hg
  intro v v' w1 w1' hv _ hw1 _ hgK
  cases hv with
  | bool bb =>
    cases bb with
    | true =>
      refine sim_bind0 ih (ResRel.failClosed _) h2 hρ hw1 ?_ hgK
      intro _ _ w2 w2' _ _ hw2 _ hgK2
      exact ih.expr hs hρ hw2 hgK2
    | false => exact ⟨.ok .unit w1', ⟨0, fun _ _ => rfl⟩, VRel.unit, HasShape.any _, hw1⟩
  | _ => exact absurd hgK not_good_stuck

theorem sim_un {n : Nat} (ih : SimAt P P' n) (op : UnOp) (t : Ty) (e : Expr) : ExprSim P P' (n + 1) (.un op t e) := by
  intro e' Γ S T ρ ρ' w w' s hs hρ hw hg
  obtain ⟨t', e2', s1, rfl, h1, rfl⟩ := simE_un_inv hs
  rw [eval_un] at hg ⊢
  refine lift_shift (fun m => eval_un m P' ρ' w' op t' e2') ?_
  refine sim_bind0 ih (ResRel.failClosed _) h1 hρ hw ?_ hg
  intro v v' w1 w1' hv _ hw1 _ _
  have hr := unop_rel (P := P) (P' := P') op hv
  cases h1 : unop op v <;> cases h2 : unop op v' <;> rw [h1, h2] at hr <;> simp only [ExRel] at hr
  · subst hr; exact ⟨_, ⟨0, fun _ _ => rfl⟩, rfl, hw1⟩
  · exact ⟨_, ⟨0, fun _ _ => rfl⟩, hr, HasShape.any _, hw1⟩

theorem sim_toDyn {n : Nat} (ih : SimAt P P' n) (tr : String) (forTy t : Ty) (e : Expr) :
    ExprSim P P' (n + 1) (.toDyn tr forTy t e) := by
  intro e' Γ S T ρ ρ' w w' s hs hρ hw hg
  obtain ⟨forTy', t', e2', s1, rfl, hk, h1, rfl⟩ := simE_toDyn_inv hs
  rw [eval_toDyn] at hg ⊢
  refine lift_shift (fun m => eval_toDyn m P' ρ' w' tr forTy' t' e2') ?_
  refine sim_bind0 ih (ResRel.failClosed _) h1 hρ hw ?_ hg
  intro v v' w1 w1' hv _ hw1 _ _
  exact ⟨_, ⟨0, fun _ _ => rfl⟩, by rw [hk]; exact VRel.dyn hv, HasShape.any _, hw1⟩

theorem sim_proj {n : Nat} (ih : SimAt P P' n) (i : Nat) (t : Ty) (e : Expr) : ExprSim P P' (n + 1) (.proj i t e) := by
  intro e' Γ S T ρ ρ' w w' s hs hρ hw hg
  obtain ⟨t', e2', s1, rfl, h1, rfl⟩ := simE_proj_inv hs
  rw [eval_proj] at hg ⊢
  refine lift_shift (fun m => eval_proj m P' ρ' w' i t' e2') ?_
  refine sim_bind0 ih (ResRel.failClosed _) h1 hρ hw ?_ hg
  intro v v' w1 w1' hv hsv hw1 _ hgK
  cases hv with
  | tuple hvs =>
    rcases VRelList.get hvs i with ⟨a, b⟩ | ⟨x, x', a, b, hx⟩
    · simp only [a] at hgK; exact absurd hgK not_good_stuck
    · simp only [a, b]
      exact ⟨_, ⟨0, fun _ _ => rfl⟩, hx, HasShape.proj hsv b, hw1⟩
  | _ => exact absurd hgK not_good_stuck

theorem sim_cget {n : Nat} (ih : SimAt P P' n) (c : Ctor) (i : Nat) (t : Ty) (e : Expr) :
    ExprSim P P' (n + 1) (.cget c i t e) := by
  intro e' Γ S T ρ ρ' w w' s hs hρ hw hg
  obtain ⟨t', e2', s1, rfl, h1, rfl⟩ := simE_cget_inv hs
  rw [eval_cget] at hg ⊢
  refine lift_shift (fun m => eval_cget m P' ρ' w' c i t' e2') ?_
  refine sim_bind0 ih (ResRel.failClosed _) h1 hρ hw ?_ hg
  intro v v' w1 w1' hv hsv hw1 _ hgK
  cases hv with
  | enumV hvs =>
    rcases VRelList.get hvs i with ⟨a, b⟩ | ⟨x, x', a, b, hx⟩
    · simp only [a] at hgK; exact absurd hgK not_good_stuck
    · simp only [a, b]
      refine ⟨_, ⟨0, fun _ _ => rfl⟩, hx, ?_, hw1⟩
      unfold cgetShape
      split
      · rename_i n m
        simp only [HasShape] at hsv
        obtain ⟨_, hh⟩ := hsv
        cases hh
      · exact HasShape.any _
  | structV hvs hfs =>
    rcases VRelList.get hvs i with ⟨a, b⟩ | ⟨x, x', a, b, hx⟩
    · simp only [a] at hgK; exact absurd hgK not_good_stuck
    · simp only [a, b]
      refine ⟨_, ⟨0, fun _ _ => rfl⟩, hx, ?_, hw1⟩
      unfold cgetShape
      split
      · rename_i n m
        simp only [HasShape] at hsv
        obtain ⟨_, hh⟩ := hsv
        cases hh
        split
        · rename_i hnm
          simp only [beq_iff_eq] at hnm
          subst hnm
          exact hfs i x' b
        · exact HasShape.any _
      · exact HasShape.any _
  | _ => exact absurd hgK not_good_stuck

theorem scAnd_rel {op : BinOp} {a a' : Val} (h : VRel P P' a a') : scAnd op a' = scAnd op a := by
  cases h <;> cases op <;> rfl
theorem scOr_rel {op : BinOp} {a a' : Val} (h : VRel P P' a a') : scOr op a' = scOr op a := by
  cases h <;> cases op <;> rfl

theorem logicalNonBool_rel {op : BinOp} {a a' : Val} (h : VRel P P' a a') : logicalNonBool op a' = logicalNonBool op a := by
  cases h <;> cases op <;> rfl

theorem sim_bin {n : Nat} (ih : SimAt P P' n) (op : BinOp) (t : Ty) (l r : Expr) :
    ExprSim P P' (n + 1) (.bin op t l r) := by
  intro e' Γ S T ρ ρ' w w' s hs hρ hw hg
  obtain ⟨t', l', r', s1, s2, rfl, h1, h2, rfl⟩ := simE_bin_inv hs
  rw [eval_bin] at hg ⊢
  refine lift_shift (fun m => eval_bin m P' ρ' w' op t' l' r') ?_
  refine sim_bind0 ih (ResRel.failClosed _) h1 hρ hw ?_ hg
  intro a a' w1 w1' ha _ hw1 _ hgK
  simp only [scAnd_rel (op := op) ha, scOr_rel (op := op) ha, logicalNonBool_rel (op := op) ha]
  by_cases hA : scAnd op a = true
  · simp only [hA, if_true] at hgK ⊢
    exact ⟨_, ⟨0, fun _ _ => rfl⟩, VRel.bool false, HasShape.any _, hw1⟩
  · by_cases hO : scOr op a = true
    · simp only [hA, hO, if_true] at hgK ⊢
      exact ⟨_, ⟨0, fun _ _ => rfl⟩, VRel.bool true, HasShape.any _, hw1⟩
    · simp only [hA, hO] at hgK ⊢
      by_cases hL : logicalNonBool op a = true
      · simp only [hL, if_true] at hgK; exact absurd hgK not_good_stuck
      simp only [hL] at hgK ⊢
      refine sim_bind0 ih (ResRel.failClosed _) h2 hρ hw1 ?_ hgK
      intro b b' w2 w2' hb _ hw2 _ _
      have hr := binop_rel (P := P) (P' := P') op ha hb
      cases h1 : binop op a b <;> cases h2 : binop op a' b' <;> rw [h1, h2] at hr <;> simp only [ExRel] at hr
      · subst hr; exact ⟨_, ⟨0, fun _ _ => rfl⟩, rfl, hw2⟩
      · exact ⟨_, ⟨0, fun _ _ => rfl⟩, hr, HasShape.any _, hw2⟩

/-! ### closure creation -/

theorem varNames_cons_inv {e : Expr} {es : List Expr} {ys : List String} (h : varNames? (e :: es) = some ys) :
    ∃ y t ys0, e = .var y t ∧ ys = y :: ys0 ∧ varNames? es = some ys0 := by
  unfold varNames? at h
  split at h
  · rename_i y ys0 h1 h2
    simp only [Option.some.injEq] at h
    cases e <;> simp only [varName?] at h1 <;> try (cases h1; done)
    rename_i x t
    simp only [Option.some.injEq] at h1
    subst h1
    exact ⟨x, t, ys0, rfl, h.symm, h2⟩
  · cases h

theorem evalList_vars (ρ' : Sem.Env) (w' : World) : ∀ (args' : List Expr) (ys : List String),
    varNames? args' = some ys → ∀ m, ys.length + 1 ≤ m →
      evalList m P' ρ' w' args' = .ok (ys.map (valOf ρ')) w' := by
  intro args'
  induction args' with
  | nil =>
    intro ys h m hm
    simp only [varNames?, Option.some.injEq] at h
    subst h
    obtain ⟨m', rfl⟩ : ∃ m', m = m' + 1 := ⟨m - 1, by omega⟩
    rw [evalList_nil_at]; rfl
  | cons e es ih =>
    intro ys h m hm
    obtain ⟨y, t, ys0, rfl, rfl, h0⟩ := varNames_cons_inv h
    simp only [List.length_cons] at hm
    obtain ⟨m', rfl⟩ : ∃ m', m = m' + 1 := ⟨m - 1, by omega⟩
    obtain ⟨m'', rfl⟩ : ∃ m'', m' = m'' + 1 := ⟨m' - 1, by omega⟩
    rw [evalList_cons_at, eval_var, Res.andThen_ok, ih ys0 h0 (m'' + 1) (by omega)]
    rfl

theorem CapRel_of_envRel {Γ : SEnv} {S T : List String} {ρ ρ' : Sem.Env} (hρ : EnvRel P P' Γ S T ρ ρ') :
    ∀ (ys : List String), (∀ y, y ∈ ys → y ∈ S ∧ y ∈ T) → CapRel P P' Γ ρ ys (ys.map (valOf ρ')) := by
  intro ys
  induction ys with
  | nil => intro _; exact .nil
  | cons y ys ih =>
    intro h
    have hy := h y List.mem_cons_self
    exact .cons (hρ.rel y hy.1 hy.2).1 (hρ.rel y hy.1 hy.2).2 (ih (fun z hz => h z (List.mem_cons_of_mem _ hz)))

theorem sim_closure (n : Nat) (t : Ty) (ps : List (String × Ty)) (body : Expr) :
    ExprSim P P' (n + 1) (.closure t ps body) := by
  intro e' Γ S T ρ ρ' w w' s hs hρ hw _
  obtain ⟨n0, t', args', ys, envp, body', fn, s0, rfl, hys, hf, hp, hu, hY, hPs, henv, _, hb, rfl⟩ :=
    simE_closure_inv hs
  rw [eval_closure]
  refine ⟨.ok (.structV n0 (ys.map (valOf ρ'))) w', ⟨ys.length + 2, fun m hm => ?_⟩, ?_⟩
  · obtain ⟨m', rfl⟩ : ∃ m', m = m' + 1 := ⟨m - 1, by omega⟩
    rw [eval_constr, evalList_vars ρ' w' args' ys hys m' (by omega)]
    rfl
  · refine ⟨?_, ⟨_, rfl⟩, hw⟩
    exact VRel.closure hf hp hu hb (fun y hy => ⟨(hY y hy).1, (hY y hy).2.2.1, (hY y hy).2.2.2⟩) hPs henv hρ.src
      (CapRel_of_envRel hρ ys (fun y hy => ⟨(hY y hy).1, (hY y hy).2.1⟩))

/-! ### calls -/

theorem ResRel.mono_shape {s s2 : Shape} {r r' : Res Val} (h : ∀ v', HasShape s v' → HasShape s2 v')
    (hr : ResRel P P' s r r') : ResRel P P' s2 r r' := by
  cases r <;> cases r' <;> simp_all [ResRel]

/-- sequencing after an application -/
theorem sim_bindA0 {n : Nat} (ih : SimAt P P' n) {β : Type} {R : Res β → Res β → Prop} (hR : FailClosed (P := P) (P' := P') R)
    {f f' : Val} {args args' : List Val} {w w' : World}
    {K : Val → World → Res β} {K' : Nat → Val → World → Res β}
    (hf : VRel P P' f f') (ha : VRelList P P' args args') (hw : WRel P P' w w')
    (hK : ∀ v v' w1 w1', VRel P P' v v' → HasShape (applyShape P P' f') v' → WRel P P' w1 w1' → Good (K v w1) →
      ∃ r', (∃ k, ∀ m, k ≤ m → K' m v' w1' = r') ∧ R (K v w1) r')
    (hg : Good ((apply n P w f args).andThen K)) :
    ∃ r', (∃ k, ∀ m, k ≤ m → (apply m P' w' f' args').andThen (K' m) = r') ∧ R ((apply n P w f args).andThen K) r' := by
  obtain ⟨r1', ⟨k1, hk1⟩, hr1⟩ := ih.app hf ha hw (Good.andThen_left hg)
  cases hr : apply n P w f args with
  | fail f w1 =>
    rw [hr] at hr1
    obtain ⟨w1', rfl, hw1⟩ := ResRel.fail_inv hr1
    refine ⟨.fail f w1', ⟨k1, fun m hm => by rw [hk1 m hm]; rfl⟩, ?_⟩
    simpa using hR f w1 w1' hw1
  | ok v w1 =>
    rw [hr] at hr1 hg
    obtain ⟨v', w1', rfl, hv, hsv, hw1⟩ := ResRel.ok_inv hr1
    obtain ⟨r', ⟨k2, hk2⟩, hr'⟩ := hK v v' w1 w1' hv hsv hw1 (by simpa using hg)
    refine ⟨r', ⟨max k1 k2, fun m hm => ?_⟩, by simpa using hr'⟩
    rw [hk1 m (by omega)]
    simpa using hk2 m (by omega)

theorem sim_go {n : Nat} (ih : SimAt P P' n) (e : Expr) : ExprSim P P' (n + 1) (.go e) := by
  intro e' Γ S T ρ ρ' w w' s hs hρ hw hg
  obtain ⟨e2', s1, rfl, h1, rfl⟩ := simE_go_inv hs
  rw [eval_go] at hg ⊢
  refine lift_shift (fun m => eval_go m P' ρ' w' e2') ?_
  refine sim_bind0 ih (ResRel.failClosed _) h1 hρ hw ?_ hg
  intro v v' w1 w1' hv _ hw1 _ hgK
  by_cases he : w1.eager = true
  · have he' : w1'.eager = true := hw1.eager ▸ he
    rw [if_pos he] at hgK ⊢
    simp only [if_pos he']
    refine sim_bindA0 ih (ResRel.failClosed _) hv .nil hw1 ?_ hgK
    intro _ _ w2 w2' _ _ hw2 _
    exact ⟨_, ⟨0, fun _ _ => rfl⟩, VRel.unit, HasShape.any _, hw2⟩
  · have he' : ¬ w1'.eager = true := hw1.eager ▸ he
    rw [if_neg he] at hgK ⊢
    simp only [if_neg he']
    exact ⟨_, ⟨0, fun _ _ => rfl⟩, VRel.unit, HasShape.any _, hw1.with_spawned hv⟩

theorem callShape_of_applyShape {Γ : SEnv} {S T : List String} {ρ ρ' : Sem.Env} (hρ : EnvRel P P' Γ S T ρ ρ')
    {f' : Expr} {fv' : Val} {w' w1' : World} (hev : ∃ k, ∀ m, k ≤ m → eval m P' ρ' w' f' = .ok fv' w1')
    {v' : Val} (h : HasShape (applyShape P P' fv') v') : HasShape (callShape P P' T f') v' := by
  cases f' with
  | var g tg =>
    simp only [callShape]
    split
    · exact HasShape.any _
    · rename_i hT
      have hT : g ∉ T := by simpa using hT
      obtain ⟨k, hk⟩ := hev
      have := hk (k + 1) (by omega)
      rw [eval_var] at this
      simp only [Res.ok.injEq] at this
      have hfv : fv' = .fn g := by
        rw [← this.1, hρ.tgt g hT]; rfl
      subst hfv
      exact h
  | _ => exact HasShape.any _

theorem applyFnName_eq (n0 : String) : applyFnName n0 = "inherent#" ++ n0 ++ "#" ++ n0 ++ "#apply" := by
  unfold applyFnName Consts.inherentPrefix Consts.inherentSep Consts.applyMethod
  simp only [String.append_assoc]
  rfl

theorem apply_applyFn {n0 : String} {fn : Fn} (hf : P'.findFn (applyFnName n0) = some fn) (m : Nat) (w : World)
    (cvs vs : List Val) :
    apply (m + 1) P' w (.fn (applyFnName n0)) (.structV n0 cvs :: vs) = apply (m + 1) P' w (.structV n0 cvs) vs := by
  rw [apply_fn, apply_structV, ← applyFnName_eq, hf]

theorem sim_call (hp : ProgRel P P') {n : Nat} (ih : SimAt P P' n) (t : Ty) (f : Expr) (args : List Expr) :
    ExprSim P P' (n + 1) (.call t f args) := by
  intro e' Γ S T ρ ρ' w w' s hs hρ hw hg
  obtain ⟨t', f', args', rfl, hcase⟩ := simE_call_inv hs
  rcases hcase with ⟨s1, ss, h1, h2, rfl⟩ | ⟨x, tx, tg, tx', rest, n0, ss, rfl, rfl, rfl, hΓ, hS, hT, hgS, hgT, hl, rfl⟩
  · -- ordinary call
    rw [eval_call] at hg ⊢
    refine lift_shift (fun m => eval_call m P' ρ' w' t' f' args') ?_
    refine sim_bind0 ih (ResRel.failClosed _) h1 hρ hw ?_ hg
    intro fv fv' w1 w1' hfv _ hw1 hev hgK
    refine sim_bindL0 ih (ResRel.failClosed _) h2 hρ hw1 ?_ hgK
    intro vs vs' w2 w2' hvs _ hw2 hgK2
    obtain ⟨r', hst, hr⟩ := ih.app hfv hvs hw2 hgK2
    exact ⟨r', hst, ResRel.mono_shape (fun v' hv' => callShape_of_applyShape hρ hev hv') hr⟩
  · -- `x(args)` rewritten into a call of the apply function with `x` as first argument
    rw [eval_call] at hg ⊢
    cases n with
    | zero => rw [eval_zero] at hg; exact absurd hg not_good_fuel
    | succ n1 =>
      rw [eval_var, Res.andThen_ok] at hg ⊢
      simp only [show ∀ (ρ : Sem.Env) (x : String), (lookupEnv ρ x).getD (Val.fn x) = valOf ρ x from fun _ _ => rfl] at hg ⊢
      obtain ⟨hvx, hsx⟩ := hρ.rel x hS hT
      rw [hΓ] at hsx
      obtain ⟨cvs, hcv⟩ := hsx
      -- the arguments
      obtain ⟨rL', ⟨k1, hk1⟩, hrL⟩ := ih.list hl hρ hw (Good.andThen_left hg)
      have htgt : ∀ m, eval (m + 3) P' ρ' w' (.call t' (.var (applyFnName n0) tg) (.var x tx' :: rest)) =
          (evalList (m + 1) P' ρ' w' rest).andThen (fun vs w => apply (m + 2) P' w (.fn (applyFnName n0)) (.structV n0 cvs :: vs)) := by
        intro m
        rw [eval_call, eval_var, Res.andThen_ok, evalList_cons_at, eval_var, Res.andThen_ok]
        have h1 : (lookupEnv ρ' (applyFnName n0)).getD (Val.fn (applyFnName n0)) = .fn (applyFnName n0) := by
          rw [hρ.tgt _ hgT]; rfl
        have h2 : (lookupEnv ρ' x).getD (Val.fn x) = .structV n0 cvs := hcv
        rw [h1, h2]
        cases evalList (m + 1) P' ρ' w' rest <;> rfl
      cases hr : evalList (n1 + 1) P ρ w args with
      | fail fl w1 =>
        rw [hr] at hrL hg
        obtain ⟨w1', rfl, hw1⟩ := ResRelL.fail_inv hrL
        refine ⟨.fail fl w1', ⟨k1 + 3, fun m hm => ?_⟩, rfl, hw1⟩
        obtain ⟨m', rfl⟩ : ∃ m', m = m' + 3 := ⟨m - 3, by omega⟩
        rw [htgt, hk1 (m' + 1) (by omega)]; rfl
      | ok vs w1 =>
        rw [hr] at hrL hg
        rw [Res.andThen_ok] at hg ⊢
        obtain ⟨vs', w1', rfl, hvs, _, hw1⟩ := ResRelL.ok_inv hrL
        obtain ⟨r', ⟨k2, hk2⟩, hr'⟩ := ih.app hvx hvs hw1 hg
        rw [hcv] at hk2
        -- the apply function exists, else the lifted call would be stuck while the source is not
        cases hfind : P'.findFn (applyFnName n0) with
        | none =>
          exfalso
          have := hk2 (k2 + 1) (by omega)
          rw [apply_structV, ← applyFnName_eq, hfind] at this
          rw [← this] at hr'
          cases hq : apply (n1 + 1) P w1 (valOf ρ x) vs with
          | ok v w2 => rw [hq] at hr'; simp [ResRel] at hr'
          | fail fl w2 =>
            rw [hq] at hr' hg
            simp only [ResRel] at hr'
            rw [hr'.1] at hg
            exact not_good_stuck hg
        | some fn =>
          refine ⟨r', ⟨max k1 k2 + 3, fun m hm => ?_⟩, ResRel.weaken hr'⟩
          obtain ⟨m', rfl⟩ : ∃ m', m = m' + 3 := ⟨m - 3, by omega⟩
          rw [htgt, hk1 (m' + 1) (by omega), Res.andThen_ok, apply_applyFn hfind]
          exact hk2 (m' + 2) (by omega)

theorem sim_dynCall (hp : ProgRel P P') {n : Nat} (ih : SimAt P P' n) (tr mth : String) (t : Ty) (recv : Expr)
    (args : List Expr) : ExprSim P P' (n + 1) (.dynCall tr mth t recv args) := by
  intro e' Γ S T ρ ρ' w w' s hs hρ hw hg
  obtain ⟨t', recv', args', s1, ss, rfl, h1, h2, rfl⟩ := simE_dynCall_inv hs
  rw [eval_dynCall] at hg ⊢
  refine lift_shift (fun m => eval_dynCall m P' ρ' w' tr mth t' recv' args') ?_
  refine sim_bind0 ih (ResRel.failClosed _) h1 hρ hw ?_ hg
  intro rv rv' w1 w1' hrv _ hw1 _ hgK
  cases hrv with
  | @dyn tr0 key v v' hv =>
    simp only at hgK ⊢
    refine sim_bindL0 ih (ResRel.failClosed _) h2 hρ hw1 ?_ hgK
    intro vs vs' w2 w2' hvs _ hw2 hgK2
    rw [← hp.impls]
    cases hfind : P.impls.find? (fun i => i.1 == tr && i.2.1 == key && i.2.2.1 == mth) with
    | none => simp only [hfind] at hgK2; exact absurd hgK2 not_good_stuck
    | some i =>
      simp only [hfind] at hgK2 ⊢
      have hi : i ∈ P.impls := List.mem_of_find?_eq_some hfind
      obtain ⟨r', hst, hr⟩ := ih.app (VRel.fn_of_globalOk (hp.implsOk i hi)) (.cons hv hvs) hw2 hgK2
      exact ⟨r', hst, ResRel.weaken hr⟩
  | _ => exact absurd hgK not_good_stuck

theorem sim_expr_succ (hp : ProgRel P P') {n : Nat} (ih : SimAt P P' n) (e : Expr) : ExprSim P P' (n + 1) e := by
  cases e with
  | var x t => exact sim_var n x t
  | prim p => exact sim_prim n p
  | tag i t => exact sim_tag n i t
  | constr c t args => exact sim_constr ih c t args
  | tuple t items => exact sim_tuple ih t items
  | array t items => exact sim_array ih t items
  | closure t ps body => exact sim_closure n t ps body
  | letE x v b => exact sim_letE ih x v b
  | matchE t s arms d => exact sim_matchE ih t s arms d
  | ite c t e => exact sim_ite ih c t e
  | «while» c b => exact sim_while ih c b
  | go e => exact sim_go ih e
  | cget c i t e => exact sim_cget ih c i t e
  | un op t e => exact sim_un ih op t e
  | bin op t l r => exact sim_bin ih op t l r
  | call t f args => exact sim_call hp ih t f args
  | toDyn tr ft t e => exact sim_toDyn ih tr ft t e
  | dynCall tr m t r args => exact sim_dynCall hp ih tr m t r args
  | traitCall tr m t r args => intro e' Γ S T ρ ρ' w w' s hs; exact (simE_traitCall_inv hs).elim
  | proj i t e => exact sim_proj ih i t e

end
end Goml.Lift
