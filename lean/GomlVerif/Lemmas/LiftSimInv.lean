import GomlVerif.Model.LiftSim
/-! C08: what an accepted pair `simE … e e' = some s` looks like, per source constructor -/
namespace Goml.Lift
open Goml

variable {P P' : Prog} {Γ : SEnv} {S T : List String} {s : Shape} {e' : Expr}

/-- split on the target expression; every constructor but the matching one is rejected -/
macro "sim_inv" h:ident e:ident : tactic =>
  `(tactic| (cases $e:ident <;> simp only [simE] at $h:ident <;> (first | (cases $h:ident; done) | skip)))

theorem simE_var_inv {x : String} {t : Ty} (h : simE P P' Γ S T (.var x t) e' = some s) :
    ∃ t', e' = .var x t' ∧
      ((x ∈ S ∧ x ∈ T ∧ s = Γ.get x) ∨ (x ∉ S ∧ x ∉ T ∧ globalOk P P' x = true ∧ s = .any)) := by
  sim_inv h e'
  rename_i y t'
  split at h
  · rename_i hxy
    have hxy : x = y := by simpa using hxy
    subst hxy
    refine ⟨t', rfl, ?_⟩
    split at h
    · rename_i hS
      split at h
      · rename_i hT
        left
        simp only [Option.some.injEq] at h
        exact ⟨by simpa using hS, by simpa using hT, h.symm⟩
      · cases h
    · rename_i hS
      split at h
      · rename_i hT
        right
        simp only [Option.some.injEq] at h
        simp only [Bool.and_eq_true, Bool.not_eq_true', List.contains_eq_mem, decide_eq_false_iff_not] at hT
        exact ⟨by simpa using hS, hT.1, hT.2, h.symm⟩
      · cases h
  · cases h

theorem simE_prim_inv {p : Prim} (h : simE P P' Γ S T (.prim p) e' = some s) :
    ∃ q, e' = .prim q ∧ primEq p q = true ∧ s = .any := by
  sim_inv h e'
  rename_i q
  split at h
  · rename_i hp
    simp only [Option.some.injEq] at h
    exact ⟨q, rfl, hp, h.symm⟩
  · cases h

theorem simE_tag_inv {i : Nat} {t : Ty} (h : simE P P' Γ S T (.tag i t) e' = some s) :
    ∃ t', e' = .tag i t' ∧ Sem.tagTyName t = Sem.tagTyName t' ∧ s = .any := by
  sim_inv h e'
  rename_i j t'
  split at h
  · rename_i hij
    simp only [Bool.and_eq_true, beq_iff_eq] at hij
    obtain ⟨rfl, hk⟩ := hij
    simp only [Option.some.injEq] at h
    exact ⟨t', rfl, hk, h.symm⟩
  · cases h

theorem simE_constr_inv {c : Ctor} {t : Ty} {args : List Expr} (h : simE P P' Γ S T (.constr c t args) e' = some s) :
    ∃ t' args' ss, e' = .constr c t' args' ∧ simList P P' Γ S T args args' = some ss ∧
      ((∃ n, c = .struct n ∧ fieldsOk P' n 0 ss = true ∧ s = .clo n) ∨
       (∃ a b i, c = .enum a b i ∧ s = .any)) := by
  sim_inv h e'
  rename_i c' t' args'
  split at h
  · rename_i hc
    have hc : c = c' := by simpa using hc
    subst hc
    split at h
    · rename_i ss hl
      refine ⟨t', args', ss, rfl, hl, ?_⟩
      split at h
      · split at h
        · rename_i hf
          simp only [Option.some.injEq] at h
          exact Or.inl ⟨_, rfl, hf, h.symm⟩
        · cases h
      · simp only [Option.some.injEq] at h
        exact Or.inr ⟨_, _, _, rfl, h.symm⟩
    · cases h
  · cases h

theorem simE_tuple_inv {t : Ty} {items : List Expr} (h : simE P P' Γ S T (.tuple t items) e' = some s) :
    ∃ t' items' ss, e' = .tuple t' items' ∧ simList P P' Γ S T items items' = some ss ∧ s = .tup ss := by
  sim_inv h e'
  rename_i t' items'
  split at h
  · rename_i ss hl
    simp only [Option.some.injEq] at h
    exact ⟨t', items', ss, rfl, hl, h.symm⟩
  · cases h

theorem simE_array_inv {t : Ty} {items : List Expr} (h : simE P P' Γ S T (.array t items) e' = some s) :
    ∃ t' items' ss, e' = .array t' items' ∧ simList P P' Γ S T items items' = some ss ∧ s = .any := by
  sim_inv h e'
  rename_i t' items'
  split at h
  · rename_i ss hl
    simp only [Option.some.injEq] at h
    exact ⟨t', items', ss, rfl, hl, h.symm⟩
  · cases h

theorem simE_letE_inv {x : String} {v b : Expr} (h : simE P P' Γ S T (.letE x v b) e' = some s) :
    ∃ v' b' s1, e' = .letE x v' b' ∧ simE P P' Γ S T v v' = some s1 ∧
      simE P P' ((x, s1) :: Γ) (x :: S) (x :: T) b b' = some s := by
  sim_inv h e'
  rename_i x' v' b'
  split at h
  · rename_i hx
    have hx : x = x' := by simpa using hx
    subst hx
    split at h
    · rename_i s1 h1
      exact ⟨v', b', s1, rfl, h1, h⟩
    · cases h
  · cases h

theorem simE_ite_inv {c t e : Expr} (h : simE P P' Γ S T (.ite c t e) e' = some s) :
    ∃ c' t' e2' s1 s2 s3, e' = .ite c' t' e2' ∧ simE P P' Γ S T c c' = some s1 ∧ simE P P' Γ S T t t' = some s2 ∧
      simE P P' Γ S T e e2' = some s3 ∧ s = .any := by
  sim_inv h e'
  rename_i c' t' e2'
  split at h
  · rename_i s1 s2 s3 h1 h2 h3
    simp only [Option.some.injEq] at h
    exact ⟨c', t', e2', _, _, _, rfl, h1, h2, h3, h.symm⟩
  · cases h

theorem simE_while_inv {c b : Expr} (h : simE P P' Γ S T (.while c b) e' = some s) :
    ∃ c' b' s1 s2, e' = .while c' b' ∧ simE P P' Γ S T c c' = some s1 ∧ simE P P' Γ S T b b' = some s2 ∧ s = .any := by
  sim_inv h e'
  rename_i c' b'
  split at h
  · rename_i s1 s2 h1 h2
    simp only [Option.some.injEq] at h
    exact ⟨c', b', _, _, rfl, h1, h2, h.symm⟩
  · cases h

theorem simE_go_inv {e : Expr} (h : simE P P' Γ S T (.go e) e' = some s) :
    ∃ e2' s1, e' = .go e2' ∧ simE P P' Γ S T e e2' = some s1 ∧ s = .any := by
  sim_inv h e'
  rename_i e2'
  split at h
  · rename_i s1 h1
    simp only [Option.some.injEq] at h
    exact ⟨e2', _, rfl, h1, h.symm⟩
  · cases h

theorem simE_cget_inv {c : Ctor} {i : Nat} {t : Ty} {e : Expr} (h : simE P P' Γ S T (.cget c i t e) e' = some s) :
    ∃ t' e2' s1, e' = .cget c i t' e2' ∧ simE P P' Γ S T e e2' = some s1 ∧
      s = cgetShape P' c i s1 := by
  sim_inv h e'
  rename_i c' i' t' e2'
  split at h
  · rename_i hc
    simp only [Bool.and_eq_true, decide_eq_true_eq, beq_iff_eq] at hc
    obtain ⟨rfl, rfl⟩ := hc
    split at h
    · rename_i s1 h1
      simp only [Option.some.injEq] at h
      exact ⟨t', e2', s1, rfl, h1, h.symm⟩
    · cases h
  · cases h

theorem simE_un_inv {op : UnOp} {t : Ty} {e : Expr} (h : simE P P' Γ S T (.un op t e) e' = some s) :
    ∃ t' e2' s1, e' = .un op t' e2' ∧ simE P P' Γ S T e e2' = some s1 ∧ s = .any := by
  sim_inv h e'
  rename_i op' t' e2'
  split at h
  · rename_i hc
    have hc : op = op' := by simpa using hc
    subst hc
    split at h
    · rename_i s1 h1
      simp only [Option.some.injEq] at h
      exact ⟨t', e2', s1, rfl, h1, h.symm⟩
    · cases h
  · cases h

theorem simE_bin_inv {op : BinOp} {t : Ty} {l r : Expr} (h : simE P P' Γ S T (.bin op t l r) e' = some s) :
    ∃ t' l' r' s1 s2, e' = .bin op t' l' r' ∧ simE P P' Γ S T l l' = some s1 ∧ simE P P' Γ S T r r' = some s2 ∧ s = .any := by
  sim_inv h e'
  rename_i op' t' l' r'
  split at h
  · rename_i hc
    have hc : op = op' := by simpa using hc
    subst hc
    split at h
    · rename_i s1 s2 h1 h2
      simp only [Option.some.injEq] at h
      exact ⟨t', l', r', s1, s2, rfl, h1, h2, h.symm⟩
    · cases h
  · cases h

theorem simE_toDyn_inv {tr : String} {forTy t : Ty} {e : Expr} (h : simE P P' Γ S T (.toDyn tr forTy t e) e' = some s) :
    ∃ forTy' t' e2' s1, e' = .toDyn tr forTy' t' e2' ∧ Sem.tyKey forTy = Sem.tyKey forTy' ∧
      simE P P' Γ S T e e2' = some s1 ∧ s = .any := by
  sim_inv h e'
  rename_i tr' forTy' t' e2'
  split at h
  · rename_i hc
    simp only [Bool.and_eq_true, beq_iff_eq] at hc
    obtain ⟨rfl, hk⟩ := hc
    split at h
    · rename_i s1 h1
      simp only [Option.some.injEq] at h
      exact ⟨forTy', t', e2', s1, rfl, hk, h1, h.symm⟩
    · cases h
  · cases h

theorem simE_dynCall_inv {tr m : String} {t : Ty} {recv : Expr} {args : List Expr}
    (h : simE P P' Γ S T (.dynCall tr m t recv args) e' = some s) :
    ∃ t' recv' args' s1 ss, e' = .dynCall tr m t' recv' args' ∧ simE P P' Γ S T recv recv' = some s1 ∧
      simList P P' Γ S T args args' = some ss ∧ s = .any := by
  sim_inv h e'
  rename_i tr' m' t' recv' args'
  split at h
  · rename_i hc
    simp only [Bool.and_eq_true, beq_iff_eq] at hc
    obtain ⟨rfl, rfl⟩ := hc
    split at h
    · rename_i s1 ss h1 h2
      simp only [Option.some.injEq] at h
      exact ⟨t', recv', args', s1, ss, rfl, h1, h2, h.symm⟩
    · cases h
  · cases h

theorem simE_traitCall_inv {tr m : String} {t : Ty} {recv : Expr} {args : List Expr}
    (h : simE P P' Γ S T (.traitCall tr m t recv args) e' = some s) : False := by
  simp only [simE] at h
  cases h

theorem simE_proj_inv {i : Nat} {t : Ty} {e : Expr} (h : simE P P' Γ S T (.proj i t e) e' = some s) :
    ∃ t' e2' s1, e' = .proj i t' e2' ∧ simE P P' Γ S T e e2' = some s1 ∧ s = s1.proj i := by
  sim_inv h e'
  rename_i i' t' e2'
  split at h
  · rename_i hc
    have hc : i = i' := by simpa using hc
    subst hc
    split at h
    · rename_i s1 h1
      simp only [Option.some.injEq] at h
      exact ⟨t', e2', s1, rfl, h1, h.symm⟩
    · cases h
  · cases h

theorem simE_matchE_inv {t : Ty} {scrut : Expr} {arms : List Arm} {dflt : Option Expr}
    (h : simE P P' Γ S T (.matchE t scrut arms dflt) e' = some s) :
    ∃ t' scrut' arms' dflt' s1, e' = .matchE t' scrut' arms' dflt' ∧ simE P P' Γ S T scrut scrut' = some s1 ∧
      simArms P P' Γ S T arms arms' = true ∧ simOpt P P' Γ S T dflt dflt' = true ∧ s = .any := by
  sim_inv h e'
  rename_i t' scrut' arms' dflt'
  split at h
  · rename_i s1 h1
    split at h
    · rename_i hc
      simp only [Bool.and_eq_true] at hc
      simp only [Option.some.injEq] at h
      exact ⟨t', scrut', arms', dflt', s1, rfl, h1, hc.1, hc.2, h.symm⟩
    · cases h
  · cases h

theorem applyParts_inv {n : String} {ys : List String} {envp : String} {ps' : List String} {body' : Expr}
    (h : applyParts P' n ys = some (envp, ps', body')) :
    ∃ fn, P'.findFn (applyFnName n) = some fn ∧ fn.params.map (·.1) = envp :: ps' ∧
      unrebind n envp 0 ys fn.body = some body' := by
  unfold applyParts at h
  split at h
  · rename_i fn hf
    split at h
    · rename_i envp0 ps0 hp
      split at h
      · rename_i b hu
        simp only [Option.some.injEq, Prod.mk.injEq] at h
        obtain ⟨rfl, rfl, rfl⟩ := h
        exact ⟨fn, hf, hp, hu⟩
      · cases h
    · cases h
  · cases h

theorem simE_closure_inv {t : Ty} {ps : List (String × Ty)} {body : Expr}
    (h : simE P P' Γ S T (.closure t ps body) e' = some s) :
    ∃ n t' args' ys envp body' fn s0, e' = .constr (.struct n) t' args' ∧ varNames? args' = some ys ∧
      P'.findFn (applyFnName n) = some fn ∧ fn.params.map (·.1) = envp :: ps.map (·.1) ∧
      unrebind n envp 0 ys fn.body = some body' ∧
      (∀ y, y ∈ ys → y ∈ S ∧ y ∈ T ∧ y ∉ ps.map (·.1) ∧ y ≠ envp) ∧
      (∀ p, p ∈ ps.map (·.1) → p ∉ S ∧ p ≠ envp ∧ globalOk P P' p = true) ∧
      envp ∉ S ∧ fieldsOk P' n 0 (ys.map Γ.get) = true ∧
      simE P P' (ys.map (fun y => (y, Γ.get y))) (ps.map (·.1) ++ S) (ys ++ ps.map (·.1) ++ [envp]) body body' = some s0 ∧
      s = .clo n := by
  sim_inv h e'
  rename_i c t' args'
  split at h
  · rename_i n t'' args'' heq
    simp only [Expr.constr.injEq] at heq
    obtain ⟨rfl, rfl, rfl⟩ := heq
    split at h
    · rename_i ys hys
      split at h
      · rename_i envp ps' body' hap
        obtain ⟨fn, hf, hp, hu⟩ := applyParts_inv hap
        split at h
        · rename_i hc
          simp only [Bool.and_eq_true, beq_iff_eq, List.all_eq_true, Bool.not_eq_true', bne_iff_ne, ne_eq,
            List.contains_eq_mem, decide_eq_true_eq, decide_eq_false_iff_not] at hc
          obtain ⟨⟨⟨⟨rfl, h2⟩, h3⟩, h4⟩, h5⟩ := hc
          split at h
          · rename_i s0 hb
            simp only [Option.some.injEq] at h
            refine ⟨n, _, _, ys, envp, body', fn, s0, rfl, hys, hf, hp, hu, ?_, ?_, h4, h5, hb, h.symm⟩
            · intro y hy
              obtain ⟨⟨⟨a, b⟩, c⟩, d⟩ := h2 y hy
              exact ⟨a, b, c, d⟩
            · intro p hp
              obtain ⟨⟨a, b⟩, c⟩ := h3 p hp
              exact ⟨a, b, c⟩
          · cases h
        · cases h
      · cases h
    · cases h
  · cases h

theorem simE_call_inv {t : Ty} {f : Expr} {args : List Expr} (h : simE P P' Γ S T (.call t f args) e' = some s) :
    ∃ t' f' args', e' = .call t' f' args' ∧
      ((∃ s1 ss, simE P P' Γ S T f f' = some s1 ∧ simList P P' Γ S T args args' = some ss ∧ s = callShape P P' T f') ∨
       (∃ x tx tg tx' rest n ss, f = .var x tx ∧ f' = .var (applyFnName n) tg ∧ args' = .var x tx' :: rest ∧
          Γ.get x = .clo n ∧ x ∈ S ∧ x ∈ T ∧ applyFnName n ∉ S ∧ applyFnName n ∉ T ∧
          simList P P' Γ S T args rest = some ss ∧ s = .any)) := by
  sim_inv h e'
  rename_i t' f' args'
  refine ⟨t', f', args', rfl, ?_⟩
  split at h
  · rename_i x tx g tg x' tx' rest
    split at h
    · split at h
      · rename_i s1 ss h1 h2
        simp only [Option.some.injEq] at h
        exact Or.inl ⟨s1, ss, h1, h2, h.symm⟩
      · cases h
    · split at h
      · rename_i n hn
        split at h
        · rename_i hc
          simp only [Bool.and_eq_true, beq_iff_eq, Bool.not_eq_true', List.contains_eq_mem, decide_eq_true_eq,
            decide_eq_false_iff_not] at hc
          obtain ⟨⟨⟨⟨⟨rfl, rfl⟩, h3⟩, h4⟩, h5⟩, h6⟩ := hc
          split at h
          · rename_i ss hl
            simp only [Option.some.injEq] at h
            exact Or.inr ⟨x, tx, tg, tx', rest, n, ss, rfl, rfl, rfl, hn, h3, h4, h5, h6, hl, h.symm⟩
          · cases h
        · cases h
      · cases h
  · split at h
    · rename_i s1 ss h1 h2
      simp only [Option.some.injEq] at h
      exact Or.inl ⟨s1, ss, h1, h2, h.symm⟩
    · cases h

theorem simList_nil_inv {es' : List Expr} {ss : List Shape} (h : simList P P' Γ S T [] es' = some ss) :
    es' = [] ∧ ss = [] := by
  cases es' <;> simp only [simList] at h
  · simp only [Option.some.injEq] at h; exact ⟨rfl, h.symm⟩
  · cases h

theorem simList_cons_inv {e : Expr} {es es' : List Expr} {ss : List Shape}
    (h : simList P P' Γ S T (e :: es) es' = some ss) :
    ∃ e' rest' s1 ss1, es' = e' :: rest' ∧ simE P P' Γ S T e e' = some s1 ∧
      simList P P' Γ S T es rest' = some ss1 ∧ ss = s1 :: ss1 := by
  cases es' <;> simp only [simList] at h
  · cases h
  · rename_i e' rest'
    split at h
    · rename_i s1 ss1 h1 h2
      simp only [Option.some.injEq] at h
      exact ⟨e', rest', s1, ss1, rfl, h1, h2, h.symm⟩
    · cases h

theorem simArms_nil_inv {as' : List Arm} (h : simArms P P' Γ S T [] as' = true) : as' = [] := by
  cases as' <;> simp only [simArms] at h
  · rfl
  · cases h

theorem simArms_cons_inv {lhs body : Expr} {rest as' : List Arm}
    (h : simArms P P' Γ S T (.mk lhs body :: rest) as' = true) :
    ∃ lhs' body' rest' s1, as' = .mk lhs' body' :: rest' ∧ headEq (armHead lhs) (armHead lhs') = true ∧
      simE P P' Γ S T body body' = some s1 ∧ simArms P P' Γ S T rest rest' = true := by
  cases as' with
  | nil => simp only [simArms] at h; cases h
  | cons a rest' =>
    cases a with
    | mk lhs' body' =>
      simp only [simArms, Bool.and_eq_true, Option.isSome_iff_exists] at h
      obtain ⟨⟨h1, s1, h2⟩, h3⟩ := h
      exact ⟨lhs', body', rest', s1, rfl, h1, h2, h3⟩

theorem simOpt_inv {d d' : Option Expr} (h : simOpt P P' Γ S T d d' = true) :
    (d = none ∧ d' = none) ∨ ∃ e e' s1, d = some e ∧ d' = some e' ∧ simE P P' Γ S T e e' = some s1 := by
  cases d with
  | none =>
    cases d' <;> simp only [simOpt] at h
    · exact Or.inl ⟨rfl, rfl⟩
    · cases h
  | some e =>
    cases d' with
    | none => simp only [simOpt] at h; cases h
    | some e' =>
      simp only [simOpt, Option.isSome_iff_exists] at h
      obtain ⟨s1, h1⟩ := h
      exact Or.inr ⟨e, e', s1, rfl, rfl, h1⟩

end Goml.Lift
