import GomlVerif.Lemmas.LiftSimExpr
/-! C08: lists, arms, application; the induction on fuel; whole programs -/
namespace Goml.Lift
open Goml Goml.Sem

section
variable {P P' : Prog}

theorem sim_list_succ {n : Nat} (ih : SimAt P P' n) {es es' : List Expr} {Γ : SEnv} {S T : List String}
    {ρ ρ' : Sem.Env} {w w' : World} {ss : List Shape}
    (hs : simList P P' Γ S T es es' = some ss) (hρ : EnvRel P P' Γ S T ρ ρ') (hw : WRel P P' w w')
    (hg : Good (evalList (n + 1) P ρ w es)) :
    ∃ r', (∃ k, ∀ m, k ≤ m → evalList m P' ρ' w' es' = r') ∧ ResRelL P P' ss (evalList (n + 1) P ρ w es) r' := by
  cases es with
  | nil =>
    obtain ⟨rfl, rfl⟩ := simList_nil_inv hs
    rw [evalList_nil_at]
    exact ⟨.ok [] w', stable_succ (k := 0) (fun m _ => evalList_nil_at m P' ρ' w'), .nil, rfl, hw⟩
  | cons e es =>
    obtain ⟨e', rest', s1, ss1, rfl, h1, h2, rfl⟩ := simList_cons_inv hs
    rw [evalList_cons_at] at hg ⊢
    refine lift_shift (fun m => evalList_cons_at m P' ρ' w' e' rest') ?_
    refine sim_bind0 ih (ResRelL.failClosed _) h1 hρ hw ?_ hg
    intro v v' w1 w1' hv hsv hw1 _ hgK
    refine sim_bindL0 ih (ResRelL.failClosed _) h2 hρ hw1 ?_ hgK
    intro vs vs' w2 w2' hvs hss hw2 _
    exact ⟨.ok (v' :: vs') w2', ⟨0, fun _ _ => rfl⟩, .cons hv hvs, ⟨v', vs', rfl, hsv, hss⟩, hw2⟩

theorem sim_arms_succ {n : Nat} (ih : SimAt P P' n) {arms arms' : List Arm} {d d' : Option Expr} {Γ : SEnv}
    {S T : List String} {ρ ρ' : Sem.Env} {w w' : World} {v v' : Val}
    (h2 : simArms P P' Γ S T arms arms' = true) (h3 : simOpt P P' Γ S T d d' = true)
    (hρ : EnvRel P P' Γ S T ρ ρ') (hw : WRel P P' w w') (hv : VRel P P' v v')
    (hg : Good (evalArms (n + 1) P ρ w v arms d)) :
    ∃ r', (∃ k, ∀ m, k ≤ m → evalArms m P' ρ' w' v' arms' d' = r') ∧
      ResRel P P' .any (evalArms (n + 1) P ρ w v arms d) r' := by
  cases arms with
  | nil =>
    have := simArms_nil_inv h2
    subst this
    rw [evalArms_nil_at] at hg ⊢
    rcases simOpt_inv h3 with ⟨rfl, rfl⟩ | ⟨e, e', s1, rfl, rfl, h⟩
    · exact absurd hg not_good_stuck
    · obtain ⟨r', hst, hr⟩ := ih.expr h hρ hw hg
      exact ⟨r', stable_shift (fun m => evalArms_nil_at m P' ρ' w' v' (some e')) hst, ResRel.weaken hr⟩
  | cons a rest =>
    cases a with
    | mk lhs body =>
      obtain ⟨lhs', body', rest', s1, rfl, hh, hb, hr⟩ := simArms_cons_inv h2
      rw [evalArms_cons_at] at hg ⊢
      have hm := armMatches_rel hh hv
      by_cases hmatch : armMatches lhs v = true
      · rw [if_pos hmatch] at hg ⊢
        obtain ⟨r', hst, hr'⟩ := ih.expr hb hρ hw hg
        refine ⟨r', stable_shift (fun m => ?_) hst, ResRel.weaken hr'⟩
        rw [evalArms_cons_at, hm, if_pos hmatch]
      · rw [if_neg hmatch] at hg ⊢
        obtain ⟨r', hst, hr'⟩ := ih.arms hr h3 hρ hw hv hg
        refine ⟨r', stable_shift (fun m => ?_) hst, hr'⟩
        rw [evalArms_cons_at, hm, if_neg hmatch]

theorem fnOk_inv {f f' : Fn} (h : fnOk P P' f f' = true) :
    f'.params.map (·.1) = f.params.map (·.1) ∧ (∀ p, p ∈ f.params.map (·.1) → globalOk P P' p = true) ∧
    ∃ s, simE P P' [] (f.params.map (·.1)) (f.params.map (·.1)) f.body f'.body = some s ∧
      shapeLe s (claim P' f'.ret) = true := by
  unfold fnOk at h
  simp only [Bool.and_eq_true, beq_iff_eq, List.all_eq_true] at h
  obtain ⟨⟨h1, h2⟩, h3⟩ := h
  refine ⟨h1.symm, h2, ?_⟩
  split at h3
  · rename_i s hs; exact ⟨s, hs, h3⟩
  · cases h3

/-- a top-level function body against its lifted counterpart -/
theorem sim_fnBody {n : Nat} (ih : SimAt P P' n) {f0 f0' : Fn} (hok : fnOk P P' f0 f0' = true)
    {args args' : List Val} {w w' : World} (ha : VRelList P P' args args') (hw : WRel P P' w w')
    (hg : Good (eval n P (bindParams (f0.params.map (·.1)) args []) w f0.body)) :
    ∃ r', (∃ k, ∀ m, k ≤ m → eval m P' (bindParams (f0'.params.map (·.1)) args' []) w' f0'.body = r') ∧
      ResRel P P' (claim P' f0'.ret) (eval n P (bindParams (f0.params.map (·.1)) args []) w f0.body) r' := by
  obtain ⟨hps, hgl, s, hs, hle⟩ := fnOk_inv hok
  rw [hps]
  obtain ⟨r', hst, hr⟩ := ih.expr hs (EnvRel.params hgl ha) hw hg
  exact ⟨r', hst, ResRel.mono_shape (fun v' hv' => HasShape.mono _ _ _ hle hv') hr⟩

theorem applyShape_fn_some {g : String} {f0 f0' : Fn} (h1 : P.findFn g = some f0) (h2 : P'.findFn g = some f0') :
    applyShape P P' (.fn g) = claim P' f0'.ret := by
  simp [applyShape, h1, h2]

theorem applyShape_fn_none {g : String} (h1 : P.findFn g = none) : applyShape P P' (.fn g) = .any := by
  simp [applyShape, h1]

theorem sim_app_succ (hp : ProgRel P P') {n : Nat} (ih : SimAt P P' n) {f f' : Val} {args args' : List Val}
    {w w' : World} (hf : VRel P P' f f') (ha : VRelList P P' args args') (hw : WRel P P' w w')
    (hg : Good (apply (n + 1) P w f args)) :
    ∃ r', (∃ k, ∀ m, k ≤ m → apply m P' w' f' args' = r') ∧
      ResRel P P' (applyShape P P' f') (apply (n + 1) P w f args) r' := by
  cases hf with
  | @closure n0 envp ps ys body body' fn Γ S s ρc vs' hfn hps hu hb hY hPs henv hsrc hcap =>
    rw [apply_closure] at hg ⊢
    have hER := EnvRel.closureBody (sv := Val.structV n0 vs') hcap hsrc hY hPs henv ha
    obtain ⟨r', ⟨k, hk⟩, hr⟩ := ih.expr hb hER hw hg
    refine ⟨r', ⟨k + ys.length + 3, fun m hm => ?_⟩, ResRel.weaken hr⟩
    obtain ⟨m', rfl⟩ : ∃ m', m = m' + 1 := ⟨m - 1, by omega⟩
    rw [apply_structV, ← applyFnName_eq, hfn]
    simp only [hps, bindParams]
    have henvps : envp ∉ ps := fun hmem => (hPs envp hmem).2.1 rfl
    refine eval_unrebind P' n0 envp vs' w' body' r' ys 0 fn.body _ k hu ?_ (fun hmem => (hY envp hmem).2.2 rfl) ?_ ?_ m' (by omega)
    · rw [lookupEnv_bindParams_of_not_mem _ _ _ _ henvps, lookupEnv_cons]; simp
    · have := CapRel.length_eq ys vs' hcap; omega
    · simpa using hk
  | fn name hname =>
    rw [apply_fn] at hg ⊢
    cases hfind : P.findFn name with
    | some f0 =>
      obtain ⟨f0', hf', hok⟩ := hp.fns name f0 hfind
      rw [hfind] at hg
      simp only at hg ⊢
      obtain ⟨r', hst, hr⟩ := sim_fnBody ih hok ha hw hg
      refine ⟨r', stable_shift (fun m => ?_) hst, ?_⟩
      · rw [apply_fn, hf']
      · rw [applyShape_fn_some hfind hf']; exact hr
    | none =>
      have hnone' := hname hfind
      rw [hfind] at hg
      simp only at hg ⊢
      rw [applyShape_fn_none hfind]
      have hb := builtin_rel (P := P) (P' := P') name ha hw
      cases h1 : builtin name args w with
      | none =>
        cases h2 : builtin name args' w' with
        | some r2 => rw [h1, h2] at hb; simp [BRel] at hb
        | none =>
          refine ⟨.ok .unit { w' with externs := w'.externs ++ [name] }, stable_succ (k := 0) (fun m _ => ?_), ?_⟩
          · rw [apply_fn, hnone', h2]
          · exact ⟨VRel.unit, HasShape.any _, hw.with_externs name⟩
      | some r1 =>
        cases h2 : builtin name args' w' with
        | none => rw [h1, h2] at hb; simp [BRel] at hb
        | some r2 =>
          rw [h1, h2] at hb
          refine ⟨r2, stable_succ (k := 0) (fun m _ => ?_), hb⟩
          rw [apply_fn, hnone', h2]
  | @structV sn vs vs' hvs hfs =>
    rw [apply_structV] at hg ⊢
    cases hfind : P.findFn ("inherent#" ++ sn ++ "#" ++ sn ++ "#apply") with
    | none => rw [hfind] at hg; exact absurd hg not_good_stuck
    | some f0 =>
      obtain ⟨f0', hf', hok⟩ := hp.fns _ f0 hfind
      rw [hfind] at hg
      simp only at hg ⊢
      obtain ⟨r', hst, hr⟩ := sim_fnBody ih hok (.cons (VRel.structV hvs hfs) ha) hw hg
      refine ⟨r', stable_shift (fun m => ?_) hst, ResRel.weaken hr⟩
      rw [apply_structV, hf']
  | unit => simp only [apply] at hg; exact absurd hg not_good_stuck
  | bool => simp only [apply] at hg; exact absurd hg not_good_stuck
  | int => simp only [apply] at hg; exact absurd hg not_good_stuck
  | float => simp only [apply] at hg; exact absurd hg not_good_stuck
  | str => simp only [apply] at hg; exact absurd hg not_good_stuck
  | tuple => simp only [apply] at hg; exact absurd hg not_good_stuck
  | enumV => simp only [apply] at hg; exact absurd hg not_good_stuck
  | array => simp only [apply] at hg; exact absurd hg not_good_stuck
  | vec => simp only [apply] at hg; exact absurd hg not_good_stuck
  | ref => simp only [apply] at hg; exact absurd hg not_good_stuck
  | dyn => simp only [apply] at hg; exact absurd hg not_good_stuck

/-- the simulation at every fuel -/
theorem simAll (hp : ProgRel P P') : ∀ n, SimAt P P' n
  | 0 => simAt_zero
  | n + 1 =>
    have ih := simAll hp n
    { expr := fun {e} _ _ _ _ _ _ _ _ _ hs hρ hw hg => sim_expr_succ hp ih e hs hρ hw hg
      list := fun hs hρ hw hg => sim_list_succ ih hs hρ hw hg
      arms := fun h2 h3 hρ hw hv hg => sim_arms_succ ih h2 h3 hρ hw hv hg
      app := fun hf ha hw hg => sim_app_succ hp ih hf ha hw hg }

/-! ### whole programs -/

theorem findFn_some_inv {P : Prog} {g : String} {f : Fn} (h : P.findFn g = some f) : f ∈ P.fns ∧ f.name = g := by
  unfold Prog.findFn at h
  exact ⟨List.mem_of_find?_eq_some h, by simpa using List.find?_some h⟩

theorem progRel_of_progOk (h : progOk P P' = true) : ProgRel P P' ∧ globalOk P P' "main" = true := by
  unfold progOk at h
  simp only [Bool.and_eq_true, List.all_eq_true, decide_eq_true_eq] at h
  obtain ⟨⟨⟨h1, h2⟩, h3⟩, h4⟩ := h
  refine ⟨⟨?_, h2, h3⟩, h4⟩
  intro g f hf
  obtain ⟨hmem, hname⟩ := findFn_some_inv hf
  have := h1 f hmem
  rw [hname, hf] at this
  split at this
  · rename_i f0 f' h0 h0'
    simp only [Option.some.injEq] at h0
    subst h0
    exact ⟨f', h0', this⟩
  · cases this

theorem WRel.init (eager : Bool) : WRel P P' { eager := eager } { eager := eager } :=
  ⟨rfl, .nil, .nil, rfl, rfl⟩

def outcomeOf : Res Val → Outcome
  | .ok _ w => { out := w.out, status := "ok", externs := w.externs }
  | .fail f w => { out := w.out, status := failStr f, externs := w.externs }

theorem run_eq (fuel : Nat) (Q : Prog) (entry : String) (eager : Bool) :
    run fuel Q entry eager = outcomeOf (apply fuel Q { eager := eager } (.fn entry) []) := by
  unfold run
  cases apply fuel Q { eager := eager } (.fn entry) [] <;> rfl

/-- the observable outcome of related results is the same -/
theorem outcome_eq {s : Shape} {r r' : Res Val} (h : ResRel P P' s r r') : outcomeOf r = outcomeOf r' := by
  cases r <;> cases r' <;> simp only [ResRel] at h
  · simp [outcomeOf, h.2.2.out, h.2.2.externs]
  · simp [outcomeOf, h.1, h.2.out, h.2.externs]

theorem good_of_status {r : Res Val}
    (h : (outcomeOf r).status = "ok" ∨ ∃ k, (outcomeOf r).status = "panic:" ++ k) : Good r := by
  cases r with
  | ok v w => trivial
  | fail f w =>
    cases f with
    | panic k => trivial
    | fuel =>
      exfalso
      rcases h with h | ⟨k, h⟩
      · simp [outcomeOf, failStr] at h
      · have := congrArg String.toList h
        simp [outcomeOf, failStr, String.toList_append] at this
    | stuck m =>
      exfalso
      rcases h with h | ⟨k, h⟩
      · have := congrArg String.toList h
        simp [outcomeOf, failStr, String.toList_append] at this
      · have := congrArg String.toList h
        simp [outcomeOf, failStr, String.toList_append] at this

/-- an accepted pair of programs: whenever the source run ends normally or panics, the lifted
    program produces the same observable outcome for every sufficiently large fuel -/
theorem run_sim (h : progOk P P' = true) (fuel : Nat) (eager : Bool)
    (hgood : (run fuel P "main" eager).status = "ok" ∨ ∃ k, (run fuel P "main" eager).status = "panic:" ++ k) :
    ∃ fuel', ∀ m, fuel' ≤ m → run m P' "main" eager = run fuel P "main" eager := by
  obtain ⟨hp, hmain⟩ := progRel_of_progOk h
  rw [run_eq] at hgood
  have hg : Good (apply fuel P { eager := eager } (.fn "main") []) := good_of_status hgood
  obtain ⟨r', ⟨k, hk⟩, hr⟩ := (simAll hp fuel).app (VRel.fn_of_globalOk hmain) .nil (WRel.init eager) hg
  refine ⟨k, fun m hm => ?_⟩
  rw [run_eq, run_eq, hk m hm]
  exact (outcome_eq hr).symm

end
end Goml.Lift
