import GomlVerif.Lemmas.LiftSimBuiltin
import GomlVerif.Lemmas.LiftSimEnv
import GomlVerif.Lemmas.LiftSimInv
import GomlVerif.Lemmas.LiftSemUnfold
/-!
C08: an accepted pair of programs is a simulation under `Sem`.

`SimAt n`: every source evaluation with fuel `n` that neither runs out of fuel nor gets stuck is
matched by the lifted program: there is a result `r'`, related to the source result, that the
target evaluation returns for *every* sufficiently large fuel (fuel-monotone form; the lifted
program needs more fuel: rebinding of captured variables, the extra argument of apply calls).
Proved by induction on `n`; inside, by cases on the source expression (every recursive call of
`Sem.eval` consumes fuel, so the induction hypothesis applies to all sub-evaluations).
-/
namespace Goml.Lift
open Goml Goml.Sem

section
variable (P P' : Prog)

/-- what `progOk` establishes -/
structure ProgRel : Prop where
  fns : ∀ g f, P.findFn g = some f → ∃ f', P'.findFn g = some f' ∧ fnOk P P' f f' = true
  impls : P.impls = P'.impls
  implsOk : ∀ i, i ∈ P.impls → globalOk P P' i.2.2.2 = true

/-- the promise of the declared return type of a called top-level function -/
def applyShape (fv' : Val) : Shape :=
  match fv' with
  | .fn g =>
    match P.findFn g, P'.findFn g with
    | some _, some fn' => claim P' fn'.ret
    | _, _ => .any
  | _ => .any

structure SimAt (n : Nat) : Prop where
  expr : ∀ {e e' : Expr} {Γ : SEnv} {S T : List String} {ρ ρ' : Sem.Env} {w w' : World} {s : Shape},
    simE P P' Γ S T e e' = some s → EnvRel P P' Γ S T ρ ρ' → WRel P P' w w' → Good (eval n P ρ w e) →
    ∃ r', (∃ k, ∀ m, k ≤ m → eval m P' ρ' w' e' = r') ∧ ResRel P P' s (eval n P ρ w e) r'
  list : ∀ {es es' : List Expr} {Γ : SEnv} {S T : List String} {ρ ρ' : Sem.Env} {w w' : World} {ss : List Shape},
    simList P P' Γ S T es es' = some ss → EnvRel P P' Γ S T ρ ρ' → WRel P P' w w' → Good (evalList n P ρ w es) →
    ∃ r', (∃ k, ∀ m, k ≤ m → evalList m P' ρ' w' es' = r') ∧ ResRelL P P' ss (evalList n P ρ w es) r'
  arms : ∀ {arms arms' : List Arm} {d d' : Option Expr} {Γ : SEnv} {S T : List String} {ρ ρ' : Sem.Env}
    {w w' : World} {v v' : Val},
    simArms P P' Γ S T arms arms' = true → simOpt P P' Γ S T d d' = true → EnvRel P P' Γ S T ρ ρ' →
    WRel P P' w w' → VRel P P' v v' → Good (evalArms n P ρ w v arms d) →
    ∃ r', (∃ k, ∀ m, k ≤ m → evalArms m P' ρ' w' v' arms' d' = r') ∧ ResRel P P' .any (evalArms n P ρ w v arms d) r'
  app : ∀ {f f' : Val} {args args' : List Val} {w w' : World},
    VRel P P' f f' → VRelList P P' args args' → WRel P P' w w' → Good (apply n P w f args) →
    ∃ r', (∃ k, ∀ m, k ≤ m → apply m P' w' f' args' = r') ∧ ResRel P P' (applyShape P P' f') (apply n P w f args) r'

end

section
variable {P P' : Prog}

theorem not_good_fuel {α : Type} {w : World} : ¬ Good (Res.fail (α := α) Fail.fuel w) := by simp [Good]
theorem not_good_stuck {α : Type} {w : World} {m : String} : ¬ Good (Res.fail (α := α) (Fail.stuck m) w) := by simp [Good]

theorem simAt_zero : SimAt P P' 0 := by
  refine ⟨?_, ?_, ?_, ?_⟩
  · intro e e' Γ S T ρ ρ' w w' s _ _ _ hg
    rw [eval] at hg; exact absurd hg not_good_fuel
  · intro es es' Γ S T ρ ρ' w w' ss _ _ _ hg
    rw [evalList] at hg; exact absurd hg not_good_fuel
  · intro arms arms' d d' Γ S T ρ ρ' w w' v v' _ _ _ _ _ hg
    rw [evalArms] at hg; exact absurd hg not_good_fuel
  · intro f f' args args' w w' _ _ _ hg
    rw [apply] at hg; exact absurd hg not_good_fuel

/-- from "stable one step later" to "stable" -/
theorem stable_succ {α : Type} {g : Nat → α} {r : α} {k : Nat} (h : ∀ m, k ≤ m → g (m + 1) = r) :
    ∃ k', ∀ m, k' ≤ m → g m = r :=
  ⟨k + 1, fun m hm => by
    obtain ⟨m', rfl⟩ : ∃ m', m = m' + 1 := ⟨m - 1, by omega⟩
    exact h m' (by omega)⟩

theorem ResRel.fail_inv {s : Shape} {f : Fail} {w : World} {r' : Res Val} (h : ResRel P P' s (.fail f w) r') :
    ∃ w', r' = .fail f w' ∧ WRel P P' w w' := by
  cases r' with
  | ok v w' => simp [ResRel] at h
  | fail f' w' => simp only [ResRel] at h; obtain ⟨rfl, hw⟩ := h; exact ⟨w', rfl, hw⟩

theorem ResRel.ok_inv {s : Shape} {v : Val} {w : World} {r' : Res Val} (h : ResRel P P' s (.ok v w) r') :
    ∃ v' w', r' = .ok v' w' ∧ VRel P P' v v' ∧ HasShape s v' ∧ WRel P P' w w' := by
  cases r' with
  | ok v' w' => simp only [ResRel] at h; exact ⟨v', w', rfl, h.1, h.2.1, h.2.2⟩
  | fail f' w' => simp [ResRel] at h

theorem ResRelL.fail_inv {ss : List Shape} {f : Fail} {w : World} {r' : Res (List Val)}
    (h : ResRelL P P' ss (.fail f w) r') : ∃ w', r' = .fail f w' ∧ WRel P P' w w' := by
  cases r' with
  | ok v w' => simp [ResRelL] at h
  | fail f' w' => simp only [ResRelL] at h; obtain ⟨rfl, hw⟩ := h; exact ⟨w', rfl, hw⟩

theorem ResRelL.ok_inv {ss : List Shape} {vs : List Val} {w : World} {r' : Res (List Val)}
    (h : ResRelL P P' ss (.ok vs w) r') :
    ∃ vs' w', r' = .ok vs' w' ∧ VRelList P P' vs vs' ∧ HasShapes ss vs' ∧ WRel P P' w w' := by
  cases r' with
  | ok v' w' => simp only [ResRelL] at h; exact ⟨v', w', rfl, h.1, h.2.1, h.2.2⟩
  | fail f' w' => simp [ResRelL] at h

/-- a propagated failure of a good run is itself good -/
theorem Good.fail_of {α β : Type} {f : Fail} {w : World} (h : Good (Res.fail (α := α) f w)) :
    Good (Res.fail (α := β) f w) := by
  cases f <;> simp_all [Good]

/-- a relation on results that relates equal failures in related worlds -/
def FailClosed {β : Type} (R : Res β → Res β → Prop) : Prop :=
  ∀ f w w', WRel P P' w w' → R (.fail f w) (.fail f w')

theorem ResRel.failClosed (s : Shape) : FailClosed (P := P) (P' := P') (ResRel P P' s) :=
  fun _ _ _ hw => ⟨rfl, hw⟩
theorem ResRelL.failClosed (ss : List Shape) : FailClosed (P := P) (P' := P') (ResRelL P P' ss) :=
  fun _ _ _ hw => ⟨rfl, hw⟩

theorem Good.andThen_left {α β : Type} {r : Res α} {K : α → World → Res β} (h : Good (r.andThen K)) : Good r := by
  cases r with
  | ok v w => trivial
  | fail f w => exact Good.fail_of h

/-- sequencing after an expression: the target continuation may depend on the fuel -/
theorem sim_bind0 {n : Nat} (ih : SimAt P P' n) {β : Type} {R : Res β → Res β → Prop} (hR : FailClosed (P := P) (P' := P') R)
    {e1 e1' : Expr} {Γ : SEnv} {S T : List String} {ρ ρ' : Sem.Env} {w w' : World} {s1 : Shape}
    {K : Val → World → Res β} {K' : Nat → Val → World → Res β}
    (hs1 : simE P P' Γ S T e1 e1' = some s1) (hρ : EnvRel P P' Γ S T ρ ρ') (hw : WRel P P' w w')
    (hK : ∀ v v' w1 w1', VRel P P' v v' → HasShape s1 v' → WRel P P' w1 w1' →
      (∃ k, ∀ m, k ≤ m → eval m P' ρ' w' e1' = .ok v' w1') → Good (K v w1) →
      ∃ r', (∃ k, ∀ m, k ≤ m → K' m v' w1' = r') ∧ R (K v w1) r')
    (hg : Good ((eval n P ρ w e1).andThen K)) :
    ∃ r', (∃ k, ∀ m, k ≤ m → (eval m P' ρ' w' e1').andThen (K' m) = r') ∧ R ((eval n P ρ w e1).andThen K) r' := by
  obtain ⟨r1', ⟨k1, hk1⟩, hr1⟩ := ih.expr hs1 hρ hw (Good.andThen_left hg)
  cases hr : eval n P ρ w e1 with
  | fail f w1 =>
    rw [hr] at hr1
    obtain ⟨w1', rfl, hw1⟩ := ResRel.fail_inv hr1
    refine ⟨.fail f w1', ⟨k1, fun m hm => by rw [hk1 m hm]; rfl⟩, ?_⟩
    simpa using hR f w1 w1' hw1
  | ok v w1 =>
    rw [hr] at hr1 hg
    obtain ⟨v', w1', rfl, hv, hsv, hw1⟩ := ResRel.ok_inv hr1
    obtain ⟨r', ⟨k2, hk2⟩, hr'⟩ := hK v v' w1 w1' hv hsv hw1 ⟨k1, hk1⟩ (by simpa using hg)
    refine ⟨r', ⟨max k1 k2, fun m hm => ?_⟩, by simpa using hr'⟩
    rw [hk1 m (by omega)]
    simpa using hk2 m (by omega)

/-- sequencing after an argument list -/
theorem sim_bindL0 {n : Nat} (ih : SimAt P P' n) {β : Type} {R : Res β → Res β → Prop} (hR : FailClosed (P := P) (P' := P') R)
    {es es' : List Expr} {Γ : SEnv} {S T : List String} {ρ ρ' : Sem.Env} {w w' : World} {ss : List Shape}
    {K : List Val → World → Res β} {K' : Nat → List Val → World → Res β}
    (hs1 : simList P P' Γ S T es es' = some ss) (hρ : EnvRel P P' Γ S T ρ ρ') (hw : WRel P P' w w')
    (hK : ∀ vs vs' w1 w1', VRelList P P' vs vs' → HasShapes ss vs' → WRel P P' w1 w1' → Good (K vs w1) →
      ∃ r', (∃ k, ∀ m, k ≤ m → K' m vs' w1' = r') ∧ R (K vs w1) r')
    (hg : Good ((evalList n P ρ w es).andThen K)) :
    ∃ r', (∃ k, ∀ m, k ≤ m → (evalList m P' ρ' w' es').andThen (K' m) = r') ∧ R ((evalList n P ρ w es).andThen K) r' := by
  obtain ⟨r1', ⟨k1, hk1⟩, hr1⟩ := ih.list hs1 hρ hw (Good.andThen_left hg)
  cases hr : evalList n P ρ w es with
  | fail f w1 =>
    rw [hr] at hr1
    obtain ⟨w1', rfl, hw1⟩ := ResRelL.fail_inv hr1
    refine ⟨.fail f w1', ⟨k1, fun m hm => by rw [hk1 m hm]; rfl⟩, ?_⟩
    simpa using hR f w1 w1' hw1
  | ok v w1 =>
    rw [hr] at hr1 hg
    obtain ⟨v', w1', rfl, hv, hsv, hw1⟩ := ResRelL.ok_inv hr1
    obtain ⟨r', ⟨k2, hk2⟩, hr'⟩ := hK v v' w1 w1' hv hsv hw1 (by simpa using hg)
    refine ⟨r', ⟨max k1 k2, fun m hm => ?_⟩, by simpa using hr'⟩
    rw [hk1 m (by omega)]
    simpa using hk2 m (by omega)

/-- a target step function that is `F m` one unit of fuel later -/
theorem stable_shift {α : Type} {g F : Nat → α} {r : α} (hg : ∀ m, g (m + 1) = F m)
    (h : ∃ k, ∀ m, k ≤ m → F m = r) : ∃ k, ∀ m, k ≤ m → g m = r := by
  obtain ⟨k, hk⟩ := h
  exact stable_succ (k := k) (fun m hm => by rw [hg, hk m hm])

theorem lift_shift {α : Type} {g F : Nat → α} {X : α → Prop} (hg : ∀ m, g (m + 1) = F m)
    (h : ∃ r', (∃ k, ∀ m, k ≤ m → F m = r') ∧ X r') : ∃ r', (∃ k, ∀ m, k ≤ m → g m = r') ∧ X r' := by
  obtain ⟨r', hst, hx⟩ := h
  exact ⟨r', stable_shift hg hst, hx⟩

end
end Goml.Lift
