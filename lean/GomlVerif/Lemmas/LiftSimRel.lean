import GomlVerif.Model.LiftSim
/-!
C08: the simulation relation between a Mono program `P` and its lifted form `P'` under `Sem`.

A source closure value `closure ps body ρ` is related to an environment struct value
`structV n vs'` when `P'` has the apply function of `n`, its body is the accepted lifting of
`body` wrapped in the rebinding of the captured variables `ys`, and the fields `vs'` are related
to the values of `ys` in `ρ` (`CapRel`).  References are related to themselves: captured `Ref`
cells are the same store locations.
-/
namespace Goml.Lift
open Goml Goml.Sem

mutual
/-- a target value has the statically known shape -/
def HasShape : Shape → Val → Prop
  | .any, _ => True
  | .clo n, v => ∃ vs, v = .structV n vs
  | .tup ss, v => ∃ vs, v = .tuple vs ∧ HasShapes ss vs
def HasShapes : List Shape → List Val → Prop
  | [], vs => vs = []
  | s :: ss, vs => ∃ v rest, vs = v :: rest ∧ HasShape s v ∧ HasShapes ss rest
end

/-- what `var x` evaluates to -/
def valOf (ρ : Sem.Env) (x : String) : Val := (lookupEnv ρ x).getD (.fn x)

section
variable (P P' : Prog)

mutual
inductive VRel : Val → Val → Prop
  | unit : VRel .unit .unit
  | bool (b : Bool) : VRel (.bool b) (.bool b)
  | int (b : Nat) (s : Bool) (v : Int) : VRel (.int b s v) (.int b s v)
  | float (b : Nat) (x : Float) : VRel (.float b x) (.float b x)
  | str (s : String) : VRel (.str s) (.str s)
  | tuple {vs vs' : List Val} : VRelList vs vs' → VRel (.tuple vs) (.tuple vs')
  | enumV {t : String} {i : Nat} {vs vs' : List Val} : VRelList vs vs' → VRel (.enumV t i vs) (.enumV t i vs')
  | structV {n : String} {vs vs' : List Val} : VRelList vs vs' →
      (∀ i v', vs'[i]? = some v' → HasShape (fieldShape P' n i) v') → VRel (.structV n vs) (.structV n vs')
  | array {vs vs' : List Val} : VRelList vs vs' → VRel (.array vs) (.array vs')
  | vec {vs vs' : List Val} : VRelList vs vs' → VRel (.vec vs) (.vec vs')
  | ref (l : Nat) : VRel (.ref l) (.ref l)
  | fn (name : String) : (P.findFn name = none → P'.findFn name = none) → VRel (.fn name) (.fn name)
  | dyn {tr key : String} {v v' : Val} : VRel v v' → VRel (.dyn tr key v) (.dyn tr key v')
  | closure {n envp : String} {ps ys : List String} {body body' : Expr} {fn : Fn} {Γ : SEnv} {S : List String}
      {s : Shape} {ρ : Sem.Env} {vs' : List Val} :
      P'.findFn (applyFnName n) = some fn →
      fn.params.map (·.1) = envp :: ps →
      unrebind n envp 0 ys fn.body = some body' →
      simE P P' (ys.map (fun y => (y, Γ.get y))) (ps ++ S) (ys ++ ps ++ [envp]) body body' = some s →
      (∀ y, y ∈ ys → y ∈ S ∧ y ∉ ps ∧ y ≠ envp) →
      (∀ p, p ∈ ps → p ∉ S ∧ p ≠ envp ∧ globalOk P P' p = true) →
      envp ∉ S →
      (∀ x, x ∉ S → lookupEnv ρ x = none) →
      CapRel Γ ρ ys vs' →
      VRel (.closure ps body ρ) (.structV n vs')
inductive VRelList : List Val → List Val → Prop
  | nil : VRelList [] []
  | cons {v v' : Val} {vs vs' : List Val} : VRel v v' → VRelList vs vs' → VRelList (v :: vs) (v' :: vs')
/-- the fields of an environment struct against the captured variables' values at creation -/
inductive CapRel : SEnv → Sem.Env → List String → List Val → Prop
  | nil {Γ : SEnv} {ρ : Sem.Env} : CapRel Γ ρ [] []
  | cons {Γ : SEnv} {ρ : Sem.Env} {y : String} {ys : List String} {v' : Val} {vs' : List Val} :
      VRel (valOf ρ y) v' → HasShape (Γ.get y) v' → CapRel Γ ρ ys vs' → CapRel Γ ρ (y :: ys) (v' :: vs')
end

structure WRel (w w' : World) : Prop where
  out : w.out = w'.out
  store : VRelList P P' w.store.toList w'.store.toList
  spawned : VRelList P P' w.spawned w'.spawned
  externs : w.externs = w'.externs
  eager : w.eager = w'.eager

/-- `S`/`T`: names that may be bound in the source/target environment; on their intersection
    the values correspond and the target value has the shape recorded in `Γ` -/
structure EnvRel (Γ : SEnv) (S T : List String) (ρ ρ' : Sem.Env) : Prop where
  rel : ∀ x, x ∈ S → x ∈ T → VRel P P' (valOf ρ x) (valOf ρ' x) ∧ HasShape (Γ.get x) (valOf ρ' x)
  src : ∀ x, x ∉ S → lookupEnv ρ x = none
  tgt : ∀ x, x ∉ T → lookupEnv ρ' x = none

end

/-- the source run neither ran out of fuel nor got stuck -/
def Good {α : Type} : Res α → Prop
  | .ok _ _ => True
  | .fail (.panic _) _ => True
  | _ => False

section
variable (P P' : Prog)

def ResRel (s : Shape) : Res Val → Res Val → Prop
  | .ok v w, .ok v' w' => VRel P P' v v' ∧ HasShape s v' ∧ WRel P P' w w'
  | .fail f w, .fail f' w' => f = f' ∧ WRel P P' w w'
  | _, _ => False

def ResRelL (ss : List Shape) : Res (List Val) → Res (List Val) → Prop
  | .ok vs w, .ok vs' w' => VRelList P P' vs vs' ∧ HasShapes ss vs' ∧ WRel P P' w w'
  | .fail f w, .fail f' w' => f = f' ∧ WRel P P' w w'
  | _, _ => False

end

/-! ### lists of related values -/
section
variable {P P' : Prog}

theorem VRelList.length_eq {vs vs' : List Val} (h : VRelList P P' vs vs') : vs.length = vs'.length := by
  induction vs generalizing vs' with
  | nil => cases h; rfl
  | cons v vs ih => cases h with | cons h1 h2 => simp [ih h2]

theorem VRelList.get {vs vs' : List Val} (h : VRelList P P' vs vs') (i : Nat) :
    (vs[i]? = none ∧ vs'[i]? = none) ∨ ∃ v v', vs[i]? = some v ∧ vs'[i]? = some v' ∧ VRel P P' v v' := by
  induction vs generalizing vs' i with
  | nil => cases h; exact Or.inl ⟨rfl, rfl⟩
  | cons v vs ih =>
    cases h with
    | cons h1 h2 =>
      cases i with
      | zero => exact Or.inr ⟨_, _, rfl, rfl, h1⟩
      | succ i => simpa using ih h2 i

theorem VRelList.append {vs vs' us us' : List Val} (h : VRelList P P' vs vs') (h2 : VRelList P P' us us') :
    VRelList P P' (vs ++ us) (vs' ++ us') := by
  induction vs generalizing vs' with
  | nil => cases h; simpa using h2
  | cons v vs ih => cases h with | cons a b => exact .cons a (ih b)

theorem VRelList.set {vs vs' : List Val} {v v' : Val} (h : VRelList P P' vs vs') (hv : VRel P P' v v') (i : Nat) :
    VRelList P P' (vs.set i v) (vs'.set i v') := by
  induction vs generalizing vs' i with
  | nil => cases h; exact .nil
  | cons a vs ih =>
    cases h with
    | cons h1 h2 =>
      cases i with
      | zero => exact .cons hv h2
      | succ i => exact .cons h1 (ih h2 i)

theorem VRelList.singleton {v v' : Val} (h : VRel P P' v v') : VRelList P P' [v] [v'] := .cons h .nil

/-! ### shapes -/

theorem HasShape.any (v : Val) : HasShape .any v := by simp [HasShape]

mutual
theorem HasShape.mono : ∀ (a b : Shape) (v : Val), shapeLe a b = true → HasShape a v → HasShape b v
  | a, .any, v, _, _ => HasShape.any v
  | .clo n, .clo m, v, h, hv => by
    simp [shapeLe] at h; subst h; exact hv
  | .tup ss, .tup ts, v, h, hv => by
    simp only [shapeLe] at h
    simp only [HasShape] at hv ⊢
    obtain ⟨vs, rfl, hvs⟩ := hv
    exact ⟨vs, rfl, HasShapes.mono ss ts vs h hvs⟩
  | .any, .clo _, _, h, _ => by simp [shapeLe] at h
  | .any, .tup _, _, h, _ => by simp [shapeLe] at h
  | .clo _, .tup _, _, h, _ => by simp [shapeLe] at h
  | .tup _, .clo _, _, h, _ => by simp [shapeLe] at h
theorem HasShapes.mono : ∀ (ss ts : List Shape) (vs : List Val), shapeLeList ss ts = true → HasShapes ss vs → HasShapes ts vs
  | [], [], vs, _, h => h
  | a :: ss, b :: ts, vs, h, hv => by
    simp only [shapeLeList, Bool.and_eq_true] at h
    simp only [HasShapes] at hv ⊢
    obtain ⟨v, rest, rfl, h1, h2⟩ := hv
    exact ⟨v, rest, rfl, HasShape.mono a b v h.1 h1, HasShapes.mono ss ts rest h.2 h2⟩
  | [], _ :: _, _, h, _ => by simp [shapeLeList] at h
  | _ :: _, [], _, h, _ => by simp [shapeLeList] at h
end

theorem HasShape.proj {s : Shape} {vs : List Val} {i : Nat} {v : Val}
    (h : HasShape s (.tuple vs)) (hi : vs[i]? = some v) : HasShape (s.proj i) v := by
  cases s with
  | any => exact HasShape.any v
  | clo n => exact HasShape.any v
  | tup ss =>
    simp only [HasShape] at h
    obtain ⟨vs0, h0, hs⟩ := h
    cases h0
    simp only [Shape.proj]
    induction ss generalizing vs i with
    | nil => simp only [HasShapes] at hs; subst hs; simp at hi
    | cons a ss ih =>
      simp only [HasShapes] at hs
      obtain ⟨v0, rest, rfl, h1, h2⟩ := hs
      cases i with
      | zero => simp at hi; subst hi; simpa using h1
      | succ i => simpa using ih (by simpa using hi) h2

end

end Goml.Lift
