import GomlVerif.Model.Lower
/-! A small Hoare logic for the lowering monad `M` of `Model/Lower.lean`.

`Bal Γ m P`: started with the binder stack `Γ`, `m` ends with the stack `Γ`, does not get stuck, and a
result satisfies `P`.  `Ext Γ m P`: `m` ends with `Γ ++ ext` (it only pushes) and a result satisfies `P · ext`. -/
namespace Goml.Lower
open Goml.Src

def Bal {α} (Γ : List String) (m : M α) (P : α → Prop) : Prop :=
  ∀ s : St, s.locals = Γ → (m s).2.locals = Γ ∧ (m s).2.stuck = s.stuck ∧ ∀ a, (m s).1 = some a → P a

def Ext {α} (Γ : List String) (m : M α) (P : α → List String → Prop) : Prop :=
  ∀ s : St, s.locals = Γ →
    ∃ ext, (m s).2.locals = Γ ++ ext ∧ (m s).2.stuck = s.stuck ∧ ∀ a, (m s).1 = some a → P a ext

variable {α β : Type} {Γ : List String}

theorem bind_run (m : M α) (f : α → M β) (s : St) :
    (m >>= f) s = (match m s with | (some a, s') => f a s' | (none, s') => (none, s')) := rfl

theorem Bal.weaken {m : M α} {P Q : α → Prop} (h : Bal Γ m P) (hpq : ∀ a, P a → Q a) : Bal Γ m Q := by
  intro s hs
  obtain ⟨h1, h2, h3⟩ := h s hs
  exact ⟨h1, h2, fun a ha => hpq a (h3 a ha)⟩

theorem Bal.pure {a : α} {P : α → Prop} (h : P a) : Bal Γ (pure a : M α) P := by
  intro s hs
  exact ⟨hs, rfl, fun b hb => by cases hb; exact h⟩

theorem Bal.mpure {a : α} {P : α → Prop} (h : P a) : Bal Γ (M.pure a) P := Bal.pure h

theorem Bal.bind {m : M α} {f : α → M β} {P : α → Prop} {Q : β → Prop}
    (hm : Bal Γ m P) (hf : ∀ a, P a → Bal Γ (f a) Q) : Bal Γ (m >>= f) Q := by
  intro s hs
  have h := hm s hs
  rw [bind_run]
  revert h
  rcases m s with ⟨_ | a, s'⟩ <;> intro h
  · exact ⟨h.1, h.2.1, fun a ha => by cases ha⟩
  · obtain ⟨g1, g2, g3⟩ := hf a (h.2.2 a rfl) s' h.1
    exact ⟨g1, g2.trans h.2.1, g3⟩

theorem Bal.mbind {m : M α} {f : α → M β} {P : α → Prop} {Q : β → Prop}
    (hm : Bal Γ m P) (hf : ∀ a, P a → Bal Γ (f a) Q) : Bal Γ (M.bind m f) Q := Bal.bind hm hf

theorem Bal.fail {P : α → Prop} : Bal Γ (fail : M α) P := by
  intro s hs; exact ⟨hs, rfl, fun a ha => by cases ha⟩
theorem Bal.err {P : α → Prop} (msg : String) : Bal Γ (err msg : M α) P := by
  intro s hs; exact ⟨hs, rfl, fun a ha => by cases ha⟩
theorem Bal.starve {P : α → Prop} : Bal Γ (starve : M α) P := by
  intro s hs; exact ⟨hs, rfl, fun a ha => by cases ha⟩
theorem Bal.note (msg : String) : Bal Γ (note msg) (fun _ => True) := by
  intro s hs; exact ⟨hs, rfl, fun _ _ => trivial⟩
theorem Bal.ofOpt {o : Option α} {P : α → Prop} (h : ∀ a, o = some a → P a) : Bal Γ (ofOpt o) P := by
  cases o with
  | none => exact Bal.fail
  | some a => exact Bal.mpure (h a rfl)
theorem Bal.opt {m : M α} {P : α → Prop} (h : Bal Γ m P) : Bal Γ (opt m) (fun o => ∀ a, o = some a → P a) := by
  intro s hs
  obtain ⟨h1, h2, h3⟩ := h s hs
  refine ⟨h1, h2, fun o ho => ?_⟩
  have e : (Goml.Lower.opt m s).1 = some (m s).1 := rfl
  rw [e] at ho
  cases ho
  exact h3
theorem Bal.getLocals : Bal Γ getLocals (fun ls => ls = Γ) := by
  intro s hs
  refine ⟨hs, rfl, fun a ha => ?_⟩
  have e : (Goml.Lower.getLocals s).1 = some s.locals := rfl
  rw [e] at ha
  cases ha
  exact hs

theorem Ext.ofBal {m : M α} {P : α → Prop} (h : Bal Γ m P) : Ext Γ m (fun a e => e = [] ∧ P a) := by
  intro s hs
  obtain ⟨h1, h2, h3⟩ := h s hs
  exact ⟨[], by simpa using h1, h2, fun a ha => ⟨rfl, h3 a ha⟩⟩

theorem Ext.weaken {m : M α} {P Q : α → List String → Prop} (h : Ext Γ m P) (hpq : ∀ a e, P a e → Q a e) : Ext Γ m Q := by
  intro s hs
  obtain ⟨e, h1, h2, h3⟩ := h s hs
  exact ⟨e, h1, h2, fun a ha => hpq a e (h3 a ha)⟩

/-- the truncation at the end of a block / arm / closure / function restores the stack, whatever was pushed inside -/
theorem Bal.withLocals {m : M α} {xs : List String} {P : α → List String → Prop} (h : Ext (Γ ++ xs) m P) :
    Bal Γ (withLocals xs m) (fun a => ∃ e, P a e) := by
  intro s hs
  obtain ⟨e, h1, h2, h3⟩ := h { s with locals := s.locals ++ xs } (by simp [hs])
  refine ⟨?_, h2, fun a ha => ⟨e, h3 a ha⟩⟩
  show ((m { s with locals := s.locals ++ xs }).2.locals.take s.locals.length) = Γ
  rw [h1, hs, List.append_assoc, List.take_left']
  rfl

theorem Ext.pushLocals (xs : List String) : Ext Γ (pushLocals xs) (fun _ e => e = xs) := by
  intro s hs
  exact ⟨xs, by simp [Goml.Lower.pushLocals, hs], rfl, fun _ _ => rfl⟩

/-- a balanced computation followed by one that pushes -/
theorem Ext.bindBal {m : M α} {f : α → M β} {P : α → Prop} {Q : β → List String → Prop}
    (hm : Bal Γ m P) (hf : ∀ a, P a → Ext Γ (f a) Q) : Ext Γ (m >>= f) Q := by
  intro s hs
  have h := hm s hs
  rw [bind_run]
  revert h
  rcases m s with ⟨_ | a, s'⟩ <;> intro h
  · exact ⟨[], by simpa using h.1, h.2.1, fun a ha => by cases ha⟩
  · obtain ⟨e, g1, g2, g3⟩ := hf a (h.2.2 a rfl) s' h.1
    exact ⟨e, g1, g2.trans h.2.1, g3⟩

/-- two computations that push, in sequence -/
theorem Ext.bind {m : M α} {f : α → M β} {P : α → List String → Prop} {Q : β → List String → Prop}
    (hm : Ext Γ m P) (hf : ∀ a e, P a e → Ext (Γ ++ e) (f a) Q) :
    Ext Γ (m >>= f) (fun b e => ∃ a e1 e2, e = e1 ++ e2 ∧ P a e1 ∧ Q b e2) := by
  intro s hs
  have h := hm s hs
  rw [bind_run]
  revert h
  rcases m s with ⟨_ | a, s'⟩ <;> intro h
  · obtain ⟨e1, h1, h2, _⟩ := h
    exact ⟨e1, h1, h2, fun a ha => by cases ha⟩
  · obtain ⟨e1, h1, h2, h3⟩ := h
    obtain ⟨e2, g1, g2, g3⟩ := hf a e1 (h3 a rfl) s' h1
    exact ⟨e1 ++ e2, by simpa [List.append_assoc] using g1, g2.trans h2,
      fun b hb => ⟨a, e1, e2, rfl, h3 a rfl, g3 b hb⟩⟩

theorem Bal.mapSkip {f : β → M α} {P : α → Prop} :
    ∀ (xs : List β), (∀ x ∈ xs, Bal Γ (f x) P) → Bal Γ (mapSkip f xs) (fun ys => ∀ y ∈ ys, P y)
  | [], _ => Bal.mpure (by simp)
  | x :: xs, h => by
    have ih := Bal.mapSkip xs (fun y hy => h y (List.mem_cons_of_mem _ hy))
    intro s hs
    obtain ⟨h1, h2, h3⟩ := h x (List.mem_cons_self ..) s hs
    obtain ⟨g1, g2, g3⟩ := ih (f x s).2 h1
    simp only [Goml.Lower.mapSkip]
    cases hr : Goml.Lower.mapSkip f xs (f x s).2 with
    | mk o s' =>
      rw [hr] at g1 g2 g3
      cases o with
      | none => exact ⟨g1, g2.trans h2, fun a ha => by cases ha⟩
      | some ys =>
        refine ⟨g1, g2.trans h2, fun zs hzs => ?_⟩
        simp only [Option.some.injEq] at hzs
        subst hzs
        intro y hy
        cases hfx : (f x s).1 with
        | none => rw [hfx] at hy; exact g3 ys rfl y hy
        | some y0 =>
          rw [hfx] at hy
          rcases List.mem_cons.mp hy with rfl | hy'
          · exact h3 _ hfx
          · exact g3 ys rfl y hy'

theorem Bal.mapAll {f : β → M α} {P : α → Prop} :
    ∀ (xs : List β), (∀ x ∈ xs, Bal Γ (f x) P) → Bal Γ (mapAll f xs) (fun ys => ∀ y ∈ ys, P y)
  | [], _ => Bal.mpure (by simp)
  | x :: xs, h => by
    have ih := Bal.mapAll xs (fun y hy => h y (List.mem_cons_of_mem _ hy))
    simp only [Goml.Lower.mapAll]
    refine Bal.mbind (h x (List.mem_cons_self ..)) (fun y hy => ?_)
    refine Bal.mbind ih (fun ys hys => ?_)
    exact Bal.mpure (fun z hz => by
      rcases List.mem_cons.mp hz with rfl | hz'
      · exact hy
      · exact hys z hz')

end Goml.Lower
