import Lean
import GomlVerif.Model.Lower
/-! `lower_fuel_suffices`: with fuel `≥ 2·size` no function of the lowering model runs out of fuel.
`NS m`: `m` does not set `starved`. Every recursive call goes to a strict sub-tree with one unit less. -/
namespace Goml.Lower
open Goml.Src

def NS {α} (m : M α) : Prop := ∀ s : St, s.starved = false → (m s).2.starved = false

variable {α β : Type}

theorem NS.pure (a : α) : NS (pure a : M α) := fun _ h => h
theorem NS.mpure (a : α) : NS (M.pure a) := fun _ h => h
theorem NS.fail : NS (Goml.Lower.fail : M α) := fun _ h => h
theorem NS.err (msg : String) : NS (Goml.Lower.err msg : M α) := fun _ h => h
theorem NS.note (msg : String) : NS (Goml.Lower.note msg) := fun _ h => h
theorem NS.stuckHere : NS (Goml.Lower.stuckHere : M α) := fun _ h => h
theorem NS.getLocals : NS Goml.Lower.getLocals := fun _ h => h
theorem NS.pushLocals (xs : List String) : NS (Goml.Lower.pushLocals xs) := fun _ h => h
theorem NS.ofOpt (o : Option α) : NS (Goml.Lower.ofOpt o) := by
  cases o with
  | none => exact NS.fail
  | some a => exact NS.mpure a

theorem ns_bind_run (m : M α) (f : α → M β) (s : St) :
    (m >>= f) s = (match m s with | (some a, s') => f a s' | (none, s') => (none, s')) := rfl

theorem NS.bind {m : M α} {f : α → M β} (hm : NS m) (hf : ∀ a, NS (f a)) : NS (m >>= f) := by
  intro s hs
  have h := hm s hs
  rw [ns_bind_run]
  revert h
  rcases m s with ⟨_ | a, s'⟩ <;> intro h
  · exact h
  · exact hf a s' h

/-- the selected child is known to be THE child in what follows -/
theorem NS.bindOfOpt {o : Option α} {f : α → M β} (hf : ∀ a, o = some a → NS (f a)) : NS (Goml.Lower.ofOpt o >>= f) := by
  cases o with
  | none => exact fun s hs => hs
  | some a => exact fun s hs => hf a rfl s hs

theorem NS.opt {m : M α} (h : NS m) : NS (Goml.Lower.opt m) := fun s hs => h s hs
theorem NS.withLocals {m : M α} {xs : List String} (h : NS m) : NS (Goml.Lower.withLocals xs m) :=
  fun s hs => h { s with locals := s.locals ++ xs } hs

theorem NS.mapSkip {f : β → M α} : ∀ (xs : List β), (∀ x ∈ xs, NS (f x)) → NS (Goml.Lower.mapSkip f xs)
  | [], _ => NS.mpure _
  | x :: xs, h => by
    have ih := NS.mapSkip xs (fun y hy => h y (List.mem_cons_of_mem _ hy))
    intro s hs
    have h1 := h x (List.mem_cons_self ..) s hs
    have h2 := ih (f x s).2 h1
    simp only [Goml.Lower.mapSkip]
    revert h2
    rcases Goml.Lower.mapSkip f xs (f x s).2 with ⟨_ | ys, s'⟩ <;> exact id

theorem NS.mapAll {f : β → M α} : ∀ (xs : List β), (∀ x ∈ xs, NS (f x)) → NS (Goml.Lower.mapAll f xs)
  | [], _ => NS.mpure _
  | x :: xs, h => by
    have ih := NS.mapAll xs (fun y hy => h y (List.mem_cons_of_mem _ hy))
    simp only [Goml.Lower.mapAll]
    exact NS.bind (m := f x) (h x (List.mem_cons_self ..)) (fun y => NS.bind (m := Goml.Lower.mapAll f xs) ih (fun ys => NS.mpure _))

theorem NS.run {m : M α} (h : NS m) (s : St) (hs : s.starved = false) : (m s).2.starved = false := h s hs
theorem NS.intro {m : M α} (h : ∀ s : St, s.starved = false → (m s).2.starved = false) : NS m := h

attribute [irreducible] NS

/-! ### sizes -/

theorem size_pos : ∀ c : Cst, 0 < c.size
  | .node _ _ => by simp [Cst.size]; omega
  | .tok _ _ _ => by simp [Cst.size]

theorem mem_sizeList : ∀ {cs : List Cst} {x : Cst}, x ∈ cs → x.size ≤ Cst.sizeList cs
  | c :: cs, x, h => by
    simp only [Cst.sizeList]
    rcases List.mem_cons.mp h with rfl | h'
    · omega
    · have := mem_sizeList h'; omega

theorem mem_kids_size {c x : Cst} (h : x ∈ c.kids) : x.size < c.size := by
  cases c with
  | node k cs => simp only [Cst.kids] at h; have := mem_sizeList h; simp only [Cst.size]; omega
  | tok _ _ _ => simp [Cst.kids] at h

theorem mem_nodesOf {c x : Cst} (h : x ∈ nodesOf c) : x ∈ c.kids := (List.mem_filter.mp h).1

theorem child_size {ks : List String} {c x : Cst} (h : child ks c = some x) : x.size < c.size :=
  mem_kids_size (mem_nodesOf (List.mem_of_find?_eq_some h))

theorem mem_childrenK_size {ks : List String} {c x : Cst} (h : x ∈ childrenK ks c) : x.size < c.size :=
  mem_kids_size (mem_nodesOf (List.mem_filter.mp h).1)

theorem childrenK_head_size {ks : List String} {c p : Cst} {rest : List Cst} (h : childrenK ks c = p :: rest) :
    p.size < c.size := mem_childrenK_size (ks := ks) (by rw [h]; exact List.mem_cons_self ..)
theorem childrenK_second_size {ks : List String} {c p r : Cst} {rest : List Cst} (h : childrenK ks c = p :: r :: rest) :
    r.size < c.size := mem_childrenK_size (ks := ks) (by rw [h]; exact List.mem_cons_of_mem _ (List.mem_cons_self ..))

theorem sizeList_filter_le (p : Cst → Bool) : ∀ cs : List Cst, Cst.sizeList (cs.filter p) ≤ Cst.sizeList cs
  | [] => by simp [Cst.sizeList]
  | c :: cs => by
    have ih := sizeList_filter_le p cs
    by_cases hp : p c = true
    · simp only [List.filter_cons_of_pos hp, Cst.sizeList]; omega
    · simp only [List.filter_cons_of_neg hp, Cst.sizeList]; omega

theorem childrenK_sizeList (ks : List String) (c : Cst) : Cst.sizeList (childrenK ks c) < c.size := by
  have h1 := sizeList_filter_le (fun x => ks.contains x.kind) (nodesOf c)
  have h2 := sizeList_filter_le Cst.isNode c.kids
  have h3 : Cst.sizeList c.kids < c.size := by
    cases c with
    | node k cs => simp [Cst.kids, Cst.size]
    | tok _ _ _ => simp [Cst.kids, Cst.size, Cst.sizeList]
  unfold childrenK
  unfold nodesOf at h1 h2 ⊢
  omega

open Lean Elab Tactic Meta in
/-- add, for every hypothesis `child ks c = some x` / `x ∈ childrenK ks c`, the fact `x.size < c.size` -/
elab "collect_sizes" : tactic => withMainContext do
  let lctx ← getLCtx
  let mut g ← getMainGoal
  for d in lctx do
    if d.isImplementationDetail then continue
    for lem in [``child_size, ``mem_childrenK_size, ``childrenK_head_size, ``childrenK_second_size] do
      try
        let pf ← mkAppM lem #[d.toExpr]
        let pty ← inferType pf
        let g1 ← g.assert `hsz pty pf
        let (_, g2) ← g1.intro1
        g := g2
      catch _ => pure ()
  replaceMainGoal [g]

macro "sz" : tactic => `(tactic| (collect_sizes; omega))

end Goml.Lower
