import GomlVerif.Lemmas.LowerFuel
/-! Fuel sufficiency for every function of `Model/Lower.lean`. -/
namespace Goml.Lower
open Goml.Src

theorem ns_lowerPath (p : Cst) : NS (lowerPath p) := by
  unfold lowerPath; split
  · exact NS.err _
  · exact NS.mpure _
theorem ns_identPath (e : Cst) : NS (lowerCtorPathFromIdentExpr e) := by
  unfold lowerCtorPathFromIdentExpr; split
  · exact ns_lowerPath _
  · exact NS.err _
theorem ns_constrPatPath (e : Cst) : NS (lowerCtorPathFromConstrPat e) := by
  unfold lowerCtorPathFromConstrPat; split
  · exact ns_lowerPath _
  · exact NS.err _
theorem ns_lastIdent (p : List String) : NS (lastIdent p) := by
  unfold lastIdent; split
  · exact NS.mpure _
  · exact NS.stuckHere
theorem ns_noTrailing (tr : List Trailing) (w : String) : NS (noTrailing tr w) := by
  unfold noTrailing; split
  · exact NS.mpure _
  · exact NS.err _
theorem ns_dotAccess (rhs : Cst) : NS (dotAccess rhs) := by
  unfold dotAccess
  repeat' split
  all_goals first | exact NS.err _ | exact NS.mpure _
theorem ns_lowerStrBody (w : String) (t : Cst) : NS (lowerStrBody w t) := by
  unfold lowerStrBody; split
  · exact NS.err _
  · exact NS.pure _

macro "ns_auto" : tactic => `(tactic| repeat' (first
  | exact NS.pure _ | exact NS.mpure _
  | exact NS.err _ | exact NS.fail
  | exact NS.ofOpt _ | exact NS.note _ | exact NS.getLocals | exact NS.pushLocals _
  | exact ns_noTrailing _ _ | exact ns_dotAccess _ | exact ns_lowerStrBody _ _
  | exact ns_lowerPath _ | exact ns_identPath _ | exact ns_constrPatPath _ | exact ns_lastIdent _
  | (refine NS.bindOfOpt (fun _ _ => ?_))
  | (refine NS.bind ?_ (fun _ => ?_))
  | (refine NS.opt ?_)
  | (refine NS.mapSkip _ (fun _ _ => ?_))
  | (refine NS.mapAll _ (fun _ _ => ?_))
  | (refine NS.withLocals ?_)
  | (dsimp only)
  | split))

attribute [local irreducible] lowerTy lowerPat lowerExprW lowerBranch lowerFieldInit lowerArg lowerArm lowerStmt lowerStmts lowerBlock

theorem ns_lowerTy : ∀ (n : Nat) (node : Cst), 2 * node.size ≤ n → NS (lowerTy n node)
  | 0, node, h => by have := size_pos node; omega
  | n + 1, node, h => by
    have ih := ns_lowerTy n
    rw [lowerTy]
    ns_auto
    all_goals first | exact ih _ (by sz) | skip

theorem ns_lowerParam (n : Nat) (node : Cst) (h : 2 * node.size ≤ n) : NS (lowerParam n node) := by
  unfold lowerParam
  ns_auto
  all_goals first | exact ns_lowerTy _ _ (by sz) | skip

attribute [local irreducible] lowerParam

theorem ns_lowerClosureParam (n : Nat) (node : Cst) (h : 2 * node.size ≤ n) : NS (lowerClosureParam n node) := by
  unfold lowerClosureParam
  ns_auto
  all_goals first | exact ns_lowerTy _ _ (by sz) | skip

theorem ns_lowerPat (C : List String) : ∀ (n : Nat) (node : Cst), 2 * node.size ≤ n → NS (lowerPat C n node)
  | 0, node, h => by have := size_pos node; omega
  | n + 1, node, h => by
    have ih := ns_lowerPat C n
    rw [lowerPat]
    ns_auto
    all_goals first | exact ih _ (by sz) | skip

end Goml.Lower

namespace Goml.Lower
open Goml.Src

attribute [local irreducible] lowerTy lowerPat lowerExprW lowerBranch lowerFieldInit lowerArg lowerArm lowerStmt lowerStmts lowerBlock lowerParam lowerClosureParam

structure CoreNS (C : List String) (n : Nat) : Prop where
  exprW : ∀ node tr, 2 * node.size ≤ n → NS (lowerExprW C n node tr)
  branch : ∀ br msg, 2 * br.size ≤ n → NS (lowerBranch C n br msg)
  fieldInit : ∀ f, 2 * f.size ≤ n → NS (lowerFieldInit C n f)
  arg : ∀ a, 2 * a.size ≤ n → NS (lowerArg C n a)
  arm : ∀ a, 2 * a.size ≤ n → NS (lowerArm C n a)
  stmt : ∀ st, 2 * st.size ≤ n → NS (lowerStmt C n st)
  stmts : ∀ sts, 2 * Cst.sizeList sts + 1 ≤ n → NS (lowerStmts C n sts)
  block : ∀ b, 2 * b.size ≤ n → NS (lowerBlock C n b)

set_option hygiene false in
macro "ns_close" : tactic => `(tactic| all_goals first
  | exact ih.exprW _ _ (by sz) | exact ih.branch _ _ (by sz) | exact ih.fieldInit _ (by sz)
  | exact ih.arg _ (by sz) | exact ih.arm _ (by sz) | exact ih.block _ (by sz) | exact ih.stmt _ (by sz)
  | exact ns_lowerPat _ _ _ (by sz) | exact ns_lowerTy _ _ (by sz) | exact ns_lowerClosureParam _ _ (by sz)
  | exact ns_lowerParam _ _ (by sz)
  | skip)

set_option maxHeartbeats 1600000 in
theorem coreNS (C : List String) : ∀ n, CoreNS C n
  | 0 => by
    refine ⟨?_, ?_, ?_, ?_, ?_, ?_, ?_, ?_⟩
    · intro node _ h; have := size_pos node; omega
    · intro node _ h; have := size_pos node; omega
    · intro node h; have := size_pos node; omega
    · intro node h; have := size_pos node; omega
    · intro node h; have := size_pos node; omega
    · intro node h; have := size_pos node; omega
    · intro sts h; omega
    · intro node h; have := size_pos node; omega
  | n + 1 => by
    have ih := coreNS C n
    refine ⟨?_, ?_, ?_, ?_, ?_, ?_, ?_, ?_⟩
    · intro node tr h
      rw [lowerExprW]
      ns_auto
      ns_close
    · intro node msg h
      rw [lowerBranch]
      ns_auto
      ns_close
    · intro node h
      rw [lowerFieldInit]
      ns_auto
      ns_close
    · intro node h
      rw [lowerArg]
      ns_auto
      ns_close
    · intro node h
      rw [lowerArm]
      ns_auto
      ns_close
    · intro node h
      rw [lowerStmt]
      ns_auto
      ns_close
    · intro sts h
      cases sts with
      | nil => rw [lowerStmts]; exact NS.pure _
      | cons st rest =>
        rw [lowerStmts]
        simp only [Cst.sizeList] at h
        refine NS.bind (NS.opt (ih.stmt st (by omega))) (fun _ => ?_)
        refine NS.bind (ih.stmts rest (by have := size_pos st; omega)) (fun _ => ?_)
        exact NS.pure _
    · intro node h
      rw [lowerBlock]
      refine NS.withLocals ?_
      refine NS.bind (ih.stmts _ (by have := childrenK_sizeList stmtKinds node; omega)) (fun _ => ?_)
      ns_auto
      ns_close

end Goml.Lower
