import GomlVerif.Lemmas.LowerFuelCore
/-! Fuel sufficiency for items and for `lowerFile`. -/
namespace Goml.Lower
open Goml.Src

attribute [local irreducible] lowerTy lowerPat lowerExprW lowerBranch lowerFieldInit lowerArg lowerArm lowerStmt lowerStmts lowerBlock lowerParam lowerClosureParam

set_option hygiene false in
macro "ns_close2" : tactic => `(tactic| all_goals first
  | exact ns_lowerTy _ _ (by sz) | exact ns_lowerParam _ _ (by sz)
  | exact (coreNS C n).block _ (by sz)
  | skip)

theorem ns_lowerVariant (n : Nat) (node : Cst) (h : 2 * node.size ≤ n) : NS (lowerVariant n node) := by
  unfold lowerVariant; ns_auto; ns_close2
attribute [local irreducible] lowerVariant
theorem ns_lowerEnum (n : Nat) (node : Cst) (h : 2 * node.size ≤ n) : NS (lowerEnum n node) := by
  unfold lowerEnum; ns_auto
  all_goals first | exact ns_lowerVariant _ _ (by sz) | skip
attribute [local irreducible] lowerEnum
theorem ns_lowerStructField (n : Nat) (node : Cst) (h : 2 * node.size ≤ n) : NS (lowerStructField n node) := by
  unfold lowerStructField; ns_auto; ns_close2
attribute [local irreducible] lowerStructField
theorem ns_lowerStruct (n : Nat) (node : Cst) (h : 2 * node.size ≤ n) : NS (lowerStruct n node) := by
  unfold lowerStruct; ns_auto
  all_goals first | exact ns_lowerStructField _ _ (by sz) | skip
attribute [local irreducible] lowerStruct
theorem ns_lowerTraitMethod (n : Nat) (node : Cst) (h : 2 * node.size ≤ n) : NS (lowerTraitMethod n node) := by
  unfold lowerTraitMethod; ns_auto; ns_close2
attribute [local irreducible] lowerTraitMethod
theorem ns_lowerTrait (n : Nat) (node : Cst) (h : 2 * node.size ≤ n) : NS (lowerTrait n node) := by
  unfold lowerTrait; ns_auto
  all_goals first | exact ns_lowerTraitMethod _ _ (by sz) | skip

attribute [local irreducible] lowerTrait
theorem ns_lowerFnGenerics : ∀ gs : List Cst, NS (lowerFnGenerics gs)
  | [] => by rw [lowerFnGenerics]; exact NS.mpure _
  | g :: gs => by
    have ih := ns_lowerFnGenerics gs
    rw [lowerFnGenerics]
    ns_auto
    all_goals first | exact ih | skip

attribute [local irreducible] lowerFnGenerics

theorem ns_lowerFn (C : List String) (n : Nat) (node : Cst) (h : 2 * node.size ≤ n) : NS (lowerFn C n node) := by
  unfold lowerFn; ns_auto
  all_goals first | exact ns_lowerFnGenerics _ | skip
  ns_close2

attribute [local irreducible] lowerFn

theorem ns_lowerImpl (C : List String) (n : Nat) (node : Cst) (h : 2 * node.size ≤ n) : NS (lowerImpl C n node) := by
  unfold lowerImpl; ns_auto
  all_goals first | exact ns_lowerFn _ _ _ (by sz) | skip
  ns_close2

attribute [local irreducible] lowerImpl
theorem ns_externParams (n : Nat) (node : Cst) (h : 2 * node.size ≤ n) : NS (externParams n node) := by
  unfold externParams; ns_auto; ns_close2

attribute [local irreducible] externParams

theorem ns_lowerExtern (n : Nat) (node : Cst) (h : 2 * node.size ≤ n) : NS (lowerExtern n node) := by
  unfold lowerExtern; ns_auto
  all_goals first | exact ns_externParams _ _ h | skip
  ns_close2

attribute [local irreducible] lowerExtern
theorem ns_lowerItem (C : List String) (n : Nat) (node : Cst) (h : 2 * node.size ≤ n) : NS (lowerItem C n node) := by
  unfold lowerItem; ns_auto
  all_goals first
    | exact ns_lowerEnum _ _ h | exact ns_lowerStruct _ _ h | exact ns_lowerTrait _ _ h
    | exact ns_lowerImpl _ _ _ h | exact ns_lowerFn _ _ _ h | exact ns_lowerExtern _ _ h | skip

/-- the fuel `lowerFile` hands out is never exhausted -/
theorem lowerFile_not_starved (file : Cst) : (lowerFile file).st.starved = false := by
  unfold lowerFile lowerFileWith
  dsimp only
  exact (NS.mapSkip _ (fun x hx => ns_lowerItem _ _ x (by
    have := mem_childrenK_size hx
    unfold fuelFor; omega))).run {} rfl

end Goml.Lower
