import GomlVerif.Lemmas.LowerOkBase
/-! `coreOk`: every expression / arm / field / block the lowering model produces is classified according to the
declarative scope: the stack at each classification point IS the list of binders the C05 specification has in
scope there. Induction on the fuel; one case per node kind. -/
namespace Goml.Lower
open Goml.Src

variable {α β : Type} {C Γ : List String}

def ExtN {α} (Γ : List String) (m : M α) (P : α → List String → Prop) : Prop :=
  ∀ s : St, s.locals = Γ →
    ∃ ext, (m s).2.locals = Γ ++ ext ∧ (m s).2.stuck = s.stuck ∧ (∀ a, (m s).1 = some a → P a ext) ∧
      ((m s).1 = none → ext = [])

theorem ExtN.weaken {m : M α} {P Q : α → List String → Prop} (h : ExtN Γ m P) (hpq : ∀ a e, P a e → Q a e) :
    ExtN Γ m Q := by
  intro s hs
  obtain ⟨e, h1, h2, h3, h4⟩ := h s hs
  exact ⟨e, h1, h2, fun a ha => hpq a e (h3 a ha), h4⟩

theorem ExtN.ofBal {m : M α} {P : α → Prop} (h : Bal Γ m P) : ExtN Γ m (fun a e => e = [] ∧ P a) := by
  intro s hs
  obtain ⟨h1, h2, h3⟩ := h s hs
  exact ⟨[], by simpa using h1, h2, fun a ha => ⟨rfl, h3 a ha⟩, fun _ => rfl⟩

theorem ExtN.err {P : α → List String → Prop} (msg : String) : ExtN Γ (err msg : M α) P :=
  (ExtN.ofBal (Bal.err (P := fun _ => False) msg)).weaken (fun _ _ h => h.2.elim)
theorem ExtN.starve {P : α → List String → Prop} : ExtN Γ (starve : M α) P :=
  (ExtN.ofBal (Bal.starve (P := fun _ => False))).weaken (fun _ _ h => h.2.elim)

theorem ExtN.bindBal {m : M α} {f : α → M β} {P : α → Prop} {Q : β → List String → Prop}
    (hm : Bal Γ m P) (hf : ∀ a, P a → ExtN Γ (f a) Q) : ExtN Γ (m >>= f) Q := by
  intro s hs
  have h := hm s hs
  rw [bind_run]
  revert h
  rcases m s with ⟨_ | a, s'⟩ <;> intro h
  · exact ⟨[], by simpa using h.1, h.2.1, fun a ha => (by cases ha), fun _ => rfl⟩
  · obtain ⟨e, g1, g2, g3, g4⟩ := hf a (h.2.2 a rfl) s' h.1
    exact ⟨e, g1, g2.trans h.2.1, g3, g4⟩

theorem ExtN.pushPure (xs : List String) (b : β) :
    ExtN Γ (pushLocals xs >>= fun _ => (pure b : M β)) (fun b' e => b' = b ∧ e = xs) := by
  intro s hs
  refine ⟨xs, ?_, rfl, fun a ha => ?_, fun h => ?_⟩
  · rw [← hs]; rfl
  · have : (some b : Option β) = some a := ha
    cases this; exact ⟨rfl, rfl⟩
  · have : (some b : Option β) = none := h
    cases this

theorem ExtN.toExtOpt {m : M α} {P : α → List String → Prop} (h : ExtN Γ m P) :
    Ext Γ (Goml.Lower.opt m) (fun o e => (∀ a, o = some a → P a e) ∧ (o = none → e = [])) := by
  intro s hs
  obtain ⟨e, h1, h2, h3, h4⟩ := h s hs
  refine ⟨e, h1, h2, fun o ho => ?_⟩
  have e' : (Goml.Lower.opt m s).1 = some (m s).1 := rfl
  rw [e'] at ho
  cases ho
  exact ⟨h3, h4⟩

/-- `Ext.bind` with a postcondition of the second computation that may mention the result of the first -/
theorem Ext.bind' {m : M α} {f : α → M β} {P : α → List String → Prop} {Q : α → β → List String → Prop}
    (hm : Ext Γ m P) (hf : ∀ a e, P a e → Ext (Γ ++ e) (f a) (Q a)) :
    Ext Γ (m >>= f) (fun b e => ∃ a e1 e2, e = e1 ++ e2 ∧ P a e1 ∧ Q a b e2) := by
  intro s hs
  have h := hm s hs
  rw [bind_run]
  revert h
  rcases m s with ⟨_ | a, s'⟩ <;> intro h
  · obtain ⟨e1, h1, h2, _⟩ := h
    exact ⟨e1, h1, h2, fun a ha => (by cases ha)⟩
  · obtain ⟨e1, h1, h2, h3⟩ := h
    obtain ⟨e2, g1, g2, g3⟩ := hf a e1 (h3 a rfl) s' h1
    exact ⟨e1 ++ e2, by simpa [List.append_assoc] using g1, g2.trans h2,
      fun b hb => ⟨a, e1, e2, rfl, h3 a rfl, g3 b hb⟩⟩

def optBinds : Option Expr → List String
  | some x => itemsBinds [x]
  | none => []
def optCons : Option Expr → List Expr → List Expr
  | some x, es => x :: es
  | none, es => es

theorem itemsBinds_single_expr {e : Expr} (hn : isLetE e = false) : itemsBinds [e] = [] := by
  cases e <;> simp [isLetE] at hn <;> simp [itemsBinds]

theorem bal_lastIdent' {p : List String} (hp : p ≠ []) : Bal Γ (lastIdent p) (fun l => p.getLast? = some l) := by
  unfold lastIdent
  cases h : p.getLast? with
  | some l => exact Bal.mpure rfl
  | none => exact absurd (List.getLast?_eq_none_iff.mp h) hp

theorem bal_dotAccess' (rhs : Cst) : Bal Γ (dotAccess rhs) (OkT C Γ) := by
  unfold dotAccess
  repeat' split
  all_goals first | exact Bal.err _ | exact Bal.mpure trivial

theorem cons_okT {t : Trailing} {tr : List Trailing} (ht : OkT C Γ t) (h : ∀ u ∈ tr, OkT C Γ u) :
    ∀ u ∈ t :: tr, OkT C Γ u := by
  intro u hu
  rcases List.mem_cons.mp hu with rfl | hu'
  · exact ht
  · exact h u hu'

theorem nil_okT : ∀ u ∈ ([] : List Trailing), OkT C Γ u := by intro u hu; cases hu

structure CoreOk (C : List String) (n : Nat) : Prop where
  exprW : ∀ node tr Γ, (∀ t ∈ tr, OkT C Γ t) → Bal Γ (lowerExprW C n node tr) (OkE C Γ)
  branch : ∀ br msg Γ, Bal Γ (lowerBranch C n br msg) (OkE C Γ)
  fieldInit : ∀ f Γ, Bal Γ (lowerFieldInit C n f) (OkF C Γ)
  arg : ∀ a Γ, Bal Γ (lowerArg C n a) (OkE C Γ)
  arm : ∀ a Γ, Bal Γ (lowerArm C n a) (OkArm C Γ)
  stmt : ∀ st Γ, ExtN Γ (lowerStmt C n st) (fun e ext => OkItems C Γ [e] ∧ ext = itemsBinds [e])
  stmts : ∀ sts Γ, Ext Γ (lowerStmts C n sts) (fun es ext => OkItems C Γ es ∧ ext = itemsBinds es)
  block : ∀ b Γ, Bal Γ (lowerBlock C n b) (OkE C Γ)

/-- literal-like cases of `lower_expr_with_args`: diagnostics or a literal -/
macro "lit_case" : tactic => `(tactic| repeat' (first
  | exact Bal.err _ | exact Bal.fail
  | exact Bal.pure (okE_lit _) | exact Bal.mpure (okE_lit _)
  | (refine Bal.bindT (bal_noTrailing _ _) (fun _ => ?_))
  | (refine Bal.bindT (bal_lowerStrBody _ _) (fun _ => ?_))
  | split))

macro "err_bind" : tactic => `(tactic| exact Bal.bind (Bal.err (P := fun _ => False) _) (fun _ h => h.elim))

set_option hygiene false in
/-- what follows the argument list of a `CallExpr` -/
macro "k_call" : tactic => `(tactic| (
  split
  · exact Bal.err _
  · split
    · refine Bal.bind (bal_identPath _) (fun p hp => ?_)
      refine Bal.bind (bal_lastIdent' hp) (fun last hlast => ?_)
      refine Bal.bind Bal.getLocals (fun ls hls => ?_)
      subst hls
      split
      · rename_i hc
        exact Bal.pure (okE_applyTrailing _ _ (okE_constr hlast hc hargs) htr)
      · rename_i hc
        exact Bal.pure (okE_applyTrailing _ _ (okE_call (okE_path hlast (by simpa using hc)) hargs) htr)
    · split
      · refine Bal.bind (ih.exprW _ _ _ nil_okT) (fun f hf => ?_)
        exact Bal.pure (okE_applyTrailing _ _ (okE_call hf hargs) htr)
      · exact ih.exprW _ _ _ (cons_okT (t := .call args) hargs htr)))

set_option hygiene false in
/-- what follows the parameter list of a `ClosureExpr` -/
macro "k_closure" : tactic => `(tactic| (
  split
  · exact Bal.err _
  · refine Bal.bind (Bal.withLocals (Ext.ofBal (ih.branch _ _ _))) (fun body hb => ?_)
    obtain ⟨_, _, hb⟩ := hb
    exact Bal.pure (okE_closure hb)))

theorem ok_exprW {n : Nat} (ih : CoreOk C n) (node : Cst) (tr : List Trailing) (Γ : List String)
    (htr : ∀ t ∈ tr, OkT C Γ t) : Bal Γ (lowerExprW C (n + 1) node tr) (OkE C Γ) := by
  rw [lowerExprW]
  split
  · lit_case
  · split
    -- UNIT BOOL FLOAT FLOAT32 FLOAT64 STR MULTILINE
    · lit_case
    · lit_case
    · lit_case
    · lit_case
    · lit_case
    · lit_case
    · lit_case
    -- CALL
    · dsimp only
      split
      · refine Bal.bind (P := OkL C Γ) (Bal.mapSkip _ (fun _ _ => ih.arg _ _)) (fun args hargs => ?_)
        k_call
      · refine Bal.bind (P := OkL C Γ) (Bal.pure (by intro e he; cases he)) (fun args hargs => ?_)
        k_call
    -- MATCH
    · refine Bal.bindT (bal_noTrailing _ _) (fun _ => ?_)
      split
      · exact Bal.err _
      · refine Bal.bind (ih.exprW _ _ _ nil_okT) (fun e he => ?_)
        split
        · exact Bal.err _
        · refine Bal.bind (Bal.mapSkip (P := OkArm C Γ) _ (fun _ _ => ih.arm _ _)) (fun arms harms => ?_)
          exact Bal.pure (okE_matchE he harms)
    -- GO
    · refine Bal.bindT (bal_noTrailing _ _) (fun _ => ?_)
      split
      · exact Bal.err _
      · refine Bal.bind (ih.exprW _ _ _ nil_okT) (fun e he => ?_)
        exact Bal.pure (okE_go he)
    -- IF
    · refine Bal.bindT (bal_noTrailing _ _) (fun _ => ?_)
      refine Bal.bind (P := fun o => ∀ e, o = some e → OkE C Γ e) (Bal.opt ?_) (fun cond hcond => ?_)
      · refine Bal.bindT (Bal.ofOpt (fun _ _ => trivial)) (fun _ => ?_)
        refine Bal.bindT (Bal.ofOpt (fun _ _ => trivial)) (fun _ => ?_)
        exact ih.exprW _ _ _ nil_okT
      · split
        · exact Bal.err _
        · dsimp only
          split
          · refine Bal.bind (ih.branch _ _ _) (fun t ht => ?_)
            split
            · refine Bal.bind (ih.branch _ _ _) (fun e he => ?_)
              exact Bal.pure (okE_ite (hcond _ rfl) ht he)
            · err_bind
          · err_bind
    -- WHILE
    · refine Bal.bindT (bal_noTrailing _ _) (fun _ => ?_)
      refine Bal.bind (P := fun o => ∀ e, o = some e → OkE C Γ e) (Bal.opt ?_) (fun cond hcond => ?_)
      · refine Bal.bindT (Bal.ofOpt (fun _ _ => trivial)) (fun _ => ?_)
        refine Bal.bindT (Bal.ofOpt (fun _ _ => trivial)) (fun _ => ?_)
        exact ih.exprW _ _ _ nil_okT
      · split
        · exact Bal.err _
        · dsimp only
          split
          · refine Bal.bind (ih.branch _ _ _) (fun b hb => ?_)
            exact Bal.pure (okE_while (hcond _ rfl) hb)
          · err_bind
    -- STRUCT_LITERAL
    · refine Bal.bindT (bal_noTrailing _ _) (fun _ => ?_)
      refine Bal.bindT (Bal.ofOpt (fun _ _ => trivial)) (fun _ => ?_)
      refine Bal.bindT (bal_lowerPath _).toT (fun _ => ?_)
      dsimp only
      split
      · refine Bal.bind (P := fun fs => ∀ f ∈ fs, OkF C Γ f) (Bal.mapSkip _ (fun _ _ => ih.fieldInit _ _)) (fun fs hfs => ?_)
        exact Bal.pure (okE_structLit hfs)
      · refine Bal.bind (P := fun fs => ∀ f ∈ fs, OkF C Γ f) (Bal.pure (by intro f hf; cases hf)) (fun fs hfs => ?_)
        exact Bal.pure (okE_structLit hfs)
    -- ARRAY
    · refine Bal.bindT (bal_noTrailing _ _) (fun _ => ?_)
      refine Bal.bind (Bal.mapSkip (P := OkE C Γ) _ (fun _ _ => ih.exprW _ _ _ nil_okT)) (fun items h => ?_)
      exact Bal.pure (okE_array h)
    -- IDENT
    · refine Bal.bind (bal_identPath _) (fun p hp => ?_)
      refine Bal.bind (bal_lastIdent' hp) (fun last hlast => ?_)
      refine Bal.bind Bal.getLocals (fun ls hls => ?_)
      subst hls
      split
      · rename_i hc
        split
        · exact Bal.pure (okE_applyTrailing _ _ (okE_constr hlast hc (htr _ (List.mem_cons_self ..)))
            (fun t ht => htr t (List.mem_cons_of_mem _ ht)))
        · exact Bal.pure (okE_applyTrailing _ _ (okE_constr hlast hc (by intro e he; cases he)) htr)
      · rename_i hc
        exact Bal.pure (okE_applyTrailing _ _ (okE_path hlast (by simpa using hc)) htr)
    -- TUPLE
    · refine Bal.bindT (bal_noTrailing _ _) (fun _ => ?_)
      refine Bal.bind (Bal.mapSkip (P := OkE C Γ) _ (fun _ _ => ih.exprW _ _ _ nil_okT)) (fun items h => ?_)
      exact Bal.pure (okE_tuple h)
    -- PAREN
    · refine Bal.bindT (Bal.ofOpt (fun _ _ => trivial)) (fun _ => ?_)
      refine Bal.bind (ih.exprW _ _ _ nil_okT) (fun e he => ?_)
      exact Bal.pure (okE_applyTrailing _ _ he htr)
    -- PREFIX
    · refine Bal.bind (P := fun o => ∀ e, o = some e → OkE C Γ e) (Bal.opt ?_) (fun e he => ?_)
      · refine Bal.bindT (Bal.ofOpt (fun _ _ => trivial)) (fun _ => ?_)
        exact ih.exprW _ _ _ htr
      · split
        · exact Bal.err _
        · split
          · exact Bal.err _
          · split
            · exact Bal.pure (okE_un (he _ rfl))
            · exact Bal.pure (okE_un (he _ rfl))
    -- BINARY
    · split
      · exact Bal.err _
      · exact Bal.err _
      · split
        · exact Bal.err _
        · split
          · split
            · refine Bal.bind (bal_dotAccess' (C := C) _) (fun acc hacc => ?_)
              exact ih.exprW _ _ _ (cons_okT hacc htr)
            · refine Bal.bind (ih.exprW _ _ _ nil_okT) (fun lhs hl => ?_)
              refine Bal.bind (bal_dotAccess' (C := C) _) (fun acc hacc => ?_)
              exact Bal.pure (okE_applyTrailing _ _ hl (cons_okT hacc htr))
          · refine Bal.bind (ih.exprW _ _ _ nil_okT) (fun lhs hl => ?_)
            split
            · refine Bal.bind (ih.exprW _ _ _ htr) (fun rhs hr => ?_)
              exact Bal.pure (okE_bin hl hr)
            · exact Bal.err _
    -- CLOSURE
    · refine Bal.bindT (bal_noTrailing _ _) (fun _ => ?_)
      dsimp only
      split
      · refine Bal.bindT (Bal.toT (Bal.mapSkip (P := fun _ => True) _ (fun _ _ => bal_lowerClosureParam _ _))) (fun params => ?_)
        k_closure
      · refine Bal.bindT (Bal.note _) (fun _ => ?_)
        refine Bal.bindT (Bal.pure trivial) (fun params => ?_)
        k_closure
    -- anything else
    · exact Bal.fail

theorem coreOk (C : List String) : ∀ n, CoreOk C n
  | 0 => by
    refine ⟨?_, ?_, ?_, ?_, ?_, ?_, ?_, ?_⟩
    · intro node tr Γ _; rw [lowerExprW]; exact Bal.starve
    · intro br msg Γ; rw [lowerBranch]; exact Bal.starve
    · intro f Γ; rw [lowerFieldInit]; exact Bal.starve
    · intro a Γ; rw [lowerArg]; exact Bal.starve
    · intro a Γ; rw [lowerArm]; exact Bal.starve
    · intro st Γ; rw [lowerStmt]; exact ExtN.starve
    · intro sts Γ; rw [lowerStmts]
      exact (Ext.ofBal (Bal.starve (P := fun _ => False))).weaken (fun _ _ h => h.2.elim)
    · intro b Γ; rw [lowerBlock]; exact Bal.starve
  | n + 1 => by
    have ih := coreOk C n
    refine ⟨ok_exprW ih, ?_, ?_, ?_, ?_, ?_, ?_, ?_⟩
    · -- branch
      intro br msg Γ
      rw [lowerBranch]
      split
      · exact ih.block _ _
      · split
        · exact ih.exprW _ _ _ nil_okT
        · exact Bal.err _
    · -- field
      intro f Γ
      rw [lowerFieldInit]
      refine Bal.bindT (Bal.ofOpt (fun _ _ => trivial)) (fun ft => ?_)
      refine Bal.bind (P := fun o => ∀ e, o = some e → OkE C Γ e) (Bal.opt ?_) (fun e he => ?_)
      · refine Bal.bindT (Bal.ofOpt (fun _ _ => trivial)) (fun _ => ?_)
        exact ih.exprW _ _ _ nil_okT
      · refine Bal.pure ?_
        cases e with
        | none => exact Or.inl (by simp [isShorthand])
        | some a => exact Or.inr (he a rfl)
    · -- arg
      intro a Γ
      rw [lowerArg]
      split
      · exact ih.exprW _ _ _ nil_okT
      · exact Bal.err _
    · -- arm
      intro a Γ
      rw [lowerArm]
      refine Bal.bindT (Bal.ofOpt (fun _ _ => trivial)) (fun pn => ?_)
      refine Bal.bindT (bal_lowerPat C n _ _) (fun pat => ?_)
      refine Bal.bind (Bal.withLocals (Ext.ofBal (Bal.opt (P := OkE C (Γ ++ patVars pat)) ?_))) (fun body hb => ?_)
      · split
        · exact ih.exprW _ _ _ nil_okT
        · split
          · exact ih.block _ _
          · exact Bal.err _
      · obtain ⟨_, _, hb⟩ := hb
        refine Bal.bind (P := fun b => body = some b) (Bal.ofOpt (fun a h => h)) (fun b hbb => ?_)
        exact Bal.pure (hb b hbb)
    · -- stmt
      intro st Γ
      rw [lowerStmt]
      split
      · split
        · exact ExtN.err _
        · refine ExtN.bindBal (bal_lowerPat C n _ _) (fun pat _ => ?_)
          split
          · exact ExtN.err _
          · refine ExtN.bindBal (P := fun _ => True) ?_ (fun ann _ => ?_)
            · exact Bal.toT (Bal.opt (P := fun _ => True)
                (Bal.bindT (Bal.ofOpt (fun _ _ => trivial)) (fun _ => bal_lowerTy _ _ _)))
            · refine ExtN.bindBal (ih.exprW _ _ _ nil_okT) (fun v hv => ?_)
              refine (ExtN.pushPure _ _).weaken (fun e ext h => ?_)
              obtain ⟨rfl, rfl⟩ := h
              exact ⟨okItems_cons_let hv okItems_nil, by simp [itemsBinds]⟩
      · split
        · exact ExtN.err _
        · refine (ExtN.ofBal (ih.exprW _ _ _ nil_okT)).weaken (fun e ext h => ?_)
          obtain ⟨rfl, he⟩ := h
          exact ⟨okItems_cons_expr he okItems_nil, (itemsBinds_single_expr he.2).symm⟩
    · -- stmts
      intro sts Γ
      cases sts with
      | nil =>
        rw [lowerStmts]
        exact (Ext.ofBal (Bal.pure (P := fun es => es = []) rfl)).weaken (fun es e h => by
          obtain ⟨rfl, rfl⟩ := h; exact ⟨okItems_nil, rfl⟩)
      | cons st rest =>
        rw [lowerStmts]
        refine Ext.weaken (Ext.bind' (Q := fun o r e => ∃ es, (OkItems C (Γ ++ optBinds o) es ∧ e = itemsBinds es) ∧
              r = optCons o es)
            (ExtN.toExtOpt (ih.stmt st Γ)) (fun o e1 ho => ?_)) ?_
        · have he1 : e1 = optBinds o := by
            cases o with
            | none => exact ho.2 rfl
            | some x => exact (ho.1 x rfl).2
          subst he1
          refine Ext.weaken (Ext.bind' (Q := fun es r e => e = [] ∧ r = optCons o es)
            (ih.stmts rest _) (fun es e2 _ => Ext.ofBal (Bal.pure (by cases o <;> rfl)))) ?_
          intro r e h
          obtain ⟨es, e2, e3, rfl, hes, rfl, rfl⟩ := h
          exact ⟨es, ⟨hes.1, by simpa using hes.2⟩, rfl⟩
        intro r ext h
        obtain ⟨o, e1, e23, rfl, ⟨ho1, ho2⟩, es, ⟨hes, rfl⟩, rfl⟩ := h
        cases o with
        | none =>
          have := ho2 rfl
          subst this
          simp only [optBinds, optCons, List.append_nil] at hes ⊢
          exact ⟨hes, by simp⟩
        | some e =>
          obtain ⟨h1, rfl⟩ := ho1 e rfl
          simp only [optBinds, optCons] at hes ⊢
          refine ⟨?_, ?_⟩
          · exact okItems_snoc (es := [e]) h1 hes
          · simp [itemsBinds]
    · -- block
      intro b Γ
      rw [lowerBlock]
      refine (Bal.withLocals (P := fun r _ => OkE C Γ r) ?_).weaken (fun r h => h.elim (fun _ hr => hr))
      simp only [List.append_nil]
      refine Ext.weaken (Ext.bind (ih.stmts _ Γ) (fun es e1 h1 => Ext.ofBal (P := OkE C Γ) ?_)) (fun r e h => by
        obtain ⟨_, _, _, _, _, _, hr⟩ := h; exact hr)
      obtain ⟨hes, rfl⟩ := h1
      split
      · refine Bal.bind (Bal.opt (ih.exprW _ _ (Γ ++ itemsBinds es) nil_okT)) (fun e he => ?_)
        refine Bal.pure (okE_block ?_)
        cases e with
        | none => simpa using hes
        | some t => exact okItems_snoc hes (okItems_cons_expr (he t rfl) okItems_nil)
      · exact Bal.pure (okE_block (okItems_snoc hes (okItems_cons_expr (okE_lit _) okItems_nil)))

end Goml.Lower
