import GomlVerif.Model.LowerScope
import GomlVerif.Lemmas.LowerStack
/-! Postconditions for `lower_ctor_iff`: what it means for a lowered expression / arm / field / block to be
classified according to the declarative scope, and the constructor-by-constructor rules. -/
namespace Goml.Lower
open Goml.Src

mutual
theorem patNames_scopePat : ∀ p : Pat, Resolve.patNames (scopePat p) = patVars p
  | .var x => by simp [scopePat, Resolve.patNames, patVars]
  | .wild => by simp [scopePat, Resolve.patNames, Resolve.patsNames, patVars]
  | .lit _ => by simp [scopePat, Resolve.patNames, Resolve.patsNames, patVars]
  | .constr _ args => by simp [scopePat, Resolve.patNames, patVars, patsNames_scopePats args]
  | .struct _ fields => by simp [scopePat, Resolve.patNames, patVars, patsNames_scopeFieldPats fields]
  | .tuple ps => by simp [scopePat, Resolve.patNames, patVars, patsNames_scopePats ps]
theorem patsNames_scopePats : ∀ ps : List Pat, Resolve.patsNames (scopePats ps) = patVarsList ps
  | [] => by simp [scopePats, Resolve.patsNames, patVarsList]
  | p :: ps => by simp [scopePats, Resolve.patsNames, patVarsList, patNames_scopePat p, patsNames_scopePats ps]
theorem patsNames_scopeFieldPats : ∀ fs : List FieldPat, Resolve.patsNames (scopeFieldPats fs) = patVarsFields fs
  | [] => by simp [scopeFieldPats, Resolve.patsNames, patVarsFields]
  | .mk _ p :: fs => by simp [scopeFieldPats, Resolve.patsNames, patVarsFields, patNames_scopePat p, patsNames_scopeFieldPats fs]
end

variable {C Γ : List String}

def OkE (C Γ : List String) (e : Expr) : Prop := classOkExpr C Γ (scopeOf e) = true ∧ isLetE e = false
def OkL (C Γ : List String) (es : List Expr) : Prop := ∀ e ∈ es, OkE C Γ e
def OkArm (C Γ : List String) : Arm → Prop
  | .mk p b => OkE C (Γ ++ patVars p) b
def OkF (C Γ : List String) : FieldInit → Prop
  | .mk f e => isShorthand f e = true ∨ OkE C Γ e
def OkT (C Γ : List String) : Trailing → Prop
  | .call args => OkL C Γ args
  | _ => True
def OkItems (C Γ : List String) (es : List Expr) : Prop := classOkItems C Γ (scopeItems es) = true

def itemsBinds : List Expr → List String
  | [] => []
  | e :: rest => (match e with | .letE p _ _ => patVars p | _ => []) ++ itemsBinds rest

theorem classOkList_scopeList {es : List Expr} (h : OkL C Γ es) : classOkList C Γ (scopeList es) = true := by
  induction es with
  | nil => simp [scopeList, classOkList]
  | cons e es ih =>
    simp only [scopeList, classOkList, Bool.and_eq_true]
    exact ⟨(h e (List.mem_cons_self ..)).1, ih (fun x hx => h x (List.mem_cons_of_mem _ hx))⟩

theorem okE_lit (l : Lit) : OkE C Γ (.lit l) := by simp [OkE, scopeOf, classOkExpr, classOkList, isLetE]
theorem okE_un {o : UnOp} {e : Expr} (h : OkE C Γ e) : OkE C Γ (.un o e) := by
  simp [OkE, scopeOf, classOkExpr, classOkList, isLetE, h.1]
theorem okE_go {e : Expr} (h : OkE C Γ e) : OkE C Γ (.go e) := by
  simp [OkE, scopeOf, classOkExpr, classOkList, isLetE, h.1]
theorem okE_proj {e : Expr} {i : Nat} (h : OkE C Γ e) : OkE C Γ (.proj e i) := by
  simp [OkE, scopeOf, classOkExpr, classOkList, isLetE, h.1]
theorem okE_field {e : Expr} {x : String} (h : OkE C Γ e) : OkE C Γ (.field e x) := by
  simp [OkE, scopeOf, classOkExpr, classOkList, isLetE, h.1]
theorem okE_bin {o : BinOp} {l r : Expr} (hl : OkE C Γ l) (hr : OkE C Γ r) : OkE C Γ (.bin o l r) := by
  simp [OkE, scopeOf, classOkExpr, classOkList, isLetE, hl.1, hr.1]
theorem okE_while {c b : Expr} (hc : OkE C Γ c) (hb : OkE C Γ b) : OkE C Γ (.while c b) := by
  simp [OkE, scopeOf, classOkExpr, classOkList, isLetE, hc.1, hb.1]
theorem okE_ite {c t e : Expr} (hc : OkE C Γ c) (ht : OkE C Γ t) (he : OkE C Γ e) : OkE C Γ (.ite c t e) := by
  simp [OkE, scopeOf, classOkExpr, classOkList, isLetE, hc.1, ht.1, he.1]
theorem okE_tuple {es : List Expr} (h : OkL C Γ es) : OkE C Γ (.tuple es) := by
  simp [OkE, scopeOf, classOkExpr, isLetE, classOkList_scopeList h]
theorem okE_array {es : List Expr} (h : OkL C Γ es) : OkE C Γ (.array es) := by
  simp [OkE, scopeOf, classOkExpr, isLetE, classOkList_scopeList h]
theorem okE_call {f : Expr} {args : List Expr} (hf : OkE C Γ f) (h : OkL C Γ args) : OkE C Γ (.call f args) := by
  simp [OkE, scopeOf, classOkExpr, classOkList, isLetE, classOkList_scopeList h, hf.1]

/-- the `else` branch of the classification: an `EPath` is not a visible constructor -/
theorem okE_path {p : List String} {last : String} (hl : p.getLast? = some last)
    (h : isCtorPath C Γ p last = false) : OkE C Γ (.path p) := by
  refine ⟨?_, rfl⟩
  match p, hl with
  | [x], hl =>
    simp at hl; subst hl
    simp [isCtorPath, isCtor] at h
    simp [scopeOf, classOkExpr]
    by_cases hx : x ∈ C
    · exact Or.inl (h hx)
    · exact Or.inr hx
  | [], hl => simp [scopeOf, classOkExpr, classOkList]
  | _ :: _ :: _, _ => simp [scopeOf, classOkExpr, classOkList]

/-- the `then` branch: an `EConstr` is a constructor of the file that no local binder shadows -/
theorem okE_constr {p : List String} {last : String} {args : List Expr} (hl : p.getLast? = some last)
    (h : isCtorPath C Γ p last = true) (ha : OkL C Γ args) : OkE C Γ (.constr p args) := by
  refine ⟨?_, rfl⟩
  match p, hl with
  | [x], hl =>
    simp at hl; subst hl
    simp [isCtorPath, isCtor] at h
    simp [scopeOf, classOkExpr, classOkList_scopeList ha, h.1, h.2]
  | [], hl => simp [scopeOf, classOkExpr, classOkList_scopeList ha]
  | _ :: _ :: _, _ => simp [scopeOf, classOkExpr, classOkList_scopeList ha]

theorem okE_applyPost {e : Expr} {t : Trailing} (he : OkE C Γ e) (ht : OkT C Γ t) : OkE C Γ (applyPost e t) := by
  cases t with
  | call args => exact okE_call he ht
  | field x => exact okE_field he
  | proj i => exact okE_proj he

theorem okE_applyTrailing : ∀ (tr : List Trailing) (e : Expr), OkE C Γ e → (∀ t ∈ tr, OkT C Γ t) →
    OkE C Γ (applyTrailing e tr)
  | [], _, he, _ => he
  | t :: ts, e, he, h =>
    okE_applyTrailing ts (applyPost e t) (okE_applyPost he (h t (List.mem_cons_self ..)))
      (fun u (hu : u ∈ ts) => h u (List.mem_cons_of_mem _ hu))

theorem okE_closure {ps : List (String × Option TyE)} {b : Expr} (h : OkE C (Γ ++ ps.map (·.1)) b) :
    OkE C Γ (.closure ps b) := by
  refine ⟨?_, rfl⟩
  simp only [scopeOf, classOkExpr, List.map_map]
  have : (ps.map ((fun q : String × Nat => q.1) ∘ fun q => (q.1, 0))) = ps.map (·.1) := by
    apply List.map_congr_left; intro a _; rfl
  rw [this]
  exact h.1

theorem classOkArms_scopeArms : ∀ {arms : List Arm}, (∀ a ∈ arms, OkArm C Γ a) → classOkArms C Γ (scopeArms arms) = true
  | [], _ => by simp [scopeArms, classOkArms]
  | .mk p b :: rest, h => by
    have h1 : OkArm C Γ (.mk p b) := h _ (List.mem_cons_self ..)
    simp only [scopeArms, classOkArms, Bool.and_eq_true, patNames_scopePat]
    exact ⟨h1.1, classOkArms_scopeArms (fun a ha => h a (List.mem_cons_of_mem _ ha))⟩

theorem okE_matchE {s : Expr} {arms : List Arm} (hs : OkE C Γ s) (h : ∀ a ∈ arms, OkArm C Γ a) :
    OkE C Γ (.matchE s arms) := by
  refine ⟨?_, rfl⟩
  simp only [scopeOf, classOkExpr, Bool.and_eq_true]
  exact ⟨hs.1, classOkArms_scopeArms h⟩

theorem classOkList_scopeFields : ∀ {fs : List FieldInit}, (∀ f ∈ fs, OkF C Γ f) → classOkList C Γ (scopeFields fs) = true
  | [], _ => by simp [scopeFields, classOkList]
  | .mk f e :: rest, h => by
    have h1 : OkF C Γ (.mk f e) := h _ (List.mem_cons_self ..)
    simp only [scopeFields, classOkList, Bool.and_eq_true]
    refine ⟨?_, classOkList_scopeFields (fun a ha => h a (List.mem_cons_of_mem _ ha))⟩
    rcases h1 with hs | he
    · simp [hs, classOkExpr, classOkList]
    · by_cases hs : isShorthand f e = true
      · simp [hs, classOkExpr, classOkList]
      · simp [hs, he.1]

theorem okE_structLit {p : List String} {fs : List FieldInit} (h : ∀ f ∈ fs, OkF C Γ f) : OkE C Γ (.structLit p fs) := by
  refine ⟨?_, rfl⟩
  simp only [scopeOf, classOkExpr]
  exact classOkList_scopeFields h

/-! ### blocks -/

theorem okItems_nil : OkItems C Γ [] := by simp [OkItems, scopeItems, classOkItems]

theorem okItems_cons_let {p : Pat} {a : Option TyE} {v : Expr} {rest : List Expr}
    (hv : OkE C Γ v) (hr : OkItems C (Γ ++ patVars p) rest) : OkItems C Γ (.letE p a v :: rest) := by
  simp only [OkItems, scopeItems, classOkItems, Bool.and_eq_true, patNames_scopePat]
  exact ⟨hv.1, hr⟩

theorem okItems_cons_expr {e : Expr} {rest : List Expr} (he : OkE C Γ e) (hr : OkItems C Γ rest) :
    OkItems C Γ (e :: rest) := by
  have hn := he.2
  cases e <;> simp [isLetE] at hn <;>
    (simp only [OkItems, scopeItems, classOkItems, Bool.and_eq_true]; exact ⟨he.1, hr⟩)

theorem itemsBinds_cons_expr {e : Expr} {rest : List Expr} (hn : isLetE e = false) :
    itemsBinds (e :: rest) = itemsBinds rest := by
  cases e <;> simp [isLetE] at hn <;> simp [itemsBinds]

theorem okItems_snoc : ∀ {es : List Expr} {Γ : List String} {t : List Expr}, OkItems C Γ es →
    OkItems C (Γ ++ itemsBinds es) t → OkItems C Γ (es ++ t)
  | [], Γ, t, _, ht => by simpa [itemsBinds] using ht
  | e :: rest, Γ, t, h, ht => by
    cases e with
    | letE p a v =>
      simp only [OkItems, scopeItems, classOkItems, Bool.and_eq_true, patNames_scopePat, List.cons_append] at h ⊢
      refine ⟨h.1, ?_⟩
      have := okItems_snoc (es := rest) (Γ := Γ ++ patVars p) (t := t) h.2
        (by simpa [itemsBinds, List.append_assoc] using ht)
      exact this
    | _ =>
      simp only [OkItems, scopeItems, classOkItems, Bool.and_eq_true, List.cons_append] at h ⊢
      refine ⟨h.1, ?_⟩
      exact okItems_snoc (es := rest) (Γ := Γ) (t := t) h.2 (by simpa [itemsBinds] using ht)

theorem okE_block {es : List Expr} (h : OkItems C Γ es) : OkE C Γ (.block es) := by
  refine ⟨?_, rfl⟩
  simp only [scopeOf, classOkExpr]
  exact h

/-! the classification agrees with `Resolve.conOk*`: no `con x` under a local binder `x`, `x` a constructor -/
mutual
theorem conOk_expr (D : List String) : ∀ (e : Resolve.Expr) (Γ : List String),
    classOkExpr C Γ e = true → Resolve.conOkExpr ⟨C, D⟩ Γ e = true
  | .var _ _, _, _ => by simp [Resolve.conOkExpr]
  | .con x _ args, Γ, h => by
    simp only [classOkExpr, Bool.and_eq_true] at h
    simp only [Resolve.conOkExpr, Bool.and_eq_true]
    exact ⟨⟨h.1.1, h.1.2⟩, conOk_list D args Γ h.2⟩
  | .node es, Γ, h => by
    simp only [classOkExpr] at h
    simp only [Resolve.conOkExpr]
    exact conOk_list D es Γ h
  | .block items, Γ, h => by
    simp only [classOkExpr] at h
    simp only [Resolve.conOkExpr]
    exact conOk_items D items Γ h
  | .matchE s arms, Γ, h => by
    simp only [classOkExpr, Bool.and_eq_true] at h
    simp only [Resolve.conOkExpr, Bool.and_eq_true]
    exact ⟨conOk_expr D s Γ h.1, conOk_arms D arms Γ h.2⟩
  | .closure ps b, Γ, h => by
    simp only [classOkExpr] at h
    simp only [Resolve.conOkExpr]
    exact conOk_expr D b _ h
theorem conOk_list (D : List String) : ∀ (es : List Resolve.Expr) (Γ : List String),
    classOkList C Γ es = true → Resolve.conOkList ⟨C, D⟩ Γ es = true
  | [], _, _ => by simp [Resolve.conOkList]
  | e :: es, Γ, h => by
    simp only [classOkList, Bool.and_eq_true] at h
    simp only [Resolve.conOkList, Bool.and_eq_true]
    exact ⟨conOk_expr D e Γ h.1, conOk_list D es Γ h.2⟩
theorem conOk_items (D : List String) : ∀ (is : List Resolve.Item) (Γ : List String),
    classOkItems C Γ is = true → Resolve.conOkItems ⟨C, D⟩ Γ is = true
  | [], _, _ => by simp [Resolve.conOkItems]
  | .letI p v :: rest, Γ, h => by
    simp only [classOkItems, Bool.and_eq_true] at h
    simp only [Resolve.conOkItems, Bool.and_eq_true]
    exact ⟨conOk_expr D v Γ h.1, conOk_items D rest _ h.2⟩
  | .exprI e :: rest, Γ, h => by
    simp only [classOkItems, Bool.and_eq_true] at h
    simp only [Resolve.conOkItems, Bool.and_eq_true]
    exact ⟨conOk_expr D e Γ h.1, conOk_items D rest Γ h.2⟩
theorem conOk_arms (D : List String) : ∀ (as : List Resolve.Arm) (Γ : List String),
    classOkArms C Γ as = true → Resolve.conOkArms ⟨C, D⟩ Γ as = true
  | [], _, _ => by simp [Resolve.conOkArms]
  | .mk p b :: rest, Γ, h => by
    simp only [classOkArms, Bool.and_eq_true] at h
    simp only [Resolve.conOkArms, Bool.and_eq_true]
    exact ⟨conOk_expr D b _ h.1, conOk_arms D rest Γ h.2⟩
end

end Goml.Lower
