import GomlVerif.Lemmas.LowerOkFn
/-! The fold over `lower_item` / `lower_impl_block`: every function and method body of a lowered file is
classified under its parameters; the file-level run is balanced and never stuck. -/
namespace Goml.Lower
open Goml.Src

variable {α : Type} {C Γ : List String}

theorem Bal.run {m : M α} {P : α → Prop} (h : Bal Γ m P) (s : St) (hs : s.locals = Γ) :
    (m s).2.locals = Γ ∧ (m s).2.stuck = s.stuck ∧ ∀ a, (m s).1 = some a → P a := h s hs

def FnOk (C : List String) (f : FnDef) : Prop := classOkExpr C (f.params.map (·.1)) (scopeOf f.body) = true
def ItemOk (C : List String) : Item → Prop
  | .fn f => FnOk C f
  | .impl d => ∀ m ∈ d.methods, FnOk C m
  | _ => True

theorem ok_lowerFn_top (n : Nat) (node : Cst) : Bal [] (lowerFn C n node) (FnOk C) :=
  (ok_lowerFn (C := C) n node []).weaken (fun f h => by simpa [FnOk] using h.1)

attribute [local irreducible] Bal lowerTy lowerPat lowerExprW lowerBranch lowerFieldInit lowerArg lowerArm lowerStmt lowerStmts lowerBlock lowerParam lowerClosureParam lowerFn

set_option hygiene false in
macro "bal_close" : tactic => `(tactic| all_goals first
  | exact bal_lowerTy _ _ _ | exact bal_lowerParam _ _ | skip)

theorem bal_lowerVariant (n : Nat) (node : Cst) : Bal Γ (lowerVariant n node) (fun _ => True) := by
  unfold lowerVariant; bal_auto; bal_close
attribute [local irreducible] lowerVariant
theorem bal_lowerEnum (n : Nat) (node : Cst) : Bal Γ (lowerEnum n node) (fun _ => True) := by
  unfold lowerEnum; bal_auto
  all_goals first | exact bal_lowerVariant _ _ | skip
attribute [local irreducible] lowerEnum
theorem bal_lowerStructField (n : Nat) (node : Cst) : Bal Γ (lowerStructField n node) (fun _ => True) := by
  unfold lowerStructField; bal_auto; bal_close
attribute [local irreducible] lowerStructField
theorem bal_lowerStruct (n : Nat) (node : Cst) : Bal Γ (lowerStruct n node) (fun _ => True) := by
  unfold lowerStruct; bal_auto
  all_goals first | exact bal_lowerStructField _ _ | skip
attribute [local irreducible] lowerStruct
theorem bal_lowerTraitMethod (n : Nat) (node : Cst) : Bal Γ (lowerTraitMethod n node) (fun _ => True) := by
  unfold lowerTraitMethod; bal_auto; bal_close
attribute [local irreducible] lowerTraitMethod
theorem bal_lowerTrait (n : Nat) (node : Cst) : Bal Γ (lowerTrait n node) (fun _ => True) := by
  unfold lowerTrait; bal_auto
  all_goals first | exact bal_lowerTraitMethod _ _ | skip
attribute [local irreducible] lowerTrait
theorem bal_externParams (n : Nat) (node : Cst) : Bal Γ (externParams n node) (fun _ => True) := by
  unfold externParams; bal_auto; bal_close
attribute [local irreducible] externParams
theorem bal_lowerExtern (n : Nat) (node : Cst) : Bal Γ (lowerExtern n node) (ItemOk C) := by
  unfold lowerExtern; bal_auto
  all_goals first | exact bal_externParams _ _ | skip
  bal_close
attribute [local irreducible] lowerExtern

theorem ok_lowerImpl (n : Nat) (node : Cst) :
    Bal [] (lowerImpl C n node) (fun d => ∀ m ∈ d.methods, FnOk C m) := by
  unfold lowerImpl
  dsimp only
  refine Bal.bindT ?_ (fun _ => ?_)
  · bal_auto
  · refine Bal.bindT ?_ (fun _ => ?_)
    · bal_auto; bal_close
    · split
      · exact Bal.err _
      · refine Bal.bind (Bal.mapSkip (P := FnOk C) _ (fun _ _ => ok_lowerFn_top _ _)) (fun ms hm => ?_)
        exact Bal.pure hm
attribute [local irreducible] lowerImpl

theorem ok_lowerItem (n : Nat) (node : Cst) : Bal [] (lowerItem C n node) (ItemOk C) := by
  unfold lowerItem
  split
  · exact Bal.bindT (bal_lowerEnum _ _) (fun _ => Bal.pure trivial)
  · exact Bal.bindT (bal_lowerStruct _ _) (fun _ => Bal.pure trivial)
  · exact Bal.bindT (bal_lowerTrait _ _) (fun _ => Bal.pure trivial)
  · exact Bal.bind (ok_lowerImpl _ _) (fun d hd => Bal.pure hd)
  · exact Bal.bind (ok_lowerFn_top _ _) (fun f hf => Bal.pure hf)
  · exact bal_lowerExtern _ _
  · exact Bal.fail

/-- the whole file: balanced, never stuck, every function / method body classified under its parameters -/
theorem ok_lowerFile (file : Cst) (fuel : Nat) :
    (lowerFileWith fuel file).st.locals = [] ∧ (lowerFileWith fuel file).st.stuck = false ∧
    ∀ it ∈ (lowerFileWith fuel file).built.items, ItemOk (collectConstructorNames file) it := by
  unfold lowerFileWith
  dsimp only
  have h := (Bal.mapSkip (P := ItemOk (collectConstructorNames file)) (childrenK itemKinds file)
    (fun x _ => ok_lowerItem (C := collectConstructorNames file) fuel x)).run {} rfl
  refine ⟨h.1, h.2.1, ?_⟩
  intro it hit
  cases hr : (mapSkip (lowerItem (collectConstructorNames file) fuel) (childrenK itemKinds file) {}).1 with
  | none => rw [hr] at hit; simp at hit
  | some its => rw [hr] at hit; exact h.2.2 its hr it (by simpa using hit)

end Goml.Lower
