import GomlVerif.Lemmas.LowerOk
/-! `lower_fn`: the body of a function is classified under the scope `Γ ++ parameter names`. -/
namespace Goml.Lower
open Goml.Src

variable {C Γ : List String}

theorem bal_lowerFnGenerics : ∀ (gs : List Cst) (Γ : List String), Bal Γ (lowerFnGenerics gs) (fun _ => True)
  | [], _ => by rw [lowerFnGenerics]; exact Bal.mpure trivial
  | g :: gs, Γ => by
    have ih : ∀ Γ, Bal Γ (lowerFnGenerics gs) (fun _ => True) := bal_lowerFnGenerics gs
    rw [lowerFnGenerics]
    bal_auto
    all_goals first | exact ih _ | skip

set_option hygiene false in
macro "k_fn" : tactic => `(tactic| (
  obtain ⟨generics, bounds⟩ := gb
  dsimp only
  split
  · exact Bal.err _
  · refine Bal.bind (P := fun _ => True) (Bal.toT (Bal.mapSkip (P := fun _ => True) _ (fun _ _ => bal_lowerParam _ _))) (fun params _ => ?_)
    refine Bal.bindT (Bal.toT (Bal.opt (P := fun _ => True)
      (Bal.bindT (Bal.ofOpt (fun _ _ => trivial)) (fun _ => bal_lowerTy _ _ _)))) (fun ret => ?_)
    refine Bal.bind (Bal.withLocals (Ext.ofBal (Bal.opt (P := OkE C (Γ ++ params.map (·.1)))
      (Bal.bindT (Bal.ofOpt (fun _ _ => trivial)) (fun _ => (coreOk C n).block _ _))))) (fun body hb => ?_)
    obtain ⟨_, _, hb⟩ := hb
    split
    · exact Bal.pure (hb _ rfl)
    · exact Bal.err _))

/-- `lower_fn` leaves the stack as it found it and lowers the body under `Γ ++ parameter names` -/
theorem ok_lowerFn (n : Nat) (node : Cst) (Γ : List String) :
    Bal Γ (lowerFn C n node) (fun f => OkE C (Γ ++ f.params.map (·.1)) f.body) := by
  unfold lowerFn
  dsimp only
  split
  · exact Bal.err _
  · split
    · refine Bal.bindT (bal_lowerFnGenerics _ _) (fun gb => ?_)
      k_fn
    · refine Bal.bindT (Bal.pure trivial) (fun gb => ?_)
      k_fn

end Goml.Lower
