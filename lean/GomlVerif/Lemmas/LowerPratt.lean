import GomlVerif.Model.Lower
import GomlVerif.Model.Pratt
/-! The image of `Pratt.Cst` in the rowan-shaped trees of `Model/Lower.lean`, and what `lowerExprW` does on
each of the six node kinds of that image (view lemmas). Punctuation tokens that no accessor of `nodes.rs`
reads (`,` and the parentheses of an argument list) are left out of the image. -/
namespace Goml.Lower
open Goml.Src Goml.Gen.BindingPower

/-- the `MySyntaxKind` name of an operator token -/
def tkKind : TK → String
  | .OrOr => "OrOr" | .AndAnd => "AndAnd" | .EqEq => "EqEq" | .NotEq => "NotEq" | .Less => "Less"
  | .Greater => "Greater" | .LessEq => "LessEq" | .GreaterEq => "GreaterEq" | .Plus => "Plus" | .Minus => "Minus"
  | .Star => "Star" | .Slash => "Slash" | .Dot => "Dot" | .Bang => "Bang" | .LParen => "LParen"

def eIdent (x : String) : Cst := .node "EXPR_IDENT" [.node "PATH" [.tok "Ident" x none]]
def eInt (ds : List Char) : Cst := .node "EXPR_INT" [.tok "Int" (String.ofList ds) none]
def eParen (x : Cst) : Cst := .node "EXPR_PAREN" [.tok "LParen" "(" none, x, .tok "RParen" ")" none]
def ePrefix (k : TK) (x : Cst) : Cst := .node "EXPR_PREFIX" [.tok (tkKind k) k.spelling none, x]
def eBinary (k : TK) (l r : Cst) : Cst := .node "EXPR_BINARY" [l, .tok (tkKind k) k.spelling none, r]
def eArg (a : Cst) : Cst := .node "ARG" [a]
def eCall (f : Cst) (args : List Cst) : Cst := .node "EXPR_CALL" [f, .node "ARG_LIST" (args.map eArg)]

mutual
def embed : Pratt.Cst → Cst
  | .ident s => eIdent s
  | .int ds => eInt ds
  | .paren e => eParen (embed e)
  | .prefix k e => ePrefix k (embed e)
  | .binary k l r => eBinary k (embed l) (embed r)
  | .call f args => eCall (embed f) (embedList args)
def embedList : List Pratt.Cst → List Cst
  | [] => []
  | c :: cs => embed c :: embedList cs
end

/-- an expression node: what `support::child::<Expr>` selects -/
def IsE (x : Cst) : Prop := x.isNode = true ∧ exprKinds.contains x.kind = true

theorem embed_isE : ∀ c : Pratt.Cst, IsE (embed c)
  | .ident _ => by simp [embed, eIdent, IsE, Cst.isNode, Cst.kind, exprKinds]
  | .int _ => by simp [embed, eInt, IsE, Cst.isNode, Cst.kind, exprKinds]
  | .paren _ => by simp [embed, eParen, IsE, Cst.isNode, Cst.kind, exprKinds]
  | .prefix _ _ => by simp [embed, ePrefix, IsE, Cst.isNode, Cst.kind, exprKinds]
  | .binary _ _ _ => by simp [embed, eBinary, IsE, Cst.isNode, Cst.kind, exprKinds]
  | .call _ _ => by simp [embed, eCall, IsE, Cst.isNode, Cst.kind, exprKinds]

theorem intKindOf_none (k : String) (h : k ∈ ["EXPR_IDENT", "EXPR_PAREN", "EXPR_PREFIX", "EXPR_BINARY", "EXPR_CALL"]) :
    intKindOf "EXPR_" k = none := by
  simp at h
  rcases h with rfl | rfl | rfl | rfl | rfl <;> decide

theorem run_pure {α} (a : α) (s : St) : (pure a : M α) s = (some a, s) := rfl
theorem run_bind {α β} (m : M α) (f : α → M β) (s : St) :
    (m >>= f) s = (match m s with | (some a, s') => f a s' | (none, s') => (none, s')) := rfl

/-! ### the accessors on a concrete child list -/

section acc
variable {ks : List String} {k : String} {x : Cst} {rest : List Cst} {a b : String} {c : Option (String × Nat)}

theorem child_nil : child ks (.node k []) = none := rfl
theorem child_cons_tok : child ks (.node k (.tok a b c :: rest)) = child ks (.node k rest) := by
  simp [child, nodesOf, Cst.kids, Cst.isNode]
theorem child_cons_hit (hx : x.isNode = true) (hk : ks.contains x.kind = true) :
    child ks (.node k (x :: rest)) = some x := by
  simp only [child, nodesOf, Cst.kids, List.filter_cons, hx, if_true, List.find?_cons, hk]
theorem child_cons_miss (hx : x.isNode = true) (hk : ks.contains x.kind = false) :
    child ks (.node k (x :: rest)) = child ks (.node k rest) := by
  simp only [child, nodesOf, Cst.kids, List.filter_cons, hx, if_true, List.find?_cons, hk]

theorem childrenK_nil : childrenK ks (.node k []) = [] := rfl
theorem childrenK_cons_tok : childrenK ks (.node k (.tok a b c :: rest)) = childrenK ks (.node k rest) := by
  simp [childrenK, nodesOf, Cst.kids, Cst.isNode]
theorem childrenK_cons_hit (hx : x.isNode = true) (hk : ks.contains x.kind = true) :
    childrenK ks (.node k (x :: rest)) = x :: childrenK ks (.node k rest) := by
  simp only [childrenK, nodesOf, Cst.kids, List.filter_cons, hx, if_true, hk]
theorem childrenK_cons_miss (hx : x.isNode = true) (hk : ks.contains x.kind = false) :
    childrenK ks (.node k (x :: rest)) = childrenK ks (.node k rest) := by
  simp only [childrenK, nodesOf, Cst.kids, List.filter_cons, hx, hk, if_true, Bool.false_eq_true, if_false]

theorem tokenAny_cons_node (hx : x.isNode = true) : tokenAny ks (.node k (x :: rest)) = tokenAny ks (.node k rest) := by
  simp only [tokenAny, Cst.kids, List.find?_cons, hx, Bool.not_true, Bool.false_and]
theorem tokenAny_cons_tok_hit (h : ks.contains a = true) :
    tokenAny ks (.node k (.tok a b c :: rest)) = some (.tok a b c) := by
  have h1 : Cst.isNode (.tok a b c) = false := rfl
  have h2 : Cst.kind (.tok a b c) = a := rfl
  simp only [tokenAny, Cst.kids, List.find?_cons, h1, h2, h, Bool.not_false, Bool.true_and]
theorem tokenAny_cons_tok_miss (h : ks.contains a = false) :
    tokenAny ks (.node k (.tok a b c :: rest)) = tokenAny ks (.node k rest) := by
  have h1 : Cst.isNode (.tok a b c) = false := rfl
  have h2 : Cst.kind (.tok a b c) = a := rfl
  simp only [tokenAny, Cst.kids, List.find?_cons, h1, h2, h, Bool.not_false, Bool.true_and]
theorem tokenAny_nil : tokenAny ks (.node k []) = none := rfl
end acc

theorem isE_not (x : Cst) (hx : IsE x) (ks : List String) (h : ∀ k ∈ ks, k ∉ exprKinds) : ks.contains x.kind = false := by
  have h2 := hx.2
  simp only [List.contains_eq_mem, decide_eq_true_eq, decide_eq_false_iff_not] at h2 ⊢
  intro hm
  exact h _ hm h2

/-- parentheses: lower the inside with nothing pending, then apply what is pending -/
theorem view_paren (C : List String) (n : Nat) (x : Cst) (hx : IsE x) (tr : List Trailing) :
    lowerExprW C (n + 1) (eParen x) tr = (lowerExprW C n x [] >>= fun e => pure (applyTrailing e tr)) := by
  rw [lowerExprW]
  have hk := intKindOf_none "EXPR_PAREN" (by simp)
  simp only [eParen, Cst.kind, hk, child_cons_tok, child_cons_hit hx.1 hx.2, ofOpt]
  rfl

def toUn : Pratt.UnOp → UnOp
  | .neg => .neg | .not => .not
def toBin : Pratt.BinOp → BinOp
  | .or => .or | .and => .and | .eq => .eq | .ne => .notEq | .lt => .less | .gt => .greater
  | .le => .lessEq | .ge => .greaterEq | .add => .add | .sub => .sub | .mul => .mul | .div => .div

mutual
def toExpr : Pratt.Ast → Expr
  | .var x => .path [x]
  | .lit ds => .lit (.int none (String.ofList ds))
  | .un o e => .un (toUn o) (toExpr e)
  | .bin o l r => .bin (toBin o) (toExpr l) (toExpr r)
  | .call f args => .call (toExpr f) (toExprList args)
  | .field e x => .field (toExpr e) x
  | .proj e i => .proj (toExpr e) i
def toExprList : List Pratt.Ast → List Expr
  | [] => []
  | a :: as => toExpr a :: toExprList as
end

/-- an identifier that is not a constructor of the file is an `EPath`, whatever is on the binder stack -/
theorem view_ident (C : List String) (n : Nat) (x : String) (hC : isCtor C x = false) (tr : List Trailing) (s : St) :
    lowerExprW C (n + 1) (eIdent x) tr s = (some (applyTrailing (.path [x]) tr), s) := by
  rw [lowerExprW]
  have hk := intKindOf_none "EXPR_IDENT" (by simp)
  have hp : lowerCtorPathFromIdentExpr (eIdent x) = pure [x] := by
    have h1 : child ["PATH"] (eIdent x) = some (.node "PATH" [.tok "Ident" x none]) :=
      child_cons_hit rfl (by simp [Cst.kind])
    simp only [lowerCtorPathFromIdentExpr, h1]
    rfl
  simp only [eIdent, Cst.kind, hk]
  rw [show (Cst.node "EXPR_IDENT" [Cst.node "PATH" [Cst.tok "Ident" x none]]) = eIdent x from rfl, hp]
  simp [run_bind, run_pure, lastIdent, getLocals, isCtorPath, hC, M.pure]

theorem view_int (C : List String) (n : Nat) (ds : List Char) (s : St) :
    lowerExprW C (n + 1) (eInt ds) [] s = (some (.lit (.int none (String.ofList ds))), s) := by
  rw [lowerExprW]
  have hk : intKindOf "EXPR_" "EXPR_INT" = some ("Int", "", "Int", none) := by decide
  have ht : tokenK "Int" (eInt ds) = some (.tok "Int" (String.ofList ds) none) := by
    simp [tokenK, eInt, Cst.kids, Cst.isNode, Cst.kind]
  simp only [eInt, Cst.kind, hk]
  rw [show (Cst.node "EXPR_INT" [Cst.tok "Int" (String.ofList ds) none]) = eInt ds from rfl, ht]
  simp [run_bind, run_pure, noTrailing, stripSuffix, Cst.tokText, M.pure]

theorem view_prefix (C : List String) (n : Nat) (k : TK) (o : Pratt.UnOp) (ho : Pratt.unOpOf k = some o)
    (x : Cst) (hx : IsE x) (tr : List Trailing) :
    lowerExprW C (n + 1) (ePrefix k x) tr =
      (opt (lowerExprW C n x tr) >>= fun e => match e with
        | none => err "Prefix expression missing operand"
        | some e => pure (.un (toUn o) e)) := by
  rw [lowerExprW]
  have hk := intKindOf_none "EXPR_PREFIX" (by simp)
  cases k <;> simp [Pratt.unOpOf] at ho <;> subst ho <;>
    simp only [ePrefix, Cst.kind, hk, child_cons_tok, child_cons_hit hx.1 hx.2, ofOpt, tkKind,
      tokenAny_cons_tok_hit (ks := prefixOpKinds) (a := "Minus") (by decide),
      tokenAny_cons_tok_hit (ks := prefixOpKinds) (a := "Bang") (by decide)] <;> rfl

theorem binOpOf_tk (k : TK) (o : Pratt.BinOp) (ho : Pratt.binOpOf k = some o) :
    binOpOf (tkKind k) = some (toBin o) ∧ binaryOpKinds.contains (tkKind k) = true ∧ (tkKind k == "Dot") = false := by
  cases k <;> simp [Pratt.binOpOf] at ho <;> subst ho <;> decide

theorem view_binary (C : List String) (n : Nat) (k : TK) (o : Pratt.BinOp) (ho : Pratt.binOpOf k = some o)
    (l r : Cst) (hl : IsE l) (hr : IsE r) (tr : List Trailing) :
    lowerExprW C (n + 1) (eBinary k l r) tr =
      (lowerExprW C n l [] >>= fun lhs => lowerExprW C n r tr >>= fun rhs => pure (.bin (toBin o) lhs rhs)) := by
  rw [lowerExprW]
  have hk := intKindOf_none "EXPR_BINARY" (by simp)
  obtain ⟨h1, h2, h3⟩ := binOpOf_tk k o ho
  have hc : childrenK exprKinds (eBinary k l r) = [l, r] := by
    simp only [eBinary, childrenK_cons_hit hl.1 hl.2, childrenK_cons_tok, childrenK_cons_hit hr.1 hr.2, childrenK_nil]
  have ht : tokenAny binaryOpKinds (eBinary k l r) = some (.tok (tkKind k) k.spelling none) := by
    simp only [eBinary, tokenAny_cons_node hl.1, tokenAny_cons_tok_hit h2]
  simp only [Cst.kind, eBinary, hk]
  rw [show (Cst.node "EXPR_BINARY" [l, Cst.tok (tkKind k) k.spelling none, r]) = eBinary k l r from rfl, hc, ht]
  simp only [Cst.kind, h3, h1]
  rfl

end Goml.Lower
