import GomlVerif.Lemmas.LowerPrattPost
/-! `Model/Lower.lean` on the whole image of `Pratt.Cst` (operators, parentheses, calls, fields, projections,
with a pending list) equals `Pratt.lower`. -/
namespace Goml.Lower
open Goml.Src Goml.Gen.BindingPower

mutual
/-- decidable side conditions on the tree: no identifier in expression position is spelled like a constructor of
the file; a tuple index fits `usize` -/
def okC (C : List String) : Pratt.Cst → Bool
  | .ident x => !isCtor C x
  | .int _ => true
  | .paren e => okC C e
  | .prefix _ e => okC C e
  | .binary k l r => okC C l && (if k = .Dot then dotOk r else okC C r)
  | .call f args => okC C f && okCList C args
def okCList (C : List String) : List Pratt.Cst → Bool
  | [] => true
  | c :: cs => okC C c && okCList C cs
end

mutual
def dep : Pratt.Cst → Nat
  | .ident _ => 1
  | .int _ => 1
  | .paren e => dep e + 1
  | .prefix _ e => dep e + 1
  | .binary _ l r => max (dep l) (dep r) + 1
  | .call f args => max (dep f) (depList args + 1) + 1
def depList : List Pratt.Cst → Nat
  | [] => 0
  | c :: cs => max (dep c) (depList cs)
end

theorem bind_some {α β} {m : M α} {f : α → M β} {s : St} {a : α} (h : (m s).1 = some a) :
    (m >>= f) s = f a (m s).2 := by
  rw [run_bind]
  revert h
  rcases m s with ⟨_ | x, s'⟩ <;> intro h
  · cases h
  · cases h; rfl

theorem mapSkip_cons_fst {α β} {f : α → M β} {x : α} {xs : List α} {s : St} {y : β} {ys : List β}
    (h1 : (f x s).1 = some y) (h2 : (mapSkip f xs (f x s).2).1 = some ys) :
    (mapSkip f (x :: xs) s).1 = some (y :: ys) := by
  simp only [mapSkip]
  revert h2
  rcases mapSkip f xs (f x s).2 with ⟨_ | zs, s'⟩ <;> intro h2
  · cases h2
  · cases h2; simp [h1]

theorem callK_ident (C : List String) (n : Nat) (x : String) (hC : isCtor C x = false) (as : List Expr)
    (tr : List Trailing) (s : St) :
    callK C n (eIdent x) as tr s = (some (applyTrailing (.call (.path [x]) as) tr), s) := by
  have hp : lowerCtorPathFromIdentExpr (eIdent x) = pure [x] := by
    have h1 : child ["PATH"] (eIdent x) = some (.node "PATH" [.tok "Ident" x none]) :=
      child_cons_hit rfl (by simp [Cst.kind])
    simp only [lowerCtorPathFromIdentExpr, h1]
    rfl
  have hk : ((eIdent x).kind == "EXPR_IDENT") = true := rfl
  simp only [callK, hk, if_true, hp]
  simp [run_bind, run_pure, lastIdent, getLocals, isCtorPath, hC, M.pure]

def isIdentC : Pratt.Cst → Bool
  | .ident _ => true
  | _ => false

theorem lower_call_nonident (f : Pratt.Cst) (args : List Pratt.Cst) (tr : List Pratt.Trail)
    (hf : isIdentC f = false) :
    Pratt.lower (.call f args) tr =
      (match Pratt.lowerList args with
       | none => none
       | some as =>
         if Pratt.isPostfixNode f && !Pratt.prefixSpine f then
           (match Pratt.lower f [] with
            | some fe => some (Pratt.applyTrail (.call fe as) tr)
            | none => none)
         else Pratt.lower f (.call as :: tr)) := by
  cases f <;> simp [isIdentC] at hf <;> (conv => lhs; rw [Pratt.lower]) <;> rfl

theorem callK_nonident (C : List String) (n : Nat) (f : Pratt.Cst)
    (hf : isIdentC f = false) (as : List Expr) (tr : List Trailing) :
    callK C n (embed f) as tr =
      (if Pratt.isPostfixNode f && !Pratt.prefixSpine f then
         (lowerExprW C n (embed f) [] >>= fun fe => pure (applyTrailing (.call fe as) tr))
       else lowerExprW C n (embed f) (.call as :: tr)) := by
  have h1 : ((embed f).kind == "EXPR_IDENT") = false := by
    rw [kind_ident_iff]; cases f <;> simp [isIdentC] at hf ⊢
  unfold callK
  simp only [h1, Bool.false_eq_true, if_false, postfix_embed, recvPrefix_embed]

mutual
theorem lower_full (C : List String) : ∀ (c : Pratt.Cst) (tr : List Pratt.Trail) (a : Pratt.Ast) (n : Nat) (s : St),
    okC C c = true → Pratt.lower c tr = some a → dep c ≤ n →
    (lowerExprW C n (embed c) (tr.map toTr) s).1 = some (toExpr a)
  | .ident x, tr, a, n, s, hok, h, hn => by
    simp [Pratt.lower] at h
    subst h
    simp [okC] at hok
    obtain ⟨m, rfl⟩ : ∃ m, n = m + 1 := ⟨n - 1, by simp [dep] at hn; omega⟩
    rw [embed, view_ident C m x hok, toExpr_applyTrail]
    simp [toExpr]
  | .int ds, tr, a, n, s, _, h, hn => by
    simp only [Pratt.lower] at h
    split at h
    · rename_i he
      cases tr with
      | nil =>
        cases h
        obtain ⟨m, rfl⟩ : ∃ m, n = m + 1 := ⟨n - 1, by simp [dep] at hn; omega⟩
        rw [embed, List.map_nil, view_int]
        simp [toExpr]
      | cons _ _ => simp at he
    · cases h
  | .paren e, tr, a, n, s, hok, h, hn => by
    obtain ⟨m, rfl⟩ : ∃ m, n = m + 1 := ⟨n - 1, by simp [dep] at hn; omega⟩
    simp only [Pratt.lower] at h
    cases he : Pratt.lower e [] with
    | none => simp [he] at h
    | some a' =>
      simp [he] at h
      subst h
      have ih := lower_full C e [] a' m s (by simpa [okC] using hok) he (by simp [dep] at hn; omega)
      rw [embed, view_paren C m _ (embed_isE e), toExpr_applyTrail]
      exact bind_pure_fst (g := fun e => applyTrailing e (tr.map toTr)) ih
  | .prefix k e, tr, a, n, s, hok, h, hn => by
    obtain ⟨m, rfl⟩ : ∃ m, n = m + 1 := ⟨n - 1, by simp [dep] at hn; omega⟩
    simp only [Pratt.lower] at h
    cases he : Pratt.lower e tr with
    | none => simp [he] at h
    | some a' =>
      cases ho : Pratt.unOpOf k with
      | none => simp [he, ho] at h
      | some o =>
        simp [he, ho] at h
        subst h
        have ih := lower_full C e tr a' m s (by simpa [okC] using hok) he (by simp [dep] at hn; omega)
        rw [embed, view_prefix C m k o ho _ (embed_isE e), toExpr]
        exact opt_un_fst (o := toUn o) ih
  | .binary k l r, tr, a, n, s, hok, h, hn => by
    obtain ⟨m, rfl⟩ : ∃ m, n = m + 1 := ⟨n - 1, by simp [dep] at hn; omega⟩
    have hdl : dep l ≤ m := by simp [dep] at hn; omega
    have hdr : dep r ≤ m := by simp [dep] at hn; omega
    simp only [okC, Bool.and_eq_true] at hok
    by_cases hk : k = .Dot
    · subst hk
      simp only [if_true] at hok
      simp only [Pratt.lower, if_true] at h
      rw [embed, view_dot C m _ _ (embed_isE l) (embed_isE r), recvPrefix_embed]
      by_cases hp : Pratt.prefixSpine l = true
      · simp only [hp, if_true] at h ⊢
        cases hd : Pratt.dotPost r with
        | none => simp [hd] at h
        | some post =>
          simp only [hd] at h
          have ih := lower_full C l (post :: tr) a m s hok.1 h hdl
          have hda := dotAccess_embed r post hd hok.2 s
          rw [bind_some (by rw [hda])]
          rw [hda]
          exact ih
      · have hp' : Pratt.prefixSpine l = false := by simpa using hp
        simp only [hp', Bool.false_eq_true, if_false] at h ⊢
        cases hl : Pratt.lower l [] with
        | none => simp [hl] at h
        | some le =>
          cases hd : Pratt.dotPost r with
          | none => simp [hl, hd] at h
          | some post =>
            simp [hl, hd] at h
            subst h
            have ih := lower_full C l [] le m s hok.1 hl hdl
            simp only [List.map_nil] at ih
            have hda := dotAccess_embed r post hd hok.2 (lowerExprW C m (embed l) [] s).2
            rw [bind_some ih, bind_some (by rw [hda]), hda, toExpr_applyTrail]
            rfl
    · simp only [hk, if_false] at hok
      simp only [Pratt.lower, hk, if_false] at h
      cases hl : Pratt.lower l [] with
      | none => simp [hl] at h
      | some la =>
        cases ho : Pratt.binOpOf k with
        | none => simp [hl, ho] at h
        | some o =>
          cases hr : Pratt.lower r tr with
          | none => simp [hl, ho, hr] at h
          | some ra =>
            simp [hl, ho, hr] at h
            subst h
            have ihl := lower_full C l [] la m s hok.1 hl hdl
            have ihr := lower_full C r tr ra m (lowerExprW C m (embed l) [] s).2 hok.2 hr hdr
            rw [embed, view_binary C m k o ho _ _ (embed_isE l) (embed_isE r), toExpr]
            exact bind2_fst (g := fun x y => Expr.bin (toBin o) x y) ihl ihr
  | .call f args, tr, a, n, s, hok, h, hn => by
    obtain ⟨m, rfl⟩ : ∃ m, n = m + 1 := ⟨n - 1, by simp [dep] at hn; omega⟩
    have hdf : dep f ≤ m := by simp [dep] at hn; omega
    have hda : depList args + 1 ≤ m := by simp [dep] at hn; omega
    simp only [okC, Bool.and_eq_true] at hok
    rw [embed, view_call C m _ (embed_isE f)]
    cases hargs : Pratt.lowerList args with
    | none =>
      cases f <;> simp [Pratt.lower, hargs] at h
    | some as =>
      have ihA := lower_fullL C args as m s hok.2 hargs hda
      rw [bind_some ihA]
      by_cases hid : isIdentC f = true
      · cases f with
        | ident x =>
          simp [Pratt.lower, hargs] at h
          subst h
          simp [okC] at hok
          rw [embed, callK_ident C m x hok.1, toExpr_applyTrail]
          simp [toExpr]
        | _ => simp [isIdentC] at hid
      · have hid' : isIdentC f = false := by simpa using hid
        rw [lower_call_nonident f args tr hid', hargs] at h
        rw [callK_nonident C m f hid']
        by_cases hpf : (Pratt.isPostfixNode f && !Pratt.prefixSpine f) = true
        · simp only [hpf, if_true] at h ⊢
          cases hf : Pratt.lower f [] with
          | none => simp [hf] at h
          | some fe =>
            simp [hf] at h
            subst h
            have ih := lower_full C f [] fe m (mapSkip (lowerArg C m) ((embedList args).map eArg) s).2 hok.1 hf hdf
            rw [toExpr_applyTrail]
            exact bind_pure_fst (g := fun e => applyTrailing (.call e (toExprList as)) (tr.map toTr)) ih
        · have hpf' : (Pratt.isPostfixNode f && !Pratt.prefixSpine f) = false := by simpa using hpf
          simp only [hpf', Bool.false_eq_true, if_false] at h ⊢
          exact lower_full C f (.call as :: tr) a m _ hok.1 h hdf
theorem lower_fullL (C : List String) : ∀ (cs : List Pratt.Cst) (as : List Pratt.Ast) (n : Nat) (s : St),
    okCList C cs = true → Pratt.lowerList cs = some as → depList cs + 1 ≤ n →
    (mapSkip (lowerArg C n) ((embedList cs).map eArg) s).1 = some (toExprList as)
  | [], as, n, s, _, h, _ => by
    simp [Pratt.lowerList] at h
    subst h
    rfl
  | c :: cs, as, n, s, hok, h, hn => by
    obtain ⟨m, rfl⟩ : ∃ m, n = m + 1 := ⟨n - 1, by omega⟩
    simp only [okCList, Bool.and_eq_true] at hok
    simp only [Pratt.lowerList] at h
    cases hc : Pratt.lower c [] with
    | none => simp [hc] at h
    | some a =>
      cases hcs : Pratt.lowerList cs with
      | none => simp [hc, hcs] at h
      | some as' =>
        simp [hc, hcs] at h
        subst h
        have hd1 : dep c ≤ m := by simp [depList] at hn; omega
        have hd2 : depList cs + 1 ≤ m + 1 := by simp [depList] at hn; omega
        have ih1 := lower_full C c [] a m s hok.1 hc hd1
        rw [embedList, List.map_cons, toExprList]
        refine mapSkip_cons_fst (f := lowerArg C (m + 1)) ?_ ?_
        · rw [view_arg C m _ (embed_isE c)]; exact ih1
        · exact lower_fullL C cs as' (m + 1) _ hok.2 hcs hd2
end

end Goml.Lower
