import GomlVerif.Lemmas.LowerPratt
/-! `Model/Lower.lean` on the image of operator trees (identifiers, integers, parentheses, prefix and binary
operators) equals `Pratt.lower`. -/
namespace Goml.Lower
open Goml.Src Goml.Gen.BindingPower

mutual
/-- the side conditions, decidable: no variable is spelled like a constructor of the file (it would be an `EConstr`),
and every tuple index fits `usize` (beyond that `parse::<usize>` fails and the real code reports
"Invalid tuple index", which `Pratt.digitsNat` does not model) -/
def fits (C : List String) : Pratt.Ast → Bool
  | .var x => !isCtor C x
  | .lit _ => true
  | .un _ e => fits C e
  | .bin _ l r => fits C l && fits C r
  | .call f args => fits C f && fitsList C args
  | .field e _ => fits C e
  | .proj e i => fits C e && decide (i < 2 ^ 64)
def fitsList (C : List String) : List Pratt.Ast → Bool
  | [] => true
  | a :: as => fits C a && fitsList C as
end

/-- operator trees: no call, no `.` -/
def plain : Pratt.Cst → Bool
  | .ident _ => true
  | .int _ => true
  | .paren e => plain e
  | .prefix _ e => plain e
  | .binary k l r => k != .Dot && plain l && plain r
  | .call _ _ => false

def depth : Pratt.Cst → Nat
  | .ident _ => 1
  | .int _ => 1
  | .paren e => depth e + 1
  | .prefix _ e => depth e + 1
  | .binary _ l r => max (depth l) (depth r) + 1
  | .call _ _ => 1

theorem bind_pure_fst {α β} {m : M α} {g : α → β} {s : St} {a : α} (h : (m s).1 = some a) :
    ((m >>= fun e => (pure (g e) : M β)) s).1 = some (g a) := by
  rw [run_bind]
  revert h
  rcases m s with ⟨_ | x, s'⟩ <;> intro h
  · cases h
  · cases h; rfl

theorem opt_un_fst {m : M Expr} {o : UnOp} {msg : String} {s : St} {a : Expr} (h : (m s).1 = some a) :
    ((opt m >>= fun e => match e with
        | none => (err msg : M Expr)
        | some e => pure (.un o e)) s).1 = some (.un o a) := by
  rw [run_bind]
  have : opt m s = (some (m s).1, (m s).2) := rfl
  rw [this, h]
  rfl

theorem bind2_fst {m1 : M Expr} {m2 : M Expr} {g : Expr → Expr → Expr} {s : St} {a b : Expr}
    (h1 : (m1 s).1 = some a) (h2 : (m2 (m1 s).2).1 = some b) :
    ((m1 >>= fun x => m2 >>= fun y => (pure (g x y) : M Expr)) s).1 = some (g a b) := by
  rw [run_bind]
  revert h1 h2
  rcases m1 s with ⟨_ | x, s'⟩ <;> intro h1 h2
  · cases h1
  · cases h1
    exact bind_pure_fst (g := g a) h2

theorem lower_plain (C : List String) : ∀ (c : Pratt.Cst) (a : Pratt.Ast) (n : Nat) (s : St),
    plain c = true → Pratt.lower c [] = some a → fits C a = true → depth c ≤ n →
    (lowerExprW C n (embed c) [] s).1 = some (toExpr a)
  | .ident x, a, n, s, _, h, hf, hn => by
    simp [Pratt.lower, Pratt.applyTrail] at h
    subst h
    simp [fits] at hf
    obtain ⟨m, rfl⟩ : ∃ m, n = m + 1 := ⟨n - 1, by simp [depth] at hn; omega⟩
    rw [embed, view_ident C m x hf]
    simp [toExpr, applyTrailing]
  | .int ds, a, n, s, _, h, _, hn => by
    simp [Pratt.lower] at h
    subst h
    obtain ⟨m, rfl⟩ : ∃ m, n = m + 1 := ⟨n - 1, by simp [depth] at hn; omega⟩
    rw [embed, view_int]
    simp [toExpr]
  | .paren e, a, n, s, hp, h, hf, hn => by
    obtain ⟨m, rfl⟩ : ∃ m, n = m + 1 := ⟨n - 1, by simp [depth] at hn; omega⟩
    simp only [Pratt.lower] at h
    cases he : Pratt.lower e [] with
    | none => simp [he] at h
    | some a' =>
      simp [he, Pratt.applyTrail] at h
      subst h
      have ih := lower_plain C e a' m s (by simpa [plain] using hp) he hf (by simp [depth] at hn; omega)
      rw [embed, view_paren C m _ (embed_isE e)]
      simpa [applyTrailing] using bind_pure_fst (g := fun e => applyTrailing e []) ih
  | .prefix k e, a, n, s, hp, h, hf, hn => by
    obtain ⟨m, rfl⟩ : ∃ m, n = m + 1 := ⟨n - 1, by simp [depth] at hn; omega⟩
    simp only [Pratt.lower] at h
    cases he : Pratt.lower e [] with
    | none => simp [he] at h
    | some a' =>
      cases ho : Pratt.unOpOf k with
      | none => simp [he, ho] at h
      | some o =>
        simp [he, ho] at h
        subst h
        have ih := lower_plain C e a' m s (by simpa [plain] using hp) he (by simpa [fits] using hf)
          (by simp [depth] at hn; omega)
        rw [embed, view_prefix C m k o ho _ (embed_isE e)]
        rw [toExpr]
        exact opt_un_fst (o := toUn o) ih
  | .binary k l r, a, n, s, hp, h, hf, hn => by
    obtain ⟨m, rfl⟩ : ∃ m, n = m + 1 := ⟨n - 1, by simp [depth] at hn; omega⟩
    simp [plain] at hp
    obtain ⟨⟨hk, hpl⟩, hpr⟩ := hp
    simp only [Pratt.lower, hk, if_false] at h
    cases hl : Pratt.lower l [] with
    | none => simp [hl] at h
    | some la =>
      cases ho : Pratt.binOpOf k with
      | none => simp [hl, ho] at h
      | some o =>
        cases hr : Pratt.lower r [] with
        | none => simp [hl, ho, hr] at h
        | some ra =>
          simp [hl, ho, hr] at h
          subst h
          simp [fits] at hf
          have ihl := lower_plain C l la m s hpl hl hf.1 (by simp [depth] at hn; omega)
          have ihr := lower_plain C r ra m (lowerExprW C m (embed l) [] s).2 hpr hr hf.2 (by simp [depth] at hn; omega)
          rw [embed, view_binary C m k o ho _ _ (embed_isE l) (embed_isE r)]
          simpa [toExpr] using bind2_fst (g := fun x y => Expr.bin (toBin o) x y) ihl ihr
  | .call _ _, _, _, _, hp, _, _, _ => by simp [plain] at hp

end Goml.Lower
