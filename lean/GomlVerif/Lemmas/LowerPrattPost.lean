import GomlVerif.Lemmas.LowerPrattOps
/-! The postfix group: `.` (field / projection, plain and handed down to a prefix operand) and calls
(identifier callee, postfix callee, handed down) on the image of `Pratt.Cst`. -/
namespace Goml.Lower
open Goml.Src Goml.Gen.BindingPower

def toTr : Pratt.Trail → Trailing
  | .call args => .call (toExprList args)
  | .field x => .field x
  | .proj i => .proj i

theorem toExpr_applyTrail : ∀ (tr : List Pratt.Trail) (e : Pratt.Ast),
    toExpr (Pratt.applyTrail e tr) = applyTrailing (toExpr e) (tr.map toTr)
  | [], _ => rfl
  | t :: ts, e => by
    rw [Pratt.applyTrail, toExpr_applyTrail ts, List.map_cons, applyTrailing]
    cases t <;> simp [Pratt.applyPost, applyPost, toExpr, toTr]

/-! ### `isDotOp`, `recvPrefix`, the postfix test on the image -/

theorem isDotOp_eBinary (k : TK) (l r : Cst) (hl : IsE l) (hr : IsE r) :
    isDotOp (eBinary k l r) = decide (k = .Dot) := by
  unfold isDotOp eBinary
  rw [tokenAny_cons_node hl.1]
  cases k
  case Bang => rw [tokenAny_cons_tok_miss (by decide), tokenAny_cons_node hr.1, tokenAny_nil]; rfl
  case LParen => rw [tokenAny_cons_tok_miss (by decide), tokenAny_cons_node hr.1, tokenAny_nil]; rfl
  all_goals (rw [tokenAny_cons_tok_hit (by decide)]; rfl)

theorem isDotOp_other (x : Cst) (h : x.kind ≠ "EXPR_BINARY") : (x.kind == "EXPR_BINARY" && isDotOp x) = false := by
  simp [h]

mutual
theorem recvPrefix_embed : ∀ c : Pratt.Cst, recvPrefix (embed c) = Pratt.prefixSpine c
  | .ident _ => by simp [embed, eIdent, recvPrefix, Pratt.prefixSpine]
  | .int _ => by simp [embed, eInt, recvPrefix, Pratt.prefixSpine]
  | .paren _ => by simp [embed, eParen, recvPrefix, Pratt.prefixSpine]
  | .prefix _ _ => by simp [embed, ePrefix, recvPrefix, Pratt.prefixSpine]
  | .binary k l r => by
    have hl := embed_isE l
    have hd := isDotOp_eBinary k (embed l) (embed r) hl (embed_isE r)
    rw [embed, Pratt.prefixSpine]
    unfold eBinary at hd ⊢
    rw [recvPrefix]
    simp only [hd, recvPrefixFirst, hl.1, hl.2, Bool.and_self, if_true]
    by_cases hk : k = .Dot
    · simp [hk, recvPrefix_embed l]
    · simp [hk]
  | .call f args => by
    have hf := embed_isE f
    rw [embed, Pratt.prefixSpine, eCall, recvPrefix]
    have h2 : (embed f).kind ∈ exprKinds := by simpa using hf.2
    simp [recvPrefixFirst, hf.1, h2, recvPrefix_embed f]
end

end Goml.Lower
