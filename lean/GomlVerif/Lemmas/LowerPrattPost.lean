import GomlVerif.Lemmas.LowerPrattOps
/-! The postfix group: `.` (field / projection, plain and handed down to a prefix operand) and calls
(identifier callee, postfix callee, handed down) on the image of `Pratt.Cst`. -/
namespace Goml.Lower
open Goml.Src Goml.Gen.BindingPower

def toTr : Pratt.Trail → Trailing
  | .call args => .call (toExprList args)
  | .field x => .field x
  | .proj i => .proj i

theorem toExpr_applyTrail : ∀ (tr : List Pratt.Trail) (e : Pratt.Ast),
    toExpr (Pratt.applyTrail e tr) = applyTrailing (toExpr e) (tr.map toTr)
  | [], _ => rfl
  | t :: ts, e => by
    rw [Pratt.applyTrail, toExpr_applyTrail ts, List.map_cons, applyTrailing]
    cases t <;> simp [Pratt.applyPost, applyPost, toExpr, toTr]

/-! ### `isDotOp`, `recvPrefix`, the postfix test on the image -/

theorem isDotOp_eBinary (k : TK) (l r : Cst) (hl : IsE l) (hr : IsE r) :
    isDotOp (eBinary k l r) = decide (k = .Dot) := by
  unfold isDotOp eBinary
  rw [tokenAny_cons_node hl.1]
  cases k
  case Bang => rw [tokenAny_cons_tok_miss (by decide), tokenAny_cons_node hr.1, tokenAny_nil]; rfl
  case LParen => rw [tokenAny_cons_tok_miss (by decide), tokenAny_cons_node hr.1, tokenAny_nil]; rfl
  all_goals (rw [tokenAny_cons_tok_hit (by decide)]; rfl)

theorem isDotOp_other (x : Cst) (h : x.kind ≠ "EXPR_BINARY") : (x.kind == "EXPR_BINARY" && isDotOp x) = false := by
  simp [h]

mutual
theorem recvPrefix_embed : ∀ c : Pratt.Cst, recvPrefix (embed c) = Pratt.prefixSpine c
  | .ident _ => by simp [embed, eIdent, recvPrefix, Pratt.prefixSpine]
  | .int _ => by simp [embed, eInt, recvPrefix, Pratt.prefixSpine]
  | .paren _ => by simp [embed, eParen, recvPrefix, Pratt.prefixSpine]
  | .prefix _ _ => by simp [embed, ePrefix, recvPrefix, Pratt.prefixSpine]
  | .binary k l r => by
    have hl := embed_isE l
    have hd := isDotOp_eBinary k (embed l) (embed r) hl (embed_isE r)
    rw [embed, Pratt.prefixSpine]
    unfold eBinary at hd ⊢
    rw [recvPrefix]
    simp only [hd, recvPrefixFirst, hl.1, hl.2, Bool.and_self, if_true]
    by_cases hk : k = .Dot
    · simp [hk, recvPrefix_embed l]
    · simp [hk]
  | .call f args => by
    have hf := embed_isE f
    rw [embed, Pratt.prefixSpine, eCall, recvPrefix]
    have h2 : (embed f).kind ∈ exprKinds := by simpa using hf.2
    simp [recvPrefixFirst, hf.1, h2, recvPrefix_embed f]
end

/-! ### tuple indices: `Pratt.digitsNat` against `parse::<usize>` -/

theorem foldl_none (cs : List Char) :
    cs.foldl (fun acc c => match acc, digitVal c with
      | some a, some d => some (a * 10 + d)
      | _, _ => none) none = none := by
  induction cs with
  | nil => rfl
  | cons c cs ih => simpa [List.foldl] using ih

theorem parseUsize_digits (ds : List Char) (i : Nat) (h : Pratt.digitsNat ds = some i) (hi : i < 2 ^ 64) :
    parseUsize (String.ofList ds) = some i := by
  cases ds with
  | nil => simp [Pratt.digitsNat] at h
  | cons c cs =>
    have hne : c ≠ '+' := by
      intro hc
      subst hc
      have : Pratt.digitsNat ('+' :: cs) = none := by
        simp only [Pratt.digitsNat, List.foldl]
        have : Pratt.digitVal '+' = none := by decide
        rw [this]
        exact foldl_none cs
      rw [this] at h; cases h
    have hd : Pratt.digitsNat (c :: cs) = (c :: cs).foldl (fun acc c => match acc, digitVal c with
        | some a, some d => some (a * 10 + d)
        | _, _ => none) (some 0) := rfl
    rw [hd] at h
    have ht : (String.ofList (c :: cs)).toList = c :: cs := by simp
    unfold parseUsize
    simp only [ht]
    split
    · rename_i hx
      split at hx
      · rename_i r heq; cases heq; exact absurd rfl hne
      · cases hx
    · split
      · rename_i v hv
        split at hv
        · rename_i r heq; cases heq; exact absurd rfl hne
        · have e : some i = some v := h.symm.trans hv
          cases e; simp [hi]
      · rename_i hv
        split at hv
        · rename_i r heq; cases heq; exact absurd rfl hne
        · have e : some i = none := h.symm.trans hv
          cases e

/-- the right operand of `.`: an `Int` token that fits `usize` is a tuple index, an identifier a field name -/
def dotOk : Pratt.Cst → Bool
  | .int ds => match Pratt.digitsNat ds with
    | some i => decide (i < 2 ^ 64)
    | none => true
  | _ => true

theorem dotAccess_embed (r : Pratt.Cst) (post : Pratt.Trail) (h : Pratt.dotPost r = some post) (hok : dotOk r = true) (s : St) :
    dotAccess (embed r) s = (some (toTr post), s) := by
  cases r with
  | int ds =>
    simp only [Pratt.dotPost, Option.map_eq_some_iff] at h
    obtain ⟨i, hi, rfl⟩ := h
    simp only [dotOk, hi, decide_eq_true_eq] at hok
    have ht : tokenK "Int" (eInt ds) = some (.tok "Int" (String.ofList ds) none) := by
      simp [tokenK, eInt, Cst.kids, Cst.isNode, Cst.kind]
    have hk : (eInt ds).kind = "EXPR_INT" := rfl
    simp only [embed, dotAccess, hk, beq_self_eq_true, if_true, ht, Cst.tokText, parseUsize_digits ds i hi hok]
    rfl
  | ident x =>
    simp only [Pratt.dotPost, Option.some.injEq] at h
    subst h
    simp [embed, dotAccess, eIdent, Cst.kind, child, nodesOf, Cst.kids, Cst.isNode, identTexts, tokensK, Cst.tokText,
      toTr, M.pure]
  | paren _ => simp [Pratt.dotPost] at h
  | «prefix» _ _ => simp [Pratt.dotPost] at h
  | binary _ _ _ => simp [Pratt.dotPost] at h
  | call _ _ => simp [Pratt.dotPost] at h

/-- `.`: handed down to the operand of a prefix operator when the receiver chain starts at one, applied otherwise -/
theorem view_dot (C : List String) (n : Nat) (l r : Cst) (hl : IsE l) (hr : IsE r) (tr : List Trailing) :
    lowerExprW C (n + 1) (eBinary .Dot l r) tr =
      (if recvPrefix l then (dotAccess r >>= fun acc => lowerExprW C n l (acc :: tr))
       else (lowerExprW C n l [] >>= fun lhs => dotAccess r >>= fun acc => pure (applyTrailing lhs (acc :: tr)))) := by
  rw [lowerExprW]
  have hk := intKindOf_none "EXPR_BINARY" (by simp)
  have hc : childrenK exprKinds (eBinary .Dot l r) = [l, r] := by
    simp only [eBinary, childrenK_cons_hit hl.1 hl.2, childrenK_cons_tok, childrenK_cons_hit hr.1 hr.2, childrenK_nil]
  have ht : tokenAny binaryOpKinds (eBinary .Dot l r) = some (.tok "Dot" "." none) := by
    simp only [eBinary, tokenAny_cons_node hl.1]
    exact tokenAny_cons_tok_hit (by decide)
  simp only [Cst.kind, eBinary, hk]
  rw [show (Cst.node "EXPR_BINARY" [l, Cst.tok (tkKind .Dot) TK.Dot.spelling none, r]) = eBinary .Dot l r from rfl, hc, ht]
  simp only [Cst.kind, beq_self_eq_true, if_true]

/-! ### calls -/

/-- what `lower_expr_with_args` does with a `CallExpr` once its arguments are lowered -/
def callK (C : List String) (n : Nat) (callee : Cst) (args : List Expr) (tr : List Trailing) : M Expr :=
  if callee.kind == "EXPR_IDENT" then do
    let p ← lowerCtorPathFromIdentExpr callee
    let last ← lastIdent p
    let ls ← getLocals
    if isCtorPath C ls p last then pure (applyTrailing (.constr p args) tr)
    else pure (applyTrailing (.call (.path p) args) tr)
  else
    if (callee.kind == "EXPR_CALL" || callee.kind == "EXPR_CLOSURE" || (callee.kind == "EXPR_BINARY" && isDotOp callee))
        && !recvPrefix callee then do
      let f ← lowerExprW C n callee []
      pure (applyTrailing (.call f args) tr)
    else lowerExprW C n callee (.call args :: tr)

theorem childrenK_args (xs : List Cst) : childrenK ["ARG"] (.node "ARG_LIST" (xs.map eArg)) = xs.map eArg := by
  induction xs with
  | nil => rfl
  | cons x xs ih =>
    rw [List.map_cons, childrenK_cons_hit (x := eArg x) rfl (by simp [eArg, Cst.kind]), ih]

theorem view_call (C : List String) (n : Nat) (f : Cst) (hf : IsE f) (args : List Cst) (tr : List Trailing) :
    lowerExprW C (n + 1) (eCall f args) tr =
      (mapSkip (lowerArg C n) (args.map eArg) >>= fun as => callK C n f as tr) := by
  rw [lowerExprW]
  have hk := intKindOf_none "EXPR_CALL" (by simp)
  have h1 : child ["ARG_LIST"] (eCall f args) = some (.node "ARG_LIST" (args.map eArg)) := by
    unfold eCall
    rw [child_cons_miss hf.1 (isE_not f hf ["ARG_LIST"] (by decide))]
    exact child_cons_hit rfl (by simp [Cst.kind])
  have h2 : child exprKinds (eCall f args) = some f := child_cons_hit hf.1 hf.2
  simp only [Cst.kind, eCall, hk]
  rw [show (Cst.node "EXPR_CALL" [f, Cst.node "ARG_LIST" (List.map eArg args)]) = eCall f args from rfl, h1, h2]
  simp only [childrenK_args]
  rfl

theorem view_arg (C : List String) (n : Nat) (x : Cst) (hx : IsE x) :
    lowerArg C (n + 1) (eArg x) = lowerExprW C n x [] := by
  rw [lowerArg]
  simp only [eArg, child_cons_hit hx.1 hx.2]

/-- the callee test of the `CallExpr` case on the image is `Pratt.isPostfixNode` -/
theorem postfix_embed (f : Pratt.Cst) :
    ((embed f).kind == "EXPR_CALL" || (embed f).kind == "EXPR_CLOSURE" || ((embed f).kind == "EXPR_BINARY" && isDotOp (embed f)))
      = Pratt.isPostfixNode f := by
  cases f with
  | binary k l r =>
    have := isDotOp_eBinary k (embed l) (embed r) (embed_isE l) (embed_isE r)
    simp only [embed] at this ⊢
    rw [this]
    simp [eBinary, Cst.kind, Pratt.isPostfixNode]
  | _ => simp [embed, eIdent, eInt, eParen, ePrefix, eCall, Cst.kind, Pratt.isPostfixNode]

theorem kind_ident_iff (f : Pratt.Cst) : ((embed f).kind == "EXPR_IDENT") = (match f with | .ident _ => true | _ => false) := by
  cases f <;> simp [embed, eIdent, eInt, eParen, ePrefix, eBinary, eCall, Cst.kind]

end Goml.Lower
