import GomlVerif.Lemmas.LowerBal
/-! The binder stack of `Model/Lower.lean` is balanced, and the model never gets stuck:
every function of the lowering model satisfies `Bal` (statements: `Ext`). -/
namespace Goml.Lower
open Goml.Src

variable {α β : Type} {Γ : List String}

theorem Bal.toT {m : M α} {P : α → Prop} (h : Bal Γ m P) : Bal Γ m (fun _ => True) :=
  h.weaken (fun _ _ => trivial)
theorem Ext.toT {m : M α} {P : α → List String → Prop} (h : Ext Γ m P) : Ext Γ m (fun _ _ => True) :=
  h.weaken (fun _ _ _ => trivial)
theorem Bal.bindT {m : M α} {f : α → M β} {Q : β → Prop}
    (hm : Bal Γ m (fun _ => True)) (hf : ∀ a, Bal Γ (f a) Q) : Bal Γ (m >>= f) Q :=
  Bal.bind hm (fun a _ => hf a)
theorem Ext.bindBalT {m : M α} {f : α → M β} {Q : β → List String → Prop}
    (hm : Bal Γ m (fun _ => True)) (hf : ∀ a, Ext Γ (f a) Q) : Ext Γ (m >>= f) Q :=
  Ext.bindBal hm (fun a _ => hf a)

theorem bal_lowerPath (p : Cst) : Bal Γ (lowerPath p) (fun segs => segs ≠ []) := by
  unfold lowerPath
  split
  · exact Bal.err _
  · rename_i h
    exact Bal.mpure (by intro h'; exact h h')

theorem bal_identPath (e : Cst) : Bal Γ (lowerCtorPathFromIdentExpr e) (fun segs => segs ≠ []) := by
  unfold lowerCtorPathFromIdentExpr
  split
  · exact bal_lowerPath _
  · exact Bal.err _

theorem bal_constrPatPath (e : Cst) : Bal Γ (lowerCtorPathFromConstrPat e) (fun _ => True) := by
  unfold lowerCtorPathFromConstrPat
  split
  · exact (bal_lowerPath _).toT
  · exact Bal.err _

/-- `expect("paths must contain at least one segment")` never fires: `lower_path` returns no empty path -/
theorem bal_lastIdent {p : List String} (hp : p ≠ []) : Bal Γ (lastIdent p) (fun _ => True) := by
  unfold lastIdent
  cases h : p.getLast? with
  | some l => exact Bal.mpure trivial
  | none => exact absurd (List.getLast?_eq_none_iff.mp h) hp

theorem bal_noTrailing (tr : List Trailing) (what : String) : Bal Γ (noTrailing tr what) (fun _ => True) := by
  unfold noTrailing
  split
  · exact Bal.mpure trivial
  · exact Bal.err _

theorem bal_dotAccess (rhs : Cst) : Bal Γ (dotAccess rhs) (fun _ => True) := by
  unfold dotAccess
  repeat' split
  all_goals first | exact Bal.err _ | exact Bal.mpure trivial

theorem bal_lowerStrBody (w : String) (t : Cst) : Bal Γ (lowerStrBody w t) (fun _ => True) := by
  unfold lowerStrBody
  split
  · exact Bal.err _
  · exact Bal.pure trivial

/-- leaves and structural steps shared by all the proofs below -/
macro "bal_auto" : tactic => `(tactic| repeat' (first
  | exact Bal.pure trivial | exact Bal.mpure trivial
  | exact Bal.err _ | exact Bal.fail | exact Bal.starve
  | exact Bal.ofOpt (fun _ _ => trivial)
  | exact (Bal.note _)
  | exact Bal.getLocals.toT
  | exact bal_noTrailing _ _
  | exact bal_dotAccess _
  | exact bal_lowerStrBody _ _
  | exact (bal_lowerPath _).toT
  | exact (bal_identPath _).toT
  | exact bal_constrPatPath _
  | assumption
  | (refine Bal.bind (bal_identPath _) (fun _ hp => Bal.bindT (bal_lastIdent hp) (fun _ => ?_)))
  | (refine Bal.bindT ?_ (fun _ => ?_))
  | (refine Bal.toT (Bal.opt (P := fun _ => True) ?_))
  | (refine Bal.toT (Bal.mapSkip (P := fun _ => True) _ (fun _ _ => ?_)))
  | (refine Bal.toT (Bal.mapAll (P := fun _ => True) _ (fun _ _ => ?_)))
  | (refine Bal.toT (Bal.withLocals (Ext.ofBal (P := fun _ => True) ?_)))
  | (dsimp only)
  | split))

theorem bal_lowerTy : ∀ (n : Nat) (node : Cst) (Γ : List String), Bal Γ (lowerTy n node) (fun _ => True)
  | 0, _, _ => by rw [lowerTy]; exact Bal.starve
  | n + 1, node, Γ => by
    have ih : ∀ node Γ, Bal Γ (lowerTy n node) (fun _ => True) := bal_lowerTy n
    rw [lowerTy]
    bal_auto
    all_goals first | exact ih _ _ | skip

theorem bal_lowerParam (n : Nat) (node : Cst) : Bal Γ (lowerParam n node) (fun _ => True) := by
  have ih : ∀ node Γ, Bal Γ (lowerTy n node) (fun _ => True) := bal_lowerTy n
  unfold lowerParam
  bal_auto
  all_goals first | exact ih _ _ | skip

theorem bal_lowerClosureParam (n : Nat) (node : Cst) : Bal Γ (lowerClosureParam n node) (fun _ => True) := by
  have ih : ∀ node Γ, Bal Γ (lowerTy n node) (fun _ => True) := bal_lowerTy n
  unfold lowerClosureParam
  bal_auto
  all_goals first | exact ih _ _ | skip

theorem bal_lowerPat (C : List String) : ∀ (n : Nat) (node : Cst) (Γ : List String), Bal Γ (lowerPat C n node) (fun _ => True)
  | 0, _, _ => by rw [lowerPat]; exact Bal.starve
  | n + 1, node, Γ => by
    have ih : ∀ node Γ, Bal Γ (lowerPat C n node) (fun _ => True) := bal_lowerPat C n
    rw [lowerPat]
    bal_auto
    all_goals first | exact ih _ _ | skip

end Goml.Lower

namespace Goml.Lower
open Goml.Src
variable {α β : Type} {Γ : List String}

theorem Ext.opt {m : M α} {P : α → List String → Prop} (h : Ext Γ m P) :
    Ext Γ (Goml.Lower.opt m) (fun _ _ => True) := by
  intro s hs
  obtain ⟨e, h1, h2, _⟩ := h s hs
  exact ⟨e, h1, h2, fun _ _ => trivial⟩

theorem Ext.pure' {a : α} : Ext Γ (pure a : M α) (fun _ _ => True) :=
  Ext.toT (Ext.ofBal (Bal.pure (P := fun _ => True) trivial))

/-- what is proved about the mutual block of `Model/Lower.lean`, at one fuel level -/
structure CoreBal (C : List String) (n : Nat) : Prop where
  exprW : ∀ node tr Γ, Bal Γ (lowerExprW C n node tr) (fun _ => True)
  branch : ∀ br msg Γ, Bal Γ (lowerBranch C n br msg) (fun _ => True)
  fieldInit : ∀ f Γ, Bal Γ (lowerFieldInit C n f) (fun _ => True)
  arg : ∀ a Γ, Bal Γ (lowerArg C n a) (fun _ => True)
  arm : ∀ a Γ, Bal Γ (lowerArm C n a) (fun _ => True)
  stmt : ∀ st Γ, Ext Γ (lowerStmt C n st) (fun _ _ => True)
  stmts : ∀ sts Γ, Ext Γ (lowerStmts C n sts) (fun _ _ => True)
  block : ∀ b Γ, Bal Γ (lowerBlock C n b) (fun _ => True)

set_option maxHeartbeats 6400000 in
theorem coreBal (C : List String) : ∀ n, CoreBal C n
  | 0 => by
    refine ⟨?_, ?_, ?_, ?_, ?_, ?_, ?_, ?_⟩
    · intro node tr Γ; rw [lowerExprW]; exact Bal.starve
    · intro br msg Γ; rw [lowerBranch]; exact Bal.starve
    · intro f Γ; rw [lowerFieldInit]; exact Bal.starve
    · intro a Γ; rw [lowerArg]; exact Bal.starve
    · intro a Γ; rw [lowerArm]; exact Bal.starve
    · intro st Γ; rw [lowerStmt]; exact Ext.toT (Ext.ofBal (Bal.starve (P := fun _ => True)))
    · intro sts Γ; rw [lowerStmts]; exact Ext.toT (Ext.ofBal (Bal.starve (P := fun _ => True)))
    · intro b Γ; rw [lowerBlock]; exact Bal.starve
  | n + 1 => by
    have ih := coreBal C n
    have ihPat : ∀ node Γ, Bal Γ (lowerPat C n node) (fun _ => True) := bal_lowerPat C n
    have ihTy : ∀ node Γ, Bal Γ (lowerTy n node) (fun _ => True) := bal_lowerTy n
    refine ⟨?_, ?_, ?_, ?_, ?_, ?_, ?_, ?_⟩
    · intro node tr Γ
      rw [lowerExprW]
      bal_auto
      all_goals first
        | exact ih.exprW _ _ _ | exact ih.branch _ _ _ | exact ih.fieldInit _ _ | exact ih.arg _ _
        | exact ih.arm _ _ | exact ih.block _ _ | exact bal_lowerClosureParam _ _ | skip
    · intro br msg Γ
      rw [lowerBranch]
      bal_auto
      all_goals first | exact ih.exprW _ _ _ | exact ih.block _ _ | skip
    · intro f Γ
      rw [lowerFieldInit]
      bal_auto
      all_goals first | exact ih.exprW _ _ _ | skip
    · intro a Γ
      rw [lowerArg]
      bal_auto
      all_goals first | exact ih.exprW _ _ _ | skip
    · intro a Γ
      rw [lowerArm]
      bal_auto
      all_goals first | exact ih.exprW _ _ _ | exact ih.block _ _ | exact ihPat _ _ | skip
    · intro st Γ
      rw [lowerStmt]
      split
      · split
        · exact Ext.toT (Ext.ofBal (Bal.err (P := fun _ => True) _))
        · refine Ext.bindBalT (ihPat _ _) (fun pat => ?_)
          split
          · exact Ext.toT (Ext.ofBal (Bal.err (P := fun _ => True) _))
          · refine Ext.bindBalT (Q := fun _ _ => True) ?_ (fun ann => ?_)
            · bal_auto
              all_goals first | exact ihTy _ _ | skip
            · refine Ext.bindBalT (ih.exprW _ _ _) (fun v => ?_)
              exact Ext.toT (Ext.bind (Q := fun _ _ => True) (Ext.pushLocals _) (fun _ _ _ => Ext.pure'))
      · refine Ext.toT (Ext.ofBal (P := fun _ => True) ?_)
        bal_auto
        all_goals first | exact ih.exprW _ _ _ | skip
    · intro sts Γ
      cases sts with
      | nil => rw [lowerStmts]; exact Ext.pure'
      | cons st rest =>
        rw [lowerStmts]
        refine Ext.toT (Ext.bind (Q := fun _ _ => True) (Ext.opt (ih.stmt st Γ)) (fun e ext _ => ?_))
        refine Ext.toT (Ext.bind (Q := fun _ _ => True) (ih.stmts rest _) (fun es ext2 _ => ?_))
        exact Ext.pure'
    · intro b Γ
      rw [lowerBlock]
      refine Bal.toT (Bal.withLocals (P := fun _ _ => True) ?_)
      refine Ext.toT (Ext.bind (Q := fun _ _ => True) (ih.stmts _ _) (fun es ext _ => ?_))
      refine Ext.toT (Ext.ofBal (P := fun _ => True) ?_)
      bal_auto
      all_goals first | exact ih.exprW _ _ _ | skip

end Goml.Lower
