import GomlVerif.Lemmas.MonoInv
/-! Closedness of what `mono_expr` emits -/
namespace Goml.Mono
open Goml Goml.Closed

theorem noParam_iff_not_hasTParam (t : Ty) : noParam t = !hasTParam t := by
  apply Ty.rec
    (motive_1 := fun t => noParam t = !hasTParam t)
    (motive_2 := fun ts => noParams ts = !hasTParams ts)
  all_goals intros
  all_goals simp_all [noParam, hasTParam, noParams, hasTParams, Bool.not_or]

theorem noParam_primTy (p : Prim) : noParam (primTy p) = true := by
  cases p <;> simp [primTy, noParam]

theorem getTy_noParam (e : Expr) : allTys noParam e = true → noParam (getTy e) = true := by
  apply Expr.rec
    (motive_1 := fun e => allTys noParam e = true → noParam (getTy e) = true)
    (motive_2 := fun _ => True) (motive_3 := fun _ => True) (motive_4 := fun _ => True) (motive_5 := fun _ => True)
  all_goals intros
  all_goals first
    | trivial
    | (simp_all [allTys, getTy, noParam_primTy]; done)
    | (rename_i d _ _ _ h; cases d <;> simp_all [allTys, getTy])

theorem getTys_noParam (es : List Expr) : allTysList noParam es = true → noParams (getTys es) = true := by
  induction es with
  | nil => simp [getTys, noParams]
  | cons e es ih =>
    intro h
    simp only [allTysList, Bool.and_eq_true] at h
    simp [getTys, noParams, getTy_noParam e h.1, ih h.2]

theorem substParams_closed (σ : Subst) (ps : List (String × Ty)) :
    allParamTys (fun t => noParam (substTy σ t)) ps = true → allParamTys noParam (substParams σ ps) = true := by
  induction ps with
  | nil => simp [substParams, allParamTys]
  | cons p ps ih =>
    obtain ⟨x, t⟩ := p
    intro h
    simp only [allParamTys, Bool.and_eq_true] at h
    simp [substParams, allParamTys, h.1, ih h.2]

theorem resolveCall_closed (F : List Fn) (nty : Ty) (f' : Expr) (args' : List Expr) (c : Ctx)
    (h : allTys noParam (.call nty f' args') = true) : allTys noParam (resolveCall F nty f' args' c).1 = true := by
  rcases resolveCall_cases F nty f' args' c with e | ⟨m, e⟩ | ⟨x, fty, callee, s1, cs, hf, _, _, _, _, e⟩ <;> rw [e]
  · exact h
  · exact h
  · subst hf
    simpa [allTys] using h

section
variable (F : List Fn) (σ : Subst)

/-- if every annotation of `e` becomes parameter-free under `σ`, what `mono_expr` emits for `e`
contains no type parameter -/
theorem monoExpr_closed (e : Expr) :
    ∀ c, allTys (fun t => noParam (substTy σ t)) e = true → allTys noParam (monoExpr F σ e c).1 = true := by
  apply Expr.rec
    (motive_1 := fun e => ∀ c, allTys (fun t => noParam (substTy σ t)) e = true →
      allTys noParam (monoExpr F σ e c).1 = true)
    (motive_2 := fun a => ∀ c, allTysArms (fun t => noParam (substTy σ t)) [a] = true →
      allTysArms noParam (monoArms F σ [a] c).1 = true)
    (motive_3 := fun es => ∀ c, allTysList (fun t => noParam (substTy σ t)) es = true →
      allTysList noParam (monoList F σ es c).1 = true)
    (motive_4 := fun arms => ∀ c, allTysArms (fun t => noParam (substTy σ t)) arms = true →
      allTysArms noParam (monoArms F σ arms c).1 = true)
    (motive_5 := fun o => ∀ c, match o with
      | none => True
      | some d => allTys (fun t => noParam (substTy σ t)) d = true → allTys noParam (monoExpr F σ d c).1 = true)
  case var =>
    intro x ty c h
    simp only [monoExpr]
    rcases monoVar_cases F σ x ty c with e | ⟨callee, cs, _, _, e⟩ <;> rw [e] <;> simpa [allTys] using h
  case prim => intro p c h; simp [monoExpr, allTys]
  case tag => intro i ty c h; simpa [monoExpr, allTys] using h
  case constr =>
    intro k ty args ih c h
    simp only [allTys, Bool.and_eq_true] at h
    simp [monoExpr, allTys, h.1, ih c h.2]
  case tuple =>
    intro ty items ih c h
    simp only [allTys, Bool.and_eq_true] at h
    simp [monoExpr, allTys, h.1, ih c h.2]
  case array =>
    intro ty items ih c h
    simp only [allTys, Bool.and_eq_true] at h
    simp [monoExpr, allTys, h.1, ih c h.2]
  case closure =>
    intro ty ps b ih c h
    simp only [allTys, Bool.and_eq_true] at h
    simp [monoExpr, allTys, h.1.1, substParams_closed σ ps h.1.2, ih c h.2]
  case letE =>
    intro x v b ih1 ih2 c h
    simp only [allTys, Bool.and_eq_true] at h
    simp [monoExpr, allTys, ih1 c h.1, ih2 _ h.2]
  case matchE =>
    intro ty s arms d ih1 ih2 ih3 c h
    cases d with
    | none =>
      simp only [allTys, Bool.and_eq_true] at h
      simp [monoExpr, allTys, h.1.1, ih1 c h.1.2, ih2 _ h.2]
    | some d =>
      simp only [allTys, Bool.and_eq_true] at h
      simp [monoExpr, allTys, h.1.1.1, ih1 c h.1.1.2, ih2 _ h.1.2, ih3 _ h.2]
  case ite =>
    intro cnd t e ih1 ih2 ih3 c h
    simp only [allTys, Bool.and_eq_true] at h
    simp [monoExpr, allTys, ih1 c h.1.1, ih2 _ h.1.2, ih3 _ h.2]
  case «while» =>
    intro cnd b ih1 ih2 c h
    simp only [allTys, Bool.and_eq_true] at h
    simp [monoExpr, allTys, ih1 c h.1, ih2 _ h.2]
  case go => intro e ih c h; simp only [allTys] at h; simp [monoExpr, allTys, ih c h]
  case cget =>
    intro k idx ty e ih c h
    simp only [allTys, Bool.and_eq_true] at h
    simp [monoExpr, allTys, h.1, ih c h.2]
  case un =>
    intro op ty e ih c h
    simp only [allTys, Bool.and_eq_true] at h
    simp [monoExpr, allTys, h.1, ih c h.2]
  case bin =>
    intro op ty l r ih1 ih2 c h
    simp only [allTys, Bool.and_eq_true] at h
    simp [monoExpr, allTys, h.1.1, ih1 c h.1.2, ih2 _ h.2]
  case call =>
    intro ty f args ih1 ih2 c h
    simp only [allTys, Bool.and_eq_true] at h
    rcases var_or_not f with ⟨x, t, rfl⟩ | hn
    · rw [monoExpr_call_var]
      apply resolveCall_closed
      simp only [allTys, Bool.and_eq_true]
      exact ⟨⟨h.1.1, by simpa [allTys] using h.1.2⟩, ih2 _ h.2⟩
    · rw [monoExpr_call_nonvar F σ ty f args c hn]
      apply resolveCall_closed
      simp only [allTys, Bool.and_eq_true]
      exact ⟨⟨h.1.1, ih1 c h.1.2⟩, ih2 _ h.2⟩
  case toDyn =>
    intro tr ft ty e ih c h
    simp only [allTys, Bool.and_eq_true] at h
    simp [monoExpr, allTys, h.1.1, h.1.2, ih c h.2]
  case dynCall =>
    intro tr m ty r args ih1 ih2 c h
    simp only [allTys, Bool.and_eq_true] at h
    simp [monoExpr, allTys, h.1.1, ih1 c h.1.2, ih2 _ h.2]
  case traitCall =>
    intro tr m ty r args ih1 ih2 c h
    simp only [allTys, Bool.and_eq_true] at h
    have h1 := ih1 c h.1.2
    have h2 := ih2 (monoExpr F σ r c).2 h.2
    simp [monoExpr, allTys, allTysList, h.1.1, h1, h2, noParam, getTys, noParams, getTy_noParam _ h1,
      getTys_noParam _ h2]
  case proj =>
    intro i ty e ih c h
    simp only [allTys, Bool.and_eq_true] at h
    simp [monoExpr, allTys, h.1, ih c h.2]
  case mk =>
    intro l b ih1 ih2 c h
    simp only [allTysArms, Bool.and_eq_true, and_true] at h
    simp [monoArms, allTysArms, ih1 c h.1, ih2 _ h.2]
  case nil => intro c h; simp [monoList, allTysList]
  case cons =>
    intro e es ih1 ih2 c h
    simp only [allTysList, Bool.and_eq_true] at h
    simp [monoList, allTysList, ih1 c h.1, ih2 _ h.2]
  case nil => intro c h; simp [monoArms, allTysArms]
  case cons =>
    intro a arms ih1 ih2 c h
    obtain ⟨l, b⟩ := a
    simp only [allTysArms, Bool.and_eq_true] at h
    have := ih1 c (by simp [allTysArms, h.1.1, h.1.2])
    simp only [monoArms, allTysArms, Bool.and_eq_true, and_true] at this
    simp [monoArms, allTysArms, this.1, this.2, ih2 _ h.2]
  case none => intro c; trivial
  case some => intro d ih c h; exact ih c h

end

end Goml.Mono

namespace Goml.Mono
open Goml Goml.Closed

theorem allParamTys_mono {p q : Ty → Bool} (h : ∀ t, p t = true → q t = true) (ps : List (String × Ty)) :
    allParamTys p ps = true → allParamTys q ps = true := by
  induction ps with
  | nil => simp [allParamTys]
  | cons a ps ih =>
    obtain ⟨x, t⟩ := a
    simp only [allParamTys, Bool.and_eq_true]
    exact fun hh => ⟨h t hh.1, ih hh.2⟩

theorem allTys_mono {p q : Ty → Bool} (h : ∀ t, p t = true → q t = true) (e : Expr) :
    allTys p e = true → allTys q e = true := by
  apply Expr.rec
    (motive_1 := fun e => allTys p e = true → allTys q e = true)
    (motive_2 := fun a => allTysArms p [a] = true → allTysArms q [a] = true)
    (motive_3 := fun es => allTysList p es = true → allTysList q es = true)
    (motive_4 := fun arms => allTysArms p arms = true → allTysArms q arms = true)
    (motive_5 := fun o => match o with
      | none => True
      | some d => allTys p d = true → allTys q d = true)
  case matchE =>
    intro ty s arms d ih1 ih2 ih3
    cases d with
    | none =>
      simp only [allTys, Bool.and_eq_true]
      exact fun hh => ⟨⟨h _ hh.1.1, ih1 hh.1.2⟩, ih2 hh.2⟩
    | some d =>
      simp only [allTys, Bool.and_eq_true]
      exact fun hh => ⟨⟨⟨h _ hh.1.1.1, ih1 hh.1.1.2⟩, ih2 hh.1.2⟩, ih3 hh.2⟩
  case closure =>
    intro ty ps b ih
    simp only [allTys, Bool.and_eq_true]
    exact fun hh => ⟨⟨h _ hh.1.1, allParamTys_mono h ps hh.1.2⟩, ih hh.2⟩
  case cons =>
    intro e es ih1 ih2
    simp only [allTysList, Bool.and_eq_true]
    exact fun hh => ⟨ih1 hh.1, ih2 hh.2⟩
  case cons =>
    intro a arms ih1 ih2
    obtain ⟨l, b⟩ := a
    simp only [allTysArms, Bool.and_eq_true, and_true] at ih1 ⊢
    exact fun hh => ⟨ih1 hh.1, ih2 hh.2⟩
  case mk =>
    intro l b ih1 ih2
    simp only [allTysArms, Bool.and_eq_true, and_true]
    exact fun hh => ⟨ih1 hh.1, ih2 hh.2⟩
  case none => trivial
  case some => intro d ih; exact ih
  all_goals intros
  all_goals simp_all [allTys, allTysList, allTysArms]
  all_goals (try (rename_i hh; first | exact h _ hh | exact ⟨h _ hh.1, h _ hh.2⟩))

/-- every annotation of the function mentions only parameters that `σ` binds -/
def Covers (σ : Subst) (f : Fn) : Prop := fnAllTys (coversTy σ) f = true

theorem coversTy_closed {σ : Subst} (hc : ClosedSubst σ) (t : Ty) (h : coversTy σ t = true) :
    noParam (substTy σ t) = true :=
  subst_closed_aux σ hc t (by simpa [coversTy, List.all_eq_true] using h)

/-- the function emitted for the instance `(f, σ)` while the context was `c` -/
def specialise (F : List Fn) (f : Fn) (σ : Subst) (c : Ctx) : Fn :=
  { name := specName f.name σ, generics := [], params := substParams σ f.params, ret := substTy σ f.ret,
    body := (monoExpr F σ f.body c).1 }

/-- a closed substitution that covers the function gives a parameter-free instance -/
theorem specialise_closed (F : List Fn) (f : Fn) (σ : Subst) (c : Ctx) (hc : ClosedSubst σ) (hv : Covers σ f) :
    fnAllTys noParam (specialise F f σ c) = true := by
  simp only [Covers, fnAllTys, Bool.and_eq_true] at hv
  simp only [fnAllTys, specialise, Bool.and_eq_true]
  refine ⟨⟨?_, coversTy_closed hc _ hv.1.2⟩, ?_⟩
  · exact substParams_closed σ f.params (allParamTys_mono (fun t ht => coversTy_closed hc t ht) _ hv.1.1)
  · exact monoExpr_closed F σ f.body c (allTys_mono (fun t ht => coversTy_closed hc t ht) _ hv.2)

/-! ### every queued substitution is closed; every emitted function is a `specialise` -/

structure WorkOk (c : Ctx) : Prop where
  closed : ∀ w ∈ c.work, ClosedSubst w.subst
  named : ∀ w ∈ c.work, w.spec = specName w.name w.subst

theorem ensureInstance_workOk {c : Ctx} (n : String) (s : Subst) (hs : ClosedSubst s) (h : WorkOk c) :
    WorkOk (ensureInstance c n s).2 := by
  rcases ensureInstance_cases c n s with e | e | e <;> rw [e]
  · exact h
  · exact ⟨h.closed, h.named⟩
  · constructor
    · intro w hw
      simp only [List.mem_append, List.mem_singleton] at hw
      rcases hw with hw | hw
      · exact h.closed w hw
      · subst hw; exact hs
    · intro w hw
      simp only [List.mem_append, List.mem_singleton] at hw
      rcases hw with hw | hw
      · exact h.named w hw
      · subst hw; rfl

theorem fail_workOk {c : Ctx} (m : String) (h : WorkOk c) : WorkOk (c.fail m) := by
  unfold Ctx.fail
  cases c.err <;> exact ⟨h.closed, h.named⟩

theorem monoExpr_workOk (F : List Fn) (σ : Subst) (e : Expr) {c : Ctx} (h : WorkOk c) :
    WorkOk (monoExpr F σ e c).2 := by
  refine monoExpr_state F σ WorkOk ?_ ?_ (fun _ m h => fail_workOk m h) e c h
  · intro x ty c' h
    rcases monoVar_cases F σ x ty c' with e | ⟨callee, cs, _, hany, e⟩ <;> rw [e]
    · exact h
    · exact ensureInstance_workOk _ _ (closedSubst_of_any hany) h
  · intro nty f' args' c' h
    rcases resolveCall_cases F nty f' args' c' with e | ⟨m, e⟩ | ⟨x, fty, callee, s1, cs, _, _, _, _, hany, e⟩ <;> rw [e]
    · exact h
    · exact fail_workOk _ h
    · exact ensureInstance_workOk _ _ (closedSubst_of_any hany) h

/-- every emitted function is the specialisation of a function of the program at a closed substitution -/
def OutSpec (F : List Fn) (c : Ctx) : Prop :=
  ∀ g ∈ c.out, ∃ f σ c0, f ∈ F ∧ ClosedSubst σ ∧ g = specialise F f σ c0

theorem seed_workOk (F : List Fn) : WorkOk (seed F) ∧ OutSpec F (seed F) := by
  have gen : ∀ (l : List Fn) (c : Ctx), WorkOk c ∧ c.out = [] →
      WorkOk (l.foldl (fun c f => (ensureInstance c f.name []).2) c) ∧
      (l.foldl (fun c f => (ensureInstance c f.name []).2) c).out = [] := by
    intro l
    induction l with
    | nil => intro c h; simpa using h
    | cons f l ih =>
      intro c h
      simp only [List.foldl_cons]
      exact ih _ ⟨ensureInstance_workOk _ _ closedSubst_nil h.1, by rw [ensureInstance_out]; exact h.2⟩
  have h0 : WorkOk ({} : Ctx) := ⟨by intro w hw; simp at hw, by intro w hw; simp at hw⟩
  obtain ⟨a, b⟩ := gen (F.filter fun f => !fnIsGeneric f) {} ⟨h0, rfl⟩
  refine ⟨a, ?_⟩
  intro g hg
  unfold seed at hg
  rw [b] at hg
  simp at hg

theorem step_workOk {F : List Fn} {c c' : Ctx} (h : WorkOk c ∧ OutSpec F c) (hs : step F c = some c') :
    WorkOk c' ∧ OutSpec F c' := by
  unfold step at hs
  split at hs
  · simp at hs
  · rename_i w rest hw
    split at hs
    · rename_i hn
      simp only [Option.some.injEq] at hs
      subst hs
      have h0 : WorkOk { c with work := rest } :=
        ⟨fun w' hw' => h.1.closed w' (by rw [hw]; exact List.mem_cons_of_mem _ hw'),
         fun w' hw' => h.1.named w' (by rw [hw]; exact List.mem_cons_of_mem _ hw')⟩
      refine ⟨fail_workOk _ h0, ?_⟩
      intro g hg
      rw [fail_out] at hg
      exact h.2 g hg
    · rename_i f hf
      simp only [Option.some.injEq] at hs
      subst hs
      have h0 : WorkOk { c with work := rest } :=
        ⟨fun w' hw' => h.1.closed w' (by rw [hw]; exact List.mem_cons_of_mem _ hw'),
         fun w' hw' => h.1.named w' (by rw [hw]; exact List.mem_cons_of_mem _ hw')⟩
      have h1 := monoExpr_workOk F w.subst f.body h0
      have ho := monoExpr_out F w.subst f.body { c with work := rest }
      refine ⟨⟨h1.closed, h1.named⟩, ?_⟩
      intro g hg
      simp only [ho, List.mem_append, List.mem_singleton] at hg
      rcases hg with hg | hg
      · exact h.2 g hg
      · have hwm : w ∈ c.work := by rw [hw]; exact List.mem_cons_self
        refine ⟨f, w.subst, { c with work := rest }, (findFn_mem hf).1, h.1.closed w hwm, ?_⟩
        rw [hg]
        simp only [specialise, (findFn_mem hf).2, h.1.named w hwm]

theorem loop_workOk {F : List Fn} : ∀ (fuel : Nat) (c c' : Ctx), WorkOk c ∧ OutSpec F c → loop F fuel c = some c' →
    WorkOk c' ∧ OutSpec F c' := by
  intro fuel
  induction fuel with
  | zero =>
    intro c c' h hl
    simp only [loop] at hl
    split at hl
    · simp only [Option.some.injEq] at hl; subst hl; exact h
    · simp at hl
  | succ n ih =>
    intro c c' h hl
    simp only [loop] at hl
    cases hs : step F c with
    | none => simp only [hs, Option.some.injEq] at hl; subst hl; exact h
    | some c1 => simp only [hs] at hl; exact ih c1 c' (step_workOk h hs) hl

end Goml.Mono
