import GomlVerif.Lemmas.MonoTy
/-! Phase 2 of mono (`TypeMono::collapse_type_apps`): what it preserves and that its result is application-free -/
namespace Goml.Mono
open Goml Goml.Closed

/-- what every step of phase 2 leaves alone: the tables of generic definitions, and an error once set -/
structure Pres (m m' : TM) : Prop where
  enums : m'.enumBase = m.enumBase
  structs : m'.structBase = m.structBase
  err : m.err.isSome = true → m'.err.isSome = true

theorem Pres.refl (m : TM) : Pres m m := ⟨rfl, rfl, id⟩
theorem Pres.trans {a b c : TM} (h1 : Pres a b) (h2 : Pres b c) : Pres a c :=
  ⟨h2.enums.trans h1.enums, h2.structs.trans h1.structs, fun h => h2.err (h1.err h)⟩

theorem fail_pres (m : TM) (msg : String) : Pres m (m.fail msg) := by
  unfold TM.fail
  cases h : m.err with
  | some e => simp only; exact Pres.refl m
  | none => exact ⟨rfl, rfl, by simp [h]⟩

theorem fail_isSome (m : TM) (msg : String) : (m.fail msg).err.isSome = true := by
  unfold TM.fail
  cases h : m.err <;> simp [h]

theorem pres_all : ∀ fuel,
    (∀ t m, Pres m (collapse fuel t m).2) ∧ (∀ ts m, Pres m (collapseList fuel ts m).2) ∧
    (∀ σ ts m, Pres m (collapseFields fuel σ ts m).2) ∧ (∀ σ vs m, Pres m (collapseVariants fuel σ vs m).2) ∧
    (∀ σ fs m, Pres m (collapseNamed fuel σ fs m).2) ∧ (∀ n args m, Pres m (ensureTy fuel n args m).2) := by
  intro fuel
  induction fuel with
  | zero =>
    refine ⟨?_, ?_, ?_, ?_, ?_, ?_⟩ <;> intros <;> simp only [collapse, collapseList, collapseFields, collapseVariants, collapseNamed, ensureTy] <;>
      exact fail_pres _ _
  | succ n ih =>
    obtain ⟨hC, hL, hF, hV, hN, hE⟩ := ih
    refine ⟨?_, ?_, ?_, ?_, ?_, ?_⟩
    · intro t m
      cases t <;> simp only [collapse] <;> try exact Pres.refl m
      · exact hL _ m
      · rename_i base args
        split
        · exact hC _ m
        · split
          · exact fail_pres _ _
          · split
            · exact hE _ _ m
            · split
              · exact hE _ _ m
              · exact (hC _ m).trans (hL _ _)
      · exact hC _ m
      · exact hC _ m
      · exact hC _ m
      · exact (hL _ m).trans (hC _ _)
    · intro ts m
      cases ts with
      | nil => simp only [collapseList]; exact Pres.refl m
      | cons t rest => simp only [collapseList]; exact (hC t m).trans (hL _ _)
    · intro σ ts m
      cases ts with
      | nil => simp only [collapseFields]; exact Pres.refl m
      | cons t rest => simp only [collapseFields]; exact (hC _ m).trans (hF _ _ _)
    · intro σ vs m
      cases vs with
      | nil => simp only [collapseVariants]; exact Pres.refl m
      | cons v rest => obtain ⟨vn, fs⟩ := v; simp only [collapseVariants]; exact (hF _ _ m).trans (hV _ _ _)
    · intro σ fs m
      cases fs with
      | nil => simp only [collapseNamed]; exact Pres.refl m
      | cons f rest => obtain ⟨fnm, t⟩ := f; simp only [collapseNamed]; exact (hC _ m).trans (hN _ _ _)
    · intro name args m
      simp only [ensureTy]
      split
      · exact Pres.refl m
      · have h0 : Pres m { m with map := m.map ++ [((name, args), monoTypeName name args)] } := ⟨rfl, rfl, id⟩
        split
        · rename_i d hd
          refine h0.trans ?_
          split
          · have hf := fail_pres { m with map := m.map ++ [((name, args), monoTypeName name args)] }
              ("enum generic argument length mismatch for " ++ name)
            have := hV (zipSubst d.generics args []) d.variants
              (TM.fail { m with map := m.map ++ [((name, args), monoTypeName name args)] } ("enum generic argument length mismatch for " ++ name))
            exact hf.trans ⟨this.enums, this.structs, this.err⟩
          · have := hV (zipSubst d.generics args []) d.variants { m with map := m.map ++ [((name, args), monoTypeName name args)] }
            exact ⟨this.enums, this.structs, this.err⟩
        · split
          · rename_i d hd
            refine h0.trans ?_
            split
            · have hf := fail_pres { m with map := m.map ++ [((name, args), monoTypeName name args)] }
                ("struct generic argument length mismatch for " ++ name)
              have := hN (zipSubst d.generics args []) d.fields
                (TM.fail { m with map := m.map ++ [((name, args), monoTypeName name args)] } ("struct generic argument length mismatch for " ++ name))
              exact hf.trans ⟨this.enums, this.structs, this.err⟩
            · have := hN (zipSubst d.generics args []) d.fields { m with map := m.map ++ [((name, args), monoTypeName name args)] }
              exact ⟨this.enums, this.structs, this.err⟩
          · exact h0

end Goml.Mono

namespace Goml.Mono
open Goml Goml.Closed

mutual
/-- every type application has arguments and a head that is a known generic enum or struct -/
def appsKnown (enums : List EnumDef) (structs : List StructDef) : Ty → Bool
  | .app base args =>
    !args.isEmpty && (match constrName base with
      | some bn => (findEnum enums bn).isSome || (findStruct structs bn).isSome
      | none => false)
  | .tuple ts => appsKnowns enums structs ts
  | .func ps r => appsKnowns enums structs ps && appsKnown enums structs r
  | .array _ e => appsKnown enums structs e
  | .ref e => appsKnown enums structs e
  | .vec e => appsKnown enums structs e
  | _ => true
def appsKnowns (enums : List EnumDef) (structs : List StructDef) : List Ty → Bool
  | [] => true
  | t :: ts => appsKnown enums structs t && appsKnowns enums structs ts
end

theorem err_none_of_pres {m m' : TM} (h : Pres m m') (hn : m'.err = none) : m.err = none := by
  cases he : m.err with
  | none => rfl
  | some e =>
    have := h.err (by simp [he])
    simp [hn] at this

/-- if phase 2 finishes without error (in particular: without running out of fuel), the type it returns
contains no type application, provided every application in the input is one of a known generic type -/
theorem collapse_noApp_aux : ∀ fuel,
    (∀ t m, appsKnown m.enumBase m.structBase t = true → (collapse fuel t m).2.err = none → noApp (collapse fuel t m).1 = true) ∧
    (∀ ts m, appsKnowns m.enumBase m.structBase ts = true → (collapseList fuel ts m).2.err = none →
      noApps (collapseList fuel ts m).1 = true) := by
  intro fuel
  induction fuel with
  | zero =>
    constructor
    · intro t m _ he
      simp only [collapse] at he
      have := fail_isSome m "fuel"
      simp [he] at this
    · intro ts m _ he
      simp only [collapseList] at he
      have := fail_isSome m "fuel"
      simp [he] at this
  | succ n ih =>
    obtain ⟨hC, hL⟩ := ih
    have hp := pres_all n
    constructor
    · intro t m hk he
      cases t <;> simp only [collapse] at he ⊢ <;> try (simp [noApp]; done)
      · -- tuple
        simp only [appsKnown] at hk
        simpa [noApp] using hL _ m hk he
      · -- app
        rename_i base args
        simp only [appsKnown, Bool.and_eq_true, Bool.not_eq_true'] at hk
        obtain ⟨hne, hhead⟩ := hk
        cases hc : constrName base with
        | none => simp [hc] at hhead
        | some bn =>
          simp only [hc, Bool.or_eq_true] at hhead
          simp only [hne, Bool.false_eq_true, if_false, hc]
          by_cases h1 : (findEnum m.enumBase bn).isSome = true
          · simp [h1, noApp]
          · by_cases h2 : (findStruct m.structBase bn).isSome = true
            · simp [h1, h2, noApp]
            · rcases hhead with h | h
              · exact absurd h h1
              · exact absurd h h2
      · -- array
        simp only [appsKnown] at hk
        simpa [noApp] using hC _ m hk he
      · -- vec
        simp only [appsKnown] at hk
        simpa [noApp] using hC _ m hk he
      · -- ref
        simp only [appsKnown] at hk
        simpa [noApp] using hC _ m hk he
      · -- func
        rename_i ps r
        simp only [appsKnown, Bool.and_eq_true] at hk
        have p1 := hp.2.1 ps m
        have e1 : (collapseList n ps m).2.err = none := err_none_of_pres (hp.1 r _) he
        have k2 : appsKnown (collapseList n ps m).2.enumBase (collapseList n ps m).2.structBase r = true := by
          rw [p1.enums, p1.structs]; exact hk.2
        simp [noApp, hL ps m hk.1 e1, hC r _ k2 he]
    · intro ts m hk he
      cases ts with
      | nil => simp [collapseList, noApps]
      | cons t rest =>
        simp only [collapseList] at he ⊢
        simp only [appsKnowns, Bool.and_eq_true] at hk
        have p1 := hp.1 t m
        have e1 : (collapse n t m).2.err = none := err_none_of_pres (hp.2.1 rest _) he
        have k2 : appsKnowns (collapse n t m).2.enumBase (collapse n t m).2.structBase rest = true := by
          rw [p1.enums, p1.structs]; exact hk.2
        simp [noApps, hC t m hk.1 e1, hL rest _ k2 he]

end Goml.Mono
