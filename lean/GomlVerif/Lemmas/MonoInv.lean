import GomlVerif.Lemmas.MonoState
/-! The work-list invariant of `mono()`: instance table, `queued`, work list and output stay in step -/
namespace Goml.Mono
open Goml

theorem entriesBeq_iff : ∀ (a b : List (String × Ty)), entriesBeq a b = true ↔ a = b := by
  intro a
  induction a with
  | nil => intro b; cases b <;> simp [entriesBeq]
  | cons p a ih =>
    intro b
    obtain ⟨k, v⟩ := p
    cases b with
    | nil => simp [entriesBeq]
    | cons q b =>
      obtain ⟨k', v'⟩ := q
      simp [entriesBeq, tyBeq_iff, ih, and_assoc]

def instKey (i : Inst) : String × List (String × Ty) := (i.name, i.key)
def workKey (w : Work) : String × List (String × Ty) := (w.name, key w.subst)

/-- `pre` = names of the functions already emitted (plus the one being processed) -/
structure Inv (pre : List String) (c : Ctx) : Prop where
  nodup : (c.instances.map instKey).Nodup
  queued : c.queued = c.instances.map instKey
  specs : c.instances.map (·.spec) = pre ++ c.work.map (·.spec)
  keys : (c.instances.drop pre.length).map instKey = c.work.map workKey

theorem findInst_none {is : List Inst} {n : String} {k : List (String × Ty)} (h : findInst is n k = none) :
    (n, k) ∉ is.map instKey := by
  intro hm
  simp only [List.mem_map] at hm
  obtain ⟨i, hi, he⟩ := hm
  simp only [findInst, List.find?_eq_none] at h
  have := h i hi
  simp only [instKey, Prod.mk.injEq] at he
  simp [he.1, he.2, (entriesBeq_iff k k).2 rfl] at this

theorem findInst_some {is : List Inst} {n : String} {k : List (String × Ty)} {i : Inst}
    (h : findInst is n k = some i) : i ∈ is ∧ i.name = n ∧ i.key = k := by
  simp only [findInst] at h
  have hm := List.mem_of_find?_eq_some h
  have hp := List.find?_some h
  simp only [Bool.and_eq_true, beq_iff_eq] at hp
  exact ⟨hm, hp.1, (entriesBeq_iff _ _).1 hp.2⟩

theorem any_queued_false {q : List (String × List (String × Ty))} {n : String} {k : List (String × Ty)}
    (h : (n, k) ∉ q) : (q.any fun x => x.1 == n && entriesBeq x.2 k) = false := by
  rw [Bool.eq_false_iff]
  intro ha
  simp only [List.any_eq_true, Bool.and_eq_true, beq_iff_eq] at ha
  obtain ⟨x, hx, h1, h2⟩ := ha
  have h2' := (entriesBeq_iff _ _).1 h2
  apply h
  obtain ⟨a, b⟩ := x
  simp only at h1 h2'
  subst h1 h2'
  exact hx

theorem ensureInstance_inv {pre : List String} {c : Ctx} (n : String) (s : Subst) (h : Inv pre c) :
    Inv pre (ensureInstance c n s).2 := by
  cases hf : findInst c.instances n (key s) with
  | some i => simp only [ensureInstance, hf]; exact h
  | none =>
    have hnot := findInst_none hf
    have hq : (n, key s) ∉ c.queued := by rw [h.queued]; exact hnot
    simp only [ensureInstance, hf, any_queued_false hq]
    have hlen : pre.length ≤ c.instances.length := by
      have := congrArg List.length h.specs
      simp at this
      omega
    constructor
    · show (List.map instKey (c.instances ++ [Inst.mk n (key s) (specName n s)])).Nodup
      simp only [List.map_append, List.map_cons, List.map_nil]
      rw [List.nodup_append]
      refine ⟨h.nodup, by simp, ?_⟩
      intro a ha b hb
      simp only [List.mem_singleton] at hb
      subst hb
      intro he
      subst he
      exact hnot ha
    · simp [h.queued, instKey]
    · simp [h.specs]
    · show List.map instKey (List.drop pre.length (c.instances ++ [Inst.mk n (key s) (specName n s)])) =
        List.map workKey (c.work ++ [Work.mk n s (specName n s)])
      rw [List.drop_append_of_le_length hlen, List.map_append, List.map_append, h.keys]
      simp [instKey, workKey]

theorem fail_inv {pre : List String} {c : Ctx} (m : String) (h : Inv pre c) : Inv pre (c.fail m) := by
  unfold Ctx.fail
  cases c.err <;> exact ⟨h.nodup, h.queued, h.specs, h.keys⟩

theorem specializeValue_inv {pre : List String} {F : List Fn} {x : String} {ty : Ty} {c : Ctx} {r : String × Ctx}
    (h : Inv pre c) (hs : specializeValue F x ty c = some r) : Inv pre r.2 := by
  unfold specializeValue at hs
  split at hs
  · simp at hs
  · split at hs
    · simp at hs
    · split at hs
      · split at hs
        · simp at hs
        · split at hs
          · simp at hs
          · split at hs
            · simp at hs
            · split at hs
              · simp at hs
              · simp only [Option.some.injEq] at hs
                subst hs
                exact ensureInstance_inv _ _ h
      · simp at hs

theorem monoVar_inv {pre : List String} (F : List Fn) (σ : Subst) (x : String) (ty : Ty) {c : Ctx} (h : Inv pre c) :
    Inv pre (monoVar F σ x ty c).2 := by
  cases hs : specializeValue F x (substTy σ ty) c with
  | none => simp only [monoVar, hs]; exact h
  | some r => simp only [monoVar, hs]; exact specializeValue_inv h hs

theorem resolveCall_inv {pre : List String} (F : List Fn) (nty : Ty) (f' : Expr) (args' : List Expr) {c : Ctx}
    (h : Inv pre c) : Inv pre (resolveCall F nty f' args' c).2 := by
  unfold resolveCall
  split
  · split
    · exact h
    · split
      · exact h
      · split
        · exact fail_inv _ h
        · split
          · exact fail_inv _ h
          · split
            · exact h
            · exact ensureInstance_inv _ _ h
  · exact h

theorem monoExpr_inv {pre : List String} (F : List Fn) (σ : Subst) (e : Expr) {c : Ctx} (h : Inv pre c) :
    Inv pre (monoExpr F σ e c).2 :=
  monoExpr_state F σ (Inv pre) (fun x ty _ h => monoVar_inv F σ x ty h)
    (fun nty f' args' _ h => resolveCall_inv F nty f' args' h) (fun _ m h => fail_inv m h) e c h

end Goml.Mono

namespace Goml.Mono
open Goml

/-! ### shapes of the results of `ensureInstance`, `specializeValue`, `resolveCall` -/

theorem ensureInstance_cases (c : Ctx) (n : String) (s : Subst) :
    (ensureInstance c n s).2 = c ∨
    (ensureInstance c n s).2 = { c with instances := c.instances ++ [Inst.mk n (key s) (specName n s)] } ∨
    (ensureInstance c n s).2 = { c with instances := c.instances ++ [Inst.mk n (key s) (specName n s)],
                                        queued := c.queued ++ [(n, key s)],
                                        work := c.work ++ [Work.mk n s (specName n s)] } := by
  simp only [ensureInstance]
  split
  · exact Or.inl rfl
  · split
    · exact Or.inr (Or.inl rfl)
    · exact Or.inr (Or.inr rfl)

theorem specializeValue_some {F : List Fn} {x : String} {ty : Ty} {c : Ctx} {r : String × Ctx}
    (hs : specializeValue F x ty c = some r) :
    ∃ callee cs, findFn F x = some callee ∧ (cs.any fun p => hasTParam p.2) = false ∧
      r = ensureInstance c callee.name cs := by
  unfold specializeValue at hs
  split at hs
  · simp at hs
  · rename_i callee hc
    split at hs
    · simp at hs
    · split at hs
      · split at hs
        · simp at hs
        · split at hs
          · simp at hs
          · split at hs
            · simp at hs
            · rename_i cs _
              split at hs
              · simp at hs
              · rename_i hany
                simp only [Option.some.injEq] at hs
                exact ⟨callee, cs, hc, by simpa using hany, hs.symm⟩
      · simp at hs

theorem monoVar_cases (F : List Fn) (σ : Subst) (x : String) (ty : Ty) (c : Ctx) :
    monoVar F σ x ty c = (.var x (substTy σ ty), c) ∨
    ∃ callee cs, findFn F x = some callee ∧ (cs.any fun p => hasTParam p.2) = false ∧
      monoVar F σ x ty c = (.var (ensureInstance c callee.name cs).1 (substTy σ ty), (ensureInstance c callee.name cs).2) := by
  cases hs : specializeValue F x (substTy σ ty) c with
  | none => left; simp only [monoVar, hs]
  | some r =>
    right
    obtain ⟨callee, cs, h1, h2, h3⟩ := specializeValue_some hs
    exact ⟨callee, cs, h1, h2, by simp only [monoVar, hs, h3]⟩

theorem resolveCall_cases (F : List Fn) (nty : Ty) (f' : Expr) (args' : List Expr) (c : Ctx) :
    resolveCall F nty f' args' c = (.call nty f' args', c) ∨
    (∃ m, resolveCall F nty f' args' c = (.call nty f' args', c.fail m)) ∨
    ∃ x fty callee s1 cs, f' = .var x fty ∧ findCallee F x = some callee ∧
      unifyList (callee.params.map (·.2)) (getTys args') [] = some s1 ∧ unify callee.ret nty s1 = some cs ∧
      (cs.any fun p => hasTParam p.2) = false ∧
      resolveCall F nty f' args' c =
        (.call nty (.var (ensureInstance c callee.name cs).1 fty) args', (ensureInstance c callee.name cs).2) := by
  unfold resolveCall
  split
  · rename_i x fty
    split
    · exact Or.inl rfl
    · rename_i callee hc
      split
      · exact Or.inl rfl
      · split
        · exact Or.inr (Or.inl ⟨_, rfl⟩)
        · rename_i s1 hs1
          split
          · exact Or.inr (Or.inl ⟨_, rfl⟩)
          · rename_i cs hcs
            split
            · exact Or.inl rfl
            · rename_i hany
              exact Or.inr (Or.inr ⟨x, fty, callee, s1, cs, rfl, hc, hs1, hcs, by simpa using hany, rfl⟩)
  · exact Or.inl rfl

/-! ### every queued instance names a function of the program -/

def WorkKnown (F : List Fn) (c : Ctx) : Prop := ∀ w ∈ c.work, (findFn F w.name).isSome = true

theorem findFn_isSome_of_mem {F : List Fn} {f : Fn} (h : f ∈ F) : (findFn F f.name).isSome = true := by
  simp only [findFn, List.find?_isSome]
  exact ⟨f, h, by simp⟩

theorem findFn_mem {F : List Fn} {n : String} {f : Fn} (h : findFn F n = some f) : f ∈ F ∧ f.name = n := by
  simp only [findFn] at h
  exact ⟨List.mem_of_find?_eq_some h, by simpa using List.find?_some h⟩

theorem inherentIndex_mem {F : List Fn} {b m : String} {f : Fn} (h : inherentIndex F b m = some f) : f ∈ F := by
  simp only [inherentIndex] at h
  have := List.mem_of_getLast? h
  exact (List.mem_filter.1 this).1

theorem lookupBy_mem {F : List Fn} {n : String} {k : Gen.CalleeLookup} {f : Fn} (h : lookupBy F n k = some f) : f ∈ F := by
  cases k with
  | asSpelled => exact (findFn_mem h).1
  | inherentIndex =>
    simp only [lookupBy] at h
    split at h
    · exact inherentIndex_mem h
    · simp at h

/-- whatever the order of the lookups, the callee is a function of the program -/
theorem findCallee_mem {F : List Fn} {n : String} {f : Fn} (h : findCallee F n = some f) : f ∈ F := by
  unfold findCallee at h
  obtain ⟨k, _, hk⟩ := List.exists_of_findSome?_eq_some h
  exact lookupBy_mem hk

/-- the order mono.rs uses (regenerated table): a name that is defined as spelled means that definition -/
theorem findCallee_of_findFn {F : List Fn} {n : String} {f : Fn} (h : findFn F n = some f) : findCallee F n = some f := by
  simp [findCallee, Gen.calleeLookupOrder, lookupBy, h]

theorem ensureInstance_known {F : List Fn} {c : Ctx} (n : String) (s : Subst) (hn : (findFn F n).isSome = true)
    (h : WorkKnown F c) : WorkKnown F (ensureInstance c n s).2 := by
  rcases ensureInstance_cases c n s with e | e | e <;> rw [e]
  · exact h
  · exact h
  · intro w hw
    simp only [List.mem_append, List.mem_singleton] at hw
    rcases hw with hw | hw
    · exact h w hw
    · subst hw; exact hn

theorem fail_known {F : List Fn} {c : Ctx} (m : String) (h : WorkKnown F c) : WorkKnown F (c.fail m) := by
  unfold Ctx.fail
  cases c.err <;> exact h

theorem monoVar_known (F : List Fn) (σ : Subst) (x : String) (ty : Ty) {c : Ctx} (h : WorkKnown F c) :
    WorkKnown F (monoVar F σ x ty c).2 := by
  rcases monoVar_cases F σ x ty c with e | ⟨callee, cs, hc, _, e⟩ <;> rw [e]
  · exact h
  · exact ensureInstance_known _ _ (findFn_isSome_of_mem (findFn_mem hc).1) h

theorem resolveCall_known (F : List Fn) (nty : Ty) (f' : Expr) (args' : List Expr) {c : Ctx}
    (h : WorkKnown F c) : WorkKnown F (resolveCall F nty f' args' c).2 := by
  rcases resolveCall_cases F nty f' args' c with e | ⟨m, e⟩ | ⟨x, fty, callee, s1, cs, _, hc, _, _, _, e⟩ <;> rw [e]
  · exact h
  · exact fail_known _ h
  · exact ensureInstance_known _ _ (findFn_isSome_of_mem (findCallee_mem hc)) h

theorem monoExpr_known (F : List Fn) (σ : Subst) (e : Expr) {c : Ctx} (h : WorkKnown F c) :
    WorkKnown F (monoExpr F σ e c).2 :=
  monoExpr_state F σ (WorkKnown F) (fun x ty _ h => monoVar_known F σ x ty h)
    (fun nty f' args' _ h => resolveCall_known F nty f' args' h) (fun _ m h => fail_known m h) e c h

/-! ### the loop -/

theorem ensureInstance_out (c : Ctx) (n : String) (s : Subst) : (ensureInstance c n s).2.out = c.out := by
  rcases ensureInstance_cases c n s with e | e | e <;> rw [e]

theorem fail_out (c : Ctx) (m : String) : (c.fail m).out = c.out := by
  unfold Ctx.fail; cases c.err <;> rfl

/-- the invariant of `while let Some(..) = ctx.work.pop_front()` -/
structure LoopInv (F : List Fn) (c : Ctx) : Prop where
  inv : Inv (c.out.map (·.name)) c
  known : WorkKnown F c

theorem seed_inv (F : List Fn) : LoopInv F (seed F) := by
  unfold seed
  have gen : ∀ (l : List Fn) (c : Ctx), (∀ f ∈ l, f ∈ F) → Inv [] c ∧ WorkKnown F c ∧ c.out = [] →
      Inv [] (l.foldl (fun c f => (ensureInstance c f.name []).2) c) ∧
      WorkKnown F (l.foldl (fun c f => (ensureInstance c f.name []).2) c) ∧
      (l.foldl (fun c f => (ensureInstance c f.name []).2) c).out = [] := by
    intro l
    induction l with
    | nil => intro c _ h; simpa using h
    | cons f l ih =>
      intro c hl h
      simp only [List.foldl_cons]
      apply ih _ (fun g hg => hl g (List.mem_cons_of_mem _ hg))
      exact ⟨ensureInstance_inv _ _ h.1,
        ensureInstance_known _ _ (findFn_isSome_of_mem (hl f (List.mem_cons_self))) h.2.1,
        by rw [ensureInstance_out]; exact h.2.2⟩
  have h0 : Inv [] ({} : Ctx) := ⟨by simp, by simp, by simp, by simp⟩
  have hk : WorkKnown F ({} : Ctx) := by intro w hw; simp at hw
  obtain ⟨a, b, c⟩ := gen (F.filter fun f => !fnIsGeneric f) {} (fun f hf => (List.mem_filter.1 hf).1) ⟨h0, hk, rfl⟩
  exact ⟨by rw [c]; exact a, b⟩

theorem monoExpr_out (F : List Fn) (σ : Subst) (e : Expr) (c : Ctx) : (monoExpr F σ e c).2.out = c.out := by
  refine monoExpr_state F σ (fun c' => c'.out = c.out) ?_ ?_ ?_ e c rfl
  · intro x ty c' h
    rcases monoVar_cases F σ x ty c' with e | ⟨callee, cs, _, _, e⟩ <;> rw [e]
    · exact h
    · rw [ensureInstance_out]; exact h
  · intro nty f' args' c' h
    rcases resolveCall_cases F nty f' args' c' with e | ⟨m, e⟩ | ⟨x, fty, callee, s1, cs, _, _, _, _, _, e⟩ <;> rw [e]
    · exact h
    · rw [fail_out]; exact h
    · rw [ensureInstance_out]; exact h
  · intro c' m h
    rw [fail_out]; exact h

theorem step_inv {F : List Fn} {c c' : Ctx} (h : LoopInv F c) (hs : step F c = some c') : LoopInv F c' := by
  unfold step at hs
  split at hs
  · simp at hs
  · rename_i w rest hw
    have hk : (findFn F w.name).isSome = true := h.known w (by rw [hw]; exact List.mem_cons_self)
    split at hs
    · rename_i hn; simp [hn] at hk
    · rename_i f hf
      simp only [Option.some.injEq] at hs
      subst hs
      have hi := h.inv
      have h0 : Inv (c.out.map (·.name) ++ [w.spec]) { c with work := rest } := by
        refine ⟨hi.nodup, hi.queued, ?_, ?_⟩
        · have := hi.specs; rw [hw] at this; simpa using this
        · have := hi.keys; rw [hw] at this
          simp only [List.map_cons] at this
          have h2 : List.drop (c.out.map (·.name) ++ [w.spec]).length c.instances =
              (List.drop (c.out.map (·.name)).length c.instances).tail := by
            simp [List.tail_drop]
          show List.map instKey (List.drop _ c.instances) = List.map workKey rest
          rw [h2, List.map_tail, this]
          rfl
      have hk0 : WorkKnown F { c with work := rest } := by
        intro w' hw'
        exact h.known w' (by rw [hw]; exact List.mem_cons_of_mem _ hw')
      have h1 := monoExpr_inv F w.subst f.body h0
      have hk1 := monoExpr_known F w.subst f.body hk0
      have ho := monoExpr_out F w.subst f.body { c with work := rest }
      refine ⟨?_, hk1⟩
      simp only [List.map_append, List.map_cons, List.map_nil, ho]
      exact ⟨h1.nodup, h1.queued, h1.specs, h1.keys⟩

theorem loop_inv {F : List Fn} : ∀ (fuel : Nat) (c c' : Ctx), LoopInv F c → loop F fuel c = some c' →
    LoopInv F c' ∧ c'.work = [] := by
  intro fuel
  induction fuel with
  | zero =>
    intro c c' h hl
    simp only [loop] at hl
    split at hl
    · simp only [Option.some.injEq] at hl; subst hl
      rename_i he
      exact ⟨h, by simpa using he⟩
    · simp at hl
  | succ n ih =>
    intro c c' h hl
    simp only [loop] at hl
    cases hs : step F c with
    | none =>
      simp only [hs, Option.some.injEq] at hl
      subst hl
      refine ⟨h, ?_⟩
      unfold step at hs
      split at hs
      · assumption
      · split at hs <;> simp at hs
    | some c1 =>
      simp only [hs] at hl
      exact ih c1 c' (step_inv h hs) hl

end Goml.Mono
