import GomlVerif.Lemmas.MonoInv
import GomlVerif.Gen.MonoKey
/-!
The `SubstKey` of a substitution does not depend on the order in which a request discovered the bindings:
`key` (insertion sort by parameter name) of two permutations of one set of bindings with distinct names is
the same list.  Consequently a second `ensure_instance` for the same instance changes nothing.
-/
namespace Goml.Mono
open Goml

theorem nameLe_total : ∀ a b : List Char, Mangle.nameLe a b = true ∨ Mangle.nameLe b a = true := by
  intro a
  induction a with
  | nil => intro b; left; simp [Mangle.nameLe]
  | cons x a ih =>
    intro b
    cases b with
    | nil => right; simp [Mangle.nameLe]
    | cons y b =>
      simp only [Mangle.nameLe]
      by_cases h1 : x.toNat < y.toNat
      · left; simp [h1]
      · by_cases h2 : y.toNat < x.toNat
        · right; simp [h2]
        · simp only [h1, h2, if_false]; exact ih b

theorem nameLe_antisymm : ∀ a b : List Char, Mangle.nameLe a b = true → Mangle.nameLe b a = true → a = b := by
  intro a
  induction a with
  | nil => intro b h1 h2; cases b with
    | nil => rfl
    | cons y b => simp [Mangle.nameLe] at h2
  | cons x a ih =>
    intro b h1 h2
    cases b with
    | nil => simp [Mangle.nameLe] at h1
    | cons y b =>
      simp only [Mangle.nameLe] at h1 h2
      by_cases c1 : x.toNat < y.toNat
      · have : ¬ y.toNat < x.toNat := by omega
        simp [c1, this] at h2
      · by_cases c2 : y.toNat < x.toNat
        · simp [c1, c2] at h1
        · simp only [c1, c2, if_false] at h1 h2
          have hxy : x = y := Char.toNat_inj.1 (by omega)
          rw [hxy, ih b h1 h2]

theorem nameLe_trans : ∀ a b c : List Char, Mangle.nameLe a b = true → Mangle.nameLe b c = true → Mangle.nameLe a c = true := by
  intro a
  induction a with
  | nil => intro b c _ _; simp [Mangle.nameLe]
  | cons x a ih =>
    intro b c h1 h2
    cases b with
    | nil => simp [Mangle.nameLe] at h1
    | cons y b =>
      cases c with
      | nil => simp [Mangle.nameLe] at h2
      | cons z c =>
        simp only [Mangle.nameLe] at h1 h2 ⊢
        by_cases a1 : x.toNat < y.toNat
        · by_cases b1 : y.toNat < z.toNat
          · have : x.toNat < z.toNat := by omega
            simp [this]
          · by_cases b2 : z.toNat < y.toNat
            · simp [b1, b2] at h2
            · have : x.toNat < z.toNat := by omega
              simp [this]
        · by_cases a2 : y.toNat < x.toNat
          · simp [a1, a2] at h1
          · simp only [a1, a2, if_false] at h1
            by_cases b1 : y.toNat < z.toNat
            · have : x.toNat < z.toNat := by omega
              simp [this]
            · by_cases b2 : z.toNat < y.toNat
              · simp [b1, b2] at h2
              · simp only [b1, b2, if_false] at h2
                have c1 : ¬ x.toNat < z.toNat := by omega
                have c2 : ¬ z.toNat < x.toNat := by omega
                simp only [c1, c2, if_false]
                exact ih b c h1 h2

/-- the order `SubstKey::new` sorts by, on entries -/
def kle (p q : String × Ty) : Prop := keyLe p.1 q.1 = true

theorem kle_total (p q : String × Ty) : kle p q ∨ kle q p := nameLe_total _ _
theorem kle_trans {p q r : String × Ty} (h1 : kle p q) (h2 : kle q r) : kle p r := nameLe_trans _ _ _ h1 h2
theorem kle_antisymm {p q : String × Ty} (h1 : kle p q) (h2 : kle q p) : p.1 = q.1 :=
  String.toList_inj.1 (nameLe_antisymm _ _ h1 h2)

theorem insertByKey_perm (p : String × Ty) (l : List (String × Ty)) : (insertByKey p l).Perm (p :: l) := by
  induction l with
  | nil => simp [insertByKey]
  | cons q l ih =>
    simp only [insertByKey]
    split
    · exact List.Perm.refl _
    · exact ((List.Perm.cons q ih).trans (List.Perm.swap p q l))

theorem key_perm_self (σ : Subst) : (key σ).Perm σ := by
  induction σ with
  | nil => simp [key]
  | cons p σ ih => exact (insertByKey_perm p (key σ)).trans (List.Perm.cons p ih)

theorem insertByKey_sorted (p : String × Ty) (l : List (String × Ty)) (h : l.Pairwise kle) :
    (insertByKey p l).Pairwise kle := by
  induction l with
  | nil => simp [insertByKey]
  | cons q l ih =>
    simp only [insertByKey]
    rw [List.pairwise_cons] at h
    split
    · rename_i hpq
      refine List.pairwise_cons.2 ⟨?_, List.pairwise_cons.2 h⟩
      intro r hr
      rcases List.mem_cons.1 hr with rfl | hr
      · exact hpq
      · exact kle_trans hpq (h.1 r hr)
    · rename_i hpq
      have hqp : kle q p := (kle_total p q).resolve_left hpq
      refine List.pairwise_cons.2 ⟨?_, ih h.2⟩
      intro r hr
      rcases List.mem_cons.1 ((insertByKey_perm p l).subset hr) with rfl | hr
      · exact hqp
      · exact h.1 r hr

theorem key_sorted (σ : Subst) : (key σ).Pairwise kle := by
  induction σ with
  | nil => simp [key]
  | cons p σ ih => exact insertByKey_sorted p _ ih

theorem eq_of_fst_eq_of_nodup : ∀ {l : List (String × Ty)}, (l.map (·.1)).Nodup → ∀ {a b}, a ∈ l → b ∈ l → a.1 = b.1 → a = b := by
  intro l
  induction l with
  | nil => intro _ a b ha; simp at ha
  | cons x l ih =>
    intro hn a b ha hb hab
    simp only [List.map_cons, List.nodup_cons] at hn
    rcases List.mem_cons.1 ha with ha' | ha' <;> rcases List.mem_cons.1 hb with hb' | hb'
    · rw [ha', hb']
    · subst ha'
      exact absurd (by rw [hab]; exact List.mem_map_of_mem (f := (·.1)) hb') hn.1
    · subst hb'
      exact absurd (by rw [← hab]; exact List.mem_map_of_mem (f := (·.1)) ha') hn.1
    · exact ih hn.2 ha' hb' hab

/-- permutations of one set of bindings (distinct parameter names) have the same `SubstKey` -/
theorem key_perm {σ σ' : Subst} (hp : σ.Perm σ') (hn : (σ.map (·.1)).Nodup) : key σ = key σ' := by
  apply List.Perm.eq_of_pairwise (le := kle) _ (key_sorted σ) (key_sorted σ')
  · exact (key_perm_self σ).trans (hp.trans (key_perm_self σ').symm)
  · intro a b ha hb h1 h2
    have ha' : a ∈ σ := (key_perm_self σ).subset ha
    have hb' : b ∈ σ := hp.symm.subset ((key_perm_self σ').subset hb)
    exact eq_of_fst_eq_of_nodup hn ha' hb' (kle_antisymm h1 h2)

/-- a request for an instance whose key is already in the table returns the name the table holds and changes nothing -/
theorem ensureInstance_again (c : Ctx) (n : String) (s s' : Subst) (hk : key s = key s') :
    ensureInstance (ensureInstance c n s).2 n s' = ensureInstance c n s := by
  cases hf : findInst c.instances n (key s) with
  | some i =>
    have h1 : ensureInstance c n s = (i.spec, c) := by simp [ensureInstance, hf]
    rw [h1]
    simp [ensureInstance, ← hk, hf]
  | none =>
    have hfind : findInst (c.instances ++ [Inst.mk n (key s) (specName n s)]) n (key s') =
        some (Inst.mk n (key s) (specName n s)) := by
      rw [← hk]
      simp only [findInst] at hf ⊢
      rw [List.find?_append, hf]
      simp [(entriesBeq_iff (key s) (key s)).2 rfl]
    by_cases hq : (c.queued.any fun q => q.1 == n && entriesBeq q.2 (key s)) = true
    · have h1 : ensureInstance c n s = (specName n s, { c with instances := c.instances ++ [Inst.mk n (key s) (specName n s)] }) := by
        simp [ensureInstance, hf, hq]
      rw [h1]
      simp only [ensureInstance, hfind]
    · have h1 : ensureInstance c n s = (specName n s, { c with instances := c.instances ++ [Inst.mk n (key s) (specName n s)], queued := c.queued ++ [(n, key s)], work := c.work ++ [Work.mk n s (specName n s)] }) := by
        simp [ensureInstance, hf, hq]
      rw [h1]
      simp only [ensureInstance, hfind]

/-- `SubstKey::new` as mono.rs has it NOW (`Gen/MonoKey.lean` is regenerated from the source on every run) -/
def sourceKey (σ : Subst) : List (String × Ty) :=
  match Gen.substKeyOrder with
  | .sortedByName => key σ
  | .insertionOrder => σ

end Goml.Mono
