import GomlVerif.Lemmas.MonoClosed
/-!
`mono_expr` as a pure function: the emitted expression and the list of instance requests do not
depend on the context (as long as the instance table names every instance by `spec_name_for` of its
key, which `ensure_instance` maintains).  `monoExpr_pure` ("Lemma A") reduces every statement about
the stateful traversal to the pure one.
-/
namespace Goml.Mono
open Goml

/-! ### the instance name depends only on the key -/

theorem map_insertByKey (p : String × Ty) (l : List (String × Ty)) :
    (insertByKey p l).map (fun q => (q.1.toList, toM q.2)) =
      Mangle.insertByKey (p.1.toList, toM p.2) (l.map fun q => (q.1.toList, toM q.2)) := by
  induction l with
  | nil => simp [insertByKey, Mangle.insertByKey]
  | cons q l ih =>
    by_cases hk : keyLe p.1 q.1 = true
    · have hk' : Mangle.nameLe p.1.toList q.1.toList = true := hk
      simp [insertByKey, Mangle.insertByKey, hk, hk']
    · have hk' : ¬ Mangle.nameLe p.1.toList q.1.toList = true := hk
      simp [insertByKey, Mangle.insertByKey, hk, hk', ih]

theorem map_key (σ : Subst) :
    (key σ).map (fun q => (q.1.toList, toM q.2)) = Mangle.sortByKey (σ.map fun q => (q.1.toList, toM q.2)) := by
  induction σ with
  | nil => simp [key, Mangle.sortByKey]
  | cons p σ ih => simp [key, Mangle.sortByKey, map_insertByKey, ih]

theorem insertByKey_ne_nil (p : String × Ty) (l : List (String × Ty)) : insertByKey p l ≠ [] := by
  cases l with
  | nil => simp [insertByKey]
  | cons q l => simp only [insertByKey]; split <;> simp

theorem key_eq_nil {σ : Subst} : key σ = [] ↔ σ = [] := by
  cases σ with
  | nil => simp [key]
  | cons p σ => simp [key, insertByKey_ne_nil]

/-- `spec_name_for` sorts the substitution itself: the name is a function of the `SubstKey` -/
theorem specName_key {n : String} {s s' : Subst} (h : key s = key s') : specName n s = specName n s' := by
  unfold specName Mangle.specNameFor
  have hm : Mangle.sortByKey (s.map fun q => (q.1.toList, toM q.2)) =
      Mangle.sortByKey (s'.map fun q => (q.1.toList, toM q.2)) := by rw [← map_key, ← map_key, h]
  cases s with
  | nil =>
    have : s' = [] := key_eq_nil.1 (by rw [← h]; simp [key])
    subst this; rfl
  | cons p s =>
    cases s' with
    | nil => exact absurd (key_eq_nil.1 (by rw [h]; simp [key])) (by simp)
    | cons p' s' =>
      simp only [List.map_cons] at hm ⊢
      rw [hm]

/-! ### effects -/

inductive Eff where
  | req (name : String) (s : Subst)
  | fail (msg : String)

def applyEff (c : Ctx) : Eff → Ctx
  | .req n s => (ensureInstance c n s).2
  | .fail m => c.fail m

def applyEffs (c : Ctx) (es : List Eff) : Ctx := es.foldl applyEff c

theorem applyEffs_append (c : Ctx) (a b : List Eff) : applyEffs c (a ++ b) = applyEffs (applyEffs c a) b := by
  simp [applyEffs, List.foldl_append]

/-- every instance is named by `spec_name_for` of (any substitution with) its key -/
def InstNamed (c : Ctx) : Prop := ∀ i ∈ c.instances, ∀ s, key s = i.key → specName i.name s = i.spec

theorem ensureInstance_fst {c : Ctx} (h : InstNamed c) (n : String) (s : Subst) :
    (ensureInstance c n s).1 = specName n s := by
  simp only [ensureInstance]
  split
  · rename_i i hi
    obtain ⟨hm, hn, hk⟩ := findInst_some hi
    have := h i hm s hk.symm
    rw [← this, hn]
  · split <;> rfl

theorem ensureInstance_named {c : Ctx} (h : InstNamed c) (n : String) (s : Subst) :
    InstNamed (ensureInstance c n s).2 := by
  have add : InstNamed { c with instances := c.instances ++ [Inst.mk n (key s) (specName n s)] } := by
    intro i hi s' hs'
    simp only [List.mem_append, List.mem_singleton] at hi
    rcases hi with hi | hi
    · exact h i hi s' hs'
    · subst hi; exact specName_key hs'
  rcases ensureInstance_cases c n s with e | e | e <;> rw [e]
  · exact h
  · exact add
  · exact add

theorem fail_named {c : Ctx} (h : InstNamed c) (m : String) : InstNamed (c.fail m) := by
  unfold Ctx.fail; cases c.err <;> exact h

theorem applyEff_named {c : Ctx} (h : InstNamed c) (e : Eff) : InstNamed (applyEff c e) := by
  cases e with
  | req n s => exact ensureInstance_named h n s
  | fail m => exact fail_named h m

theorem applyEffs_named {c : Ctx} (h : InstNamed c) (es : List Eff) : InstNamed (applyEffs c es) := by
  induction es generalizing c with
  | nil => exact h
  | cons e es ih => exact ih (applyEff_named h e)

/-! ### the pure transformation -/

/-- `specializeValue` without the context -/
def specializeValueP (F : List Fn) (x : String) (ty : Ty) : Option (String × Subst) :=
  match findFn F x with
  | none => none
  | some callee =>
    if !fnIsGeneric callee then none
    else
      match ty with
      | .func params ret =>
        if params.length != callee.params.length then none
        else
          match unifyList (callee.params.map (·.2)) params [] with
          | none => none
          | some s1 =>
            match unify callee.ret ret s1 with
            | none => none
            | some cs => if cs.any (fun p => hasTParam p.2) then none else some (callee.name, cs)
      | _ => none

def monoVarP (F : List Fn) (σ : Subst) (x : String) (ty : Ty) : Expr × List Eff :=
  match specializeValueP F x (substTy σ ty) with
  | some r => (.var (specName r.1 r.2) (substTy σ ty), [.req r.1 r.2])
  | none => (.var x (substTy σ ty), [])

def resolveCallP (F : List Fn) (nty : Ty) (f' : Expr) (args' : List Expr) : Expr × List Eff :=
  match f' with
  | .var fname fty =>
    match findCallee F fname with
    | none => (.call nty f' args', [])
    | some callee =>
      if !fnIsGeneric callee then (.call nty f' args', [])
      else
        match unifyList (callee.params.map (·.2)) (getTys args') [] with
        | none => (.call nty f' args', [.fail ("monomorphization unification failed for " ++ callee.name)])
        | some s1 =>
          match unify callee.ret nty s1 with
          | none => (.call nty f' args', [.fail ("monomorphization return type unification failed for " ++ callee.name)])
          | some cs =>
            if cs.any (fun p => hasTParam p.2) then (.call nty f' args', [])
            else (.call nty (.var (specName callee.name cs) fty) args', [.req callee.name cs])
  | _ => (.call nty f' args', [])

mutual
/-- `mono_expr` as a pure function: the emitted expression and the requests/failures in order -/
def monoE (F : List Fn) (σ : Subst) : Expr → Expr × List Eff
  | .var x ty => monoVarP F σ x ty
  | .prim p => (.prim p, [])
  | .tag i ty => (.tag i (substTy σ ty), [])
  | .constr k ty args =>
    let nty := substTy σ ty
    let r := monoEs F σ args
    (.constr (updateCtor k nty) nty r.1, r.2 ++ (if updateCtorPanics nty then [.fail "Expected a constructor type"] else []))
  | .tuple ty items =>
    let r := monoEs F σ items
    (.tuple (substTy σ ty) r.1, r.2)
  | .array ty items =>
    let r := monoEs F σ items
    (.array (substTy σ ty) r.1, r.2)
  | .closure ty ps body =>
    let r := monoE F σ body
    (.closure (substTy σ ty) (substParams σ ps) r.1, r.2)
  | .letE x v b =>
    let r1 := monoE F σ v
    let r2 := monoE F σ b
    (.letE x r1.1 r2.1, r1.2 ++ r2.2)
  | .matchE ty s arms none =>
    let r1 := monoE F σ s
    let r2 := monoAs F σ arms
    (.matchE (substTy σ ty) r1.1 r2.1 none, r1.2 ++ r2.2)
  | .matchE ty s arms (some d) =>
    let r1 := monoE F σ s
    let r2 := monoAs F σ arms
    let r3 := monoE F σ d
    (.matchE (substTy σ ty) r1.1 r2.1 (some r3.1), r1.2 ++ r2.2 ++ r3.2)
  | .ite cnd t e =>
    let r1 := monoE F σ cnd
    let r2 := monoE F σ t
    let r3 := monoE F σ e
    (.ite r1.1 r2.1 r3.1, r1.2 ++ r2.2 ++ r3.2)
  | .while cnd b =>
    let r1 := monoE F σ cnd
    let r2 := monoE F σ b
    (.while r1.1 r2.1, r1.2 ++ r2.2)
  | .go e =>
    let r := monoE F σ e
    (.go r.1, r.2)
  | .cget k idx ty e =>
    let r := monoE F σ e
    let scrutTy := substTy σ (getTy e)
    (.cget (updateCtor k scrutTy) idx (substTy σ ty) r.1,
      r.2 ++ (if updateCtorPanics scrutTy then [.fail "Expected a constructor type"] else []))
  | .un op ty e =>
    let r := monoE F σ e
    (.un op (substTy σ ty) r.1, r.2)
  | .bin op ty l r =>
    let r1 := monoE F σ l
    let r2 := monoE F σ r
    (.bin op (substTy σ ty) r1.1 r2.1, r1.2 ++ r2.2)
  | .call ty (.var x fty) args =>
    let r2 := monoEs F σ args
    let r3 := resolveCallP F (substTy σ ty) (.var x (substTy σ fty)) r2.1
    (r3.1, r2.2 ++ r3.2)
  | .call ty f args =>
    let r1 := monoE F σ f
    let r2 := monoEs F σ args
    let r3 := resolveCallP F (substTy σ ty) r1.1 r2.1
    (r3.1, r1.2 ++ r2.2 ++ r3.2)
  | .toDyn tr forTy ty e =>
    let r := monoE F σ e
    (.toDyn tr (substTy σ forTy) (substTy σ ty) r.1, r.2)
  | .dynCall tr m ty recv args =>
    let r1 := monoE F σ recv
    let r2 := monoEs F σ args
    (.dynCall tr m (substTy σ ty) r1.1 r2.1, r1.2 ++ r2.2)
  | .traitCall tr m ty recv args =>
    let r1 := monoE F σ recv
    let r2 := monoEs F σ args
    let all := r1.1 :: r2.1
    let nty := substTy σ ty
    (.call nty (.var (traitImplFnName tr (getTy r1.1) m) (.func (getTys all) nty)) all, r1.2 ++ r2.2)
  | .proj idx ty e =>
    let r := monoE F σ e
    (.proj idx (substTy σ ty) r.1, r.2)
def monoEs (F : List Fn) (σ : Subst) : List Expr → List Expr × List Eff
  | [] => ([], [])
  | e :: es =>
    let r1 := monoE F σ e
    let r2 := monoEs F σ es
    (r1.1 :: r2.1, r1.2 ++ r2.2)
def monoAs (F : List Fn) (σ : Subst) : List Arm → List Arm × List Eff
  | [] => ([], [])
  | .mk lhs body :: rest =>
    let r1 := monoE F σ lhs
    let r2 := monoE F σ body
    let r3 := monoAs F σ rest
    (.mk r1.1 r2.1 :: r3.1, r1.2 ++ r2.2 ++ r3.2)
end

theorem monoE_call_nonvar (F : List Fn) (σ : Subst) (ty : Ty) (f : Expr) (args : List Expr)
    (h : ∀ x t, f ≠ .var x t) :
    monoE F σ (.call ty f args) =
      ((resolveCallP F (substTy σ ty) (monoE F σ f).1 (monoEs F σ args).1).1,
       (monoE F σ f).2 ++ (monoEs F σ args).2 ++ (resolveCallP F (substTy σ ty) (monoE F σ f).1 (monoEs F σ args).1).2) := by
  cases f <;> first
    | (exfalso; exact h _ _ rfl)
    | simp only [monoE]

theorem monoE_call_var (F : List Fn) (σ : Subst) (ty : Ty) (x : String) (fty : Ty) (args : List Expr) :
    monoE F σ (.call ty (.var x fty) args) =
      ((resolveCallP F (substTy σ ty) (.var x (substTy σ fty)) (monoEs F σ args).1).1,
       (monoEs F σ args).2 ++ (resolveCallP F (substTy σ ty) (.var x (substTy σ fty)) (monoEs F σ args).1).2) := by
  simp only [monoE]

/-! ### Lemma A -/

theorem specializeValue_pure {c : Ctx} (F : List Fn) (x : String) (ty : Ty) :
    specializeValue F x ty c = (specializeValueP F x ty).map fun r => ensureInstance c r.1 r.2 := by
  unfold specializeValue specializeValueP
  cases findFn F x with
  | none => rfl
  | some callee =>
    by_cases hg : fnIsGeneric callee = true
    · simp only [hg, Bool.not_true, Bool.false_eq_true, if_false]
      cases ty <;> try rfl
      rename_i params ret
      by_cases hl : (params.length != callee.params.length) = true
      · simp [hl]
      · cases hu : unifyList (callee.params.map (·.2)) params [] with
        | none => simp [hl, hu]
        | some s1 =>
          cases hr : unify callee.ret ret s1 with
          | none => simp [hl, hu, hr]
          | some cs =>
            by_cases ha : (cs.any fun p => hasTParam p.2) = true
            · simp [hl, hu, hr, ha]
            · simp [hl, hu, hr, ha]
    · simp [hg]

theorem monoVar_pure {c : Ctx} (h : InstNamed c) (F : List Fn) (σ : Subst) (x : String) (ty : Ty) :
    monoVar F σ x ty c = ((monoVarP F σ x ty).1, applyEffs c (monoVarP F σ x ty).2) := by
  simp only [monoVar, monoVarP]
  rw [specializeValue_pure]
  cases hs : specializeValueP F x (substTy σ ty) with
  | none => simp [applyEffs]
  | some r => simp [applyEffs, applyEff, ensureInstance_fst h]

theorem resolveCall_pure {c : Ctx} (h : InstNamed c) (F : List Fn) (nty : Ty) (f' : Expr) (args' : List Expr) :
    resolveCall F nty f' args' c =
      ((resolveCallP F nty f' args').1, applyEffs c (resolveCallP F nty f' args').2) := by
  unfold resolveCall resolveCallP
  cases f' <;> try (simp [applyEffs]; done)
  rename_i fname fty
  cases hc : findCallee F fname with
  | none => simp [hc, applyEffs]
  | some callee =>
    by_cases hg : fnIsGeneric callee = true
    · cases hu : unifyList (callee.params.map (·.2)) (getTys args') [] with
      | none => simp [hc, hu, hg, applyEffs, applyEff]
      | some s1 =>
        cases hr : unify callee.ret nty s1 with
        | none => simp [hc, hu, hr, hg, applyEffs, applyEff]
        | some cs =>
          by_cases ha : (cs.any fun p => hasTParam p.2) = true
          · simp [hc, hu, hr, hg, ha, applyEffs]
          · simp [hc, hu, hr, hg, ha, applyEffs, applyEff, ensureInstance_fst h]
    · simp [hc, hg, applyEffs]

section
variable (F : List Fn) (σ : Subst)

theorem monoExpr_pure (e : Expr) :
    ∀ c, InstNamed c → monoExpr F σ e c = ((monoE F σ e).1, applyEffs c (monoE F σ e).2) := by
  apply Expr.rec
    (motive_1 := fun e => ∀ c, InstNamed c → monoExpr F σ e c = ((monoE F σ e).1, applyEffs c (monoE F σ e).2))
    (motive_2 := fun a => ∀ c, InstNamed c →
      monoArms F σ [a] c = ((monoAs F σ [a]).1, applyEffs c (monoAs F σ [a]).2))
    (motive_3 := fun es => ∀ c, InstNamed c →
      monoList F σ es c = ((monoEs F σ es).1, applyEffs c (monoEs F σ es).2))
    (motive_4 := fun arms => ∀ c, InstNamed c →
      monoArms F σ arms c = ((monoAs F σ arms).1, applyEffs c (monoAs F σ arms).2))
    (motive_5 := fun o => ∀ c, InstNamed c → match o with
      | none => True
      | some d => monoExpr F σ d c = ((monoE F σ d).1, applyEffs c (monoE F σ d).2))
  case var => intro x ty c h; simp only [monoExpr, monoE]; exact monoVar_pure h F σ x ty
  case prim => intro p c h; simp [monoExpr, monoE, applyEffs]
  case tag => intro i ty c h; simp [monoExpr, monoE, applyEffs]
  case constr =>
    intro k ty args ih c h
    simp only [monoExpr, monoE, ih c h, applyEffs_append]
    split <;> simp [applyEffs, applyEff]
  case tuple => intro ty items ih c h; simp only [monoExpr, monoE, ih c h]
  case array => intro ty items ih c h; simp only [monoExpr, monoE, ih c h]
  case closure => intro ty ps b ih c h; simp only [monoExpr, monoE, ih c h]
  case letE =>
    intro x v b ih1 ih2 c h
    simp only [monoExpr, monoE, ih1 c h, ih2 _ (applyEffs_named h _), applyEffs_append]
  case matchE =>
    intro ty s arms d ih1 ih2 ih3 c h
    cases d with
    | none => simp only [monoExpr, monoE, ih1 c h, ih2 _ (applyEffs_named h _), applyEffs_append]
    | some d =>
      have h2 := applyEffs_named h (monoE F σ s).2
      have h3 := applyEffs_named h2 (monoAs F σ arms).2
      simp only [monoExpr, monoE, ih1 c h, ih2 _ h2, ih3 _ h3, applyEffs_append]
  case ite =>
    intro cnd t e ih1 ih2 ih3 c h
    have h2 := applyEffs_named h (monoE F σ cnd).2
    have h3 := applyEffs_named h2 (monoE F σ t).2
    simp only [monoExpr, monoE, ih1 c h, ih2 _ h2, ih3 _ h3, applyEffs_append]
  case «while» =>
    intro cnd b ih1 ih2 c h
    simp only [monoExpr, monoE, ih1 c h, ih2 _ (applyEffs_named h _), applyEffs_append]
  case go => intro e ih c h; simp only [monoExpr, monoE, ih c h]
  case cget =>
    intro k idx ty e ih c h
    simp only [monoExpr, monoE, ih c h, applyEffs_append]
    split <;> simp [applyEffs, applyEff]
  case un => intro op ty e ih c h; simp only [monoExpr, monoE, ih c h]
  case bin =>
    intro op ty l r ih1 ih2 c h
    simp only [monoExpr, monoE, ih1 c h, ih2 _ (applyEffs_named h _), applyEffs_append]
  case call =>
    intro ty f args ih1 ih2 c h
    rcases var_or_not f with ⟨x, t, rfl⟩ | hn
    · rw [monoExpr_call_var, monoE_call_var, ih2 c h]
      simp only [resolveCall_pure (applyEffs_named h _), applyEffs_append]
    · have h2 := applyEffs_named h (monoE F σ f).2
      rw [monoExpr_call_nonvar F σ ty f args c hn, monoE_call_nonvar F σ ty f args hn, ih1 c h]
      simp only [ih2 _ h2, resolveCall_pure (applyEffs_named h2 _), applyEffs_append]
  case toDyn => intro tr ft ty e ih c h; simp only [monoExpr, monoE, ih c h]
  case dynCall =>
    intro tr m ty r args ih1 ih2 c h
    simp only [monoExpr, monoE, ih1 c h, ih2 _ (applyEffs_named h _), applyEffs_append]
  case traitCall =>
    intro tr m ty r args ih1 ih2 c h
    simp only [monoExpr, monoE, ih1 c h, ih2 _ (applyEffs_named h _), applyEffs_append]
  case proj => intro i ty e ih c h; simp only [monoExpr, monoE, ih c h]
  case mk =>
    intro l b ih1 ih2 c h
    simp only [monoArms, monoAs, ih1 c h, ih2 _ (applyEffs_named h _), applyEffs_append]
    simp [applyEffs]
  case nil => intro c h; simp [monoList, monoEs, applyEffs]
  case cons =>
    intro e es ih1 ih2 c h
    simp only [monoList, monoEs, ih1 c h, ih2 _ (applyEffs_named h _), applyEffs_append]
  case nil => intro c h; simp [monoArms, monoAs, applyEffs]
  case cons =>
    intro a arms ih1 ih2 c h
    obtain ⟨l, b⟩ := a
    have := ih1 c h
    simp only [monoArms, monoAs, List.append_nil, applyEffs_append] at this
    have e1 := congrArg Prod.fst this
    have e2 := congrArg Prod.snd this
    simp only [List.cons.injEq, and_true] at e1
    have hx : InstNamed (monoExpr F σ b (monoExpr F σ l c).2).2 := by
      rw [e2]; exact applyEffs_named (applyEffs_named h _) _
    simp only [monoArms, monoAs, ih2 _ hx, applyEffs_append]
    rw [e2]
    simp only [Arm.mk.injEq] at e1
    simp [e1.1, e1.2]
  case none => intro c h; trivial
  case some => intro d ih c h; exact ih c h

end

end Goml.Mono
