import GomlVerif.Lemmas.MonoTerm
import GomlVerif.Model.Sem
/-!
Behaviour preservation of specialisation (phase 1 of `mono`) under `Sem`, for the first-order
fragment with direct calls: no closures, no `go`, no trait/dyn calls, no calls through a local
variable, no generic function used as a value.  In that fragment the two programs compute *equal*
values, so the statement is an equality of `Sem.eval` results (value, world, failure and fuel).
-/
namespace Goml.Mono
open Goml Goml.Sem

theorem specName_nil (n : String) : specName n [] = n := by
  simp [specName, Mangle.specNameFor]

theorem substParams_names (σ : Subst) (ps : List (String × Ty)) : (substParams σ ps).map (·.1) = ps.map (·.1) := by
  induction ps with
  | nil => rfl
  | cons p ps ih => obtain ⟨x, t⟩ := p; simp [substParams, ih]

section
variable (F : List Fn) (isLocal : String → Bool) (U : String → Subst → Prop) (Ext : String → Prop)

/-- a direct call `x(args')` the specialiser handles: a builtin/extern, a monomorphic function, or a
generic function whose instance is derived from the argument types and lies in `U` (up to its key) -/
def CallOk (x : String) (nty : Ty) (args' : List Expr) : Prop :=
  (Ext x ∧ findCallee F x = none) ∨
  (∃ callee, findFn F x = some callee ∧ fnIsGeneric callee = false) ∨
  (∃ callee s1 cs σ', findFn F x = some callee ∧ fnIsGeneric callee = true ∧
    unifyList (callee.params.map (·.2)) (getTys args') [] = some s1 ∧ unify callee.ret nty s1 = some cs ∧
    (cs.any fun p => hasTParam p.2) = false ∧ U callee.name σ' ∧ key σ' = key cs)

mutual
/-- the fragment (relative to the substitution `σ` of the enclosing instance) -/
def FragE (σ : Subst) : Expr → Prop
  | .var x ty => specializeValueP F x (substTy σ ty) = none
  | .prim _ => True
  | .tag _ _ => False   -- ANF only (its value depends on the annotation)
  | .constr k ty args => FragL σ args ∧ updateCtor k (substTy σ ty) = k
  | .tuple _ items => FragL σ items
  | .array _ items => FragL σ items
  | .closure _ _ _ => False
  | .letE x v b => isLocal x = true ∧ FragE σ v ∧ FragE σ b
  | .matchE _ s arms none => FragE σ s ∧ FragA σ arms
  | .matchE _ s arms (some d) => FragE σ s ∧ FragA σ arms ∧ FragE σ d
  | .ite c t e => FragE σ c ∧ FragE σ t ∧ FragE σ e
  | .while c b => FragE σ c ∧ FragE σ b
  | .go _ => False
  | .cget _ _ _ e => FragE σ e
  | .un _ _ e => FragE σ e
  | .bin _ _ l r => FragE σ l ∧ FragE σ r
  | .call ty (.var x _) args => isLocal x = false ∧ FragL σ args ∧ CallOk F U Ext x (substTy σ ty) (monoEs F σ args).1
  | .call _ _ _ => False
  | .toDyn _ _ _ _ => False
  | .dynCall _ _ _ _ _ => False
  | .traitCall _ _ _ _ _ => False
  | .proj _ _ e => FragE σ e
def FragL (σ : Subst) : List Expr → Prop
  | [] => True
  | e :: es => FragE σ e ∧ FragL σ es
def FragA (σ : Subst) : List Arm → Prop
  | [] => True
  | .mk l b :: rest => FragE σ l ∧ FragE σ b ∧ FragA σ rest
end

def EnvLocal (ρ : Env) : Prop := ∀ p ∈ ρ, isLocal p.1 = true

theorem lookupEnv_nonlocal {ρ : Env} (h : EnvLocal isLocal ρ) {x : String} (hx : isLocal x = false) :
    lookupEnv ρ x = none := by
  unfold lookupEnv
  cases hf : ρ.find? (·.1 == x) with
  | none => rfl
  | some p =>
    have hm := List.mem_of_find?_eq_some hf
    have he := List.find?_some hf
    simp only [beq_iff_eq] at he
    have := h p hm
    rw [he, hx] at this
    cases this

theorem bindParams_local : ∀ (xs : List String) (vs : List Val) (ρ : Env), (∀ x ∈ xs, isLocal x = true) →
    EnvLocal isLocal ρ → EnvLocal isLocal (bindParams xs vs ρ) := by
  intro xs
  induction xs with
  | nil => intro vs ρ _ h; simpa [bindParams] using h
  | cons x xs ih =>
    intro vs ρ hx h
    cases vs with
    | nil => simpa [bindParams] using h
    | cons v vs =>
      simp only [bindParams]
      apply ih vs _ (fun y hy => hx y (List.mem_cons_of_mem _ hy))
      intro p hp
      simp only [List.mem_cons] at hp
      rcases hp with rfl | hp
      · exact hx x List.mem_cons_self
      · exact h p hp

theorem resolveCallP_fst (nty : Ty) (f' : Expr) (args' : List Expr) :
    ∃ f'', (resolveCallP F nty f' args').1 = .call nty f'' args' := by
  unfold resolveCallP
  repeat' split
  all_goals exact ⟨_, rfl⟩

theorem updateCtor_enum (t v : String) (i : Nat) (nty : Ty) : ∃ t', updateCtor (.enum t v i) nty = .enum t' v i := by
  cases nty <;> exact ⟨_, rfl⟩

theorem updateCtor_struct (t : String) (nty : Ty) : ∃ t', updateCtor (.struct t) nty = .struct t' := by
  cases nty <;> exact ⟨_, rfl⟩

/-- the head of a match arm selects the same values before and after specialisation -/
theorem armMatches_mono (σ : Subst) (lhs : Expr) (v : Val) : armMatches (monoE F σ lhs).1 v = armMatches lhs v := by
  cases lhs with
  | var x ty =>
    simp only [monoE, monoVarP]
    split <;> simp [armMatches]
  | constr k ty args =>
    simp only [monoE]
    cases k with
    | enum t vn i =>
      obtain ⟨t', ht⟩ := updateCtor_enum t vn i (substTy σ ty)
      rw [ht]; cases v <;> simp [armMatches]
    | struct t =>
      obtain ⟨t', ht⟩ := updateCtor_struct t (substTy σ ty)
      rw [ht]; cases v <;> simp [armMatches]
  | call ty f args =>
    rcases var_or_not f with ⟨x, t, rfl⟩ | hn
    · rw [monoE_call_var]
      obtain ⟨f'', hf⟩ := resolveCallP_fst F (substTy σ ty) (.var x (substTy σ t)) (monoEs F σ args).1
      simp only [hf, armMatches]
    · rw [monoE_call_nonvar F σ ty f args hn]
      obtain ⟨f'', hf⟩ := resolveCallP_fst F (substTy σ ty) (monoE F σ f).1 (monoEs F σ args).1
      simp only [hf, armMatches]
  | matchE ty s arms d => cases d <;> simp [monoE, armMatches]
  | prim p => simp [monoE]
  | tag i ty => simp only [monoE]; cases v <;> simp [armMatches]
  | _ => simp [monoE, armMatches]

/-- what links the Core program `P` and its specialisation `P'` -/
structure Linked (P P' : Prog) : Prop where
  fns : P.fns = F
  /-- every instance of `U` is a function of `P'`: the specialisation of its Core function -/
  inst : ∀ f σ, f ∈ F → U f.name σ → P'.findFn (specName f.name σ) =
      some { name := specName f.name σ, generics := [], params := substParams σ f.params, ret := substTy σ f.ret,
             body := (monoE F σ f.body).1 }
  /-- the bodies of the instances are in the fragment (which includes: their requests lie in `U`) -/
  frag : ∀ f σ, f ∈ F → U f.name σ → FragE F isLocal U Ext σ f.body
  seeds : ∀ f ∈ F, fnIsGeneric f = false → U f.name []
  params : ∀ f ∈ F, ∀ p ∈ f.params, isLocal p.1 = true
  ext : ∀ n, Ext n → P.findFn n = none ∧ P'.findFn n = none
  specNonlocal : ∀ f ∈ F, ∀ σ, U f.name σ → isLocal (specName f.name σ) = false

variable {P P' : Prog} (L : Linked F isLocal U Ext P P')

def SimE (P P' : Prog) (n : Nat) : Prop := ∀ σ e ρ w, FragE F isLocal U Ext σ e → EnvLocal isLocal ρ →
  eval n P' ρ w (monoE F σ e).1 = eval n P ρ w e
def SimL (P P' : Prog) (n : Nat) : Prop := ∀ σ es ρ w, FragL F isLocal U Ext σ es → EnvLocal isLocal ρ →
  evalList n P' ρ w (monoEs F σ es).1 = evalList n P ρ w es
def SimA (P P' : Prog) (n : Nat) : Prop := ∀ σ arms (d : Option Expr) ρ w v, FragA F isLocal U Ext σ arms →
  (∀ d', d = some d' → FragE F isLocal U Ext σ d') → EnvLocal isLocal ρ →
  evalArms n P' ρ w v (monoAs F σ arms).1 (d.map fun d' => (monoE F σ d').1) = evalArms n P ρ w v arms d
/-- calling an instance of `U` in `P'` = calling its Core function in `P` -/
def SimF (P P' : Prog) (n : Nat) : Prop := ∀ f σ w vs, f ∈ F → findFn F f.name = some f → U f.name σ →
  Sem.apply n P' w (.fn (specName f.name σ)) vs = Sem.apply n P w (.fn f.name) vs

include L in
theorem simF_step (n : Nat) (hE : SimE F isLocal U Ext P P' n) : SimF F U P P' (n + 1) := by
  intro f σ w vs hf hff hu
  have h1 := L.inst f σ hf hu
  have h2 : P.findFn f.name = some f := by
    simp only [Prog.findFn, L.fns]; exact hff
  simp only [Sem.apply, h1, h2, substParams_names]
  exact hE σ f.body _ w (L.frag f σ hf hu)
    (bindParams_local isLocal _ vs [] (by
      intro x hx
      simp only [List.mem_map] at hx
      obtain ⟨p, hp, rfl⟩ := hx
      exact L.params f hf p hp) (by intro p hp; simp at hp))


theorem eval_var_nonlocal (P : Prog) (n : Nat) {ρ : Env} (w : World) {x : String} (t : Ty)
    (h : lookupEnv ρ x = none) :
    eval n P ρ w (.var x t) = match n with | 0 => .fail .fuel w | _ + 1 => .ok (.fn x) w := by
  cases n with
  | zero => simp [eval]
  | succ k => simp [eval, h]

include L in
/-- a direct call that the fragment allows evaluates the same in both programs -/
theorem sim_call (n : Nat) (hL : SimL F isLocal U Ext P P' n) (hF : SimF F U P P' n)
    (σ : Subst) (ty : Ty) (x : String) (fty : Ty) (args : List Expr) (ρ : Env) (w : World)
    (hx : isLocal x = false) (ha : FragL F isLocal U Ext σ args)
    (hc : CallOk F U Ext x (substTy σ ty) (monoEs F σ args).1) (hρ : EnvLocal isLocal ρ) :
    eval (n + 1) P' ρ w (monoE F σ (.call ty (.var x fty) args)).1 = eval (n + 1) P ρ w (.call ty (.var x fty) args) := by
  rw [monoE_call_var]
  have hlook := lookupEnv_nonlocal isLocal hρ hx
  have hargs := hL σ args ρ
  rcases hc with ⟨hext, hnone⟩ | ⟨callee, hfc, hng⟩ | ⟨callee, s1, cs, σ', hfc, hg, hu1, hu2, hany, hU, hkey⟩
  · -- builtin / extern: not a function of either program
    have : resolveCallP F (substTy σ ty) (.var x (substTy σ fty)) (monoEs F σ args).1 =
        (.call (substTy σ ty) (.var x (substTy σ fty)) (monoEs F σ args).1, []) := by
      simp [resolveCallP, hnone]
    simp only [this, eval, eval_var_nonlocal P' n w _ hlook, eval_var_nonlocal P n w _ hlook]
    cases n with
    | zero => rfl
    | succ k =>
      simp only [hargs w ha hρ]
      cases evalList (k + 1) P ρ w args with
      | fail f w' => rfl
      | ok vs w' =>
        simp only [Sem.apply, (L.ext x hext).1, (L.ext x hext).2]
  · -- monomorphic function: same name, the instance at the empty substitution
    have hfc' : findCallee F x = some callee := findCallee_of_findFn hfc
    have : resolveCallP F (substTy σ ty) (.var x (substTy σ fty)) (monoEs F σ args).1 =
        (.call (substTy σ ty) (.var x (substTy σ fty)) (monoEs F σ args).1, []) := by
      simp [resolveCallP, hfc', hng]
    simp only [this, eval, eval_var_nonlocal P' n w _ hlook, eval_var_nonlocal P n w _ hlook]
    cases n with
    | zero => rfl
    | succ k =>
      simp only [hargs w ha hρ]
      cases evalList (k + 1) P ρ w args with
      | fail f w' => rfl
      | ok vs w' =>
        have hm := findFn_mem hfc
        have := hF callee [] w' vs hm.1 (by rw [hm.2]; exact hfc) (L.seeds callee hm.1 hng)
        rw [specName_nil, hm.2] at this
        exact this
  · -- generic function: the call is renamed to the instance
    have hfc' : findCallee F x = some callee := findCallee_of_findFn hfc
    have : resolveCallP F (substTy σ ty) (.var x (substTy σ fty)) (monoEs F σ args).1 =
        (.call (substTy σ ty) (.var (specName callee.name cs) (substTy σ fty)) (monoEs F σ args).1, [.req callee.name cs]) := by
      simp [resolveCallP, hfc', hg, hu1, hu2, hany]
    have hm := findFn_mem hfc
    have hspec : specName callee.name cs = specName callee.name σ' := specName_key hkey.symm
    have hlook' : lookupEnv ρ (specName callee.name cs) = none := by
      rw [hspec]; exact lookupEnv_nonlocal isLocal hρ (L.specNonlocal callee hm.1 σ' hU)
    simp only [this, eval, eval_var_nonlocal P' n w _ hlook', eval_var_nonlocal P n w _ hlook]
    cases n with
    | zero => rfl
    | succ k =>
      simp only [hargs w ha hρ]
      cases evalList (k + 1) P ρ w args with
      | fail f w' => rfl
      | ok vs w' =>
        have := hF callee σ' w' vs hm.1 (by rw [hm.2]; exact hfc) hU
        simp only [hspec]
        rw [this, hm.2]


include L in
theorem simE_step (n : Nat) (hE : SimE F isLocal U Ext P P' n) (hL : SimL F isLocal U Ext P P' n)
    (hA : SimA F isLocal U Ext P P' n) (hF : SimF F U P P' n) : SimE F isLocal U Ext P P' (n + 1) := by
  intro σ e ρ w hfr hρ
  cases e with
  | var x ty =>
    simp only [FragE] at hfr
    simp only [monoE, monoVarP, hfr, eval]
  | prim p => simp only [monoE, eval]
  | tag i ty => simp only [FragE] at hfr
  | constr k ty args =>
    simp only [FragE] at hfr
    simp only [monoE, eval, hL σ args ρ w hfr.1 hρ, hfr.2]
  | tuple ty items =>
    simp only [FragE] at hfr
    simp only [monoE, eval, hL σ items ρ w hfr hρ]
  | array ty items =>
    simp only [FragE] at hfr
    simp only [monoE, eval, hL σ items ρ w hfr hρ]
  | closure ty ps b => simp only [FragE] at hfr
  | letE x v b =>
    simp only [FragE] at hfr
    simp only [monoE, eval, hE σ v ρ w hfr.2.1 hρ]
    cases eval n P ρ w v with
    | fail f w' => rfl
    | ok vv w' =>
      refine hE σ b _ w' hfr.2.2 ?_
      intro p hp
      simp only [List.mem_cons] at hp
      rcases hp with rfl | hp
      · exact hfr.1
      · exact hρ p hp
  | matchE ty s arms d =>
    cases d with
    | none =>
      simp only [FragE] at hfr
      simp only [monoE, eval, hE σ s ρ w hfr.1 hρ]
      cases eval n P ρ w s with
      | fail f w' => rfl
      | ok v w' => exact hA σ arms none ρ w' v hfr.2 (by intro d' hd; cases hd) hρ
    | some d =>
      simp only [FragE] at hfr
      simp only [monoE, eval, hE σ s ρ w hfr.1 hρ]
      cases eval n P ρ w s with
      | fail f w' => rfl
      | ok v w' =>
        exact hA σ arms (some d) ρ w' v hfr.2.1 (by intro d' hd; cases hd; exact hfr.2.2) hρ
  | ite c t e =>
    simp only [FragE] at hfr
    simp only [monoE, eval, hE σ c ρ w hfr.1 hρ]
    cases eval n P ρ w c with
    | fail f w' => rfl
    | ok v w' =>
      cases v <;> try rfl
      rename_i b
      cases b
      · exact hE σ e ρ w' hfr.2.2 hρ
      · exact hE σ t ρ w' hfr.2.1 hρ
  | «while» c b =>
    simp only [FragE] at hfr
    have hw := hE σ (.while c b) ρ
    simp only [monoE] at hw
    simp only [monoE, eval, hE σ c ρ w hfr.1 hρ]
    cases eval n P ρ w c with
    | fail f w' => rfl
    | ok v w' =>
      cases v <;> try rfl
      rename_i bb
      cases bb
      · rfl
      · simp only [hE σ b ρ w' hfr.2 hρ]
        cases eval n P ρ w' b with
        | fail f w'' => rfl
        | ok v' w'' => exact hw w'' (by simp only [FragE]; exact hfr) hρ
  | go e => simp only [FragE] at hfr
  | cget k idx ty e =>
    simp only [FragE] at hfr
    simp only [monoE, eval, hE σ e ρ w hfr hρ]
  | un op ty e =>
    simp only [FragE] at hfr
    simp only [monoE, eval, hE σ e ρ w hfr hρ]
  | bin op ty l r =>
    simp only [FragE] at hfr
    simp only [monoE, eval, hE σ l ρ w hfr.1 hρ]
    cases eval n P ρ w l with
    | fail f w' => rfl
    | ok a w' =>
      simp only [hE σ r ρ w' hfr.2 hρ]
  | call ty f args =>
    rcases var_or_not f with ⟨x, fty, rfl⟩ | hn
    · simp only [FragE] at hfr
      exact sim_call F isLocal U Ext L n hL hF σ ty x fty args ρ w hfr.1 hfr.2.1 hfr.2.2 hρ
    · cases f <;> first
        | (exfalso; exact hn _ _ rfl)
        | (simp only [FragE] at hfr)
  | toDyn tr ft ty e => simp only [FragE] at hfr
  | dynCall tr m ty r args => simp only [FragE] at hfr
  | traitCall tr m ty r args => simp only [FragE] at hfr
  | proj i ty e =>
    simp only [FragE] at hfr
    simp only [monoE, eval, hE σ e ρ w hfr hρ]


theorem simL_step (n : Nat) (hE : SimE F isLocal U Ext P P' n) (hL : SimL F isLocal U Ext P P' n) :
    SimL F isLocal U Ext P P' (n + 1) := by
  intro σ es ρ w hfr hρ
  cases es with
  | nil => simp only [monoEs, evalList]
  | cons e es =>
    simp only [FragL] at hfr
    simp only [monoEs, evalList, hE σ e ρ w hfr.1 hρ]
    cases eval n P ρ w e with
    | fail f w' => rfl
    | ok v w' => simp only [hL σ es ρ w' hfr.2 hρ]

theorem simA_step (n : Nat) (hE : SimE F isLocal U Ext P P' n) (hA : SimA F isLocal U Ext P P' n) :
    SimA F isLocal U Ext P P' (n + 1) := by
  intro σ arms d ρ w v hfr hd hρ
  cases arms with
  | nil =>
    cases d with
    | none => simp only [monoAs, evalArms, Option.map]
    | some d' => simp only [monoAs, evalArms, Option.map]; exact hE σ d' ρ w (hd d' rfl) hρ
  | cons a rest =>
    obtain ⟨l, b⟩ := a
    simp only [FragA] at hfr
    simp only [monoAs, evalArms, armMatches_mono]
    split
    · exact hE σ b ρ w hfr.2.1 hρ
    · exact hA σ rest d ρ w v hfr.2.2 hd hρ

include L in
/-- the simulation, for every amount of fuel -/
theorem sim_all (n : Nat) : SimE F isLocal U Ext P P' n ∧ SimL F isLocal U Ext P P' n ∧
    SimA F isLocal U Ext P P' n ∧ SimF F U P P' n := by
  induction n with
  | zero =>
    refine ⟨?_, ?_, ?_, ?_⟩
    · intro σ e ρ w _ _; simp only [eval]
    · intro σ es ρ w _ _; simp only [evalList]
    · intro σ arms d ρ w v _ _ _; simp only [evalArms]
    · intro f σ w vs _ _ _; simp only [Sem.apply]
  | succ n ih =>
    obtain ⟨hE, hL, hA, hF⟩ := ih
    exact ⟨simE_step F isLocal U Ext L n hE hL hA hF, simL_step F isLocal U Ext n hE hL,
           simA_step F isLocal U Ext n hE hA, simF_step F isLocal U Ext L n hE⟩

end

end Goml.Mono

namespace Goml.Mono
open Goml Goml.Sem

/-! ### trait calls: static resolution after substitution = dispatch on the runtime value -/

/-- the type key `Sem` reads off a runtime value to dispatch a trait call -/
def valKey : Val → String
  | .unit => "unit" | .bool _ => "bool" | .str _ => "string"
  | .int b s _ => (if s then "int" else "uint") ++ toString b
  | .float b _ => "float" ++ toString b
  | .enumV t _ _ => t | .structV t _ => t
  | _ => "?"

/-- what `Sem` does at an `ETraitCall` once receiver and arguments are evaluated -/
theorem eval_traitCall (P : Prog) (n : Nat) (ρ : Env) (w w1 w2 : World) (tr m : String) (ty : Ty) (recv : Expr)
    (args : List Expr) (v : Val) (vs : List Val)
    (hr : eval n P ρ w recv = .ok v w1) (ha : evalList n P ρ w1 args = .ok vs w2) :
    eval (n + 1) P ρ w (.traitCall tr m ty recv args) =
      match P.impls.find? (fun i => i.1 == tr && i.2.1 == valKey v && i.2.2.1 == m) with
      | some i => Sem.apply n P w2 (.fn i.2.2.2) (v :: vs)
      | none => .fail (.stuck ("no impl of " ++ tr ++ " for " ++ valKey v)) w2 := by
  simp only [eval, hr, ha]
  cases v <;> rfl

/-- what `mono_expr` makes of an `ETraitCall`: a direct call of `trait_impl#Tr#Ty#m`, `Ty` being the
(substituted) type of the transformed receiver -/
theorem monoE_traitCall (F : List Fn) (σ : Subst) (tr m : String) (ty : Ty) (recv : Expr) (args : List Expr) :
    (monoE F σ (.traitCall tr m ty recv args)).1 =
      .call (substTy σ ty)
        (.var (traitImplFnName tr (getTy (monoE F σ recv).1) m)
          (.func (getTys ((monoE F σ recv).1 :: (monoEs F σ args).1)) (substTy σ ty)))
        ((monoE F σ recv).1 :: (monoEs F σ args).1) := by
  simp only [monoE]

end Goml.Mono
