import GomlVerif.Lemmas.MonoTy
/-! How `mono_expr` changes the instance table: only through `monoVar`, `resolveCall` and `fail` -/
namespace Goml.Mono
open Goml

/-- the `ECall` case when the callee is not a plain name -/
theorem monoExpr_call_nonvar (F : List Fn) (σ : Subst) (ty : Ty) (f : Expr) (args : List Expr) (c : Ctx)
    (h : ∀ x t, f ≠ .var x t) :
    monoExpr F σ (.call ty f args) c =
      resolveCall F (substTy σ ty) (monoExpr F σ f c).1 (monoList F σ args (monoExpr F σ f c).2).1
        (monoList F σ args (monoExpr F σ f c).2).2 := by
  cases f <;> first
    | (exfalso; exact h _ _ rfl)
    | simp only [monoExpr]

theorem monoExpr_call_var (F : List Fn) (σ : Subst) (ty : Ty) (x : String) (fty : Ty) (args : List Expr) (c : Ctx) :
    monoExpr F σ (.call ty (.var x fty) args) c =
      resolveCall F (substTy σ ty) (.var x (substTy σ fty)) (monoList F σ args c).1 (monoList F σ args c).2 := by
  simp only [monoExpr]

/-- `f` is a plain name, or it is not -/
theorem var_or_not (f : Expr) : (∃ x t, f = .var x t) ∨ ∀ x t, f ≠ .var x t := by
  cases f <;> first
    | exact Or.inl ⟨_, _, rfl⟩
    | (right; intro x t h; cases h)

section
variable (F : List Fn) (σ : Subst) (P : Ctx → Prop)
variable (hV : ∀ x ty c, P c → P (monoVar F σ x ty c).2)
variable (hR : ∀ nty f' args' c, P c → P (resolveCall F nty f' args' c).2)
variable (hF : ∀ (c : Ctx) m, P c → P (c.fail m))

include hV hR hF in
/-- every property of the context that `monoVar`, `resolveCall` and `fail` preserve is preserved by
the whole traversal -/
theorem monoExpr_state (e : Expr) : ∀ c, P c → P (monoExpr F σ e c).2 := by
  apply Expr.rec
    (motive_1 := fun e => ∀ c, P c → P (monoExpr F σ e c).2)
    (motive_2 := fun a => ∀ c, P c → P (monoArms F σ [a] c).2)
    (motive_3 := fun es => ∀ c, P c → P (monoList F σ es c).2)
    (motive_4 := fun arms => ∀ c, P c → P (monoArms F σ arms c).2)
    (motive_5 := fun o => ∀ c, P c → match o with
      | none => True
      | some d => P (monoExpr F σ d c).2)
  case var => intro x ty c h; simpa [monoExpr] using hV x ty c h
  case prim => intro p c h; simpa [monoExpr] using h
  case tag => intro i ty c h; simpa [monoExpr] using h
  case constr =>
    intro k ty args ih c h
    simp only [monoExpr]
    split
    · exact hF _ _ (ih c h)
    · exact ih c h
  case tuple => intro ty items ih c h; simpa [monoExpr] using ih c h
  case array => intro ty items ih c h; simpa [monoExpr] using ih c h
  case closure => intro ty ps b ih c h; simpa [monoExpr] using ih c h
  case letE => intro x v b ih1 ih2 c h; simpa [monoExpr] using ih2 _ (ih1 c h)
  case matchE =>
    intro ty s arms d ih1 ih2 ih3 c h
    cases d with
    | none => simpa [monoExpr] using ih2 _ (ih1 c h)
    | some d => simpa [monoExpr] using ih3 _ (ih2 _ (ih1 c h))
  case ite => intro cnd t e ih1 ih2 ih3 c h; simpa [monoExpr] using ih3 _ (ih2 _ (ih1 c h))
  case «while» => intro cnd b ih1 ih2 c h; simpa [monoExpr] using ih2 _ (ih1 c h)
  case go => intro e ih c h; simpa [monoExpr] using ih c h
  case cget =>
    intro k idx ty e ih c h
    simp only [monoExpr]
    split
    · exact hF _ _ (ih c h)
    · exact ih c h
  case un => intro op ty e ih c h; simpa [monoExpr] using ih c h
  case bin => intro op ty l r ih1 ih2 c h; simpa [monoExpr] using ih2 _ (ih1 c h)
  case call =>
    intro ty f args ih1 ih2 c h
    rcases var_or_not f with ⟨x, t, rfl⟩ | hn
    · rw [monoExpr_call_var]; exact hR _ _ _ _ (ih2 c h)
    · rw [monoExpr_call_nonvar F σ ty f args c hn]; exact hR _ _ _ _ (ih2 _ (ih1 c h))
  case toDyn => intro tr ft ty e ih c h; simpa [monoExpr] using ih c h
  case dynCall => intro tr m ty r args ih1 ih2 c h; simpa [monoExpr] using ih2 _ (ih1 c h)
  case traitCall => intro tr m ty r args ih1 ih2 c h; simpa [monoExpr] using ih2 _ (ih1 c h)
  case proj => intro i ty e ih c h; simpa [monoExpr] using ih c h
  case mk => intro l b ih1 ih2 c h; simpa [monoArms] using ih2 _ (ih1 c h)
  case nil => intro c h; simpa [monoList] using h
  case cons => intro e es ih1 ih2 c h; simpa [monoList] using ih2 _ (ih1 c h)
  case nil => intro c h; simpa [monoArms] using h
  case cons =>
    intro a arms ih1 ih2 c h
    obtain ⟨l, b⟩ := a
    have := ih1 c h
    simp only [monoArms] at this ⊢
    exact ih2 _ this
  case none => intro c h; trivial
  case some => intro d ih c h; exact ih c h

end

end Goml.Mono
