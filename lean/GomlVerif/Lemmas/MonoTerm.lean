import GomlVerif.Lemmas.MonoPure
/-! Termination of the work list under a finite instance universe -/
namespace Goml.Mono
open Goml

def reqsOf : List Eff → List (String × Subst)
  | [] => []
  | .req n s :: rest => (n, s) :: reqsOf rest
  | .fail _ :: rest => reqsOf rest

/-- the instances that transforming the body of `f` at `σ` asks for, in order -/
def requests (F : List Fn) (f : Fn) (σ : Subst) : List (String × Subst) := reqsOf (monoE F σ f.body).2

theorem nodup_length_le {α : Type} : ∀ (l S : List α), l.Nodup → (∀ a ∈ l, a ∈ S) → l.length ≤ S.length := by
  intro l
  induction l with
  | nil => intro S _ _; simp
  | cons a l ih =>
    intro S hn hs
    obtain ⟨s, t, rfl⟩ := List.append_of_mem (hs a List.mem_cons_self)
    have hn' := List.nodup_cons.1 hn
    have : l.length ≤ (s ++ t).length := by
      apply ih (s ++ t) hn'.2
      intro b hb
      have hb' := hs b (List.mem_cons_of_mem _ hb)
      simp only [List.mem_append, List.mem_cons] at hb' ⊢
      rcases hb' with h | h | h
      · exact Or.inl h
      · subst h; exact absurd hb hn'.1
      · exact Or.inr h
    simp at this ⊢
    omega

section
variable (F : List Fn) (U : String → Subst → Prop) (S : List (String × List (String × Ty)))
variable (hclosed : ∀ f ∈ F, ∀ σ, U f.name σ → ∀ r ∈ requests F f σ, U r.1 r.2)
variable (hfin : ∀ n σ, U n σ → (n, key σ) ∈ S)

/-- everything queued lies in the universe, every instance key in its finite bound -/
structure InU (c : Ctx) : Prop where
  work : ∀ w ∈ c.work, U w.name w.subst
  insts : ∀ i ∈ c.instances, instKey i ∈ S
  named : InstNamed c

include hfin in
theorem ensureInstance_inU {c : Ctx} (n : String) (s : Subst) (hu : U n s) (h : InU U S c) :
    InU U S (ensureInstance c n s).2 := by
  have hi : ∀ i ∈ c.instances ++ [Inst.mk n (key s) (specName n s)], instKey i ∈ S := by
    intro i hi
    simp only [List.mem_append, List.mem_singleton] at hi
    rcases hi with hi | hi
    · exact h.insts i hi
    · subst hi; exact hfin n s hu
  have hn := ensureInstance_named h.named n s
  rcases ensureInstance_cases c n s with e | e | e
  · rw [e]; exact h
  · rw [e] at hn ⊢; exact ⟨h.work, hi, hn⟩
  · rw [e] at hn ⊢
    refine ⟨?_, hi, hn⟩
    intro w hw
    simp only [List.mem_append, List.mem_singleton] at hw
    rcases hw with hw | hw
    · exact h.work w hw
    · subst hw; exact hu

theorem fail_inU {c : Ctx} (m : String) (h : InU U S c) : InU U S (c.fail m) := by
  have hn := fail_named h.named m
  unfold Ctx.fail at hn ⊢
  cases he : c.err with
  | some _ => simp only [he] at hn ⊢; exact h
  | none => simp only [he] at hn ⊢; exact ⟨h.work, h.insts, hn⟩

include hfin in
theorem applyEffs_inU {c : Ctx} (es : List Eff) (hu : ∀ r ∈ reqsOf es, U r.1 r.2) (h : InU U S c) :
    InU U S (applyEffs c es) := by
  induction es generalizing c with
  | nil => exact h
  | cons e es ih =>
    simp only [applyEffs, List.foldl_cons]
    cases e with
    | req n s =>
      apply ih (fun r hr => hu r (by simp [reqsOf, hr]))
      exact ensureInstance_inU U S hfin n s (hu (n, s) (by simp [reqsOf])) h
    | fail m =>
      apply ih (fun r hr => hu r (by simpa [reqsOf] using hr))
      exact fail_inU U S m h

include hclosed hfin in
theorem step_inU {c c' : Ctx} (h : InU U S c) (hs : step F c = some c') : InU U S c' := by
  unfold step at hs
  split at hs
  · simp at hs
  · rename_i w rest hw
    have h0 : InU U S { c with work := rest } :=
      ⟨fun w' hw' => h.work w' (by rw [hw]; exact List.mem_cons_of_mem _ hw'), h.insts, h.named⟩
    split at hs
    · simp only [Option.some.injEq] at hs
      subst hs
      exact fail_inU U S _ h0
    · rename_i f hf
      simp only [Option.some.injEq] at hs
      subst hs
      have hwu : U f.name w.subst := by
        rw [(findFn_mem hf).2]; exact h.work w (by rw [hw]; exact List.mem_cons_self)
      have hp := monoExpr_pure F w.subst f.body _ h0.named
      have h1 := applyEffs_inU U S hfin (monoE F w.subst f.body).2
        (hclosed f (findFn_mem hf).1 w.subst hwu) h0
      rw [hp]
      exact ⟨h1.work, h1.insts, h1.named⟩

include hclosed hfin in
/-- with `fuel` at least the number of instances of the universe still to be emitted, the loop ends -/
theorem loop_terminates : ∀ (fuel : Nat) (c : Ctx), LoopInv F c → InU U S c → S.length ≤ c.out.length + fuel →
    (loop F fuel c).isSome = true := by
  intro fuel
  induction fuel with
  | zero =>
    intro c hl hu hlen
    have h1 : c.instances.length ≤ S.length := by
      have := nodup_length_le (c.instances.map instKey) S hl.inv.nodup
        (by intro a ha; simp only [List.mem_map] at ha; obtain ⟨i, hi, rfl⟩ := ha; exact hu.insts i hi)
      simpa using this
    have h2 := congrArg List.length hl.inv.specs
    simp at h2
    have : c.work.length = 0 := by omega
    have : c.work = [] := List.eq_nil_of_length_eq_zero this
    simp [loop, this]
  | succ n ih =>
    intro c hl hu hlen
    simp only [loop]
    cases hs : step F c with
    | none => simp
    | some c1 =>
      simp only []
      apply ih c1 (step_inv hl hs) (step_inU F U S hclosed hfin hu hs)
      have : c1.out.length = c.out.length + 1 := by
        unfold step at hs
        split at hs
        · simp at hs
        · rename_i w rest hw
          split at hs
          · rename_i hn
            have := hl.known w (by rw [hw]; exact List.mem_cons_self)
            simp [hn] at this
          · simp only [Option.some.injEq] at hs
            subst hs
            simp [monoExpr_out]
      omega

end

theorem seed_inU (F : List Fn) (U : String → Subst → Prop) (S : List (String × List (String × Ty)))
    (hseed : ∀ f ∈ F, fnIsGeneric f = false → U f.name [])
    (hfin : ∀ n σ, U n σ → (n, key σ) ∈ S) : InU U S (seed F) := by
  unfold seed
  have gen : ∀ (l : List Fn) (c : Ctx), (∀ f ∈ l, U f.name []) → InU U S c →
      InU U S (l.foldl (fun c f => (ensureInstance c f.name []).2) c) := by
    intro l
    induction l with
    | nil => intro c _ h; exact h
    | cons f l ih =>
      intro c hl h
      simp only [List.foldl_cons]
      exact ih _ (fun g hg => hl g (List.mem_cons_of_mem _ hg))
        (ensureInstance_inU U S hfin _ _ (hl f List.mem_cons_self) h)
  apply gen
  · intro f hf
    have := List.mem_filter.1 hf
    exact hseed f this.1 (by simpa using this.2)
  · exact ⟨by intro w hw; simp at hw, by intro i hi; simp at hi, by intro i hi; simp at hi⟩

end Goml.Mono

namespace Goml.Mono
open Goml

/-! ### a decidable sufficient condition: an explicit finite list of instances closed under requests -/

def inL (L : List (String × Subst)) (r : String × Subst) : Bool := L.any fun p => p.1 == r.1 && entriesBeq p.2 r.2

theorem inL_iff (L : List (String × Subst)) (r : String × Subst) : inL L r = true ↔ r ∈ L := by
  simp only [inL, List.any_eq_true, Bool.and_eq_true, beq_iff_eq]
  constructor
  · rintro ⟨p, hp, h1, h2⟩
    have := (entriesBeq_iff _ _).1 h2
    obtain ⟨a, b⟩ := p; obtain ⟨c, d⟩ := r
    simp only at h1 this
    subst h1 this
    exact hp
  · intro h
    exact ⟨r, h, rfl, (entriesBeq_iff _ _).2 rfl⟩

def closedCheck (F : List Fn) (L : List (String × Subst)) : Bool :=
  L.all fun p => F.all fun f => !(f.name == p.1) || (requests F f p.2).all (inL L)

def seedCheck (F : List Fn) (L : List (String × Subst)) : Bool :=
  F.all fun f => fnIsGeneric f || inL L (f.name, [])

theorem closedCheck_sound {F : List Fn} {L : List (String × Subst)} (h : closedCheck F L = true) :
    ∀ f ∈ F, ∀ σ, (f.name, σ) ∈ L → ∀ r ∈ requests F f σ, r ∈ L := by
  intro f hf σ hσ r hr
  simp only [closedCheck, List.all_eq_true] at h
  have := h (f.name, σ) hσ f hf
  simp only [beq_self_eq_true, Bool.not_true, Bool.false_or, List.all_eq_true] at this
  exact (inL_iff L r).1 (this r hr)

theorem seedCheck_sound {F : List Fn} {L : List (String × Subst)} (h : seedCheck F L = true) :
    ∀ f ∈ F, fnIsGeneric f = false → (f.name, []) ∈ L := by
  intro f hf hg
  simp only [seedCheck, List.all_eq_true] at h
  have := h f hf
  simp only [hg, Bool.false_or] at this
  exact (inL_iff L _).1 this

end Goml.Mono
