import GomlVerif.Model.Mono
import GomlVerif.Model.Closed
/-! Lemmas about types, substitutions and `unify` of `Model/Mono.lean` (used by Props/C07, C03) -/
namespace Goml.Mono
open Goml

/-! ### `tyBeq` is equality -/

theorem tyBeq_iff : ∀ (a b : Ty), tyBeq a b = true ↔ a = b := by
  intro a
  apply Ty.rec
    (motive_1 := fun a => ∀ b, tyBeq a b = true ↔ a = b)
    (motive_2 := fun as => ∀ bs, tysBeq as bs = true ↔ as = bs)
  case unit => intro b; cases b <;> simp [tyBeq]
  case bool => intro b; cases b <;> simp [tyBeq]
  case string => intro b; cases b <;> simp [tyBeq]
  case int => intro n s b; cases b <;> simp [tyBeq]
  case float => intro n b; cases b <;> simp [tyBeq]
  case tuple => intro ts ih b; cases b <;> simp [tyBeq, ih]
  case enum => intro n b; cases b <;> simp [tyBeq]
  case struct => intro n b; cases b <;> simp [tyBeq]
  case dyn => intro n b; cases b <;> simp [tyBeq]
  case app => intro t ts ih1 ih2 b; cases b <;> simp [tyBeq, ih1, ih2]
  case array => intro n e ih b; cases b <;> simp [tyBeq, ih]
  case vec => intro e ih b; cases b <;> simp [tyBeq, ih]
  case ref => intro e ih b; cases b <;> simp [tyBeq, ih]
  case param => intro n b; cases b <;> simp [tyBeq]
  case func => intro ps r ih1 ih2 b; cases b <;> simp [tyBeq, ih1, ih2]
  case tvar => intro n b; cases b <;> simp [tyBeq]
  case nil => intro bs; cases bs <;> simp [tysBeq]
  case cons => intro t ts ih1 ih2 bs; cases bs <;> simp [tysBeq, ih1, ih2]

theorem tysBeq_iff (as bs : List Ty) : tysBeq as bs = true ↔ as = bs := by
  induction as generalizing bs with
  | nil => cases bs <;> simp [tysBeq]
  | cons a as ih => cases bs <;> simp [tysBeq, tyBeq_iff, ih]

theorem tyBeq_refl (a : Ty) : tyBeq a a = true := (tyBeq_iff a a).2 rfl


/-! ### `unify` is sound -/

/-- `σ'` agrees with `σ` wherever `σ` is defined -/
def Extends (σ σ' : Subst) : Prop := ∀ n v, lookup σ n = some v → lookup σ' n = some v

theorem Extends.refl (σ : Subst) : Extends σ σ := fun _ _ h => h
theorem Extends.trans {a b c : Subst} (h1 : Extends a b) (h2 : Extends b c) : Extends a c :=
  fun n v h => h2 n v (h1 n v h)

theorem lookup_append (σ : Subst) (n : String) (a : Ty) (m : String) :
    lookup (σ ++ [(n, a)]) m = match lookup σ m with
      | some v => some v
      | none => if n == m then some a else none := by
  induction σ with
  | nil => simp [lookup]
  | cons p rest ih =>
    obtain ⟨k, w⟩ := p
    simp only [List.cons_append, lookup]
    by_cases h : (k == m) = true
    · simp [h]
    · simp [h, ih]

theorem extends_append (σ : Subst) (n : String) (a : Ty) (_h : lookup σ n = none) :
    Extends σ (σ ++ [(n, a)]) := by
  intro m v hm
  rw [lookup_append, hm]

theorem unify_sound_aux (t : Ty) :
    ∀ a σ σ', unify t a σ = some σ' → Extends σ σ' ∧ ∀ σ'', Extends σ' σ'' → substTy σ'' t = a := by
  apply Ty.rec
    (motive_1 := fun t => ∀ a σ σ', unify t a σ = some σ' →
      Extends σ σ' ∧ ∀ σ'', Extends σ' σ'' → substTy σ'' t = a)
    (motive_2 := fun ts => ∀ as σ σ', unifyList ts as σ = some σ' →
      Extends σ σ' ∧ ∀ σ'', Extends σ' σ'' → ts.length = as.length → substTys σ'' ts = as)
  case unit => intro a σ σ' h; cases a <;> simp_all [unify, substTy, Extends.refl]
  case bool => intro a σ σ' h; cases a <;> simp_all [unify, substTy, Extends.refl]
  case string => intro a σ σ' h; cases a <;> simp_all [unify, substTy, Extends.refl]
  case int =>
    intro b s a σ σ' h
    cases a <;> simp [unify] at h
    obtain ⟨⟨h1, h2⟩, h3⟩ := h
    subst h1 h2 h3
    simp [substTy, Extends.refl]
  case float =>
    intro b a σ σ' h
    cases a <;> simp [unify] at h
    obtain ⟨h1, h3⟩ := h
    subst h1 h3
    simp [substTy, Extends.refl]
  case tuple =>
    intro ts ih a σ σ' h
    cases a <;> simp [unify] at h
    rename_i us
    obtain ⟨hl, h⟩ := h
    obtain ⟨e1, e2⟩ := ih us σ σ' h
    exact ⟨e1, fun σ'' hx => by simp [substTy, e2 σ'' hx hl]⟩
  case enum =>
    intro n a σ σ' h
    cases a <;> simp [unify] at h
    obtain ⟨h1, h3⟩ := h
    subst h1 h3
    simp [substTy, Extends.refl]
  case struct =>
    intro n a σ σ' h
    cases a <;> simp [unify] at h
    obtain ⟨h1, h3⟩ := h
    subst h1 h3
    simp [substTy, Extends.refl]
  case dyn =>
    intro n a σ σ' h
    cases a <;> simp [unify] at h
    obtain ⟨h1, h3⟩ := h
    subst h1 h3
    simp [substTy, Extends.refl]
  case app =>
    intro t ts ih1 ih2 a σ σ' h
    cases a <;> simp [unify] at h
    rename_i u us
    obtain ⟨hl, h⟩ := h
    cases h1 : unify t u σ with
    | none => simp [h1] at h
    | some σ1 =>
      simp [h1] at h
      obtain ⟨a1, a2⟩ := ih1 u σ σ1 h1
      obtain ⟨b1, b2⟩ := ih2 us σ1 σ' h
      refine ⟨a1.trans b1, fun σ'' hx => ?_⟩
      simp [substTy, a2 σ'' (b1.trans hx), b2 σ'' hx hl]
  case array =>
    intro n e ih a σ σ' h
    cases a <;> simp [unify] at h
    rename_i n' e'
    obtain ⟨hl, h⟩ := h
    obtain ⟨a1, a2⟩ := ih e' σ σ' h
    exact ⟨a1, fun σ'' hx => by simp [substTy, a2 σ'' hx, hl]⟩
  case vec =>
    intro e ih a σ σ' h
    cases a <;> simp [unify] at h
    rename_i e'
    obtain ⟨a1, a2⟩ := ih e' σ σ' h
    exact ⟨a1, fun σ'' hx => by simp [substTy, a2 σ'' hx]⟩
  case ref =>
    intro e ih a σ σ' h
    cases a <;> simp [unify] at h
    rename_i e'
    obtain ⟨a1, a2⟩ := ih e' σ σ' h
    exact ⟨a1, fun σ'' hx => by simp [substTy, a2 σ'' hx]⟩
  case param =>
    intro n a σ σ' h
    simp only [unify] at h
    cases hl : lookup σ n with
    | some prev =>
      simp only [hl] at h
      by_cases hb : tyBeq prev a = true
      · simp [hb] at h
        subst h
        refine ⟨Extends.refl _, fun σ'' hx => ?_⟩
        have := hx n prev hl
        simp [substTy, this, (tyBeq_iff prev a).1 hb]
      · simp [hb] at h
    | none =>
      simp only [hl] at h
      simp at h
      subst h
      refine ⟨extends_append σ n a hl, fun σ'' hx => ?_⟩
      have h1 : lookup (σ ++ [(n, a)]) n = some a := by rw [lookup_append, hl]; simp
      simp [substTy, hx n a h1]
  case func =>
    intro ps r ih1 ih2 a σ σ' h
    cases a <;> simp [unify] at h
    rename_i qs r'
    obtain ⟨hl, h⟩ := h
    cases h1 : unifyList ps qs σ with
    | none => simp [h1] at h
    | some σ1 =>
      simp [h1] at h
      obtain ⟨a1, a2⟩ := ih1 qs σ σ1 h1
      obtain ⟨b1, b2⟩ := ih2 r' σ1 σ' h
      refine ⟨a1.trans b1, fun σ'' hx => ?_⟩
      simp [substTy, a2 σ'' (b1.trans hx) hl, b2 σ'' hx]
  case tvar => intro n a σ σ' h; simp [unify] at h
  case nil =>
    intro as σ σ' h
    simp [unifyList] at h
    subst h
    refine ⟨Extends.refl _, fun σ'' _ hl => ?_⟩
    cases as <;> simp_all [substTys]
  case cons =>
    intro t ts ih1 ih2 as σ σ' h
    cases as with
    | nil =>
      simp [unifyList] at h
      subst h
      exact ⟨Extends.refl _, fun σ'' _ hl => by simp at hl⟩
    | cons a as =>
      simp only [unifyList] at h
      cases h1 : unify t a σ with
      | none => simp [h1] at h
      | some σ1 =>
        simp [h1] at h
        obtain ⟨a1, a2⟩ := ih1 a σ σ1 h1
        obtain ⟨b1, b2⟩ := ih2 as σ1 σ' h
        refine ⟨a1.trans b1, fun σ'' hx hl => ?_⟩
        simp at hl
        simp [substTys, a2 σ'' (b1.trans hx), b2 σ'' hx hl]

end Goml.Mono

namespace Goml.Mono
open Goml Goml.Closed

/-! ### substitution with a closed, covering substitution leaves no type parameter -/

mutual
/-- type parameters occurring in a type -/
def fvT : Ty → List String
  | .param n => [n]
  | .tuple ts => fvTs ts
  | .app t args => fvT t ++ fvTs args
  | .array _ e => fvT e
  | .vec e => fvT e
  | .ref e => fvT e
  | .func ps r => fvTs ps ++ fvT r
  | _ => []
def fvTs : List Ty → List String
  | [] => []
  | t :: ts => fvT t ++ fvTs ts
end

/-- every value of the substitution is free of type parameters -/
def ClosedSubst (σ : Subst) : Prop := ∀ n v, lookup σ n = some v → noParam v = true

def coversTy (σ : Subst) (t : Ty) : Bool := (fvT t).all fun x => (lookup σ x).isSome

theorem subst_closed_aux (σ : Subst) (hc : ClosedSubst σ) (t : Ty) :
    (∀ x ∈ fvT t, (lookup σ x).isSome = true) → noParam (substTy σ t) = true := by
  apply Ty.rec
    (motive_1 := fun t => (∀ x ∈ fvT t, (lookup σ x).isSome = true) → noParam (substTy σ t) = true)
    (motive_2 := fun ts => (∀ x ∈ fvTs ts, (lookup σ x).isSome = true) → noParams (substTys σ ts) = true)
  case param =>
    intro n h
    have := h n (by simp [fvT])
    cases hl : lookup σ n with
    | none => simp [hl] at this
    | some v => simp [substTy, hl, hc n v hl]
  case tuple => intro ts ih h; simpa [substTy, noParam] using ih (by simpa [fvT] using h)
  case app =>
    intro t ts ih1 ih2 h
    simp only [fvT, List.mem_append] at h
    simp [substTy, noParam, ih1 (fun x hx => h x (Or.inl hx)), ih2 (fun x hx => h x (Or.inr hx))]
  case array => intro n e ih h; simpa [substTy, noParam] using ih (by simpa [fvT] using h)
  case vec => intro e ih h; simpa [substTy, noParam] using ih (by simpa [fvT] using h)
  case ref => intro e ih h; simpa [substTy, noParam] using ih (by simpa [fvT] using h)
  case func =>
    intro ps r ih1 ih2 h
    simp only [fvT, List.mem_append] at h
    simp [substTy, noParam, ih1 (fun x hx => h x (Or.inl hx)), ih2 (fun x hx => h x (Or.inr hx))]
  case nil => intro _; simp [substTys, noParams]
  case cons =>
    intro t ts ih1 ih2 h
    simp only [fvTs, List.mem_append] at h
    simp [substTys, noParams, ih1 (fun x hx => h x (Or.inl hx)), ih2 (fun x hx => h x (Or.inr hx))]
  all_goals intros; simp [substTy, noParam]

theorem lookup_mem {σ : Subst} {n : String} {v : Ty} (h : lookup σ n = some v) : (n, v) ∈ σ := by
  induction σ with
  | nil => simp [lookup] at h
  | cons p rest ih =>
    obtain ⟨k, w⟩ := p
    simp only [lookup] at h
    by_cases hk : (k == n) = true
    · simp only [hk, if_true, Option.some.injEq] at h
      have : k = n := by simpa using hk
      subst h this
      exact List.mem_cons_self
    · simp only [hk] at h
      exact List.mem_cons_of_mem _ (ih h)

/-- the guard `call_subst.values().any(has_tparam)` of `mono_expr` -/
theorem closedSubst_of_any {cs : Subst} (h : (cs.any fun p => hasTParam p.2) = false) : ClosedSubst cs := by
  intro n v hl
  have hm := lookup_mem hl
  have := List.any_eq_false.1 h (n, v) hm
  simp [noParam_eq] at this ⊢
  exact this
where
  noParam_eq : ∀ t, noParam t = !hasTParam t := by
    intro t
    apply Ty.rec
      (motive_1 := fun t => noParam t = !hasTParam t)
      (motive_2 := fun ts => noParams ts = !hasTParams ts)
    all_goals intros
    all_goals simp_all [noParam, hasTParam, noParams, hasTParams, Bool.not_or]

theorem closedSubst_nil : ClosedSubst [] := by intro n v h; simp [lookup] at h

/-! ### `unify` binds every parameter of the template -/

theorem isSome_of_extends {σ σ' : Subst} (h : Extends σ σ') {x : String} (hx : (lookup σ x).isSome = true) :
    (lookup σ' x).isSome = true := by
  cases hl : lookup σ x with
  | none => simp [hl] at hx
  | some v => simp [h x v hl]

theorem unify_dom_aux (t : Ty) :
    ∀ a σ σ', unify t a σ = some σ' → ∀ x ∈ fvT t, (lookup σ' x).isSome = true := by
  apply Ty.rec
    (motive_1 := fun t => ∀ a σ σ', unify t a σ = some σ' → ∀ x ∈ fvT t, (lookup σ' x).isSome = true)
    (motive_2 := fun ts => ∀ as σ σ', unifyList ts as σ = some σ' → ts.length ≤ as.length →
      ∀ x ∈ fvTs ts, (lookup σ' x).isSome = true)
  case param =>
    intro n a σ σ' h x hx
    simp only [fvT, List.mem_singleton] at hx
    subst hx
    simp only [unify] at h
    cases hl : lookup σ x with
    | some prev =>
      simp only [hl] at h
      split at h
      · simp only [Option.some.injEq] at h; subst h; simp [hl]
      · simp at h
    | none =>
      simp only [hl, Option.some.injEq] at h
      subst h
      rw [lookup_append, hl]; simp
  case tuple =>
    intro ts ih a σ σ' h x hx
    cases a <;> simp [unify] at h
    rename_i us
    exact ih us σ σ' h.2 (by omega) x (by simpa [fvT] using hx)
  case app =>
    intro t ts ih1 ih2 a σ σ' h x hx
    cases a <;> simp [unify] at h
    rename_i u us
    obtain ⟨hl, h⟩ := h
    cases h1 : unify t u σ with
    | none => simp [h1] at h
    | some σ1 =>
      simp [h1] at h
      simp only [fvT, List.mem_append] at hx
      rcases hx with hx | hx
      · exact isSome_of_extends (unify_sound_list_ext ts us σ1 σ' h) (ih1 u σ σ1 h1 x hx)
      · exact ih2 us σ1 σ' h (by omega) x hx
  case array =>
    intro n e ih a σ σ' h x hx
    cases a <;> simp [unify] at h
    exact ih _ σ σ' h.2 x (by simpa [fvT] using hx)
  case vec =>
    intro e ih a σ σ' h x hx
    cases a <;> simp [unify] at h
    exact ih _ σ σ' h x (by simpa [fvT] using hx)
  case ref =>
    intro e ih a σ σ' h x hx
    cases a <;> simp [unify] at h
    exact ih _ σ σ' h x (by simpa [fvT] using hx)
  case func =>
    intro ps r ih1 ih2 a σ σ' h x hx
    cases a <;> simp [unify] at h
    rename_i qs r'
    obtain ⟨hl, h⟩ := h
    cases h1 : unifyList ps qs σ with
    | none => simp [h1] at h
    | some σ1 =>
      simp [h1] at h
      simp only [fvT, List.mem_append] at hx
      rcases hx with hx | hx
      · exact isSome_of_extends (unify_sound_aux r r' σ1 σ' h).1 (ih1 qs σ σ1 h1 (by omega) x hx)
      · exact ih2 r' σ1 σ' h x hx
  case nil => intro as σ σ' _ _ x hx; simp [fvTs] at hx
  case cons =>
    intro t ts ih1 ih2 as σ σ' h hl x hx
    cases as with
    | nil => simp at hl
    | cons a as =>
      simp only [unifyList] at h
      cases h1 : unify t a σ with
      | none => simp [h1] at h
      | some σ1 =>
        simp [h1] at h
        simp only [fvTs, List.mem_append] at hx
        simp at hl
        rcases hx with hx | hx
        · exact isSome_of_extends (unify_sound_list_ext ts as σ1 σ' h) (ih1 a σ σ1 h1 x hx)
        · exact ih2 as σ1 σ' h hl x hx
  all_goals intro
  all_goals intros
  all_goals simp_all [fvT]
where
  unify_sound_list_ext : ∀ (ts as : List Ty) (σ σ' : Subst), unifyList ts as σ = some σ' → Extends σ σ' := by
    intro ts
    induction ts with
    | nil => intro as σ σ' h; simp [unifyList] at h; subst h; exact Extends.refl _
    | cons t ts ih =>
      intro as σ σ' h
      cases as with
      | nil => simp [unifyList] at h; subst h; exact Extends.refl _
      | cons a as =>
        simp only [unifyList] at h
        cases h1 : unify t a σ with
        | none => simp [h1] at h
        | some σ1 =>
          simp [h1] at h
          exact (unify_sound_aux t a σ σ1 h1).1.trans (ih as σ1 σ' h)

end Goml.Mono
