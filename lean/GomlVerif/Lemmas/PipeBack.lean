import GomlVerif.Model.Pipeline
/-!
Pipeline composition, back half: erasing the annotations `annotA` puts on an ANF expression gives the
expression back (`annotFile_toFn`), so the annotated file `go_file` is given denotes, under `Sem`, the
ANF program the middle end produced.
-/
namespace Goml.Pipeline
open Goml Goml.GoCompile

theorem annotI_toExpr : ∀ (e : Expr) (i : Imm), annotI e = some i → i.toExpr = e := by
  intro e i h
  cases e <;> simp only [annotI, Option.some.injEq] at h <;> first | (subst h; rfl) | cases h

theorem annotIs_toExpr : ∀ (es : List Expr) (is : List Imm), annotIs es = some is → is.map Imm.toExpr = es
  | [], is, h => by simp only [annotIs, Option.some.injEq] at h; subst h; rfl
  | e :: es, is, h => by
    simp only [annotIs] at h
    cases h1 : annotI e with
    | none => simp [h1] at h
    | some i =>
      cases h2 : annotIs es with
      | none => simp [h1, h2] at h
      | some is' =>
        simp only [h1, h2, Option.some.injEq] at h
        subst h
        simp [annotI_toExpr e i h1, annotIs_toExpr es is' h2]

theorem asC_some {o : Option AExpr} {c : CExpr} (h : asC o = some c) : o = some (.ret c) := by
  cases o with
  | none => simp [asC] at h
  | some a => cases a <;> simp [asC] at h; subst h; rfl

mutual
theorem annotA_toExpr : ∀ (e : Expr) (a : AExpr), annotA e = some a → a.toExpr = e
  | .var x t, a, h => by simp only [annotA, Option.some.injEq] at h; subst h; rfl
  | .prim p, a, h => by simp only [annotA, Option.some.injEq] at h; subst h; rfl
  | .tag i t, a, h => by simp only [annotA, Option.some.injEq] at h; subst h; rfl
  | .constr c t args, a, h => by
    simp only [annotA, Option.map_eq_some_iff] at h
    obtain ⟨is, h1, rfl⟩ := h
    simp [AExpr.toExpr, CExpr.toExpr, annotIs_toExpr args is h1]
  | .tuple t items, a, h => by
    simp only [annotA, Option.map_eq_some_iff] at h
    obtain ⟨is, h1, rfl⟩ := h
    simp [AExpr.toExpr, CExpr.toExpr, annotIs_toExpr items is h1]
  | .array t items, a, h => by
    simp only [annotA, Option.map_eq_some_iff] at h
    obtain ⟨is, h1, rfl⟩ := h
    simp [AExpr.toExpr, CExpr.toExpr, annotIs_toExpr items is h1]
  | .closure _ _ _, a, h => by simp [annotA] at h
  | .letE x v b, a, h => by
    simp only [annotA] at h
    cases h1 : asC (annotA v) with
    | none => simp [h1] at h
    | some v' =>
      cases h2 : annotA b with
      | none => simp [h1, h2] at h
      | some b' =>
        simp only [h1, h2, Option.some.injEq] at h
        subst h
        have e1 := annotA_toExpr v _ (asC_some h1)
        have e2 := annotA_toExpr b b' h2
        simp only [AExpr.toExpr] at e1
        simp [AExpr.toExpr, e1, e2]
  | .matchE t s arms d, a, h => by
    simp only [annotA] at h
    cases h1 : annotI s with
    | none => simp [h1] at h
    | some s' =>
      cases h2 : annotArms arms with
      | none => simp [h1, h2] at h
      | some arms' =>
        cases h3 : annotD d with
        | none => simp [h1, h2, h3] at h
        | some d' =>
          simp only [h1, h2, h3, Option.some.injEq] at h
          subst h
          simp [AExpr.toExpr, CExpr.toExpr, annotI_toExpr s s' h1, annotArms_toExpr arms arms' h2, annotD_toExpr d d' h3]
  | .ite c t e, a, h => by
    simp only [annotA] at h
    cases h1 : annotI c with
    | none => simp [h1] at h
    | some c' =>
      cases h2 : annotA t with
      | none => simp [h1, h2] at h
      | some t' =>
        cases h3 : annotA e with
        | none => simp [h1, h2, h3] at h
        | some e' =>
          simp only [h1, h2, h3, Option.some.injEq] at h
          subst h
          simp [AExpr.toExpr, CExpr.toExpr, annotI_toExpr c c' h1, annotA_toExpr t t' h2, annotA_toExpr e e' h3]
  | .while c b, a, h => by
    simp only [annotA] at h
    cases h1 : annotA c with
    | none => simp [h1] at h
    | some c' =>
      cases h2 : annotA b with
      | none => simp [h1, h2] at h
      | some b' =>
        simp only [h1, h2, Option.some.injEq] at h
        subst h
        simp [AExpr.toExpr, CExpr.toExpr, annotA_toExpr c c' h1, annotA_toExpr b b' h2]
  | .go e, a, h => by
    simp only [annotA, Option.map_eq_some_iff] at h
    obtain ⟨i, h1, rfl⟩ := h
    simp [AExpr.toExpr, CExpr.toExpr, annotI_toExpr e i h1]
  | .cget c i t e, a, h => by
    simp only [annotA, Option.map_eq_some_iff] at h
    obtain ⟨e', h1, rfl⟩ := h
    simp [AExpr.toExpr, CExpr.toExpr, annotI_toExpr e e' h1]
  | .un op t e, a, h => by
    simp only [annotA, Option.map_eq_some_iff] at h
    obtain ⟨e', h1, rfl⟩ := h
    simp [AExpr.toExpr, CExpr.toExpr, annotI_toExpr e e' h1]
  | .bin op t l r, a, h => by
    simp only [annotA] at h
    cases h1 : annotI l with
    | none => simp [h1] at h
    | some l' =>
      cases h2 : annotI r with
      | none => simp [h1, h2] at h
      | some r' =>
        simp only [h1, h2, Option.some.injEq] at h
        subst h
        simp [AExpr.toExpr, CExpr.toExpr, annotI_toExpr l l' h1, annotI_toExpr r r' h2]
  | .call t f args, a, h => by
    simp only [annotA] at h
    cases h1 : annotI f with
    | none => simp [h1] at h
    | some f' =>
      cases h2 : annotIs args with
      | none => simp [h1, h2] at h
      | some is =>
        simp only [h1, h2, Option.some.injEq] at h
        subst h
        simp [AExpr.toExpr, CExpr.toExpr, annotI_toExpr f f' h1, annotIs_toExpr args is h2]
  | .toDyn tr ft t e, a, h => by
    simp only [annotA, Option.map_eq_some_iff] at h
    obtain ⟨e', h1, rfl⟩ := h
    simp [AExpr.toExpr, CExpr.toExpr, annotI_toExpr e e' h1]
  | .dynCall tr m t r args, a, h => by
    simp only [annotA] at h
    cases h1 : annotI r with
    | none => simp [h1] at h
    | some r' =>
      cases h2 : annotIs args with
      | none => simp [h1, h2] at h
      | some is =>
        simp only [h1, h2, Option.some.injEq] at h
        subst h
        simp [AExpr.toExpr, CExpr.toExpr, annotI_toExpr r r' h1, annotIs_toExpr args is h2]
  | .traitCall _ _ _ _ _, a, h => by simp [annotA] at h
  | .proj i t e, a, h => by
    simp only [annotA, Option.map_eq_some_iff] at h
    obtain ⟨e', h1, rfl⟩ := h
    simp [AExpr.toExpr, CExpr.toExpr, annotI_toExpr e e' h1]
theorem annotArms_toExpr : ∀ (arms : List Arm) (as : List AArm), annotArms arms = some as → armsToExpr as = arms
  | [], as, h => by simp only [annotArms, Option.some.injEq] at h; subst h; rfl
  | .mk lhs body :: rest, as, h => by
    simp only [annotArms] at h
    cases h1 : annotI lhs with
    | none => simp [h1] at h
    | some l =>
      cases h2 : annotA body with
      | none => simp [h1, h2] at h
      | some b =>
        cases h3 : annotArms rest with
        | none => simp [h1, h2, h3] at h
        | some r =>
          simp only [h1, h2, h3, Option.some.injEq] at h
          subst h
          simp [armsToExpr, annotI_toExpr lhs l h1, annotA_toExpr body b h2, annotArms_toExpr rest r h3]
theorem annotD_toExpr : ∀ (d : Option Expr) (d' : ADflt), annotD d = some d' → dfltToExpr d' = d
  | none, d', h => by simp only [annotD, Option.some.injEq] at h; subst h; rfl
  | some e, d', h => by
    simp only [annotD, Option.map_eq_some_iff] at h
    obtain ⟨a, h1, rfl⟩ := h
    simp [dfltToExpr, annotA_toExpr e a h1]
end

theorem annotFn_toFn (f : Fn) (a : AFn) (h : annotFn f = some a) : a.toFn = f := by
  unfold annotFn at h
  split at h
  · rename_i hg
    simp only [Option.map_eq_some_iff] at h
    obtain ⟨b, hb, rfl⟩ := h
    have := annotA_toExpr f.body b hb
    have hg' : f.generics = [] := by simpa using hg
    cases f
    simp_all [AFn.toFn]
  · cases h

theorem annotFile_toFn : ∀ (fns : List Fn) (file : AFile), annotFile fns = some file → file.map AFn.toFn = fns
  | [], file, h => by simp only [annotFile, Option.some.injEq] at h; subst h; rfl
  | f :: fs, file, h => by
    simp only [annotFile] at h
    cases h1 : annotFn f with
    | none => simp [h1] at h
    | some a =>
      cases h2 : annotFile fs with
      | none => simp [h1, h2] at h
      | some as =>
        simp only [h1, h2, Option.some.injEq] at h
        subst h
        simp [annotFn_toFn f a h1, annotFile_toFn fs as h2]

end Goml.Pipeline
