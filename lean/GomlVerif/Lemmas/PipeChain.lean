import GomlVerif.Model.Pipeline
import GomlVerif.Lemmas.PipeMonoSim
import GomlVerif.Props.C08
import GomlVerif.Props.C09
import GomlVerif.Props.Dce
import GomlVerif.Props.GoCompile
import GomlVerif.Lemmas.PipeBack
/-!
Pipeline composition: adapters between the shapes of the per-pass theorems.

* mono (`MonoSim.run_definite`): lock-step, same fuel, equality of `Sem.run` outcomes;
* lift (`Lift.lift_preserves_partial`): "status ok or panic" ⇒ ∃ fuel′ ∀ m ≥ fuel′, equality;
* anf (`C09.anf_run_preserves_partial`): `NF` ∧ `¬Stuck` of the `apply` result ⇒ ∃ m, equality.

All three are brought to the form `Definite (run fuel P) → ∃ m₀, ∀ m ≥ m₀, run m P' = run fuel P`
(`Reproduces`), which composes by transitivity.
-/
namespace Goml.Pipeline
open Goml Goml.Sem

/-- a run that ends normally or with a panic (neither out of fuel nor stuck) -/
def Definite (o : Outcome) : Prop := o.status = "ok" ∨ ∃ k, o.status = "panic:" ++ k

/-- every definite run of `main` in `P` is reproduced by `P'`, outcome for outcome (stdout, way of
    ending, extern events), for every sufficiently large fuel and under either `go` schedule -/
def Reproduces (P P' : Prog) : Prop :=
  ∀ (fuel : Nat) (eager : Bool), Definite (run fuel P "main" eager) →
    ∃ m0, ∀ m, m0 ≤ m → run m P' "main" eager = run fuel P "main" eager

theorem Reproduces.trans {P Q R : Prog} (h1 : Reproduces P Q) (h2 : Reproduces Q R) : Reproduces P R := by
  intro fuel eager hd
  obtain ⟨m1, hm1⟩ := h1 fuel eager hd
  have e1 := hm1 m1 (Nat.le_refl _)
  obtain ⟨m2, hm2⟩ := h2 m1 eager (by rw [e1]; exact hd)
  exact ⟨m2, fun m hm => by rw [hm2 m hm, e1]⟩

/-! ### definite runs are stable under more fuel -/

theorem good_nf {r : Res Val} (h : Lift.Good r) : NF r ∧ ¬Anf.Stuck r := by
  cases r with
  | ok v w => exact ⟨trivial, fun h => h⟩
  | fail f w =>
    cases f with
    | panic k => exact ⟨trivial, fun h => h⟩
    | fuel => exact h.elim
    | stuck s => exact h.elim

theorem definite_good {Q : Prog} {fuel : Nat} {entry : String} {eager : Bool}
    (h : Definite (run fuel Q entry eager)) : Lift.Good (apply fuel Q { eager := eager } (.fn entry) []) := by
  rw [Lift.run_eq] at h
  exact Lift.good_of_status h

/-- one definite run fixes the outcome for all larger fuel -/
theorem run_stable {Q : Prog} {fuel : Nat} {entry : String} {eager : Bool}
    (h : Definite (run fuel Q entry eager)) {m : Nat} (hm : fuel ≤ m) :
    run m Q entry eager = run fuel Q entry eager := by
  have hn := (good_nf (definite_good h)).1
  rw [Lift.run_eq, Lift.run_eq, apply_mono hm rfl hn]

/-! ### the three links -/

/-- mono, from the lock-step simulation of an accepted pair -/
theorem mono_link {c : MonoSim.Cx} (hok : MonoSim.monoOk c = true) : Reproduces c.P c.P' := by
  intro fuel eager hd
  have e := MonoSim.run_definite hok fuel eager hd
  refine ⟨fuel, fun m hm => ?_⟩
  rw [← e]
  exact run_stable (by rw [e]; exact hd) hm

/-- lift: `lift_preserves_partial` (C08) has this shape already -/
theorem lift_link (env : Lift.Env) (p : Prog) (h : Lift.DirectFlow env p = true) :
    Reproduces p (Lift.liftProg env p) :=
  fun fuel eager hd => Lift.lift_preserves_partial env p h fuel eager hd

/-- anf: `anf_run_preserves_partial` (C09) gives one fuel; stability gives all larger ones -/
theorem anf_link (P : Prog) (n : Nat) (h : C09.FileInAnfFragment P n) : Reproduces P (Anf.anfProg P n) := by
  intro fuel eager hd
  obtain ⟨hn, hs⟩ := good_nf (definite_good hd)
  obtain ⟨m, hm⟩ := C09.anf_run_preserves_partial P n h "main" eager fuel hn hs
  refine ⟨m, fun k hk => ?_⟩
  rw [← hm]
  exact run_stable (by rw [hm]; exact hd) hk

/-! ### what `stages` computes -/

theorem stages_spec {i : PipeIn} {s : Stages} (h : stages i = some s) :
    s.mono.fns = s.monoOut.fns ∧ s.mono.impls = i.prog.impls ∧
    s.lift = Lift.liftProg s.env s.mono ∧ s.anf = Anf.anfProg s.lift s.gensym ∧
    s.gensym = (Lift.liftFile s.env s.mono.fns).2.gensym ∧ s.env = liftEnv i s.monoOut ∧
    Mono.mono monoFuel tyFuel i.enums i.structs i.prog.fns = some s.monoOut ∧ s.monoOut.err = none ∧
    s.pairs = monoPairs i.prog.fns := by
  unfold stages at h
  split at h
  · cases h
  · rename_i o ho
    split at h
    · cases h
    · rename_i he
      simp only [Option.some.injEq] at h
      subst h
      exact ⟨rfl, rfl, rfl, rfl, rfl, rfl, ho, he, rfl⟩

theorem fragAnf_iff (s : Stages) : fragAnf s = Anf.allInFragment s.lift s.gensym := rfl

end Goml.Pipeline

/-! ### the back half: Go generation and dead-code elimination -/
namespace Goml.Pipeline
open Goml Goml.Sem Goml.Go

/-- **The hypothesis about `go/compile.rs`** (statement lowering ANF → Go AST; being modelled by
    another worker — NOT an axiom: it is a parameter of `end_to_end_partial`).  `compile` is the
    model of `go::compile::go_file` without its final `eliminate_dead_vars`; `A` the ANF program.
    Shape: the `Reproduces` of the middle-end links, with `Go.Sem` on the target side. -/
def CompileSim (compile : Prog → GFile) (A : Prog) : Prop :=
  ∀ (fuel : Nat) (eager : Bool), Definite (run fuel A "main" eager) →
    ∃ m, runGo m (compile A) "main" eager = run fuel A "main" eager

/-- **What a file-level lifting of `Dce.dce_preserves` would give** (not available, see
    `end_to_end_partial`): every definite run of the emitted file is reproduced by the file
    `eliminate_dead_vars` returns. -/
def DceFileSim (G : GFile) : Prop :=
  ∀ (fuel : Nat) (eager : Bool), Definite (runGo fuel G "main" eager) →
    ∃ m, runGo m (Dce.eliminateDeadVars G) "main" eager = runGo fuel G "main" eager

theorem back_half {P A : Prog} (hP : Reproduces P A) (compile : Prog → GFile)
    (hcompile : CompileSim compile A) (hdce : DceFileSim (compile A))
    (fuel : Nat) (eager : Bool) (hdef : Definite (run fuel P "main" eager)) :
    (∃ m, runGo m (compile A) "main" eager = run fuel P "main" eager) ∧
    (∃ m, runGo m (Dce.eliminateDeadVars (compile A)) "main" eager = run fuel P "main" eager) := by
  obtain ⟨m0, hm0⟩ := hP fuel eager hdef
  have e0 := hm0 m0 (Nat.le_refl _)
  obtain ⟨m1, hm1⟩ := hcompile m0 eager (by rw [e0]; exact hdef)
  have e1 : runGo m1 (compile A) "main" eager = run fuel P "main" eager := by rw [hm1, e0]
  refine ⟨⟨m1, e1⟩, ?_⟩
  obtain ⟨m2, hm2⟩ := hdce m1 eager (by rw [e1]; exact hdef)
  exact ⟨m2, by rw [hm2, e1]⟩

end Goml.Pipeline

/-! ### the back end link (`GoCompileProps.compile_preserves_run`, worker gocomp) -/
namespace Goml.Pipeline
open Goml Goml.Sem Goml.Go

theorem backStages_spec {i : E2EIn} {b : BackStages} (h : backStages i = some b) :
    stages i.pipe = some b.mid ∧ annotFile b.mid.anf.fns = some b.afile ∧
    b.gensym = (Anf.anfFns b.mid.lift.fns b.mid.gensym).2 ∧
    b.pre = (GoCompile.goFilePreSt i.goenv b.afile b.gensym).1 ∧
    b.ok = (GoCompile.goFilePreSt i.goenv b.afile b.gensym).2.ok ∧
    b.emitted = Dce.eliminateDeadVars b.pre := by
  unfold backStages at h
  split at h
  · cases h
  · rename_i s hs
    split at h
    · cases h
    · rename_i file hf
      simp only [Option.some.injEq] at h
      subst h
      exact ⟨hs, hf, rfl, rfl, rfl, rfl⟩

/-- `compile_preserves_run` instantiated at the composite's own ANF program: `CompileSim` holds
    for the ANF program of every input whose back half lies in `fragGo` -/
theorem compileSim_of_fragGo {i : E2EIn} {b : BackStages} (h : backStages i = some b) (hf : fragGo i b = true) :
    CompileSim (fun _ => b.pre) b.mid.anf := by
  obtain ⟨_, hann, _, hpre, _, _⟩ := backStages_spec h
  unfold fragGo at hf
  simp only [Bool.and_eq_true, Bool.or_eq_true, List.any_eq_true, beq_iff_eq, List.isEmpty_iff] at hf
  obtain ⟨hfr, f, hfmem, hname, hps⟩ := hf
  intro fuel eager hdef
  rw [hpre]
  rcases hfr with hp | hd
  · unfold fragGoPlain at hp
    simp only [Bool.and_eq_true, List.contains_iff_mem] at hp
    exact GoCompileProps.compile_preserves_run i.goenv b.afile b.gensym _ hp.1 f hfmem hname hps hp.2
      b.mid.anf (annotFile_toFn _ _ hann).symm fuel eager hdef
  · unfold fragGoDyn at hd
    simp only [Bool.and_eq_true, List.contains_iff_mem] at hd
    exact GoCompileProps.compile_preserves_run_dyn i.goenv b.afile b.gensym _ hd.1.1 f hfmem hname hps hd.1.2
      b.mid.anf (annotFile_toFn _ _ hann).symm hd.2 fuel eager hdef

/-- `DceFileSim` is now a theorem for every file inside the DCE contract (`Dce.dce_file_preserves`) -/
theorem dceFileSim_of_ok (G : GFile) (hok : Dce.fileDceOK G = true) : DceFileSim G :=
  fun fuel eager hdef => Dce.dce_file_preserves G hok fuel eager 0 hdef

end Goml.Pipeline
