import GomlVerif.Model.Pipeline
/-! REAL Core dumps (input of `mono::mono`) and `genv` type definitions of the witness programs under
    corpus/C01pipe, converted by tools/c01pipe_examples.py -/
namespace Goml.Pipeline.Examples
open Goml

/-- corpus/C01pipe/closure-generic-match.gom: Core after match compilation -/
def core1 : Prog := { impls := [], fns := [
  { name := "pick", generics := [], params := [("c/0", .bool), ("a/1", (.param "T")), ("b/2", (.param "T"))], ret := (.param "T"),
    body := (.ite (.var "c/0" .bool) (.var "a/1" (.param "T")) (.var "b/2" (.param "T"))) },
  { name := "unwrap_or", generics := [], params := [("o/3", (.app (.enum "Opt") [(.int 32 true)])), ("d/4", (.int 32 true))], ret := (.int 32 true),
    body := (.matchE (.int 32 true) (.var "o/3" (.app (.enum "Opt") [(.int 32 true)])) [.mk (.constr (.enum "Opt" "Non" 0) (.app (.enum "Opt") [(.int 32 true)]) []) (.var "d/4" (.int 32 true)), .mk (.constr (.enum "Opt" "Som" 1) (.app (.enum "Opt") [(.int 32 true)]) [(.var "x0" (.int 32 true))]) (.letE "x0" (.cget (.enum "Opt" "Som" 1) 0 (.int 32 true) (.var "o/3" (.app (.enum "Opt") [(.int 32 true)])))
    (.letE "v/5" (.var "x0" (.int 32 true))
    (.var "v/5" (.int 32 true))))] none) },
  { name := "main", generics := [], params := [], ret := .unit,
    body := (.letE "k/6" (.prim (.int 32 true (10)))
    (.letE "add/8" (.closure (.func [(.int 32 true)] (.int 32 true)) [("x/7", (.int 32 true))]
    (.bin .add (.int 32 true) (.var "x/7" (.int 32 true)) (.var "k/6" (.int 32 true))))
    (.letE "o/9" (.constr (.enum "Opt" "Som" 1) (.app (.enum "Opt") [(.int 32 true)]) [(.call (.int 32 true) (.var "pick" (.func [.bool, (.int 32 true), (.int 32 true)] (.int 32 true))) [(.prim (.bool true)), (.prim (.int 32 true (5))), (.prim (.int 32 true (6)))])])
    (.letE "r/10" (.call (.int 32 true) (.var "add/8" (.func [(.int 32 true)] (.int 32 true))) [(.call (.int 32 true) (.var "unwrap_or" (.func [(.app (.enum "Opt") [(.int 32 true)]), (.int 32 true)] (.int 32 true))) [(.var "o/9" (.app (.enum "Opt") [(.int 32 true)])), (.prim (.int 32 true (0)))])])
    (.letE "mtmp1" (.call .unit (.var "string_println" (.func [.string] .unit)) [(.call .string (.var "int32_to_string" (.func [(.int 32 true)] .string)) [(.var "r/10" (.int 32 true))])])
    (.letE "mtmp2" (.call .unit (.var "string_println" (.func [.string] .unit)) [(.call .string (.var "pick" (.func [.bool, .string, .string] .string)) [(.prim (.bool false)), (.prim (.str "a")), (.prim (.str "b"))])])
    (.prim .unit))))))) }] }
def ex1 : PipeIn :=
  { gensym := 3, enums := [{ name := "Opt", generics := ["T"], variants := [("Non", []), ("Som", [(.param "T")])] }], structs := [], prog := core1 }
def goenv1 : GoCompile.Env :=
  { structs := [{ name := "closure_env_add_0", generics := [], fields := [("k_0", (.int 32 true))] }], structsLookup := [{ name := "closure_env_add_0", generics := [], fields := [("k_0", (.int 32 true))] }], enums := [{ name := "Opt__int32", generics := [], variants := [("Non", []), ("Som", [(.int 32 true)])] }], traits := [], externFns := [], externTys := [], applyTys := [("closure_env_add_0", some (.func [(.struct "closure_env_add_0"), (.int 32 true)] (.int 32 true)))] }
def e2e1 : E2EIn := { pipe := ex1, goenv := goenv1 }

/-- corpus/C01pipe/closure-ref-loop-panic.gom: Core after match compilation -/
def core2 : Prog := { impls := [], fns := [
  { name := "main", generics := [], params := [], ret := .unit,
    body := (.letE "r/0" (.call (.ref (.int 32 true)) (.var "ref" (.func [(.int 32 true)] (.ref (.int 32 true)))) [(.prim (.int 32 true (0)))])
    (.letE "bump/2" (.closure (.func [(.int 32 true)] .unit) [("d/1", (.int 32 true))]
    (.call .unit (.var "ref_set" (.func [(.ref (.int 32 true)), (.int 32 true)] .unit)) [(.var "r/0" (.ref (.int 32 true))), (.bin .add (.int 32 true) (.call (.int 32 true) (.var "ref_get" (.func [(.ref (.int 32 true))] (.int 32 true))) [(.var "r/0" (.ref (.int 32 true)))]) (.var "d/1" (.int 32 true)))]))
    (.letE "i/3" (.call (.ref (.int 32 true)) (.var "ref" (.func [(.int 32 true)] (.ref (.int 32 true)))) [(.prim (.int 32 true (0)))])
    (.letE "mtmp1" (.while (.bin .less .bool (.call (.int 32 true) (.var "ref_get" (.func [(.ref (.int 32 true))] (.int 32 true))) [(.var "i/3" (.ref (.int 32 true)))]) (.prim (.int 32 true (3)))) (.letE "mtmp0" (.call .unit (.var "bump/2" (.func [(.int 32 true)] .unit)) [(.call (.int 32 true) (.var "ref_get" (.func [(.ref (.int 32 true))] (.int 32 true))) [(.var "i/3" (.ref (.int 32 true)))])])
    (.call .unit (.var "ref_set" (.func [(.ref (.int 32 true)), (.int 32 true)] .unit)) [(.var "i/3" (.ref (.int 32 true))), (.bin .add (.int 32 true) (.call (.int 32 true) (.var "ref_get" (.func [(.ref (.int 32 true))] (.int 32 true))) [(.var "i/3" (.ref (.int 32 true)))]) (.prim (.int 32 true (1))))])))
    (.letE "a/4" (.constr (.struct "Acc") (.struct "Acc") [(.call (.int 32 true) (.var "ref_get" (.func [(.ref (.int 32 true))] (.int 32 true))) [(.var "r/0" (.ref (.int 32 true)))]), (.prim (.int 32 true (3)))])
    (.letE "mtmp2" (.call .unit (.var "string_println" (.func [.string] .unit)) [(.call .string (.var "int32_to_string" (.func [(.int 32 true)] .string)) [(.cget (.struct "Acc") 0 (.int 32 true) (.var "a/4" (.struct "Acc")))])])
    (.letE "z/5" (.bin .sub (.int 32 true) (.cget (.struct "Acc") 0 (.int 32 true) (.var "a/4" (.struct "Acc"))) (.prim (.int 32 true (3))))
    (.letE "mtmp3" (.call .unit (.var "string_println" (.func [.string] .unit)) [(.call .string (.var "int32_to_string" (.func [(.int 32 true)] .string)) [(.bin .div (.int 32 true) (.cget (.struct "Acc") 1 (.int 32 true) (.var "a/4" (.struct "Acc"))) (.var "z/5" (.int 32 true)))])])
    (.prim .unit))))))))) }] }
def ex2 : PipeIn :=
  { gensym := 4, enums := [], structs := [{ name := "Acc", generics := [], fields := [("total", (.int 32 true)), ("n", (.int 32 true))] }], prog := core2 }
def goenv2 : GoCompile.Env :=
  { structs := [{ name := "Acc", generics := [], fields := [("total", (.int 32 true)), ("n", (.int 32 true))] }, { name := "closure_env_bump_0", generics := [], fields := [("r_0", (.ref (.int 32 true)))] }], structsLookup := [{ name := "closure_env_bump_0", generics := [], fields := [("r_0", (.ref (.int 32 true)))] }, { name := "Acc", generics := [], fields := [("total", (.int 32 true)), ("n", (.int 32 true))] }], enums := [], traits := [], externFns := [], externTys := [], applyTys := [("closure_env_bump_0", some (.func [(.struct "closure_env_bump_0"), (.int 32 true)] .unit))] }
def e2e2 : E2EIn := { pipe := ex2, goenv := goenv2 }

/-- corpus/C01pipe/generic-struct-closure-tuple.gom: Core after match compilation -/
def core3 : Prog := { impls := [], fns := [
  { name := "swap", generics := [], params := [("p/0", (.app (.struct "Pair") [(.param "A"), (.param "B")]))], ret := (.app (.struct "Pair") [(.param "B"), (.param "A")]),
    body := (.constr (.struct "Pair") (.app (.struct "Pair") [(.param "B"), (.param "A")]) [(.cget (.struct "Pair") 1 (.param "B") (.var "p/0" (.app (.struct "Pair") [(.param "A"), (.param "B")]))), (.cget (.struct "Pair") 0 (.param "A") (.var "p/0" (.app (.struct "Pair") [(.param "A"), (.param "B")])))]) },
  { name := "area", generics := [], params := [("s/1", (.enum "Shape"))], ret := (.int 32 true),
    body := (.matchE (.int 32 true) (.var "s/1" (.enum "Shape")) [.mk (.constr (.enum "Shape" "Dot" 0) (.enum "Shape") []) (.prim (.int 32 true (0))), .mk (.constr (.enum "Shape" "Box" 1) (.enum "Shape") [(.var "x0" (.int 32 true)), (.var "x1" (.int 32 true))]) (.letE "x0" (.cget (.enum "Shape" "Box" 1) 0 (.int 32 true) (.var "s/1" (.enum "Shape")))
    (.letE "x1" (.cget (.enum "Shape" "Box" 1) 1 (.int 32 true) (.var "s/1" (.enum "Shape")))
    (.letE "h/3" (.var "x1" (.int 32 true))
    (.letE "w/2" (.var "x0" (.int 32 true))
    (.bin .mul (.int 32 true) (.var "w/2" (.int 32 true)) (.var "h/3" (.int 32 true)))))))] none) },
  { name := "main", generics := [], params := [], ret := .unit,
    body := (.letE "p/4" (.constr (.struct "Pair") (.app (.struct "Pair") [(.enum "Shape"), .string]) [(.constr (.enum "Shape" "Box" 1) (.enum "Shape") [(.prim (.int 32 true (2))), (.prim (.int 32 true (3)))]), (.prim (.str "box"))])
    (.letE "q/5" (.call (.app (.struct "Pair") [.string, (.enum "Shape")]) (.var "swap" (.func [(.app (.struct "Pair") [(.enum "Shape"), .string])] (.app (.struct "Pair") [.string, (.enum "Shape")]))) [(.var "p/4" (.app (.struct "Pair") [(.enum "Shape"), .string]))])
    (.letE "scale/6" (.prim (.int 32 true (7)))
    (.letE "f/8" (.closure (.func [(.enum "Shape")] (.int 32 true)) [("s/7", (.enum "Shape"))]
    (.bin .mul (.int 32 true) (.call (.int 32 true) (.var "area" (.func [(.enum "Shape")] (.int 32 true))) [(.var "s/7" (.enum "Shape"))]) (.var "scale/6" (.int 32 true))))
    (.letE "mtmp2" (.tuple (.tuple [(.func [(.enum "Shape")] (.int 32 true)), (.int 32 true)]) [(.var "f/8" (.func [(.enum "Shape")] (.int 32 true))), (.prim (.int 32 true (1)))])
    (.letE "x3" (.proj 0 (.func [(.enum "Shape")] (.int 32 true)) (.var "mtmp2" (.tuple [(.func [(.enum "Shape")] (.int 32 true)), (.int 32 true)])))
    (.letE "x4" (.proj 1 (.int 32 true) (.var "mtmp2" (.tuple [(.func [(.enum "Shape")] (.int 32 true)), (.int 32 true)])))
    (.letE "n/10" (.var "x4" (.int 32 true))
    (.letE "g/9" (.var "x3" (.func [(.enum "Shape")] (.int 32 true)))
    (.letE "mtmp5" (.call .unit (.var "string_println" (.func [.string] .unit)) [(.bin .add .string (.cget (.struct "Pair") 0 .string (.var "q/5" (.app (.struct "Pair") [.string, (.enum "Shape")]))) (.call .string (.var "int32_to_string" (.func [(.int 32 true)] .string)) [(.bin .add (.int 32 true) (.call (.int 32 true) (.var "g/9" (.func [(.enum "Shape")] (.int 32 true))) [(.cget (.struct "Pair") 1 (.enum "Shape") (.var "q/5" (.app (.struct "Pair") [.string, (.enum "Shape")])))]) (.var "n/10" (.int 32 true)))]))])
    (.prim .unit))))))))))) }] }
def ex3 : PipeIn :=
  { gensym := 6, enums := [{ name := "Shape", generics := [], variants := [("Dot", []), ("Box", [(.int 32 true), (.int 32 true)])] }], structs := [{ name := "Pair", generics := ["A", "B"], fields := [("fst", (.param "A")), ("snd", (.param "B"))] }], prog := core3 }
def goenv3 : GoCompile.Env :=
  { structs := [{ name := "Pair__Shape__string", generics := [], fields := [("fst", (.enum "Shape")), ("snd", .string)] }, { name := "Pair__string__Shape", generics := [], fields := [("fst", .string), ("snd", (.enum "Shape"))] }, { name := "closure_env_f_0", generics := [], fields := [("scale_0", (.int 32 true))] }], structsLookup := [{ name := "closure_env_f_0", generics := [], fields := [("scale_0", (.int 32 true))] }, { name := "Pair__Shape__string", generics := [], fields := [("fst", (.enum "Shape")), ("snd", .string)] }, { name := "Pair__string__Shape", generics := [], fields := [("fst", .string), ("snd", (.enum "Shape"))] }, { name := "Pair", generics := ["A", "B"], fields := [("fst", (.param "A")), ("snd", (.param "B"))] }], enums := [{ name := "Shape", generics := [], variants := [("Dot", []), ("Box", [(.int 32 true), (.int 32 true)])] }], traits := [], externFns := [], externTys := [], applyTys := [("closure_env_f_0", some (.func [(.struct "closure_env_f_0"), (.enum "Shape")] (.int 32 true)))] }
def e2e3 : E2EIn := { pipe := ex3, goenv := goenv3 }

/-- corpus/C01pipe/e2e-closure-generic-struct-panic.gom: Core after match compilation -/
def core4 : Prog := { impls := [], fns := [
  { name := "pick", generics := [], params := [("c/0", .bool), ("a/1", (.param "T")), ("b/2", (.param "T"))], ret := (.param "T"),
    body := (.ite (.var "c/0" .bool) (.var "a/1" (.param "T")) (.var "b/2" (.param "T"))) },
  { name := "main", generics := [], params := [], ret := .unit,
    body := (.letE "k/3" (.call (.int 32 true) (.var "pick" (.func [.bool, (.int 32 true), (.int 32 true)] (.int 32 true))) [(.prim (.bool true)), (.prim (.int 32 true (10))), (.prim (.int 32 true (20)))])
    (.letE "add/5" (.closure (.func [(.int 32 true)] (.int 32 true)) [("x/4", (.int 32 true))]
    (.bin .add (.int 32 true) (.var "x/4" (.int 32 true)) (.var "k/3" (.int 32 true))))
    (.letE "a/6" (.constr (.struct "Acc") (.struct "Acc") [(.call (.int 32 true) (.var "add/5" (.func [(.int 32 true)] (.int 32 true))) [(.prim (.int 32 true (5)))]), (.prim (.int 32 true (3)))])
    (.letE "mtmp0" (.call .unit (.var "string_println" (.func [.string] .unit)) [(.bin .add .string (.call .string (.var "pick" (.func [.bool, .string, .string] .string)) [(.prim (.bool false)), (.prim (.str "a")), (.prim (.str "b"))]) (.call .string (.var "int32_to_string" (.func [(.int 32 true)] .string)) [(.cget (.struct "Acc") 0 (.int 32 true) (.var "a/6" (.struct "Acc")))]))])
    (.letE "z/7" (.bin .sub (.int 32 true) (.cget (.struct "Acc") 1 (.int 32 true) (.var "a/6" (.struct "Acc"))) (.prim (.int 32 true (3))))
    (.letE "mtmp1" (.call .unit (.var "string_println" (.func [.string] .unit)) [(.call .string (.var "int32_to_string" (.func [(.int 32 true)] .string)) [(.bin .div (.int 32 true) (.cget (.struct "Acc") 0 (.int 32 true) (.var "a/6" (.struct "Acc"))) (.var "z/7" (.int 32 true)))])])
    (.prim .unit))))))) }] }
def ex4 : PipeIn :=
  { gensym := 2, enums := [], structs := [{ name := "Acc", generics := [], fields := [("total", (.int 32 true)), ("n", (.int 32 true))] }], prog := core4 }
def goenv4 : GoCompile.Env :=
  { structs := [{ name := "Acc", generics := [], fields := [("total", (.int 32 true)), ("n", (.int 32 true))] }, { name := "closure_env_add_0", generics := [], fields := [("k_0", (.int 32 true))] }], structsLookup := [{ name := "closure_env_add_0", generics := [], fields := [("k_0", (.int 32 true))] }, { name := "Acc", generics := [], fields := [("total", (.int 32 true)), ("n", (.int 32 true))] }], enums := [], traits := [], externFns := [], externTys := [], applyTys := [("closure_env_add_0", some (.func [(.struct "closure_env_add_0"), (.int 32 true)] (.int 32 true)))] }
def e2e4 : E2EIn := { pipe := ex4, goenv := goenv4 }

end Goml.Pipeline.Examples
