import GomlVerif.Model.MonoSim
import GomlVerif.Lemmas.LiftSemUnfold
/-!
Pipeline composition, mono link: the simulation relation between a Core program `c.P` and its
monomorphised form `c.P'` under `Sem`, for pairs accepted by `MonoSim.monoOk`.

Values correspond up to (i) the type names carried by enum / struct values (phase 2 of `mono`
renames generic instances), (ii) the names of top-level functions (`fn f` ~ `fn f__T_int32`, any
instance of `f`), (iii) closure bodies (`eOk`).  References are the same store locations.
The simulation is lock-step: both sides use the same fuel.
-/
namespace Goml.MonoSim
open Goml Goml.Sem

section
variable (c : Cx)

mutual
inductive VRel : Val → Val → Prop
  | unit : VRel .unit .unit
  | bool (b : Bool) : VRel (.bool b) (.bool b)
  | int (b : Nat) (s : Bool) (v : Int) : VRel (.int b s v) (.int b s v)
  | float (b : Nat) (x : Float) : VRel (.float b x) (.float b x)
  | str (s : String) : VRel (.str s) (.str s)
  | tuple {vs vs' : List Val} : VRelList vs vs' → VRel (.tuple vs) (.tuple vs')
  | enumV {t t' : String} {i : Nat} {vs vs' : List Val} : VRelList vs vs' → VRel (.enumV t i vs) (.enumV t' i vs')
  | structV {n n' : String} {vs vs' : List Val} : structOk c n n' = true → VRelList vs vs' →
      VRel (.structV n vs) (.structV n' vs')
  | array {vs vs' : List Val} : VRelList vs vs' → VRel (.array vs) (.array vs')
  | vec {vs vs' : List Val} : VRelList vs vs' → VRel (.vec vs) (.vec vs')
  | ref (l : Nat) : VRel (.ref l) (.ref l)
  | fn {x x' : String} : fnOk c x x' = true → VRel (.fn x) (.fn x')
  | dyn {tr key : String} {v v' : Val} : dynOk c key = true → VRel v v' → VRel (.dyn tr key v) (.dyn tr key v')
  | closure {ps : List String} {body body' : Expr} {ρ ρ' : Sem.Env} :
      eOk c body body' = true → (∀ p, p ∈ ps → noGlobal c p = true) → EnvRel ρ ρ' →
      VRel (.closure ps body ρ) (.closure ps body' ρ')
inductive VRelList : List Val → List Val → Prop
  | nil : VRelList [] []
  | cons {v v' : Val} {vs vs' : List Val} : VRel v v' → VRelList vs vs' → VRelList (v :: vs) (v' :: vs')
/-- same names in the same order, none of them spelled like a function, related values -/
inductive EnvRel : Sem.Env → Sem.Env → Prop
  | nil : EnvRel [] []
  | cons {x : String} {v v' : Val} {ρ ρ' : Sem.Env} : noGlobal c x = true → VRel v v' → EnvRel ρ ρ' →
      EnvRel ((x, v) :: ρ) ((x, v') :: ρ')
end

structure WRel (w w' : World) : Prop where
  out : w.out = w'.out
  store : VRelList c w.store.toList w'.store.toList
  spawned : VRelList c w.spawned w'.spawned
  externs : w.externs = w'.externs
  eager : w.eager = w'.eager

/-- failures correspond: the same panic, fuel exhaustion on both sides, or stuck on both sides
    (the message of a stuck run may mention a type name that `mono` renamed) -/
def FRel : Fail → Fail → Prop
  | .panic a, .panic b => a = b
  | .fuel, .fuel => True
  | .stuck _, .stuck _ => True
  | _, _ => False

def RRel {α : Type} (R : α → α → Prop) : Res α → Res α → Prop
  | .ok v w, .ok v' w' => R v v' ∧ WRel c w w'
  | .fail f w, .fail f' w' => FRel f f' ∧ WRel c w w'
  | _, _ => False

end

section
variable {c : Cx}

theorem FRel.refl (f : Fail) : FRel f f := by cases f <;> simp [FRel]

theorem RRel.ok {α : Type} {R : α → α → Prop} {v v' : α} {w w' : World} (hv : R v v') (hw : WRel c w w') :
    RRel c R (.ok v w) (.ok v' w') := ⟨hv, hw⟩

theorem RRel.fail_same {α : Type} {R : α → α → Prop} {f : Fail} {w w' : World} (hw : WRel c w w') :
    RRel c R (.fail f w) (.fail f w') := ⟨FRel.refl f, hw⟩

theorem RRel.stuck {α : Type} {R : α → α → Prop} {s s' : String} {w w' : World} (hw : WRel c w w') :
    RRel c R (.fail (.stuck s) w) (.fail (.stuck s') w') := ⟨trivial, hw⟩

theorem RRel.andThen {α β : Type} {R : α → α → Prop} {S : β → β → Prop} {r r' : Res α}
    {K K' : α → World → Res β} (h : RRel c R r r')
    (hK : ∀ v v' w w', R v v' → WRel c w w' → RRel c S (K v w) (K' v' w')) :
    RRel c S (r.andThen K) (r'.andThen K') := by
  cases r with
  | ok v w =>
    cases r' with
    | ok v' w' => exact hK v v' w w' h.1 h.2
    | fail f' w' => exact h.elim
  | fail f w =>
    cases r' with
    | ok v' w' => exact h.elim
    | fail f' w' => exact h

/-! ### lists of related values -/

theorem VRelList.length_eq {vs vs' : List Val} (h : VRelList c vs vs') : vs.length = vs'.length := by
  induction vs generalizing vs' with
  | nil => cases h; rfl
  | cons v vs ih => cases h with | cons h1 h2 => simp [ih h2]

theorem VRelList.get {vs vs' : List Val} (h : VRelList c vs vs') (i : Nat) :
    (vs[i]? = none ∧ vs'[i]? = none) ∨ ∃ v v', vs[i]? = some v ∧ vs'[i]? = some v' ∧ VRel c v v' := by
  induction vs generalizing vs' i with
  | nil => cases h; exact Or.inl ⟨rfl, rfl⟩
  | cons v vs ih =>
    cases h with
    | cons h1 h2 =>
      cases i with
      | zero => exact Or.inr ⟨_, _, rfl, rfl, h1⟩
      | succ i => simpa using ih h2 i

theorem VRelList.append {vs vs' us us' : List Val} (h : VRelList c vs vs') (h2 : VRelList c us us') :
    VRelList c (vs ++ us) (vs' ++ us') := by
  induction vs generalizing vs' with
  | nil => cases h; simpa using h2
  | cons v vs ih => cases h with | cons a b => exact .cons a (ih b)

theorem VRelList.set {vs vs' : List Val} {v v' : Val} (h : VRelList c vs vs') (hv : VRel c v v') (i : Nat) :
    VRelList c (vs.set i v) (vs'.set i v') := by
  induction vs generalizing vs' i with
  | nil => cases h; exact .nil
  | cons a vs ih =>
    cases h with
    | cons h1 h2 =>
      cases i with
      | zero => exact .cons hv h2
      | succ i => exact .cons h1 (ih h2 i)

theorem VRelList.singleton {v v' : Val} (h : VRel c v v') : VRelList c [v] [v'] := .cons h .nil

/-! ### worlds -/

theorem WRel.with_out {w w' : World} (h : WRel c w w') (s : String) :
    WRel c { w with out := w.out ++ s } { w' with out := w'.out ++ s } :=
  ⟨by simp [h.out], h.store, h.spawned, h.externs, h.eager⟩

theorem WRel.with_externs {w w' : World} (h : WRel c w w') (s : String) :
    WRel c { w with externs := w.externs ++ [s] } { w' with externs := w'.externs ++ [s] } :=
  ⟨h.out, h.store, h.spawned, by simp [h.externs], h.eager⟩

theorem WRel.with_spawned {w w' : World} (h : WRel c w w') {v v' : Val} (hv : VRel c v v') :
    WRel c { w with spawned := w.spawned ++ [v] } { w' with spawned := w'.spawned ++ [v'] } :=
  ⟨h.out, h.store, h.spawned.append (.singleton hv), h.externs, h.eager⟩

theorem WRel.size_eq {w w' : World} (h : WRel c w w') : w.store.size = w'.store.size := by
  have := h.store.length_eq
  simpa using this

theorem WRel.push {w w' : World} (h : WRel c w w') {v v' : Val} (hv : VRel c v v') :
    WRel c { w with store := w.store.push v } { w' with store := w'.store.push v' } :=
  ⟨h.out, by simpa using h.store.append (.singleton hv), h.spawned, h.externs, h.eager⟩

theorem WRel.set {w w' : World} (h : WRel c w w') {v v' : Val} (hv : VRel c v v') (l : Nat) :
    WRel c { w with store := w.store.set! l v } { w' with store := w'.store.set! l v' } :=
  ⟨h.out, by simpa using h.store.set hv l, h.spawned, h.externs, h.eager⟩

theorem WRel.store_get {w w' : World} (h : WRel c w w') (l : Nat) :
    (w.store[l]? = none ∧ w'.store[l]? = none) ∨
      ∃ v v', w.store[l]? = some v ∧ w'.store[l]? = some v' ∧ VRel c v v' := by
  simpa using h.store.get l

theorem WRel.init (eager : Bool) : WRel c { eager := eager } { eager := eager } :=
  ⟨rfl, .nil, .nil, rfl, rfl⟩

/-! ### environments -/

theorem EnvRel.lookup {ρ ρ' : Sem.Env} (h : EnvRel c ρ ρ') (x : String) :
    (lookupEnv ρ x = none ∧ lookupEnv ρ' x = none) ∨
      ∃ v v', lookupEnv ρ x = some v ∧ lookupEnv ρ' x = some v' ∧ VRel c v v' ∧ noGlobal c x = true := by
  induction ρ generalizing ρ' with
  | nil => cases h; exact Or.inl ⟨rfl, rfl⟩
  | cons p ρ ih =>
    cases h with
    | @cons y v v' _ ρ2 hy hv hr =>
      by_cases hxy : y = x
      · subst hxy
        exact Or.inr ⟨v, v', by simp [lookupEnv], by simp [lookupEnv], hv, hy⟩
      · have hb : (y == x) = false := by simpa using hxy
        have e1 : lookupEnv ((y, v) :: ρ) x = lookupEnv ρ x := by simp [lookupEnv, List.find?, hb]
        have e2 : lookupEnv ((y, v') :: ρ2) x = lookupEnv ρ2 x := by simp [lookupEnv, List.find?, hb]
        rw [e1, e2]
        exact ih hr

theorem EnvRel.bind : ∀ (ps : List String) {vs vs' : List Val} {ρ ρ' : Sem.Env},
    (∀ p, p ∈ ps → noGlobal c p = true) → VRelList c vs vs' → EnvRel c ρ ρ' →
    EnvRel c (bindParams ps vs ρ) (bindParams ps vs' ρ')
  | [], vs, vs', _, _, _, _, hρ => by simpa [bindParams] using hρ
  | p :: ps, vs, vs', ρ, ρ', hp, hvs, hρ => by
    cases hvs with
    | nil => simpa [bindParams] using hρ
    | cons hv hrest =>
      simp only [bindParams]
      exact EnvRel.bind ps (fun q hq => hp q (List.mem_cons_of_mem _ hq)) hrest
        (.cons (hp p List.mem_cons_self) hv hρ)

end

/-! ### builtins -/
section
variable {c : Cx}

def BRel (c : Cx) (r r' : Option (Res Val)) : Prop :=
  match r, r' with
  | none, none => True
  | some r, some r' => RRel c (VRel c) r r'
  | _, _ => False

set_option maxRecDepth 4000 in
set_option maxHeartbeats 1600000 in
theorem builtin_rel (name : String) {args args' : List Val} {w w' : World}
    (h : VRelList c args args') (hw : WRel c w w') :
    BRel c (builtin name args w) (builtin name args' w') := by
  unfold builtin
  split
  case h_21 =>
    -- no builtin of that name and shape: the same holds for the related arguments
    split
    all_goals first
      | exact trivial
      | (exfalso
         repeat (first
           | cases ‹VRelList c _ (_ :: _)›
           | cases ‹VRelList c _ []›
           | cases ‹VRel c _ Val.unit›
           | cases ‹VRel c _ (Val.bool _)›
           | cases ‹VRel c _ (Val.int _ _ _)›
           | cases ‹VRel c _ (Val.float _ _)›
           | cases ‹VRel c _ (Val.str _)›
           | cases ‹VRel c _ (Val.ref _)›
           | cases ‹VRel c _ (Val.array _)›
           | cases ‹VRel c _ (Val.vec _)›)
         first | (solve_by_elim) | simp_all)
  all_goals
    repeat (first
      | cases ‹VRelList c (_ :: _) _›
      | cases ‹VRelList c [] _›
      | cases ‹VRel c Val.unit _›
      | cases ‹VRel c (Val.bool _) _›
      | cases ‹VRel c (Val.int _ _ _) _›
      | cases ‹VRel c (Val.float _ _) _›
      | cases ‹VRel c (Val.str _) _›
      | cases ‹VRel c (Val.ref _) _›
      | cases ‹VRel c (Val.array _) _›
      | cases ‹VRel c (Val.vec _) _›)
  all_goals (try simp only [])
  all_goals first
    | (simp only [BRel]
       first
        | exact RRel.fail_same hw
        | exact RRel.ok (.str _) hw
        | exact RRel.ok (.int _ _ _) hw
        | exact RRel.ok (.vec .nil) hw
        | exact RRel.ok .unit (hw.with_out _)
        | exact RRel.ok .unit ((hw.with_out _).with_out _)
        | exact RRel.ok (.vec (VRelList.append ‹_› (.singleton ‹_›))) hw
        | (rw [hw.size_eq]; exact RRel.ok (.ref _) (hw.push ‹_›))
        | (rw [VRelList.length_eq ‹_›]; exact RRel.ok (.int _ _ _) hw))
    | (rename_i l
       rcases hw.store_get l with ⟨h1, h2⟩ | ⟨v, v', h1, h2, hv⟩
       · simp only [h1, h2, BRel]; exact RRel.fail_same hw
       · simp only [h1, h2, BRel]; exact RRel.ok hv hw)
    | (rename_i i _ hvs
       split
       · simp only [BRel]; exact RRel.fail_same hw
       · rcases VRelList.get hvs i.toNat with ⟨h1, h2⟩ | ⟨v, v', h1, h2, hv⟩
         · simp only [h1, h2, BRel]; exact RRel.fail_same hw
         · simp only [h1, h2, BRel]; exact RRel.ok hv hw)
    | (rw [← hw.size_eq]
       split
       · simp only [BRel]; exact RRel.ok .unit (hw.set ‹_› _)
       · simp only [BRel]; exact RRel.fail_same hw)
    | (rename_i hvs
       rw [← VRelList.length_eq hvs]
       split
       · simp only [BRel]; exact RRel.fail_same hw
       · simp only [BRel]; exact RRel.ok (.array (VRelList.set hvs ‹_› _)) hw)
    | (repeat' split
       all_goals (simp only [BRel])
       all_goals first
        | exact trivial
        | exact RRel.fail_same hw
        | exact RRel.ok (.str _) hw)

/-! ### operators -/

def ExRel (c : Cx) : Except Fail Val → Except Fail Val → Prop
  | .ok v, .ok v' => VRel c v v'
  | .error f, .error f' => f = f'
  | _, _ => False

theorem valEq_rel {a a' b b' : Val} (h1 : VRel c a a') (h2 : VRel c b b') : valEq a' b' = valEq a b := by
  cases h1 <;> cases h2 <;> simp [valEq]

set_option maxHeartbeats 4000000 in
theorem binop_rel (op : BinOp) {a a' b b' : Val} (h1 : VRel c a a') (h2 : VRel c b b') :
    ExRel c (binop op a b) (binop op a' b') := by
  cases h1
  case unit => cases h2 <;> cases op <;> simp [binop, valEq, ExRel] <;> (try constructor)
  case bool => cases h2 <;> cases op <;> simp [binop, valEq, ExRel] <;> (try constructor)
  case int =>
    cases h2 <;> cases op <;> simp [binop, valEq, ExRel] <;> (try constructor)
    all_goals (rename_i y; by_cases hz : y = 0 <;> simp [hz] <;> constructor)
  case float => cases h2 <;> cases op <;> simp [binop, valEq, ExRel] <;> (try constructor)
  case str => cases h2 <;> cases op <;> simp [binop, valEq, ExRel] <;> (try constructor)
  all_goals (cases op <;> simp [binop, valEq, ExRel])

theorem unop_rel (op : UnOp) {a a' : Val} (h1 : VRel c a a') : ExRel c (unop op a) (unop op a') := by
  cases h1 <;> cases op <;> simp [unop, ExRel] <;> (try constructor)

theorem primEq_eq {p q : Prim} (h : Lift.primEq p q = true) : p = q := by
  cases p <;> cases q <;> simp_all [Lift.primEq]

/-! ### arm selection -/

def headMatches : Lift.Head → Val → Bool
  | .ctor i, .enumV _ j _ => i == j
  | .lit p, v => (valEq (primVal p) v).getD false
  | _, _ => false

theorem armMatches_eq (lhs : Expr) (v : Val) : armMatches lhs v = headMatches (Lift.armHead lhs) v := by
  cases lhs with
  | constr k ty args => cases k <;> cases v <;> simp [armMatches, Lift.armHead, headMatches]
  | tag i ty => cases v <;> simp [armMatches, Lift.armHead, headMatches]
  | prim p => cases v <;> simp [armMatches, Lift.armHead, headMatches]
  | _ => cases v <;> simp [armMatches, Lift.armHead, headMatches]

theorem VRel_primVal (p : Prim) : VRel c (primVal p) (primVal p) := by
  cases p <;> simp [primVal] <;> constructor

theorem headMatches_rel {h h' : Lift.Head} {v v' : Val} (hh : Lift.headEq h h' = true) (hv : VRel c v v') :
    headMatches h' v' = headMatches h v := by
  cases h <;> cases h' <;> simp [Lift.headEq] at hh
  · subst hh; cases hv <;> simp [headMatches]
  · have := primEq_eq hh; subst this
    simp only [headMatches]
    rw [valEq_rel (VRel_primVal _) hv]
  · cases hv <;> simp [headMatches]

theorem armMatches_rel {lhs lhs' : Expr} {v v' : Val}
    (hh : Lift.headEq (Lift.armHead lhs) (Lift.armHead lhs') = true)
    (hv : VRel c v v') : armMatches lhs' v' = armMatches lhs v := by
  rw [armMatches_eq, armMatches_eq, headMatches_rel hh hv]

end
end Goml.MonoSim
