import GomlVerif.Lemmas.PipeMonoRel
/-!
Pipeline composition, mono link: an accepted pair (`MonoSim.monoOk c`) is a lock-step simulation
under `Sem` — for every fuel `n`, evaluating related expressions in related environments and
worlds gives related results (`SimAt c n`), by induction on `n` over all node kinds, operand
lists, arms and `apply`.
-/
namespace Goml.MonoSim
open Goml Goml.Sem

/-- the simulation statement at one fuel -/
structure SimAt (c : Cx) (n : Nat) : Prop where
  expr : ∀ {e e' : Expr} {ρ ρ' : Sem.Env} {w w' : World}, eOk c e e' = true → EnvRel c ρ ρ' → WRel c w w' →
    RRel c (VRel c) (eval n c.P ρ w e) (eval n c.P' ρ' w' e')
  list : ∀ {es es' : List Expr} {ρ ρ' : Sem.Env} {w w' : World}, eOkL c es es' = true → EnvRel c ρ ρ' →
    WRel c w w' → RRel c (VRelList c) (evalList n c.P ρ w es) (evalList n c.P' ρ' w' es')
  arms : ∀ {arms arms' : List Arm} {d d' : Option Expr} {ρ ρ' : Sem.Env} {w w' : World} {v v' : Val},
    eOkA c arms arms' = true → eOkO c d d' = true → EnvRel c ρ ρ' → WRel c w w' → VRel c v v' →
    RRel c (VRel c) (evalArms n c.P ρ w v arms d) (evalArms n c.P' ρ' w' v' arms' d')
  app : ∀ {f f' : Val} {args args' : List Val} {w w' : World}, VRel c f f' → VRelList c args args' →
    WRel c w w' → RRel c (VRel c) (apply n c.P w f args) (apply n c.P' w' f' args')

section
variable {c : Cx}

/-! ### what `monoOk` gives -/

theorem pair_find (hok : monoOk c = true) {x x' : String} (h : pairMem c x x' = true) :
    ∃ f g, c.P.findFn x = some f ∧ c.P'.findFn x' = some g ∧ fnPairOk c f g = true := by
  unfold monoOk at hok
  simp only [Bool.and_eq_true, List.all_eq_true] at hok
  unfold pairMem at h
  simp only [List.any_eq_true, Bool.and_eq_true, beq_iff_eq] at h
  obtain ⟨p, hp, rfl, rfl⟩ := h
  have := hok.1.1 p hp
  unfold pairOk at this
  split at this
  · rename_i f g hf hg; exact ⟨f, g, hf, hg, this⟩
  · cases this

theorem impls_eq (hok : monoOk c = true) : c.P.impls = c.P'.impls := by
  unfold monoOk at hok
  simp only [Bool.and_eq_true, decide_eq_true_eq] at hok
  exact hok.1.2

theorem noGlobal_P {x : String} (h : noGlobal c x = true) : c.P.findFn x = none := by
  unfold noGlobal at h
  simp only [Bool.and_eq_true, Option.isNone_iff_eq_none] at h
  exact h.1

theorem noGlobal_P' {x : String} (h : noGlobal c x = true) : c.P'.findFn x = none := by
  unfold noGlobal at h
  simp only [Bool.and_eq_true, Option.isNone_iff_eq_none] at h
  exact h.2

/-- a function reference: bound in both environments to related values, or a function value that
    means the same on both sides -/
theorem var_rel (hok : monoOk c = true) {x x' : String} (h : fnOk c x x' = true) {ρ ρ' : Sem.Env}
    (hρ : EnvRel c ρ ρ') :
    VRel c ((lookupEnv ρ x).getD (.fn x)) ((lookupEnv ρ' x').getD (.fn x')) := by
  have h0 := h
  unfold fnOk at h
  simp only [Bool.or_eq_true, Bool.and_eq_true, beq_iff_eq] at h
  rcases h with ⟨rfl, _⟩ | hp
  · rcases hρ.lookup x with ⟨h1, h2⟩ | ⟨v, v', h1, h2, hv, _⟩
    · rw [h1, h2]; exact .fn h0
    · rw [h1, h2]; exact hv
  · obtain ⟨f, g, hf, hg, _⟩ := pair_find hok hp
    have e1 : lookupEnv ρ x = none := by
      rcases hρ.lookup x with ⟨h1, _⟩ | ⟨v, v', _, _, _, hn⟩
      · exact h1
      · rw [noGlobal_P hn] at hf; cases hf
    have e2 : lookupEnv ρ' x' = none := by
      rcases hρ.lookup x' with ⟨_, h2⟩ | ⟨v, v', _, _, _, hn⟩
      · exact h2
      · rw [noGlobal_P' hn] at hg; cases hg
    rw [e1, e2]; exact .fn h0

theorem namesOk_names {ps ps' : List (String × Ty)} (h : namesOk c ps ps' = true) :
    ps.map (·.1) = ps'.map (·.1) ∧ ∀ p, p ∈ ps.map (·.1) → noGlobal c p = true := by
  unfold namesOk at h
  simp only [Bool.and_eq_true, beq_iff_eq, List.all_eq_true] at h
  refine ⟨h.1, ?_⟩
  intro p hp
  simp only [List.mem_map] at hp
  obtain ⟨q, hq, rfl⟩ := hp
  exact h.2 q hq

theorem sc_rel {a a' : Val} (op : BinOp) (h : VRel c a a') :
    scAnd op a' = scAnd op a ∧ scOr op a' = scOr op a ∧ logicalNonBool op a' = logicalNonBool op a := by
  cases h <;> simp [scAnd, scOr, logicalNonBool]

/-! ### the step: fuel `n + 1` from fuel `n` -/

/-- split on the target expression; every constructor but the matching one is rejected -/
macro "eok_inv" h:ident e:ident : tactic =>
  `(tactic| (cases $e:ident <;> simp only [eOk, Bool.false_eq_true] at $h:ident))

theorem step_app (hok : monoOk c = true) {n : Nat} (ih : SimAt c n) {f f' : Val} {args args' : List Val}
    {w w' : World} (hf : VRel c f f') (ha : VRelList c args args') (hw : WRel c w w') :
    RRel c (VRel c) (apply (n + 1) c.P w f args) (apply (n + 1) c.P' w' f' args') := by
  cases hf with
  | closure hb hps hρ =>
    rw [apply_closure, apply_closure]
    exact ih.expr hb (EnvRel.bind _ hps ha hρ) hw
  | @fn x x' hx =>
    rw [apply_fn, apply_fn]
    have h0 := hx
    unfold fnOk at hx
    simp only [Bool.or_eq_true, Bool.and_eq_true, beq_iff_eq] at hx
    rcases hx with ⟨rfl, hn⟩ | hp
    · rw [noGlobal_P hn, noGlobal_P' hn]
      simp only []
      have hb := builtin_rel (c := c) x ha hw
      revert hb
      cases builtin x args w <;> cases builtin x args' w' <;> simp only [BRel] <;> intro hb
      · exact RRel.ok .unit (hw.with_externs x)
      · exact hb.elim
      · exact hb.elim
      · exact hb
    · obtain ⟨f0, g0, hf0, hg0, hfg⟩ := pair_find hok hp
      rw [hf0, hg0]
      simp only []
      unfold fnPairOk at hfg
      simp only [Bool.and_eq_true] at hfg
      obtain ⟨hnames, hall⟩ := namesOk_names hfg.1
      rw [← hnames]
      exact ih.expr hfg.2 (EnvRel.bind _ hall ha .nil) hw
  | @structV sn sn' vs vs' hs _ =>
    rw [apply_structV, apply_structV]
    unfold structOk applyName at hs
    simp only [Bool.and_eq_true, Option.isNone_iff_eq_none] at hs
    rw [hs.1, hs.2]
    exact RRel.stuck hw
  | unit => rw [apply, apply] <;> first | exact RRel.stuck hw | (intros; simp_all)
  | bool => rw [apply, apply] <;> first | exact RRel.stuck hw | (intros; simp_all)
  | int => rw [apply, apply] <;> first | exact RRel.stuck hw | (intros; simp_all)
  | float => rw [apply, apply] <;> first | exact RRel.stuck hw | (intros; simp_all)
  | str => rw [apply, apply] <;> first | exact RRel.stuck hw | (intros; simp_all)
  | tuple => rw [apply, apply] <;> first | exact RRel.stuck hw | (intros; simp_all)
  | enumV => rw [apply, apply] <;> first | exact RRel.stuck hw | (intros; simp_all)
  | array => rw [apply, apply] <;> first | exact RRel.stuck hw | (intros; simp_all)
  | vec => rw [apply, apply] <;> first | exact RRel.stuck hw | (intros; simp_all)
  | ref => rw [apply, apply] <;> first | exact RRel.stuck hw | (intros; simp_all)
  | dyn => rw [apply, apply] <;> first | exact RRel.stuck hw | (intros; simp_all)

theorem step_list {n : Nat} (ih : SimAt c n) {es es' : List Expr} {ρ ρ' : Sem.Env} {w w' : World}
    (h : eOkL c es es' = true) (hρ : EnvRel c ρ ρ') (hw : WRel c w w') :
    RRel c (VRelList c) (evalList (n + 1) c.P ρ w es) (evalList (n + 1) c.P' ρ' w' es') := by
  cases es with
  | nil =>
    cases es' with
    | nil => rw [evalList_nil_at, evalList_nil_at]; exact RRel.ok .nil hw
    | cons _ _ => simp [eOkL] at h
  | cons e es =>
    cases es' with
    | nil => simp [eOkL] at h
    | cons e' es' =>
      simp only [eOkL, Bool.and_eq_true] at h
      rw [evalList_cons_at, evalList_cons_at]
      refine (ih.expr h.1 hρ hw).andThen ?_
      intro v v' w1 w1' hv hw1
      refine (ih.list h.2 hρ hw1).andThen ?_
      intro vs vs' w2 w2' hvs hw2
      exact RRel.ok (.cons hv hvs) hw2

theorem step_arms {n : Nat} (ih : SimAt c n) {arms arms' : List Arm} {d d' : Option Expr} {ρ ρ' : Sem.Env}
    {w w' : World} {v v' : Val} (h : eOkA c arms arms' = true) (hd : eOkO c d d' = true)
    (hρ : EnvRel c ρ ρ') (hw : WRel c w w') (hv : VRel c v v') :
    RRel c (VRel c) (evalArms (n + 1) c.P ρ w v arms d) (evalArms (n + 1) c.P' ρ' w' v' arms' d') := by
  cases arms with
  | nil =>
    cases arms' with
    | cons _ _ => simp [eOkA] at h
    | nil =>
      rw [evalArms_nil_at, evalArms_nil_at]
      cases d with
      | none =>
        cases d' with
        | none => exact RRel.stuck hw
        | some _ => simp [eOkO] at hd
      | some d0 =>
        cases d' with
        | none => simp [eOkO] at hd
        | some d1 =>
          simp only [eOkO] at hd
          exact ih.expr hd hρ hw
  | cons a rest =>
    obtain ⟨lhs, body⟩ := a
    cases arms' with
    | nil => simp [eOkA] at h
    | cons a' rest' =>
      obtain ⟨lhs', body'⟩ := a'
      simp only [eOkA, Bool.and_eq_true] at h
      rw [evalArms_cons_at, evalArms_cons_at, armMatches_rel h.1.1 hv]
      split
      · exact ih.expr h.1.2 hρ hw
      · exact ih.arms h.2 hd hρ hw hv

theorem step_expr (hok : monoOk c = true) {n : Nat} (ih : SimAt c n) {e e' : Expr} {ρ ρ' : Sem.Env}
    {w w' : World} (h : eOk c e e' = true) (hρ : EnvRel c ρ ρ') (hw : WRel c w w') :
    RRel c (VRel c) (eval (n + 1) c.P ρ w e) (eval (n + 1) c.P' ρ' w' e') := by
  cases e with
  | var x t =>
    eok_inv h e'
    rw [eval_var, eval_var]
    exact RRel.ok (var_rel hok h hρ) hw
  | prim p =>
    eok_inv h e'
    have := primEq_eq h; subst this
    rw [eval_prim, eval_prim]
    exact RRel.ok (VRel_primVal p) hw
  | tag i t =>
    eok_inv h e'
    simp only [beq_iff_eq] at h; subst h
    rw [eval_tag, eval_tag]
    exact RRel.ok (.enumV .nil) hw
  | constr k t args =>
    eok_inv h e'
    rename_i k' t' args'
    simp only [Bool.and_eq_true] at h
    rw [eval_constr, eval_constr]
    refine (ih.list h.2 hρ hw).andThen ?_
    intro vs vs' w1 w1' hvs hw1
    have hk := h.1
    cases k with
    | enum a b i =>
      cases k' with
      | enum a' b' j =>
        simp only [ctorOk, beq_iff_eq] at hk; subst hk
        exact RRel.ok (.enumV hvs) hw1
      | struct _ => simp [ctorOk] at hk
    | struct sn =>
      cases k' with
      | enum _ _ _ => simp [ctorOk] at hk
      | struct sn' =>
        simp only [ctorOk] at hk
        exact RRel.ok (.structV hk hvs) hw1
  | tuple t items =>
    eok_inv h e'
    rw [eval_tuple, eval_tuple]
    refine (ih.list h hρ hw).andThen ?_
    intro vs vs' w1 w1' hvs hw1
    exact RRel.ok (.tuple hvs) hw1
  | array t items =>
    eok_inv h e'
    rw [eval_array, eval_array]
    refine (ih.list h hρ hw).andThen ?_
    intro vs vs' w1 w1' hvs hw1
    exact RRel.ok (.array hvs) hw1
  | closure t ps body =>
    eok_inv h e'
    simp only [Bool.and_eq_true] at h
    obtain ⟨hnames, hall⟩ := namesOk_names h.1
    rw [eval_closure, eval_closure, ← hnames]
    exact RRel.ok (.closure h.2 hall hρ) hw
  | letE x v b =>
    eok_inv h e'
    simp only [Bool.and_eq_true, beq_iff_eq] at h
    obtain ⟨⟨⟨rfl, hx⟩, hv⟩, hb⟩ := h
    rw [eval_letE, eval_letE]
    refine (ih.expr hv hρ hw).andThen ?_
    intro vv vv' w1 w1' hvv hw1
    exact ih.expr hb (.cons hx hvv hρ) hw1
  | matchE t s arms d =>
    eok_inv h e'
    simp only [Bool.and_eq_true] at h
    rw [eval_matchE, eval_matchE]
    refine (ih.expr h.1.1 hρ hw).andThen ?_
    intro v v' w1 w1' hv hw1
    exact ih.arms h.1.2 h.2 hρ hw1 hv
  | ite a t e2 =>
    eok_inv h e'
    simp only [Bool.and_eq_true] at h
    rw [eval_ite, eval_ite]
    refine (ih.expr h.1.1 hρ hw).andThen ?_
    intro v v' w1 w1' hv hw1
    cases hv with
    | bool b =>
      cases b
      · exact ih.expr h.2 hρ hw1
      · exact ih.expr h.1.2 hρ hw1
    | _ => exact RRel.stuck hw1
  | «while» a b =>
    have h0 := h
    eok_inv h e'
    simp only [Bool.and_eq_true] at h
    rw [eval_while, eval_while]
    refine (ih.expr h.1 hρ hw).andThen ?_
    intro v v' w1 w1' hv hw1
    cases hv with
    | bool bb =>
      cases bb
      · exact RRel.ok .unit hw1
      · refine (ih.expr h.2 hρ hw1).andThen ?_
        intro _ _ w2 w2' _ hw2
        exact ih.expr h0 hρ hw2
    | _ => exact RRel.stuck hw1
  | go e0 =>
    eok_inv h e'
    rw [eval_go, eval_go]
    refine (ih.expr h hρ hw).andThen ?_
    intro v v' w1 w1' hv hw1
    by_cases he : w1.eager = true
    · have he' : w1'.eager = true := by rw [← hw1.eager]; exact he
      rw [if_pos he, if_pos he']
      refine (ih.app hv .nil hw1).andThen ?_
      intro _ _ w2 w2' _ hw2
      exact RRel.ok .unit hw2
    · have he' : ¬ w1'.eager = true := by rw [← hw1.eager]; exact he
      rw [if_neg he, if_neg he']
      exact RRel.ok .unit (hw1.with_spawned hv)
  | cget k i t e0 =>
    eok_inv h e'
    simp only [Bool.and_eq_true, beq_iff_eq] at h
    obtain ⟨rfl, he⟩ := h
    rw [eval_cget, eval_cget]
    refine (ih.expr he hρ hw).andThen ?_
    intro v v' w1 w1' hv hw1
    cases hv with
    | enumV hvs =>
      rcases hvs.get i with ⟨h1, h2⟩ | ⟨a, a', h1, h2, ha⟩
      · simp only [h1, h2]; exact RRel.stuck hw1
      · simp only [h1, h2]; exact RRel.ok ha hw1
    | structV _ hvs =>
      rcases hvs.get i with ⟨h1, h2⟩ | ⟨a, a', h1, h2, ha⟩
      · simp only [h1, h2]; exact RRel.stuck hw1
      · simp only [h1, h2]; exact RRel.ok ha hw1
    | _ => exact RRel.stuck hw1
  | un op t e0 =>
    eok_inv h e'
    simp only [Bool.and_eq_true, decide_eq_true_eq] at h
    obtain ⟨rfl, he⟩ := h
    rw [eval_un, eval_un]
    refine (ih.expr he hρ hw).andThen ?_
    intro v v' w1 w1' hv hw1
    have := unop_rel op hv
    revert this
    cases unop op v <;> cases unop op v' <;> simp only [ExRel] <;> intro hr
    · subst hr; exact RRel.fail_same hw1
    · exact hr.elim
    · exact hr.elim
    · exact RRel.ok hr hw1
  | bin op t l r =>
    eok_inv h e'
    simp only [Bool.and_eq_true, decide_eq_true_eq] at h
    obtain ⟨⟨rfl, hl⟩, hr⟩ := h
    rw [eval_bin, eval_bin]
    refine (ih.expr hl hρ hw).andThen ?_
    intro a a' w1 w1' ha hw1
    obtain ⟨s1, s2, s3⟩ := sc_rel op ha
    rw [s1, s2, s3]
    by_cases c1 : scAnd op a = true
    · simp only [c1, if_true]; exact RRel.ok (.bool false) hw1
    · simp only [c1]
      by_cases c2 : scOr op a = true
      · simp only [c2, if_true]; exact RRel.ok (.bool true) hw1
      · simp only [c2]
        by_cases c3 : logicalNonBool op a = true
        · simp only [c3, if_true]; exact RRel.stuck hw1
        · simp only [c3]
          refine (ih.expr hr hρ hw1).andThen ?_
          intro b b' w2 w2' hb hw2
          have := binop_rel op ha hb
          revert this
          cases binop op a b <;> cases binop op a' b' <;> simp only [ExRel] <;> intro hx
          · subst hx; exact RRel.fail_same hw2
          · exact hx.elim
          · exact hx.elim
          · exact RRel.ok hx hw2
  | call t f args =>
    eok_inv h e'
    simp only [Bool.and_eq_true] at h
    rw [eval_call, eval_call]
    refine (ih.expr h.1 hρ hw).andThen ?_
    intro fv fv' w1 w1' hfv hw1
    refine (ih.list h.2 hρ hw1).andThen ?_
    intro vs vs' w2 w2' hvs hw2
    exact ih.app hfv hvs hw2
  | toDyn tr forTy t e0 =>
    eok_inv h e'
    simp only [Bool.and_eq_true, beq_iff_eq] at h
    obtain ⟨⟨⟨rfl, hk⟩, hd⟩, he⟩ := h
    rw [eval_toDyn, eval_toDyn, ← hk]
    refine (ih.expr he hρ hw).andThen ?_
    intro v v' w1 w1' hv hw1
    exact RRel.ok (.dyn hd hv) hw1
  | dynCall tr m t recv args =>
    eok_inv h e'
    simp only [Bool.and_eq_true, beq_iff_eq] at h
    obtain ⟨⟨⟨rfl, rfl⟩, hr⟩, ha⟩ := h
    rw [eval_dynCall, eval_dynCall]
    refine (ih.expr hr hρ hw).andThen ?_
    intro rv rv' w1 w1' hrv hw1
    cases hrv with
    | @dyn tr0 key v v' hd hv =>
      simp only []
      refine (ih.list ha hρ hw1).andThen ?_
      intro vs vs' w2 w2' hvs hw2
      rw [← impls_eq hok]
      cases hfind : c.P.impls.find? (fun i => i.1 == tr && i.2.1 == key && i.2.2.1 == m) with
      | none => exact RRel.stuck hw2
      | some row =>
        simp only []
        have hmem := List.mem_of_find?_eq_some hfind
        have hp := List.find?_some hfind
        simp only [Bool.and_eq_true, beq_iff_eq] at hp
        unfold dynOk at hd
        simp only [List.all_eq_true] at hd
        have hrow := hd row hmem
        simp only [hp.1.2, beq_self_eq_true, Bool.not_true, Bool.false_or] at hrow
        exact ih.app (.fn hrow) (.cons hv hvs) hw2
    | _ => exact RRel.stuck hw1
  | traitCall tr m t recv args => simp [eOk] at h
  | proj i t e0 =>
    eok_inv h e'
    simp only [Bool.and_eq_true, beq_iff_eq] at h
    obtain ⟨rfl, he⟩ := h
    rw [eval_proj, eval_proj]
    refine (ih.expr he hρ hw).andThen ?_
    intro v v' w1 w1' hv hw1
    cases hv with
    | tuple hvs =>
      rcases hvs.get i with ⟨h1, h2⟩ | ⟨a, a', h1, h2, ha⟩
      · simp only [h1, h2]; exact RRel.stuck hw1
      · simp only [h1, h2]; exact RRel.ok ha hw1
    | _ => exact RRel.stuck hw1

/-- **the lock-step simulation**, for every amount of fuel -/
theorem sim_all (hok : monoOk c = true) (n : Nat) : SimAt c n := by
  induction n with
  | zero =>
    refine ⟨?_, ?_, ?_, ?_⟩
    · intro e e' ρ ρ' w w' _ _ hw; rw [eval_zero, eval_zero]; exact RRel.fail_same hw
    · intro es es' ρ ρ' w w' _ _ hw; rw [evalList_zero, evalList_zero]; exact RRel.fail_same hw
    · intro arms arms' d d' ρ ρ' w w' v v' _ _ _ hw _; rw [evalArms_zero, evalArms_zero]; exact RRel.fail_same hw
    · intro f f' args args' w w' _ _ hw; rw [apply_zero, apply_zero]; exact RRel.fail_same hw
  | succ n ih =>
    exact ⟨fun h hρ hw => step_expr hok ih h hρ hw, fun h hρ hw => step_list ih h hρ hw,
      fun h hd hρ hw hv => step_arms ih h hd hρ hw hv, fun hf ha hw => step_app hok ih hf ha hw⟩

/-! ### whole programs -/

/-- `main` is its own instance -/
theorem main_rel (hok : monoOk c = true) : VRel c (.fn "main") (.fn "main") := by
  refine .fn ?_
  unfold monoOk at hok
  simp only [Bool.and_eq_true] at hok
  unfold fnOk
  simp [hok.2]

/-- **run-level statement**: with the same fuel and schedule, the Core program and its accepted
    monomorphisation print the same, record the same extern events and end the same way — both
    normally, both with the same panic, both out of fuel, or both stuck. -/
theorem run_rel (hok : monoOk c = true) (fuel : Nat) (eager : Bool) :
    (run fuel c.P' "main" eager).out = (run fuel c.P "main" eager).out ∧
    (run fuel c.P' "main" eager).externs = (run fuel c.P "main" eager).externs ∧
    ((run fuel c.P' "main" eager).status = (run fuel c.P "main" eager).status ∨
     (∃ s s', (run fuel c.P "main" eager).status = "stuck:" ++ s ∧
        (run fuel c.P' "main" eager).status = "stuck:" ++ s')) := by
  have h := (sim_all hok fuel).app (main_rel hok) .nil (WRel.init (c := c) eager)
  unfold run
  revert h
  cases apply fuel c.P { eager := eager } (.fn "main") [] with
  | ok v w =>
    cases apply fuel c.P' { eager := eager } (.fn "main") [] with
    | ok v' w' => intro h; exact ⟨h.2.out.symm, h.2.externs.symm, Or.inl rfl⟩
    | fail f' w' => intro h; exact h.elim
  | fail f w =>
    cases apply fuel c.P' { eager := eager } (.fn "main") [] with
    | ok v' w' => intro h; exact h.elim
    | fail f' w' =>
      intro h
      refine ⟨h.2.out.symm, h.2.externs.symm, ?_⟩
      have hf := h.1
      cases f <;> cases f' <;> simp only [FRel] at hf
      · subst hf; exact Or.inl rfl
      · exact Or.inl rfl
      · exact Or.inr ⟨_, _, rfl, rfl⟩

/-- a definite Core run (ends normally or panics) is reproduced exactly, with the same fuel -/
theorem run_definite (hok : monoOk c = true) (fuel : Nat) (eager : Bool)
    (hgood : (run fuel c.P "main" eager).status = "ok" ∨ ∃ k, (run fuel c.P "main" eager).status = "panic:" ++ k) :
    run fuel c.P' "main" eager = run fuel c.P "main" eager := by
  obtain ⟨h1, h2, h3⟩ := run_rel hok fuel eager
  have hs : (run fuel c.P' "main" eager).status = (run fuel c.P "main" eager).status := by
    rcases h3 with h3 | ⟨s, s', h3, _⟩
    · exact h3
    · exfalso
      rcases hgood with hg | ⟨k, hg⟩
      · rw [hg] at h3
        have := congrArg String.toList h3
        simp at this
      · rw [hg] at h3
        have := congrArg String.toList h3
        simp at this
  cases hA : run fuel c.P' "main" eager with
  | mk o s x =>
    cases hB : run fuel c.P "main" eager with
    | mk o2 s2 x2 =>
      rw [hA, hB] at h1 h2 hs
      simp only at h1 h2 hs
      subst h1; subst h2; subst hs; rfl

end
end Goml.MonoSim
